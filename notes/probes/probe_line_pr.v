From Coq Require Import ZArith List Lia Ring ZifyBool Bool.
Open Scope Z_scope.

Section S.
Variable R:Type.
Variables (rO rI:R) (radd rmul rsub:R->R->R) (ropp:R->R).
Variable Rth : ring_theory rO rI radd rmul rsub ropp eq.
Add Ring Rr : Rth.
Infix "+r" := radd (at level 50, left associativity).
Infix "*r" := rmul (at level 40, left associativity).

(* sum over the integer interval [a, a+n) *)
Fixpoint sumf (n:nat) (a:Z) (f:Z->R) : R :=
  match n with O => rO | S k => f a +r sumf k (a+1) f end.
Definition sumZ (a b:Z) (f:Z->R) : R := sumf (Z.to_nat (b-a)) a f.

Lemma sumf_ext n a f g : (forall i, a <= i < a + Z.of_nat n -> f i = g i) -> sumf n a f = sumf n a g.
Proof. revert a; induction n as [|n IH]; intros a H; cbn [sumf]; auto.
  rewrite H by lia. rewrite (IH (a+1)); auto. intros; apply H; lia. Qed.
Lemma sumZ_ext a b f g : (forall i, a <= i < b -> f i = g i) -> sumZ a b f = sumZ a b g.
Proof. intros H. apply sumf_ext. intros; apply H; lia. Qed.
Lemma sumf_zero n a f : (forall i, a <= i < a + Z.of_nat n -> f i = rO) -> sumf n a f = rO.
Proof. revert a; induction n as [|n IH]; intros a H; cbn [sumf]; auto.
  rewrite H by lia. rewrite IH. ring. intros; apply H; lia. Qed.
Lemma sumf_add n a f g : sumf n a (fun i => f i +r g i) = sumf n a f +r sumf n a g.
Proof. revert a; induction n as [|n IH]; intros a; cbn [sumf]. ring. rewrite IH; ring. Qed.
Lemma sumf_scale n a c f : sumf n a (fun i => c *r f i) = c *r sumf n a f.
Proof. revert a; induction n as [|n IH]; intros a; cbn [sumf]. ring. rewrite IH; ring. Qed.
Lemma sumf_shift n a c f : sumf n a (fun i => f (i + c)) = sumf n (a + c) f.
Proof. revert a; induction n as [|n IH]; intros a; cbn [sumf]; auto.
  rewrite IH. replace (a + 1 + c) with (a + c + 1) by lia. reflexivity. Qed.
Lemma sumf_app n m a f : sumf (n+m) a f = sumf n a f +r sumf m (a + Z.of_nat n) f.
Proof. revert a; induction n as [|n IH]; intros a.
  - cbn [sumf plus]. replace (a + Z.of_nat 0) with a by lia. ring.
  - cbn [sumf plus]. rewrite IH. replace (a + 1 + Z.of_nat n) with (a + Z.of_nat (S n)) by lia. ring. Qed.
Lemma sumZ_split a b c f : a <= b <= c -> sumZ a c f = sumZ a b f +r sumZ b c f.
Proof. intros H. unfold sumZ. replace (Z.to_nat (c-a)) with (Z.to_nat (b-a) + Z.to_nat (c-b))%nat by lia.
  rewrite sumf_app. f_equal. f_equal. lia. Qed.
Lemma sumZ_zero a b f : (forall i, a <= i < b -> f i = rO) -> sumZ a b f = rO.
Proof. intros; apply sumf_zero; intros; apply H; lia. Qed.
(* widen: f vanishes outside [a,b) *)
Lemma sumZ_widen a b a' b' f : a' <= a -> a <= b -> b <= b' ->
  (forall i, a' <= i < b' -> ~(a <= i < b) -> f i = rO) -> sumZ a' b' f = sumZ a b f.
Proof. intros H1 H2 H3 Hz.
  rewrite (sumZ_split a' a b') by lia. rewrite (sumZ_split a b b') by lia.
  rewrite (sumZ_zero a' a), (sumZ_zero b b'). ring.
  intros; apply Hz; lia. intros; apply Hz; lia. Qed.
Lemma sumZ_shift a b c f : sumZ a b (fun i => f (i + c)) = sumZ (a+c) (b+c) f.
Proof. unfold sumZ. rewrite sumf_shift. f_equal. f_equal. lia. Qed.
Lemma sumZ_add a b f g : sumZ a b (fun i => f i +r g i) = sumZ a b f +r sumZ a b g.
Proof. apply sumf_add. Qed.
Lemma sumZ_scale a b c f : sumZ a b (fun i => c *r f i) = c *r sumZ a b f.
Proof. apply sumf_scale. Qed.
(* Fubini *)
Lemma sumf_swap n m a b (F:Z->Z->R) :
  sumf n a (fun i => sumf m b (fun j => F i j)) = sumf m b (fun j => sumf n a (fun i => F i j)).
Proof. revert a; induction n as [|n IH]; intros a; cbn [sumf].
  - symmetry. apply sumf_zero. reflexivity.
  - rewrite IH. rewrite <- sumf_add. reflexivity. Qed.
Lemma sumZ_swap a b c d (F:Z->Z->R) :
  sumZ a b (fun i => sumZ c d (fun j => F i j)) = sumZ c d (fun j => sumZ a b (fun i => F i j)).
Proof. apply sumf_swap. Qed.

(* zero extension *)
Definition zx (n:Z) (x:Z->R) : Z->R := fun i => if (0 <=? i) && (i <? n) then x i else rO.
Lemma zx_in n x i : 0 <= i < n -> zx n x i = x i.
Proof. intros; unfold zx. replace ((0 <=? i) && (i <? n)) with true by lia. reflexivity. Qed.
Lemma zx_out n x i : ~(0 <= i < n) -> zx n x i = rO.
Proof. intros; unfold zx. replace ((0 <=? i) && (i <? n)) with false by lia. reflexivity. Qed.


(* ---------- master reconstruction identity on the infinite line ---------- *)
Variables (L ro so : Z).
Hypothesis HL : 0 <= L.
Hypothesis Hrs : ro + so = L - 1.
Variables (d0 d1 g0 g1 : Z -> R).     (* dec_lo dec_hi rec_lo rec_hi, read only on [0,L) via zx *)

Definition anaL (dt:Z->R) (X:Z->R) (k:Z) : R := sumZ 0 L (fun m => dt m *r X (2*k + so - m)).
Definition synL (ka kb:Z) (c0 c1:Z->R) (i:Z) : R :=
  sumZ ka kb (fun k => zx L g0 (i + ro - 2*k) *r c0 k +r zx L g1 (i + ro - 2*k) *r c1 k).
(* kernel: depends on i only through the k-window and the parity of i+r (separate lemma) *)
Definition P (ka kb i d:Z) : R :=
  sumZ ka kb (fun k => zx L g0 (i + ro - 2*k) *r zx L d0 (d + (L-1) - (i + ro - 2*k))
                    +r zx L g1 (i + ro - 2*k) *r zx L d1 (d + (L-1) - (i + ro - 2*k))).

Lemma inner_reindex (gt dt:Z->R) X i k :
  zx L gt (i + ro - 2*k) *r sumZ 0 L (fun m => dt m *r X (2*k + so - m))
  = sumZ (1-L) L (fun d => zx L gt (i + ro - 2*k) *r zx L dt (d + (L-1) - (i + ro - 2*k)) *r X (i - d)).
Proof.
  set (a := i + ro - 2*k).
  destruct ((0 <=? a) && (a <? L)) eqn:Ea.
  - (* a in range: reindex m = d + (L-1) - a *)
    rewrite <- sumZ_scale.
    transitivity (sumZ (a-(L-1)) (a+1) (fun d => zx L gt a *r (zx L dt (d + (L-1) - a) *r X (i - d)))).
    + replace (sumZ 0 L (fun m => zx L gt a *r (dt m *r X (2*k + so - m))))
        with (sumZ (a-(L-1) + ((L-1)-a)) (a+1 + ((L-1)-a)) (fun m => zx L gt a *r (dt m *r X (2*k + so - m)))).
      2:{ f_equal; lia. }
      rewrite <- sumZ_shift. apply sumZ_ext. intros d Hd.
      rewrite (zx_in L dt) by lia.
      replace (d + (L - 1 - a)) with (d + (L-1) - a) by lia.
      replace (2*k + so - (d + (L-1) - a)) with (i - d) by (unfold a; lia).
      reflexivity.
    + rewrite (sumZ_widen (a-(L-1)) (a+1) (1-L) L) by (try lia; intros; rewrite (zx_out L dt) by lia; ring).
      apply sumZ_ext. intros; ring.
  - rewrite (zx_out L gt a) by lia.
    rewrite (sumZ_zero (1-L) L) by (intros; ring). ring.
Qed.

Theorem line_pr ka kb X i :
  synL ka kb (anaL d0 X) (anaL d1 X) i = sumZ (1-L) L (fun d => X (i - d) *r P ka kb i d).
Proof.
  unfold synL, anaL, P.
  transitivity (sumZ ka kb (fun k => sumZ (1-L) L (fun d =>
     (zx L g0 (i + ro - 2*k) *r zx L d0 (d + (L-1) - (i + ro - 2*k)) +r zx L g1 (i + ro - 2*k) *r zx L d1 (d + (L-1) - (i + ro - 2*k))) *r X (i-d)))).
  - apply sumZ_ext. intros k Hk. rewrite !inner_reindex. rewrite <- sumZ_add. apply sumZ_ext. intros; ring.
  - rewrite sumZ_swap. apply sumZ_ext. intros d Hd.
    transitivity (X (i-d) *r sumZ ka kb (fun k => zx L g0 (i + ro - 2*k) *r zx L d0 (d + (L-1) - (i + ro - 2*k)) +r zx L g1 (i + ro - 2*k) *r zx L d1 (d + (L-1) - (i + ro - 2*k)))).
    rewrite <- sumZ_scale. apply sumZ_ext. intros; ring. reflexivity.
Qed.

(* with the PR condition the reconstruction is exact *)
Definition delta (d:Z) : R := if d =? 0 then rI else rO.
Corollary line_pr_exact ka kb X i :
  (forall d, 1-L <= d < L -> P ka kb i d = delta d) -> 0 < L ->
  synL ka kb (anaL d0 X) (anaL d1 X) i = X i.
Proof.
  intros HP HLpos. rewrite line_pr.
  rewrite (sumZ_split (1-L) 0 L) by lia. rewrite (sumZ_split 0 1 L) by lia.
  rewrite (sumZ_zero (1-L) 0), (sumZ_zero 1 L).
  - unfold sumZ. replace (Z.to_nat (1-0)) with 1%nat by lia. cbn [sumf].
    rewrite HP by lia. unfold delta. replace (0 =? 0) with true by lia. replace (i - 0) with i by lia. ring.
  - intros d Hd. rewrite HP by lia. unfold delta. replace (d =? 0) with false by lia. ring.
  - intros d Hd. rewrite HP by lia. unfold delta. replace (d =? 0) with false by lia. ring.
Qed.
End S.
Check line_pr_exact.
Print Assumptions line_pr_exact.
