From Coq Require Import ZArith List Lia Ring ZifyBool.
Import ListNotations.
Open Scope Z_scope.
Ltac Zify.zify_post_hook ::= Z.to_euclidean_division_equations.

Section M.
Variable R:Type.
Variables (rO rI:R) (radd rmul rsub:R->R->R) (ropp:R->R).
Variable Rth : ring_theory rO rI radd rmul rsub ropp eq.
Add Ring Rr : Rth.
Infix "+r" := radd (at level 50, left associativity).
Infix "*r" := rmul (at level 40, left associativity).

Definition sig := Z -> R.
Fixpoint sumn (n:nat) (f:Z->R) : R := match n with O => rO | S k => sumn k f +r f (Z.of_nat k) end.
Definition of_list (l:list R) : sig := fun i => if (i <? 0) then rO else nth (Z.to_nat i) l rO.
Definition tab (n:Z) (f:sig) : list R := map (fun k => f (Z.of_nat k)) (seq 0 (Z.to_nat n)).
Definition mat (n:Z) (f:sig) : sig := of_list (tab n f).
Definition inr (n i:Z) := andb (0 <=? i) (i <? n).
Definition zext (n:Z) (x:sig) : sig := fun i => if inr n i then x i else rO.

Lemma mat_in n f i : 0 <= i < n -> mat n f i = f i.
Proof.
  intros H. unfold mat, of_list, tab.
  destruct (i <? 0) eqn:E; [lia|].
  rewrite nth_indep with (d':= f (Z.of_nat 0)).
  2:{ rewrite map_length, seq_length. lia. }
  rewrite (map_nth (fun k => f (Z.of_nat k))). rewrite seq_nth by lia. f_equal. lia.
Qed.
Lemma mat_out n f i : ~(0 <= i < n) -> mat n f i = rO.
Proof.
  intros H. unfold mat, of_list, tab.
  destruct (i <? 0) eqn:E; [reflexivity|].
  apply nth_overflow. rewrite map_length, seq_length. lia.
Qed.
Lemma zext_mat n f : forall i, zext n (mat n f) i = zext n f i.
Proof. intros i. unfold zext, inr. destruct (0 <=? i) eqn:A; destruct (i <? n) eqn:B; simpl; auto. apply mat_in; lia. Qed.

Lemma sumn_ext n f g : (forall k, 0 <= k < Z.of_nat n -> f k = g k) -> sumn n f = sumn n g.
Proof. induction n as [|n IH]; intros H; simpl; auto. rewrite IH, H; auto; try lia. intros; apply H; lia. Qed.
Lemma sumn_add n f g : sumn n (fun k => f k +r g k) = sumn n f +r sumn n g.
Proof. induction n as [|n IH]; simpl. ring. rewrite IH. ring. Qed.

Definition afb_per (L N:Z) (h:sig) (x:sig) : sig :=
  let L2 := L/2 in
  let xr := mat N (fun i => x ((i+L2) mod N)) in
  let full := mat (N/2+L2) (fun k => sumn (Z.to_nat L) (fun j => h j *r zext N xr (2*k+j-(L-1)))) in
  mat (N/2) (fun k => if k <? L2 then full k +r zext (N/2+L2) full (N/2+k) else full k).

Definition circ_spec (L N:Z) (h x:sig) : sig :=
  fun k => sumn (Z.to_nat L) (fun j => h j *r x ((2*k + j - (L-1) + L/2) mod N)).

Theorem afb_per_circ L N h x k :
  0 < L -> L mod 2 = 0 -> N mod 2 = 0 -> L <= N -> 0 <= k < N/2 ->
  afb_per L N h x k = circ_spec L N h x k.
Proof.
  intros HL HLe HNe HLN Hk. unfold afb_per, circ_spec. cbv zeta.
  rewrite mat_in by lia.
  set (xr := mat N _).
  set (body := fun k0 => sumn (Z.to_nat L) (fun j => h j *r zext N xr (2 * k0 + j - (L - 1)))).
  destruct (k <? L/2) eqn:Ek.
  - rewrite (mat_in (N/2+L/2) body) by lia. unfold zext at 1. unfold inr.
    replace ((0 <=? N/2+k) && (N/2+k <? N/2+L/2))%bool with true by lia.
    rewrite (mat_in (N/2+L/2) body) by lia. unfold body. rewrite <- sumn_add.
    apply sumn_ext. intros j Hj. rewrite <- (Rth.(Rdistr_l)) || idtac.
    unfold zext, inr, xr.
    destruct (0 <=? 2*k+j-(L-1)) eqn:A.
    + (* nonneg: first term live, second zero *)
      replace (2*k+j-(L-1) <? N) with true by lia. cbn [andb].
      replace ((0 <=? 2*(N/2+k)+j-(L-1)) && (2*(N/2+k)+j-(L-1) <? N))%bool with false by lia.
      rewrite mat_in by lia. replace ((2*k+j-(L-1)+L/2) mod N) with ((2*k+j-(L-1)+L/2) mod N) by reflexivity. ring.
    + cbn [andb].
      replace ((0 <=? 2*(N/2+k)+j-(L-1)) && (2*(N/2+k)+j-(L-1) <? N))%bool with true by lia.
      rewrite mat_in by lia.
      replace ((2*(N/2+k)+j-(L-1)+L/2) mod N) with ((2*k+j-(L-1)+L/2) mod N).
      ring.
      replace (2*(N/2+k)+j-(L-1)+L/2) with ((2*k+j-(L-1)+L/2) + 1*N) by lia.
      rewrite Z.mod_add by lia. reflexivity.
  - rewrite (mat_in (N/2+L/2) body) by lia. unfold body. apply sumn_ext. intros j Hj.
    unfold zext, inr, xr.
    replace ((0 <=? 2*k+j-(L-1)) && (2*k+j-(L-1) <? N))%bool with true by lia.
    rewrite mat_in by lia. reflexivity.
Qed.
End M.
Check afb_per_circ.
Print Assumptions afb_per_circ.
