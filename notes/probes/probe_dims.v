From Coq Require Import ZArith List Lia Bool ZifyBool.
Import ListNotations.
Open Scope Z_scope.
(* what a translator would emit for the FIXED get_dimensions5/6 *)
Definition get_dimensions5 (o_dim ri_dim : Z) : Z*Z*Z*Z :=
  let o_dim := o_dim mod 6 in
  let ri_dim := ri_dim mod 6 in
  let o_dim := if ri_dim <? o_dim then o_dim - 1 else o_dim in
  let '(h_dim, w_dim) :=
    if o_dim =? 4 then (2, 3) else if o_dim =? 3 then (2, 4) else (3, 4) in
  (o_dim, ri_dim, h_dim, w_dim).
Definition get_dimensions6 (o_dim ri_dim : Z) : Z*Z*Z*Z :=
  let '(o_dim, ri_dim, h_dim, w_dim) := get_dimensions5 o_dim ri_dim in
  let h_dim := if ri_dim <=? h_dim then h_dim + 1 else h_dim in
  let w_dim := if ri_dim <=? w_dim then w_dim + 1 else w_dim in
  (o_dim, ri_dim, h_dim, w_dim).
(* the ORIGINAL table *)
Definition get_dimensions6_orig (o_dim ri_dim : Z) : Z*Z*Z*Z :=
  let o_dim := o_dim mod 6 in
  let ri_dim := ri_dim mod 6 in
  let o_dim := if ri_dim <? o_dim then o_dim - 1 else o_dim in
  let h_dim := if (3 <=? o_dim) && (3 <=? ri_dim) then 2 else if (4 <=? o_dim) || (4 <=? ri_dim) then 3 else 4 in
  let w_dim := if (4 <=? o_dim) && (4 <=? ri_dim) then 3 else if (4 <=? o_dim) || (4 <=? ri_dim) then 4 else 5 in
  (o_dim, ri_dim, h_dim, w_dim).

(* truth: defined by actually inserting axes into the list of axis names *)
Inductive ax := AN | AC | AH | AW | AO | ARI.
Definition ax_eqb (a b:ax) : bool := match a,b with AN,AN|AC,AC|AH,AH|AW,AW|AO,AO|ARI,ARI => true | _,_ => false end.
Fixpoint insert_at {A} (n:nat) (a:A) (l:list A) : list A :=
  match n, l with O, _ => a :: l | S k, x::t => x :: insert_at k a t | S k, [] => [a] end.
Fixpoint index_of (a:ax) (l:list ax) : Z := match l with [] => -1 | x::t => if ax_eqb a x then 0 else 1 + index_of a t end.
(* torch.stack(reals, dim=o5) on (N,C,H,W), then torch.stack((r,i), dim=ri6) *)
Definition layout5 (o5:Z) := insert_at (Z.to_nat o5) AO [AN;AC;AH;AW].
Definition layout6 (o5 ri6:Z) := insert_at (Z.to_nat ri6) ARI (layout5 o5).

Definition ok5 (o ri:Z) : bool :=
  let '(o5, ri6, h, w) := get_dimensions5 o ri in
  let l := layout5 o5 in
  (index_of AO l =? o5) && (index_of AH l =? h) && (index_of AW l =? w).
Definition ok6 (f:Z->Z->Z*Z*Z*Z) (o ri:Z) : bool :=
  let '(o5, ri6, h, w) := f o ri in
  let l := layout6 o5 ri6 in
  (index_of ARI l =? ri mod 6) && (index_of AO l =? o mod 6) && (index_of AH l =? h) && (index_of AW l =? w).

Definition range6 := [0;1;2;3;4;5].
Definition pairs := flat_map (fun o => map (fun r => (o,r)) range6) range6.
Definition distinct (p:Z*Z) := negb (fst p =? snd p).

Lemma finite6 : forallb (fun p => implb (distinct p) (ok5 (fst p) (snd p) && ok6 get_dimensions6 (fst p) (snd p))) pairs = true.
Proof. vm_compute. reflexivity. Qed.

Lemma mod6_cases z : In (z mod 6) range6.
Proof. assert (0 <= z mod 6 < 6) by (apply Z.mod_pos_bound; lia). simpl. lia. Qed.

Lemma f_mod5 o ri : get_dimensions5 o ri = get_dimensions5 (o mod 6) (ri mod 6).
Proof. unfold get_dimensions5. rewrite !Z.mod_mod by lia. reflexivity. Qed.
Lemma f_mod6 o ri : get_dimensions6 o ri = get_dimensions6 (o mod 6) (ri mod 6).
Proof. unfold get_dimensions6. rewrite f_mod5. reflexivity. Qed.

Theorem dims_correct : forall o ri : Z, o mod 6 <> ri mod 6 -> ok5 o ri = true /\ ok6 get_dimensions6 o ri = true.
Proof.
  intros o ri Hd.
  assert (E5: ok5 o ri = ok5 (o mod 6) (ri mod 6)) by (unfold ok5; rewrite f_mod5; reflexivity).
  assert (E6: ok6 get_dimensions6 o ri = ok6 get_dimensions6 (o mod 6) (ri mod 6)) by (unfold ok6; rewrite f_mod6, !Z.mod_mod by lia; reflexivity).
  rewrite E5, E6.
  pose proof finite6 as F. rewrite forallb_forall in F.
  assert (Hin: In (o mod 6, ri mod 6) pairs).
  { unfold pairs. apply in_flat_map. exists (o mod 6). split. apply mod6_cases. apply in_map. apply mod6_cases. }
  specialize (F _ Hin). cbn [fst snd] in F.
  unfold distinct in F. cbn [fst snd] in F.
  destruct (o mod 6 =? ri mod 6) eqn:E; [lia|]. cbn [negb implb] in F.
  apply andb_true_iff in F. exact F.
Qed.
Print Assumptions dims_correct.

(* the original table is refuted *)
Theorem dims6_orig_refuted : exists o ri, o mod 6 <> ri mod 6 /\ ok6 get_dimensions6_orig o ri = false.
Proof. exists 2, 4. split. vm_compute; discriminate. vm_compute. reflexivity. Qed.
