From Coq Require Import ZArith List Lia Ring ZifyBool Bool.
Open Scope Z_scope.

Section S.
Variable R:Type.
Variables (rO rI:R) (radd rmul rsub:R->R->R) (ropp:R->R).
Variable Rth : ring_theory rO rI radd rmul rsub ropp eq.
Add Ring Rr : Rth.
Infix "+r" := radd (at level 50, left associativity).
Infix "*r" := rmul (at level 40, left associativity).

(* sum over the integer interval [a, a+n) *)
Fixpoint sumf (n:nat) (a:Z) (f:Z->R) : R :=
  match n with O => rO | S k => f a +r sumf k (a+1) f end.
Definition sumZ (a b:Z) (f:Z->R) : R := sumf (Z.to_nat (b-a)) a f.

Lemma sumf_ext n a f g : (forall i, a <= i < a + Z.of_nat n -> f i = g i) -> sumf n a f = sumf n a g.
Proof. revert a; induction n as [|n IH]; intros a H; cbn [sumf]; auto.
  rewrite H by lia. rewrite (IH (a+1)); auto. intros; apply H; lia. Qed.
Lemma sumZ_ext a b f g : (forall i, a <= i < b -> f i = g i) -> sumZ a b f = sumZ a b g.
Proof. intros H. apply sumf_ext. intros; apply H; lia. Qed.
Lemma sumf_zero n a f : (forall i, a <= i < a + Z.of_nat n -> f i = rO) -> sumf n a f = rO.
Proof. revert a; induction n as [|n IH]; intros a H; cbn [sumf]; auto.
  rewrite H by lia. rewrite IH. ring. intros; apply H; lia. Qed.
Lemma sumf_add n a f g : sumf n a (fun i => f i +r g i) = sumf n a f +r sumf n a g.
Proof. revert a; induction n as [|n IH]; intros a; cbn [sumf]. ring. rewrite IH; ring. Qed.
Lemma sumf_scale n a c f : sumf n a (fun i => c *r f i) = c *r sumf n a f.
Proof. revert a; induction n as [|n IH]; intros a; cbn [sumf]. ring. rewrite IH; ring. Qed.
Lemma sumf_shift n a c f : sumf n a (fun i => f (i + c)) = sumf n (a + c) f.
Proof. revert a; induction n as [|n IH]; intros a; cbn [sumf]; auto.
  rewrite IH. replace (a + 1 + c) with (a + c + 1) by lia. reflexivity. Qed.
Lemma sumf_app n m a f : sumf (n+m) a f = sumf n a f +r sumf m (a + Z.of_nat n) f.
Proof. revert a; induction n as [|n IH]; intros a.
  - cbn [sumf plus]. replace (a + Z.of_nat 0) with a by lia. ring.
  - cbn [sumf plus]. rewrite IH. replace (a + 1 + Z.of_nat n) with (a + Z.of_nat (S n)) by lia. ring. Qed.
Lemma sumZ_split a b c f : a <= b <= c -> sumZ a c f = sumZ a b f +r sumZ b c f.
Proof. intros H. unfold sumZ. replace (Z.to_nat (c-a)) with (Z.to_nat (b-a) + Z.to_nat (c-b))%nat by lia.
  rewrite sumf_app. f_equal. f_equal. lia. Qed.
Lemma sumZ_zero a b f : (forall i, a <= i < b -> f i = rO) -> sumZ a b f = rO.
Proof. intros; apply sumf_zero; intros; apply H; lia. Qed.
(* widen: f vanishes outside [a,b) *)
Lemma sumZ_widen a b a' b' f : a' <= a -> a <= b -> b <= b' ->
  (forall i, a' <= i < b' -> ~(a <= i < b) -> f i = rO) -> sumZ a' b' f = sumZ a b f.
Proof. intros H1 H2 H3 Hz.
  rewrite (sumZ_split a' a b') by lia. rewrite (sumZ_split a b b') by lia.
  rewrite (sumZ_zero a' a), (sumZ_zero b b'). ring.
  intros; apply Hz; lia. intros; apply Hz; lia. Qed.
Lemma sumZ_shift a b c f : sumZ a b (fun i => f (i + c)) = sumZ (a+c) (b+c) f.
Proof. unfold sumZ. rewrite sumf_shift. f_equal. f_equal. lia. Qed.
Lemma sumZ_add a b f g : sumZ a b (fun i => f i +r g i) = sumZ a b f +r sumZ a b g.
Proof. apply sumf_add. Qed.
Lemma sumZ_scale a b c f : sumZ a b (fun i => c *r f i) = c *r sumZ a b f.
Proof. apply sumf_scale. Qed.
(* Fubini *)
Lemma sumf_swap n m a b (F:Z->Z->R) :
  sumf n a (fun i => sumf m b (fun j => F i j)) = sumf m b (fun j => sumf n a (fun i => F i j)).
Proof. revert a; induction n as [|n IH]; intros a; cbn [sumf].
  - symmetry. apply sumf_zero. reflexivity.
  - rewrite IH. rewrite <- sumf_add. reflexivity. Qed.
Lemma sumZ_swap a b c d (F:Z->Z->R) :
  sumZ a b (fun i => sumZ c d (fun j => F i j)) = sumZ c d (fun j => sumZ a b (fun i => F i j)).
Proof. apply sumf_swap. Qed.

(* zero extension *)
Definition zx (n:Z) (x:Z->R) : Z->R := fun i => if (0 <=? i) && (i <? n) then x i else rO.
Lemma zx_in n x i : 0 <= i < n -> zx n x i = x i.
Proof. intros; unfold zx. replace ((0 <=? i) && (i <? n)) with true by lia. reflexivity. Qed.
Lemma zx_out n x i : ~(0 <= i < n) -> zx n x i = rO.
Proof. intros; unfold zx. replace ((0 <=? i) && (i <? n)) with false by lia. reflexivity. Qed.

(* zero-mode analysis (N even for brevity of the probe): y[k] = sum_j h[j] * xz[2k + j - (L-2)], 0<=k<n *)
Definition ana (L N:Z) (h x:Z->R) (k:Z) : R := sumZ 0 L (fun j => h j *r zx N x (2*k + j - (L-2))).
(* code's backward: conv_transpose stride 2, padding L-2 *)
Definition bwd (L n:Z) (h g:Z->R) (i:Z) : R := sumZ 0 n (fun k => g k *r zx L h (i + (L-2) - 2*k)).
Definition dot (n:Z) (u v:Z->R) : R := sumZ 0 n (fun i => u i *r v i).

(* inner lemma: for fixed k, reindex j -> i = 2k + j - (L-2) *)
Lemma reindex L N h x k : 0 <= L -> 0 <= N ->
  sumZ 0 L (fun j => h j *r zx N x (2*k + j - (L-2))) = sumZ 0 N (fun i => zx L h (i + (L-2) - 2*k) *r x i).
Proof.
  intros HL HN. set (c := 2*k - (L-2)).
  (* LHS = sum over j in [0,L) of hz j * xz (j+c); widen to a common window [lo,hi) in j *)
  set (lo := Z.min 0 (-c)). set (hi := Z.max L (N - c)).
  transitivity (sumZ lo hi (fun j => zx L h j *r zx N x (j + c))).
  - symmetry. rewrite (sumZ_widen 0 L lo hi) by (try lia; intros; rewrite zx_out by lia; ring).
    apply sumZ_ext. intros j Hj. rewrite zx_in by lia. f_equal. f_equal. lia.
  - transitivity (sumZ (lo + c) (hi + c) (fun i => zx L h (i - c) *r zx N x i)).
    + rewrite <- sumZ_shift. apply sumZ_ext. intros j Hj. f_equal. f_equal. lia.
    + rewrite (sumZ_widen 0 N (lo+c) (hi+c)) by (try lia; intros; rewrite (zx_out N) by lia; ring).
      apply sumZ_ext. intros i Hi. rewrite (zx_in N) by lia. f_equal. f_equal. lia.
Qed.

Theorem adjoint_zero L N n h x g : 0 <= L -> 0 <= N -> 0 <= n ->
  dot n (ana L N h x) g = dot N x (bwd L n h g).
Proof.
  intros HL HN Hn. unfold dot, ana, bwd.
  transitivity (sumZ 0 n (fun k => sumZ 0 N (fun i => g k *r zx L h (i + (L-2) - 2*k) *r x i))).
  - apply sumZ_ext. intros k Hk. rewrite reindex by lia.
    transitivity (g k *r sumZ 0 N (fun i => zx L h (i + (L-2) - 2*k) *r x i)). ring.
    rewrite <- sumZ_scale. apply sumZ_ext. intros; ring.
  - rewrite sumZ_swap. apply sumZ_ext. intros i Hi.
    transitivity (x i *r sumZ 0 n (fun k => g k *r zx L h (i + (L - 2) - 2 * k))).
    rewrite <- sumZ_scale. apply sumZ_ext. intros; ring. ring.
Qed.
End S.
Check adjoint_zero.
Print Assumptions adjoint_zero.
