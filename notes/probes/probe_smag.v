From Coq Require Import Reals Lra.
From Coquelicot Require Import Coquelicot.
Open Scope R_scope.
Definition smag (b x y:R) := sqrt (x*x + y*y + b*b) - b.
Lemma smag_dx b x y : b <> 0 -> is_derive (fun t => smag b t y) x (x / sqrt (x*x+y*y+b*b)).
Proof.
  intros Hb. unfold smag.
  assert (0 < x*x+y*y+b*b) by nra.
  auto_derive. exact H. field. apply Rgt_not_eq. apply sqrt_lt_R0. exact H.
Qed.
Lemma smag_nonneg b x y : 0 <= b -> 0 <= smag b x y.
Proof. intros. unfold smag. assert (b <= sqrt (x*x+y*y+b*b)). { rewrite <- (sqrt_Rsqr b) at 1 by lra. apply sqrt_le_1_alt. unfold Rsqr. nra. } lra. Qed.
Lemma grad_bounded b x y : b <> 0 -> Rabs (x / sqrt (x*x+y*y+b*b)) <= 1.
Proof.
  intros Hb. assert (H: 0 < x*x+y*y+b*b) by nra.
  assert (Hs: 0 < sqrt (x*x+y*y+b*b)) by (apply sqrt_lt_R0; exact H).
  unfold Rdiv. rewrite Rabs_mult, (Rabs_right (/ _)) by (left; apply Rinv_0_lt_compat; exact Hs).
  apply (Rmult_le_reg_r (sqrt (x*x+y*y+b*b))); [exact Hs|].
  rewrite Rmult_assoc, Rinv_l, Rmult_1_r, Rmult_1_l by lra.
  rewrite <- sqrt_Rsqr_abs. apply sqrt_le_1_alt. unfold Rsqr. nra.
Qed.
Print Assumptions smag_dx.
Print Assumptions smag_nonneg.
