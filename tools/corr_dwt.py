"""Correspondence A for the DWT family: run pytorch_wavelets (float64, integer data) and record what it returned,
for the Coq model (Run/RunDwt.v) to reproduce exactly.  Entry numbers are shared with run_dwt."""
import itertools
import numpy as np
import torch
from vlib import Case
import pytorch_wavelets.dwt.lowlevel as ll
from pytorch_wavelets.dwt.transform1d import DWT1DForward, DWT1DInverse
from pytorch_wavelets.dwt.transform2d import DWTForward, DWTInverse, SWTForward

MODES = {'zero': 0, 'symmetric': 1, 'periodization': 2, 'reflect': 4, 'periodic': 6}
MODE_NAMES = {v: k for k, v in MODES.items()}
ERR_VALUE, ERR_PADSIZE, ERR_SHAPE, ERR_ASSERT, ERR_INDEX = 1, 2, 3, 4, 5


def err_kind(e):
    if isinstance(e, ValueError): return ERR_VALUE
    if isinstance(e, AssertionError): return ERR_ASSERT
    if isinstance(e, IndexError): return ERR_INDEX
    if isinstance(e, (AttributeError, TypeError)): return 6
    if isinstance(e, NotImplementedError): return 7
    if isinstance(e, RuntimeError):
        s = str(e)
        if 'adding size' in s or 'Padding' in s: return ERR_PADSIZE
        return ERR_SHAPE
    raise e


def T(a):
    return torch.tensor(np.asarray(a, dtype=np.float64))

def A4(t):
    a = t.detach().numpy()
    while a.ndim < 4:
        a = a[:, :, None] if a.ndim == 3 else a[None]
    return a

def int_filter(rng, L):
    """generic integer taps: distinct magnitudes, mixed signs, nonzero"""
    mags = rng.permutation(np.arange(1, max(L, 9) + 1))[:L]
    sg = rng.choice([-1, 1], size=L)
    return (mags * sg).astype(np.int64)

def call(fn):
    try:
        out = fn()
    except (ValueError, RuntimeError, AssertionError, IndexError, AttributeError, TypeError) as e:
        return ('err', err_kind(e))
    return out

def buf(x):
    return [int(v) for v in np.rint(x.detach().numpy().ravel())]

def basis(shape):
    n = int(np.prod(shape))
    for k in range(n):
        e = np.zeros(n); e[k] = 1.0
        yield e.reshape(shape)

# ------------------------------------------------------------------ 1-D line operators (full operator matrices)
def cases_afb1d(rng, Ls, Ns, modes, dims=(3,), C=1, full=True):
    out = []
    for L in Ls:
        h0, h1 = int_filter(rng, L), int_filter(rng, L)
        for mode in modes:
            for N in Ns(L):
                for d in dims:
                    shp = (1, C, 1, N) if d == 3 else (1, C, N, 1)
                    # all basis inputs stacked in the batch dimension = the operator matrix
                    if full:
                        X = np.stack([e[0] for e in basis(shp)], 0)
                    else:
                        X = rng.integers(-20, 21, size=(2,) + shp[1:]).astype(float)
                    r = call(lambda: (A4(ll.afb1d(T(X), T(h0), T(h1), mode=mode, dim=d)),))
                    out.append(Case(1, [MODES[mode], d], [h0, h1], [X], r,
                                    dict(fn='afb1d', L=L, N=N, mode=mode, dim=d, C=C)))
    return out

def cases_sfb1d(rng, Ls, ns, modes, dims=(3,), C=1):
    out = []
    for L in Ls:
        g0, g1 = int_filter(rng, L), int_filter(rng, L)
        for mode in modes:
            for n in ns(L):
                for d in dims:
                    shp = (1, C, 1, n) if d == 3 else (1, C, n, 1)
                    B = np.stack([e[0] for e in basis(shp)], 0)
                    Z = np.zeros_like(B)
                    lo = np.concatenate([B, Z], 0); hi = np.concatenate([Z, B], 0)
                    r = call(lambda: (A4(ll.sfb1d(T(lo), T(hi), T(g0), T(g1), mode=mode, dim=d)),))
                    out.append(Case(2, [MODES[mode], d], [g0, g1], [lo, hi], r,
                                    dict(fn='sfb1d', L=L, n=n, mode=mode, dim=d, C=C)))
    return out

# ------------------------------------------------------------------ autograd Functions
def rand_int(rng, shape, lo=-9, hi=9):
    return rng.integers(lo, hi + 1, size=shape).astype(float)

def cases_functions_1d(rng, Ls, Ns, modes, NC=((2, 2),)):
    out = []
    for L in Ls:
        h0, h1 = int_filter(rng, L), int_filter(rng, L)
        h0t, h1t = T(h0).reshape(1, 1, -1), T(h1).reshape(1, 1, -1)
        for mode in modes:
            mi = MODES[mode]
            for N in Ns(L):
                for (nb, C) in NC:
                    X = rand_int(rng, (nb, C, N))
                    x = T(X).requires_grad_(True)
                    r = call(lambda: ll.AFB1D.apply(x, h0t, h1t, mi))
                    if isinstance(r, tuple) and r and isinstance(r[0], str):
                        out.append(Case(3, [mi], [h0, h1], [X[:, :, None]], r, dict(fn='AFB1D.forward', L=L, N=N, mode=mode)))
                        continue
                    x0, x1 = r
                    out.append(Case(3, [mi], [h0, h1], [X[:, :, None]], (A4(x0), A4(x1)), dict(fn='AFB1D.forward', L=L, N=N, mode=mode, NC=(nb, C))))
                    G0, G1 = rand_int(rng, x0.shape), rand_int(rng, x1.shape)
                    rb = call(lambda: (A4(torch.autograd.grad([x0, x1], [x], [T(G0), T(G1)])[0]),))
                    out.append(Case(4, [mi, N], [h0, h1], [G0[:, :, None], G1[:, :, None]], rb, dict(fn='AFB1D.backward', L=L, N=N, mode=mode, NC=(nb, C))))
                    # synthesis on a pyramid of the same shapes
                    LO, HI = rand_int(rng, x0.shape), rand_int(rng, x1.shape)
                    lo, hi = T(LO).requires_grad_(True), T(HI).requires_grad_(True)
                    y = call(lambda: ll.SFB1D.apply(lo, hi, h0t, h1t, mi))
                    if isinstance(y, tuple):
                        out.append(Case(5, [mi], [h0, h1], [LO[:, :, None], HI[:, :, None]], y, dict(fn='SFB1D.forward', L=L, N=N, mode=mode)))
                        continue
                    out.append(Case(5, [mi], [h0, h1], [LO[:, :, None], HI[:, :, None]], (A4(y),), dict(fn='SFB1D.forward', L=L, n=x0.shape[-1], mode=mode, NC=(nb, C))))
                    G = rand_int(rng, y.shape)
                    r = call(lambda: torch.autograd.grad([y], [lo, hi], [T(G)]))
                    if isinstance(r[0], str):
                        out.append(Case(6, [mi], [h0, h1], [G[:, :, None]], r, dict(fn='SFB1D.backward', L=L, mode=mode)))
                    else:
                        out.append(Case(6, [mi], [h0, h1], [G[:, :, None]], (A4(r[0]), A4(r[1])), dict(fn='SFB1D.backward', L=L, n=x0.shape[-1], mode=mode, NC=(nb, C))))
    return out

def f4(hr0, hr1, hc0, hc1):
    return (T(hr0).reshape(1, 1, 1, -1), T(hr1).reshape(1, 1, 1, -1), T(hc0).reshape(1, 1, -1, 1), T(hc1).reshape(1, 1, -1, 1))

def hs(t):  # (N,C,3,H,W) -> (N,3C,H,W)
    a = t.detach().numpy()
    return a.reshape(a.shape[0], -1, a.shape[-2], a.shape[-1])

def cases_functions_2d(rng, LL, sizes, modes, NC=((1, 2),)):
    out = []
    for (Lr, Lc) in LL:
        hr0, hr1, hc0, hc1 = int_filter(rng, Lr), int_filter(rng, Lr), int_filter(rng, Lc), int_filter(rng, Lc)
        tr0, tr1, tc0, tc1 = f4(hr0, hr1, hc0, hc1)
        fl = [hr0, hr1, hc0, hc1]
        for mode in modes:
            mi = MODES[mode]
            for (H, W) in sizes(Lr, Lc):
                for (nb, C) in NC:
                    X = rand_int(rng, (nb, C, H, W))
                    x = T(X).requires_grad_(True)
                    meta = dict(Lr=Lr, Lc=Lc, H=H, W=W, mode=mode, NC=(nb, C))
                    r = call(lambda: ll.AFB2D.apply(x, tr0, tr1, tc0, tc1, mi))
                    if isinstance(r[0], str):
                        out.append(Case(7, [mi], fl, [X], r, dict(fn='AFB2D.forward', **meta))); continue
                    low, highs = r
                    out.append(Case(7, [mi], fl, [X], (A4(low), hs(highs)), dict(fn='AFB2D.forward', **meta)))
                    GL, GH = rand_int(rng, low.shape), rand_int(rng, highs.shape)
                    rb = call(lambda: (A4(torch.autograd.grad([low, highs], [x], [T(GL), T(GH)])[0]),))
                    out.append(Case(8, [mi, H, W], fl, [GL, GH.reshape(nb, -1, GH.shape[-2], GH.shape[-1])], rb, dict(fn='AFB2D.backward', **meta)))
                    LO, HI = rand_int(rng, low.shape), rand_int(rng, highs.shape)
                    lo, hi = T(LO).requires_grad_(True), T(HI).requires_grad_(True)
                    y = call(lambda: ll.SFB2D.apply(lo, hi, tr0, tr1, tc0, tc1, mi))
                    HIf = HI.reshape(nb, -1, HI.shape[-2], HI.shape[-1])
                    if isinstance(y, tuple):
                        out.append(Case(9, [mi], fl, [LO, HIf], y, dict(fn='SFB2D.forward', **meta))); continue
                    out.append(Case(9, [mi], fl, [LO, HIf], (A4(y),), dict(fn='SFB2D.forward', **meta)))
                    G = rand_int(rng, y.shape)
                    r = call(lambda: torch.autograd.grad([y], [lo, hi], [T(G)]))
                    if isinstance(r[0], str):
                        out.append(Case(10, [mi], fl, [G], r, dict(fn='SFB2D.backward', **meta)))
                    else:
                        out.append(Case(10, [mi], fl, [G], (A4(r[0]), hs(r[1])), dict(fn='SFB2D.backward', **meta)))
    return out

# ------------------------------------------------------------------ modules
def cases_modules_1d(rng, Ls, Ns, modes, Js=(1, 2, 3), NC=((1, 2),), none_masks=False):
    out = []
    for L in Ls:
        h0, h1 = int_filter(rng, L), int_filter(rng, L)
        for mode in modes:
            mi = MODES[mode]
            for J in Js:
                fwd = DWT1DForward(J=J, wave=(h0, h1), mode=mode)
                inv = DWT1DInverse(wave=(h0, h1), mode=mode)
                fb = [buf(fwd.h0), buf(fwd.h1)]
                assert fb[0] == [int(v) for v in h0[::-1]] and fb[1] == [int(v) for v in h1[::-1]], 'prep_filt_afb1d no longer reverses'
                gb = [buf(inv.g0), buf(inv.g1)]
                assert gb[0] == [int(v) for v in h0] and gb[1] == [int(v) for v in h1], 'prep_filt_sfb1d changed the filter'
                for N in Ns(L):
                    for (nb, C) in NC:
                        X = rand_int(rng, (nb, C, N))
                        meta = dict(L=L, N=N, J=J, mode=mode, NC=(nb, C))
                        r = call(lambda: fwd(T(X)))
                        if isinstance(r[0], str):
                            out.append(Case(11, [mi, J], fb, [X[:, :, None]], r, dict(fn='DWT1DForward', **meta))); continue
                        yl, yh = r
                        out.append(Case(11, [mi, J], fb, [X[:, :, None]], tuple([A4(yl)] + [A4(h) for h in yh]), dict(fn='DWT1DForward', **meta)))
                        # inverse on an arbitrary pyramid of the same shapes, with some levels None
                        YL = rand_int(rng, yl.shape); YH = [rand_int(rng, h.shape) for h in yh]
                        masks = [tuple([False] * J)]
                        if none_masks:
                            masks = list(itertools.product([False, True], repeat=J))
                        for mask in masks:
                            yh_in = [None if m else T(a) for m, a in zip(mask, YH)]
                            y = call(lambda: inv((T(YL), yh_in)))
                            ins = [YL[:, :, None]] + [None if m else a[:, :, None] for m, a in zip(mask, YH)]
                            out.append(Case(12, [mi], gb, ins, y if isinstance(y, tuple) else (A4(y),), dict(fn='DWT1DInverse', none=mask, **meta)))
    return out

def cases_modules_2d(rng, LL, sizes, modes, Js=(1, 2), NC=((1, 2),), none_masks=False, four=True, share=None):
    """share='low' / 'high': the row and column banks have the SAME lowpass (resp. highpass) but different other filters
    (needs Lr == Lc): a 4-tuple is four filters, not two banks that may be identified by one of their members"""
    out = []
    for (Lr, Lc) in LL:
        hr0, hr1, hc0, hc1 = int_filter(rng, Lr), int_filter(rng, Lr), int_filter(rng, Lc), int_filter(rng, Lc)
        if share == 'low': hr0 = hc0.copy()
        if share == 'high': hr1 = hc1.copy()
        for mode in modes:
            mi = MODES[mode]
            for J in Js:
                wave = (hc0, hc1, hr0, hr1) if four else (hc0, hc1)
                fwd = DWTForward(J=J, wave=wave, mode=mode)
                inv = DWTInverse(wave=wave, mode=mode)
                fb = [buf(fwd.h0_row), buf(fwd.h1_row), buf(fwd.h0_col), buf(fwd.h1_col)]
                gb = [buf(inv.g0_row), buf(inv.g1_row), buf(inv.g0_col), buf(inv.g1_col)]
                exp_f = [list(map(int, f[::-1])) for f in ((hr0, hr1, hc0, hc1) if four else (hc0, hc1, hc0, hc1))]
                exp_g = [list(map(int, f)) for f in ((hr0, hr1, hc0, hc1) if four else (hc0, hc1, hc0, hc1))]
                assert fb == exp_f, 'DWTForward registers unexpected buffers'
                assert gb == exp_g, 'DWTInverse registers unexpected buffers'
                for (H, W) in sizes(Lr, Lc):
                    for (nb, C) in NC:
                        X = rand_int(rng, (nb, C, H, W))
                        meta = dict(Lr=Lr if four else Lc, Lc=Lc, H=H, W=W, J=J, mode=mode, NC=(nb, C), four=four, share=share)
                        r = call(lambda: fwd(T(X)))
                        if isinstance(r[0], str):
                            out.append(Case(13, [mi, J], fb, [X], r, dict(fn='DWTForward', **meta))); continue
                        yl, yh = r
                        out.append(Case(13, [mi, J], fb, [X], tuple([A4(yl)] + [hs(h) for h in yh]), dict(fn='DWTForward', **meta)))
                        YL = rand_int(rng, yl.shape); YH = [rand_int(rng, h.shape) for h in yh]
                        masks = [tuple([False] * J)]
                        if none_masks:
                            masks = list(itertools.product([False, True], repeat=J))
                        for mask in masks:
                            yh_in = [None if m else T(a) for m, a in zip(mask, YH)]
                            y = call(lambda: inv((T(YL), yh_in)))
                            ins = [YL] + [None if m else a.reshape(nb, -1, a.shape[-2], a.shape[-1]) for m, a in zip(mask, YH)]
                            out.append(Case(14, [mi], gb, ins, y if isinstance(y, tuple) else (A4(y),), dict(fn='DWTInverse', none=mask, **meta)))
    return out

# ------------------------------------------------------------------ a trous / SWT / functional
def cases_atrous(rng, Ls, sizes, dils=(1, 2, 4), modes=('periodic', 'symmetric', 'zero', 'reflect')):
    out = []
    M = dict(MODES); M['constant'] = 3; M['replicate'] = 5
    for L in Ls:
        h0, h1 = int_filter(rng, L), int_filter(rng, L)
        for mode in modes:
            for N in sizes:
                for dil in dils:
                    for d in (2, 3):
                        shp = (1, 2, 1, N) if d == 3 else (1, 2, N, 1)
                        X = np.stack([e[0] for e in basis(shp)], 0)
                        r = call(lambda: (A4(ll.afb1d_atrous(T(X), T(h0), T(h1), mode=mode, dim=d, dilation=dil)),))
                        out.append(Case(15, [M[mode], d, dil], [h0, h1], [X], r, dict(fn='afb1d_atrous', L=L, N=N, mode=mode, dim=d, dil=dil)))
    return out

def cases_swt(rng, LL, sizes, Js=(1, 2, 3), modes=('periodization', 'periodic')):
    out = []
    for (Lr, Lc) in LL:
        hr0, hr1, hc0, hc1 = int_filter(rng, Lr), int_filter(rng, Lr), int_filter(rng, Lc), int_filter(rng, Lc)
        for mode in modes:
            for J in Js:
                m = SWTForward(J=J, wave=(hc0, hc1, hr0, hr1), mode=mode)
                fb = [buf(m.h0_row), buf(m.h1_row), buf(m.h0_col), buf(m.h1_col)]
                for (H, W) in sizes:
                    X = rand_int(rng, (1, 2, H, W))
                    r = call(lambda: m(T(X)))
                    if r and isinstance(r[0], str):
                        exp = r
                    else:
                        exp = tuple(hs(y) if y.dim() == 5 else A4(y) for y in r)
                    out.append(Case(17, [MODES[mode], J], fb, [X], exp, dict(fn='SWTForward', Lr=Lr, Lc=Lc, H=H, W=W, J=J, mode=mode)))
    return out


# ------------------------------------------------------------------ non-separable banks and the functional separable API
def cases_nonsep(rng, LL, sizes, modes=('zero', 'symmetric', 'reflect', 'periodization'), NC=((1, 2),), two=False):
    out = []
    for (Ly, Lx) in LL:
        hc0, hc1, hr0, hr1 = int_filter(rng, Ly), int_filter(rng, Ly), int_filter(rng, Lx), int_filter(rng, Lx)
        if two:
            hr0, hr1, Lx = hc0, hc1, Ly
        filts = [hc0, hc1] if two else [hc0, hc1, hr0, hr1]
        fl = [hc0, hc1, hr0, hr1]
        for mode in modes:
            mi = MODES[mode]
            for (H, W) in sizes(Ly, Lx):
                for (nb, C) in NC:
                    X = rand_int(rng, (nb, C, H, W))
                    meta = dict(Ly=Ly, Lx=Lx, H=H, W=W, mode=mode, NC=(nb, C), two=two)
                    r = call(lambda: (A4(ll.afb2d_nonsep(T(X), [f.astype(float) for f in filts], mode=mode)),))
                    out.append(Case(20, [mi], fl, [X], r, dict(fn='afb2d_nonsep', **meta)))
                    # separable functional API on the same data: registered (reversed) filters, row pair first
                    r2 = call(lambda: (A4(ll.afb2d(T(X), [f.astype(float) for f in filts], mode=mode)),))
                    out.append(Case(18, [mi], [hr0[::-1], hr1[::-1], hc0[::-1], hc1[::-1]], [X], r2, dict(fn='afb2d', **meta)))
                    if isinstance(r[0], str):
                        continue
                    Y = rand_int(rng, r[0].shape)          # (N, 4C, h, w) coefficients
                    Y5 = Y.reshape(nb, C, 4, Y.shape[-2], Y.shape[-1])
                    r3 = call(lambda: (A4(ll.sfb2d_nonsep(T(Y5), [f.astype(float) for f in filts], mode=mode)),))
                    out.append(Case(21, [mi], fl, [Y], r3, dict(fn='sfb2d_nonsep', **meta)))
                    bands = [np.ascontiguousarray(Y5[:, :, b]) for b in range(4)]
                    r4 = call(lambda: (A4(ll.sfb2d(T(bands[0]), T(bands[1]), T(bands[2]), T(bands[3]), [f.astype(float) for f in filts], mode=mode)),))
                    out.append(Case(19, [mi], [hr0, hr1, hc0, hc1], bands, r4, dict(fn='sfb2d', **meta)))
    return out
