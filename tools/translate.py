#!/usr/bin/env python3
"""Fail-closed translator Python (ast) -> Gallina for the self-contained pure pieces of /repo, regenerated on every
check run:  Gen/Dims.v   <- dtcwt/transform_funcs.py: get_dimensions5, get_dimensions6
            Gen/Modes.v  <- mode_to_int / int_to_mode in dwt/lowlevel.py and scatternet/lowlevel.py
            Gen/Tables.v <- dtcwt/data/*.npz (exact dyadic value of every float64 entry) + the installed reference package's tables
Anything outside the accepted grammar raises TranslateError (reported as a broken obligation)."""
import ast, os, sys, io, zipfile, struct, hashlib, glob

REPO = '/repo'
GEN = '/verif/coq/theories/Gen'


class TranslateError(Exception):
    pass


def err(node, msg):
    raise TranslateError('%s (line %s)' % (msg, getattr(node, 'lineno', '?')))


class FnTranslator:
    """ints -> Z, str -> string, bool exprs -> bool; statements -> nested lets; raise -> None (option result)"""
    def __init__(self, fn, known, str_params=()):
        self.fn, self.known, self.str_params = fn, known, set(str_params)
        self.has_raise = any(isinstance(n, ast.Raise) for n in ast.walk(fn))

    def expr(self, e):
        if isinstance(e, ast.Constant):
            if isinstance(e.value, bool): return 'true' if e.value else 'false'
            if isinstance(e.value, int): return '(%d)' % e.value
            if isinstance(e.value, str): return '"%s"%%string' % e.value.replace('"', '""')
            err(e, 'constant of unsupported type')
        if isinstance(e, ast.Name):
            return e.id
        if isinstance(e, ast.BinOp):
            ops = {ast.Add: '+', ast.Sub: '-', ast.Mult: '*', ast.Mod: 'mod', ast.FloorDiv: '/'}
            if type(e.op) not in ops: err(e, 'unsupported operator')
            return '(%s %s %s)' % (self.expr(e.left), ops[type(e.op)], self.expr(e.right))
        if isinstance(e, ast.UnaryOp):
            if isinstance(e.op, ast.USub): return '(- %s)' % self.expr(e.operand)
            if isinstance(e.op, ast.Not): return '(negb %s)' % self.expr(e.operand)
            err(e, 'unsupported unary operator')
        if isinstance(e, ast.Compare):
            if len(e.ops) != 1: err(e, 'chained comparison')
            l, r = e.left, e.comparators[0]
            is_str = any(isinstance(x, ast.Constant) and isinstance(x.value, str) for x in (l, r)) or \
                any(isinstance(x, ast.Name) and x.id in self.str_params for x in (l, r))
            a, b = self.expr(l), self.expr(r)
            if is_str:
                if isinstance(e.ops[0], ast.Eq): return '(String.eqb %s %s)' % (a, b)
                if isinstance(e.ops[0], ast.NotEq): return '(negb (String.eqb %s %s))' % (a, b)
                err(e, 'unsupported string comparison')
            ops = {ast.Lt: '<?', ast.LtE: '<=?', ast.Eq: '=?', ast.Gt: '>?', ast.GtE: '>=?'}
            if isinstance(e.ops[0], ast.NotEq): return '(negb (%s =? %s))' % (a, b)
            if type(e.ops[0]) not in ops: err(e, 'unsupported comparison')
            return '(%s %s %s)' % (a, ops[type(e.ops[0])], b)
        if isinstance(e, ast.BoolOp):
            op = '&&' if isinstance(e.op, ast.And) else '||'
            return '(' + (' %s ' % op).join(self.expr(v) for v in e.values) + ')'
        if isinstance(e, ast.Tuple):
            return '(' + ', '.join(self.expr(v) for v in e.elts) + ')'
        if isinstance(e, ast.Call):
            if isinstance(e.func, ast.Name) and e.func.id in self.known and not e.keywords:
                return '(%s %s)' % (e.func.id, ' '.join(self.expr(a) for a in e.args))
            err(e, 'call to an untranslated function')
        err(e, 'unsupported expression %s' % type(e).__name__)

    def assigned(self, stmts):
        s = []
        for st in stmts:
            if isinstance(st, ast.Assign):
                for t in st.targets:
                    for n in (t.elts if isinstance(t, ast.Tuple) else [t]):
                        if not isinstance(n, ast.Name): err(st, 'assignment to a non-name')
                        if n.id not in s: s.append(n.id)
            elif isinstance(st, ast.AugAssign):
                if not isinstance(st.target, ast.Name): err(st, 'augmented assignment to a non-name')
                if st.target.id not in s: s.append(st.target.id)
            elif isinstance(st, ast.If):
                for v in self.assigned(st.body) + self.assigned(st.orelse):
                    if v not in s: s.append(v)
        return s

    def ends_in_exit(self, stmts):
        if not stmts: return False
        last = stmts[-1]
        if isinstance(last, (ast.Return, ast.Raise)): return True
        if isinstance(last, ast.If): return self.ends_in_exit(last.body) and self.ends_in_exit(last.orelse)
        return False

    def block(self, stmts, defined, tail):
        """translate stmts; `tail` is the Gallina text to evaluate if control falls off the end (None = must exit)"""
        if not stmts:
            if tail is None: err(self.fn, 'control may fall off the end of the function')
            return tail(defined)
        st, rest = stmts[0], stmts[1:]
        if isinstance(st, ast.Expr) and isinstance(st.value, ast.Constant) and isinstance(st.value.value, str):
            return self.block(rest, defined, tail)          # docstring
        if isinstance(st, ast.Return):
            v = self.expr(st.value)
            return ('Some %s' % v) if self.has_raise else v
        if isinstance(st, ast.Raise):
            return 'None'
        if isinstance(st, ast.Assign):
            if len(st.targets) != 1: err(st, 'multiple assignment targets')
            t = st.targets[0]
            if isinstance(t, ast.Tuple):
                names = [n.id for n in t.elts]
                pat = "'(" + ', '.join(names) + ')'
            else:
                names = [t.id]; pat = t.id
            return 'let %s := %s in\n  %s' % (pat, self.expr(st.value), self.block(rest, defined | set(names), tail))
        if isinstance(st, ast.AugAssign):
            ops = {ast.Add: '+', ast.Sub: '-', ast.Mult: '*'}
            if type(st.op) not in ops: err(st, 'unsupported augmented operator')
            if st.target.id not in defined: err(st, 'augmented assignment to an undefined name')
            return 'let %s := (%s %s %s) in\n  %s' % (st.target.id, st.target.id, ops[type(st.op)], self.expr(st.value),
                                                     self.block(rest, defined, tail))
        if isinstance(st, ast.If):
            c = self.expr(st.test)
            b_exit, e_exit = self.ends_in_exit(st.body), self.ends_in_exit(st.orelse)
            if b_exit and e_exit:
                return '(if %s then\n  %s\n  else\n  %s)' % (c, self.block(st.body, defined, None), self.block(st.orelse, defined, None))
            if b_exit or e_exit:
                # one branch exits, the other continues with the rest
                cont = lambda d: self.block(rest, d, tail)
                return '(if %s then\n  %s\n  else\n  %s)' % (c, self.block(st.body, defined, None if b_exit else cont),
                                                            self.block(st.orelse, defined, None if e_exit else cont))
            vs = self.assigned([st])
            for v in vs:
                if v not in defined and not (v in self.assigned(st.body) and v in self.assigned(st.orelse)):
                    err(st, 'name %s may be undefined after the if' % v)
            tup = vs[0] if len(vs) == 1 else '(' + ', '.join(vs) + ')'
            pat = vs[0] if len(vs) == 1 else "'(" + ', '.join(vs) + ')'
            fin = lambda d: tup
            return 'let %s := (if %s then\n  %s\n  else\n  %s) in\n  %s' % (
                pat, c, self.block(st.body, defined, fin), self.block(st.orelse, defined, fin),
                self.block(rest, defined | set(vs), tail))
        err(st, 'unsupported statement %s' % type(st).__name__)

    def translate(self):
        a = self.fn.args
        if a.vararg or a.kwarg or a.kwonlyargs or a.defaults: err(self.fn, 'unsupported signature')
        params = [p.arg for p in a.args]
        ps = ' '.join('(%s : %s)' % (p, 'string' if p in self.str_params else 'Z') for p in params)
        body = self.block(self.fn.body, set(params), None)
        return 'Definition %s %s :=\n  %s.\n' % (self.fn.name, ps, body)


def find_fn(path, name):
    tree = ast.parse(open(path).read(), path)
    for n in tree.body:
        if isinstance(n, ast.FunctionDef) and n.name == name:
            return n
    raise TranslateError('function %s not found in %s' % (name, path))


HEADER = '(* GENERATED by tools/translate.py from %s -- do not edit *)\nFrom Coq Require Import ZArith Bool String List.\nImport ListNotations.\nOpen Scope Z_scope.\n\n'


def gen_dims():
    p = os.path.join(REPO, 'pytorch_wavelets/dtcwt/transform_funcs.py')
    out = HEADER % p
    known = set()
    for name in ('get_dimensions5', 'get_dimensions6'):
        out += FnTranslator(find_fn(p, name), known).translate() + '\n'
        known.add(name)
    return out


def gen_modes():
    out = HEADER % 'dwt/lowlevel.py and scatternet/lowlevel.py'
    for mod, pref in (('dwt', 'dwt_'), ('scatternet', 'scat_')):
        p = os.path.join(REPO, 'pytorch_wavelets/%s/lowlevel.py' % mod)
        for name, sp in (('mode_to_int', ('mode',)), ('int_to_mode', ())):
            fn = find_fn(p, name)
            fn.name = pref + name
            out += FnTranslator(fn, set(), sp).translate() + '\n'
    return out


# ---------------------------------------------------------------- npz tables, exact
def read_npy(b):
    if b[:6] != b'\x93NUMPY': raise TranslateError('not an npy file')
    major = b[6]
    if major == 1:
        hl = struct.unpack('<H', b[8:10])[0]; off = 10
    else:
        hl = struct.unpack('<I', b[8:12])[0]; off = 12
    header = ast.literal_eval(b[off:off + hl].decode('latin1'))
    if header['descr'][:2] in ('|S', '<U', '|U'): return None, None      # provenance strings, not a filter
    if header['descr'] not in ('<f8', '|f8', '=f8'): raise TranslateError('table is not little-endian float64: %r' % header['descr'])
    shape = header['shape']
    n = 1
    for s in shape: n *= s
    data = struct.unpack('<%dd' % n, b[off + hl: off + hl + 8 * n])
    if header.get('fortran_order') and len([s for s in shape if s > 1]) > 1:
        raise TranslateError('fortran-ordered 2-D table')
    return shape, data


def dyadic(x):
    """float64 -> (m, e) with x == m * 2**e exactly, m odd or 0"""
    if x != x or x in (float('inf'), float('-inf')): raise TranslateError('non-finite table entry')
    if x == 0.0: return (0, 0)
    m, e = x.hex(), 0
    num, den = x.as_integer_ratio()      # den is a power of two
    e = -(den.bit_length() - 1)
    while num % 2 == 0:
        num //= 2; e += 1
    return (num, e)


def tables_of(dirpath):
    tabs = {}
    for p in sorted(glob.glob(os.path.join(dirpath, '*.npz'))):
        base = os.path.basename(p)[:-4]
        z = zipfile.ZipFile(p)
        for nm in sorted(z.namelist()):
            if not nm.endswith('.npy'): continue
            shape, data = read_npy(z.read(nm))
            if shape is None: continue
            tabs[(base, nm[:-4])] = [dyadic(v) for v in data]
    return tabs


def coq_tab(tabs, prefix):
    out = ''
    names = []
    for (base, var), vals in sorted(tabs.items()):
        nm = '%s_%s_%s' % (prefix, base, var)
        names.append((base, var, nm))
        out += 'Definition %s : list (Z*Z) := [%s].\n' % (nm, '; '.join('(%s, %s)' % (('(%d)' % m) if m < 0 else str(m), ('(%d)' % e) if e < 0 else str(e)) for m, e in vals))
    out += '\nDefinition %s_all : list (string * string * list (Z*Z)) := [\n  %s].\n' % (
        prefix, ';\n  '.join('("%s"%%string, "%s"%%string, %s)' % (b, v, nm) for b, v, nm in names))
    return out


def gen_tables():
    out = HEADER % 'pytorch_wavelets/dtcwt/data/*.npz and the installed dtcwt package'
    out += '(* every float64 entry x as (m, e), x = m * 2^e exactly *)\n'
    out += coq_tab(tables_of(os.path.join(REPO, 'pytorch_wavelets/dtcwt/data')), 'tab')
    try:
        import importlib.util
        spec = importlib.util.find_spec('dtcwt')
        refdir = os.path.join(os.path.dirname(spec.origin), 'data')
        out += '\n' + coq_tab(tables_of(refdir), 'ref')
    except Exception as e:
        raise TranslateError('reference dtcwt package tables not readable: %s' % e)
    return out


def write_if_changed(path, text):
    old = open(path).read() if os.path.exists(path) else None
    if old != text:
        with open(path, 'w') as f:
            f.write(text)
        return True
    return False


def regenerate():
    os.makedirs(GEN, exist_ok=True)
    info = {}
    for name, fn in (('Dims.v', gen_dims), ('Modes.v', gen_modes), ('Tables.v', gen_tables)):
        text = fn()
        ch = write_if_changed(os.path.join(GEN, name), text)
        info[name] = dict(sha=hashlib.sha256(text.encode()).hexdigest()[:12], rewritten=ch)
    return info


if __name__ == '__main__':
    print(regenerate())
