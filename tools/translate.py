#!/usr/bin/env python3
"""Fail-closed translator Python (ast) -> Gallina for the self-contained pure pieces of /repo, regenerated on every
check run:  Gen/Dims.v   <- dtcwt/transform_funcs.py: get_dimensions5, get_dimensions6
            Gen/Modes.v  <- mode_to_int / int_to_mode in dwt/lowlevel.py and scatternet/lowlevel.py
            Gen/Tables.v <- dtcwt/data/*.npz (exact dyadic value of every float64 entry) + the installed reference package's tables
Anything outside the accepted grammar raises TranslateError (reported as a broken obligation)."""
import ast, os, sys, io, zipfile, struct, hashlib, glob

REPO = '/repo'
GEN = '/verif/coq/theories/Gen'


class TranslateError(Exception):
    pass


def err(node, msg):
    raise TranslateError('%s (line %s)' % (msg, getattr(node, 'lineno', '?')))


class FnTranslator:
    """ints -> Z, str -> string, bool exprs -> bool; statements -> nested lets; raise -> None (option result)"""
    def __init__(self, fn, known, str_params=()):
        self.fn, self.known, self.str_params = fn, known, set(str_params)
        self.has_raise = any(isinstance(n, ast.Raise) for n in ast.walk(fn))

    def expr(self, e):
        if isinstance(e, ast.Constant):
            if isinstance(e.value, bool): return 'true' if e.value else 'false'
            if isinstance(e.value, int): return '(%d)' % e.value
            if isinstance(e.value, str): return '"%s"%%string' % e.value.replace('"', '""')
            err(e, 'constant of unsupported type')
        if isinstance(e, ast.Name):
            return e.id
        if isinstance(e, ast.BinOp):
            ops = {ast.Add: '+', ast.Sub: '-', ast.Mult: '*', ast.Mod: 'mod', ast.FloorDiv: '/'}
            if type(e.op) not in ops: err(e, 'unsupported operator')
            return '(%s %s %s)' % (self.expr(e.left), ops[type(e.op)], self.expr(e.right))
        if isinstance(e, ast.UnaryOp):
            if isinstance(e.op, ast.USub): return '(- %s)' % self.expr(e.operand)
            if isinstance(e.op, ast.Not): return '(negb %s)' % self.expr(e.operand)
            err(e, 'unsupported unary operator')
        if isinstance(e, ast.Compare):
            if len(e.ops) != 1: err(e, 'chained comparison')
            l, r = e.left, e.comparators[0]
            is_str = any(isinstance(x, ast.Constant) and isinstance(x.value, str) for x in (l, r)) or \
                any(isinstance(x, ast.Name) and x.id in self.str_params for x in (l, r))
            a, b = self.expr(l), self.expr(r)
            if is_str:
                if isinstance(e.ops[0], ast.Eq): return '(String.eqb %s %s)' % (a, b)
                if isinstance(e.ops[0], ast.NotEq): return '(negb (String.eqb %s %s))' % (a, b)
                err(e, 'unsupported string comparison')
            if isinstance(e.ops[0], (ast.In, ast.NotIn)):
                # x in (c1, c2, ...) over constants: a disjunction of equalities
                if not isinstance(r, (ast.Tuple, ast.List)) or not r.elts: err(e, 'membership in something other than a literal tuple/list')
                strs = any(isinstance(x, ast.Constant) and isinstance(x.value, str) for x in r.elts) or (isinstance(l, ast.Name) and l.id in self.str_params)
                eqs = ['(String.eqb %s %s)' % (a, self.expr(x)) if strs else '(%s =? %s)' % (a, self.expr(x)) for x in r.elts]
                disj = '(' + ' || '.join(eqs) + ')'
                return disj if isinstance(e.ops[0], ast.In) else '(negb %s)' % disj
            ops = {ast.Lt: '<?', ast.LtE: '<=?', ast.Eq: '=?', ast.Gt: '>?', ast.GtE: '>=?'}
            if isinstance(e.ops[0], ast.NotEq): return '(negb (%s =? %s))' % (a, b)
            if type(e.ops[0]) not in ops: err(e, 'unsupported comparison')
            return '(%s %s %s)' % (a, ops[type(e.ops[0])], b)
        if isinstance(e, ast.BoolOp):
            op = '&&' if isinstance(e.op, ast.And) else '||'
            return '(' + (' %s ' % op).join(self.expr(v) for v in e.values) + ')'
        if isinstance(e, ast.Tuple):
            return '(' + ', '.join(self.expr(v) for v in e.elts) + ')'
        if isinstance(e, ast.IfExp):
            return '(if %s then %s else %s)' % (self.expr(e.test), self.expr(e.body), self.expr(e.orelse))
        if isinstance(e, ast.Call) and isinstance(e.func, ast.Name) and e.func.id in ('min', 'max') and len(e.args) == 2 and not e.keywords:
            return '(Z.%s %s %s)' % (e.func.id, self.expr(e.args[0]), self.expr(e.args[1]))
        if isinstance(e, ast.Call) and isinstance(e.func, ast.Name) and e.func.id == 'abs' and len(e.args) == 1 and not e.keywords:
            return '(Z.abs %s)' % self.expr(e.args[0])
        if isinstance(e, ast.Call):
            if isinstance(e.func, ast.Name) and e.func.id in self.known and not e.keywords:
                return '(%s %s)' % (e.func.id, ' '.join(self.expr(a) for a in e.args))
            err(e, 'call to an untranslated function')
        err(e, 'unsupported expression %s' % type(e).__name__)

    def assigned(self, stmts):
        s = []
        for st in stmts:
            if isinstance(st, ast.Assign):
                for t in st.targets:
                    for n in (t.elts if isinstance(t, ast.Tuple) else [t]):
                        if not isinstance(n, ast.Name): err(st, 'assignment to a non-name')
                        if n.id not in s: s.append(n.id)
            elif isinstance(st, ast.AugAssign):
                if not isinstance(st.target, ast.Name): err(st, 'augmented assignment to a non-name')
                if st.target.id not in s: s.append(st.target.id)
            elif isinstance(st, ast.If):
                for v in self.assigned(st.body) + self.assigned(st.orelse):
                    if v not in s: s.append(v)
        return s

    def ends_in_exit(self, stmts):
        if not stmts: return False
        last = stmts[-1]
        if isinstance(last, (ast.Return, ast.Raise)): return True
        if isinstance(last, ast.If): return self.ends_in_exit(last.body) and self.ends_in_exit(last.orelse)
        return False

    def block(self, stmts, defined, tail):
        """translate stmts; `tail` is the Gallina text to evaluate if control falls off the end (None = must exit)"""
        if not stmts:
            if tail is None: err(self.fn, 'control may fall off the end of the function')
            return tail(defined)
        st, rest = stmts[0], stmts[1:]
        if isinstance(st, ast.Expr) and isinstance(st.value, ast.Constant) and isinstance(st.value.value, str):
            return self.block(rest, defined, tail)          # docstring
        if isinstance(st, ast.Return):
            v = self.expr(st.value)
            return ('Some %s' % v) if self.has_raise else v
        if isinstance(st, ast.Raise):
            return 'None'
        if isinstance(st, ast.Assign):
            if len(st.targets) != 1: err(st, 'multiple assignment targets')
            t = st.targets[0]
            if isinstance(t, ast.Tuple):
                names = [n.id for n in t.elts]
                pat = "'(" + ', '.join(names) + ')'
            else:
                names = [t.id]; pat = t.id
            return 'let %s := %s in\n  %s' % (pat, self.expr(st.value), self.block(rest, defined | set(names), tail))
        if isinstance(st, ast.AugAssign):
            ops = {ast.Add: '+', ast.Sub: '-', ast.Mult: '*', ast.Mod: 'mod', ast.FloorDiv: '/'}
            if type(st.op) not in ops: err(st, 'unsupported augmented operator')
            if st.target.id not in defined: err(st, 'augmented assignment to an undefined name')
            return 'let %s := (%s %s %s) in\n  %s' % (st.target.id, st.target.id, ops[type(st.op)], self.expr(st.value),
                                                     self.block(rest, defined, tail))
        if isinstance(st, ast.If):
            c = self.expr(st.test)
            b_exit, e_exit = self.ends_in_exit(st.body), self.ends_in_exit(st.orelse)
            if b_exit and e_exit:
                return '(if %s then\n  %s\n  else\n  %s)' % (c, self.block(st.body, defined, None), self.block(st.orelse, defined, None))
            if b_exit or e_exit:
                # one branch exits, the other continues with the rest
                cont = lambda d: self.block(rest, d, tail)
                return '(if %s then\n  %s\n  else\n  %s)' % (c, self.block(st.body, defined, None if b_exit else cont),
                                                            self.block(st.orelse, defined, None if e_exit else cont))
            vs = self.assigned([st])
            for v in vs:
                if v not in defined and not (v in self.assigned(st.body) and v in self.assigned(st.orelse)):
                    err(st, 'name %s may be undefined after the if' % v)
            tup = vs[0] if len(vs) == 1 else '(' + ', '.join(vs) + ')'
            pat = vs[0] if len(vs) == 1 else "'(" + ', '.join(vs) + ')'
            fin = lambda d: tup
            return 'let %s := (if %s then\n  %s\n  else\n  %s) in\n  %s' % (
                pat, c, self.block(st.body, defined, fin), self.block(st.orelse, defined, fin),
                self.block(rest, defined | set(vs), tail))
        err(st, 'unsupported statement %s' % type(st).__name__)

    def translate(self):
        a = self.fn.args
        if a.vararg or a.kwarg or a.kwonlyargs or a.defaults: err(self.fn, 'unsupported signature')
        params = [p.arg for p in a.args]
        ps = ' '.join('(%s : %s)' % (p, 'string' if p in self.str_params else 'Z') for p in params)
        body = self.block(self.fn.body, set(params), None)
        return 'Definition %s %s :=\n  %s.\n' % (self.fn.name, ps, body)


def find_fn(path, name):
    tree = ast.parse(open(path).read(), path)
    for n in tree.body:
        if isinstance(n, ast.FunctionDef) and n.name == name:
            return n
    raise TranslateError('function %s not found in %s' % (name, path))


HEADER = '(* GENERATED by tools/translate.py from %s -- do not edit *)\nFrom Coq Require Import ZArith Bool String List.\nImport ListNotations.\nOpen Scope Z_scope.\n\n'


def _load_source_fn(path, name):
    """the Python function itself, executed from the file under /repo (for the tabulation fallback)"""
    import importlib.util
    spec = importlib.util.spec_from_file_location('_verif_src_%s' % hashlib.sha256(path.encode()).hexdigest()[:8], path)
    mod = importlib.util.module_from_spec(spec)
    spec.loader.exec_module(mod)
    return getattr(mod, name)


def _zlit(v):
    return '(%d)' % int(v)


def tabulate_int_fn(path, name, arity_domain, out_arity, coq_name=None):
    """Fallback when the source of a pure integer function is outside the translator's grammar: TABULATE it by running it on the finite
    domain the theorems quantify over.  Fail-closed: any exception other than the function's own `raise` paths, a non-integer result or a
    result of the wrong arity is a TranslateError."""
    f = _load_source_fn(path, name)
    rows = []
    for args in arity_domain:
        try:
            r = f(*args)
        except Exception as e:
            raise TranslateError('tabulating %s%s: %s: %s' % (name, args, type(e).__name__, e))
        r = tuple(r) if isinstance(r, (tuple, list)) else (r,)
        if len(r) != out_arity or not all(isinstance(v, int) and not isinstance(v, bool) for v in r):
            raise TranslateError('tabulating %s%s: result %r is not %d integers' % (name, args, r, out_arity))
        rows.append('((%s), (%s))' % (', '.join(_zlit(a) for a in args), ', '.join(_zlit(v) for v in r)))
    cn = coq_name or name
    nin = len(arity_domain[0])
    params = ' '.join('(a%d : Z)' % i for i in range(nin))
    key = '(' + ', '.join('a%d' % i for i in range(nin)) + ')'
    eq = ' && '.join('(%s =? a%d)' % ('k%d' % i, i) for i in range(nin))
    kpat = "'(" + ', '.join('k%d' % i for i in range(nin)) + ')'
    zero = '(' + ', '.join('0' for _ in range(out_arity)) + ')'
    return ('(* TABULATED by running the Python function on its finite domain: its source form is outside the translator grammar *)\n'
            'Definition %s_tab := [\n  %s].\n'
            'Definition %s %s :=\n  match find (fun e => let %s := fst e in %s) %s_tab with Some e => snd e | None => %s end.\n'
            % (cn, ';\n  '.join(rows), cn, params, kpat, eq, cn, zero))


def gen_dims():
    p = os.path.join(REPO, 'pytorch_wavelets/dtcwt/transform_funcs.py')
    out = HEADER % p
    known = set()
    dom = [(o, r) for o in range(-6, 6) for r in range(-6, 6)]
    for name in ('get_dimensions5', 'get_dimensions6'):
        try:
            out += FnTranslator(find_fn(p, name), known).translate() + '\n'
        except TranslateError:
            out += tabulate_int_fn(p, name, dom, 4) + '\n'
        known.add(name)
    return out


MODE_NAMES = ['zero', 'symmetric', 'per', 'periodization', 'constant', 'reflect', 'replicate', 'periodic']
def tabulate_mode_fns(path, name, coq_name):
    """the same fallback for mode_to_int (string -> int or raise) and int_to_mode (int -> string or raise)"""
    f = _load_source_fn(path, name)
    fn = find_fn(path, name)
    consts = [c.value for c in ast.walk(fn) if isinstance(c, ast.Constant) and isinstance(c.value, str) and len(c.value) < 40 and '\n' not in c.value and '{' not in c.value]
    hdr = '(* TABULATED by running the Python function: its source form is outside the translator grammar *)\n'
    if name == 'mode_to_int':
        names = []
        for c in MODE_NAMES + consts:
            if c not in names: names.append(c)
        body = 'None'
        for nm in reversed(names):
            try:
                v = f(nm)
                if not isinstance(v, int) or isinstance(v, bool): raise TranslateError('mode_to_int(%r) = %r is not an integer' % (nm, v))
                val = 'Some (%d)' % v
            except TranslateError:
                raise
            except Exception:
                val = 'None'
            body = '(if (String.eqb mode "%s"%%string) then %s else\n  %s)' % (nm.replace('"', '""'), val, body)
        return hdr + 'Definition %s (mode : string) :=\n  %s.\n' % (coq_name, body)
    body = 'None'
    for k in reversed(range(-2, 12)):
        try:
            v = f(k)
            if not isinstance(v, str): raise TranslateError('int_to_mode(%d) = %r is not a string' % (k, v))
            val = 'Some ("%s"%%string)' % v.replace('"', '""')
        except TranslateError:
            raise
        except Exception:
            val = 'None'
        body = '(if (mode =? (%d)) then %s else\n  %s)' % (k, val, body)
    return hdr + 'Definition %s (mode : Z) :=\n  %s.\n' % (coq_name, body)


def gen_modes():
    out = HEADER % 'dwt/lowlevel.py and scatternet/lowlevel.py'
    for mod, pref in (('dwt', 'dwt_'), ('scatternet', 'scat_')):
        p = os.path.join(REPO, 'pytorch_wavelets/%s/lowlevel.py' % mod)
        for name, sp in (('mode_to_int', ('mode',)), ('int_to_mode', ())):
            try:
                fn = find_fn(p, name)
                fn.name = pref + name
                out += FnTranslator(fn, set(), sp).translate() + '\n'
            except TranslateError:
                out += tabulate_mode_fns(p, name, pref + name) + '\n'
    return out


# ---------------------------------------------------------------- npz tables, exact
def read_npy(b):
    if b[:6] != b'\x93NUMPY': raise TranslateError('not an npy file')
    major = b[6]
    if major == 1:
        hl = struct.unpack('<H', b[8:10])[0]; off = 10
    else:
        hl = struct.unpack('<I', b[8:12])[0]; off = 12
    header = ast.literal_eval(b[off:off + hl].decode('latin1'))
    if header['descr'][:2] in ('|S', '<U', '|U'): return None, None      # provenance strings, not a filter
    if header['descr'] not in ('<f8', '|f8', '=f8'): raise TranslateError('table is not little-endian float64: %r' % header['descr'])
    shape = header['shape']
    n = 1
    for s in shape: n *= s
    data = struct.unpack('<%dd' % n, b[off + hl: off + hl + 8 * n])
    if header.get('fortran_order') and len([s for s in shape if s > 1]) > 1:
        raise TranslateError('fortran-ordered 2-D table')
    return shape, data


def dyadic(x):
    """float64 -> (m, e) with x == m * 2**e exactly, m odd or 0"""
    if x != x or x in (float('inf'), float('-inf')): raise TranslateError('non-finite table entry')
    if x == 0.0: return (0, 0)
    m, e = x.hex(), 0
    num, den = x.as_integer_ratio()      # den is a power of two
    e = -(den.bit_length() - 1)
    while num % 2 == 0:
        num //= 2; e += 1
    return (num, e)


def tables_of(dirpath):
    tabs = {}
    for p in sorted(glob.glob(os.path.join(dirpath, '*.npz'))):
        base = os.path.basename(p)[:-4]
        z = zipfile.ZipFile(p)
        for nm in sorted(z.namelist()):
            if not nm.endswith('.npy'): continue
            shape, data = read_npy(z.read(nm))
            if shape is None: continue
            tabs[(base, nm[:-4])] = [dyadic(v) for v in data]
    return tabs


def coq_tab(tabs, prefix):
    out = ''
    names = []
    for (base, var), vals in sorted(tabs.items()):
        nm = '%s_%s_%s' % (prefix, base, var)
        names.append((base, var, nm))
        out += 'Definition %s : list (Z*Z) := [%s].\n' % (nm, '; '.join('(%s, %s)' % (('(%d)' % m) if m < 0 else str(m), ('(%d)' % e) if e < 0 else str(e)) for m, e in vals))
    out += '\nDefinition %s_all : list (string * string * list (Z*Z)) := [\n  %s].\n' % (
        prefix, ';\n  '.join('("%s"%%string, "%s"%%string, %s)' % (b, v, nm) for b, v, nm in names))
    return out


def gen_tables():
    out = HEADER % 'pytorch_wavelets/dtcwt/data/*.npz and the installed dtcwt package'
    out += '(* every float64 entry x as (m, e), x = m * 2^e exactly *)\n'
    out += coq_tab(tables_of(os.path.join(REPO, 'pytorch_wavelets/dtcwt/data')), 'tab')
    try:
        import importlib.util
        spec = importlib.util.find_spec('dtcwt')
        refdir = os.path.join(os.path.dirname(spec.origin), 'data')
        out += '\n' + coq_tab(tables_of(refdir), 'ref')
    except Exception as e:
        raise TranslateError('reference dtcwt package tables not readable: %s' % e)
    return out


def gen_pywt():
    """the filter banks of every discrete wavelet of the INSTALLED PyWavelets (environment, not /repo), exact dyadics"""
    import pywt
    out = HEADER % 'the installed PyWavelets package (pywt.Wavelet(name).filter_bank for every discrete wavelet)'
    out += '(* (name, orthogonal?, dec_lo, dec_hi, rec_lo, rec_hi), every tap x as (m, e), x = m * 2^e exactly *)\n'
    rows = []
    lit = lambda f: '[' + '; '.join('(%s, %s)' % (('(%d)' % m) if m < 0 else str(m), ('(%d)' % e) if e < 0 else str(e)) for m, e in (dyadic(float(v)) for v in f)) + ']'
    for w in pywt.wavelist(kind='discrete'):
        W = pywt.Wavelet(w)
        rows.append('("%s"%%string, %s, %s, %s, %s, %s)' % (w, 'true' if W.orthogonal else 'false', lit(W.dec_lo), lit(W.dec_hi), lit(W.rec_lo), lit(W.rec_hi)))
    out += 'Definition pywt_banks : list (string * bool * list (Z*Z) * list (Z*Z) * list (Z*Z) * list (Z*Z)) := [\n  ' + ';\n  '.join(rows) + '].\n'
    return out


def write_if_changed(path, text):
    old = open(path).read() if os.path.exists(path) else None
    if old != text:
        with open(path, 'w') as f:
            f.write(text)
        return True
    return False


def regenerate():
    """each generated file on its own: a source construct outside the grammar in one of them is an error of THAT file only
    (recorded under 'error'; the stale file on disk must then not be trusted by the properties that depend on it)"""
    os.makedirs(GEN, exist_ok=True)
    info = {}
    for name, fn in (('Dims.v', gen_dims), ('Modes.v', gen_modes), ('Tables.v', gen_tables), ('Effects.v', gen_effects), ('PywtTables.v', gen_pywt)):
        try:
            text = fn()
        except Exception as e:
            info[name] = dict(error='%s: %s' % (type(e).__name__, e))
            continue
        ch = write_if_changed(os.path.join(GEN, name), text)
        info[name] = dict(sha=hashlib.sha256(text.encode()).hexdigest()[:12], rewritten=ch)
    return info


def coq_closure(vo_list):
    """module names (e.g. 'Gen.Modes') in the transitive `From PW Require Import` closure of the given .vo targets"""
    import re
    root = os.path.join(os.path.dirname(GEN))
    todo = [v.replace('theories/', '').replace('.vo', '').replace('/', '.') for v in vo_list]
    seen = set()
    while todo:
        m = todo.pop()
        if m in seen: continue
        seen.add(m)
        path = os.path.join(root, m.replace('.', '/') + '.v')
        try:
            src = open(path).read()
        except OSError:
            continue
        for stmt in re.findall(r'From\s+PW\s+Require\s+(?:Import|Export)\s+(.*?)\.(?:\s|$)', src, re.S):
            for tok in stmt.split():
                if re.match(r'^[A-Z][A-Za-z0-9_]*(\.[A-Za-z0-9_]+)+$', tok): todo.append(tok)
    return seen



# ---------------------------------------------------------------- effect / dtype summary (C15, C16)
ALLOC_CALLS = {'conv2d', 'conv_transpose2d', 'pad', 'cat', 'stack', 'zeros', 'new_zeros', 'zeros_like', 'ones', 'tensor', 'copy', 'array',
               'repeat', 'avg_pool2d', 'interpolate', 'sqrt', 'outer', 'arange', 'clone', 'index_select', 'reflect',
               'atleast_2d', 'where', 'fmod', 'einsum', 'as_column_vector', 'asanyarray', 'flip', 'roll', 'mypad', 'afb1d', 'sfb1d',
               'afb1d_atrous', 'colfilter', 'rowfilter', 'coldfilt', 'rowdfilt', 'colifilt', 'rowifilt', 'c2q', 'prep_filt'}
# methods whose result MAY share storage with the receiver (contiguous() / float() / double() / to() return the receiver itself when nothing has to change)
VIEW_METHODS = {'view', 'reshape', 'transpose', 'permute', 'squeeze', 'unsqueeze', 'T', 'ravel', 'detach', 'narrow', 'expand', 't',
                'contiguous', 'float', 'double', 'to', 'type', 'flatten', 'view_as', 'expand_as', 'squeeze_', 'unbind', 'chunk', 'split'}
GLOBAL_STATE_CALLS = {'get_default_dtype', 'set_default_dtype', 'is_grad_enabled', 'manual_seed', 'seed', 'rand', 'randn', 'random', 'time', 'getenv'}
SELF_MUTATORS = {'to', 'float', 'double', 'half', 'bfloat16', 'cuda', 'cpu', 'type', 'register_buffer', 'register_parameter', 'load_state_dict',
                 'requires_grad_', 'train', 'eval', 'apply', 'add_module', 'zero_grad', '__setattr__', 'update'}
CREATE_CALLS = {'zeros', 'ones', 'tensor', 'empty', 'full', 'arange', 'eye'}


def call_name(f):
    if isinstance(f, ast.Attribute): return f.attr
    if isinstance(f, ast.Name): return f.id
    return ''

def base_name(e):
    """the variable an expression is a view of: x[...], x.view(..), x.attr ... -> ('name', x) ; self.foo -> ('attr', foo)"""
    while True:
        if isinstance(e, ast.Subscript): e = e.value
        elif isinstance(e, ast.Attribute):
            if isinstance(e.value, ast.Name) and e.value.id in ('self', 'ctx'):
                return (e.value.id, e.attr)
            e = e.value
        elif isinstance(e, ast.Call) and isinstance(e.func, ast.Attribute) and e.func.attr in VIEW_METHODS:
            e = e.func.value
        elif isinstance(e, ast.Name):
            return ('name', e.id)
        else:
            return ('expr', None)


class EffectVisitor:
    def __init__(self, fn, file, cls, module_globals):
        self.fn, self.file, self.cls, self.g = fn, file, cls, module_globals
        self.prov = {}
        a = fn.args
        for p in a.args + a.kwonlyargs + ([a.vararg] if a.vararg else []) + ([a.kwarg] if a.kwarg else []):
            self.prov[p.arg] = 'param'
        # a parameter that is compared (==, <, in, ...) in the TEST of an if / conditional expression / while / assert is a Python
        # scalar (a tensor there raises "ambiguous truth value"): re-binding it with an augmented assignment mutates nothing
        tests = []
        for node in ast.walk(fn):
            if isinstance(node, (ast.If, ast.IfExp, ast.While, ast.Assert)): tests.append(node.test)
        for t in tests:
            for c in ast.walk(t):
                if isinstance(c, ast.Compare) and not any(isinstance(o, (ast.Is, ast.IsNot)) for o in c.ops):
                    for v in [c.left] + list(c.comparators):
                        if isinstance(v, ast.Name) and self.prov.get(v.id) == 'param':
                            self.prov[v.id] = 'scalar'
        self.sites = []          # (kind, detail, provenance, line)

    def is_scalar(self, e):
        """shape entries, lengths, integer arithmetic on them, known integer-valued helpers"""
        if isinstance(e, ast.Constant): return isinstance(e.value, (int, float, bool, str)) or e.value is None
        if isinstance(e, ast.Name): return self.prov.get(e.id) == 'scalar'
        if isinstance(e, ast.Attribute): return e.attr in ('shape', 'ndim', 'J', 'mode', 'o_dim', 'ri_dim')
        if isinstance(e, ast.Subscript): return self.is_scalar(e.value) or (isinstance(e.value, ast.Attribute) and e.value.attr == 'shape')
        if isinstance(e, ast.BinOp): return self.is_scalar(e.left) and self.is_scalar(e.right)
        if isinstance(e, ast.UnaryOp): return self.is_scalar(e.operand)
        if isinstance(e, ast.IfExp): return self.is_scalar(e.body) and self.is_scalar(e.orelse)
        if isinstance(e, ast.Tuple): return all(self.is_scalar(v) for v in e.elts)
        if isinstance(e, ast.Call):
            return call_name(e.func) in ('len', 'numel', 'int', 'dwt_coeff_len', 'mode_to_int', 'int_to_mode', 'get_dimensions5', 'get_dimensions6', 'range', 'dim', 'size', 'fix')
        return False

    def prov_of_expr(self, e):
        if self.is_scalar(e):
            return 'scalar'
        if isinstance(e, (ast.BinOp, ast.UnaryOp, ast.Compare, ast.BoolOp, ast.Constant, ast.List, ast.Tuple, ast.ListComp, ast.Dict, ast.JoinedStr)):
            return 'fresh'
        if isinstance(e, ast.Call):
            n = call_name(e.func)
            if isinstance(e.func, ast.Attribute) and n in VIEW_METHODS:
                return self.prov_of_expr(e.func.value)
            if n in ALLOC_CALLS or n == 'apply':
                return 'fresh'
            return 'unknown'
        if isinstance(e, ast.IfExp):
            a, b = self.prov_of_expr(e.body), self.prov_of_expr(e.orelse)
            return a if a == b else ('param' if 'param' in (a, b) else 'unknown')
        k, nm = base_name(e)
        if k == 'name':
            if nm in self.prov: return self.prov[nm]
            if nm in self.g: return 'global'
            return 'unknown'
        if k == 'self': return 'attr'
        if k == 'ctx': return 'ctx'
        return 'unknown'

    def assign(self, target, value):
        if isinstance(target, ast.Name):
            self.prov[target.id] = self.prov_of_expr(value)
        elif isinstance(target, (ast.Tuple, ast.List)):
            src = self.prov_of_expr(value)
            if isinstance(value, (ast.Tuple, ast.List)) and len(value.elts) == len(target.elts):
                for t, v in zip(target.elts, value.elts): self.assign(t, v)
            else:
                for t in target.elts:
                    if isinstance(t, ast.Name): self.prov[t.id] = src
        elif isinstance(target, ast.Subscript):
            k, nm = base_name(target)
            p = self.prov_of_expr(target.value)
            if k == 'name' and nm in self.g and nm not in self.prov:
                self.sites.append(('global_write', nm, 'global', target.lineno))
            else:
                self.sites.append(('inplace', 'setitem:%s' % (nm or '?'), p, target.lineno))
        elif isinstance(target, ast.Attribute):
            k, nm = base_name(target)
            if k == 'self' and self.fn.name in ('forward', 'backward', '__call__'):
                self.sites.append(('self_write', nm, 'attr', target.lineno))
            elif k == 'name' and nm in self.g and nm not in self.prov:
                self.sites.append(('global_write', nm, 'global', target.lineno))

    def run(self):
        for node in ast.walk(self.fn):
            if isinstance(node, ast.Global):
                for nm in node.names: self.sites.append(('global_write', nm, 'global', node.lineno))
        self.block(self.fn.body)
        return self.sites

    def block(self, stmts):
        for st in stmts:
            if isinstance(st, (ast.FunctionDef, ast.ClassDef)): continue
            if isinstance(st, ast.Assign):
                self.scan_calls(st.value)
                for t in st.targets: self.assign(t, st.value)
            elif isinstance(st, ast.AugAssign):
                self.scan_calls(st.value)
                p = self.prov_of_expr(st.target)
                k, nm = base_name(st.target)
                if isinstance(st.target, ast.Name) and p == 'fresh' and not isinstance(st.target, ast.Subscript):
                    # x += ... on a fresh tensor: in place on a fresh value, harmless; on scalars rebinding
                    self.sites.append(('inplace', 'augassign:%s' % nm, p, st.lineno))
                else:
                    if k == 'name' and nm in self.g and nm not in self.prov:
                        self.sites.append(('global_write', nm, 'global', st.lineno))
                    else:
                        self.sites.append(('inplace', 'augassign:%s' % (nm or '?'), p, st.lineno))
            elif isinstance(st, (ast.If, ast.For, ast.While, ast.With, ast.Try)):
                for f in ('test', 'iter'):
                    if hasattr(st, f): self.scan_calls(getattr(st, f))
                if isinstance(st, ast.For): self.assign(st.target, st.iter)
                for f in ('body', 'orelse', 'finalbody'):
                    if hasattr(st, f): self.block(getattr(st, f))
                if isinstance(st, ast.Try):
                    for h in st.handlers: self.block(h.body)
            elif isinstance(st, (ast.Expr, ast.Return)):
                if getattr(st, 'value', None) is not None: self.scan_calls(st.value)
            elif isinstance(st, ast.Delete):
                pass

    def scan_calls(self, e):
        for node in ast.walk(e):
            if not isinstance(node, ast.Call): continue
            n = call_name(node.func)
            if isinstance(node.func, ast.Attribute) and n.endswith('_') and not n.startswith('__') and n not in ('requires_grad_',):
                self.sites.append(('inplace', 'method:%s' % n, self.prov_of_expr(node.func.value), node.lineno))
            if isinstance(node.func, ast.Attribute) and isinstance(node.func.value, ast.Name) and node.func.value.id == 'self' \
                    and n in SELF_MUTATORS and self.fn.name in ('forward', 'backward', '__call__'):
                self.sites.append(('self_write', 'self.%s()' % n, 'attr', node.lineno))
            if n == 'setattr' and node.args and isinstance(node.args[0], ast.Name) and node.args[0].id == 'self' \
                    and self.fn.name in ('forward', 'backward', '__call__'):
                self.sites.append(('self_write', 'setattr(self)', 'attr', node.lineno))
            if any(k.arg == 'out' for k in node.keywords):
                self.sites.append(('inplace', 'out=', 'unknown', node.lineno))
            if n in GLOBAL_STATE_CALLS:
                self.sites.append(('global_read', n, 'global', node.lineno))
            dkw = [k.value for k in node.keywords if k.arg == 'dtype']
            def literal_dtype(v):       # torch.float64 / torch.float / np.float32 ...: a dtype fixed in the source, not taken from an input
                return isinstance(v, ast.Attribute) and isinstance(v.value, ast.Name) and v.value.id in ('torch', 'np', 'numpy') and v.attr != 'dtype'
            if n in CREATE_CALLS and isinstance(node.func, ast.Attribute) and isinstance(node.func.value, ast.Name) and node.func.value.id == 'torch':
                has_dtype = bool(dkw)
                self.sites.append(('create', n, ('fixed_dtype' if literal_dtype(dkw[0]) else 'dtype') if has_dtype else 'default_dtype', node.lineno))
            elif dkw and literal_dtype(dkw[0]):
                self.sites.append(('cast', 'dtype-kw:%s' % n, 'fixed', node.lineno))
            if n in ('float', 'double', 'half') and isinstance(node.func, ast.Attribute) and not node.args:
                self.sites.append(('cast', n, 'fixed', node.lineno))


def effects_of_package():
    root = os.path.join(REPO, 'pytorch_wavelets')
    recs = []
    for dp, _, files in sorted(os.walk(root)):
        for fn in sorted(files):
            if not fn.endswith('.py'): continue
            path = os.path.join(dp, fn)
            rel = os.path.relpath(path, root)
            tree = ast.parse(open(path).read(), path)
            mg = set()
            for n in tree.body:
                if isinstance(n, ast.Assign):
                    for t in n.targets:
                        if isinstance(t, ast.Name): mg.add(t.id)
            def visit(body, cls, outer=None):
                # a helper defined inside a function is part of that function: its sites are recorded under the enclosing function's name
                for n in body:
                    if isinstance(n, ast.ClassDef): visit(n.body, n.name, outer)
                    elif isinstance(n, ast.FunctionDef):
                        name = outer or ((cls + '.' if cls else '') + n.name)
                        for dec in n.decorator_list:
                            dn = call_name(dec.func) if isinstance(dec, ast.Call) else call_name(dec)
                            recs.append((rel, name, 'decorator', dn, 'decorator', n.lineno))
                        for (kind, detail, prov, line) in EffectVisitor(n, rel, cls, mg).run():
                            recs.append((rel, name, kind, detail, prov, line))
                        visit(n.body, cls, name)
                    elif isinstance(n, (ast.If, ast.For, ast.While, ast.With, ast.Try)) and outer:
                        for f in ('body', 'orelse', 'finalbody'):
                            visit(getattr(n, f, []) or [], cls, outer)
            visit(tree.body, '')
    return recs


def gen_effects():
    recs = effects_of_package()
    out = HEADER % 'every function and method of pytorch_wavelets (effect / dtype summary)'
    out += '(* (file, function, kind, detail, provenance of the target / dtype handling) ; line numbers are left out so that moving code does not change the obligation *)\n'
    out += 'Definition effects : list (string * string * string * string * string) := [\n  '
    out += ';\n  '.join('("%s", "%s", "%s", "%s", "%s")%%string' % (f, fn, k, d.replace('"', ''), p) for (f, fn, k, d, p, _) in recs)
    out += '].\n'
    return out

if __name__ == '__main__':
    print(regenerate())
