#!/bin/bash
# run every registered quick check on the unchanged tree, 4 at a time (after the Coq build is warm); prints one line per property
cd /verif
tier=${1:-quick}
ls tools/props/c[0-9][0-9].py | sed 's/.*c\([0-9]*\).py/C\1/' | xargs -P 4 -I{} bash -c "./check {} --tier $tier > out/check_{}.log 2>&1; echo {} exit=\$? \$(grep -c KNOWN-FINDING out/check_{}.log) KF \$(grep -v KNOWN out/check_{}.log | tail -1)"
