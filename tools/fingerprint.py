#!/usr/bin/env python3
"""Source fingerprints of the files each property is anchored in (properties.jsonl: anchors.files).

The hand-written models were written against one state of those files.  `fingerprints.json` (committed) records the
AST hash (docstrings and comments ignored) of every anchored file in that state.  When an anchored file of a property
no longer matches, the quick check of that property does not report anything by itself - a rewrite can be harmless -
but it no longer trusts the small quick sample: correspondence and oracle run on the thorough tier, so that the model is
re-tied to the code as it is now on the widest input set the machinery has.

usage: fingerprint.py --write      regenerate fingerprints.json from /repo as it is (only after reviewing the change)
       fingerprint.py [Cxx]        print which anchored files differ"""
import ast, hashlib, json, os, sys

VERIF = os.path.dirname(os.path.dirname(os.path.abspath(__file__)))
REPO = '/repo'
FP = os.path.join(VERIF, 'fingerprints.json')


def anchored():
    out = {}
    for line in open(os.path.join(VERIF, 'properties.jsonl')):
        line = line.strip()
        if not line: continue
        d = json.loads(line)
        out[d['id']] = sorted(set(d.get('anchors', {}).get('files', [])))
    return out


class _Strip(ast.NodeTransformer):
    def _body(self, node):
        self.generic_visit(node)
        b = getattr(node, 'body', None)
        if isinstance(b, list) and b and isinstance(b[0], ast.Expr) and isinstance(getattr(b[0], 'value', None), ast.Constant) \
                and isinstance(b[0].value.value, str):
            node.body = b[1:] or [ast.Pass()]
        return node
    visit_Module = visit_FunctionDef = visit_ClassDef = visit_AsyncFunctionDef = _body


def _canon(node):
    """interpreter-version independent dump: node type + non-empty fields (newer Pythons add empty fields such as type_params)"""
    if isinstance(node, ast.AST):
        return (type(node).__name__, [(f, _canon(v)) for f, v in ast.iter_fields(node) if v is not None and v != [] and f not in ('kind', 'type_comment')])
    if isinstance(node, list):
        return [_canon(v) for v in node]
    return repr(node)


def ast_hash(path):
    import glob
    if any(ch in path for ch in '*?['):            # a glob of data files: hash of names and bytes
        h = hashlib.sha256()
        for f in sorted(glob.glob(path)):
            h.update(os.path.basename(f).encode()); h.update(open(f, 'rb').read())
        return h.hexdigest()[:20]
    if not path.endswith('.py'):
        try:
            return hashlib.sha256(open(path, 'rb').read()).hexdigest()[:20]
        except OSError:
            return 'missing'
    try:
        src = open(path).read()
    except OSError:
        return 'missing'
    try:
        tree = _Strip().visit(ast.parse(src))
        return hashlib.sha256(repr(_canon(tree)).encode()).hexdigest()[:20]
    except SyntaxError:
        return 'syntax-error-' + hashlib.sha256(src.encode()).hexdigest()[:12]


def current():
    files = sorted({f for fs in anchored().values() for f in fs})
    return {f: ast_hash(os.path.join(REPO, f)) for f in files}


def changed(prop):
    """anchored files of `prop` whose AST differs from the recorded state (all of them when nothing is recorded)"""
    try:
        rec = json.load(open(FP))['files']
    except (OSError, ValueError, KeyError):
        return anchored().get(prop, [])
    return [f for f in anchored().get(prop, []) if rec.get(f) != ast_hash(os.path.join(REPO, f))]


if __name__ == '__main__':
    if len(sys.argv) > 1 and sys.argv[1] == '--write':
        import subprocess
        head = subprocess.run('git -C /repo rev-parse HEAD', shell=True, stdout=subprocess.PIPE, text=True).stdout.strip()
        json.dump(dict(repo_commit=head, files=current()), open(FP, 'w'), indent=1, sort_keys=True)
        print('wrote', FP)
    else:
        for p in (sys.argv[1:] or sorted(anchored())):
            print(p, changed(p))
