#!/usr/bin/env python3
"""Print the prompt given to an independent sub-agent that seeds a property-breaking change.
usage: mutant_prompt.py C05 /tmp/mut/C05 [extra hint]"""
import json, sys
pid, wt = sys.argv[1], sys.argv[2]
extra = sys.argv[3] if len(sys.argv) > 3 else ''
prop = [json.loads(l) for l in open('/verif/properties.jsonl') if json.loads(l)['id'] == pid][0]
print(f"""You are helping to evaluate a verification framework by writing a realistic, subtle BUG (a "seeded change") in a Python library.

Library: fbcotter/pytorch_wavelets (PyTorch wavelet transforms). You have your OWN scratch git worktree of it at: {wt}
Work ONLY inside {wt} (and scratch files under {wt}/_demo/). Do NOT touch /repo or /verif, and do not read anything under /verif.
Run python as:  cd {wt} && OMP_NUM_THREADS=1 MKL_NUM_THREADS=1 PYTHONPATH={wt} /venv/bin/python ...   (ALWAYS set the two thread variables - the machine is shared with many other jobs - and never run two pytest processes at once)   (torch, numpy, pywt (PyWavelets) and the numpy `dtcwt` reference package are installed; there is no network).

The semantic property you must BREAK:

  id: {prop['id']}
  title: {prop['title']}
  statement: {prop['statement']}
  quantifier: {prop['quantifier']['text']}
  code anchors: {json.dumps(prop['anchors'].get('files'))}
  mechanisms: {json.dumps([m['name']+' @ '+m['where'] for m in prop['anchors'].get('mechanism', [])])}

Your task: make ONE small source change to the library under {wt}/pytorch_wavelets/ that
  (a) still imports and runs (it "compiles"),
  (b) still passes the EXISTING test suite: the tests that pass without your change must still pass with it. Check with:
        cd {wt} && OMP_NUM_THREADS=1 MKL_NUM_THREADS=1 PYTHONPATH={wt} /venv/bin/python -m pytest -q -p no:cacheprovider --timeout=900 -x -q tests/<relevant files> 
      (run at least the test files that exercise the code you touched, e.g. tests/test_dwt.py tests/test_dwt1d.py tests/test_dtcwt.py tests/test_scat.py tests/test_swt.py; note that some tests already fail WITHOUT your change - compare against the unmodified state, e.g. a `git archive HEAD | tar -x -C <dir>` export or `git diff > p.diff; git apply -R p.diff; ...; git apply p.diff` - do NOT use `git stash`: the stash is shared by every worktree of the repository and other people are working in sibling worktrees; tests that already fail don't count; tests/test_scat.py and tests/test_swt.py do not exist, the scattering tests are tests/test_scatnet_fwd.py and tests/test_scatnet_bwd.py),
  (c) makes the property above FALSE for some input/configuration.
The change should look like a plausible mistake or "optimisation" a maintainer could commit, and it must need something SPECIFIC to manifest - an unusual size (odd, short, not a multiple of 4...), a particular mode/filter-length combination, a multi-step sequence of calls, a particular subset of arguments requiring grad, several channels or batch items, two cooperating sites that each look fine alone, etc. - NOT something that ordinary use (e.g. a 64x64 input with db2) would expose at once, and not something the existing tests catch. Prefer changes whose effect is a silently wrong NUMBER (or wrong shape/dtype/mutation, depending on the property) rather than a crash. Do not edit tests. {extra}

Also write a demonstration {wt}/_demo/demo.py: a small standalone program that exits 0 (prints PASS) on the ORIGINAL code and exits non-zero (prints FAIL and what differs) WITH your change, by checking the property itself on the triggering input (e.g. comparing with PyWavelets / the dtcwt package / a numerically computed Jacobian / a second call), using `PYTHONPATH` to pick the library.  Verify both directions yourself: run it with your change (must fail), then undo your change with `git diff -- pytorch_wavelets > /tmp/<unique>.diff; git apply -R /tmp/<unique>.diff`, run it again (must pass), then re-apply with `git apply /tmp/<unique>.diff` (never `git stash`: it is shared between worktrees).

Deliver, at the end:
  1. {wt}/_demo/patch.diff   = output of `git -C {wt} diff -- pytorch_wavelets` (the change only, not the demo),
  2. {wt}/_demo/demo.py,
  3. {wt}/_demo/notes.txt   : which property it breaks, what exactly is needed for it to manifest, which test files you ran and their pass/fail counts with and without the change.
Leave the change applied in the worktree. In your final message, summarise the change (file, line, before/after), the trigger, and the test results. Keep it to one change; do not produce several alternatives.""")
