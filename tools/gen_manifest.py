#!/usr/bin/env python3
"""Regenerate /verif/MANIFEST.json from the table below (claimed = a tools/props/cXX.py module exists and is listed here)."""
import json, os
BASE = 'cd /repo && /venv/bin/python -m pytest -ra -q -p no:cacheprovider --timeout=900 --continue-on-collection-errors --junitxml=/verif/out/baseline.junit.xml'
TB = ('Coq 8.16.1 kernel + vm_compute (no native_compute); axioms per theorem as Print Assumptions reports them on every run '
      '(expected: Closed under the global context unless stated); hand-written Gallina model tied to /repo by an exact integer '
      'correspondence evaluated inside Coq on every run (tools/corr_*.py, tools/vlib.py), translator tools/translate.py for Gen/*.v; '
      'PyTorch kernels/autograd/NumPy indexing modelled (Base/Tensor.v) not verified; reference packages represented by Spec/*.v and tied by correspondence B.')
CLAIMED = {
 'C01': dict(text='Proof (Coq): the model of afb1d (all five modes, row pass) equals PyWavelets\' closed form for every length, filter and signal over any commutative ring (C01_level_row, C01_level_row_per under the guard N\'>=L, with C01_per_short_refuted showing the guard is necessary = known finding KF-PER-SHORT). The model is tied to the code by exact operator-matrix correspondence on every run, the closed form to pywt by correspondence B; column pass / band split / level loop are covered by correspondence and the pywt oracle, not yet by a theorem.',
             ref='4 C01', technique='Coq proof over a hand-written model + exact model/implementation correspondence (vm_compute) + pywt oracle search'),

 'C12': dict(text='Proof (Coq) over the axis tables translated from /repo on every run: for all 144 integer pairs (o,ri) in [-6,6)^2 with o != ri (mod 6) get_dimensions5/6 return exactly the positions obtained by inserting the orientation and real/imag axes into [N,C,H,W] (C12_dims_correct, finite computation lifted with forallb_forall, re-proves for any equivalent rewrite). The translator is validated on the whole domain against the Python functions each run. Layout = pure axis move, inverse with the same pair, skip masks, include_scale and prefix consistency are decided on the real modules by an exhaustive oracle over all 132 (o,ri) aliases and all masks for J<=3; a theorem about the module-level stack/unbind is not yet in the model.',
             ref='4 C12', technique='Coq proof over generated (translated) definitions + exhaustive oracle on the real modules'),
 'C18': dict(text='Proof (Coq), exhaustive over a finite domain: every float64 entry of every shipped .npz is regenerated as an exact dyadic and the kernel computes: equality with the reference package tables (exact), level-1 symmetry (2^-47), level-1 undecimated PR (2^-44), q-shift tree b = reverse of tree a and synthesis = reverse of analysis (exact, band-pass variants included), orthonormality of each tree (2^-44; qshift_32 2^-28), the sign facts the reference branches on; the cache as a state machine gives load-twice equality (C18_load_twice, C18_cache_monotone).',
             ref='4 C18', technique='Coq kernel computation (vm_compute) over tables generated from the .npz bytes + state-machine lemma for the cache'),

 'C02': dict(text='Proof (Coq): the master reconstruction identity on the line (synthesis of the analysis of ANY extended signal = the signal filtered by the kernel Pk of the four filters; exact reconstruction when Pk = delta), for every length, filter and window over any commutative ring (C02_line_pr, C02_line_pr_exact, C02_kernel_window), stated on the closed forms that C01_level_row/C10_level_nonper_row prove the model computes. Model tied to the code by exact correspondence (operator matrices, unpad rule, level loops); the kernel condition of the real wavelets, the crop to the extent and the multi-level/2-D composition are decided by the round-trip oracle against PyWavelets own error, not yet by a composed theorem. Known finding KF-PER-SHORT.',
             ref='4 C02', technique='Coq proof (line-level master identity) + exact model/implementation correspondence + round-trip oracle search'),
 'C05': dict(text='Proof (Coq): zero-padding adjointness for every L, N, n, filter, signal and cotangent (C05_adjoint_zero_line, Fubini), lifted to the tensor-level model: AFB1D row pass forward/backward are adjoint line by line in zero mode (C05_afb_zero_row; read right-to-left it is SFB1D), the grad-subset rule after the fix (C05_subsets), and a kernel-checked witness that the symmetric-mode backward is not the adjoint (C05_afb_sym_refuted = known finding KF-AFB-BWD-PAD). The backward models of all four Functions are tied to torch.autograd.grad by exact correspondence in all five modes; periodization adjointness, 2-D and multi-level are decided by correspondence + the Jacobian oracle over every grad subset.',
             ref='4 C05', technique='Coq proof (adjoint by Fubini over a hand-written model) + exact backward-model/autograd correspondence + Jacobian oracle search'),
 'C10': dict(text='Proof (Coq): for ANY pair of equal-shape coefficient tensors the model of sfb1d returns PyWavelets idwt closed form in the four non-periodization modes (C10_level_nonper_row, all sizes) and the circular synthesis in periodization under the guard L-2 <= 2n (C10_level_per_row = single fold + roll is circular, via syn_per_fold), with the code formula characterised for every size (C10_level_per_row_code) and a kernel-checked witness below the guard (C10_per_short_refuted = KF-PER-SHORT). Model tied to the code by exact operator-matrix correspondence incl. every None mask of the inverse modules; closed forms tied to pywt.idwt by correspondence B; trim rule, None handling and level loop by correspondence + oracle (KF-NONE-OVERSIZE).',
             ref='4 C10', technique='Coq proof over a hand-written model + exact model/implementation correspondence + pywt waverec oracle search'),

 'C07': dict(text='Proof (Coq): linearity of the four closed forms (analysis, periodized analysis, synthesis, circular synthesis) that the analysis/synthesis models are proved to compute, for all sizes and filters over any commutative ring, and slice independence of the analysis model: one line operator F, not mentioning n, c, the row, N or C, gives every output entry (C07_slice_afb_zero; the other modes have the same statement shape in C01_level_row). The tie uses N,C in {1,2,3} with distinct integer slices so that a channel/batch leak changes an integer; every public transform incl. SWT and DTCWT is checked by the oracle for T(0)=0, superposition and batched == per-slice.',
             ref='4 C07', technique='Coq proof (linearity + slice-independent normal form) + exact correspondence with distinct slices + oracle'),
 'C13': dict(text='Proof (Coq): for every size (multi-wrap included), even filter length, dilation d>=1 and filter, the model of afb1d_atrous with wrap-around padding is the circular correlation with the d-dilated filter at PyWavelets alignment (C13_level_row, C13_closed_form), full resolution (shape preserved), and that closed form is shift-equivariant for every circular shift (C13_shift). Model tied to the code by exact operator-matrix correspondence (6 pad modes, 3 dilations) and SWTForward level loop/band order/both mode names by correspondence + pywt.swt2 and shift oracles.',
             ref='4 C13', technique='Coq proof over a hand-written model + exact correspondence + pywt.swt2 / shift oracle'),
 'C14': dict(text='Proof (Coq): the Function used by the 2-D modules is the library functional bank with the same four filters split into bands (C14_forward_is_functional, C14_inverse_is_functional), and its first pass applies the ROW pair along the last axis and equals PyWavelets 1-D transform of every row with the row wavelet (C14_row_pair_on_last_axis, from C01). Which module buffer reaches which parameter is pinned by exact correspondence with row/column filters of different lengths (buffers read back by name, constructor order asserted) and by the oracle against pywt with one wavelet per axis and against lowlevel.afb2d/sfb2d. Known finding KF-PER-SHORT.',
             ref='4 C14', technique='Coq proof + exact correspondence (different-length row/column filters) + per-axis pywt oracle'),
 'C17': dict(text='Proof (Coq): for all even N, even L>=2, filters and signals over any commutative ring the circular synthesis with the analysis filter is the transpose of the circular analysis (C17_inverse_is_transpose), hence inner products and energy are preserved whenever that synthesis reconstructs (C17_inner_from_pr); the model computes exactly these closed forms under the property guard (every level even and >= L) by C01_level_row_per / C10_level_per_row. Orthonormality of the real PyWavelets pairs (the reconstruction hypothesis) is measured by the oracle on the extracted operator (A^T A, A A^T, S - A^T, Jacobian^T - S), not yet discharged in Coq.',
             ref='4 C17', technique='Coq proof (transpose + inner-product preservation) + exact correspondence + operator-extraction oracle'),
 'C19': dict(text='Proof (Coq): the outer-product kernel of the non-separable model factorises the 2-D correlation into the column correlation of the row correlations, entry by entry, for every stride and padding (C19_kernel_factorises). Both the non-separable and the separable models are tied to the code by exact correspondence on the same integer data (2- and 4-filter forms, different row/column lengths, odd and short sizes, four modes), and the two functional APIs are compared directly by the oracle; the mode-by-mode equality of the two padded pipelines is not yet a composed theorem.',
             ref='4 C19', technique='Coq proof (kernel factorisation) + exact correspondence of both models + API-vs-API oracle'),
}
REASONS_PENDING = 'check under construction in this session (Coq model and correspondence exist or are being built; not yet registered)'

def main():
    props = [json.loads(l) for l in open('/verif/properties.jsonl')]
    checks, na = [], []
    for p in props:
        i = p['id']
        if i in CLAIMED:
            c = CLAIMED[i]
            checks.append(dict(property_id=i, quick_cmd='./check %s --tier quick' % i, thorough_cmd='./check %s --tier thorough' % i,
                               evidence_file='/verif/evidence/%s.json' % i, replay_cmd_template='./check %s --replay {path}' % i,
                               engine='coq+corr', level_claimed=dict(category='proof', text=c['text'], design_ref=c['ref']),
                               level_note=TB + ' ' + c.get('note', ''), technique=c['technique']))
        else:
            na.append(dict(property_id=i, reason=REASONS_PENDING))
    m = dict(version=1,
             setup_cmd='cd /verif && PYTHONPATH=/repo:/verif/tools /venv/bin/python tools/translate.py && cd coq && coq_makefile -f _CoqProject -o Makefile && timeout 3400 make -j16',
             hooks=dict(guard='PYTORCH_WAVELETS_VERIF', enable='no hooks are needed: every entry point the checks use is public; the guard is set by ./check but nothing in /repo reads it',
                        baseline_off_cmd=BASE, source_commits=[], add_only=True),
             engines=[dict(name='coq', path='/verif/coq', serves_properties=sorted(CLAIMED), kind_free_text='Coq 8.16 development: Base (sums, signals, tensors), Model (transcription of the library), Spec, Proofs, Props'),
                      dict(name='corr', path='/verif/tools', serves_properties=sorted(CLAIMED), kind_free_text='exact correspondence harness (model evaluated by vm_compute on the inputs the implementation ran), translator, property oracles/search')],
             checks=checks, notes='see DESIGN.md; known findings in known_findings.json', not_applicable=na)
    json.dump(m, open('/verif/MANIFEST.json', 'w'), indent=1)
    print('claimed', sorted(CLAIMED), 'pending', [x['property_id'] for x in na])

if __name__ == '__main__':
    main()
