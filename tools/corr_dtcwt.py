"""Correspondence A for the DTCWT family: dtcwt/lowlevel.py primitives, transform_funcs (forward, inverse and the
backward passes through autograd), DTCWTForward / DTCWTInverse.  The 1/sqrt2 of q2c/c2q is a ring element set to 1 in
the model; every quantity here is homogeneous of known degree in it, so the harness rescales by sqrt2^degree and rounds
(deviation from an integer must stay below 1e-6)."""
import itertools
import numpy as np
import torch
import vlib
from vlib import Case
from corr_dwt import T, A4, int_filter, call, basis, rand_int, buf, err_kind
import pytorch_wavelets.dtcwt.lowlevel as dl
import pytorch_wavelets.dtcwt.transform_funcs as tf
from pytorch_wavelets.dtcwt.transform2d import DTCWTForward, DTCWTInverse

vlib.APPROX_TOL = 1e-6
S2 = np.sqrt(2.0)
MODE_SYM, MODE_ZERO = 1, 0


def pf(h):
    return dl.prep_filt(np.asarray(h, dtype=float), 1)

def sym_filter(rng, L):
    half = rng.integers(1, 9, size=(L + 1) // 2) * rng.choice([-1, 1], size=(L + 1) // 2)
    return np.concatenate([half, half[:L // 2][::-1]]).astype(np.int64)

def planes(hs, scale=1.0):
    """(N,C,6,H,W,2) default layout -> 12 planes (N,C,H,W), index 2*o+ri"""
    a = hs.detach().numpy() * scale
    return [a[:, :, o, :, :, ri] for o in range(6) for ri in range(2)]

def cases_linefilter(rng, Ls=(3, 5, 7, 4), sizes=(2, 3, 4, 6, 9), modes=(MODE_SYM, MODE_ZERO)):
    out = []
    for L in Ls:
        h = int_filter(rng, L)
        for n in sizes:
            for d in (2, 3):
                for mode in modes:
                    shp = (1, 2, n, 1) if d == 2 else (1, 2, 1, n)
                    X = np.stack([e[0] for e in basis(shp)], 0)
                    f = dl.colfilter if d == 2 else dl.rowfilter
                    r = call(lambda: (A4(f(T(X), pf(h), mode='symmetric' if mode == MODE_SYM else 'zero')),))
                    out.append(Case(30, [d, mode], [buf(pf(h))], [X], r, dict(fn='colfilter' if d == 2 else 'rowfilter', L=L, n=n, mode=mode)))
    return out

def cases_dfilt(rng, Ls=(2, 4, 6, 8, 10), sizes=(4, 8, 12, 16)):
    out = []
    for L in Ls:
        ha, hb = int_filter(rng, L), int_filter(rng, L)
        for n in sizes:
            for d in (2, 3):
                for hp in (0, 1):
                    shp = (1, 2, n, 1) if d == 2 else (1, 2, 1, n)
                    X = np.stack([e[0] for e in basis(shp)], 0)
                    f = dl.coldfilt if d == 2 else dl.rowdfilt
                    r = call(lambda: (A4(f(T(X), pf(ha), pf(hb), highpass=bool(hp))),))
                    out.append(Case(31, [d, hp], [buf(pf(ha)), buf(pf(hb))], [X], r, dict(fn='coldfilt' if d == 2 else 'rowdfilt', L=L, n=n, highpass=hp)))
        for n in (2, 6, 5):       # not multiples of 4 -> ValueError
            X = rand_int(rng, (1, 1, n, 3))
            r = call(lambda: (A4(dl.coldfilt(T(X), pf(ha), pf(hb))),))
            out.append(Case(31, [2, 0], [buf(pf(ha)), buf(pf(hb))], [X], r, dict(fn='coldfilt', L=L, n=n, highpass=0)))
    return out

def cases_ifilt(rng, Ls=(2, 4, 6, 8, 10), sizes=(2, 4, 6, 8, 12)):
    out = []
    for L in Ls:
        ha, hb = int_filter(rng, L), int_filter(rng, L)
        for n in sizes:
            for d in (2, 3):
                for hp in (0, 1):
                    shp = (1, 2, n, 1) if d == 2 else (1, 2, 1, n)
                    X = np.stack([e[0] for e in basis(shp)], 0)
                    f = dl.colifilt if d == 2 else dl.rowifilt
                    r = call(lambda: (A4(f(T(X), pf(ha), pf(hb), highpass=bool(hp))),))
                    out.append(Case(32, [d, hp], [buf(pf(ha)), buf(pf(hb))], [X], r, dict(fn='colifilt' if d == 2 else 'rowifilt', L=L, n=n, highpass=hp)))
    return out

def cases_q2c(rng):
    out = []
    for (H, W) in [(2, 2), (4, 6), (6, 4)]:
        Y = rand_int(rng, (2, 2, H, W))
        (a, b), (c, d) = dl.q2c(T(Y))
        out.append(Case(33, [], [], [Y], tuple(A4(t) * S2 for t in (a, b, c, d)), dict(fn='q2c', H=H, W=W)))
        ws = [rand_int(rng, (2, 2, H, W)) for _ in range(4)]
        y = dl.c2q((T(ws[0]), T(ws[1])), (T(ws[2]), T(ws[3])))
        out.append(Case(34, [], [], ws, (A4(y) * S2,), dict(fn='c2q', H=H, W=W)))
    return out

def cases_funcs(rng, sizes=((4, 4), (8, 4), (8, 12)), NC=(1, 2)):
    """fwd_j1 / fwd_j2plus / inv_j1 / inv_j2plus and the backward passes of the four Functions"""
    out = []
    nb, C = NC
    for rep in range(2):
        h0, h1 = int_filter(rng, [5, 3][rep]), int_filter(rng, [3, 7][rep])
        Lq = [4, 6][rep]
        q = [int_filter(rng, Lq) for _ in range(4)]      # h0a h0b h1a h1b
        b0, b1 = pf(h0), pf(h1)
        qa = [pf(v) for v in q]
        for (H, W) in sizes:
            X = rand_int(rng, (nb, C, H, W))
            for skip in (0, 1):
                for mode in (MODE_SYM, MODE_ZERO):
                    ll, hr, hi = tf.fwd_j1(T(X), b0, b1, bool(skip), 2, 'symmetric' if mode == MODE_SYM else 'zero')
                    exp = [A4(ll)] + ([] if skip else planes(torch.stack((hr, hi), -1), S2))
                    out.append(Case(35, [skip, mode], [buf(b0), buf(b1)], [X], tuple(exp), dict(fn='fwd_j1', H=H, W=W, skip=skip, mode=mode)))
                ll, hr, hi = tf.fwd_j2plus(T(X), qa[0], qa[2], qa[1], qa[3], bool(skip), 2, 'symmetric')
                exp = [A4(ll)] + ([] if skip else planes(torch.stack((hr, hi), -1), S2))
                out.append(Case(36, [skip], [buf(qa[0]), buf(qa[1]), buf(qa[2]), buf(qa[3])], [X], tuple(exp), dict(fn='fwd_j2plus', H=H, W=W, skip=skip, Lq=Lq)))
            # inverse functions on arbitrary inputs, every presence combination
            LL = rand_int(rng, (nb, C, H, W)); HS = rand_int(rng, (nb, C, 6, H // 2, W // 2, 2))
            LLbig = rand_int(rng, (nb, C, H + 2, W + 2))
            for (has_l, has_h, big) in [(1, 1, 0), (1, 0, 0), (0, 1, 0), (1, 1, 1)]:
                l_in = (LLbig if big else LL) if has_l else None
                for mode in (MODE_SYM,):
                    hrr = T(HS[..., 0] * S2) if has_h else torch.zeros([]); hii = T(HS[..., 1] * S2) if has_h else torch.zeros([])
                    y = call(lambda: (A4(tf.inv_j1(T(l_in) if has_l else None, hrr, hii, b0, b1, 2, 3, 4, 'symmetric')),))
                    ins = [l_in] + (planes(T(HS)) if has_h else [])
                    out.append(Case(37, [mode], [buf(b0), buf(b1)], ins, y, dict(fn='inv_j1', H=H, W=W, low=has_l, highs=has_h, big=big)))
                if not big:
                    hrr = T(HS[..., 0] * S2) if has_h else torch.zeros([]); hii = T(HS[..., 1] * S2) if has_h else torch.zeros([])
                    LLs = LL
                    y = call(lambda: (A4(tf.inv_j2plus(T(LLs) if has_l else None, hrr, hii, qa[0], qa[2], qa[1], qa[3], 2, 3, 4, 'symmetric')),))
                    # here the 12 planes have the size of the lowpass (H/2, W/2)
                    HS2 = HS
                    ins = [LLs if has_l else None] + (planes(T(HS2)) if has_h else [])
                    out.append(Case(38, [], [buf(qa[0]), buf(qa[1]), buf(qa[2]), buf(qa[3])], ins, y, dict(fn='inv_j2plus', H=H, W=W, low=has_l, highs=has_h, Lq=Lq)))
            # ---- backward passes through autograd ----
            x = T(X).requires_grad_(True)
            lo, hs = tf.FWD_J1.apply(x, b0, b1, False, 2, -1, 1)
            GL, GH = rand_int(rng, lo.shape), rand_int(rng, hs.shape)
            dx, = torch.autograd.grad([lo, hs], [x], [T(GL), T(GH * S2)])
            out.append(Case(37, [MODE_SYM], [buf(b0), buf(b1)], [GL] + planes(T(GH)), (A4(dx),), dict(fn='FWD_J1.backward', H=H, W=W)))
            x = T(X).requires_grad_(True)
            lo, hs = tf.FWD_J2PLUS.apply(x, qa[0], qa[2], qa[1], qa[3], False, 2, -1, 1)
            GL, GH = rand_int(rng, lo.shape), rand_int(rng, hs.shape)
            dx, = torch.autograd.grad([lo, hs], [x], [T(GL), T(GH * S2)])
            # backward = inv_j2plus with the a/b filters exchanged
            out.append(Case(38, [], [buf(qa[1]), buf(qa[0]), buf(qa[3]), buf(qa[2])], [GL] + planes(T(GH)), (A4(dx),), dict(fn='FWD_J2PLUS.backward', H=H, W=W, Lq=Lq)))
            l_in = T(LL).requires_grad_(True); h_in = T(HS * S2).requires_grad_(True)
            y = tf.INV_J1.apply(l_in, h_in, b0, b1, 2, -1, 1)
            G = rand_int(rng, y.shape)
            dl_, dh_ = torch.autograd.grad([y], [l_in, h_in], [T(G)])
            out.append(Case(35, [0, MODE_SYM], [buf(b0), buf(b1)], [G], tuple([A4(dl_)] + planes(dh_, S2)), dict(fn='INV_J1.backward', H=H, W=W)))
            LLs = LL
            l_in = T(LLs).requires_grad_(True); h_in = T(HS * S2).requires_grad_(True)
            y = tf.INV_J2PLUS.apply(l_in, h_in, qa[0], qa[2], qa[1], qa[3], 2, -1, 1)
            G = rand_int(rng, y.shape)
            dl_, dh_ = torch.autograd.grad([y], [l_in, h_in], [T(G)])
            out.append(Case(36, [0], [buf(qa[1]), buf(qa[0]), buf(qa[3]), buf(qa[2])], [G], tuple([A4(dl_)] + planes(dh_, S2)), dict(fn='INV_J2PLUS.backward', H=H, W=W, Lq=Lq)))
    return out

def is_ph(t):
    return t is None or t.shape == torch.Size([]) or t.numel() == 0

def cases_modules(rng, sizes, Js=(1, 2, 3), NC=(1, 2), masks='all', absent=True, modes=(MODE_SYM,)):
    out = []
    nb, C = NC
    for rep in range(2):
        h0o, h1o = int_filter(rng, [5, 3][rep]), int_filter(rng, [3, 7][rep])
        Lq = [4, 6][rep]
        q = [int_filter(rng, Lq) for _ in range(4)]          # h0a h0b h1a h1b
        for J in Js:
            sk_list = list(itertools.product([0, 1], repeat=J)) if masks == 'all' and J <= 2 else [tuple([0] * J), tuple([1] + [0] * (J - 1)), tuple([0] * (J - 1) + [1])]
            for skips in sorted(set(sk_list)):
              for mode in modes:
                  fwd = DTCWTForward(biort=(h0o, h1o), qshift=tuple(q), J=J, skip_hps=list(map(bool, skips)), include_scale=True, mode='symmetric' if mode == MODE_SYM else 'zero')
                  fb = [buf(fwd.h0o), buf(fwd.h1o), buf(fwd.h0a), buf(fwd.h0b), buf(fwd.h1a), buf(fwd.h1b)]
                  assert fb[0] == [int(v) for v in h0o[::-1]] and fb[3] == [int(v) for v in q[1][::-1]], 'prep_filt / buffer order changed'
                  for (H, W) in sizes:
                      X = rand_int(rng, (nb, C, H, W))
                      r = call(lambda: fwd(T(X)))
                      meta = dict(fn='DTCWTForward', H=H, W=W, J=J, skips=skips, Lq=Lq, mode=mode)
                      if isinstance(r[0], str):
                          out.append(Case(39, [mode] + list(skips), fb, [X], r, meta)); continue
                      yls, yhs = r
                      exp = []
                      for j in range(J):
                          exp.append(A4(yls[j]))
                          if not skips[j]:
                              exp += planes(yhs[j], S2)
                          elif not is_ph(yhs[j]):
                              raise AssertionError('skipped level is not a placeholder')
                      out.append(Case(39, [mode] + list(skips), fb, [X], tuple(exp), meta))
                      if any(skips) or mode != MODE_SYM:
                          continue
                      # inverse on an arbitrary pyramid of the same shapes; absent-level subsets
                      inv = DTCWTInverse(biort=(h0o, h1o), qshift=(q[0], q[1], q[2], q[3]))
                      gb = [buf(inv.g0o), buf(inv.g1o), buf(inv.g0a), buf(inv.g0b), buf(inv.g1a), buf(inv.g1b)]
                      YL = rand_int(rng, yls[-1].shape); YH = [rand_int(rng, h.shape) for h in yhs]
                      pres_list = [tuple([1] * J)] + ([p for p in itertools.product([0, 1], repeat=J) if not all(p)] if absent else [])
                      for pres in pres_list:
                          for has_low in ((1, 0) if (absent and any(pres)) else (1,)):
                              hin = [T(h * S2) if p else None for p, h in zip(pres, YH)]
                              y = call(lambda: (A4(inv((T(YL) if has_low else None, hin))),))
                              ins = [YL if has_low else None]
                              for p, h in zip(pres, YH):
                                  if p: ins += planes(T(h))
                              out.append(Case(40, [MODE_SYM] + list(pres), gb, ins, y, dict(fn='DTCWTInverse', H=H, W=W, J=J, present=pres, low=has_low, Lq=Lq)))
                      # a level given as a full-shape tensor that happens to be exactly zero is still a present level
                      for jz in range(J):
                          YZ = [h * (0 if j == jz else 1) for j, h in enumerate(YH)]
                          y = call(lambda: (A4(inv((T(YL), [T(h * S2) for h in YZ]))),))
                          ins = [YL]
                          for h in YZ: ins += planes(T(h))
                          out.append(Case(40, [MODE_SYM] + [1] * J, gb, ins, y, dict(fn='DTCWTInverse', H=H, W=W, J=J, present=tuple([1] * J), low=1, Lq=Lq, zero_level=jz)))
    return out
