"""Common machinery of the checks: environment, Coq driver, case files, evidence, violations, known findings."""
import os, sys, json, time, subprocess, hashlib, re, fcntl, glob
VERIF = '/verif'
REPO = '/repo'
COQ = os.path.join(VERIF, 'coq')
OUT = os.path.join(VERIF, 'out')
os.environ.setdefault('PYTHONHASHSEED', '0')
os.environ['PYTHONDONTWRITEBYTECODE'] = '1'
sys.dont_write_bytecode = True
if REPO not in sys.path[:1]:
    sys.path.insert(0, REPO)
import warnings
warnings.filterwarnings('ignore')
import numpy as np
try:
    import torch
    torch.set_num_threads(1)
    torch.set_default_dtype(torch.float64)
except ImportError:
    torch = None

TIER = os.environ.get('VERIF_TIER', 'quick')
SEED = int(os.environ.get('VERIF_SEED', '0') or 0)
NPROC = int(os.environ.get('VERIF_JOBS', '0') or 0) or min(16, os.cpu_count() or 4)

COQ_WARN = ['-w', '-notation-overridden,-ambiguous-paths,-deprecated-instance-without-locality,-deprecated-hint-rewrite-without-locality']


def sh(cmd, timeout=None, cwd=None, env=None):
    p = subprocess.run(cmd, shell=isinstance(cmd, str), cwd=cwd, env=env, stdout=subprocess.PIPE,
                       stderr=subprocess.STDOUT, timeout=timeout, text=True)
    return p.returncode, p.stdout


class BuildLock:
    """serialise everything that writes under coq/ (translator output, make)"""
    def __enter__(self):
        os.makedirs(OUT, exist_ok=True)
        self.f = open(os.path.join(OUT, '.buildlock'), 'w')
        fcntl.flock(self.f, fcntl.LOCK_EX)
        return self
    def __exit__(self, *a):
        fcntl.flock(self.f, fcntl.LOCK_UN)
        self.f.close()


def ensure_makefile():
    mk = os.path.join(COQ, 'Makefile')
    cp = os.path.join(COQ, '_CoqProject')
    if not os.path.exists(mk) or os.path.getmtime(mk) < os.path.getmtime(cp):
        rc, out = sh('coq_makefile -f _CoqProject -o Makefile', cwd=COQ, timeout=120)
        if rc != 0:
            raise RuntimeError('coq_makefile failed: ' + out)


def coq_make(targets, timeout=3000, clean=False):
    """build .vo targets (paths relative to coq/); returns (ok, log)"""
    with BuildLock():
        ensure_makefile()
        if clean:
            for t in targets:
                sh(['rm', '-f', os.path.join(COQ, t)])
        rc, out = sh(['timeout', str(timeout), 'make', '-j%d' % NPROC] + list(targets), cwd=COQ, timeout=timeout + 30)
    return rc == 0, out


def coqc_file(path, timeout=900):
    """compile a scratch .v file (outside the project) against the built theories; returns (rc, output)"""
    cmd = ['timeout', str(timeout), 'coqc', '-Q', os.path.join(COQ, 'theories'), 'PW'] + COQ_WARN + [path]
    return sh(cmd, cwd=os.path.dirname(path), timeout=timeout + 30)


# ---------------------------------------------------------------- Coq literals / case files
APPROX_TOL = 0.0     # set to 1e-6 by the DTCWT harness (sqrt2 homogeneity rescaling)

def zlit(v):
    v = int(v)
    return str(v) if v >= 0 else '(%d)' % v

def zlist(l):
    return '[' + ';'.join(zlit(v) for v in l) + ']'

def zlistlist(ll):
    return '[' + ';'.join(zlist(l) for l in ll) + ']'

def enc_ten(a):
    """numpy array (<=4 dims, padded on the left to 4 dims by the caller) -> [N;C;H;W]+data ; None -> []"""
    if a is None:
        return []
    a = np.asarray(a)
    assert a.ndim == 4, a.shape
    r = np.rint(a)
    if not np.array_equal(r, a):
        # data that passed through the 1/sqrt2 of q2c/c2q has been rescaled by sqrt2^degree by the harness: integer up to rounding
        if a.size and (APPROX_TOL == 0.0 or np.any(np.abs(r - a) > APPROX_TOL + 1e-11 * np.abs(a))):
            raise ValueError('non-integer value in exact correspondence data (max dev %g)' % np.abs(r - a).max())
    if np.abs(r).max(initial=0) >= 2**52:
        raise ValueError('magnitude too large for exact float64')
    return list(a.shape) + [int(v) for v in r.ravel()]

def enc_out(outs):
    if isinstance(outs, list) and all(isinstance(v, (int, np.integer)) for v in outs):
        return [int(v) for v in outs]          # raw integer result
    if isinstance(outs, tuple) and len(outs) == 2 and isinstance(outs[0], str):
        return [-1, outs[1]]
    r = []
    for a in outs:
        r += enc_ten(a)
    return r

class Case:
    __slots__ = ('entry', 'ip', 'filts', 'ins', 'exp', 'meta')
    def __init__(self, entry, ip, filts, ins, exp, meta):
        self.entry, self.ip, self.filts, self.ins, self.exp, self.meta = entry, ip, filts, ins, exp, meta
    def coq(self):
        return 'mkCase %d %s %s %s %s' % (self.entry, zlist(self.ip), zlistlist(self.filts),
                                          zlistlist([enc_ten(a) for a in self.ins]), zlist(enc_out(self.exp)))

def run_cases(tag, module, runner, cases, chunk_bytes=250000, timeout=1200):
    """Evaluate the model on the cases inside Coq; returns list of failing case indices (global) and stats."""
    d = os.path.join(OUT, 'cases', tag)
    sh(['rm', '-rf', d]); os.makedirs(d, exist_ok=True)
    files, cur, cur_sz, start = [], [], 0, 0
    lits = [c.coq() for c in cases]
    idx = 0
    for i, s in enumerate(lits):
        if cur and cur_sz + len(s) > chunk_bytes:
            files.append((start, cur)); cur, cur_sz, start = [], 0, i
        cur.append(s); cur_sz += len(s)
    if cur:
        files.append((start, cur))
    paths = []
    for k, (st, ls) in enumerate(files):
        p = os.path.join(d, 'cases_%s_%d.v' % (re.sub(r'\W', '_', tag), k))
        with open(p, 'w') as f:
            f.write('From PW Require Import Base.Ops Base.Tensor Run.Case %s.\n' % module)
            f.write('Definition cases : list case := [\n' + ';\n'.join(ls) + '\n].\n')
            f.write('Eval vm_compute in (bad %s cases).\n' % runner)
        paths.append((st, p))
    from concurrent.futures import ThreadPoolExecutor
    failing, errors = [], []
    def one(sp):
        st, p = sp
        rc, out = coqc_file(p, timeout)
        return st, p, rc, out
    with ThreadPoolExecutor(max_workers=NPROC) as ex:
        for st, p, rc, out in ex.map(one, paths):
            if rc != 0:
                errors.append((p, out[-2000:]))
                continue
            m = re.search(r'=\s*\[(.*?)\]\s*:\s*list Z', out, re.S)
            if not m:
                m2 = re.search(r'=\s*nil\s*:\s*list Z', out)
                if m2:
                    continue
                errors.append((p, 'unparsable coqc output: ' + out[-500:]))
                continue
            body = m.group(1).strip()
            if body:
                for tok in body.split(';'):
                    failing.append(st + int(tok.strip().replace('%Z', '')))
    return sorted(failing), errors, len(paths)

def model_output(tag, module, runner, case, timeout=600):
    """what the model computes for one case (for replay files)"""
    d = os.path.join(OUT, 'cases', tag); os.makedirs(d, exist_ok=True)
    p = os.path.join(d, 'single_%s.v' % re.sub(r'\W', '_', tag))
    with open(p, 'w') as f:
        f.write('From PW Require Import Base.Ops Base.Tensor Run.Case %s.\n' % module)
        f.write('Eval vm_compute in (%s (%s)).\n' % (runner, case.coq()))
    rc, out = coqc_file(p, timeout)
    m = re.search(r'=\s*\[(.*?)\]\s*:\s*list Z', out, re.S)
    if rc != 0 or not m:
        return None
    return [int(t.strip().replace('%Z', '').replace('(', '').replace(')', '')) for t in m.group(1).split(';') if t.strip()]


# ---------------------------------------------------------------- float cases (scattering layers)
def flit(v):
    v = float(v)
    if v != v or v in (float('inf'), float('-inf')):
        raise ValueError('non-finite float in case data')
    h = v.hex()
    return '(%s)' % h if v < 0 or h.startswith('-') else h

def flist(l):
    return '[' + ';'.join(flit(v) for v in l) + ']'

class FCase:
    __slots__ = ('entry', 'ip', 'bias', 'filts', 'ins', 'exp', 'tol', 'meta')
    def __init__(self, entry, ip, bias, filts, ins, exp, tol, meta):
        self.entry, self.ip, self.bias, self.filts, self.ins, self.exp, self.tol, self.meta = entry, ip, bias, filts, ins, exp, tol, meta
    def coq(self):
        ins = '[' + ';'.join('(%s%%Z, %s)' % (zlist(list(np.asarray(a).shape)), flist(np.asarray(a, dtype=np.float64).ravel())) for a in self.ins) + ']'
        fl = '[' + ';'.join(flist(f) for f in self.filts) + ']'
        return 'mkF %d%%Z %s%%Z %s %s %s %s %s' % (self.entry, zlist(self.ip), flit(self.bias), fl, ins, flist(np.asarray(self.exp, dtype=np.float64).ravel()), flit(self.tol))

def run_fcases(tag, cases, chunk_bytes=400000, timeout=1800):
    d = os.path.join(OUT, 'cases', tag)
    sh(['rm', '-rf', d]); os.makedirs(d, exist_ok=True)
    lits = [c.coq() for c in cases]
    files, cur, sz, start = [], [], 0, 0
    for i, s in enumerate(lits):
        if cur and sz + len(s) > chunk_bytes:
            files.append((start, cur)); cur, sz, start = [], 0, i
        cur.append(s); sz += len(s)
    if cur: files.append((start, cur))
    paths = []
    for k, (st, ls) in enumerate(files):
        p = os.path.join(d, 'fcases_%s_%d.v' % (re.sub(r'\W', '_', tag), k))
        with open(p, 'w') as f:
            f.write('From Coq Require Import PrimFloat.\nFrom PW Require Import Base.Ops Base.Tensor Run.Case Run.RunScat.\nOpen Scope float_scope.\n')
            f.write('Definition cases : list fcase := [\n' + ';\n'.join(ls) + '\n].\n')
            f.write('Eval vm_compute in (fbad cases).\n')
        paths.append((st, p))
    from concurrent.futures import ThreadPoolExecutor
    failing, errors = [], []
    def one(sp):
        st, p = sp
        rc, out = coqc_file(p, timeout)
        return st, p, rc, out
    with ThreadPoolExecutor(max_workers=NPROC) as ex:
        for st, p, rc, out in ex.map(one, paths):
            if rc != 0:
                errors.append((p, out[-2000:])); continue
            if re.search(r'=\s*nil\s*:\s*list Z', out): continue
            m = re.search(r'=\s*\[(.*?)\]\s*:\s*list Z', out, re.S)
            if not m:
                errors.append((p, 'unparsable coqc output: ' + out[-500:])); continue
            for tok in m.group(1).split(';'):
                if tok.strip():
                    failing.append(st + int(tok.strip().replace('%Z', '')))
    return sorted(failing), errors, len(paths)
