#!/usr/bin/env python3
"""One check run for one property:
   lint -> translate -> build the property's Coq closure -> audit assumptions -> correspondence A (model vs /repo)
   -> correspondence B (spec vs reference package) -> property statement on the real code (oracle) -> known findings
   -> evidence.  Exit 1 with a VIOLATION line if anything is not shown to hold."""
import sys, os, json, time, argparse, importlib, hashlib, re, traceback, subprocess
sys.path.insert(0, os.path.dirname(os.path.abspath(__file__)))
import vlib
from props.common import run_oracle
from vlib import VERIF, COQ, OUT
import numpy as np

ALLOWED_AXIOMS = {
    # standard-library axioms that some theorems (real analysis: C08/C09/C16) may rely on
    'ClassicalDedekindReals.sig_forall_dec', 'ClassicalDedekindReals.sig_not_dec',
    'FunctionalExtensionality.functional_extensionality_dep', 'Classical_Prop.classic',
}
FORBIDDEN = re.compile(r'\b(Admitted|admit|Axiom|Axioms|Parameter|Parameters|Conjecture|Hypothesis|Hypotheses|Variable|Variables)\b|Unset\s+Guard|bypass_check|Admit\s+Obligations|-type-in-type|impredicative-set')


def lint():
    """no Admitted/admit/Axiom/Parameter/Conjecture, no Variable/Hypothesis outside a Section, no switched-off checks"""
    bad = []
    for root, _, files in os.walk(os.path.join(COQ, 'theories')):
        for fn in files:
            if not fn.endswith('.v'):
                continue
            p = os.path.join(root, fn)
            depth = 0
            for ln, line in enumerate(open(p), 1):
                code = re.sub(r'\(\*.*?\*\)', '', line)
                if re.match(r'\s*Section\b', code): depth += 1
                if re.match(r'\s*End\s+\w+\s*\.', code) and depth > 0: depth -= 1
                m = FORBIDDEN.search(code)
                if m:
                    w = m.group(0)
                    if w.split()[0] in ('Variable', 'Variables', 'Hypothesis', 'Hypotheses') and depth > 0:
                        continue
                    bad.append('%s:%d: %s' % (os.path.relpath(p, VERIF), ln, w))
    cp = open(os.path.join(COQ, '_CoqProject')).read()
    if 'type-in-type' in cp or 'impredicative' in cp:
        bad.append('_CoqProject passes a forbidden flag')
    return bad


def audit(prop, theorems, module):
    """Print Assumptions for every property theorem, re-run on every check"""
    d = os.path.join(OUT, 'audit'); os.makedirs(d, exist_ok=True)
    p = os.path.join(d, 'audit_%s.v' % prop)
    with open(p, 'w') as f:
        f.write('From PW Require Import %s.\n' % module)
        for t in theorems:
            f.write('Print Assumptions %s.\n' % t)
    rc, out = vlib.coqc_file(p, 600)
    res = {}
    if rc != 0:
        return None, out
    parts = re.split(r'^(\w+)\s*\n?\s*:', out, flags=re.M)
    # simpler: walk sequentially
    cur = None
    blocks = []
    chunks = re.split(r'(?m)^(?=Closed under the global context|Axioms:)', out)
    ax_blocks = [c for c in chunks if c.startswith('Closed under') or c.startswith('Axioms:')]
    if len(ax_blocks) != len(theorems):
        return None, 'could not parse Print Assumptions output:\n' + out[-3000:]
    for t, b in zip(theorems, ax_blocks):
        if b.startswith('Closed under'):
            res[t] = []
        else:
            names = re.findall(r'(?m)^([A-Za-z_][\w\.]*)\s*:', b[len('Axioms:'):])
            res[t] = names
    return res, out


def file_hash(paths):
    h = hashlib.sha256()
    for p in sorted(paths):
        try:
            h.update(open(p, 'rb').read())
        except OSError:
            pass
    return h.hexdigest()[:16]


def write_replay(prop, kind, body):
    os.makedirs(os.path.join(VERIF, 'replays'), exist_ok=True)
    blob = json.dumps(body, sort_keys=True, default=str)
    hh = hashlib.sha256(blob.encode()).hexdigest()[:10]
    p = os.path.join(VERIF, 'replays', '%s-%s-%s.json' % (prop, kind, hh))
    body = dict(body); body['property'] = prop; body['kind'] = kind
    body['rerun'] = './check %s --replay %s' % (prop, p)
    with open(p, 'w') as f:
        json.dump(body, f, indent=1, default=str)
    return p


def load_known():
    p = os.path.join(VERIF, 'known_findings.json')
    if not os.path.exists(p):
        return {'findings': [], 'fixed': []}
    return json.load(open(p))


def main():
    ap = argparse.ArgumentParser()
    ap.add_argument('prop')
    ap.add_argument('--tier', default=os.environ.get('VERIF_TIER') or 'quick')
    ap.add_argument('--replay')
    args = ap.parse_args()
    prop = args.prop.upper()
    tier = args.tier if args.tier in ('quick', 'thorough') else 'quick'
    seed = vlib.SEED
    t0 = time.time()
    mod = importlib.import_module('props.%s' % prop.lower())
    if args.replay:
        rp = json.load(open(args.replay))
        r = mod.replay(rp)
        print(json.dumps(r, indent=1, default=str))
        sys.exit(1 if r.get('fails') else 0)

    # the models were written against one state of the anchored source files: when one of them no longer matches its recorded
    # AST fingerprint the quick sample is not trusted - correspondence and oracle run on the thorough tier (a changed file is
    # not by itself an obligation that failed: a rewrite can be harmless)
    requested_tier = tier
    src_changed = []
    try:
        import fingerprint
        src_changed = fingerprint.changed(prop)
    except Exception as e:
        src_changed = ['fingerprint: %s' % e]
    if src_changed and tier == 'quick' and os.environ.get('VERIF_NO_ESCALATE') != '1':
        tier = 'thorough'
    rng = np.random.default_rng([seed, int(prop[1:])])
    broken = []          # obligations that no longer check: (name, detail)
    violations = []      # (replay path, text, no_input flag)
    known_lines = []
    notes = []
    cov = dict(obligations=0, discharged=0, evaluations=0, distinct_nontrivial=0, samples=[], traces_validated_against_impl=0)

    # 1. lint
    lb = lint()
    cov['obligations'] += 1
    if lb:
        broken.append(('lint', '; '.join(lb[:10])))
    else:
        cov['discharged'] += 1

    # 2. translate (regenerate Gen/*.v from /repo) and build
    gen_info = {}
    try:
        import translate
        with vlib.BuildLock():
            gen_info = translate.regenerate()
        # a generated file that could not be produced breaks an obligation of the properties whose Coq closure contains it - and only those
        needed = translate.coq_closure(list(mod.VO) + ['theories/' + m.replace('.', '/') + '.vo' for m in mod.PROPS_MODULE.split()])
        for gname, gi in gen_info.items():
            if 'error' in gi and ('Gen.' + gname[:-2]) in needed:
                broken.append(('translate:' + gname, gi['error']))
    except Exception as e:
        broken.append(('translate', '%s: %s' % (type(e).__name__, e)))
    ok, log = vlib.coq_make(mod.VO, timeout=3000, clean=(tier == 'thorough' and os.environ.get('VERIF_CLEAN', '1') == '1' and False))
    cov['obligations'] += 1
    build_ok = ok
    if not ok:
        m = re.search(r'File "([^"]+)", line (\d+).*?\n(Error:.*?)(?:\nmake|\Z)', log, re.S)
        detail = (m.group(1) + ':' + m.group(2) + ' ' + m.group(3)[:600]) if m else log[-800:]
        broken.append(('coq-build', detail))
    else:
        cov['discharged'] += 1

    # 3. audit the axioms of every property theorem
    assumptions = {}
    if build_ok:
        res, out = audit(prop, mod.THEOREMS, mod.PROPS_MODULE)
        if res is None:
            broken.append(('audit', out[-800:]))
            cov['obligations'] += len(mod.THEOREMS)
        else:
            for t in mod.THEOREMS:
                cov['obligations'] += 1
                extra = [a for a in res[t] if a not in ALLOWED_AXIOMS and not a.startswith('PrimFloat') and not a.startswith('Uint63')]
                if extra:
                    broken.append(('assumptions:' + t, 'depends on %s' % extra))
                else:
                    cov['discharged'] += 1
                assumptions[t] = res[t]
    else:
        cov['obligations'] += len(mod.THEOREMS)

    # 3b. thorough tier only: the independent checker coqchk re-checks the compiled property module(s) and everything they depend on,
    # and reports the axioms of the whole context (Props/C02Kernels is exempt: its proof is a 50 s vm_compute that coqchk, which has
    # no VM, cannot replay in reasonable time - stated in DESIGN section 5)
    if build_ok and requested_tier == 'thorough' and os.environ.get('VERIF_COQCHK', '1') == '1':
        mods = ['PW.' + m for m in mod.PROPS_MODULE.split() if m not in ('Props.C02Kernels',)]
        cov['obligations'] += 1
        try:
            r = subprocess.run(['coqchk', '-silent', '-o', '-Q', 'theories', 'PW'] + mods, cwd=os.path.join(VERIF, 'coq'),
                               stdout=subprocess.PIPE, stderr=subprocess.STDOUT, text=True, timeout=2400)
            out = r.stdout
            m = re.search(r'\* Axioms:(.*?)\n\s*\n\* Constants', out, re.S)
            axs = [a.strip() for a in (m.group(1).split('\n') if m else []) if a.strip() and a.strip() != '<none>']
            short = [a.replace('Coq.Logic.', '').replace('Coq.Reals.', '') for a in axs]
            extra = [a for a in short if a not in ALLOWED_AXIOMS]
            unsafe = [l for l in out.splitlines() if ('type-in-type' in l or 'unsafe' in l or 'positivity is assumed' in l) and '<none>' not in l]
            cov['coqchk'] = dict(modules=mods, exit=r.returncode, axioms=short, flags=unsafe)
            if r.returncode != 0 or extra or unsafe:
                broken.append(('coqchk', 'exit %d, axioms outside the allow-list %s, flags %s, tail: %s' % (r.returncode, extra, unsafe, out[-300:])))
            else:
                cov['discharged'] += 1
        except subprocess.TimeoutExpired:
            broken.append(('coqchk', 'timed out'))

    # 4./5. correspondences (exact, evaluated inside Coq)
    corr_stats = []
    corr_fail_cases = []
    def safe_jobs():
        it = iter(mod.corr_jobs(tier, rng))
        while True:
            try:
                yield next(it)
            except StopIteration:
                return
            except Exception as e:
                # the implementation (or the harness) crashed while the cases were being produced
                broken.append(('corr-harness', '%s: %s | %s' % (type(e).__name__, str(e)[:300], traceback.format_exc()[-600:])))
                cov['obligations'] += 1
                return
    if build_ok:
        for job in safe_jobs():
            name, module, runner, cases = job['name'], job['module'], job['runner'], job['cases']
            try:
                if job.get('float'):
                    bad, errs, nfiles = vlib.run_fcases('%s_%s' % (prop, name), cases)
                else:
                    bad, errs, nfiles = vlib.run_cases('%s_%s' % (prop, name), module, runner, cases)
            except Exception as e:
                bad, errs, nfiles = [], [('harness', '%s: %s' % (type(e).__name__, e))], 0
            cov['obligations'] += 1
            cov['evaluations'] += len(cases)
            if job.get('against') == 'impl':
                cov['traces_validated_against_impl'] += len(cases) - len(bad)
            distinct = len({json.dumps(c.meta, sort_keys=True, default=str) for c in cases})
            cov['distinct_nontrivial'] += distinct
            if cases:
                c0 = cases[len(cases) // 2]
                cov['samples'].append({'correspondence': name, 'config': c0.meta, 'entry': c0.entry,
                                       'filters': [[(float(v) if job.get('float') else int(v)) for v in f] for f in c0.filts][:4]})
            dist = {}
            for c in cases:
                k = str(c.meta.get('fn', '')) + '/' + str(c.meta.get('mode', ''))
                dist[k] = dist.get(k, 0) + 1
            nerr = sum(1 for c in cases if isinstance(c.exp, tuple) and len(c.exp) == 2 and isinstance(c.exp[0], str))
            if job.get('float'):
                dist['tolerance_check'] = len(cases)
            corr_stats.append(dict(name=name, against=job.get('against'), cases=len(cases), files=nfiles, disagreements=len(bad),
                                   error_cases=nerr, distribution=dist))
            if errs:
                broken.append(('corr:' + name, 'coqc failed on a case file: ' + errs[0][1][-400:]))
            elif bad:
                broken.append(('corr:' + name, '%d of %d cases disagree, first: %s' % (len(bad), len(cases), cases[bad[0]].meta)))
                if not job.get('float'):
                    corr_fail_cases.append((job, [cases[b] for b in bad[:5]]))
            else:
                cov['discharged'] += 1

    # 5b. additional obligations of the property (e.g. self-test of the effect analyser)
    if hasattr(mod, 'extra_obligations'):
        try:
            for (name, ok, detail) in mod.extra_obligations(tier, rng):
                cov['obligations'] += 1
                if ok: cov['discharged'] += 1
                else: broken.append((name, detail))
        except Exception as e:
            broken.append(('extra-obligations', '%s: %s' % (type(e).__name__, e)))

    # 6. the property statement on the real code (always on a stratified set; widened when something broke)
    widen = bool(broken)
    known = load_known()
    kf = [f for f in known.get('findings', []) if f['property'] == prop]
    kf_hit = {}
    n_or = 0
    new_fail = []
    dist = {}
    try:
        for cfg in mod.oracle_cases('thorough' if widen else tier, rng):
            n_or += 1
            k = mod.strat_key(cfg); dist[k] = dist.get(k, 0) + 1
            if getattr(mod, 'GRAD_MODES', False):
                # gradient-free statement: a pseudo-random half of the cases runs under torch.no_grad()
                cfg = dict(cfg, _nograd=int(hashlib.sha256(json.dumps(cfg, sort_keys=True, default=str).encode()).digest()[0] & 1))
            if getattr(mod, 'MODE_ALIAS', False) and cfg.get('mode') == 'periodization':
                # the library also takes the PyWavelets alias 'per': a pseudo-random half of the periodization cases use it
                cfg = dict(cfg, _alias=int(hashlib.sha256(json.dumps(cfg, sort_keys=True, default=str).encode()).digest()[1] & 1))
            try:
                fail = run_oracle(mod, cfg)
            except Exception as e:
                fail = dict(error='%s: %s' % (type(e).__name__, e), trace=traceback.format_exc()[-1500:])
            if fail:
                fid = mod.kf_match(cfg, fail, kf)
                if fid:
                    kf_hit.setdefault(fid, []).append(cfg)
                else:
                    new_fail.append((cfg, fail))
                    if len(new_fail) >= 5:
                        break
            if n_or <= 2 or (n_or % 97 == 0 and len(cov['samples']) < 8):
                cov['samples'].append({'oracle_case': cfg})
    except Exception as e:
        broken.append(('oracle', '%s: %s' % (type(e).__name__, e) + traceback.format_exc()[-800:]))
    cov['evaluations'] += n_or
    cov['distinct_nontrivial'] += len(dist) if n_or else 0
    cov['oracle_distribution'] = dist

    # 7. known findings: each listed witness must still fail (else it is no longer a finding -> just not printed)
    for f in kf:
        try:
            still = mod.kf_witness_fails(f)
        except Exception as e:
            still = True
        if still or f['id'] in kf_hit:
            known_lines.append('KNOWN-FINDING: property=%s %s: %s' % (prop, f['id'], f['what']))

    # outcome
    if new_fail:
        cfg0, fail0 = new_fail[0]
        cfg, fail, shrink_steps = cfg0, fail0, 0
        try:
            if hasattr(mod, 'shrink'):
                cfg, fail = mod.shrink(cfg0, fail0)
            elif os.environ.get('VERIF_NO_SHRINK') != '1':
                from props.common import generic_shrink
                cfg, fail, shrink_steps = generic_shrink(mod, cfg0, fail0, lambda c, f: bool(mod.kf_match(c, f, kf)))
        except Exception:
            cfg, fail = cfg0, fail0
        p = write_replay(prop, 'input', dict(config=cfg, failure=fail, seed=seed, tier=tier, original_config=cfg0, shrink_steps=shrink_steps,
                                             broken_obligations=[b[0] for b in broken]))
        violations.append((p, 'failing input: %s' % json.dumps(cfg, default=str)[:300], False))
    elif broken:
        body = dict(broken_obligations=[dict(name=b[0], detail=b[1]) for b in broken], seed=seed, tier=tier,
                    searched=n_or, note='no failing input found by the search; the named theorem/correspondence no longer checks')
        if corr_fail_cases:
            job, cs = corr_fail_cases[0]
            c = cs[0]
            body['correspondence_case'] = dict(name=job['name'], meta=c.meta, entry=c.entry, ip=[int(v) for v in c.ip],
                                               filters=[[int(v) for v in f] for f in c.filts],
                                               inputs=[None if a is None else np.asarray(a).tolist() for a in c.ins],
                                               implementation=vlib.enc_out(c.exp),
                                               model=vlib.model_output('%s_%s' % (prop, job['name']), job['module'], job['runner'], c))
        p = write_replay(prop, 'obligation', body)
        violations.append((p, 'obligation(s) no longer check: %s' % ', '.join(b[0] for b in broken), True))

    wall = time.time() - t0
    cov['rule'] = mod.RULE
    cov['checker_cmd'] = 'cd /verif/coq && make %s && coqc audit (Print Assumptions) ; coqc case files (vm_compute)' % ' '.join(mod.VO)
    cov['trusted_base'] = mod.TRUSTED
    cov['correspondences'] = corr_stats
    cov['theorems'] = mod.THEOREMS
    cov['print_assumptions'] = assumptions
    cov['generated'] = gen_info
    cov['known_findings_reported'] = [l for l in known_lines]
    cov['broken_obligations'] = [dict(name=b[0], detail=b[1][:500]) for b in broken]
    cov['exhaustive'] = False
    cov['source_files_changed_since_model'] = src_changed
    cov['requested_tier'] = requested_tier
    ev = dict(property_id=prop, tier=requested_tier, seed=seed, level='proof', coverage=cov,
              assumptions=mod.ASSUMES, wall_s=round(wall, 2), violations=len(violations))
    # runs against seeded changes (tools/seeded.py) write their evidence elsewhere: /verif/evidence only holds runs on /repo as it is
    evdir = os.environ.get('VERIF_EVIDENCE_DIR') or os.path.join(VERIF, 'evidence')
    os.makedirs(evdir, exist_ok=True)
    with open(os.path.join(evdir, '%s.json' % prop), 'w') as f:
        json.dump(ev, f, indent=1, default=str)
    for l in known_lines:
        print(l)
    if src_changed and tier != requested_tier:
        print('note: anchored source changed since the model was written (%s): ran the thorough tier' % ', '.join(src_changed)[:300])
    print('%s tier=%s obligations=%d discharged=%d evaluations=%d wall=%.1fs' % (prop, tier, cov['obligations'], cov['discharged'], cov['evaluations'], wall))
    for p, text, noinput in violations:
        print('  ' + text)
        print('VIOLATION property=%s replay=%s%s' % (prop, p, ' no-failing-input-found' if noinput else ''))
    sys.exit(1 if violations else 0)


if __name__ == '__main__':
    main()
