#!/usr/bin/env python3
"""Seeded changes: store a mutant produced by a sub-agent, or run the registered checks against every stored one.
   usage: seeded.py store <name> <worktree> <property> "<needs>"     (copies _demo/patch.diff, demo.py, notes.txt)
          seeded.py run [name ...]                                      (apply to /repo, run ./check <prop>, undo)"""
import sys, os, json, subprocess, shutil, time
S = '/verif/seeded'

def sh(cmd, **kw):
    return subprocess.run(cmd, shell=True, stdout=subprocess.PIPE, stderr=subprocess.STDOUT, text=True, **kw)

def store(name, wt, prop, needs):
    d = os.path.join(S, name); os.makedirs(d, exist_ok=True)
    for f in ('patch.diff', 'demo.py', 'notes.txt'):
        if os.path.exists(os.path.join(wt, '_demo', f)):
            shutil.copy(os.path.join(wt, '_demo', f), os.path.join(d, f))
    meta = dict(name=name, property=prop, needs=needs, base_commit=sh('git -C /repo rev-parse HEAD').stdout.strip())
    json.dump(meta, open(os.path.join(d, 'meta.json'), 'w'), indent=1)
    print('stored', d)

def confirm(name):
    """demo must pass on the unchanged tree and fail with the patch (run against /repo working tree, then undone)"""
    d = os.path.join(S, name)
    env = dict(os.environ, PYTHONPATH='/repo')
    a = sh('/venv/bin/python -W ignore %s/demo.py' % d, env=env, cwd='/repo')
    assert sh('git -C /repo apply %s/patch.diff' % d).returncode == 0, 'patch does not apply'
    try:
        b = sh('/venv/bin/python -W ignore %s/demo.py' % d, env=env, cwd='/repo')
    finally:
        sh('git -C /repo checkout -- .')
    return a.returncode == 0, b.returncode != 0

def run(names):
    res = {}
    for name in names or sorted(os.listdir(S)):
        d = os.path.join(S, name)
        if not os.path.exists(os.path.join(d, 'meta.json')): continue
        meta = json.load(open(os.path.join(d, 'meta.json')))
        props = meta.get('checks') or [meta['property']]
        assert sh('git -C /repo apply %s/patch.diff' % d).returncode == 0, 'patch does not apply: ' + name
        try:
            out = {}
            for p in props:
                t = time.time()
                r = sh('cd /verif && VERIF_EVIDENCE_DIR=/verif/out/seeded_evidence ./check %s --tier quick' % p)
                lines = [l for l in r.stdout.splitlines() if l.startswith('VIOLATION')]
                out[p] = dict(exit=r.returncode, violation=lines[:1], wall=round(time.time() - t, 1))
        finally:
            sh('git -C /repo checkout -- .')
        res[name] = out
        print(name, json.dumps(out))
    return res

if __name__ == '__main__':
    if sys.argv[1] == 'store':
        store(*sys.argv[2:6])
    elif sys.argv[1] == 'confirm':
        print(confirm(sys.argv[2]))
    else:
        run(sys.argv[2:])
