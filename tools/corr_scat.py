"""Correspondence A for the scattering layers.
   (a) exact/structural: integer filters, bias 0, torch.sqrt replaced by the identity in the harness process; every
       output is then an integer up to the known powers of two of the 1/sqrt2 and 1/4 factors (rescaled per band);
   (b) values and gradients: real tables, real sqrt, compared with the PrimFloat model within a tolerance."""
import contextlib, itertools
import numpy as np, torch
import vlib
from vlib import Case, FCase
from corr_dwt import T, A4, int_filter, call, rand_int, buf
import pytorch_wavelets.dtcwt.lowlevel as dl
import pytorch_wavelets.scatternet.lowlevel as sl
from pytorch_wavelets.scatternet.layers import ScatLayer, ScatLayerj2

vlib.APPROX_TOL = 1e-6


@contextlib.contextmanager
def sqrt_is_identity():
    orig = torch.sqrt
    torch.sqrt = lambda t: t
    try:
        yield
    finally:
        torch.sqrt = orig


def small_filter(rng, L):
    """taps in {-2,-1,1,2}: the second-order layer squares twice, magnitudes must stay below 2^52"""
    return (rng.integers(1, 3, size=L) * rng.choice([-1, 1], size=L)).astype(np.int64)

def set_int_filters(layer, rng, rot, j2):
    names = ['h0o', 'h1o'] + (['h2o'] if rot else [])
    Ls = {'h0o': 3 if j2 else 5, 'h1o': 3, 'h2o': 3}
    fl = {}
    for n in names:
        f = small_filter(rng, Ls[n]) if j2 else int_filter(rng, Ls[n]); fl[n] = f
        setattr(layer, n, torch.nn.Parameter(dl.prep_filt(f.astype(float), 1), False))
    if j2:
        for n in ['h0a', 'h0b', 'h1a', 'h1b'] + (['h2a', 'h2b'] if rot else []):
            f = small_filter(rng, 4); fl[n] = f
            setattr(layer, n, torch.nn.Parameter(dl.prep_filt(f.astype(float), 1), False))
    return fl


def reg(layer, names):
    return [buf(getattr(layer, n)) if hasattr(layer, n) else [0] for n in names]

N1 = ['h0o', 'h1o', 'h2o']
N2 = ['h0o', 'h1o', 'h2o', 'h0a', 'h0b', 'h1a', 'h1b', 'h2a', 'h2b']


def scale_j1(Z, C, colour):
    nl = 3 if colour else C
    s = np.ones(Z.shape[1]); s[:nl] = 4.0; s[nl:] = 2.0
    return Z * s[None, :, None, None]

def scale_j2(Z, C, colour):
    nl = 3 if colour else C
    C1 = 6 if colour else 6 * C
    s = np.ones(Z.shape[1]); s[:nl] = 4.0; s[nl:nl + C1] = 8.0; s[nl + C1:nl + 2 * C1] = 2.0; s[nl + 2 * C1:] = 8.0
    return Z * s[None, :, None, None]


def cases_exact(rng, sizes1, sizes2):
    out = []
    with sqrt_is_identity():
        for rot in (0, 1):
            for colour in (0, 1):
                for mode in ('symmetric', 'zero'):
                    mi = sl.mode_to_int(mode)
                    lay = ScatLayer(biort='near_sym_b_bp' if rot else 'near_sym_a', mode=mode, magbias=0.0, combine_colour=bool(colour))
                    set_int_filters(lay, rng, rot, False)
                    for (H, W) in sizes1:
                        C = 3 if colour else int(rng.integers(1, 3))
                        X = rand_int(rng, (2, C, H, W), -5, 5)
                        r = call(lambda: (scale_j1(A4(lay(T(X))), C, colour),))
                        out.append(Case(50, [rot, colour, mi, 0], reg(lay, N1), [X], r, dict(fn='ScatLayer', rot=rot, colour=colour, mode=mode, H=H, W=W, C=C)))
                    lay2 = ScatLayerj2(biort='near_sym_b_bp' if rot else 'near_sym_a', qshift='qshift_b_bp' if rot else 'qshift_a', mode=mode, magbias=0.0, combine_colour=bool(colour))
                    set_int_filters(lay2, rng, rot, True)
                    for (H, W) in sizes2:
                        C = 3 if colour else int(rng.integers(1, 3))
                        X = rand_int(rng, (1, C, H, W), -2, 2)
                        r = call(lambda: (scale_j2(A4(lay2(T(X))), C, colour),))
                        out.append(Case(51, [rot, colour, mi, 0], reg(lay2, N2), [X], r, dict(fn='ScatLayerj2', rot=rot, colour=colour, mode=mode, H=H, W=W, C=C)))
            # colour with a channel count other than 3 -> AssertionError
            lay = ScatLayer(biort='near_sym_a', combine_colour=True, magbias=0.0)
            set_int_filters(lay, rng, 0, False)
            X = rand_int(rng, (1, 2, 4, 4))
            out.append(Case(50, [0, 1, 1, 0], reg(lay, N1), [X], call(lambda: (A4(lay(T(X))),)), dict(fn='ScatLayer', colour=1, C=2)))
    return out


def fbuf(layer, names):
    return [getattr(layer, n).detach().numpy().ravel().tolist() if hasattr(layer, n) else [0.0] for n in names]


def gen_input(rng, shape, kind):
    if kind == 'gauss': return rng.standard_normal(shape)
    if kind == 'zero': return np.zeros(shape)
    if kind == 'spike':
        x = np.zeros(shape); x.ravel()[int(rng.integers(x.size))] = 1e3; return x
    if kind == 'tiny': return 1e-6 * rng.standard_normal(shape)
    if kind == 'small': return 1e-3 * rng.standard_normal(shape)
    if kind == 'const': return np.full(shape, 2.5)
    raise ValueError(kind)


def cases_float(rng, sizes1, sizes2, biases=(1e-2, 0.5), kinds=('gauss', 'zero', 'spike', 'tiny', 'const'), backward=True):
    out = []
    for rot in (0, 1):
        for colour in (0, 1):
            for bias in biases:
                mode = 'symmetric'; mi = 1
                lay = ScatLayer(biort='near_sym_b_bp' if rot else 'near_sym_a', mode=mode, magbias=bias, combine_colour=bool(colour)).double()
                for (H, W) in sizes1:
                    for kind in kinds:
                        C = 3 if colour else 2
                        X = gen_input(rng, (1, C, H, W), kind)
                        x = T(X).requires_grad_(True)
                        Z = lay(x)
                        sc = max(1.0, float(np.abs(X).max())) * 20 + bias
                        out.append(FCase(60, [rot, colour, mi], bias, fbuf(lay, N1), [X], Z.detach().numpy(), 1e-9 * sc, dict(fn='ScatLayer', rot=rot, colour=colour, bias=bias, kind=kind, H=H, W=W)))
                        if backward and H % 2 == 0 and W % 2 == 0:
                            G = rng.standard_normal(tuple(Z.shape))
                            gx, = torch.autograd.grad([Z], [x], [T(G)])
                            out.append(FCase(62, [rot, colour, mi], bias, fbuf(lay, N1), [X, G], gx.numpy(), 1e-8 * 50, dict(fn='ScatLayerj1.backward', rot=rot, colour=colour, bias=bias, kind=kind, H=H, W=W)))
                lay2 = ScatLayerj2(biort='near_sym_b_bp' if rot else 'near_sym_a', qshift='qshift_b_bp' if rot else 'qshift_a', mode=mode, magbias=bias, combine_colour=bool(colour)).double()
                for (H, W) in sizes2:
                    for kind in kinds[:3]:
                        C = 3 if colour else 1
                        X = gen_input(rng, (1, C, H, W), kind)
                        x = T(X).requires_grad_(True)
                        Z = lay2(x)
                        sc = max(1.0, float(np.abs(X).max())) * 100 + bias
                        out.append(FCase(61, [rot, colour, mi], bias, fbuf(lay2, N2), [X], Z.detach().numpy(), 1e-9 * sc, dict(fn='ScatLayerj2', rot=rot, colour=colour, bias=bias, kind=kind, H=H, W=W)))
                        if backward and H % 8 == 0 and W % 8 == 0:
                            G = rng.standard_normal(tuple(Z.shape))
                            gx, = torch.autograd.grad([Z], [x], [T(G)])
                            out.append(FCase(63, [rot, colour, mi], bias, fbuf(lay2, N2), [X, G], gx.numpy(), 1e-8 * 500, dict(fn='ScatLayerj2.backward', rot=rot, colour=colour, bias=bias, kind=kind, H=H, W=W)))
    # SmoothMagFn: value and both partials
    for bias in (1e-3, 1e-2, 0.5):
        for (xv, yv) in [(0.0, 0.0), (1.0, -2.0), (1e-8, 0.0), (-3.5, 4.25), (1e3, 1e-3)]:
            x = torch.tensor([xv], dtype=torch.float64, requires_grad=True); y = torch.tensor([yv], dtype=torch.float64, requires_grad=True)
            r = sl.SmoothMagFn.apply(x, y, bias)
            gx, gy = torch.autograd.grad([r], [x, y], [torch.ones(1, dtype=torch.float64)])
            out.append(FCase(64, [0, 0, 1], bias, [], [np.array([[[[xv, yv]]]])], [float(r), float(gx), float(gy)], 1e-12 * (1 + abs(xv) + abs(yv)), dict(fn='SmoothMagFn', x=xv, y=yv, bias=bias)))
    return out
