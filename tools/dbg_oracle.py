#!/usr/bin/env python3
"""debug: run a property's oracle, print every failing config with its known-finding match. usage: dbg_oracle.py C10 [tier]"""
import sys, os, json, importlib, collections
sys.path.insert(0, os.path.dirname(os.path.abspath(__file__)))
import vlib, numpy as np
prop = sys.argv[1]; tier = sys.argv[2] if len(sys.argv) > 2 else 'quick'
mod = importlib.import_module('props.%s' % prop.lower())
kf = [f for f in json.load(open('/verif/known_findings.json'))['findings'] if f['property'] == prop]
rng = np.random.default_rng([vlib.SEED, int(prop[1:])])
n = 0; c = collections.Counter(); matched_but_pass = collections.Counter()
for cfg in mod.oracle_cases(tier, rng):
    n += 1
    try:
        fail = mod.oracle_run(cfg)
    except Exception as e:
        fail = dict(error=repr(e))
    fid = mod.kf_match(cfg, fail or {}, kf)
    if fail:
        c[fid] += 1
        if fid is None or c[fid] <= 3:
            print('FAIL', fid, json.dumps(cfg, default=str), str(fail)[:200])
    elif fid:
        matched_but_pass[fid] += 1
print('cases', n, 'failures by kf', dict(c), 'matched-but-passing', dict(matched_but_pass))
