"""C01  DWT analysis equals PyWavelets."""
import numpy as np, torch, pywt, itertools
import vlib, corr_dwt as cd
from props.common import *

ID = 'C01'
GRAD_MODES = True
MODE_ALIAS = True
PROPS_MODULE = 'Props.C01'
THEOREMS = ['C01_level_row', 'C01_level_row_per', 'C01_level_col', 'C01_level_2d', 'C01_level_2d_per', 'C01_multilevel_1d', 'C01_multilevel_1d_per', 'C01_multilevel_2d', 'C01_multilevel_2d_per', 'C01_per_short_refuted', 'C01_hyps_satisfiable']
VO = ['theories/Props/C01.vo', 'theories/Run/RunDwt.vo', 'theories/Run/RunSpec.vo']
RULE = ('correspondence A: every (L, mode, N) of the grid with the FULL operator matrix of afb1d (all basis inputs), plus '
        'AFB1D/AFB2D/DWT1DForward/DWTForward on seeded integer tensors, compared exactly with the Coq model; correspondence B: '
        'the closed form pywt_dwt / pywt_dwt_per evaluated in Coq vs pywt.dwt on integer filter banks; oracle: DWT1DForward/'
        'DWTForward vs pywt.wavedec/wavedec2 on real wavelets. A case is distinct by its configuration (function, L, N or HxW, mode, J, dims); '
        'non-trivial = generic integer filters (distinct magnitudes, mixed signs) so every output is a distinct integer combination.')
TRUSTED = TRUSTED_COMMON + ['PyWavelets as the reference, represented by Spec/Line.v (pywt_dwt, pywt_dwt_per), tied by correspondence B',
                            'pywt.dwt_coeff_len modelled as floor((N+L-1)/2) / ceil(N/2) (checked against pywt on every run)']
ASSUMES = ['theorems cover the whole model: row and column pass, band split and the level loop for every J (C01_multilevel_*: wavedec/wavedec2, finest first), all five modes (periodization under the guard);',
           'float rounding of the implementation is outside the theorem (see C16)']


def corr_jobs(tier, rng):
    q = tier == 'quick'
    Ls = [2, 4, 6] if q else [2, 4, 6, 8, 10, 14]
    modes = list(cd.MODES)
    cs = cd.cases_afb1d(rng, Ls, lambda L: range(1, 2 * L + 6) if q else range(1, 3 * L + 10), modes, dims=(3, 2))
    cs += [c for c in cd.cases_functions_1d(rng, Ls[:3], lambda L: [2, 3, L - 1, L, L + 1, 2 * L + 1], modes) if c.entry == 3]
    cs += [c for c in cd.cases_functions_2d(rng, [(2, 4), (4, 2), (6, 4)], lambda a, b: [(2, 3), (3, 2), (5, 8), (8, 5), (7, 7), (9, 10)], modes, NC=((2, 2),)) if c.entry == 7]
    cs += [c for c in cd.cases_modules_1d(rng, Ls[:3], lambda L: [2, 3, 5, 8, 11, 16, 21], modes, Js=(1, 2, 3)) if c.entry == 11]
    cs += [c for c in cd.cases_modules_2d(rng, [(2, 4), (4, 6)], lambda a, b: [(3, 4), (5, 7), (8, 8), (9, 12), (13, 6)], modes, Js=(1, 2, 3)) if c.entry == 13]
    yield dict(name='model_vs_impl', module='Run.RunDwt', runner='run_dwt', cases=cs, against='impl')
    yield dict(name='spec_vs_pywt', module='Run.RunSpec', runner='run_spec', cases=spec_cases(tier, rng), against='pywt')


def spec_cases(tier, rng):
    out = []
    Ls = [2, 4, 6, 8] if tier == 'quick' else [2, 4, 6, 8, 10, 12, 20]
    for L in Ls:
        dec = cd.int_filter(rng, L)
        w = pywt.Wavelet('int%d' % L, filter_bank=[dec.astype(float), dec.astype(float), dec[::-1].astype(float), dec[::-1].astype(float)])
        for mode in MODES5:
            for N in range(2, 3 * L + 4):
                x = rng.integers(-9, 10, size=N).astype(float)
                cA, _ = pywt.dwt(x, w, mode=mode)
                if mode == 'periodization':
                    out.append(vlib.Case(102, [], [dec], [x.reshape(1, 1, 1, N)], (cA.reshape(1, 1, 1, -1),), dict(fn='pywt.dwt', L=L, N=N, mode=mode)))
                else:
                    out.append(vlib.Case(101, [cd.MODES[mode]], [dec], [x.reshape(1, 1, 1, N)], (cA.reshape(1, 1, 1, -1),), dict(fn='pywt.dwt', L=L, N=N, mode=mode)))
    # pywt.dwt_coeff_len against the closed form
    for L in range(2, 104, 2):
        for N in list(range(1, 64)) + [127, 128, 1000, 2047, 2048]:
            for mode in MODES5:
                want = (N + 1) // 2 if mode == 'periodization' else (N + L - 1) // 2
                if pywt.dwt_coeff_len(N, L, mode) != want:
                    raise AssertionError('dwt_coeff_len closed form wrong at %s' % ((N, L, mode),))
    return out


def oracle_cases(tier, rng):
    ws = waves(tier)
    for wn in ws:
        L = pywt.Wavelet(wn).dec_len
        sizes1 = sorted({2, 3, 5, max(2, L - 1), L, L + 1, 2 * L + 1, 17, 32, 37})
        for mode in MODES5:
            for J in ((1, 2, 3) if tier == 'quick' else (1, 2, 3, 4)):
                for N in (rng.choice(sizes1, size=4, replace=False) if tier == 'quick' else sizes1):
                    yield dict(kind='1d', wave=wn, mode=mode, J=J, N=int(N), nb=2, C=2, axes=[(int(N), L)], seed=int(rng.integers(1 << 30)))
                hw = [(2, 5), (7, 4), (L, L + 1), (2 * L + 1, 9), (16, 16), (17, 23), (3, 3)]
                for (H, W) in (hw if tier == 'thorough' else [hw[i] for i in rng.choice(len(hw), 3, replace=False)]):
                    if J <= 3:
                        yield dict(kind='2d', wave=wn, mode=mode, J=J, H=int(H), W=int(W), nb=1, C=2, axes=[(int(H), L), (int(W), L)], seed=int(rng.integers(1 << 30)))
    # separate column / row wavelets (4-tuple constructor)
    mixed = [('db2', 'db4'), ('db4', 'sym4'), ('bior2.4', 'db3'), ('haar', 'bior1.3'), ('coif1', 'rbio2.2')]
    for (wc, wr) in (mixed if tier == 'thorough' else mixed[:4]):
        Lc, Lr = pywt.Wavelet(wc).dec_len, pywt.Wavelet(wr).dec_len
        for mode in MODES5:
            for J in (1, 2):
                for (H, W) in [(2 * Lc + 1, 2 * Lr + 2), (4 * Lc, 4 * Lr + 1), (16, 23)]:
                    yield dict(kind='2d', wave=wc, wave_row=wr, mode=mode, J=J, H=H, W=W, nb=1, C=2, axes=[(H, Lc), (W, Lr)], seed=int(rng.integers(1 << 30)))
    # many channels / batch items: a path chosen by the channel or batch count must compute the same transform
    for mode in MODES5:
        for (nb, C) in ((1, 70), (9, 2)):
            yield dict(kind='1d', wave='db2', mode=mode, J=2, N=19, nb=nb, C=C, axes=[(19, 4)], seed=int(rng.integers(1 << 30)))
            yield dict(kind='2d', wave='db2', mode=mode, J=2, H=10, W=13, nb=nb, C=C, axes=[(10, 4), (13, 4)], seed=int(rng.integers(1 << 30)))


def strat_key(cfg):
    if cfg['nb'] * cfg['C'] > 8:
        return '%s/%s/many%dx%d' % (cfg['kind'], cfg['mode'], cfg['nb'], cfg['C'])
    L = cfg['axes'][0][1]
    n = cfg['axes'][0][0]
    return '%s%s/%s/J%d/%s/%s' % (cfg['kind'], '-mixed' if cfg.get('wave_row') else '', cfg['mode'], cfg['J'], 'short' if n < L else 'long', 'odd' if n % 2 else 'even')


def wave_arg(cfg, which):
    """constructor argument of the 2-D modules for cfg: a name, or the 4-tuple (col lo, col hi, row lo, row hi)"""
    if not cfg.get('wave_row'):
        return cfg['wave']
    wc, wr = pywt.Wavelet(cfg['wave']), pywt.Wavelet(cfg['wave_row'])
    if which == 'dec':
        return (wc.dec_lo, wc.dec_hi, wr.dec_lo, wr.dec_hi)
    return (wc.rec_lo, wc.rec_hi, wr.rec_lo, wr.rec_hi)

def pywt_arg(cfg):
    return (cfg['wave'], cfg['wave_row']) if cfg.get('wave_row') else cfg['wave']


def oracle_run(cfg):
    from pytorch_wavelets.dwt.transform1d import DWT1DForward
    from pytorch_wavelets.dwt.transform2d import DWTForward
    r = np.random.default_rng(cfg['seed'])
    mode, J, wn = cfg['mode'], cfg['J'], cfg['wave']
    try:
        if cfg['kind'] == '1d':
            X = r.standard_normal((cfg['nb'], cfg['C'], cfg['N']))
            yl, yh = DWT1DForward(J=J, wave=wn, mode=lib_mode(cfg))(torch.tensor(X))
            ref = pywt.wavedec(X, wn, mode=mode, level=J, axis=-1)
            got = [yl.numpy()] + [h.numpy() for h in yh[::-1]]
            want = [ref[0]] + list(ref[1:])
        else:
            X = r.standard_normal((cfg['nb'], cfg['C'], cfg['H'], cfg['W']))
            yl, yh = DWTForward(J=J, wave=wave_arg(cfg, 'dec'), mode=lib_mode(cfg))(torch.tensor(X))
            ref = pywt.wavedec2(X, pywt_arg(cfg), mode=mode, level=J, axes=(-2, -1))
            got = [yl.numpy()] + [h.numpy() for h in yh[::-1]]
            want = [ref[0]] + [np.stack(t, axis=2) for t in ref[1:]]
    except (RuntimeError, ValueError) as e:
        if mode == 'reflect':
            return None          # allowed: may raise when the signal is shorter than the filter
        return dict(error='%s: %s' % (type(e).__name__, str(e)[:200]))
    scale = max(1.0, float(np.abs(X).max())) * sum(abs(v) for v in pywt.Wavelet(wn).dec_lo) ** (J * (2 if cfg['kind'] == '2d' else 1))
    for lvl, (g, w) in enumerate(zip(got, want)):
        ok, msg = tol_close(g, w, scale)
        if not ok:
            return dict(level_from_coarsest=lvl, detail=msg)
    if cfg['seed'] % 3 == 0 and mode != 'reflect':
        new = lambda: DWT1DForward(J=J, wave=wn, mode=lib_mode(cfg)) if cfg['kind'] == '1d' else DWTForward(J=J, wave=wave_arg(cfg, 'dec'), mode=lib_mode(cfg))
        msg = pow2_homog(lambda dt: (lambda a, m=new().to(dt): m(a[0])), [torch.tensor(X)])
        if msg:
            return dict(detail=msg)
    return None


PREDS = {'per_short': lambda cfg, fail: per_short(cfg)}
def kf_match(cfg, fail, kf):
    return kf_match_generic(cfg, fail, kf, PREDS)

def kf_witness_fails(f):
    return oracle_run(f['witness']) is not None

def replay(rp):
    cfg = rp.get('config')
    if cfg:
        fail = oracle_run(cfg)
        return dict(config=cfg, fails=bool(fail), failure=fail)
    return dict(fails=None, note='obligation replay: rebuild with ./check %s' % ID, obligations=rp.get('broken_obligations'))
