"""C16  dtype is preserved and float32 results are float32-accurate."""
import numpy as np, torch, itertools, sys, copy
import vlib
from props.common import *
from props import dtfam, c15

ID = 'C16'
PROPS_MODULE = 'Props.C16'
THEOREMS = ['C16_dtype_sites', 'C16_dot_any_order_float32', 'C16_stage_bound_partial', 'C16_u32', 'C16_cascade_bound_float32_partial', 'C16_cascade_nonvacuous']
VO = ['theories/Props/C16.vo']
RULE = ('static: every tensor-creation / cast site of the package (regenerated from the source) handles dtype per the rule decided in Coq; dynamic oracle over every public transform '
        '(DWT 1-D/2-D fwd+inv all modes, SWT, DTCWT fwd+inv, both scattering layers): dtype(out) == dtype(in) for float32 and float64 under both process defaults, '
        '.double()/.float() conversion == constructed-in-that-precision (bit-for-bit), non-contiguous inputs == contiguous copies (bit-for-bit), and max|y32 - y64| <= 64*eps32*(gain*max|x| + bias) '
        'with gain the largest absolute row sum of the operator extracted in float64, inputs with large dynamic range. distinct by (transform, config, check).')
TRUSTED = TRUSTED_COMMON + ['Flocq (FLX format, relative error of rounding to nearest); real-number axioms of the standard library',
                            'torch float32 kernels may use FMA / any summation order: the theorem covers any bracketing of a dot product, per stage']
ASSUMES = ['PARTIAL: proved are the envelope of one linear stage (gamma_depth * gain_stage * max|x|, any evaluation order) and of a CASCADE of stages fed with computed values (gamma_(sum of depths) * product of stage gains * max|x|); the product of the stage gains stands where the property has the gain of the composite operator (never smaller), the scattering magnitude is not a stage; the property literal bound 64*eps32*gain(T) is measured by the oracle on every run, not proved',
           'under/overflow excluded (FLX)']


def corr_jobs(tier, rng):
    return []

def extra_obligations(tier, rng):
    return c15.extra_obligations(tier, rng)


def specs(r):
    """(name, constructor kwargs -> module factory, input shape, bias)"""
    from pytorch_wavelets import DWTForward, DWTInverse, DTCWTForward, DTCWTInverse, DWT1DForward, DWT1DInverse
    from pytorch_wavelets.dwt.transform2d import SWTForward
    from pytorch_wavelets.scatternet import ScatLayer, ScatLayerj2
    S = []
    for mode in MODES5:
        S.append(('dwt2/' + mode, lambda m=mode: DWTForward(J=2, wave='db3', mode=m), (1, 2, 24, 20), 0.0))
        S.append(('dwt1/' + mode, lambda m=mode: DWT1DForward(J=2, wave='bior2.4', mode=m), (1, 2, 40), 0.0))
    S.append(('swt', lambda: SWTForward(J=2, wave='db2'), (1, 2, 16, 24), 0.0))
    for b, q in (('near_sym_a', 'qshift_a'), ('near_sym_b', 'qshift_b'), ('antonini', 'qshift_d')):
        S.append(('dtcwt/%s' % b, lambda b=b, q=q: DTCWTForward(J=3, biort=b, qshift=q), (1, 2, 24, 32), 0.0))
    S.append(('dtcwt/skip', lambda: DTCWTForward(J=3, skip_hps=[True, False, True], include_scale=True), (1, 2, 24, 32), 0.0))
    S.append(('dtcwt/skipall', lambda: DTCWTForward(J=2, biort='legall', qshift='qshift_06', skip_hps=True, o_dim=1, ri_dim=2), (1, 2, 20, 16), 0.0))
    for bias in (0.0, 1e-2, 0.5):
        S.append(('scat1/%g' % bias, lambda bias=bias: ScatLayer(magbias=bias), (1, 2, 16, 24), bias))
        S.append(('scat1c/%g' % bias, lambda bias=bias: ScatLayer(magbias=bias, combine_colour=True), (1, 3, 16, 16), bias))
        S.append(('scat1rot/%g' % bias, lambda bias=bias: ScatLayer(biort='near_sym_b_bp', magbias=bias), (1, 1, 16, 16), bias))
        S.append(('scat2/%g' % bias, lambda bias=bias: ScatLayerj2(magbias=bias), (1, 1, 16, 16), bias))
    # every dispatch of the two layers: band-pass family x colour combination
    S.append(('scat1rotc/0.01', lambda: ScatLayer(biort='near_sym_b_bp', magbias=1e-2, combine_colour=True), (1, 3, 16, 16), 1e-2))
    S.append(('scat2c/0.01', lambda: ScatLayerj2(magbias=1e-2, combine_colour=True), (1, 3, 16, 16), 1e-2))
    S.append(('scat2rot/0.01', lambda: ScatLayerj2(biort='near_sym_b_bp', qshift='qshift_b_bp', magbias=1e-2), (1, 1, 16, 16), 1e-2))
    S.append(('scat2rotc/0.01', lambda: ScatLayerj2(biort='near_sym_b_bp', qshift='qshift_b_bp', magbias=1e-2, combine_colour=True), (1, 3, 16, 16), 1e-2))
    return S

def inv_specs():
    from pytorch_wavelets import DWTForward, DWTInverse, DTCWTForward, DTCWTInverse, DWT1DForward, DWT1DInverse
    S = []
    for mode in ('zero', 'symmetric', 'periodization'):
        S.append(('idwt2/' + mode, lambda m=mode: DWTForward(J=2, wave='db3', mode=m), lambda m=mode: DWTInverse(wave='db3', mode=m), (1, 2, 24, 20)))
        S.append(('idwt1/' + mode, lambda m=mode: DWT1DForward(J=2, wave='db2', mode=m), lambda m=mode: DWT1DInverse(wave='db2', mode=m), (1, 2, 40)))
    S.append(('idtcwt', lambda: DTCWTForward(J=2), lambda: DTCWTInverse(), (1, 2, 24, 32)))
    return S


def oracle_cases(tier, rng):
    names = [s[0] for s in specs(None)]
    for nm in names:
        for chk in ('dtype', 'convert', 'strided', 'accuracy', 'default_call'):
            for rep in range(1 if tier == 'quick' else 4):
                if chk == 'accuracy':
                    for kind in ('range', 'small', 'flat', 'gauss'):
                        yield dict(transform=nm, check=chk, kind=kind, seed=int(rng.integers(1 << 30)))
                else:
                    yield dict(transform=nm, check=chk, seed=int(rng.integers(1 << 30)))
    for nm in [s[0] for s in inv_specs()]:
        for chk in ('dtype', 'accuracy', 'none_dtype', 'default_call'):
            yield dict(transform=nm, check=chk, seed=int(rng.integers(1 << 30)))

def strat_key(cfg):
    return cfg['transform'] + '/' + cfg['check'] + '/' + str(cfg.get('kind', ''))

def flat(o):
    return c15.flatten(o)

def big_range(r, shape):
    x = r.standard_normal(shape) * np.exp(r.uniform(-6, 6, size=shape))
    return x

def oracle_run(cfg):
    r = np.random.default_rng(cfg['seed'])
    old = torch.get_default_dtype()
    eps32 = float(np.finfo(np.float32).eps)
    try:
        fwd = {s[0]: s for s in specs(r)}
        inv = {s[0]: s for s in inv_specs()}
        chk = cfg['check']
        if cfg['transform'] in fwd:
            nm, mk, shp, bias = fwd[cfg['transform']]
            X = r.standard_normal(shp)
            if chk == 'accuracy':
                kind = cfg.get('kind', 'range')
                if kind == 'range': X = big_range(r, shp)
                elif kind == 'small': X = 1e-3 * r.standard_normal(shp)
                elif kind == 'flat':
                    X = np.full(shp, 0.75); X[..., 4:9, 5:11] = -1.25
            if chk == 'dtype':
                for d0 in (torch.float32, torch.float64):
                    torch.set_default_dtype(d0)
                    for dt in (torch.float32, torch.float64):
                        m = mk().to(dt)
                        for o in flat(m(torch.tensor(X, dtype=dt))):
                            if o.dtype != dt:
                                return dict(detail='output dtype %s for input %s (process default %s)' % (o.dtype, dt, d0))
                return None
            if chk == 'convert':
                torch.set_default_dtype(torch.float64); a = mk(); a32 = copy.deepcopy(a)
                torch.set_default_dtype(torch.float32); b = mk().double()
                torch.set_default_dtype(torch.float64)
                x = torch.tensor(X)
                # a module built in float64 vs one built in float32 and converted with .double(): buffers differ by float32 rounding of the taps,
                # so compare .float() of the float64-built with the float32-built (both have float32-rounded taps)
                torch.set_default_dtype(torch.float32); c = mk()
                torch.set_default_dtype(torch.float64)
                ya = flat(a32.float()(x.float())); yc = flat(c(x.float()))
                for u, v in zip(ya, yc):
                    if u.dtype != torch.float32 or not torch.equal(u, v):
                        return dict(detail='.float() of a float64-built module differs from a module constructed under a float32 default')
                return None
            if chk == 'default_call':
                # ONE float64 module, float64 data: values and gradients of a call must not depend on the process default dtype at call time
                torch.set_default_dtype(torch.float64); m = mk().double()
                res = []
                for d0 in (torch.float64, torch.float32):
                    torch.set_default_dtype(d0)
                    x = torch.tensor(X, dtype=torch.float64, requires_grad=True)
                    outs = [o for o in flat(m(x)) if o.numel()]
                    gg = torch.Generator().manual_seed(cfg['seed'] % (2 ** 31))
                    gs = [torch.randn(tuple(o.shape), generator=gg, dtype=torch.float64) for o in outs]
                    gx, = torch.autograd.grad(outs, [x], gs)
                    res.append(([o.detach() for o in outs], gx))
                for u, v in zip(res[0][0], res[1][0]):
                    if u.dtype != torch.float64 or v.dtype != torch.float64 or not torch.equal(u, v):
                        return dict(detail='float64 forward values depend on the process default dtype: max diff %.3g' % float((u - v).abs().max()))
                if not torch.equal(res[0][1], res[1][1]):
                    return dict(detail='float64 gradient depends on the process default dtype: max diff %.3g' % float((res[0][1] - res[1][1]).abs().max()))
                return None
            if chk == 'strided':
                m = mk().double()
                big = torch.tensor(r.standard_normal(tuple(shp[:-1]) + (2 * shp[-1],)))
                xs = big[..., ::2]                       # non-contiguous view
                y1 = flat(m(xs)); y2 = flat(m(xs.contiguous()))
                for u, v in zip(y1, y2):
                    if not torch.equal(u, v):
                        return dict(detail='non-contiguous input gives different values from its contiguous copy')
                xt = torch.tensor(r.standard_normal(tuple(shp[:-2]) + (shp[-1], shp[-2]))).transpose(-1, -2) if len(shp) == 4 else None
                if xt is not None:
                    y1 = flat(m(xt)); y2 = flat(m(xt.contiguous()))
                    for u, v in zip(y1, y2):
                        if not torch.equal(u, v):
                            return dict(detail='transposed (non-contiguous) input gives different values from its contiguous copy')
                return None
            # accuracy
            m64 = mk().double(); m32 = copy.deepcopy(m64).float()
            x64 = torch.tensor(X); x32 = x64.float()
            y64 = flat(m64(x32.double())); y32 = flat(m32(x32))
            # gain = largest absolute row sum of the (linearised) operator; linear transforms: extract from basis inputs
            xmax = float(x32.abs().max())
            if nm.startswith('scat'):
                gain = scat_gain(nm, shp)
            else:
                gain = gain_of(lambda t: flat(m64(t)), shp, batched=True)
            bound = 64 * eps32 * (gain * xmax + bias)
            err = max(float((a.double() - b).abs().max()) for a, b in zip(y32, y64) if a.numel())
            if err > bound:
                return dict(detail='max|y32-y64| = %.3g > 64*eps32*(gain*max|x|+bias) = %.3g (gain %.3g, max|x| %.3g)' % (err, bound, gain, xmax))
            return None
        nm, mkf, mki, shp = inv[cfg['transform']]
        f64 = mkf().double(); i64 = mki().double()
        yl, yh = f64(torch.zeros(shp, dtype=torch.float64))
        g = torch.Generator().manual_seed(cfg['seed'] % (2 ** 31))
        YL = torch.randn(tuple(yl.shape), generator=g, dtype=torch.float64); YH = [torch.randn(tuple(h.shape), generator=g, dtype=torch.float64) for h in yh]
        if chk == 'dtype':
            for d0 in (torch.float32, torch.float64):
                torch.set_default_dtype(d0)
                for dt in (torch.float32, torch.float64):
                    o = mki().to(dt)((YL.to(dt), [h.to(dt) for h in YH]))
                    if o.dtype != dt:
                        return dict(detail='inverse output dtype %s for input %s (default %s)' % (o.dtype, dt, d0))
            return None
        if chk == 'default_call':
            res = []
            for d0 in (torch.float64, torch.float32):
                torch.set_default_dtype(d0)
                args = [YL.clone().requires_grad_(True)] + [h.clone().requires_grad_(True) for h in YH]
                o = i64((args[0], args[1:]))
                gg = torch.Generator().manual_seed(cfg['seed'] % (2 ** 31))
                g0 = torch.randn(tuple(o.shape), generator=gg, dtype=torch.float64)
                grads = torch.autograd.grad([o], args, [g0])
                res.append((o.detach(), grads))
            if res[0][0].dtype != torch.float64 or not torch.equal(res[0][0], res[1][0]):
                return dict(detail='float64 inverse values depend on the process default dtype: max diff %.3g' % float((res[0][0] - res[1][0]).abs().max()))
            for u, v in zip(res[0][1], res[1][1]):
                if not torch.equal(u, v):
                    return dict(detail='float64 inverse gradient depends on the process default dtype: max diff %.3g' % float((u - v).abs().max()))
            return None
        if chk == 'none_dtype':
            for d0 in (torch.float32, torch.float64):
                torch.set_default_dtype(d0)
                for dt in (torch.float32, torch.float64):
                    try:
                        o = mki().to(dt)((YL.to(dt), [None] + [h.to(dt) for h in YH[1:]]))
                    except RuntimeError as e:
                        if 'size' in str(e).lower() and 'match' in str(e).lower():
                            continue      # shape issue of None levels is C10/C11's finding, not a dtype question
                        return dict(detail='inverse with a None level raised under default %s, input %s: %s' % (d0, dt, str(e)[:100]))
                    if o.dtype != dt:
                        return dict(detail='inverse with a None level: output dtype %s for input %s' % (o.dtype, dt))
            return None
        i32 = copy.deepcopy(i64).float()
        y64 = i64((YL.float().double(), [h.float().double() for h in YH])); y32 = i32((YL.float(), [h.float() for h in YH]))
        xmax = max(float(YL.abs().max()), max(float(h.abs().max()) for h in YH))
        def run_inv(t):
            parts, off = [], 0
            for s in [yl.shape] + [h.shape for h in yh]:
                k = int(np.prod(s)); parts.append(t[:, off:off + k].reshape((t.shape[0],) + tuple(s[1:]))); off += k
            return [i64((parts[0], parts[1:]))]
        n_in = int(yl.numel() + sum(h.numel() for h in yh))
        gain = gain_of(run_inv, (1, n_in), batched=True)
        bound = 64 * eps32 * gain * xmax
        err = float((y32.double() - y64).abs().max())
        if err > bound:
            return dict(detail='inverse: max|y32-y64| = %.3g > %.3g' % (err, bound))
        return None
    except Exception as e:
        import traceback
        return dict(error='%s: %s' % (type(e).__name__, str(e)[:200]), trace=traceback.format_exc()[-500:])
    finally:
        torch.set_default_dtype(old)


_SG = {}
def scat_gain(nm, shp):
    """gain of the linear stages under the magnitudes: |z| <= |re| + |im|, so twice the largest absolute row sum of the DTCWT with the
    same filters; squared for the second-order layer (magnitudes are 1-Lipschitz)"""
    from pytorch_wavelets import DTCWTForward
    key = (nm.split('/')[0], shp)
    if key not in _SG:
        rot = 'rot' in nm
        if rot:
            # band-pass family: bound by the plain family of the same lengths plus the h2 filters: use the filter l1 norms directly
            from pytorch_wavelets.dtcwt import coeffs
            g1 = max(float(np.abs(a).sum()) for a in coeffs.biort('near_sym_b_bp'))
            g = g1 * g1
        else:
            J = 2 if nm.startswith('scat2') else 1
            f = DTCWTForward(J=J).double()
            g = gain_of(lambda t: c15.flatten(f(t)), (1, 1) + tuple(shp[2:]))
        _SG[key] = (2 * g) ** (2 if nm.startswith('scat2') else 1)
    return _SG[key]

def gain_of(f, shp, linear=True, m=None, batched=False):
    """largest absolute row sum of the operator: rows = outputs, columns = inputs; via basis inputs in float64"""
    n = int(np.prod(shp))
    if not linear:
        # scattering: bound by the gain of the underlying linear cascades = product of the DTCWT stage gains
        g1 = max(float(p.abs().sum()) for nme, p in m.named_parameters())
        return (g1 ** 2) ** (2 if 'j2' in type(m).__name__.lower() else 1) * 4
    rows = None
    with torch.no_grad():
        if batched and shp[0] == 1:
            # the transforms act on each batch item independently: feed the basis vectors as a batch
            per = int(np.prod(shp[1:])); B = 128
            for k0 in range(0, per, B):
                nb = min(B, per - k0)
                E = torch.zeros(nb, per, dtype=torch.float64); E[torch.arange(nb), k0 + torch.arange(nb)] = 1
                o = torch.cat([t.abs().sum(0).reshape(-1) for t in f(E.reshape((nb,) + tuple(shp[1:]))) if t.dim() > 0])
                rows = o if rows is None else rows + o
            return float(rows.max())
        for k in range(n):
            e = torch.zeros(n, dtype=torch.float64); e[k] = 1
            o = torch.cat([t.reshape(-1) for t in f(e.reshape(shp))]).abs()
            rows = o if rows is None else rows + o
    return float(rows.max())


def kf_match(cfg, fail, kf):
    return None
def kf_witness_fails(f):
    return oracle_run(f['witness']) is not None
replay = dtfam.std_replay(sys.modules[__name__])
