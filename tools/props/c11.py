"""C11  DTCWT synthesis equals the reference inverse on arbitrary pyramids; absent inputs = zeros."""
import numpy as np, torch, itertools, sys
import vlib
from props.common import *
from props import dtfam, c03

ID = 'C11'
GRAD_MODES = True
PROPS_MODULE = 'Props.C11'
THEOREMS = ['C11_colifilt', 'C11_rowifilt', 'C11_colfilter', 'C11_c2q', 'C11_absent_lowpass', 'C11_absent_highs']
VO = ['theories/Props/C11.vo', 'theories/Run/RunDtcwt.vo', 'theories/Run/RunSpec.vo']
RULE = ('correspondence A: colifilt/rowifilt full operator matrices (both m/2 parities, both flags, rows below the filter), c2q, inv_j1/inv_j2plus with every presence combination and the '
        'oversize-lowpass crop, DTCWTInverse on integer pyramids with every absent-level subset and absent lowpass; correspondence B: reference colifilt/colfilter closed forms vs the package; '
        'oracle: DTCWTInverse vs dtcwt.Transform2d.inverse on random pyramids of forward-compatible shapes (20 pairs) incl. full-shape levels that are exactly zero, None / 0-dim / empty placeholders vs explicit zeros. distinct by configuration.')
TRUSTED = TRUSTED_COMMON + ['the NumPy dtcwt package as reference (closed forms in Spec/DtcwtRef.v tied by correspondence B; inverse level structure by the oracle)']
ASSUMES = ['theorems cover colifilt and rowifilt (all cases), colfilter and c2q for ANY input; size reconciliation and absent-level handling by correspondence + oracle (known findings KF-DTCWT-NONE-CROP, KF-DTCWT-ALL-ABSENT)']


def corr_jobs(tier, rng):
    import corr_dtcwt as cd
    q = tier == 'quick'
    cs = cd.cases_ifilt(rng, Ls=(2, 4, 6, 8, 10) if q else (2, 4, 6, 8, 10, 14, 18), sizes=(2, 4, 6, 8, 12) if q else (2, 4, 6, 8, 12, 16, 22))
    cs += cd.cases_linefilter(rng, Ls=(3, 5), sizes=(2, 4, 7))
    cs += cd.cases_q2c(rng)
    cs += [c for c in cd.cases_funcs(rng) if c.entry in (37, 38) and 'backward' not in c.meta['fn']]
    sizes = [(8, 8), (6, 10), (7, 9), (12, 4), (16, 20)] if q else [(h, w) for h in range(4, 20, 3) for w in range(5, 22, 4)]
    cs += [c for c in cd.cases_modules(rng, sizes, Js=(1, 2, 3), masks='none', absent=True) if c.entry == 40]
    yield dict(name='model_vs_impl', module='Run.RunDtcwt', runner='run_dtcwt', cases=cs, against='impl')
    yield dict(name='spec_vs_reference', module='Run.RunSpec', runner='run_spec', cases=c03.ref_cases(tier, rng, kinds=('colfilter', 'colifilt')), against='dtcwt')


def oracle_cases(tier, rng):
    sizes = [(8, 8), (16, 12), (7, 9), (10, 13), (20, 6), (12, 18), (32, 32), (9, 16)]
    for (b, q) in dtfam.PAIRS:
        for J in (1, 2, 3):
            for hw in (sizes if tier == 'thorough' else [sizes[i] for i in rng.choice(len(sizes), 2, replace=False)]):
                yield dict(kind='ref', biort=b, qshift=q, J=J, H=hw[0], W=hw[1], seed=int(rng.integers(1 << 30)))
    for (b, q) in (dtfam.PAIRS[0], dtfam.PAIRS[5]):
        for (nb, C) in ((1, 70), (9, 2)):
            yield dict(kind='ref', biort=b, qshift=q, J=2, H=8, W=12, nb=nb, C=C, seed=int(rng.integers(1 << 30)))
    # full-shape levels that are exactly zero (a mask, a pruned scale): still the reference inverse of that pyramid, same extent
    for (b, q) in [('near_sym_a', 'qshift_a'), ('near_sym_b', 'qshift_b'), ('legall', 'qshift_06')]:
        for J in (2, 3):
            for hw in [(10, 13), (18, 12), (26, 30), (7, 9)] + ([(100, 100), (126, 126), (64, 90)] if tier == 'thorough' else []):
                for zl in [z for z in itertools.product([0, 1], repeat=J) if any(z)]:
                    if tier == 'quick' and sum(zl) > 1 and b != 'near_sym_a': continue
                    yield dict(kind='ref', biort=b, qshift=q, J=J, H=hw[0], W=hw[1], zero=list(zl), seed=int(rng.integers(1 << 30)))
    for (b, q) in [('near_sym_a', 'qshift_a'), ('antonini', 'qshift_c'), ('legall', 'qshift_06')]:
        for J in (1, 2, 3):
            for hw in [(16, 16), (8, 24), (12, 10), (14, 18)]:
                for absent in [a for a in itertools.product([0, 1], repeat=J + 1) if any(a)]:
                    for ph in ('none', 'zerodim', 'empty'):
                        if tier == 'quick' and ph != 'none' and sum(absent) > 1: continue
                        yield dict(kind='absent', biort=b, qshift=q, J=J, H=hw[0], W=hw[1], absent=list(absent), placeholder=ph, seed=int(rng.integers(1 << 30)))


def strat_key(cfg):
    return '%s/%s/%s/J%d/%s' % (cfg['kind'], cfg['biort'], cfg['qshift'], cfg['J'], cfg.get('absent') or cfg.get('zero') or ('many%dx%d' % (cfg['nb'], cfg['C']) if cfg.get('C') else None))


def pyramid(cfg, r):
    from pytorch_wavelets import DTCWTForward
    yl, yh = DTCWTForward(biort=cfg['biort'], qshift=cfg['qshift'], J=cfg['J'])(torch.zeros(cfg.get('nb', 1), cfg.get('C', 2), cfg['H'], cfg['W'], dtype=torch.float64))
    return r.standard_normal(tuple(yl.shape)), [r.standard_normal(tuple(h.shape)) for h in yh]


def oracle_run(cfg):
    from pytorch_wavelets import DTCWTInverse
    r = np.random.default_rng(cfg['seed'])
    YL, YH = pyramid(cfg, r)
    inv = DTCWTInverse(biort=cfg['biort'], qshift=cfg['qshift'])
    sc = dtfam.filt_gain(cfg['biort'], cfg['qshift'], cfg['J'])
    try:
        if cfg['kind'] == 'ref':
            YH = [h * (0 if z else 1) for h, z in zip(YH, cfg.get('zero') or [0] * len(YH))]
            got = inv((torch.tensor(YL), [torch.tensor(h) for h in YH])).numpy()
            want = dtfam.ref_inverse(YL, YH, cfg['biort'], cfg['qshift'])
            if got.shape != want.shape:
                return dict(detail='shape %s vs reference %s' % (got.shape, want.shape))
            ok, msg = tol_close(got, want, sc)
            if ok and cfg['seed'] % 3 == 0:
                mk = lambda dt: (lambda a, m=DTCWTInverse(biort=cfg['biort'], qshift=cfg['qshift']).to(dt): m((a[0], list(a[1:]))))
                msg = pow2_homog(mk, [torch.tensor(YL)] + [torch.tensor(h) for h in YH])
                ok = msg is None
            return None if ok else dict(detail=msg)
        ab = cfg['absent']          # ab[0] = lowpass, ab[1+j] = level j
        ph = {'none': lambda: None, 'zerodim': lambda: torch.zeros([], dtype=torch.float64), 'empty': lambda: torch.tensor([], dtype=torch.float64)}[cfg['placeholder']]
        low_in = ph() if ab[0] else torch.tensor(YL)
        hs_in = [ph() if a else torch.tensor(h) for a, h in zip(ab[1:], YH)]
        got = inv((low_in, hs_in)).numpy()
        want = inv((torch.tensor(YL * (0 if ab[0] else 1)), [torch.tensor(h * (0 if a else 1)) for a, h in zip(ab[1:], YH)])).numpy()
        if got.shape != want.shape:
            return dict(detail='shape %s vs %s with explicit zeros' % (got.shape, want.shape))
        ok, msg = tol_close(got, want, sc)
        return None if ok else dict(detail='differs from explicit zeros: ' + msg)
    except Exception as e:
        return dict(error='%s: %s' % (type(e).__name__, str(e)[:200]))


def none_crop(cfg, fail):
    """KF-DTCWT-NONE-CROP: highpass level jj-1 absent while the forward transform padded the lowpass entering level jj
    (size not a multiple of 4): the inverse only reconciles sizes when the level's highpass is present"""
    if cfg.get('kind') != 'absent': return False
    ab = cfg['absent']
    for n in (cfg['H'], cfg['W']):
        size = n + n % 2            # level 1 is undecimated: its lowpass has the (even-extended) image size
        for jj in range(1, cfg['J']):
            padded = size % 4 != 0
            if padded and ab[jj]:      # ab[jj] = level jj-1 (0-based), ab[0] = lowpass
                return True
            size = (size + (2 if padded else 0)) // 2
    return False

def all_absent(cfg, fail):
    """KF-DTCWT-ALL-ABSENT: lowpass absent and the coarsest level absent: no tensor to take a shape from (AttributeError)"""
    return cfg.get('kind') == 'absent' and cfg['absent'][0] and cfg['absent'][-1]

PREDS = {'none_crop': none_crop, 'all_absent': all_absent}
def kf_match(cfg, fail, kf):
    return kf_match_generic(cfg, fail, kf, PREDS)
def kf_witness_fails(f):
    return oracle_run(f['witness']) is not None
replay = dtfam.std_replay(sys.modules[__name__])
