"""C02  DWT synthesis inverts analysis: perfect reconstruction."""
import numpy as np, torch, pywt, itertools, sys
import vlib, corr_dwt as cd
from props.common import *
from props import dwtfam, c01

ID = 'C02'
GRAD_MODES = True
MODE_ALIAS = True
PROPS_MODULE = 'Props.C02 Props.C02Kernels'
THEOREMS = ['C02_line_pr', 'C02_line_pr_exact', 'C02_kernel_window', 'C02_level_1d', 'C02_multilevel_1d', 'C02_circular_pr', 'C02_level_1d_per', 'C02_multilevel_1d_per', 'C02_PRcond_lazy', 'C02_level_2d', 'C02_multilevel_2d', 'C02_multilevel_2d_per', 'C02_pywt_kernels', 'C02_error_bound_Z', 'C02_haar_kernel']
VO = ['theories/Props/C02.vo', 'theories/Props/C02Kernels.vo', 'theories/Props/C01.vo', 'theories/Props/C10.vo', 'theories/Run/RunDwt.vo', 'theories/Run/RunSpec.vo']
RULE = ('correspondence A: analysis and synthesis models (afb1d/sfb1d operator matrices, Functions, level loops incl. the unpad rule) vs the code, '
        'exact; correspondence B: closed forms vs pywt.dwt/idwt; oracle: x == DWTInverse(DWTForward(x)) cropped to the extent, all modes, J, sizes '
        '(odd, shorter than the filter), 1-D and 2-D; tolerance max(1e-9, 4 * PyWavelets own round-trip error) * gain. distinct by configuration.')
TRUSTED = TRUSTED_COMMON + ['the kernel condition PRcond is a hypothesis of the exact theorems; for the 106 PyWavelets banks its residual (exact dyadic taps regenerated from the installed package) is bounded in Coq by C02_pywt_kernels (2^-34 in l1; dmey 2^-7) and turned into a reconstruction error bound by C02_error_bound_Z; float rounding of the transforms themselves is measured by the oracle only']
ASSUMES = ['theorems: master reconstruction identity on the line; one level and every J of DWT1DForward/DWT1DInverse on the tensor-level model, all five modes (periodization under the guard L <= even length of every level; '
           'below it: KF-PER-SHORT), under the filter-only kernel condition PRcond; circular PR for every even length; 2-D: one level and every J of DWTForward/DWTInverse with separate row/column banks in the four non-periodization modes (C02_level_2d, C02_multilevel_2d) and in periodization under the guard (C02_multilevel_2d_per)']


def corr_jobs(tier, rng):
    q = tier == 'quick'
    modes = list(cd.MODES)
    cs = cd.cases_afb1d(rng, [2, 4, 6] if q else [2, 4, 6, 8], lambda L: range(1, 2 * L + 4), modes, dims=(3,), C=1)
    cs += cd.cases_sfb1d(rng, [2, 4, 6] if q else [2, 4, 6, 8], lambda L: range(1, L + 4), modes, dims=(3,), C=1)
    cs += [c for c in cd.cases_modules_1d(rng, [2, 4, 6], lambda L: [2, 3, 5, 8, 11, 16, 21], modes, Js=(1, 2, 3))]
    cs += [c for c in cd.cases_modules_2d(rng, [(2, 4), (4, 6)], lambda a, b: [(3, 4), (5, 7), (8, 8), (9, 12), (13, 6)], modes, Js=(1, 2))]
    yield dict(name='model_vs_impl', module='Run.RunDwt', runner='run_dwt', cases=cs, against='impl')
    yield dict(name='spec_vs_pywt', module='Run.RunSpec', runner='run_spec', cases=c01.spec_cases('quick', rng)[:200] + dwtfam.spec_idwt_cases('quick', rng), against='pywt')


def oracle_cases(tier, rng):
    for cfg in c01.oracle_cases(tier, rng):
        yield cfg


strat_key = c01.strat_key


def oracle_run(cfg):
    from pytorch_wavelets.dwt.transform1d import DWT1DForward, DWT1DInverse
    from pytorch_wavelets.dwt.transform2d import DWTForward, DWTInverse
    r = np.random.default_rng(cfg['seed'])
    mode, J, wn = cfg['mode'], cfg['J'], cfg['wave']
    d1 = cfg['kind'] == '1d'
    shp = (cfg['nb'], cfg['C'], cfg['N']) if d1 else (cfg['nb'], cfg['C'], cfg['H'], cfg['W'])
    X = r.standard_normal(shp)
    try:
        # a third of the pairs get their mode through the public .mode attribute after construction with another mode (one pair
        # reused for a sweep over padding modes): the modules read it on every call
        first = lib_mode(cfg) if cfg['seed'] % 3 != 1 else ('zero' if mode == 'periodization' else 'periodization')
        fwd = (DWT1DForward if d1 else DWTForward)(J=J, wave=wn if d1 else c01.wave_arg(cfg, 'dec'), mode=first)
        inv = (DWT1DInverse if d1 else DWTInverse)(wave=wn if d1 else c01.wave_arg(cfg, 'rec'), mode=first)
        fwd.mode = inv.mode = lib_mode(cfg)
        y = inv(fwd(torch.tensor(X))).numpy()
    except (RuntimeError, ValueError) as e:
        if mode == 'reflect':
            return None
        return dict(error='%s: %s' % (type(e).__name__, str(e)[:200]))
    ext = shp[2:]
    for g, e in zip(y.shape[2:], ext):
        if not (e <= g <= e + 1):
            return dict(detail='output extent %s for input extent %s (allowed: one extra trailing sample per axis)' % (y.shape[2:], ext))
    sl = (Ellipsis,) + tuple(slice(0, e) for e in ext)
    # PyWavelets' own round-trip error for this configuration
    if d1:
        ref = pywt.waverec(pywt.wavedec(X, wn, mode=mode, level=J, axis=-1), wn, mode=mode, axis=-1)
    else:
        ref = pywt.waverec2(pywt.wavedec2(X, c01.pywt_arg(cfg), mode=mode, level=J, axes=(-2, -1)), c01.pywt_arg(cfg), mode=mode, axes=(-2, -1))
    err_pywt = float(np.abs(ref[sl] - X).max())
    err = float(np.abs(y[sl] - X).max())
    tol = max(1e-9 * dwtfam.gain(wn, J, len(ext)), 4 * err_pywt)
    if err > tol:
        return dict(detail='reconstruction error %.3g > tolerance %.3g (PyWavelets own error %.3g)' % (err, tol, err_pywt))
    return None


PREDS = {'per_short': lambda cfg, fail: per_short(cfg)}
def kf_match(cfg, fail, kf):
    return kf_match_generic(cfg, fail, kf, PREDS)
def kf_witness_fails(f):
    return oracle_run(f['witness']) is not None
replay = dwtfam.std_replay(sys.modules[__name__])
