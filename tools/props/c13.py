"""C13  Stationary WT is undecimated, shift-equivariant and equals PyWavelets swt2."""
import numpy as np, torch, pywt, itertools, sys
import vlib, corr_dwt as cd
from props.common import *
from props import dwtfam

ID = 'C13'
GRAD_MODES = True
PROPS_MODULE = 'Props.C13'
THEOREMS = ['C13_level_row', 'C13_closed_form', 'C13_shift', 'C13_level_col', 'C13_level_2d', 'C13_multilevel']
VO = ['theories/Props/C13.vo', 'theories/Run/RunDwt.vo', 'theories/Run/RunSpec.vo']
RULE = ('correspondence A: afb1d_atrous full operator matrices (6 pad modes, dilations 1,2,4, both dims, sizes below the dilated filter = multiple wraps), '
        'SWTForward (both mode names, J<=3, N,C>1) vs the model, exact; correspondence B: pywt_swt closed form vs pywt.swt; oracle: SWTForward vs pywt.swt2 '
        '(shape (N,C,4,H,W), order A,H,V,D, finest first) and circular shift equivariance. distinct by configuration.')
TRUSTED = TRUSTED_COMMON + ['PyWavelets swt represented by pywt_swt (Proofs/SwtProofs.v), tied by correspondence B']
ASSUMES = ['theorems: row and column pass for every size, filter, dilation (multi-wrap included), one 2-D level with band order 4c+2t+s (C13_level_2d), the level loop of the module for every J with dilation doubling and both mode names (C13_multilevel), and shift equivariance of the closed form; tie to the code: correspondence + pywt.swt2 / shift oracles']


def corr_jobs(tier, rng):
    cs = cd.cases_atrous(rng, [2, 4] if tier == 'quick' else [2, 4, 6, 8], [2, 3, 5, 8] if tier == 'quick' else [2, 3, 5, 8, 12, 16],
                         modes=('periodic', 'symmetric', 'zero', 'reflect', 'constant', 'replicate'))
    cs += cd.cases_swt(rng, [(2, 4), (4, 4), (6, 2)], [(4, 8), (8, 8), (5, 7), (2, 2), (16, 12)])
    yield dict(name='model_vs_impl', module='Run.RunDwt', runner='run_dwt', cases=cs, against='impl')
    sp = []
    for L in ([2, 4, 6] if tier == 'quick' else [2, 4, 6, 8, 12]):
        dec = cd.int_filter(rng, L)
        w = pywt.Wavelet('int%d' % L, filter_bank=[dec.astype(float), dec.astype(float), dec[::-1].astype(float), dec[::-1].astype(float)])
        for lvl in (0, 1, 2):
            d = 2 ** lvl
            for N in [n for n in (4, 8, 12, 16, 24) if n % (2 ** (lvl + 1)) == 0]:
                x = rng.integers(-9, 10, size=N).astype(float)
                cA, _ = pywt.swt(x, w, level=1, start_level=lvl)[0]
                sp.append(vlib.Case(105, [d], [dec], [x.reshape(1, 1, 1, N)], (cA.reshape(1, 1, 1, N),), dict(fn='pywt.swt', L=L, N=N, d=d)))
    yield dict(name='spec_vs_pywt', module='Run.RunSpec', runner='run_spec', cases=sp, against='pywt')


def oracle_cases(tier, rng):
    ws = ['haar', 'db2', 'db3', 'sym4', 'coif1', 'bior2.2', 'bior1.3', 'rbio3.1'] if tier == 'quick' else [w for w in pywt.wavelist(kind='discrete') if pywt.Wavelet(w).dec_len <= 12]
    for wn in ws:
        for J in (1, 2, 3):
            for (H, W) in [(8, 8), (16, 24), (8 * 2 ** (J - 1), 4 * 2 ** (J - 1))]:
                if H % 2 ** J or W % 2 ** J: continue
                for mode in ('periodization', 'periodic', 'per'):
                    yield dict(check='pywt', wave=wn, J=J, H=H, W=W, mode=mode, seed=int(rng.integers(1 << 30)))
                yield dict(check='shift', wave=wn, J=J, H=H, W=W, mode='periodization', sh=[int(rng.integers(H)), int(rng.integers(W))], seed=int(rng.integers(1 << 30)))
    for (nb, C) in ((1, 70), (9, 2)):
        for mode in ('periodization', 'per'):
            yield dict(check='pywt', wave='db2', J=2, H=8, W=12, mode=mode, nb=nb, C=C, seed=int(rng.integers(1 << 30)))
    for (H, W) in [(5, 7), (6, 9)]:
        yield dict(check='shift', wave='db2', J=2, H=H, W=W, mode='periodization', sh=[2, 3], seed=int(rng.integers(1 << 30)))


def strat_key(cfg):
    return '%s/%s/J%d/%s' % (cfg['check'], cfg['wave'], cfg['J'], cfg['mode']) + ('/many%dx%d' % (cfg['nb'], cfg['C']) if cfg.get('C') else '')


def oracle_run(cfg):
    from pytorch_wavelets.dwt.transform2d import SWTForward
    r = np.random.default_rng(cfg['seed'])
    X = r.standard_normal((cfg.get('nb', 2), cfg.get('C', 2), cfg['H'], cfg['W']))
    m = SWTForward(J=cfg['J'], wave=cfg['wave'], mode=cfg['mode'])
    try:
        if cfg['seed'] % 3 == 1:
            # the module first holds ANOTHER wavelet of the same length and is run once; then the filters of cfg['wave'] are loaded
            # into its buffers (load_state_dict copies in place): the transform is a function of the filters it holds now
            L = pywt.Wavelet(cfg['wave']).dec_len
            other = [w for w in pywt.wavelist(kind='discrete') if pywt.Wavelet(w).dec_len == L and w != cfg['wave']]
            if other:
                m2 = SWTForward(J=cfg['J'], wave=other[cfg['seed'] % len(other)], mode=cfg['mode'])
                m2(torch.tensor(X))
                m2.load_state_dict(m.state_dict())
                m = m2
        out = m(torch.tensor(X))
    except Exception as e:
        return dict(error='%s: %s' % (type(e).__name__, str(e)[:200]))
    if len(out) != cfg['J']:
        return dict(detail='%d levels returned' % len(out))
    for j, y in enumerate(out):
        if tuple(y.shape) != (cfg.get('nb', 2), cfg.get('C', 2), 4, cfg['H'], cfg['W']):
            return dict(detail='level %d has shape %s, expected (N,C,4,H,W) at full resolution' % (j + 1, tuple(y.shape)))
    if cfg['check'] == 'pywt':
        ref = pywt.swt2(X, cfg['wave'], level=cfg['J'], start_level=0, axes=(-2, -1))     # coarsest first
        ref = ref[::-1]
        sc = dwtfam.gain(cfg['wave'], cfg['J'], 2)
        for j, (y, (cA, (cH, cV, cD))) in enumerate(zip(out, ref)):
            want = np.stack([cA, cH, cV, cD], axis=2)
            ok, msg = tol_close(y.numpy(), want, sc)
            if not ok:
                return dict(detail='level %d differs from pywt.swt2: %s' % (j + 1, msg))
        if cfg['seed'] % 3 == 0:
            msg = pow2_homog(lambda dt: (lambda a, m2=SWTForward(J=cfg['J'], wave=cfg['wave'], mode=cfg['mode']).to(dt): m2(a[0])), [torch.tensor(X)])
            if msg:
                return dict(detail=msg)
        return None
    sh = cfg['sh']
    out2 = m(torch.tensor(np.roll(X, (sh[0], sh[1]), axis=(-2, -1))))
    for j, (a, b) in enumerate(zip(out, out2)):
        ok, msg = tol_close(b.numpy(), np.roll(a.numpy(), (sh[0], sh[1]), axis=(-2, -1)), rtol=1e-11)
        if not ok:
            return dict(detail='level %d is not shift-equivariant: %s' % (j + 1, msg))
    return None


def kf_match(cfg, fail, kf):
    return None
def kf_witness_fails(f):
    return oracle_run(f['witness']) is not None
replay = dwtfam.std_replay(sys.modules[__name__])
