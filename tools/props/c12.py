"""C12  DTCWT options only re-arrange or select outputs; pyramids are prefix-consistent."""
import numpy as np, torch, itertools
import vlib
from props.common import *

ID = 'C12'
GRAD_MODES = True
PROPS_MODULE = 'Props.C12'
THEOREMS = ['C12_dims_correct', 'C12_example', 'C12_skip_mask', 'C12_prefix']
VO = ['theories/Props/C12.vo', 'theories/Run/RunGen.vo', 'theories/Run/RunDtcwt.vo']
RULE = ('translator validation: the generated get_dimensions5/6 and both copies of mode_to_int/int_to_mode evaluated in Coq on the whole '
        'domain ([-6,6)^2; all mode names and codes -1..8) vs the Python functions; oracle on the real modules: every ordered pair of '
        'distinct axis positions and negative aliases (layout = movedim of the default layout, inverse with the same pair), every skip mask, '
        'every include_scale mask, prefix consistency; distinct by (check kind, o_dim, ri_dim, masks, J, size)')
TRUSTED = TRUSTED_COMMON + ['the truth for axis positions is defined in Coq by list insertion (Proofs/DimsProofs.v), not by another table']
ASSUMES = ['the theorem covers the axis tables generated from the source on this run; skip masks and prefix consistency (first j levels and the lowpass after each level) are theorems about the level loop of the DTCWT module model (C12_skip_mask, C12_prefix; model tied to DTCWTForward with every skip mask and include_scale by the exact correspondence of C03); the 6-D stack/unbind placement itself is checked by the exhaustive oracle on the real modules']

NAMES = ["zero", "symmetric", "per", "periodization", "constant", "reflect", "replicate", "periodic", "foo", ""]


def corr_jobs(tier, rng):
    from pytorch_wavelets.dtcwt import transform_funcs as tf
    import pytorch_wavelets.dwt.lowlevel as dl, pytorch_wavelets.scatternet.lowlevel as sl
    cs = []
    for o in range(-6, 6):
        for ri in range(-6, 6):
            a = tf.get_dimensions5(o, ri); b = tf.get_dimensions6(o, ri)
            cs.append(vlib.Case(201, [o, ri], [], [], [int(v) for v in a + b], dict(fn='get_dimensions', o=o, ri=ri)))
    def safe(f, a, names=False):
        try:
            r = f(a)
        except ValueError:
            return -1
        return NAMES.index(r) if names else int(r)
    for i, nm in enumerate(NAMES):
        cs.append(vlib.Case(202, [i], [], [], [safe(dl.mode_to_int, nm), safe(sl.mode_to_int, nm)], dict(fn='mode_to_int', name=nm)))
    for k in range(-1, 9):
        cs.append(vlib.Case(203, [k], [], [], [safe(dl.int_to_mode, k, True), safe(sl.int_to_mode, k, True)], dict(fn='int_to_mode', code=k)))
    yield dict(name='generated_vs_python', module='Run.RunGen', runner='run_gen', cases=cs, against='impl')
    # the level-loop model that C12_skip_mask / C12_prefix are about, against DTCWTForward with every skip mask (J <= 2) and the end masks (J = 3)
    import corr_dtcwt as cd
    sizes = [(8, 8), (6, 10), (7, 9)] if tier == 'quick' else [(8, 8), (6, 10), (7, 9), (12, 4), (16, 20)]
    ms = [c for c in cd.cases_modules(rng, sizes, Js=(1, 2, 3), masks='all', absent=False, modes=(cd.MODE_SYM, cd.MODE_ZERO)) if c.entry == 39]
    yield dict(name='module_model_vs_impl', module='Run.RunDtcwt', runner='run_dtcwt', cases=ms, against='impl')


def pairs():
    for o in range(-6, 6):
        for ri in range(-6, 6):
            if o % 6 != ri % 6:
                yield o, ri


def oracle_cases(tier, rng):
    sizes = [(8, 8), (10, 12), (7, 9)] if tier == 'quick' else [(8, 8), (10, 12), (7, 9), (16, 20), (5, 6)]
    for (o, ri) in pairs():
        for hw in (sizes[:1] if tier == 'quick' and (o < 0 or ri < 0) else sizes[:2] if tier == 'quick' else sizes):
            yield dict(kind='layout', o=o, ri=ri, J=2 if tier == 'quick' else 3, H=hw[0], W=hw[1], seed=int(rng.integers(1 << 30)))
    for J in (1, 2, 3):
        for mask in itertools.product([False, True], repeat=J):
            for hw in sizes[:2]:
                yield dict(kind='skip', J=J, mask=list(mask), H=hw[0], W=hw[1], seed=int(rng.integers(1 << 30)))
                if any(mask):      # the options must not interact with the padding mode either
                    yield dict(kind='skip', J=J, mask=list(mask), H=hw[0], W=hw[1], mode='zero', seed=int(rng.integers(1 << 30)))
                yield dict(kind='scale', J=J, mask=list(mask), H=hw[0], W=hw[1], seed=int(rng.integers(1 << 30)))
    for J in (2, 3, 4):
        for hw in sizes:
            yield dict(kind='prefix', J=J, H=hw[0], W=hw[1], seed=int(rng.integers(1 << 30)))


def strat_key(cfg):
    if cfg['kind'] == 'layout':
        return 'layout/o%d/ri%d' % (cfg['o'], cfg['ri'])
    return '%s/J%d/%s/%s' % (cfg['kind'], cfg['J'], cfg.get('mask'), cfg.get('mode', ''))


def is_placeholder(t):
    return t is None or t.shape == torch.Size([]) or t.numel() == 0


def oracle_run(cfg):
    from pytorch_wavelets import DTCWTForward, DTCWTInverse
    r = np.random.default_rng(cfg['seed'])
    X = torch.tensor(r.standard_normal((2, 2, cfg['H'], cfg['W'])))
    J = cfg['J']
    k = cfg['kind']
    if k == 'layout':
        o, ri = cfg['o'], cfg['ri']
        yl0, yh0 = DTCWTForward(J=J)(X)
        yl, yh = DTCWTForward(J=J, o_dim=o, ri_dim=ri)(X)
        if not torch.equal(yl, yl0):
            return dict(detail='lowpass changed with the layout')
        ri6, o6 = ri % 6, o % 6
        o5 = o6 - (1 if ri6 < o6 else 0)
        for j in range(J):
            D = yh0[j].numpy()                      # (N,C,6,H,W,2)
            parts = [np.moveaxis(D[..., t], 2, o5) for t in (0, 1)]
            E = np.stack(parts, axis=ri6)
            if yh[j].shape != E.shape:
                return dict(detail='level %d shape %s, expected %s' % (j, tuple(yh[j].shape), E.shape))
            if not np.array_equal(yh[j].numpy(), E):
                return dict(detail='level %d values are not a pure axis move' % j)
        try:
            xr = DTCWTInverse(o_dim=o, ri_dim=ri)((yl, yh))
        except Exception as e:
            return dict(detail='inverse with the same pair raised %s: %s' % (type(e).__name__, str(e)[:120]))
        xr0 = DTCWTInverse()((yl0, yh0))
        ok, msg = tol_close(xr.numpy(), xr0.numpy(), rtol=1e-12)
        if not ok:
            return dict(detail='inverse differs from default-layout inverse: ' + msg)
        return None
    if k == 'skip':
        md = cfg.get('mode', 'symmetric')
        yl0, yh0 = DTCWTForward(J=J, mode=md)(X)
        enc = cfg['seed'] % 3       # the mask as Python bools, as a numpy bool array, as 0/1 ints
        mask_arg = [bool(v) for v in cfg['mask']] if enc == 0 else (np.array(cfg['mask'], dtype=bool) if enc == 1 else [int(v) for v in cfg['mask']])
        yl, yh = DTCWTForward(J=J, skip_hps=mask_arg, mode=md)(X)
        if not torch.equal(yl, yl0):
            return dict(detail='lowpass changed by skip_hps')
        for j in range(J):
            if cfg['mask'][j]:
                if not is_placeholder(yh[j]):
                    return dict(detail='skipped level %d is not an empty placeholder: shape %s' % (j, tuple(yh[j].shape)))
            elif not torch.equal(yh[j], yh0[j]):
                return dict(detail='non-skipped level %d changed' % j)
        return None
    if k == 'scale':
        if not any(cfg['mask']):
            return None
        enc = cfg['seed'] % 3       # the mask as Python bools, as a numpy bool array (what np.random.binomial(...).astype(bool) gives), as 0/1 ints
        mask_arg = [bool(v) for v in cfg['mask']] if enc == 0 else (np.array(cfg['mask'], dtype=bool) if enc == 1 else [int(v) for v in cfg['mask']])
        yls, yh = DTCWTForward(J=J, include_scale=mask_arg)(X)
        if len(yls) != J:
            return dict(detail='include_scale returned %d lowpasses for J=%d' % (len(yls), J))
        _, yh0 = DTCWTForward(J=J)(X)
        for j in range(J):
            if not torch.equal(yh[j], yh0[j]):
                return dict(detail='highpass level %d changed by include_scale' % j)
            if cfg['mask'][j]:
                ylj, _ = DTCWTForward(J=j + 1)(X)
                if not torch.equal(yls[j], ylj):
                    return dict(detail='scale %d is not the lowpass of the %d-level transform' % (j, j + 1))
            elif not is_placeholder(yls[j]):
                return dict(detail='scale %d not requested but returned' % j)
        return None
    if k == 'prefix':
        yl, yh = DTCWTForward(J=J)(X)
        for j in range(1, J):
            _, yhj = DTCWTForward(J=j)(X)
            for t in range(j):
                if not torch.equal(yh[t], yhj[t]):
                    return dict(detail='level %d of the %d-level transform differs from the %d-level transform' % (t, J, j))
        return None


def kf_match(cfg, fail, kf):
    return None

def kf_witness_fails(f):
    return oracle_run(f['witness']) is not None

def replay(rp):
    cfg = rp.get('config')
    if cfg:
        fail = oracle_run(cfg)
        return dict(config=cfg, fails=bool(fail), failure=fail)
    return dict(fails=None, note='obligation replay: rebuild with ./check %s' % ID, obligations=rp.get('broken_obligations'))
