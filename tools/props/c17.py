"""C17  Orthogonal wavelets with periodization give an orthogonal transform."""
import numpy as np, torch, pywt, itertools, sys
import vlib, corr_dwt as cd
from props.common import *
from props import dwtfam

ID = 'C17'
PROPS_MODULE = 'Props.C17'
THEOREMS = ['C17_inverse_is_transpose', 'C17_inner_from_pr', 'C17_orthogonal', 'C17_inverse_reconstructs', 'C17_PRcond_lazy', 'C17_haar']
VO = ['theories/Props/C17.vo', 'theories/Props/C01.vo', 'theories/Props/C10.vo', 'theories/Run/RunDwt.vo']
RULE = ('correspondence A: periodization branches of afb1d/sfb1d (full operator matrices, every even and odd N around L), functions and level loops; '
        'oracle: operator A extracted from DWT1DForward/DWTForward by basis inputs for every orthogonal family, J, and sizes with every level even and '
        '>= L: A^T A = I, A A^T = I, S = A^T, autograd Jacobian^T = S. distinct by (wavelet, J, size, kind).')
TRUSTED = TRUSTED_COMMON + ['the kernel condition PRcond on the registered pair is the hypothesis of C17_orthogonal; for the PyWavelets banks its residual is bounded by C02_pywt_kernels; orthonormality in floating point is measured by the oracle (A^T A)']
ASSUMES = ['theorems: circular analysis/synthesis with one filter pair are transposes for all even N >= 2, L (C17_inverse_is_transpose); inner products are preserved under the filter-only kernel condition for every even length (C17_orthogonal, via circular PR), and the transpose is the inverse (C17_inverse_reconstructs); the model computes these closed forms under the guard (C01_level_row_per, C10_level_per_row)']


def corr_jobs(tier, rng):
    Ls = [2, 4, 6] if tier == 'quick' else [2, 4, 6, 8, 12]
    cs = cd.cases_afb1d(rng, Ls, lambda L: range(1, 2 * L + 6), ['periodization'], dims=(3, 2))
    cs += cd.cases_sfb1d(rng, Ls, lambda L: range(1, L + 5), ['periodization'], dims=(3, 2))
    cs += cd.cases_modules_1d(rng, Ls[:3], lambda L: [4 * L, 4 * L + 2, 8 * L, 2 * L], ['periodization'], Js=(1, 2, 3))
    cs += cd.cases_modules_2d(rng, [(2, 4), (4, 4)], lambda a, b: [(8, 16), (16, 12)], ['periodization'], Js=(1, 2))
    yield dict(name='model_vs_impl', module='Run.RunDwt', runner='run_dwt', cases=cs, against='impl')


ORTHO = ['haar', 'db2', 'db3', 'db5', 'db8', 'sym2', 'sym4', 'sym7', 'coif1', 'coif3']
def oracle_cases(tier, rng):
    ws = ORTHO if tier == 'quick' else [w for fam in ('haar', 'db', 'sym', 'coif') for w in pywt.wavelist(fam)][:60]
    for wn in ws:
        L = pywt.Wavelet(wn).dec_len
        for J in (1, 2, 3):
            base = L + (L % 2)
            for N in sorted({base * 2 ** (J - 1), (base + 2) * 2 ** (J - 1), 2 * base * 2 ** (J - 1)}):
                if N <= 160:
                    yield dict(kind='1d', wave=wn, J=J, N=N, seed=int(rng.integers(1 << 30)))
            if J <= 2 and L <= 8:
                H, W = base * 2 ** (J - 1), (base + 2) * 2 ** (J - 1)
                if H * W <= 400:
                    yield dict(kind='2d', wave=wn, J=J, H=H, W=W, seed=int(rng.integers(1 << 30)))


    # one orthogonal wavelet per axis (the 4-tuple form): the column and the row bank must not be exchanged anywhere, backward included
    for (wc, wr) in [('db2', 'db4'), ('coif1', 'sym4'), ('haar', 'db3'), ('db3', 'db2')]:
        for J in (1, 2):
            Lc, Lr = pywt.Wavelet(wc).dec_len, pywt.Wavelet(wr).dec_len
            yield dict(kind='2d', wave=wc, wave_row=wr, J=J, H=(Lc + 2) * 2 ** (J - 1), W=Lr * 2 ** (J - 1) + (2 ** J), seed=int(rng.integers(1 << 30)))


def strat_key(cfg):
    return '%s/%s%s/J%d' % (cfg['kind'], cfg['wave'], '+' + cfg['wave_row'] if cfg.get('wave_row') else '', cfg['J'])


def oracle_run(cfg):
    from pytorch_wavelets.dwt.transform1d import DWT1DForward, DWT1DInverse
    from pytorch_wavelets.dwt.transform2d import DWTForward, DWTInverse
    wn, J = cfg['wave'], cfg['J']
    d1 = cfg['kind'] == '1d'
    shp = (1, 1, cfg['N']) if d1 else (1, 1, cfg['H'], cfg['W'])
    wdec, wrec = wn, wn
    if cfg.get('wave_row'):
        a, bq = pywt.Wavelet(wn), pywt.Wavelet(cfg['wave_row'])
        wdec = (a.dec_lo, a.dec_hi, bq.dec_lo, bq.dec_hi); wrec = (a.rec_lo, a.rec_hi, bq.rec_lo, bq.rec_hi)
    fwd = (DWT1DForward if d1 else DWTForward)(J=J, wave=wdec, mode='periodization')
    inv = (DWT1DInverse if d1 else DWTInverse)(wave=wrec, mode='periodization')
    n = int(np.prod(shp))
    flat = lambda yl, yh: torch.cat([yl.reshape(-1)] + [h.reshape(-1) for h in yh])
    with torch.no_grad():
        cols = []
        for k in range(n):
            e = torch.zeros(n, dtype=torch.float64); e[k] = 1
            cols.append(flat(*fwd(e.reshape(shp))))
        A = torch.stack(cols, 1)
        yl0, yh0 = fwd(torch.zeros(shp, dtype=torch.float64))
        shapes = [yl0.shape] + [h.shape for h in yh0]
        if A.shape[0] != n:
            return dict(detail='operator is %dx%d, not square' % tuple(A.shape))
        Scols = []
        for k in range(n):
            e = torch.zeros(n, dtype=torch.float64); e[k] = 1
            parts, off = [], 0
            for s in shapes:
                m = int(np.prod(s)); parts.append(e[off:off + m].reshape(s)); off += m
            Scols.append(inv((parts[0], parts[1:])).reshape(-1))
        S = torch.stack(Scols, 1)
    # tolerance: how orthonormal the PyWavelets filters themselves are
    defect = 0.0
    for wname in [wn] + ([cfg['wave_row']] if cfg.get('wave_row') else []):
        dl = np.array(pywt.Wavelet(wname).dec_lo)
        defect = max(defect, max(abs(sum(dl[k] * dl[k + 2 * s] for k in range(len(dl)) if 0 <= k + 2 * s < len(dl)) - (s == 0)) for s in range(-len(dl) // 2, len(dl) // 2 + 1)))
    tol = 1e-9 + 50 * J * (2 if not d1 else 1) * defect
    I = torch.eye(n, dtype=torch.float64)
    for name, M in (('A^T A - I', A.t() @ A - I), ('A A^T - I', A @ A.t() - I), ('S - A^T', S - A.t())):
        d = float(M.abs().max())
        if d > tol:
            return dict(detail='%s = %.3g > %.3g' % (name, d, tol))
    x = torch.randn(shp, dtype=torch.float64, requires_grad=True, generator=torch.Generator().manual_seed(cfg['seed'] % (2**31)))
    yl, yh = fwd(x)
    g = torch.randn(n, dtype=torch.float64, generator=torch.Generator().manual_seed(1 + cfg['seed'] % (2**31)))
    gs, off = [], 0
    for s in shapes:
        m = int(np.prod(s)); gs.append(g[off:off + m].reshape(s)); off += m
    gx, = torch.autograd.grad([yl] + list(yh), [x], gs)
    with torch.no_grad():
        back = inv((gs[0], gs[1:]))
    d = float((gx - back).abs().max())
    if d > tol * max(1.0, float(g.abs().max())):
        return dict(detail='back-propagated cotangent differs from the inverse transform of it: %.3g' % d)
    # the transpose of the inverse is the forward transform, whichever coefficients are being differentiated
    gv = torch.randn(shp, dtype=torch.float64, generator=torch.Generator().manual_seed(2 + cfg['seed'] % (2**31)))
    with torch.no_grad():
        rl, rh = fwd(gv)
    ref = [rl] + list(rh)
    subsets = [list(range(len(ref))), list(range(1, len(ref))), [0], [1], [len(ref) - 1]]
    for sub in subsets:
        cs = [gs[k].clone().requires_grad_(k in sub) for k in range(len(ref))]
        out = inv((cs[0], cs[1:]))
        got = torch.autograd.grad(out, [cs[k] for k in sub], gv, allow_unused=True)
        for k, a in zip(sub, got):
            if a is None or float((a - ref[k]).abs().max()) > tol * max(1.0, float(gv.abs().max())):
                return dict(detail='cotangent back-propagated through the inverse to coefficient block %d (differentiable blocks %s) is %s, not the forward transform of it' % (k, sub, 'missing' if a is None else 'off by %.3g' % float((a - ref[k]).abs().max())))
    e1 = float((x.detach() ** 2).sum()); e2 = float((yl.detach() ** 2).sum() + sum((h.detach() ** 2).sum() for h in yh))
    if abs(e1 - e2) > tol * max(1.0, e1):
        return dict(detail='energy %.12g vs %.12g' % (e1, e2))
    return None


def kf_match(cfg, fail, kf):
    return None
def kf_witness_fails(f):
    return oracle_run(f['witness']) is not None
replay = dwtfam.std_replay(sys.modules[__name__])
