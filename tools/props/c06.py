"""C06  DTCWT back-propagation is the exact adjoint."""
import numpy as np, torch, itertools, sys
import vlib
from props.common import *
from props import dtfam

ID = 'C06'
PROPS_MODULE = 'Props.C06'
THEOREMS = ['C06_colfilter_selfadjoint', 'C06_colfilter_selfadjoint_Z', 'C06_q2c_c2q_adjoint', 'C06_coldfilt_colifilt_adjoint', 'C06_coldfilt_colifilt_adjoint_Z', 'C06_dfilt_ifilt_adjoint_col', 'C06_tables_revpair', 'C06_qshift_level_adjoint', 'C06_level1_adjoint', 'C06_cancel2_Z']
VO = ['theories/Props/C06.vo', 'theories/Props/C18.vo', 'theories/Run/RunDtcwt.vo']
RULE = ('correspondence A: the backward passes of FWD_J1, FWD_J2PLUS, INV_J1, INV_J2PLUS obtained through torch.autograd.grad with integer cotangents vs the model '
        '(inv_j1 / inv_j2plus with the a<->b exchange, fwd_j1 / fwd_j2plus), plus all primitives they are made of; oracle: Jacobian of DTCWTForward / DTCWTInverse assembled from basis inputs, '
        'grad == J^T g for random cotangents, named pairs, sizes incl. odd and non-multiples of 4, 6 axis layouts, skip masks, include_scale, every grad subset of the inverse. '
        'distinct by (direction, pair, J, size, layout, masks, subset).')
TRUSTED = TRUSTED_COMMON + ['the symmetry / reversal hypotheses on the shipped tables are discharged in C18_tables (level1_symmetric, qshift_revpair, qshift_syn_rev_ana)']
ASSUMES = ['theorems: colfilter with a symmetric odd filter is self-adjoint for every size (up to the factor 2 a general ring cannot cancel; exact over Z), q2c/c2q are mutually adjoint quad by quad; '
           'coldfilt(.,ha,hb)^T = colifilt(.,hb,ha) for a reversed pair, every column length = 0 mod 4, even filter length and both layouts (C06_coldfilt_colifilt_adjoint, on the model: C06_dfilt_ifilt_adjoint_col; the reversal holds exactly for every shipped table: C06_tables_revpair); whole levels in 2-D with all inputs present: FWD_J2PLUS/INV_J2PLUS.backward (C06_qshift_level_adjoint) and FWD_J1/INV_J1.backward (C06_level1_adjoint) are the adjoints of the forward passes for every input and cotangent, over any ring where 2 cancels; the composition over levels is the chain rule of autograd (trusted); layouts, skip masks, absent inputs and grad subsets: exact correspondence of the backward passes + the Jacobian oracle']


def corr_jobs(tier, rng):
    import corr_dtcwt as cd
    cs = [c for c in cd.cases_funcs(rng, sizes=((4, 4), (8, 4), (8, 12), (12, 16)) if tier == 'quick' else ((4, 4), (8, 4), (8, 12), (12, 16), (16, 8), (20, 24))) if 'backward' in c.meta['fn']]
    cs += cd.cases_linefilter(rng, Ls=(3, 5, 7), sizes=(2, 4, 6, 9))
    cs += cd.cases_dfilt(rng, Ls=(4, 6, 10), sizes=(4, 8, 12))
    cs += cd.cases_ifilt(rng, Ls=(4, 6, 10), sizes=(2, 4, 6, 8))
    cs += cd.cases_q2c(rng)
    yield dict(name='backward_model_vs_autograd', module='Run.RunDtcwt', runner='run_dtcwt', cases=cs, against='impl')


LAYOUTS = [(2, -1), (1, 2), (0, 5), (4, 1), (-1, 0), (3, 4)]
def oracle_cases(tier, rng):
    pairs = dtfam.PAIRS if tier == 'thorough' else [dtfam.PAIRS[i] for i in (0, 6, 12, 18, 3, 9)]
    for (b, q) in pairs:
        for J in (1, 2, 3):
            if tier == 'quick' and J == 3 and (b, q) != pairs[0]: continue
            for hw in [(8, 8), (6, 10), (7, 5), (12, 8)][: (4 if tier == 'thorough' else 2)]:
                yield dict(dir='fwd', biort=b, qshift=q, J=J, H=hw[0], W=hw[1], layout=list(LAYOUTS[0]), skip=[0] * J, scales=[0] * J, seed=int(rng.integers(1 << 30)))
                subs = [s for s in itertools.product([0, 1], repeat=J + 1) if any(s)]
                for s in (subs if tier == 'thorough' or J <= 2 else [subs[i] for i in rng.choice(len(subs), 3, replace=False)]):
                    yield dict(dir='inv', biort=b, qshift=q, J=J, H=hw[0], W=hw[1], layout=list(LAYOUTS[0]), subset=list(s), seed=int(rng.integers(1 << 30)))
    b, q = 'near_sym_a', 'qshift_a'
    for lay in LAYOUTS[1:]:
        yield dict(dir='fwd', biort=b, qshift=q, J=2, H=8, W=12, layout=list(lay), skip=[0, 0], scales=[0, 0], seed=int(rng.integers(1 << 30)))
        yield dict(dir='inv', biort=b, qshift=q, J=2, H=8, W=12, layout=list(lay), subset=[1, 1, 1], seed=int(rng.integers(1 << 30)))
    # level 1 also takes mode='zero' (anything but 'symmetric'): forward and hand-written backward must use the same padding
    for (bb, qq) in (pairs[0], pairs[2]):
        for J in (1, 2):
            for hw in [(8, 8), (6, 10)]:
                yield dict(dir='fwd', biort=bb, qshift=qq, J=J, H=hw[0], W=hw[1], layout=list(LAYOUTS[0]), skip=[0] * J, scales=[0] * J, mode='zero', seed=int(rng.integers(1 << 30)))
                yield dict(dir='inv', biort=bb, qshift=qq, J=J, H=hw[0], W=hw[1], layout=list(LAYOUTS[0]), subset=[1] * (J + 1), mode='zero', seed=int(rng.integers(1 << 30)))
    for J in (2, 3):
        for skip in itertools.product([0, 1], repeat=J):
            for scales in ([0] * J, [1] * J, [1] + [0] * (J - 1)):
                if any(skip) or any(scales):
                    yield dict(dir='fwd', biort=b, qshift=q, J=J, H=8, W=8, layout=[2, -1], skip=list(skip), scales=list(scales), seed=int(rng.integers(1 << 30)))


def strat_key(cfg):
    return '%s/%s/%s/J%d/%s/%s/%s%s' % (cfg['dir'], cfg['biort'], cfg['qshift'], cfg['J'], cfg['layout'], cfg.get('skip'), cfg.get('subset'), '/' + cfg['mode'] if cfg.get('mode') else '')


_JINV = {}
def oracle_run(cfg):
    from pytorch_wavelets import DTCWTForward, DTCWTInverse
    r = np.random.default_rng(cfg['seed'])
    o, ri = cfg['layout']
    J = cfg['J']
    shp = (1, 1, cfg['H'], cfg['W'])
    def outs_of(res):
        yl, yh = res
        yls = list(yl) if isinstance(yl, (list, tuple)) else [yl]
        return [t for t in yls + list(yh) if t is not None and t.dim() > 0 and t.numel() > 0]
    try:
        if cfg['dir'] == 'fwd':
            fwd = DTCWTForward(biort=cfg['biort'], qshift=cfg['qshift'], J=J, o_dim=o, ri_dim=ri, mode=cfg.get('mode', 'symmetric'),
                               skip_hps=[bool(v) for v in cfg['skip']], include_scale=[bool(v) for v in cfg['scales']] if any(cfg['scales']) else False)
            n = int(np.prod(shp)); cols = []
            with torch.no_grad():
                for k in range(n):
                    e = torch.zeros(n, dtype=torch.float64); e[k] = 1
                    cols.append(torch.cat([t.reshape(-1) for t in outs_of(fwd(e.reshape(shp)))]))
            Jm = torch.stack(cols, 1)
            x = torch.tensor(r.standard_normal(shp), requires_grad=True)
            outs = outs_of(fwd(x))
            for fam, gs in cot_families(r, [t.shape for t in outs]):
                gx, = torch.autograd.grad(outs, [x], gs, retain_graph=True)
                want = Jm.t() @ torch.cat([g.reshape(-1) for g in gs])
                sc = float(want.abs().max())
                ok, msg = tol_close(gx.reshape(-1).numpy(), want.numpy(), sc if 0 < sc < 1 else max(1.0, sc))
                if not ok:
                    return dict(detail='grad != J^T g for cotangent [%s]: %s' % (fam, msg))
            return None
        fwd = DTCWTForward(biort=cfg['biort'], qshift=cfg['qshift'], J=J, o_dim=o, ri_dim=ri, mode=cfg.get('mode', 'symmetric'))
        inv = DTCWTInverse(biort=cfg['biort'], qshift=cfg['qshift'], o_dim=o, ri_dim=ri, mode=cfg.get('mode', 'symmetric'))
        with torch.no_grad():
            yl0, yh0 = fwd(torch.zeros(shp, dtype=torch.float64))
        ins0 = [yl0] + list(yh0); sizes = [int(t.numel()) for t in ins0]
        key = (cfg['biort'], cfg['qshift'], J, cfg['H'], cfg['W'], o, ri, cfg.get('mode'))
        if key not in _JINV:            # the Jacobian of the inverse does not depend on the grad subset: assemble it once per configuration
            cols = []
            with torch.no_grad():
                for a, t in enumerate(ins0):
                    for k in range(sizes[a]):
                        args = [torch.zeros_like(u) for u in ins0]; args[a].view(-1)[k] = 1
                        cols.append(inv((args[0], args[1:])).reshape(-1))
            _JINV.clear(); _JINV[key] = torch.stack(cols, 1)
        Jm = _JINV[key]
        args = [torch.tensor(r.standard_normal(tuple(t.shape)), requires_grad=bool(s)) for t, s in zip(ins0, cfg['subset'])]
        y = inv((args[0], args[1:]))
        req = [a for a, s in zip(args, cfg['subset']) if s]
        for fam, (g,) in cot_families(r, [y.shape]):
            grads = torch.autograd.grad([y], req, [g], allow_unused=True, retain_graph=True)
            want = Jm.t() @ g.reshape(-1); off = np.cumsum([0] + sizes); gi = 0
            sc = float(want.abs().max()); sc = sc if 0 < sc < 1 else max(1.0, sc)
            for a, s in enumerate(cfg['subset']):
                if not s: continue
                gr = grads[gi]; gi += 1
                if gr is None:
                    return dict(detail='argument %d requires grad but received None' % a)
                w = want[off[a]:off[a + 1]]
                ok, msg = tol_close(gr.reshape(-1).numpy(), w.numpy(), sc)
                if not ok:
                    return dict(detail='argument %d grad != J^T g for cotangent [%s]: %s' % (a, fam, msg))
        return None
    except Exception as e:
        return dict(error='%s: %s' % (type(e).__name__, str(e)[:200]))


def kf_match(cfg, fail, kf):
    return None
def kf_witness_fails(f):
    return oracle_run(f['witness']) is not None
replay = dtfam.std_replay(sys.modules[__name__])
