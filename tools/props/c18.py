"""C18  Shipped DTCWT filter tables satisfy the identities the code relies on."""
import numpy as np, torch, os
import vlib, translate
from props.common import *

ID = 'C18'
PROPS_MODULE = 'Props.C18'
THEOREMS = ['C18_tables', 'C18_load_twice', 'C18_cache_monotone', 'C18_nonvacuous']
VO = ['theories/Props/C18.vo', 'theories/Run/RunGen.vo']
RULE = ('exhaustive over the shipped tables: every float64 entry of every array in dtcwt/data/*.npz, as the exact dyadic (m,e), '
        'generated into Gen/Tables.v on this run; translator validation compares every generated entry with what numpy.load / the '
        'library loaders return; oracle: identities in float64 on the arrays returned by biort()/qshift()/level1(), equality with the '
        'installed dtcwt package, load-twice / cache not mutated by use. distinct = (table, variable) or (loader, name, check)')
TRUSTED = TRUSTED_COMMON + ['the .npy reader in tools/translate.py (validated against numpy.load on every run)',
                            'tolerances are in the theorem: symmetry 2^-47, PR/orthonormality 2^-44 (qshift_32: 2^-28); equalities with the reference and reversal relations are exact']
ASSUMES = ['farras and near_sym_a2 (non-compact level-1 tables no transform loads) are only compared for load consistency; the reference package does not ship them']

BIORT = ['antonini', 'legall', 'near_sym_a', 'near_sym_b', 'near_sym_b_bp']
QSHIFT = ['qshift_06', 'qshift_a', 'qshift_b', 'qshift_c', 'qshift_d', 'qshift_32', 'qshift_b_bp']


def corr_jobs(tier, rng):
    d = os.path.join(vlib.REPO, 'pytorch_wavelets/dtcwt/data')
    keys = sorted(translate.tables_of(d).keys())
    cs = []
    for i, (base, var) in enumerate(keys):
        arr = np.load(os.path.join(d, base + '.npz'))[var].ravel()
        flat = []
        for v in arr:
            m, e = translate.dyadic(float(v)); flat += [m, e]
        cs.append(vlib.Case(301, [i], [], [], flat, dict(fn='table', table=base, var=var, n=len(arr))))
    yield dict(name='generated_tables_vs_numpy', module='Run.RunGen', runner='run_gen', cases=cs, against='impl')


def oracle_cases(tier, rng):
    for n in BIORT:
        for chk in ('ref', 'symmetric', 'pr', 'twice'):
            yield dict(kind='biort', name=n, check=chk)
    for n in QSHIFT:
        for chk in ('ref', 'revpair', 'synrev', 'ortho', 'twice'):
            yield dict(kind='qshift', name=n, check=chk)
    yield dict(kind='history', name='all', check='cache_unchanged_by_use')


def strat_key(cfg):
    return '%s/%s/%s' % (cfg['kind'], cfg['name'], cfg['check'])


def oracle_run(cfg):
    from pytorch_wavelets.dtcwt import coeffs
    import dtcwt.coeffs as ref
    n, chk = cfg['name'], cfg['check']
    if cfg['kind'] == 'history':
        from pytorch_wavelets import DTCWTForward, DTCWTInverse
        before = {k: {v: a.copy() for v, a in coeffs._load_from_file(k, ()) and {} or {}} for k in ()}
        snap = {}
        for k in BIORT: snap[k] = [a.copy() for a in coeffs.biort(k)]
        for k in QSHIFT: snap[k] = [a.copy() for a in coeffs.qshift(k)]
        L1 = ['farras'] + list(QSHIFT)          # names level1() accepts (the four-DWT implementation's level-1 tables)
        for k in L1: snap['level1/' + k] = [np.array(a, copy=True) for a in coeffs.level1(k)]
        x = torch.randn(1, 1, 16, 16, dtype=torch.float64)
        from pytorch_wavelets.scatternet import ScatLayer, ScatLayerj2
        # the second ("four DWTs") implementation reads the same cache: constructing and using it is a use of the tables too
        import pytorch_wavelets.dtcwt.lowlevel2 as ll2
        for b1 in ('farras', 'qshift_b'):
            for ctor in (ll2.DTCWTForward2, ll2.DTCWTInverse2):
                for rep in range(2):
                    try:
                        ctor(biort=b1, qshift='qshift_a')
                    except Exception:
                        pass
        try:
            ll2.DTCWTForward2(J=2)(torch.randn(1, 1, 16, 16))
        except Exception:
            pass
        for b in BIORT:
            for q in QSHIFT:
                # every consumer of every shipped table: the plain families through the DTCWT modules, the band-pass ones through the scattering layers
                if b.endswith('_bp') != q.endswith('_bp'): continue
                if b.endswith('_bp'):
                    ScatLayer(biort=b).double()(x); ScatLayerj2(biort=b, qshift=q).double()(x)
                else:
                    f = DTCWTForward(biort=b, qshift=q, J=2); i = DTCWTInverse(biort=b, qshift=q)
                    i(f(x))
                    if b == 'near_sym_a': ScatLayerj2(biort=b, qshift=q).double()(x)
        for k in BIORT:
            if not all(np.array_equal(a, b) for a, b in zip(snap[k], coeffs.biort(k))):
                return dict(detail='cached table %s changed after constructing/using transforms' % k)
        for k in QSHIFT:
            if not all(np.array_equal(a, b) for a, b in zip(snap[k], coeffs.qshift(k))):
                return dict(detail='cached table %s changed after constructing/using transforms' % k)
        for k in L1:
            if not all(np.array_equal(a, b) for a, b in zip(snap['level1/' + k], coeffs.level1(k))):
                return dict(detail='level-1 table %s changed after constructing/using transforms (lowlevel2 included)' % k)
        return None
    load = coeffs.biort if cfg['kind'] == 'biort' else coeffs.qshift
    t = [np.asarray(a).ravel() for a in load(n)]
    if chk == 'twice':
        t2 = [np.asarray(a).ravel() for a in load(n)]
        if len(t) != len(t2) or not all(np.array_equal(a, b) for a, b in zip(t, t2)):
            return dict(detail='second load differs')
        return None
    if chk == 'ref':
        r = [np.asarray(a).ravel() for a in (ref.biort(n) if cfg['kind'] == 'biort' else ref.qshift(n))]
        if len(r) != len(t) or not all(np.array_equal(a, b) for a, b in zip(t, r)):
            return dict(detail='differs from the reference package table')
        return None
    if cfg['kind'] == 'biort':
        h0, g0, h1, g1 = t[:4]
        if chk == 'symmetric':
            for k, a in enumerate(t):
                if np.abs(a - a[::-1]).max() > 2.0 ** -47:
                    return dict(detail='filter %d not symmetric: %g' % (k, np.abs(a - a[::-1]).max()))
        if chk == 'pr':
            s = np.convolve(h0, g0) + np.convolve(h1, g1)
            d = np.zeros_like(s); d[len(s) // 2] = 1
            if np.abs(s - d).max() > 2.0 ** -43:
                return dict(detail='level-1 pair not PR: %g' % np.abs(s - d).max())
        return None
    names = ['h0a', 'h0b', 'g0a', 'g0b', 'h1a', 'h1b', 'g1a', 'g1b', 'h2a', 'h2b', 'g2a', 'g2b'][:len(t)]
    T = dict(zip(names, t))
    if chk == 'revpair':
        for k in ('h0', 'h1', 'g0', 'g1', 'h2', 'g2'):
            if k + 'a' in T and not np.array_equal(T[k + 'a'], T[k + 'b'][::-1]):
                return dict(detail='%sb is not the time-reverse of %sa' % (k, k))
    if chk == 'synrev':
        for k in ('0a', '1a', '0b', '1b', '2a', '2b'):
            if 'h' + k in T and not np.array_equal(T['g' + k], T['h' + k][::-1]):
                return dict(detail='g%s is not the time-reverse of h%s' % (k, k))
    if chk == 'ortho':
        for tr in 'ab':
            a, b = T['h0' + tr], T['h1' + tr]; L = len(a)
            for s in range(-L // 2, L // 2 + 1):
                ac = lambda u, v: sum(u[k] * v[k + 2 * s] for k in range(L) if 0 <= k + 2 * s < L)
                if abs(ac(a, a) - (s == 0)) > 2.0 ** -43 or abs(ac(b, b) - (s == 0)) > 2.0 ** -43 or abs(ac(a, b)) > 2.0 ** -43:
                    return dict(detail='tree %s not orthonormal at shift %d' % (tr, s))
    return None


def qshift32_ortho(cfg, fail):
    # exactly this table and this clause, and only the size of deviation the shipped file has (a larger one is a new violation)
    if not (cfg.get('kind') == 'qshift' and cfg.get('name') == 'qshift_32' and cfg.get('check') == 'ortho'):
        return False
    return ortho_defect('qshift_32') < 1e-8
PREDS = {'qshift32_ortho': qshift32_ortho}
def kf_match(cfg, fail, kf):
    return kf_match_generic(cfg, fail, kf, PREDS)

def ortho_defect(n):
    from pytorch_wavelets.dtcwt import coeffs
    t = [np.asarray(a).ravel() for a in coeffs.qshift(n)]
    worst = 0.0
    for (ia, ib) in ((0, 4), (1, 5)):
        a, b = t[ia], t[ib]; L = len(a)
        for s in range(-L // 2, L // 2 + 1):
            ac = lambda u, v: sum(u[k] * v[k + 2 * s] for k in range(L) if 0 <= k + 2 * s < L)
            worst = max(worst, abs(ac(a, a) - (s == 0)), abs(ac(b, b) - (s == 0)), abs(ac(a, b)))
    return worst

def kf_witness_fails(f):
    return oracle_run(f['witness']) is not None

def replay(rp):
    cfg = rp.get('config')
    if cfg:
        fail = oracle_run(cfg)
        return dict(config=cfg, fails=bool(fail), failure=fail)
    return dict(fails=None, note='obligation replay: rebuild with ./check %s' % ID, obligations=rp.get('broken_obligations'))
