"""C19  Non-separable one-level filter bank equals the separable one."""
import numpy as np, torch, pywt, itertools, sys
import vlib, corr_dwt as cd
from props.common import *
from props import dwtfam

ID = 'C19'
GRAD_MODES = True
PROPS_MODULE = 'Props.C19'
THEOREMS = ['C19_kernel_factorises', 'C19_analysis_zero', 'C19_analysis_sym_reflect', 'C19_analysis_per', 'C19_synthesis', 'C19_synthesis_per']
VO = ['theories/Props/C19.vo', 'theories/Run/RunDwt.vo']
RULE = ('correspondence A: afb2d_nonsep / sfb2d_nonsep AND the separable afb2d / sfb2d on the same integer filters and inputs vs their models (2- and 4-filter forms, '
        'row/column filters of different lengths, sizes incl. odd and below the filter length, 4 modes), exact; oracle: the two functional APIs against each other on '
        'real wavelets, 2- and 4-filter forms, all sizes of the grid. distinct by (function, Ly, Lx, HxW, mode, form).')
TRUSTED = TRUSTED_COMMON
ASSUMES = ['theorem: the outer-product kernel of the non-separable model factorises into the column correlation of row correlations (for every stride/padding); and the composed equalities on the models: analysis in zero / symmetric / reflect mode (C19_analysis_zero, C19_analysis_sym_reflect), analysis in periodization mode for even filter lengths not longer than the even-extended image (C19_analysis_per: extension of both axes, two rolls, one strided 2-D convolution, two wrap-around folds, crop) and synthesis in the four non-periodization modes for any four bands (C19_synthesis), every size and filter lengths, and synthesis in periodization mode for even filter lengths with L-2 <= the output length on each axis (C19_synthesis_per: four transposed convolutions, two wrap-around folds, crop, two rolls)']


def corr_jobs(tier, rng):
    LL = [(2, 4), (4, 2), (4, 6)] if tier == 'quick' else [(2, 4), (4, 2), (4, 6), (6, 6), (8, 4), (2, 10)]
    cs = cd.cases_nonsep(rng, LL, lambda a, b: [(h, w) for h in (2, 3, 6, 9, 12) for w in (4, 5, 7, 12)])
    cs += cd.cases_nonsep(rng, [(4, 4), (6, 6)], lambda a, b: [(5, 8), (8, 8), (3, 3)], two=True)
    # model-level agreement of the two banks on the same data: compare model outputs pairwise through the implementation outputs
    yield dict(name='model_vs_impl', module='Run.RunDwt', runner='run_dwt', cases=cs, against='impl')


def oracle_cases(tier, rng):
    ws = [('db2', None), ('db3', 'haar'), ('bior2.4', 'db2'), ('sym4', None), ('haar', 'db4'), ('rbio3.1', None)]
    for (wc, wr) in ws:
        Lc = pywt.Wavelet(wc).dec_len; Lr = pywt.Wavelet(wr or wc).dec_len
        for mode in ('zero', 'symmetric', 'reflect', 'periodization'):
            for (H, W) in [(2 * Lc, 2 * Lr), (2 * Lc + 1, 2 * Lr + 3), (Lc + 3, 3 * Lr), (16, 17), (9, 8)] + ([(Lc, Lr), (32, 20)] if tier == 'thorough' else []):
                yield dict(wave=wc, wave_row=wr, mode=mode, H=H, W=W, J=1, axes=[(H, Lc), (W, Lr)], seed=int(rng.integers(1 << 30)))


def strat_key(cfg):
    return '%s/%s/%s/%s' % (cfg['wave'], cfg['wave_row'], cfg['mode'], 'odd' if (cfg['H'] % 2 or cfg['W'] % 2) else 'even')


def oracle_run(cfg):
    import pytorch_wavelets.dwt.lowlevel as ll
    r = np.random.default_rng(cfg['seed'])
    X = torch.tensor(r.standard_normal((2, 2, cfg['H'], cfg['W'])))
    wc = pywt.Wavelet(cfg['wave']); wr = pywt.Wavelet(cfg['wave_row']) if cfg['wave_row'] else None
    hf = [np.array(wc.dec_lo), np.array(wc.dec_hi)] + ([np.array(wr.dec_lo), np.array(wr.dec_hi)] if wr else [])
    gf = [np.array(wc.rec_lo), np.array(wc.rec_hi)] + ([np.array(wr.rec_lo), np.array(wr.rec_hi)] if wr else [])
    mode = cfg['mode']
    res = []
    for f in (ll.afb2d_nonsep, ll.afb2d):
        try:
            res.append(f(X, hf, mode=mode))
        except (RuntimeError, ValueError) as e:
            res.append(e)
    if isinstance(res[0], Exception) or isinstance(res[1], Exception):
        if isinstance(res[0], Exception) and isinstance(res[1], Exception):
            return None            # a mode/size neither accepts
        return dict(detail='only one of the two analysis banks raised: %r / %r' % tuple(type(x).__name__ for x in res))
    a, b = res
    if a.shape != b.shape:
        return dict(detail='analysis shapes %s vs %s' % (tuple(a.shape), tuple(b.shape)))
    ok, msg = tol_close(a.numpy(), b.numpy(), rtol=1e-11)
    if not ok:
        return dict(detail='afb2d_nonsep != afb2d: ' + msg)
    Y = torch.tensor(r.standard_normal(tuple(a.shape)))
    Y5 = Y.reshape(2, 2, 4, a.shape[-2], a.shape[-1])
    z1 = ll.sfb2d_nonsep(Y5, gf, mode=mode)
    z2 = ll.sfb2d(Y5[:, :, 0].contiguous(), Y5[:, :, 1].contiguous(), Y5[:, :, 2].contiguous(), Y5[:, :, 3].contiguous(), gf, mode=mode)
    if z1.shape != z2.shape:
        return dict(detail='synthesis shapes %s vs %s' % (tuple(z1.shape), tuple(z2.shape)))
    ok, msg = tol_close(z1.numpy(), z2.numpy(), rtol=1e-11)
    return None if ok else dict(detail='sfb2d_nonsep != sfb2d: ' + msg)


def kf_match(cfg, fail, kf):
    return None
def kf_witness_fails(f):
    return oracle_run(f['witness']) is not None
replay = dwtfam.std_replay(sys.modules[__name__])
