"""Shared helpers for the DTCWT-family oracles (C03, C04, C06, C11): the reference NumPy dtcwt package."""
import numpy as np, torch, itertools
import dtcwt, logging
logging.disable(logging.WARNING)
from props.common import *

BIORTS = ['antonini', 'legall', 'near_sym_a', 'near_sym_b']
QSHIFTS = ['qshift_06', 'qshift_a', 'qshift_b', 'qshift_c', 'qshift_d']
PAIRS = [(b, q) for b in BIORTS for q in QSHIFTS]


def ref_forward(X, biort, qshift, J):
    """reference pyramid for a (N,C,H,W) array: lowpass (N,C,h,w), highs list of (N,C,6,h,w,2)"""
    t = dtcwt.Transform2d(biort=biort, qshift=qshift)
    N, C = X.shape[:2]
    lows, highs = None, None
    for n in range(N):
        for c in range(C):
            p = t.forward(X[n, c], nlevels=J)
            if lows is None:
                lows = np.zeros((N, C) + p.lowpass.shape)
                highs = [np.zeros((N, C, 6) + h.shape[:2] + (2,)) for h in p.highpasses]
            lows[n, c] = p.lowpass
            for j, h in enumerate(p.highpasses):
                hh = np.moveaxis(h, -1, 0)          # (6,h,w) complex
                highs[j][n, c, ..., 0] = hh.real
                highs[j][n, c, ..., 1] = hh.imag
    return lows, highs


def ref_inverse(low, highs, biort, qshift):
    t = dtcwt.Transform2d(biort=biort, qshift=qshift)
    N, C = low.shape[:2]
    out = None
    for n in range(N):
        for c in range(C):
            hp = tuple(np.moveaxis(h[n, c, ..., 0] + 1j * h[n, c, ..., 1], 0, -1) for h in highs)
            y = t.inverse(dtcwt.Pyramid(low[n, c], hp))
            if out is None:
                out = np.zeros((N, C) + y.shape)
            out[n, c] = y
    return out


def filt_gain(biort, qshift, J):
    from pytorch_wavelets.dtcwt import coeffs
    g = 1.0
    b = coeffs.biort(biort); q = coeffs.qshift(qshift)
    g1 = max(np.abs(a).sum() for a in b)
    g2 = max(np.abs(a).sum() for a in q)
    return (g1 ** 2) * (g2 ** (2 * max(0, J - 1)))


def std_replay(mod):
    def replay(rp):
        cfg = rp.get('config')
        if cfg:
            fail = run_oracle(mod, cfg)
            return dict(config=cfg, fails=bool(fail), failure=fail)
        return dict(fails=None, note='obligation replay: rebuild with ./check %s' % mod.ID, obligations=rp.get('broken_obligations'))
    return replay
