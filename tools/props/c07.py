"""C07  Transforms are linear and act per (batch, channel) slice."""
import numpy as np, torch, pywt, itertools, sys
import vlib, corr_dwt as cd
from props.common import *
from props import dwtfam

ID = 'C07'
GRAD_MODES = True
PROPS_MODULE = 'Props.C07'
THEOREMS = ['C07_ana_linear', 'C07_ana_per_linear', 'C07_syn_linear', 'C07_syn_per_linear', 'C07_slice_afb_zero',
            'C07_DWT1DForward_linear', 'C07_DWT1DInverse_linear', 'C07_DWTForward_linear', 'C07_DWTInverse_linear', 'C07_SWTForward_linear',
            'C07_DTCWTForward_linear', 'C07_DTCWTInverse_linear', 'C07_lincomb_related', 'C07_zero_in', 'C07_zero_out',
            'C07_slice_is_related', 'C07_DWT1DForward_slice', 'C07_DWT1DInverse_slice', 'C07_DWTForward_slice', 'C07_DWTInverse_slice',
            'C07_SWTForward_slice', 'C07_DTCWTForward_slice', 'C07_DTCWTInverse_slice']
VO = ['theories/Props/C07.vo', 'theories/Run/RunDwt.vo']
RULE = ('correspondence A with N,C in {1,2,3} and DISTINCT slices: afb1d/sfb1d with C=2,3 (full operator matrices), all Functions and modules, '
        'a trous and SWT, non-separable banks: a channel or batch leak changes an integer; oracle on every public transform (DWT1D/2D fwd+inv, SWT, DTCWT fwd+inv): '
        'T(0)=0 exactly, superposition T(ax+by)=aT(x)+bT(y), and batched output == per-slice outputs for random (N,C). distinct by (transform, config, check).')
TRUSTED = TRUSTED_COMMON + ['a data-dependent branch hidden inside a torch kernel cannot be exhibited by the model']
ASSUMES = ['theorems on the tensor-level model (the Gallina transcription that correspondence A ties to the code), for every J, mode, filter, size, N and C: '
           'all seven transforms (DWT1D/DWT2D forward+inverse, SWT forward, DTCWT forward+inverse incl. skipped levels, absent lowpass/levels) are linear '
           '(relation L3: x3 = a x1 + b x2 everywhere -> outputs related the same way, or all three raise the same error), T(0)=0 is the case a=b=0, '
           'and each acts per slice (relation Sl: the transform of the 1x1xHxW slice x[n,c] is the (n,c) slice of the transform of the batch); '
           'the DTCWT inverse slice theorem asks every band-pass level to be absent or to hold its 12 planes; linearity of the four closed forms kept from before']


def corr_jobs(tier, rng):
    modes = list(cd.MODES)
    cs = cd.cases_afb1d(rng, [2, 4], lambda L: [3, L + 1, 2 * L + 1], modes, dims=(3, 2), C=3, full=False)
    cs += cd.cases_afb1d(rng, [4], lambda L: [5, 8], modes, dims=(3, 2), C=2, full=True)
    cs += cd.cases_sfb1d(rng, [2, 4], lambda L: [2, L, L + 1], modes, dims=(3, 2), C=2)
    cs += cd.cases_functions_1d(rng, [4], lambda L: [5, 8], modes, NC=((3, 2), (1, 3)))
    cs += cd.cases_functions_2d(rng, [(2, 4)], lambda a, b: [(5, 8), (6, 7)], modes, NC=((2, 3), (3, 1)))
    cs += cd.cases_modules_1d(rng, [4], lambda L: [9, 16], modes, Js=(2,), NC=((2, 3),))
    cs += cd.cases_modules_2d(rng, [(4, 2)], lambda a, b: [(9, 8)], modes, Js=(2,), NC=((2, 2),))
    cs += cd.cases_swt(rng, [(2, 4)], [(8, 8)], Js=(2,))
    cs += cd.cases_nonsep(rng, [(2, 4)], lambda a, b: [(6, 9)], NC=((2, 3),))
    yield dict(name='model_vs_impl', module='Run.RunDwt', runner='run_dwt', cases=cs, against='impl')


def transforms(sib=False):
    """sib=True: the SIBLING of every transform - same kind, same filter lengths, different filter values (the taps doubled; for the
    DTCWT the 10-tap q-shift family exchanged) - used to put a different filter bank of the same layout through the code first"""
    from pytorch_wavelets import DWTForward, DWTInverse, DTCWTForward, DTCWTInverse, DWT1DForward, DWT1DInverse
    from pytorch_wavelets.dwt.transform2d import SWTForward
    flat = lambda o: [t for t in (o if isinstance(o, (list, tuple)) else [o]) for t in ([t] if torch.is_tensor(t) else list(t))]
    def wv(name, rec=False):
        if not sib: return name
        w = pywt.Wavelet(name)
        return tuple(2.0 * np.array(f) for f in ((w.rec_lo, w.rec_hi) if rec else (w.dec_lo, w.dec_hi)))
    T = {}
    for mode in MODES5:
        T['dwt1d/' + mode] = (lambda x, m=mode: flat(DWT1DForward(J=2, wave=wv('db3'), mode=m)(x)), 3)
        T['dwt2d/' + mode] = (lambda x, m=mode: flat(DWTForward(J=2, wave=wv('bior2.4'), mode=m)(x)), 4)
        T['idwt1d/' + mode] = (lambda x, m=mode: [DWT1DInverse(wave=wv('db3', True), mode=m)((x[..., :x.shape[-1] // 2], [x[..., x.shape[-1] // 2: 2 * (x.shape[-1] // 2)]]))], 3)
        T['idwt2d/' + mode] = (lambda x, m=mode: [DWTInverse(wave=wv('db2', True), mode=m)((x, [torch.stack([x * 2, x.flip(-1), x.flip(-2)], 2)]))], 4)
    T['swt/periodization'] = (lambda x: flat(SWTForward(J=2, wave=wv('db2'))(x)), 4)
    for b, q in (('near_sym_a', 'qshift_06' if sib else 'qshift_a'), ('antonini', 'qshift_c'), ('near_sym_b', 'qshift_b')):
        T['dtcwt/%s' % b] = (lambda x, b=b, q=q: flat(DTCWTForward(J=3, biort=b, qshift=q)(x)), 4)
        def inv(x, b=b, q=q):
            yl, yh = DTCWTForward(J=2, biort=b, qshift=q)(torch.zeros_like(x))
            # an arbitrary (not in the range) pyramid built linearly from x
            s = x.shape
            yl2 = x[..., :yl.shape[-2], :yl.shape[-1]] if yl.shape[-2] <= s[-2] and yl.shape[-1] <= s[-1] else None
            if yl2 is None or yl2.shape != yl.shape: raise ValueError('size')
            hs = []
            for h in yh:
                p = x[..., :h.shape[3], :h.shape[4]]
                if p.shape[-2:] != h.shape[3:5]: raise ValueError('size')
                hs.append(torch.stack([torch.stack([p * (o + 1), p.flip(-1) * (o - 2)], -1) for o in range(6)], 2))
            return [DTCWTInverse(biort=b, qshift=q)((yl2, hs))]
        T['idtcwt/%s' % b] = (inv, 4)
    if not sib:
        T['dtcwt/zero'] = (lambda x: flat(DTCWTForward(J=2, mode='zero')(x)), 4)
    # other placements of the orientation and real/imaginary axes that keep batch and channel in front (negative aliases included)
    if not sib:
        for (o, ri) in ((-4, -1), (3, 2), (-1, -4), (4, -3)):
            T['dtcwt/layout(%d,%d)' % (o, ri)] = (lambda x, o=o, ri=ri: flat(DTCWTForward(J=2, o_dim=o, ri_dim=ri)(x)), 4)
    return T


def oracle_cases(tier, rng):
    names = list(transforms().keys())
    for nm in names:
        for chk in ('zero', 'super', 'slice', 'slice_sparse', 'slice_primed'):
            if chk == 'slice_primed' and (nm.split('/')[0] in ('dtcwt', 'idtcwt') and 'near_sym_a' not in nm): continue
            if ('layout' in nm or nm == 'dtcwt/zero') and chk in ('zero', 'super', 'slice_primed'): continue
            for rep in range(2 if tier == 'quick' else 5):
                H, W = [(16, 24), (13, 18), (20, 16), (32, 32), (9, 28)][rep % 5]
                if nm.startswith(('dtcwt', 'idtcwt', 'swt')):
                    H, W = [(16, 24), (32, 16), (24, 24), (40, 32), (16, 48)][rep % 5]
                yield dict(transform=nm, check=chk, H=H, W=W, nb=int(rng.integers(1, 4)), C=int(rng.integers(1, 4)), seed=int(rng.integers(1 << 30)))


    # many channels: a path chosen by the channel count must still act slice by slice (three slices are compared)
    for nm in ('dwt2d/zero', 'dwt1d/symmetric', 'swt/periodization', 'dtcwt/near_sym_a', 'dtcwt/zero', 'idwt2d/periodization'):
        yield dict(transform=nm, check='slice', H=16, W=16, nb=1, C=70, seed=int(rng.integers(1 << 30)))


def strat_key(cfg):
    return cfg['transform'] + '/' + cfg['check'] + ('/C%d' % cfg['C'] if cfg['C'] > 8 else '')


def oracle_run(cfg):
    f, nd = transforms()[cfg['transform']]
    r = np.random.default_rng(cfg['seed'])
    shp = (cfg['nb'], cfg['C'], cfg['W']) if nd == 3 else (cfg['nb'], cfg['C'], cfg['H'], cfg['W'])
    x = torch.tensor(r.standard_normal(shp)); y = torch.tensor(r.standard_normal(shp))
    try:
        if cfg['check'] == 'zero':
            for o in f(torch.zeros(shp, dtype=torch.float64)):
                if o.numel() and float(o.abs().max()) != 0.0:
                    return dict(detail='T(0) != 0')
            return None
        if cfg['check'] == 'super':
            a, b = 1.5, -0.75
            l = f(a * x + b * y); fx = f(x); fy = f(y)
            for u, v, w in zip(l, fx, fy):
                ok, msg = tol_close(u.numpy(), (a * v + b * w).numpy(), rtol=1e-11, scale=max(1.0, float(u.abs().max())) if u.numel() else 1.0)
                if not ok:
                    return dict(detail='superposition fails: ' + msg)
            return None
        if cfg['check'] == 'slice_sparse':
            # one slice identically zero, the others not: no slice may be treated on the evidence of another
            if shp[0] * shp[1] < 2:
                shp = (2, 2) + tuple(shp[2:]); x = torch.tensor(r.standard_normal(shp))
            x[0, 0] = 0.0
        if cfg['check'] == 'slice_primed':
            # a different filter bank of the same layout (lengths, channel count, dtype) goes through the code first, on the whole batch only
            if shp[1] < 2:
                shp = (shp[0], 2) + tuple(shp[2:]); x = torch.tensor(r.standard_normal(shp))
            fresh_import()                                   # module-level state as in a new process: the sibling is the first user of this layout
            transforms(sib=True)[cfg['transform']][0](x)
            f, nd = transforms()[cfg['transform']]
        full = f(x)
        chans = range(shp[1]) if shp[1] <= 8 else sorted({0, shp[1] // 2, shp[1] - 1})
        for n in range(shp[0]):
            for c in chans:
                part = f(x[n:n + 1, c:c + 1].contiguous())
                for u, v in zip(full, part):
                    if u.dim() < 2: continue
                    uu = u[n:n + 1, c:c + 1]
                    ok, msg = tol_close(uu.numpy(), v.numpy(), rtol=1e-12, scale=max(1.0, float(v.abs().max())) if v.numel() else 1.0)
                    if not ok:
                        return dict(detail='slice (%d,%d) of the batched output differs from the transform of that slice alone: %s' % (n, c, msg))
        return None
    except (RuntimeError, ValueError) as e:
        if 'reflect' in cfg['transform'] or str(e) == 'size':
            return None
        return dict(error='%s: %s' % (type(e).__name__, str(e)[:200]))


def kf_match(cfg, fail, kf):
    return None
def kf_witness_fails(f):
    return oracle_run(f['witness']) is not None
replay = dwtfam.std_replay(sys.modules[__name__])
