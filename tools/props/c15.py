"""C15  Calls are pure: no argument mutation, no dependence on call history or threads."""
import numpy as np, torch, itertools, sys, ast, copy
from concurrent.futures import ThreadPoolExecutor
import vlib, translate
from props.common import *
from props import dtfam

ID = 'C15'
PROPS_MODULE = 'Props.C15'
THEOREMS = ['C15_effects_ok', 'C15_history_independent']
VO = ['theories/Props/C15.vo']
RULE = ('static: the effect summary of EVERY function and method of the package (in-place sites with the provenance of their target, self writes in forward/backward, global reads/writes, '
        'creation sites and their dtype handling, decorators) is regenerated from the source and the purity rules are decided in Coq; the analyser is self-tested on a corpus of snippets with '
        'known effects on every run; dynamic oracle: seeded random histories (constructions of all module kinds, calls with varying shapes/dtypes, autograd on/off, default-dtype flips) replayed on the '
        'real code: all arguments hashed before/after, every result compared bit-for-bit with a reference computed by a fresh module in a clean state, and the same calls under a thread pool (4-8 threads). '
        'distinct by history seed / op kinds.')
TRUSTED = TRUSTED_COMMON + ['the effect analyser (tools/translate.py: provenance rules, list of allocating calls) - validated by its self-test corpus', 'torch kernel internals and real thread interleavings are outside any Gallina model']
ASSUMES = ['PARTIAL: the theorems are about the abstraction produced by the analyser (effects_ok) and the cache/default-dtype state machine (history independence); threads and kernel internals are only exercised dynamically']


def corr_jobs(tier, rng):
    return []


SNIPPETS = [
    # (source, expected set of (kind, provenance)) - a corpus the analyser must classify correctly
    ("def f(x):\n    y = F.conv2d(x, w)\n    y[:, :2] = y[:, :2] + 1\n    return y\n", {('inplace', 'fresh')}),
    ("def f(x):\n    x[:, 0] = 0\n    return x\n", {('inplace', 'param')}),
    ("def f(x):\n    x.add_(1)\n    return x\n", {('inplace', 'param')}),
    ("def f(x):\n    y = x.view(-1)\n    y += 1\n    return y\n", {('inplace', 'param')}),
    ("def f(x):\n    y = x[:, :, ::2]\n    y.mul_(2)\n    return y\n", {('inplace', 'param')}),
    ("def f(x):\n    N = x.shape[2]\n    N += 1\n    return N\n", {('inplace', 'scalar')}),
    ("class M:\n    def forward(self, x):\n        self.last = x.shape\n        return x\n", {('self_write', 'attr')}),
    ("class M:\n    def forward(self, x):\n        self.h0[0] = 1\n        return x\n", {('inplace', 'attr')}),
    ("CACHE = {}\ndef f(k):\n    CACHE[k] = 1\n", {('global_write', 'global')}),
    ("def f(k):\n    global Z\n    Z = k\n", {('global_write', 'global')}),
    ("def f(x):\n    t = torch.get_default_dtype()\n    return torch.zeros(3, dtype=t)\n", {('global_read', 'global'), ('create', 'dtype')}),
    ("def f(x):\n    return torch.zeros(3, device=x.device)\n", {('create', 'default_dtype')}),
    ("def f(x):\n    xe = symm_pad(3, 4)\n    xe[0] = 1\n    return xe\n", {('inplace', 'unknown')}),
    ("@memoize\ndef f(x):\n    return x\n", {('decorator', 'decorator')}),
    ("def f(x):\n    y = torch.cat((x, x), 1)\n    torch.add(x, 1, out=x)\n    return y\n", {('inplace', 'unknown')}),
    ("def f(x, hs):\n    hs[0] = None\n    return x\n", {('inplace', 'param')}),
    ("class M:\n    def forward(self, x):\n        if self.h0.dtype != x.dtype:\n            self.to(x.dtype)\n        return x\n", {('self_write', 'attr')}),
    ("class M:\n    def forward(self, x):\n        setattr(self, 'k', 1)\n        return x\n", {('self_write', 'attr')}),
    # contiguous() / float() / double() return the receiver itself when nothing has to change: an in-place operation behind them reaches the argument
    ("def f(g):\n    d = g[:, 0]\n    d = d.contiguous().mul_(0.25)\n    return d\n", {('inplace', 'param')}),
    ("def f(x):\n    y = x.float()\n    y += 1\n    return y\n", {('inplace', 'param')}),
    ("def f(x):\n    y = x.clone().mul_(2)\n    return y\n", {('inplace', 'fresh')}),
    # an integer parameter (it is compared in an if test) may be re-bound; a tensor parameter may not be updated in place
    ("def f(o_dim, ri_dim):\n    o_dim %= 6\n    if ri_dim < o_dim:\n        o_dim -= 1\n    return o_dim\n", {('inplace', 'scalar')}),
    ("def f(x, k):\n    x += 1\n    if k == 2:\n        x *= 2\n    return x\n", {('inplace', 'param')}),
    # a dtype written into the source (not taken from an input) - as a creation dtype or as the accumulation dtype of any other call
    ("def f(x):\n    return torch.zeros(3, dtype=torch.float)\n", {('create', 'fixed_dtype')}),
    ("def f(x):\n    return torch.zeros(3, dtype=x.dtype)\n", {('create', 'dtype')}),
    ("def f(x):\n    r = torch.sum(x**2, dim=2, keepdim=True, dtype=torch.float64)\n    return r\n", {('cast', 'fixed')}),
]

def analyse_snippet(src):
    tree = ast.parse(src)
    mg = {t.id for n in tree.body if isinstance(n, ast.Assign) for t in n.targets if isinstance(t, ast.Name)}
    out = set()
    def visit(body, cls):
        for n in body:
            if isinstance(n, ast.ClassDef): visit(n.body, n.name)
            elif isinstance(n, ast.FunctionDef):
                for dec in n.decorator_list: out.add(('decorator', 'decorator'))
                for (kind, detail, prov, line) in translate.EffectVisitor(n, 'snippet', cls, mg).run():
                    out.add((kind, prov))
    visit(tree.body, '')
    return out

def extra_obligations(tier, rng):
    for i, (src, want) in enumerate(SNIPPETS):
        got = analyse_snippet(src)
        yield ('analyser-selftest-%d' % i, want <= got, 'snippet %d: expected %s within %s' % (i, sorted(want), sorted(got)))


# ---------------------------------------------------------------- dynamic histories
def make_module(kind, r):
    from pytorch_wavelets import DWTForward, DWTInverse, DTCWTForward, DTCWTInverse, DWT1DForward, DWT1DInverse
    from pytorch_wavelets.dwt.transform2d import SWTForward
    from pytorch_wavelets.scatternet import ScatLayer, ScatLayerj2
    modes = ['zero', 'symmetric', 'reflect', 'periodization', 'periodic']
    waves = ['db1', 'db2', 'db4', 'sym3', 'bior2.2', 'bior1.3']
    def wave2d():
        # a third of the 2-D modules get one wavelet per axis (the 4-tuple form: column filters first, then row filters)
        if r.integers(3): return str(r.choice(waves))
        import pywt
        wc, wr = pywt.Wavelet(str(r.choice(waves))), pywt.Wavelet(str(r.choice(waves)))
        return ('4tuple', wc.name, wr.name)
    def build(cls, p):
        import pywt
        w = p['wave']
        if isinstance(w, tuple):
            wc, wr = pywt.Wavelet(w[1]), pywt.Wavelet(w[2])
            fw = (wc.dec_lo, wc.dec_hi, wr.dec_lo, wr.dec_hi) if cls is DWTForward else (wc.rec_lo, wc.rec_hi, wr.rec_lo, wr.rec_hi)
            return cls(**dict(p, wave=fw))
        return cls(**p)
    if kind == 'dwt2': p = dict(J=int(r.integers(1, 4)), wave=wave2d(), mode=str(r.choice(modes))); return p, lambda: build(DWTForward, p)
    if kind == 'idwt2': p = dict(wave=wave2d(), mode=str(r.choice(modes))); return p, lambda: build(DWTInverse, p)
    if kind == 'dwt1': p = dict(J=int(r.integers(1, 4)), wave=str(r.choice(waves)), mode=str(r.choice(modes))); return p, lambda: DWT1DForward(**p)
    if kind == 'idwt1': p = dict(wave=str(r.choice(waves)), mode=str(r.choice(modes))); return p, lambda: DWT1DInverse(**p)
    if kind == 'swt': p = dict(J=int(r.integers(1, 3)), wave=str(r.choice(waves[:4]))); return p, lambda: SWTForward(**p)
    if kind == 'dtcwt':
        lay = [(2, -1), (1, 2), (4, 1)][int(r.integers(3))]
        p = dict(J=int(r.integers(1, 4)), biort=str(r.choice(dtfam.BIORTS)), qshift=str(r.choice(dtfam.QSHIFTS)), o_dim=lay[0], ri_dim=lay[1]); return p, lambda: DTCWTForward(**p)
    if kind == 'idtcwt': p = dict(biort=str(r.choice(dtfam.BIORTS)), qshift=str(r.choice(dtfam.QSHIFTS))); return p, lambda: DTCWTInverse(**p)
    if kind == 'scat1': p = dict(biort=str(r.choice(['near_sym_a', 'near_sym_b_bp'])), magbias=float(r.choice([1e-2, 0.5])), combine_colour=bool(r.integers(2))); return p, lambda: ScatLayer(**p)
    if kind == 'scat2': p = dict(magbias=float(r.choice([1e-2, 0.5])), combine_colour=bool(r.integers(2))); return p, lambda: ScatLayerj2(**p)
    raise ValueError(kind)

KINDS = ['dwt2', 'idwt2', 'dwt1', 'idwt1', 'swt', 'dtcwt', 'idtcwt', 'scat1', 'scat2']

def none_level(hs, r):
    """a third of the inverse-DWT pyramids carry a level given as None (documented: treated as zeros) - the result must still be a
    function of the arguments alone"""
    if int(r.integers(3)) == 0: hs[int(r.integers(len(hs)))] = None
    return hs


def make_args(kind, m, r, dt, p=None):
    """argument structure for a call; inverse transforms get a pyramid produced from zeros of a random size"""
    from pytorch_wavelets import DWTForward, DTCWTForward, DWT1DForward
    H, W = int(r.integers(8, 33)), int(r.integers(8, 33))
    C = 3 if kind.startswith('scat') else int(r.integers(1, 3))
    g = torch.Generator().manual_seed(int(r.integers(1 << 30)))
    rnd = lambda shape: torch.randn(shape, generator=g, dtype=torch.float64).to(dt)
    if kind in ('dwt2', 'dtcwt', 'scat1', 'scat2'): return rnd((int(r.integers(1, 4)), C, H, W))
    if kind == 'swt': return rnd((1, C, 16, 24))
    if kind == 'dwt1': return rnd((int(r.integers(1, 4)), C, W))
    if kind == 'idwt1':
        yl, yh = DWT1DForward(J=2, wave=p['wave'], mode=p['mode']).double()(torch.zeros(1, C, 4 * W, dtype=torch.float64))
        return (rnd(tuple(yl.shape)), none_level([rnd(tuple(h.shape)) for h in yh], r))
    if kind == 'idwt2':
        import pywt
        w = p['wave']
        if isinstance(w, tuple):
            wc, wr = pywt.Wavelet(w[1]), pywt.Wavelet(w[2]); w = (wc.dec_lo, wc.dec_hi, wr.dec_lo, wr.dec_hi)
        yl, yh = DWTForward(J=2, wave=w, mode=p['mode']).double()(torch.zeros(1, C, 2 * H, 2 * W, dtype=torch.float64))
        return (rnd(tuple(yl.shape)), none_level([rnd(tuple(h.shape)) for h in yh], r))
    if kind == 'idtcwt':
        yl, yh = DTCWTForward(J=2).double()(torch.zeros(1, C, H, W, dtype=torch.float64))
        hs = [rnd(tuple(h.shape)) for h in yh]
        # half of the pyramids carry a placeholder level the way the forward transform hands them out (0-dim tensor for a skipped
        # level) or the documented empty tensor - in a LIST the caller keeps using afterwards
        k = int(r.integers(4))
        if k == 0: hs[int(r.integers(len(hs)))] = torch.tensor(0.0, dtype=dt)
        elif k == 1: hs[int(r.integers(len(hs)))] = torch.tensor([], dtype=dt)
        return (rnd(tuple(yl.shape)), hs)

def flatten(o):
    if torch.is_tensor(o): return [o]
    if o is None: return []
    out = []
    for t in o: out += flatten(t)
    return out

def clone_args(a):
    if torch.is_tensor(a): return a.clone()
    if isinstance(a, tuple): return tuple(clone_args(t) for t in a)
    if isinstance(a, list): return [clone_args(t) for t in a]
    return a

def same(a, b):
    if isinstance(a, tuple) and len(a) == 2 and a[0] == 'raised' or isinstance(b, tuple) and len(b) == 2 and b[0] == 'raised':
        return a == b
    fa, fb = flatten(a), flatten(b)
    return len(fa) == len(fb) and all(x.dtype == y.dtype and x.shape == y.shape and torch.equal(x, y) for x, y in zip(fa, fb))

XT_MODES = ['symmetric', 'periodization', 'zero', 'reflect', 'periodic']
def oracle_cases(tier, rng):
    for i in range(40 if tier == 'quick' else 300):
        yield dict(kind='history', seed=int(rng.integers(1 << 30)), nops=10)
    # cross-talk between transforms that share size, channels, dtype and mode (what a cache keyed too coarsely confuses)
    for S in ((32,) if tier == 'quick' else (32, 48)):
        for mode in XT_MODES:
            for rep in range(1 if tier == 'quick' else 2):
                yield dict(kind='crosstalk', S=S, mode=mode, seed=int(rng.integers(1 << 30)))
    for i in range(6 if tier == 'quick' else 40):
        yield dict(kind='threads', seed=int(rng.integers(1 << 30)), nthreads=int(rng.choice([4, 8, 16])))

def strat_key(cfg):
    if cfg['kind'] == 'crosstalk': return 'crosstalk/%d/%s' % (cfg['S'], cfg['mode'])
    return cfg['kind'] + '/' + str(cfg['seed'] % 7)


XT_WAVES = ['haar', 'db2', 'db3', 'db4', 'sym4', 'coif1', 'bior1.3', 'rbio1.3']
def xt_pool(S, mode):
    """(label, builder(module namespace) -> module, argument builder(generator) -> args): same size, 2 channels, float64, one mode"""
    pool = []
    for w in XT_WAVES:
        pool.append(('DWTForward(J=2,%s,%s)' % (w, mode), lambda w=w: __import__('pytorch_wavelets').DWTForward(J=2, wave=w, mode=mode).double(), 'img'))
        pool.append(('DWT1DForward(J=2,%s,%s)' % (w, mode), lambda w=w: __import__('pytorch_wavelets').DWT1DForward(J=2, wave=w, mode=mode).double(), 'sig'))
        pool.append(('DWTInverse(%s,%s)' % (w, mode), lambda w=w: __import__('pytorch_wavelets').DWTInverse(wave=w, mode=mode).double(), ('pyr2', w)))
        pool.append(('DWT1DInverse(%s,%s)' % (w, mode), lambda w=w: __import__('pytorch_wavelets').DWT1DInverse(wave=w, mode=mode).double(), ('pyr1', w)))
    if mode != 'periodic':
        for w in XT_WAVES[:4]:
            def mk(w=w):
                from pytorch_wavelets.dwt.transform2d import SWTForward
                return SWTForward(J=4, wave=w, mode=mode).double()
            pool.append(('SWTForward(J=4,%s,%s)' % (w, mode), mk, 'img'))
    return pool

def xt_args(spec, S, mode, g):
    import pywt
    rnd = lambda shape: torch.randn(shape, generator=g, dtype=torch.float64)
    if spec == 'img': return rnd((1, 2, S, S))
    if spec == 'sig': return rnd((1, 2, S))
    kind, w = spec
    pm = 'periodization' if mode == 'periodization' else mode
    n1 = pywt.dwt_coeff_len(S, pywt.Wavelet(w).dec_len, pm)
    if kind == 'pyr1': return (rnd((1, 2, n1)), [rnd((1, 2, n1))])
    return (rnd((1, 2, n1, n1)), [rnd((1, 2, 3, n1, n1))])

def xt_call(m, args):
    try:
        with torch.no_grad():
            return [t.clone() for t in flatten(m(args))]
    except (RuntimeError, ValueError, AssertionError) as e:
        return ('raised', type(e).__name__)

def crosstalk_run(cfg):
    r = np.random.default_rng(cfg['seed'])
    S, mode = cfg['S'], cfg['mode']
    pool = xt_pool(S, mode)
    g = torch.Generator().manual_seed(cfg['seed'] % (2 ** 31))
    args = [xt_args(spec, S, mode, g) for (_, _, spec) in pool]
    try:
        refs = []
        for (lab, mk, spec), a in zip(pool, args):
            fresh_import(); refs.append(xt_call(mk(), clone_args(a)))
        order = [int(i) for i in r.permutation(len(pool))]
        fresh_import()
        outs = {}
        for i in order:
            outs[i] = xt_call(pool[i][1](), clone_args(args[i]))
        bad = [i for i in order if not same(outs[i], refs[i])]
        if not bad:
            return None
        i = bad[0]
        # which single earlier call is enough?
        for j in order[:order.index(i)]:
            fresh_import()
            xt_call(pool[j][1](), clone_args(args[j]))
            if not same(xt_call(pool[i][1](), clone_args(args[i])), refs[i]):
                return dict(detail='%s on a %dx%d input gives a different result after %s was called in the same process than in a fresh process' % (pool[i][0], S, S, pool[j][0]))
        return dict(detail='%s on a %dx%d input gives a different result after the calls %s in the same process than in a fresh process' % (
            pool[i][0], S, S, [pool[j][0] for j in order[:order.index(i)]]))
    finally:
        fresh_import()

class BackwardMutation(Exception):
    pass

def call(m, kind, args, dt, grad):
    """result tensors, or ('raised', exception type) - an exception is an outcome like any other and must be reproducible"""
    try:
        return call_(m, kind, args, dt, grad)
    except (RuntimeError, ValueError, AssertionError) as e:
        return ('raised', type(e).__name__)

def call_(m, kind, args, dt, grad):
    m2 = m                            # the shared instance itself: a call must not change it
    if grad:
        for t in flatten(args): t.requires_grad_(True)
        out = m2(args)
        outs = [t for t in flatten(out) if t.numel() and t.requires_grad]
        if outs:
            # the backward pass is part of the call: explicit dense cotangents, two passes with the SAME cotangents
            gg = torch.Generator().manual_seed(12345)
            gs = [torch.randn(tuple(t.shape), generator=gg, dtype=torch.float64).to(t.dtype) for t in outs]
            keep = [g.clone() for g in gs]
            ins = [t for t in flatten(args)]
            g1 = torch.autograd.grad(outs, ins, gs, retain_graph=True, allow_unused=True)
            if not all(torch.equal(a, b) for a, b in zip(gs, keep)):
                raise BackwardMutation('the backward pass modified the cotangent tensor passed to it')
            g2 = torch.autograd.grad(outs, ins, gs, allow_unused=True)
            for a, b in zip(g1, g2):
                if (a is None) != (b is None) or (a is not None and not torch.equal(a, b)):
                    raise BackwardMutation('two backward passes with the same cotangent give different gradients')
        for t in flatten(args): t.requires_grad_(False)
        return [t.detach() for t in flatten(out)]
    with torch.no_grad():
        return [t for t in flatten(m2(args))]

def oracle_run(cfg):
    r = np.random.default_rng(cfg['seed'])
    old = torch.get_default_dtype()
    try:
        if cfg['kind'] == 'crosstalk':
            return crosstalk_run(cfg)
        if cfg['kind'] == 'history':
            mods, log = [], []
            for step in range(cfg['nops']):
                op = r.choice(['construct', 'call', 'call', 'call', 'flip'])
                if op == 'flip':
                    torch.set_default_dtype(torch.float32 if torch.get_default_dtype() == torch.float64 else torch.float64)
                elif op == 'construct' or not mods:
                    kind = str(r.choice(KINDS)); p, mk = make_module(kind, r)
                    mods.append((kind, p, mk, mk(), torch.get_default_dtype()))
                else:
                    kind, p, mk, m, d0 = mods[int(r.integers(len(mods)))]
                    # mostly the module's own precision, sometimes the other one (the unchanged code then raises)
                    dt = d0 if r.integers(4) else (torch.float32 if d0 == torch.float64 else torch.float64)
                    args = make_args(kind, m, r, dt, p)
                    before = clone_args(args)
                    grad = bool(r.integers(2))
                    state0 = {k: v.clone() for k, v in m.state_dict().items()}
                    out = call(m, kind, args, dt, grad)
                    state1 = m.state_dict()
                    if set(state0) != set(state1) or any(state0[k].dtype != state1[k].dtype or not torch.equal(state0[k], state1[k]) for k in state0):
                        return dict(detail='%s(%s): the call (input dtype %s) changed the module\'s parameters/buffers' % (kind, p, dt))
                    if not same(args, before) or (isinstance(args, tuple) and [type(t) for t in args[1]] != [type(t) for t in before[1]]):
                        return dict(detail='%s(%s): an argument tensor or an entry of the coefficient list was modified by the call' % (kind, p))
                    if isinstance(args, tuple) and (len(args[1]) != len(before[1])):
                        return dict(detail='%s: the coefficient list was modified' % kind)
                    log.append((kind, p, mk, d0, dt, before, out, grad))
            # replay every call on a fresh module in a clean state, other grad mode
            for (kind, p, mk, d0, dt, args, out, grad) in log:
                torch.set_default_dtype(d0)
                ref = call(mk(), kind, clone_args(args), dt, not grad)   # fresh instance built under the same default dtype
                if not same(out, ref):
                    return dict(detail='%s(%s) dtype=%s: result during the history differs from a fresh module called once (grad %s vs %s)' % (kind, p, dt, grad, not grad))
            return None
        # threads
        jobs = []
        for i in range(12):
            kind = str(r.choice(KINDS)); p, mk = make_module(kind, r); m = mk().double()
            args = make_args(kind, m, r, torch.float64, p)
            jobs.append((kind, p, m, args))
        seq = [call(m, k, clone_args(a), torch.float64, False) for (k, p, m, a) in jobs]
        with ThreadPoolExecutor(max_workers=cfg['nthreads']) as ex:
            futs = [ex.submit(call, m, k, clone_args(a), torch.float64, False) for rep in range(3) for (k, p, m, a) in jobs]
            res = [f.result() for f in futs]
        for i, out in enumerate(res):
            if not same(out, seq[i % len(jobs)]):
                return dict(detail='%s(%s): result under %d threads differs from the sequential result' % (jobs[i % len(jobs)][0], jobs[i % len(jobs)][1], cfg['nthreads']))
        return None
    except BackwardMutation as e:
        return dict(detail=str(e))
    except Exception as e:
        import traceback
        return dict(error='%s: %s' % (type(e).__name__, str(e)[:200]), trace=traceback.format_exc()[-600:])
    finally:
        torch.set_default_dtype(old)


def kf_match(cfg, fail, kf):
    return None
def kf_witness_fails(f):
    return oracle_run(f['witness']) is not None
replay = dtfam.std_replay(sys.modules[__name__])
