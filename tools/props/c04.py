"""C04  DTCWT perfect reconstruction with symmetric extension."""
import numpy as np, torch, itertools, sys
import vlib
from props.common import *
from props import dtfam, c03

ID = 'C04'
GRAD_MODES = True
PROPS_MODULE = 'Props.C04'
THEOREMS = ['C04_extension_commutes', 'C04_level1_line', 'C04_c2q_q2c', 'C04_legall_kernel', 'C04_qshift_extension_commutes', 'C04_qshift_stage_line', 'C04_qshift_stage_col', 'C04_level1_2d', 'C04_qshift_level_2d', 'C04_pyramid', 'C04_qshift_tables', 'C04_QPR_satisfiable']
VO = ['theories/Props/C04.vo', 'theories/Props/C18.vo', 'theories/Run/RunDtcwt.vo']
RULE = ('correspondence A: every primitive of the forward and inverse pipelines (colfilter, coldfilt, colifilt and row twins, q2c, c2q), the four level functions, '
        'DTCWTForward and DTCWTInverse (crop rule) on sizes of every residue mod 8 incl. odd; oracle: x == DTCWTInverse(DTCWTForward(x))[..., :H, :W] for all 20 named pairs, J<=4(5), '
        'odd sizes come back even-extended with x top-left. distinct by (pair, J, size residues).')
TRUSTED = TRUSTED_COMMON + ['the biorthogonal/symmetry hypotheses of C04_level1_line are discharged for the shipped level-1 tables in C18_tables (level1_symmetric, level1_PR, tolerance 2^-44); the reversal and kernel hypotheses of C04_qshift_stage_* for the shipped q-shift tables in C04_qshift_tables (exact; kernel within 2^-48, qshift_32 2^-26)']
ASSUMES = ['theorems: level-1 perfect reconstruction on a column for any symmetric odd pair meeting the biorthogonal condition, the extension-commutes lemma, c2q(q2c) = 2 s^2; '
           'one q-shift stage (colifilt o coldfilt, lowpass + highpass) reconstructs for every column length = 0 mod 4 and even filter length under RevPair + the kernel condition QPRref, line level and on the column pass of the model; whole levels in 2-D (C04_level1_2d, C04_qshift_level_2d) and the whole pyramid for every J and every image size incl. odd, with the pad-to-multiple-of-4 / crop bookkeeping (C04_pyramid), on the model; assumption: both q-shift families have one even length L (true of every shipped table: C04_qshift_tables) and the ring element s satisfies 2 s^2 = 1']


def corr_jobs(tier, rng):
    import corr_dtcwt as cd
    q = tier == 'quick'
    cs = cd.cases_linefilter(rng, Ls=(3, 5, 7), sizes=(2, 4, 6, 9))
    cs += cd.cases_dfilt(rng, Ls=(4, 6, 10), sizes=(4, 8, 12))
    cs += cd.cases_ifilt(rng, Ls=(4, 6, 10), sizes=(2, 4, 6, 8))
    cs += cd.cases_q2c(rng)
    sizes = [(8, 8), (6, 10), (7, 9), (12, 4), (16, 20), (9, 13)] if q else [(h, w) for h in range(4, 20, 3) for w in range(5, 22, 4)]
    cs += cd.cases_modules(rng, sizes, Js=(1, 2, 3), masks='none', absent=False)
    yield dict(name='model_vs_impl', module='Run.RunDtcwt', runner='run_dtcwt', cases=cs, against='impl')


oracle_cases = c03.oracle_cases
strat_key = c03.strat_key


def oracle_run(cfg):
    from pytorch_wavelets import DTCWTForward, DTCWTInverse
    r = np.random.default_rng(cfg['seed'])
    H, W = cfg['H'], cfg['W']
    X = r.standard_normal((cfg.get('nb', 2), cfg.get('C', 2), H, W))
    try:
        y = DTCWTInverse(biort=cfg['biort'], qshift=cfg['qshift'])(DTCWTForward(biort=cfg['biort'], qshift=cfg['qshift'], J=cfg['J'])(torch.tensor(X))).numpy()
    except Exception as e:
        return dict(error='%s: %s' % (type(e).__name__, str(e)[:200]))
    if y.shape[-2:] != (H + H % 2, W + W % 2):
        return dict(detail='output extent %s for input %s (expected even-extended)' % (y.shape[-2:], (H, W)))
    # tolerance: how exactly the shipped filters reconstruct (reference round trip on the same data)
    rl, rh = dtfam.ref_forward(X, cfg['biort'], cfg['qshift'], cfg['J'])
    ref = dtfam.ref_inverse(rl, rh, cfg['biort'], cfg['qshift'])
    err_ref = float(np.abs(ref[..., :H, :W] - X).max())
    err = float(np.abs(y[..., :H, :W] - X).max())
    tol = max(1e-9, 4 * err_ref)
    if err > tol:
        return dict(detail='reconstruction error %.3g > %.3g (reference own error %.3g)' % (err, tol, err_ref))
    return None


def kf_match(cfg, fail, kf):
    return None
def kf_witness_fails(f):
    return oracle_run(f['witness']) is not None
replay = dtfam.std_replay(sys.modules[__name__])
