"""C05  DWT back-propagation is the exact adjoint, for every grad subset."""
import numpy as np, torch, pywt, itertools, sys
import vlib, corr_dwt as cd
from props.common import *
from props import dwtfam

ID = 'C05'
MODE_ALIAS = True
PROPS_MODULE = 'Props.C05'
THEOREMS = ['C05_adjoint_zero_line', 'C05_afb_zero_row', 'C05_afb_per_row', 'C05_afb2d_zero', 'C05_afb2d_per', 'C05_subsets', 'C05_afb_sym_refuted']
VO = ['theories/Props/C05.vo', 'theories/Run/RunDwt.vo']
RULE = ('correspondence A: AFB1D/AFB2D/SFB1D/SFB2D.backward (torch.autograd.grad with integer cotangents) vs the backward model, all 5 modes, '
        'odd/even/short sizes, N,C>1; oracle: Jacobian J assembled from basis inputs through the public modules, grad == J^T g for random g, '
        'every non-empty subset of differentiable arguments of the inverse; distinct by (direction, kind, wavelet, mode, J, size, subset)')
TRUSTED = TRUSTED_COMMON + ['autograd composes the per-level Functions (modelled as reverse composition); needs_input_grad semantics of torch.autograd.Function']
ASSUMES = ['theorems: adjointness of the row pass (zero mode all sizes; periodization even length >= filter) and of the WHOLE 2-D Function AFB2D incl. the crop '
           '(C05_afb2d_zero, C05_afb2d_per; read right-to-left: SFB2D), and the grad-subset rule; the composition over levels is the chain rule of autograd (trusted); '
           'symmetric/reflect/periodic and odd/short periodization are known findings']


def corr_jobs(tier, rng):
    q = tier == 'quick'
    Ls = [2, 4, 6] if q else [2, 4, 6, 8, 10]
    modes = list(cd.MODES)
    cs = [c for c in cd.cases_functions_1d(rng, Ls, lambda L: [2, 3, L - 1, L, L + 1, 2 * L, 2 * L + 1], modes) if c.entry in (4, 6)]
    cs += [c for c in cd.cases_functions_2d(rng, [(2, 4), (4, 2), (6, 4)] if q else [(2, 4), (4, 2), (6, 4), (8, 6), (4, 10)],
                                            lambda a, b: [(2, 3), (3, 2), (5, 8), (8, 5), (7, 7), (6, 9)], modes, NC=((2, 2),)) if c.entry in (8, 10)]
    yield dict(name='backward_model_vs_autograd', module='Run.RunDwt', runner='run_dwt', cases=cs, against='impl')


def oracle_cases(tier, rng):
    ws = ['haar', 'db2', 'db3', 'sym4', 'bior1.3', 'bior2.4', 'rbio3.1'] if tier == 'quick' else ['haar', 'db2', 'db3', 'db5', 'sym4', 'coif1', 'bior1.3', 'bior2.4', 'bior3.3', 'rbio3.1', 'rbio2.2']
    for wn in ws:
        L = pywt.Wavelet(wn).dec_len
        for mode in MODES5:
            for J in (1, 2):
                for N in sorted({L, L + 1, 2 * L, 2 * L + 3, 16}):
                    yield dict(dir='fwd', kind='1d', wave=wn, mode=mode, J=J, N=N, axes=[(N, L)], subset=None, seed=int(rng.integers(1 << 30)))
                    subs = [s for s in itertools.product([0, 1], repeat=J + 1) if any(s)]
                    for s in (subs if tier == 'thorough' or J == 1 else [subs[i] for i in rng.choice(len(subs), 3, replace=False)]):
                        yield dict(dir='inv', kind='1d', wave=wn, mode=mode, J=J, N=N, axes=[(N, L)], subset=list(s), seed=int(rng.integers(1 << 30)))
                for (H, W) in ([(L, L + 1), (2 * L + 1, 6)] if tier == 'quick' else [(L, L + 1), (2 * L + 1, 6), (8, 8), (5, 2 * L)]):
                    if J == 1 or tier == 'thorough':
                        yield dict(dir='fwd', kind='2d', wave=wn, mode=mode, J=J, H=H, W=W, axes=[(H, L), (W, L)], subset=None, seed=int(rng.integers(1 << 30)))
                        subs = [s for s in itertools.product([0, 1], repeat=J + 1) if any(s)]
                        for s in subs:
                            yield dict(dir='inv', kind='2d', wave=wn, mode=mode, J=J, H=H, W=W, axes=[(H, L), (W, L)], subset=list(s), seed=int(rng.integers(1 << 30)))


    # separate column / row wavelets (4-tuple): equal and unequal lengths
    for (wc, wr) in [('db4', 'sym4'), ('bior2.2', 'bior1.3'), ('db2', 'db3'), ('haar', 'db2')]:
        Lc, Lr = pywt.Wavelet(wc).dec_len, pywt.Wavelet(wr).dec_len
        for mode in ('zero', 'periodization'):
            for (H, W) in [(2 * Lc, 2 * Lr), (2 * Lc + 2, 2 * Lr + 4)]:
                yield dict(dir='fwd', kind='2d', wave=wc, wave_row=wr, mode=mode, J=1, H=H, W=W, axes=[(H, Lc), (W, Lr)], subset=None, seed=int(rng.integers(1 << 30)))
                for s in ([1, 1], [0, 1], [1, 0]):
                    yield dict(dir='inv', kind='2d', wave=wc, wave_row=wr, mode=mode, J=1, H=H, W=W, axes=[(H, Lc), (W, Lr)], subset=s, seed=int(rng.integers(1 << 30)))


    # user-supplied filters of ODD length (3 and 5 taps, not a reconstructing pair - the Jacobian identity needs none), zero mode
    for L in (3, 5):
        for J in (1, 2):
            for N in (8, 11):
                yield dict(dir='fwd', kind='1d', wave='haar', taps=L, mode='zero', J=J, N=N, axes=[(N, L)], subset=None, seed=int(rng.integers(1 << 30)))
                yield dict(dir='inv', kind='1d', wave='haar', taps=L, mode='zero', J=J, N=N, axes=[(N, L)], subset=[1] * (J + 1), seed=int(rng.integers(1 << 30)))
            yield dict(dir='fwd', kind='2d', wave='haar', taps=L, mode='zero', J=J, H=8, W=11, axes=[(8, L), (11, L)], subset=None, seed=int(rng.integers(1 << 30)))
            yield dict(dir='inv', kind='2d', wave='haar', taps=L, mode='zero', J=J, H=8, W=11, axes=[(8, L), (11, L)], subset=[1] * (J + 1), seed=int(rng.integers(1 << 30)))


def strat_key(cfg):
    if cfg.get('taps'):
        return '%s/%s/odd%d/J%d' % (cfg['dir'], cfg['kind'], cfg['taps'], cfg['J'])
    return '%s/%s%s/%s/J%d/%s' % (cfg['dir'], cfg['kind'], '-mixed' if cfg.get('wave_row') else '', cfg['mode'], cfg['J'], 'all' if cfg['subset'] is None else ''.join(map(str, cfg['subset'])))


def flat(ts):
    return torch.cat([t.reshape(-1) for t in ts])


def oracle_run(cfg):
    from pytorch_wavelets.dwt.transform1d import DWT1DForward, DWT1DInverse
    from pytorch_wavelets.dwt.transform2d import DWTForward, DWTInverse
    r = np.random.default_rng(cfg['seed'])
    mode, J, wn = cfg['mode'], cfg['J'], cfg['wave']
    d1 = cfg['kind'] == '1d'
    shp = (1, 1, cfg['N']) if d1 else (1, 1, cfg['H'], cfg['W'])
    from props import c01
    if cfg.get('taps'):
        rt = np.random.default_rng(cfg['taps'])
        pair = (rt.standard_normal(cfg['taps']), rt.standard_normal(cfg['taps']))
        fwd = (DWT1DForward if d1 else DWTForward)(J=J, wave=pair, mode=mode)
        inv = (DWT1DInverse if d1 else DWTInverse)(wave=pair, mode=mode)
    else:
        fwd = (DWT1DForward if d1 else DWTForward)(J=J, wave=wn if d1 else c01.wave_arg(cfg, 'dec'), mode=lib_mode(cfg))
        inv = (DWT1DInverse if d1 else DWTInverse)(wave=wn if d1 else c01.wave_arg(cfg, 'rec'), mode=lib_mode(cfg))
    try:
        if cfg['dir'] == 'fwd':
            n_in = int(np.prod(shp))
            cols = []
            with torch.no_grad():
                for k in range(n_in):
                    e = torch.zeros(n_in, dtype=torch.float64); e[k] = 1
                    yl, yh = fwd(e.reshape(shp)); cols.append(flat([yl] + list(yh)))
            Jm = torch.stack(cols, 1)
            x = torch.tensor(r.standard_normal(shp), requires_grad=True)
            yl, yh = fwd(x); outs = [yl] + list(yh)
            for fam, gs in cot_families(r, [o.shape for o in outs]):
                gx, = torch.autograd.grad(outs, [x], gs, allow_unused=True, retain_graph=True)
                if gx is None:
                    return dict(detail='no gradient for the input')
                want = Jm.t() @ flat(gs)
                sc = float(want.abs().max())
                ok, msg = tol_close(gx.reshape(-1).numpy(), want.numpy(), sc if 0 < sc < 1 else max(1.0, sc))
                if not ok:
                    return dict(detail='grad != J^T g for cotangent [%s]: %s' % (fam, msg))
            return None
        else:
            with torch.no_grad():
                yl0, yh0 = fwd(torch.zeros(shp, dtype=torch.float64))
            ins0 = [yl0] + list(yh0)
            sizes = [int(t.numel()) for t in ins0]
            cols = []
            with torch.no_grad():
                for a, t in enumerate(ins0):
                    for k in range(sizes[a]):
                        args = [torch.zeros_like(u) for u in ins0]
                        args[a].view(-1)[k] = 1
                        cols.append(inv((args[0], args[1:])).reshape(-1))
            Jm = torch.stack(cols, 1)          # out x in
            args = [torch.tensor(r.standard_normal(tuple(t.shape)), requires_grad=bool(s)) for t, s in zip(ins0, cfg['subset'])]
            y = inv((args[0], args[1:]))
            req = [a for a, s in zip(args, cfg['subset']) if s]
            off = np.cumsum([0] + sizes)
            for fam, (g,) in cot_families(r, [y.shape]):
                grads = torch.autograd.grad([y], req, [g], allow_unused=True, retain_graph=True)
                want = Jm.t() @ g.reshape(-1)
                sc = float(want.abs().max()); sc = sc if 0 < sc < 1 else max(1.0, sc)
                gi = 0
                for a, s in enumerate(cfg['subset']):
                    if not s: continue
                    gr = grads[gi]; gi += 1
                    if gr is None:
                        return dict(detail='argument %d requires grad but received None' % a)
                    w = want[off[a]:off[a + 1]]
                    ok, msg = tol_close(gr.reshape(-1).numpy(), w.numpy(), sc)
                    if not ok:
                        return dict(detail='argument %d grad != J^T g for cotangent [%s]: %s' % (a, fam, msg))
            return None
    except (RuntimeError, ValueError) as e:
        if mode == 'reflect':
            return None
        return dict(error='%s: %s' % (type(e).__name__, str(e)[:200]))


def lens_of(cfg):
    per = cfg['mode'] == 'periodization'
    out = []
    for N, L in cfg['axes']:
        out.append((level_lengths(N, cfg['J'], L, per), L))
    return out

def afb_bwd_pad(cfg, fail):
    if cfg['dir'] != 'fwd': return False
    if cfg['mode'] in ('symmetric', 'reflect', 'periodic'):
        return any(L > 2 or any(n % 2 for n in ls) for ls, L in lens_of(cfg))
    if cfg['mode'] == 'periodization':
        return any(any(n % 2 for n in ls) for ls, L in lens_of(cfg))
    return False

def sfb_bwd_pad(cfg, fail):
    return cfg['dir'] == 'inv' and cfg['mode'] in ('symmetric', 'reflect', 'periodic') and any(L > 2 for _, L in cfg['axes'])

def per_short_c05(cfg, fail):
    return per_short(cfg)

PREDS = {'afb_bwd_pad': afb_bwd_pad, 'sfb_bwd_pad': sfb_bwd_pad, 'per_short': per_short_c05}
def kf_match(cfg, fail, kf):
    return kf_match_generic(cfg, fail, kf, PREDS)
def kf_witness_fails(f):
    return oracle_run(f['witness']) is not None
replay = dwtfam.std_replay(sys.modules[__name__])
