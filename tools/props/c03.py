"""C03  DTCWT analysis equals the reference dual-tree implementation."""
import numpy as np, torch, itertools, sys
import vlib
from props.common import *
from props import dtfam

ID = 'C03'
GRAD_MODES = True
PROPS_MODULE = 'Props.C03'
THEOREMS = ['C03_colfilter', 'C03_coldfilt', 'C03_rowfilter', 'C03_rowdfilt', 'C03_q2c']
VO = ['theories/Props/C03.vo', 'theories/Run/RunDtcwt.vo', 'theories/Run/RunSpec.vo']
RULE = ('correspondence A: colfilter/rowfilter/coldfilt/rowdfilt full operator matrices (odd/even lengths, both m/2 parities, both flags, rows below the filter length = multiple '
        'reflections, not-multiple-of-4 -> ValueError), q2c, fwd_j1/fwd_j2plus (skip on/off, both pad modes), DTCWTForward with every skip mask and all intermediate lowpasses on sizes of '
        'every residue mod 8 incl. odd; correspondence B: the closed forms of the reference column filters vs dtcwt.numpy.lowlevel on integer data, both sign branches; '
        'oracle: DTCWTForward vs dtcwt.Transform2d for all 20 named pairs, J<=4. distinct by configuration.')
TRUSTED = TRUSTED_COMMON + ['the NumPy dtcwt package as reference: its column filters are represented by hand-derived closed forms (Spec/DtcwtRef.v), tied by correspondence B; its Transform2d level structure by the oracle',
                            'the 1/sqrt2 of q2c is a ring element s in the model; outputs are homogeneous in s and compared after rescaling (rounded within 1e-6)']
ASSUMES = ['theorems cover the column and the row filters (colfilter/rowfilter, coldfilt/rowdfilt) and q2c for all sizes; the orientation bookkeeping, odd-size replication and the pad-to-multiple-of-4 rule are covered by exact correspondence + the reference oracle (and enter C04_pyramid on the model side)',
           'the sign hypothesis linking the highpass flag to the reference branch is discharged for the shipped tables in C18 (qshift_signs)']


def corr_jobs(tier, rng):
    import corr_dtcwt as cd
    q = tier == 'quick'
    cs = cd.cases_linefilter(rng, Ls=(3, 5, 7, 4) if q else (3, 5, 7, 9, 13, 4, 6), sizes=(2, 3, 4, 6, 9) if q else (2, 3, 4, 6, 9, 12, 17))
    cs += cd.cases_dfilt(rng, Ls=(2, 4, 6, 8, 10) if q else (2, 4, 6, 8, 10, 14, 18), sizes=(4, 8, 12, 16) if q else (4, 8, 12, 16, 20, 24))
    cs += cd.cases_q2c(rng)
    cs += [c for c in cd.cases_funcs(rng) if c.entry in (35, 36) and 'backward' not in c.meta['fn']]
    sizes = [(8, 8), (6, 10), (7, 9), (12, 4), (16, 20), (9, 13), (10, 11)] if q else [(h, w) for h in range(4, 20, 3) for w in range(5, 22, 4)]
    cs += [c for c in cd.cases_modules(rng, sizes, Js=(1, 2, 3), absent=False) if c.entry == 39]
    yield dict(name='model_vs_impl', module='Run.RunDtcwt', runner='run_dtcwt', cases=cs, against='impl')
    yield dict(name='spec_vs_reference', module='Run.RunSpec', runner='run_spec', cases=ref_cases(tier, rng), against='dtcwt')


def ref_cases(tier, rng, kinds=('colfilter', 'coldfilt')):
    import dtcwt.numpy.lowlevel as rl
    from corr_dwt import int_filter
    cs = []
    if 'colfilter' in kinds:
        for L in (3, 5, 7, 9, 13):
            h = int_filter(rng, L)
            for r in (2, 3, 4, 7, 10, 16):
                x = rng.integers(-9, 10, size=r).astype(float)
                y = rl.colfilter(x.reshape(-1, 1), h.astype(float)).ravel()
                cs.append(vlib.Case(110, [], [h], [x.reshape(1, 1, 1, r)], (y.reshape(1, 1, 1, -1),), dict(fn='ref.colfilter', L=L, r=r)))
    for m in (2, 4, 6, 8, 10, 14, 18):
        for pos in (1, 0):
            while True:
                ha, hb = int_filter(rng, m), int_filter(rng, m)
                if (np.sum(ha * hb) > 0) == bool(pos): break
            if 'coldfilt' in kinds:
                for r in (4, 8, 12, 20):
                    x = rng.integers(1, 10, size=r).astype(float)
                    y = rl.coldfilt(x.reshape(-1, 1), ha.astype(float), hb.astype(float)).ravel()
                    cs.append(vlib.Case(111, [pos], [ha, hb], [x.reshape(1, 1, 1, r)], (y.reshape(1, 1, 1, -1),), dict(fn='ref.coldfilt', m=m, r=r, pos=pos)))
            if 'colifilt' in kinds:
                for r in (2, 4, 6, 10):
                    x = rng.integers(1, 10, size=r).astype(float)
                    y = rl.colifilt(x.reshape(-1, 1), ha.astype(float), hb.astype(float)).ravel()
                    cs.append(vlib.Case(112, [pos], [ha, hb], [x.reshape(1, 1, 1, r)], (y.reshape(1, 1, 1, -1),), dict(fn='ref.colifilt', m=m, r=r, pos=pos)))
    return cs


def oracle_cases(tier, rng):
    sizes = [(8, 8), (16, 12), (7, 9), (10, 13), (20, 6), (5, 5), (12, 18), (32, 32), (9, 16)]
    for (b, q) in dtfam.PAIRS:
        for J in ((1, 2, 3) if tier == 'quick' else (1, 2, 3, 4, 5)):
            for hw in (sizes if tier == 'thorough' else [sizes[i] for i in rng.choice(len(sizes), 3, replace=False)]):
                yield dict(biort=b, qshift=q, J=J, H=hw[0], W=hw[1], seed=int(rng.integers(1 << 30)))


    # many channels / batch items: a code path chosen by the channel or batch count must compute the same transform
    for (b, q) in (dtfam.PAIRS[0], dtfam.PAIRS[7]):
        for (nb, C) in ((1, 70), (1, 130), (9, 2)):
            yield dict(biort=b, qshift=q, J=2, H=8, W=12, nb=nb, C=C, seed=int(rng.integers(1 << 30)))


def strat_key(cfg):
    return '%s/%s/J%d/%d%d%s' % (cfg['biort'], cfg['qshift'], cfg['J'], cfg['H'] % 4, cfg['W'] % 4, '/C%d' % cfg['C'] if cfg.get('C') else '')


def oracle_run(cfg):
    from pytorch_wavelets import DTCWTForward
    r = np.random.default_rng(cfg['seed'])
    X = r.standard_normal((cfg.get('nb', 1), cfg.get('C', 2), cfg['H'], cfg['W']))
    try:
        yl, yh = DTCWTForward(biort=cfg['biort'], qshift=cfg['qshift'], J=cfg['J'])(torch.tensor(X))
    except Exception as e:
        return dict(error='%s: %s' % (type(e).__name__, str(e)[:200]))
    rl, rh = dtfam.ref_forward(X, cfg['biort'], cfg['qshift'], cfg['J'])
    sc = dtfam.filt_gain(cfg['biort'], cfg['qshift'], cfg['J'])
    ok, msg = tol_close(yl.numpy(), rl, sc)
    if not ok:
        return dict(detail='lowpass: ' + msg)
    for j in range(cfg['J']):
        ok, msg = tol_close(yh[j].numpy(), rh[j], sc)
        if not ok:
            return dict(detail='level %d subbands: %s' % (j + 1, msg))
    if cfg['seed'] % 3 == 0:
        mk = lambda dt: (lambda a, m=DTCWTForward(biort=cfg['biort'], qshift=cfg['qshift'], J=cfg['J']).to(dt): m(a[0]))
        msg = pow2_homog(mk, [torch.tensor(X)])
        if msg:
            return dict(detail=msg)
    return None


def kf_match(cfg, fail, kf):
    return None
def kf_witness_fails(f):
    return oracle_run(f['witness']) is not None
replay = dtfam.std_replay(sys.modules[__name__])
