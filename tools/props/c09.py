"""C09  Scattering layers back-propagate the true gradient, finite everywhere."""
import numpy as np, torch, itertools, sys
import vlib
from props.common import *
from props import dtfam

ID = 'C09'
PROPS_MODULE = 'Props.C09'
THEOREMS = ['C09_smag_dx', 'C09_smag_dy', 'C09_smag3_dx', 'C09_finite', 'C09_zero_image', 'C09_avgpool_adjoint', 'C09_scat_j1_vjp', 'C09_cot_plane', 'C09_scat_j1_vjp_colour', 'C09_scat_j2_vjp', 'C09_linmag_entry', 'C09_scat_j2_forward_total']
VO = ['theories/Props/C09.vo', 'theories/Props/C06.vo', 'theories/Run/RunScat.vo']
RULE = ('correspondence A: the hand-written backward passes of ScatLayerj1_f / ScatLayerj1_rot_f / ScatLayerj2_f / ScatLayerj2_rot_f (through torch.autograd.grad) and SmoothMagFn '
        '(value and both partials) vs the PrimFloat backward model (phase factors re/r, im/r, cotangent slicing, 1/4 upsampling, inverse stages with the a<->b exchange), '
        'stratified inputs (gaussian, all-zero, spike 1e3, 1e-6 scaled, constant), both families, colour on/off, biases 1e-2 and 0.5, tolerance scaled; '
        'oracle: directional derivative <x.grad, v> vs central finite differences of <g, Z(x)>, finiteness of every gradient entry (zero image included), SmoothMagFn with each subset of differentiable inputs.')
TRUSTED = TRUSTED_COMMON + ['PrimFloat primitives for the float instance of the model', 'real-number axioms + classical logic via Coquelicot (see Print Assumptions)',
                            'the multivariate chain rule (that reverse-mode composition of the stage derivatives is the gradient of the composite) is taken as standard mathematics, not re-proved']
ASSUMES = ['theorems: the saved factors are the partial derivatives of the smooth magnitude and are bounded by 1 for every input when the bias is non-zero (0 at the zero image); the pooling stage adjoint; '
           'the WHOLE backward pass of the first-order layer (greyscale, plain family) is the adjoint of the phase-weighted linearisation of the forward pass for every input, direction and cotangent (C09_scat_j1_vjp, from the level-1 DTCWT adjoint C06_level1_adjoint and the pooling adjoint). the same for the colour combination (C09_scat_j1_vjp_colour) and for the whole SECOND-ORDER layer, greyscale plain family (C09_scat_j2_vjp: three level adjoints chained with the pooling adjoint and the pointwise identity that moves the phases from the direction to the cotangent). PARTIAL: that this linearisation is the derivative (chain rule) is the standard step not re-proved; the band-pass (_bp) family and the colour second-order layer are tied to the code by float correspondence and checked against finite differences']


def corr_jobs(tier, rng):
    import corr_scat as cs
    q = tier == 'quick'
    fc = [c for c in cs.cases_float(rng, [(4, 4), (6, 8)], [(8, 8), (16, 8)] if q else [(8, 8), (16, 8), (16, 24)], backward=True) if c.entry in (62, 63, 64)]
    yield dict(name='backward_float', module='Run.RunScat', runner='run_scatf', cases=fc, against='impl', float=True)


def oracle_cases(tier, rng):
    fams = [('near_sym_a', 'qshift_a'), ('near_sym_b_bp', 'qshift_b_bp')] + ([('near_sym_b', 'qshift_b'), ('antonini', 'qshift_c')] if tier == 'thorough' else [])
    for (b, q) in fams:
        for colour in (0, 1):
            for bias in (1e-3, 1e-2, 0.5):
                for kind in ('gauss', 'zero', 'spike', 'tiny'):
                    for layer, hw in ((1, (8, 8)), (1, (6, 10)), (1, (7, 5)), (2, (8, 8)), (2, (16, 8)), (2, (11, 9))):
                        if tier == 'quick' and layer == 2 and hw != (8, 8) and kind in ('spike', 'tiny'): continue
                        yield dict(layer=layer, biort=b, qshift=q, colour=colour, bias=bias, kind=kind, H=hw[0], W=hw[1], seed=int(rng.integers(1 << 30)))
    # the first-order layer also takes mode='zero' (anything but 'symmetric' is zero padding): forward and backward must use the same one
    for (b, q) in fams[:2]:
        for colour in (0, 1):
            for hw in ((8, 8), (6, 10), (12, 20)):
                yield dict(layer=1, biort=b, qshift=q, colour=colour, bias=1e-2, kind='gauss', H=hw[0], W=hw[1], mode='zero', seed=int(rng.integers(1 << 30)))
    # a small bias with coefficients of the same small size: the phase re/r, im/r must not be regularised beyond the bias itself
    for (b, q) in fams[:2]:
        for colour in (0, 1):
            for bias in (1e-4, 1e-5):
                for kind in ('small', 'tiny'):
                    yield dict(layer=1, biort=b, qshift=q, colour=colour, bias=bias, kind=kind, H=8, W=8, seed=int(rng.integers(1 << 30)))
                    if kind == 'small':
                        yield dict(layer=2, biort=b, qshift=q, colour=colour, bias=bias, kind=kind, H=8, W=8, seed=int(rng.integers(1 << 30)))
    # scale covariance: sqrt(|s z|^2 + (s b)^2) - s b = s (sqrt(|z|^2 + b^2) - b) and the filters are linear, so the layer with bias
    # s*b at the image s*x is s times the layer with bias b at x, and the two back-propagated gradients are EQUAL (exactly, for s a
    # power of two): small biases on faint images and large ones on bright images are the same gradient as the ordinary case
    for (b, q) in fams[:2]:
        for colour in (0, 1):
            for layer in (1, 2):
                for e in (-23, -60, 20):
                    yield dict(layer=layer, biort=b, qshift=q, colour=colour, bias=0.125, kind='gauss', H=8, W=8, covar=e, seed=int(rng.integers(1 << 30)))
    for bias in (1e-3, 0.5):
        for sub in ((1, 0), (0, 1), (1, 1)):
            yield dict(layer=0, biort='-', qshift='-', colour=0, bias=bias, kind='smag', H=4, W=4, subset=list(sub), seed=int(rng.integers(1 << 30)))


def strat_key(cfg):
    return 'L%d/%s/c%d/b%g/%s%s' % (cfg['layer'], cfg['biort'], cfg['colour'], cfg['bias'], cfg['kind'], '/' + cfg['mode'] if cfg.get('mode') else '') + ('/covar%d' % cfg['covar'] if cfg.get('covar') else '')


def oracle_run(cfg):
    from pytorch_wavelets.scatternet import ScatLayer, ScatLayerj2
    from pytorch_wavelets.scatternet.lowlevel import SmoothMagFn
    import corr_scat as cs
    r = np.random.default_rng(cfg['seed'])
    b = cfg['bias']
    try:
        if cfg['layer'] == 0:
            x = torch.tensor(r.standard_normal((3, 4)), requires_grad=bool(cfg['subset'][0]))
            y = torch.tensor(r.standard_normal((3, 4)), requires_grad=bool(cfg['subset'][1]))
            with torch.no_grad():
                x[0, 0] = 0.0; y[0, 0] = 0.0
            out = SmoothMagFn.apply(x, y, b)
            g = torch.tensor(r.standard_normal((3, 4)))
            req = [t for t in (x, y) if t.requires_grad]
            grads = torch.autograd.grad([out], req, [g])
            rr = torch.sqrt(x.detach() ** 2 + y.detach() ** 2 + b * b)
            want = [x.detach() / rr * g, y.detach() / rr * g]
            want = [w for w, t in zip(want, (x, y)) if t.requires_grad]
            for gr, w in zip(grads, want):
                if not torch.isfinite(gr).all():
                    return dict(detail='non-finite gradient of SmoothMagFn')
                if float((gr - w).abs().max()) > 1e-12:
                    return dict(detail='SmoothMagFn gradient differs from x/r * g')
            return None
        C = 3 if cfg['colour'] else 2
        X = cs.gen_input(r, (1, C, cfg['H'], cfg['W']), cfg['kind'])
        lay = (ScatLayer(biort=cfg['biort'], magbias=b, combine_colour=bool(cfg['colour']), mode=cfg.get('mode', 'symmetric')) if cfg['layer'] == 1 else
               ScatLayerj2(biort=cfg['biort'], qshift=cfg['qshift'], magbias=b, combine_colour=bool(cfg['colour']))).double()
        x = torch.tensor(X, requires_grad=True)
        Z = lay(x)
        if cfg.get('covar'):
            s = 2.0 ** cfg['covar']
            lay_s = (ScatLayer(biort=cfg['biort'], magbias=b * s, combine_colour=bool(cfg['colour'])) if cfg['layer'] == 1 else
                     ScatLayerj2(biort=cfg['biort'], qshift=cfg['qshift'], magbias=b * s, combine_colour=bool(cfg['colour']))).double()
            xs = torch.tensor(X * s, requires_grad=True)
            Zs = lay_s(xs)
            g = torch.tensor(r.standard_normal(tuple(Z.shape)))
            ga, = torch.autograd.grad([Z], [x], [g]); gb, = torch.autograd.grad([Zs], [xs], [g])
            if not torch.isfinite(gb).all():
                return dict(detail='non-finite gradient at scale 2^%d' % cfg['covar'])
            d = float((ga - gb).abs().max())
            if d > 1e-10 * max(1.0, float(ga.abs().max())):
                return dict(detail='gradient of the layer with bias 2^%d*b at 2^%d*x differs from that of the layer with bias b at x by %.3g (they are equal)' % (cfg['covar'], cfg['covar'], d))
            return None
        sc = max(1.0, float(np.abs(X).max()))
        for fam, (g,) in cot_families(r, [Z.shape]):
            if fam.startswith('randn *'): continue          # the finite-difference tolerance below has an absolute floor
            gx, = torch.autograd.grad([Z], [x], [g], retain_graph=True)
            if not torch.isfinite(gx).all():
                return dict(detail='non-finite gradient entries: %d (cotangent [%s])' % (int((~torch.isfinite(gx)).sum()), fam))
            for t in range(3 if fam == 'randn' else 1):
                v = torch.tensor(r.standard_normal(X.shape))
                eps = 1e-6 * sc if cfg['kind'] != 'tiny' else 1e-9
                if b > 0: eps = min(eps, 1e-2 * b)
                def cdiff(e):
                    with torch.no_grad():
                        f1 = float((lay(torch.tensor(X) + e * v) * g).sum()); f0 = float((lay(torch.tensor(X) - e * v) * g).sum())
                    return (f1 - f0) / (2 * e), abs(f1) + abs(f0)
                d1, m1 = cdiff(eps); d2, m2 = cdiff(eps / 2)
                fd = (4 * d2 - d1) / 3                       # Richardson; |d2 - d1| estimates the truncation error of d2 (x3)
                an = float((gx * v).sum())
                tol = 1e-5 * (abs(fd) + abs(an) + 1.0) + 4 * abs(d2 - d1) + 1e-13 * (m1 + m2) / eps
                if abs(fd - an) > tol:
                    return dict(detail='directional derivative, cotangent [%s]: backprop %.10g vs finite difference %.10g (tol %.3g)' % (fam, an, fd, tol))
        return None
    except Exception as e:
        return dict(error='%s: %s' % (type(e).__name__, str(e)[:200]))


def kf_match(cfg, fail, kf):
    return None
def kf_witness_fails(f):
    return oracle_run(f['witness']) is not None
replay = dtfam.std_replay(sys.modules[__name__])
