"""C08  Scattering layers compute the defined DTCWT scattering coefficients."""
import numpy as np, torch, itertools, sys
import vlib
from props.common import *
from props import dtfam

ID = 'C08'
GRAD_MODES = True
PROPS_MODULE = 'Props.C08'
THEOREMS = ['C08_nonneg', 'C08_nonneg_colour', 'C08_ext8_rows', 'C08_ext8_cols', 'C08_ext8_size2_refuted', 'C08_j1_layout']
VO = ['theories/Props/C08.vo', 'theories/Run/RunScat.vo']
RULE = ('correspondence A (exact): both layers, both filter families (plain and band-pass rot variants), colour on/off, integer filters and inputs with torch.sqrt replaced by the identity '
        'in the harness process: every output channel is then an exact integer (after the known 2^k of the 1/sqrt2 and 1/4 factors) and is compared with the model over Z - pins channel order, '
        'views, size extension (sizes of several residues mod 8, odd sizes), error kinds; correspondence A (values): real tables, real sqrt, PrimFloat model, tolerance 1e-9*scale; '
        'oracle: layer output vs composition of the reference dtcwt package with the formulas, output shapes for every H,W in a range, non-negativity. distinct by configuration.')
TRUSTED = TRUSTED_COMMON + ['PrimFloat primitives (sqrt, div) for the float instance of the model - evaluation only, no theorem depends on them',
                            'real-number axioms of the standard library for C08_nonneg (see Print Assumptions)']
ASSUMES = ['theorems: non-negativity (reals), the multiple-of-8 extension for every size >= 3 (size 2 refuted = KF-J2-SIZE2), band-major channel layout of the first-order layer; '
           'the value claim "equals reference DTCWT composed with the formulas" is decided by the exact structural correspondence + float correspondence + the reference-composition oracle',
           'ScatLayerj2 only supports mode="symmetric" (coldfilt raises NotImplementedError otherwise); modelled as that error']


def corr_jobs(tier, rng):
    import corr_scat as cs
    q = tier == 'quick'
    yield dict(name='structure_exact_sqrt_identity', module='Run.RunScat', runner='run_scatz',
               cases=cs.cases_exact(rng, [(4, 4), (6, 8), (5, 7)] if q else [(4, 4), (6, 8), (5, 7), (2, 6), (9, 4), (12, 10)],
                                    [(8, 8), (16, 8), (5, 9)] if q else [(8, 8), (16, 8), (5, 9), (3, 12), (10, 7), (24, 8)]), against='impl')
    fc = [c for c in cs.cases_float(rng, [(4, 4), (6, 8), (5, 7)], [(8, 8), (16, 8)] if q else [(8, 8), (16, 8), (16, 24)], backward=False) if c.entry in (60, 61)]
    yield dict(name='values_float', module='Run.RunScat', runner='run_scatf', cases=fc, against='impl', float=True)


def oracle_cases(tier, rng):
    fams = [('near_sym_a', 'qshift_a', 0), ('near_sym_b', 'qshift_b', 0), ('near_sym_b_bp', 'qshift_b_bp', 1)] + ([('antonini', 'qshift_c', 0), ('legall', 'qshift_06', 0)] if tier == 'thorough' else [])
    for (b, q, rot) in fams:
        for colour in (0, 1):
            for bias in (0.0, 1e-2, 0.5) + ((10.0,) if tier == 'thorough' else ()):
                for kind in ('gauss', 'zero', 'spike'):
                    for hw in [(8, 8), (16, 12), (6, 10), (7, 9), (15, 16)]:
                        yield dict(layer=1, check='ref', biort=b, qshift=q, colour=colour, bias=bias, kind=kind, H=hw[0], W=hw[1], seed=int(rng.integers(1 << 30)))
                    # sizes = 7 mod 8 need ONE extra row/column: there the extension must be the reference's own odd-size rule (repeat the last one)
                    for hw in [(8, 8), (16, 24)] + ([(7, 8), (8, 15), (15, 7)] if kind == 'gauss' and bias == 1e-2 else []):
                        if b in ('near_sym_a', 'near_sym_b_bp'):
                            yield dict(layer=2, check='ref', biort=b, qshift=q, colour=colour, bias=bias, kind=kind, H=hw[0], W=hw[1], seed=int(rng.integers(1 << 30)))
    # the second-order layer with EVERY q-shift family (qshift_06 is stored zero padded) and every plain biort
    for q in ('qshift_06', 'qshift_a', 'qshift_b', 'qshift_c', 'qshift_d'):
        for b in (('near_sym_a', 'legall') if tier == 'quick' else ('near_sym_a', 'legall', 'antonini', 'near_sym_b')):
            for colour in ((0,) if tier == 'quick' else (0, 1)):
                yield dict(layer=2, check='ref', biort=b, qshift=q, colour=colour, bias=1e-2, kind='gauss', H=16, W=24, seed=int(rng.integers(1 << 30)))
    for H in range(2, 20 if tier == 'quick' else 40):
        for W in (8, 9, 13):
            yield dict(layer=1, check='shape', biort='near_sym_a', qshift='qshift_a', colour=0, bias=1e-2, kind='gauss', H=H, W=W, seed=int(rng.integers(1 << 30)))
            yield dict(layer=2, check='shape', biort='near_sym_a', qshift='qshift_a', colour=0, bias=1e-2, kind='gauss', H=H, W=W, seed=int(rng.integers(1 << 30)))


def strat_key(cfg):
    return 'L%d/%s/%s/c%d/b%g/%s' % (cfg['layer'], cfg['check'], cfg['biort'], cfg['colour'], cfg['bias'], cfg['kind'] if cfg['check'] == 'ref' else 'H%d' % (cfg['H'] % 8))


def gen(cfg, r, C):
    import corr_scat as cs
    return cs.gen_input(r, (2, C, cfg['H'], cfg['W']), cfg['kind'])


def ref_j1(X, cfg):
    """(N, 7C | 9, H/2, W/2) from the reference package"""
    b = cfg['bias']
    lo, hs = dtfam.ref_forward(X, cfg['biort'], cfg['qshift'], 1)
    N, C = X.shape[:2]
    lp = 0.25 * (lo[..., 0::2, 0::2] + lo[..., 0::2, 1::2] + lo[..., 1::2, 0::2] + lo[..., 1::2, 1::2])
    h = hs[0]                                  # (N,C,6,h,w,2)
    if cfg['colour']:
        m = np.sqrt((h ** 2).sum(axis=(1, 5)) + b * b) - b          # (N,6,h,w)
        return np.concatenate([lp, m], axis=1), m
    m = np.sqrt((h ** 2).sum(axis=5) + b * b) - b                   # (N,C,6,h,w)
    m = np.moveaxis(m, 2, 1)                                        # (N,6,C,h,w)
    return np.concatenate([lp[:, None], m], axis=1).reshape(N, 7 * C, *lp.shape[-2:]), m.reshape(N, 6 * C, *m.shape[-2:])


def oracle_run(cfg):
    from pytorch_wavelets.scatternet import ScatLayer, ScatLayerj2
    r = np.random.default_rng(cfg['seed'])
    C = 3 if cfg['colour'] else 2
    X = gen(cfg, r, C)
    b = cfg['bias']
    H, W = cfg['H'], cfg['W']
    try:
        if cfg['layer'] == 1:
            lay = ScatLayer(biort=cfg['biort'], magbias=b, combine_colour=bool(cfg['colour'])).double()
        else:
            lay = ScatLayerj2(biort=cfg['biort'], qshift=cfg['qshift'], magbias=b, combine_colour=bool(cfg['colour'])).double()
        Z = lay(torch.tensor(X)).numpy()
    except Exception as e:
        return dict(error='%s: %s' % (type(e).__name__, str(e)[:200]))
    nl = 3 if cfg['colour'] else C
    if not np.isfinite(Z).all():
        return dict(detail='non-finite output')
    # magnitude channels: layer 1: every band after the lowpass; layer 2: the level-2 first-order band and the second-order bands
    # (the level-1 first-order band of layer 2 is a lowpass-filtered, pooled magnitude and may dip below zero)
    C1 = 6 if cfg['colour'] else 6 * C
    mag = Z[:, nl:] if cfg['layer'] == 1 else Z[:, nl + C1:]
    if float(mag.min()) < -1e-12 * max(1.0, np.abs(X).max()):
        return dict(detail='negative magnitude channel: %g' % float(mag.min()))
    if cfg['check'] == 'shape':
        if cfg['layer'] == 1:
            want = (2, 7 * C, (H + 1) // 2, (W + 1) // 2)
        else:
            want = (2, 49 * C, -(-H // 8) * 2, -(-W // 8) * 2)
        if tuple(Z.shape) != want:
            return dict(detail='shape %s, documented %s' % (tuple(Z.shape), want))
        return None
    sc = max(1.0, float(np.abs(X).max())) * dtfam.filt_gain(cfg['biort'], cfg['qshift'], 2) + b
    if cfg['layer'] == 1:
        want, _ = ref_j1(X, cfg)
        ok, msg = tol_close(Z, want, sc)
        return None if ok else dict(detail='differs from reference DTCWT + formulas: ' + msg)
    # second order: two-scale cascade from the reference package
    if H % 8 == 7: X = np.concatenate([X, X[..., -1:, :]], axis=-2)
    if W % 8 == 7: X = np.concatenate([X, X[..., :, -1:]], axis=-1)
    if X.shape[-2] % 8 or X.shape[-1] % 8:
        return None
    N = X.shape[0]
    lo2, hs2 = dtfam.ref_forward(X, cfg['biort'], cfg['qshift'], 2)
    s0 = 0.25 * (lo2[..., 0::2, 0::2] + lo2[..., 0::2, 1::2] + lo2[..., 1::2, 0::2] + lo2[..., 1::2, 1::2])
    _, s1_j1 = ref_j1(X, cfg)                     # (N, 6C | 6, H/2, W/2), channel o*C + c
    h2 = hs2[1]
    if cfg['colour']:
        s1_j2 = np.sqrt((h2 ** 2).sum(axis=(1, 5)) + b * b) - b
    else:
        s1_j2 = np.moveaxis(np.sqrt((h2 ** 2).sum(axis=5) + b * b) - b, 2, 1).reshape(N, 6 * C, *h2.shape[3:5])
    cfg2 = dict(cfg); cfg2['colour'] = 0
    z2, m2 = ref_j1(s1_j1, cfg2)                  # z2: (N, 7*C1, ...) band-major over C1 = channels of s1_j1
    C1 = s1_j1.shape[1]
    s1_j1b = z2[:, :C1]; s2_j1 = z2[:, C1:]
    want = np.concatenate([s0, s1_j1b, s1_j2, s2_j1], axis=1)
    if Z.shape != want.shape:
        return dict(detail='shape %s vs reference composition %s' % (Z.shape, want.shape))
    ok, msg = tol_close(Z, want, sc * 10)
    return None if ok else dict(detail='differs from the reference two-scale cascade: ' + msg)


def j2_size2(cfg, fail):
    return cfg['layer'] == 2 and (cfg['H'] == 2 or cfg['W'] == 2)
PREDS = {'j2_size2': j2_size2}
def kf_match(cfg, fail, kf):
    return kf_match_generic(cfg, fail, kf, PREDS)
def kf_witness_fails(f):
    return oracle_run(f['witness']) is not None
replay = dtfam.std_replay(sys.modules[__name__])
