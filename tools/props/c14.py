"""C14  Separate row and column filters act on the axis they are named for."""
import numpy as np, torch, pywt, itertools, sys
import vlib, corr_dwt as cd
from props.common import *
from props import dwtfam, c01

ID = 'C14'
GRAD_MODES = True
PROPS_MODULE = 'Props.C14'
THEOREMS = ['C14_forward_is_functional', 'C14_inverse_is_functional', 'C14_row_pair_on_last_axis', 'C14_forward_per_axis', 'C14_inverse_per_axis']
VO = ['theories/Props/C14.vo', 'theories/Run/RunDwt.vo']
RULE = ('correspondence A: DWTForward/DWTInverse built from a 4-tuple whose column and row filters have DIFFERENT lengths (so an exchanged pair '
        'changes shapes as well as values), and from a 2-tuple, buffers read back by name and checked against the constructor order; '
        'AFB2D/SFB2D and functional afb2d/sfb2d on the same filters; oracle: 4-tuple modules vs pywt.wavedec2/waverec2 with one wavelet per axis '
        'and vs lowlevel.afb2d/sfb2d; 4-tuples whose row and column banks share the lowpass or the highpass but differ in the other filter (sign / reversal variants) vs pywt with custom wavelets. distinct by (entry, Lr, Lc, HxW, mode, J).')
TRUSTED = TRUSTED_COMMON
ASSUMES = ['which buffer the module hands to which parameter of the Function is pinned by the exact correspondence (row/column filters of different lengths) and the oracle; the theorems relate the Function to the functional bank and the row pass to the last axis']


def corr_jobs(tier, rng):
    modes = list(cd.MODES)
    LL = [(2, 4), (4, 2), (4, 6), (6, 2)] if tier == 'quick' else [(2, 4), (4, 2), (4, 6), (6, 2), (8, 4), (2, 10)]
    cs = cd.cases_modules_2d(rng, LL, lambda a, b: [(3, 4), (5, 7), (8, 8), (9, 12), (13, 6), (2 * a + 1, 2 * b)], modes, Js=(1, 2), four=True, none_masks=True)
    cs += cd.cases_modules_2d(rng, [(2, 4), (2, 6)], lambda a, b: [(5, 8), (9, 7)], modes, Js=(1, 2), four=False)
    # 4-tuples whose row and column banks share one filter (same lowpass / same highpass) but differ in the other
    for sh in ('low', 'high'):
        cs += cd.cases_modules_2d(rng, [(4, 4), (2, 2)] if tier == 'quick' else [(4, 4), (2, 2), (6, 6)], lambda a, b: [(5, 8), (8, 8)], modes, Js=(1, 2), four=True, share=sh)
    cs += cd.cases_functions_2d(rng, LL[:3], lambda a, b: [(5, 8), (8, 5), (7, 7)], modes, NC=((1, 2),))
    cs += [c for c in cd.cases_nonsep(rng, [(2, 4), (4, 6)], lambda a, b: [(6, 9), (9, 12)]) if c.entry in (18, 19)]
    yield dict(name='model_vs_impl', module='Run.RunDwt', runner='run_dwt', cases=cs, against='impl')


def oracle_cases(tier, rng):
    mixed = [('db2', 'db4'), ('db4', 'sym4'), ('bior2.4', 'db3'), ('haar', 'bior1.3'), ('coif1', 'rbio2.2'), ('db3', 'haar')]
    for (wc, wr) in (mixed if tier == 'thorough' else mixed[:5]):
        Lc, Lr = pywt.Wavelet(wc).dec_len, pywt.Wavelet(wr).dec_len
        for mode in MODES5:
            for J in (1, 2):
                for (H, W) in [(2 * Lc + 1, 2 * Lr + 2), (4 * Lc, 4 * Lr + 1), (16, 23), (12, 16)]:
                    for chk in ('fwd', 'inv', 'functional', 'inv_none'):
                        if chk == 'functional' and (J > 1 or mode == 'periodic'):
                            continue
                        yield dict(kind='2d', check=chk, wave=wc, wave_row=wr, mode=mode, J=J, H=H, W=W, nb=1, C=2, axes=[(H, Lc), (W, Lr)], seed=int(rng.integers(1 << 30)))
    for wn in ['db2', 'bior2.4']:
        L = pywt.Wavelet(wn).dec_len
        for mode in MODES5:
            yield dict(kind='2d', check='two', wave=wn, mode=mode, J=1, H=13, W=10, nb=1, C=1, axes=[(13, L), (10, L)], seed=int(rng.integers(1 << 30)))
    # the row bank shares its lowpass (or its highpass) with the column bank but differs in the other filter: still four independent filters
    for wn in ['db2', 'sym4', 'bior2.2'] if tier == 'quick' else ['db2', 'db3', 'sym4', 'bior2.2', 'coif1', 'haar']:
        L = pywt.Wavelet(wn).dec_len
        for variant in ('neg_high', 'rev_high', 'neg_low'):
            for mode in (MODES5 if tier == 'thorough' else ['zero', 'symmetric', 'periodization']):
                for J in (1, 2):
                    yield dict(kind='2d', check='shared', wave=wn, variant=variant, mode=mode, J=J, H=12, W=18, nb=1, C=2, axes=[(12, L), (18, L)], seed=int(rng.integers(1 << 30)))


def strat_key(cfg):
    return '%s/%s/%s/%s/J%d' % (cfg['check'], cfg['wave'], cfg.get('wave_row') or cfg.get('variant'), cfg['mode'], cfg['J'])


def oracle_run(cfg):
    from pytorch_wavelets.dwt.transform2d import DWTForward, DWTInverse
    import pytorch_wavelets.dwt.lowlevel as ll
    r = np.random.default_rng(cfg['seed'])
    mode, J = cfg['mode'], cfg['J']
    X = r.standard_normal((cfg['nb'], cfg['C'], cfg['H'], cfg['W']))
    chk = cfg['check']
    try:
        if chk == 'fwd':
            return c01.oracle_run(cfg)
        wc = pywt.Wavelet(cfg['wave']); wr = pywt.Wavelet(cfg.get('wave_row') or cfg['wave'])
        if chk == 'two':
            a = DWTForward(J=1, wave=(wc.dec_lo, wc.dec_hi), mode=mode)(torch.tensor(X))
            b = DWTForward(J=1, wave=(wc.dec_lo, wc.dec_hi, wc.dec_lo, wc.dec_hi), mode=mode)(torch.tensor(X))
            c = DWTForward(J=1, wave=cfg['wave'], mode=mode)(torch.tensor(X))
            d = DWTForward(J=1, wave=wc, mode=mode)(torch.tensor(X))                      # a pywt.Wavelet object
            e = DWTForward(J=1, wave=(np.array(wc.dec_lo), np.array(wc.dec_hi)), mode=mode)(torch.tensor(X))
            for u, v in ((a, b), (a, c), (a, d), (a, e)):
                if not (torch.equal(u[0], v[0]) and torch.equal(u[1][0], v[1][0])):
                    return dict(detail='2-tuple / name / Wavelet object / array / repeated 4-tuple constructions disagree')
            # the same for the inverse
            ia = DWTInverse(wave=(wc.rec_lo, wc.rec_hi), mode=mode)(a)
            for w in ((wc.rec_lo, wc.rec_hi, wc.rec_lo, wc.rec_hi), cfg['wave'], wc, (np.array(wc.rec_lo), np.array(wc.rec_hi))):
                if not torch.equal(ia, DWTInverse(wave=w, mode=mode)(a)):
                    return dict(detail='inverse: 2-tuple / name / Wavelet object / array / repeated 4-tuple constructions disagree')
            return None
        if chk == 'shared':
            lo, hi, rlo, rhi = [np.array(f) for f in wc.filter_bank]
            v = cfg['variant']
            if v == 'neg_high': row = (lo, -hi, rlo, -rhi)
            elif v == 'rev_high': row = (lo, hi[::-1].copy(), rlo, rhi[::-1].copy())
            else: row = (-lo, hi, -rlo, rhi)
            wrow = pywt.Wavelet('row_' + v, filter_bank=[list(f) for f in row])
            want = pywt.wavedec2(X, (wc, wrow), mode=mode, level=J, axes=(-2, -1))
            yl, yh = DWTForward(J=J, wave=(lo, hi, row[0], row[1]), mode=mode)(torch.tensor(X))
            sc = dwtfam.gain(cfg['wave'], J, 2) ** 2
            ok, msg = tol_close(yl.numpy(), want[0], sc)
            if not ok: return dict(detail='shared-filter 4-tuple: lowpass differs from pywt with one wavelet per axis: ' + msg)
            for j in range(J):
                got = yh[j].numpy(); ref_j = np.stack(want[J - j], axis=2)
                if got.shape != ref_j.shape: return dict(detail='shared-filter 4-tuple: level %d shape %s vs %s' % (j + 1, got.shape, ref_j.shape))
                ok, msg = tol_close(got, ref_j, sc)
                if not ok: return dict(detail='shared-filter 4-tuple (%s): level %d differs from pywt with one wavelet per axis: %s' % (v, j + 1, msg))
            if v != 'rev_high':       # the reversed highpass is not a reconstructing pair; the sign variants are
                z = DWTInverse(wave=(rlo, rhi, row[2], row[3]), mode=mode)((yl, yh)).numpy()
                ok, msg = tol_close(z[..., :cfg['H'], :cfg['W']], X, sc)
                if not ok: return dict(detail='shared-filter 4-tuple (%s): inverse does not reconstruct: %s' % (v, msg))
            return None
        ref = pywt.wavedec2(X, c01.pywt_arg(cfg), mode=mode, level=J, axes=(-2, -1))
        if chk == 'inv_none':
            # a None level must act like zeros of that level, with the filters still on their own axes:
            # compare with PyWavelets given explicit zeros (level shapes are even here, so no oversize lowpass)
            yl = torch.tensor(ref[0]); yh = [torch.tensor(np.stack(t, axis=2)) for t in ref[1:]][::-1]
            k = cfg['seed'] % J
            from props import c10
            if c10.none_oversize(dict(cfg, none=[1 if j == k else 0 for j in range(J)]), None) or per_short(cfg):
                return None          # region of C10's known finding KF-NONE-OVERSIZE / KF-PER-SHORT: not an axis question
            yh_in = [None if j == k else h for j, h in enumerate(yh)]
            got = DWTInverse(wave=c01.wave_arg(cfg, 'rec'), mode=mode)((yl, yh_in)).numpy()
            ref2 = [ref[0]] + [tuple(np.zeros_like(a) for a in t) if (J - 1 - i) == k else t for i, t in enumerate(ref[1:])]
            want = pywt.waverec2(ref2, c01.pywt_arg(cfg), mode=mode, axes=(-2, -1))
            H, W = cfg['H'], cfg['W']
            if got.shape[-2] < H or got.shape[-1] < W:
                return dict(detail='inverse with a None level: shape %s smaller than the extent' % (got.shape,))
            ok, msg = tol_close(got[..., :H, :W], want[..., :H, :W], dwtfam.gain(cfg['wave'], J, 2) * dwtfam.gain(cfg['wave_row'], J, 2))
            return None if ok else dict(detail='inverse with a None level differs from pywt with zeros on the extent: ' + msg)
        if chk == 'inv':
            yl = torch.tensor(ref[0]); yh = [torch.tensor(np.stack(t, axis=2)) for t in ref[1:]][::-1]
            got = DWTInverse(wave=c01.wave_arg(cfg, 'rec'), mode=mode)((yl, yh)).numpy()
            want = pywt.waverec2(ref, c01.pywt_arg(cfg), mode=mode, axes=(-2, -1))
            if got.shape != want.shape:
                return dict(detail='inverse shape %s, PyWavelets %s' % (got.shape, want.shape))
            # PyWavelets' own deviation from X bounds what "equal" can mean here
            ok, msg = tol_close(got, want, dwtfam.gain(cfg['wave'], J, 2) * dwtfam.gain(cfg['wave_row'], J, 2))
            return None if ok else dict(detail='inverse differs from pywt.waverec2 with one wavelet per axis: ' + msg)
        if chk == 'functional':
            filts = (wc.dec_lo, wc.dec_hi, wr.dec_lo, wr.dec_hi)
            y = ll.afb2d(torch.tensor(X), [np.array(f) for f in filts], mode=mode)
            yl, yh = DWTForward(J=1, wave=filts, mode=mode)(torch.tensor(X))
            y5 = y.reshape(y.shape[0], -1, 4, y.shape[-2], y.shape[-1])
            if not (torch.allclose(y5[:, :, 0], yl, rtol=0, atol=1e-12) and torch.allclose(y5[:, :, 1:], yh[0], rtol=0, atol=1e-12)):
                return dict(detail='DWTForward(4-tuple) differs from lowlevel.afb2d with the same four filters')
            # the same four filters handed over as PREPARED tensors (the documented order is column pair, then row pair)
            prep = ll.prep_filt_afb2d(*[np.array(f) for f in filts])
            prep = tuple(t.double() for t in prep)
            yp = ll.afb2d(torch.tensor(X), prep, mode=mode)
            if yp.shape != y.shape or not torch.allclose(yp, y, rtol=0, atol=1e-5 * max(1.0, float(y.abs().max()))):
                return dict(detail='lowlevel.afb2d with four prepared filter tensors differs from afb2d with the same four arrays')
            g = (wc.rec_lo, wc.rec_hi, wr.rec_lo, wr.rec_hi)
            z = ll.sfb2d(yl, yh[0][:, :, 0], yh[0][:, :, 1], yh[0][:, :, 2], [np.array(f) for f in g], mode=mode)
            z2 = DWTInverse(wave=g, mode=mode)((yl, yh))
            if not torch.allclose(z, z2, rtol=0, atol=1e-12):
                return dict(detail='DWTInverse(4-tuple) differs from lowlevel.sfb2d with the same four filters')
            return None
    except (RuntimeError, ValueError) as e:
        if mode == 'reflect':
            return None
        return dict(error='%s: %s' % (type(e).__name__, str(e)[:200]))


PREDS = {'per_short': lambda cfg, fail: per_short(cfg)}
def kf_match(cfg, fail, kf):
    return kf_match_generic(cfg, fail, kf, PREDS)
def kf_witness_fails(f):
    return oracle_run(f['witness']) is not None
replay = dwtfam.std_replay(sys.modules[__name__])
