"""C10  DWT synthesis equals PyWavelets on arbitrary coefficient pyramids; None = zeros on the signal's extent."""
import numpy as np, torch, pywt, itertools
import vlib, corr_dwt as cd
from props.common import *
from props import dwtfam

ID = 'C10'
GRAD_MODES = True
MODE_ALIAS = True
PROPS_MODULE = 'Props.C10'
THEOREMS = ['C10_level_nonper_row', 'C10_level_per_row', 'C10_level_2d', 'C10_level_2d_per', 'C10_multilevel_1d', 'C10_multilevel_1d_per', 'C10_multilevel_2d', 'C10_multilevel_2d_per', 'C10_level_per_row_code', 'C10_per_short_refuted']
VO = ['theories/Props/C10.vo', 'theories/Run/RunDwt.vo', 'theories/Run/RunSpec.vo']
RULE = ('correspondence A: full operator matrices of sfb1d (both dims, 5 modes, every n in the grid incl. outputs that would be empty), '
        'SFB1D/SFB2D, DWT1DInverse/DWTInverse on seeded integer pyramids incl. every None mask; correspondence B: syn / syn_per vs pywt.idwt; '
        'oracle: inverse modules vs pywt.waverec/waverec2 on random pyramids of forward-compatible shapes (not transforms of a signal), '
        'None vs explicit zeros on the extent. distinct by configuration.')
TRUSTED = TRUSTED_COMMON + ['PyWavelets idwt represented by Spec/Line.v syn / syn_per (tied by correspondence B)']
ASSUMES = ['theorems cover the whole model for ANY pyramid whose shapes chain: row and column pass, trim rule, None -> zeros of the running lowpass size, level loop for every J (C10_multilevel_*), all five modes (periodization under the guard)']


def corr_jobs(tier, rng):
    q = tier == 'quick'
    Ls = [2, 4, 6] if q else [2, 4, 6, 8, 10, 14]
    modes = list(cd.MODES)
    cs = cd.cases_sfb1d(rng, Ls, lambda L: range(1, L + 4) if q else range(1, 2 * L + 6), modes, dims=(3, 2), C=2)
    cs += [c for c in cd.cases_functions_1d(rng, Ls[:3], lambda L: [2, 3, L - 1, L, L + 1, 2 * L + 1], modes) if c.entry == 5]
    cs += [c for c in cd.cases_functions_2d(rng, [(2, 4), (4, 2), (6, 4)], lambda a, b: [(2, 3), (3, 2), (5, 8), (8, 5), (7, 7)], modes, NC=((2, 2),)) if c.entry == 9]
    cs += [c for c in cd.cases_modules_1d(rng, Ls[:3], lambda L: [2, 3, 5, 8, 11, 16], modes, Js=(1, 2, 3), none_masks=True) if c.entry == 12]
    cs += [c for c in cd.cases_modules_2d(rng, [(2, 4), (4, 6)], lambda a, b: [(3, 4), (5, 7), (8, 8), (9, 12)], modes, Js=(1, 2), none_masks=True) if c.entry == 14]
    yield dict(name='model_vs_impl', module='Run.RunDwt', runner='run_dwt', cases=cs, against='impl')
    yield dict(name='spec_vs_pywt', module='Run.RunSpec', runner='run_spec', cases=dwtfam.spec_idwt_cases(tier, rng), against='pywt')


def oracle_cases(tier, rng):
    for wn in waves(tier):
        L = pywt.Wavelet(wn).dec_len
        sizes1 = sorted({2, 3, 5, max(2, L - 1), L, L + 1, 2 * L + 1, 17, 32, 37})
        for mode in MODES5:
            for J in (1, 2, 3):
                for N in (rng.choice(sizes1, size=3, replace=False) if tier == 'quick' else sizes1):
                    masks = [None] + ([tuple(m) for m in itertools.product([0, 1], repeat=J) if any(m)] if J <= 2 or tier == 'thorough' else [tuple([1] + [0] * (J - 1))])
                    for mask in masks:
                        yield dict(kind='1d', wave=wn, mode=mode, J=J, N=int(N), none=mask, axes=[(int(N), L)], seed=int(rng.integers(1 << 30)))
                hw = [(2, 5), (7, 4), (L, L + 1), (16, 16), (17, 23)]
                for (H, W) in (hw if tier == 'thorough' else [hw[i] for i in rng.choice(len(hw), 2, replace=False)]):
                    if J <= 2:
                        for mask in [None, tuple([1] + [0] * (J - 1))]:
                            yield dict(kind='2d', wave=wn, mode=mode, J=J, H=int(H), W=int(W), none=mask, axes=[(int(H), L), (int(W), L)], seed=int(rng.integers(1 << 30)))


    # separate column / row wavelets (4-tuple)
    for (wc, wr) in [('db2', 'db4'), ('db4', 'sym4'), ('bior2.2', 'db3'), ('haar', 'bior1.3')]:
        Lc, Lr = pywt.Wavelet(wc).dec_len, pywt.Wavelet(wr).dec_len
        for mode in MODES5:
            for J in (1, 2):
                for (H, W) in [(4 * Lc, 4 * Lr + 2), (24, 30)]:
                    # all levels present, and a level given as None (must use the column pair along the rows axis and the row pair along the last axis too)
                    for mask in [None, tuple([1] + [0] * (J - 1)), tuple([0] * (J - 1) + [1])][: (3 if J > 1 else 2)]:
                        yield dict(kind='2d', wave=wc, wave_row=wr, mode=mode, J=J, H=H, W=W, none=mask, axes=[(H, Lc), (W, Lr)], seed=int(rng.integers(1 << 30)))
    # many channels / batch items
    for mode in MODES5:
        for (nb, C) in ((1, 70), (9, 2)):
            for mask in (None, (1, 0)):
                yield dict(kind='1d', wave='db2', mode=mode, J=2, N=19, none=mask, nb=nb, C=C, axes=[(19, 4)], seed=int(rng.integers(1 << 30)))
                yield dict(kind='2d', wave='db2', mode=mode, J=2, H=10, W=13, none=mask, nb=nb, C=C, axes=[(10, 4), (13, 4)], seed=int(rng.integers(1 << 30)))


def strat_key_(cfg):
    L = cfg['axes'][0][1]; n = cfg['axes'][0][0]
    return '%s%s/%s/J%d/%s/%s/%s' % (cfg['kind'], '-mixed' if cfg.get('wave_row') else '', cfg['mode'], cfg['J'], 'short' if n < L else 'long', 'odd' if n % 2 else 'even', 'none' if cfg['none'] else 'full') + ('/many%dx%d' % (cfg['nb'], cfg['C']) if cfg.get('C') else '')
strat_key = strat_key_


def shapes_1d(N, J, L, mode):
    out = []
    for _ in range(J):
        N = pywt.dwt_coeff_len(N, L, mode); out.append(N)
    return out


def oracle_run(cfg):
    from pytorch_wavelets.dwt.transform1d import DWT1DInverse
    from pytorch_wavelets.dwt.transform2d import DWTInverse
    r = np.random.default_rng(cfg['seed'])
    mode, J, wn = cfg['mode'], cfg['J'], cfg['wave']
    L = pywt.Wavelet(wn).dec_len
    mask = cfg['none'] or tuple([0] * J)
    try:
        if cfg['kind'] == '1d':
            sh = shapes_1d(cfg['N'], J, L, mode)
            nbc = (cfg.get('nb', 2), cfg.get('C', 2))
            yh = [r.standard_normal(nbc + (n,)) for n in sh]
            yl = r.standard_normal(nbc + (sh[-1],))
            got = DWT1DInverse(wave=wn, mode=lib_mode(cfg))((torch.tensor(yl), [None if m else torch.tensor(h) for m, h in zip(mask, yh)])).numpy()
            want = pywt.waverec([yl] + [np.zeros_like(h) if m else h for m, h in zip(mask, yh)][::-1], wn, mode=mode, axis=-1)
            ext = (cfg['N'],)
        else:
            Lr = pywt.Wavelet(cfg['wave_row']).dec_len if cfg.get('wave_row') else L
            shh, shw = shapes_1d(cfg['H'], J, L, mode), shapes_1d(cfg['W'], J, Lr, mode)
            nbc = (cfg.get('nb', 1), cfg.get('C', 2))
            yh = [r.standard_normal(nbc + (3, a, b)) for a, b in zip(shh, shw)]
            yl = r.standard_normal(nbc + (shh[-1], shw[-1]))
            from props import c01
            got = DWTInverse(wave=c01.wave_arg(cfg, 'rec'), mode=lib_mode(cfg))((torch.tensor(yl), [None if m else torch.tensor(h) for m, h in zip(mask, yh)])).numpy()
            ref = [yl] + [tuple((np.zeros_like(h) if m else h)[:, :, b] for b in range(3)) for m, h in zip(mask, yh)][::-1]
            want = pywt.waverec2(ref, c01.pywt_arg(cfg), mode=mode, axes=(-2, -1))
            ext = (cfg['H'], cfg['W'])
    except (RuntimeError, ValueError) as e:
        return dict(error='%s: %s' % (type(e).__name__, str(e)[:200]))
    scale = dwtfam.gain(wn, J, len(ext)) * (dwtfam.gain(cfg['wave_row'], J, 1) if cfg.get('wave_row') else 1.0)
    if cfg['none']:
        # None reconstructs like zeros on the signal's extent
        sl = (Ellipsis,) + tuple(slice(0, e) for e in ext)
        if any(g < e for g, e in zip(got.shape[-len(ext):], ext)):
            return dict(detail='result shape %s smaller than the extent %s' % (got.shape, ext))
        ok, msg = tol_close(got[sl], want[sl], scale)
    else:
        ok, msg = tol_close(got, want, scale)
        if ok and cfg['seed'] % 3 == 0:
            from props import c01
            new = lambda: DWT1DInverse(wave=wn, mode=lib_mode(cfg)) if cfg['kind'] == '1d' else DWTInverse(wave=c01.wave_arg(cfg, 'rec'), mode=lib_mode(cfg))
            msg = pow2_homog(lambda dt: (lambda a, m=new().to(dt): m((a[0], list(a[1:])))), [torch.tensor(yl)] + [torch.tensor(h) for h in yh])
            ok = msg is None
    return None if ok else dict(detail=msg)


def none_oversize(cfg, fail):
    """KF-NONE-OVERSIZE: a None level j below the coarsest takes the shape of the running lowpass, which is one sample
    longer than the level's highpass; harmful in periodization (circular wrap) or at a level that is not the finest."""
    if not cfg.get('none') or not any(cfg['none']):
        return False
    J = cfg['J']; per = cfg['mode'] == 'periodization'
    for N, L in cfg['axes']:
        lens = [N]
        for j in range(J):
            lens.append((lens[j] + 1) // 2 if per else (lens[j] + L - 1) // 2)
        for j in range(J - 1):
            rec = 2 * lens[j + 2] if per else 2 * lens[j + 2] - L + 2      # length of the lowpass handed to level j
            if cfg['none'][j] and rec > lens[j + 1]:
                # periodization: the circular wrap spreads the extra sample over the extent;
                # other modes: only harmful when a finer level is present (its shape then mismatches)
                if per or any(not cfg['none'][jj] for jj in range(j)):
                    return True
    return False


def syn_short_only(cfg, fail):
    if cfg.get('mode') != 'periodization':
        return False
    for N, L in cfg['axes']:
        for n in level_lengths(N, cfg['J'], L, True):
            if n + (n % 2) < L - 2:
                return True
    return False


PREDS = {'per_short': syn_short_only, 'none_oversize': none_oversize}
def kf_match(cfg, fail, kf):
    return kf_match_generic(cfg, fail, kf, PREDS)
def kf_witness_fails(f):
    return oracle_run(f['witness']) is not None
import sys
replay = dwtfam.std_replay(sys.modules[__name__])
