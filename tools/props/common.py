"""Shared helpers for the property oracles (the property statements executed on the real code)."""
import numpy as np, torch, pywt, itertools, json

TRUSTED_COMMON = [
    'Coq 8.16.1 kernel incl. vm_compute (no native_compute); coqchk in the thorough tier',
    'the hand-written Gallina model coq/theories/Model/*.v is tied to /repo only by the exact correspondence check (integer data, float64 exact below 2^52), evaluated inside Coq on the inputs the implementation ran',
    'tools/corr_*.py + tools/vlib.py (case generation, encoding, comparison); PyTorch kernels, autograd engine, NumPy indexing are modelled (Base/Tensor.v), not verified',
    'tools/translate.py for the generated Gen/*.v',
]

def level_lengths(N, J, L, per):
    out = []
    for _ in range(J):
        out.append(N)
        N = (N + 1) // 2 if per else (N + L - 1) // 2
    return out

def per_short(cfg):
    """KF-PER-SHORT region: periodization and some level's even-extended length < filter length"""
    if cfg.get('mode') not in ('periodization', 'per'):
        return False
    J = cfg.get('J', 1)
    for N, L in cfg['axes']:          # [(N, L)] per transformed axis
        for n in level_lengths(N, J, L, True):
            if n + (n % 2) < L:
                return True
    return False

def kf_match_generic(cfg, fail, kf, preds):
    for f in kf:
        pred = preds.get(f['matcher']['pred'])
        if pred and pred(cfg, fail):
            return f['id']
    return None

def tol_close(a, b, scale=None, rtol=1e-9):
    a = np.asarray(a, dtype=np.float64); b = np.asarray(b, dtype=np.float64)
    if a.shape != b.shape:
        return False, 'shape %s vs %s' % (a.shape, b.shape)
    if scale is None:
        scale = max(1.0, float(np.abs(b).max(initial=0.0)))
    d = float(np.abs(a - b).max(initial=0.0))
    return d <= rtol * scale, 'max|diff|=%.3g scale=%.3g' % (d, scale)

WAVES_QUICK = ['haar', 'db2', 'db3', 'db7', 'sym4', 'coif2', 'bior1.3', 'bior2.4', 'bior3.9', 'rbio2.2', 'rbio3.1', 'dmey']
def waves(tier):
    return pywt.wavelist(kind='discrete') if tier == 'thorough' else WAVES_QUICK
MODES5 = ['zero', 'symmetric', 'reflect', 'periodic', 'periodization']


def cot_families(r, shapes):
    """Cotangents for 'backward = J^T g for EVERY cotangent g': besides a dense random one, the structured ones a hand-written backward
    could special-case - exactly zero-sum (two-point and dense integer), supported on ONE output only (all others exactly zero),
    constant, and scaled by 2^-40 (linearity).  Yields (name, [tensor per shape])."""
    shapes = [tuple(s) for s in shapes]
    Z = lambda s: torch.zeros(s, dtype=torch.float64)
    yield 'randn', [torch.tensor(r.standard_normal(s)) for s in shapes]
    for a, s in enumerate(shapes):
        n = int(np.prod(s))
        if n >= 2:
            g = Z(s); i, j = (int(v) for v in r.choice(n, 2, replace=False)); g.view(-1)[i] = 1.0; g.view(-1)[j] = -1.0
            yield 'two-point zero-sum on output %d' % a, [g if b == a else Z(sb) for b, sb in enumerate(shapes)]
    dense = []
    for s in shapes:
        g = torch.tensor(r.integers(-3, 4, size=s).astype(np.float64))
        if g.numel() >= 1: g.view(-1)[0] -= g.sum()
        dense.append(g)
    yield 'dense integer, every output sums to exactly 0', dense
    yield 'all ones', [torch.ones(s, dtype=torch.float64) for s in shapes]
    yield 'randn * 2^-40', [torch.tensor(r.standard_normal(s)) * 2.0 ** -40 for s in shapes]


def _flat_tensors(o):
    if o is None: return []
    if torch.is_tensor(o): return [o]
    out = []
    for t in o: out += _flat_tensors(t)
    return out


def pow2_homog(mk, args, plan=((torch.float64, (-545, 400)), (torch.float32, (-80, 60)))):
    """A LINEAR transform commutes exactly with a power-of-two scale as long as nothing under- or overflows (every product and sum is
    scaled exactly), so f(2^e x) must be 2^e f(x) bit for bit (up to the underflow threshold of the dtype): very small and very large data are the same transform.  mk(dtype) gives a function from a list
    of tensors of that dtype to a (nested) structure of tensors (a module converted with .to(dtype)).  Returns a description of the first difference, or None."""
    for dt, exps in plan:
        base = [a.to(dt) for a in args]
        f = mk(dt)
        with torch.no_grad():
            y0 = _flat_tensors(f(base))
            for e in exps:
                s = 2.0 ** e
                ys = _flat_tensors(f([a * s for a in base]))
                if len(ys) != len(y0):
                    return 'the transform of 2^%d x (%s) has %d outputs, that of x has %d' % (e, dt, len(ys), len(y0))
                for k, (a, b) in enumerate(zip(y0, ys)):
                    # bitwise, except for results that fall below the smallest normal number of the dtype (gradual underflow rounds there)
                    if a.shape != b.shape or (a.numel() and float((a * s - b).abs().max()) > 4096 * torch.finfo(dt).tiny * max(1.0, s)):
                        rel = float(((a * s - b).abs().max() / s)) if a.shape == b.shape and a.numel() else float('nan')
                        return 'output %d of the transform of 2^%d x (%s) is not 2^%d times the output for x (difference %.3g in units of the scale)' % (k, e, str(dt).replace('torch.', ''), e, rel)
    return None


SHRINK_KEYS = [('J', 1), ('nops', 1), ('H', 2), ('W', 2), ('N', 2), ('S', 8), ('C', 1), ('nthreads', 1)]
def generic_shrink(mod, cfg, fail, is_known, budget=40):
    """Greedy shrinking of a failing oracle configuration: lower the size-like integer fields while the SAME kind of failure
    (a wrong result stays a wrong result, an exception stays an exception) persists and the case is not a listed known finding.
    Returns (cfg, fail, steps tried)."""
    cur, cur_fail, tried = dict(cfg), fail, 0
    improved = True
    while improved and tried < budget:
        improved = False
        for key, lo in SHRINK_KEYS:
            v = cur.get(key)
            if not isinstance(v, int) or isinstance(v, bool) or v <= lo: continue
            for cand in sorted({lo, v // 2, v - 2, v - 1}):
                if cand < lo or cand >= v or tried >= budget: continue
                new = dict(cur); new[key] = cand
                # list-valued fields tied to J (skip masks, subsets, scales) are cut to the new length
                if key == 'J':
                    for k2, v2 in cur.items():
                        if isinstance(v2, list) and len(v2) in (v, v + 1) and k2 != 'layout':
                            new[k2] = v2[:cand + (len(v2) - v)]
                            if k2 == 'subset' and not any(new[k2]): new[k2][0] = 1
                if isinstance(new.get('axes'), list):          # derived field (axis length, filter length) used by the known-finding predicates
                    lens = [new['N']] if 'N' in new and len(new['axes']) == 1 else [new.get('H'), new.get('W')]
                    if len(lens) == len(new['axes']) and all(isinstance(v3, int) for v3 in lens):
                        new['axes'] = [[int(n3), int(a3[1])] for n3, a3 in zip(lens, new['axes'])]
                tried += 1
                try:
                    f2 = run_oracle(mod, new)
                except Exception as e:
                    f2 = dict(error='%s: %s' % (type(e).__name__, e))
                if f2 and ('error' in f2) == ('error' in cur_fail) and not is_known(new, f2):
                    cur, cur_fail, improved = new, f2, True
                    break
    return cur, cur_fail, tried


def run_oracle(mod, cfg):
    """the oracle of a property whose statement does not involve gradients is run with autograd recording on or off as the case says
    (cfg['_nograd'], set by the driver for a pseudo-random half of the cases): a transform must not take a different path under no_grad"""
    import torch
    with torch.set_grad_enabled(not cfg.get('_nograd', 0)):
        return mod.oracle_run(cfg)


def fresh_import():
    """forget the library's modules: the next import builds every module-level object (caches, tables, ...) anew - the state of a new process"""
    import importlib, sys
    for k in [k for k in sys.modules if k == 'pytorch_wavelets' or k.startswith('pytorch_wavelets.')]:
        del sys.modules[k]
    importlib.invalidate_caches()


def lib_mode(cfg):
    """the mode string handed to the LIBRARY: the PyWavelets alias 'per' for a pseudo-random half of the periodization cases (cfg['_alias'], set by the driver)"""
    return 'per' if cfg.get('_alias') and cfg.get('mode') == 'periodization' else cfg['mode']
