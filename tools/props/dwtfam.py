"""Shared oracles for the DWT-family properties (C02, C05, C10, C14, C17, C19, C13, C07)."""
import numpy as np, torch, pywt, itertools
import vlib, corr_dwt as cd
from props.common import *


def std_replay(mod):
    def replay(rp):
        cfg = rp.get('config')
        if cfg:
            fail = run_oracle(mod, cfg)
            return dict(config=cfg, fails=bool(fail), failure=fail)
        return dict(fails=None, note='obligation replay: rebuild with ./check %s' % mod.ID, obligations=rp.get('broken_obligations'))
    return replay


def spec_idwt_cases(tier, rng):
    """correspondence B for synthesis: syn / syn_per (Coq, over Z) vs pywt.idwt on integer filter banks and coefficients"""
    out = []
    Ls = [2, 4, 6, 8] if tier == 'quick' else [2, 4, 6, 8, 10, 12, 20]
    for L in Ls:
        g0, g1 = cd.int_filter(rng, L), cd.int_filter(rng, L)
        w = pywt.Wavelet('int%d' % L, filter_bank=[g0.astype(float), g1.astype(float), g0.astype(float), g1.astype(float)])
        for n in range(1, 2 * L + 3):
            lo = rng.integers(-9, 10, size=n).astype(float); hi = rng.integers(-9, 10, size=n).astype(float)
            if 2 * n - L + 2 >= 1:
                y = pywt.idwt(lo, hi, w, mode='zero')
                out.append(vlib.Case(103, [], [g0, g1], [lo.reshape(1, 1, 1, n), hi.reshape(1, 1, 1, n)], (y.reshape(1, 1, 1, -1),), dict(fn='pywt.idwt', L=L, n=n, mode='zero')))
            y = pywt.idwt(lo, hi, w, mode='periodization')
            out.append(vlib.Case(104, [], [g0, g1], [lo.reshape(1, 1, 1, n), hi.reshape(1, 1, 1, n)], (y.reshape(1, 1, 1, -1),), dict(fn='pywt.idwt', L=L, n=n, mode='periodization')))
    return out


def gain(wn, J, dims):
    w = pywt.Wavelet(wn)
    g = max(sum(abs(v) for v in w.dec_lo), sum(abs(v) for v in w.rec_lo), sum(abs(v) for v in w.dec_hi), sum(abs(v) for v in w.rec_hi), 1.0)
    return g ** (J * dims)


def syn_short(cfg):
    """synthesis side of KF-PER-SHORT: some level has 2n < L-2"""
    if cfg.get('mode') not in ('periodization', 'per'):
        return False
    J = cfg.get('J', 1)
    for N, L in cfg['axes']:
        for n in level_lengths(N, J, L, True):
            ne = n + (n % 2)
            if ne < L - 2 or ne < L:      # analysis part of the round trip is wrong below L as well
                return True
    return False
