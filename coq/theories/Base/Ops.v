(* Operations record: every model definition is parametric in it; theorems assume a ring theory on it. *)
From Coq Require Export ZArith List Lia Ring Bool ZifyBool.
Export ListNotations.
Global Open Scope Z_scope.
Ltac Zify.zify_post_hook ::= Z.to_euclidean_division_equations.

Record Ops (R:Type) := mkOps { r0:R; r1:R; radd:R->R->R; rmul:R->R->R; rsub:R->R->R; ropp:R->R }.
Arguments r0 {R}. Arguments r1 {R}. Arguments radd {R}. Arguments rmul {R}.
Arguments rsub {R}. Arguments ropp {R}.
Notation RingOk O := (ring_theory (r0 O) (r1 O) (radd O) (rmul O) (rsub O) (ropp O) (@eq _)).

Definition ZOps : Ops Z := mkOps Z 0 1 Z.add Z.mul Z.sub Z.opp.
Lemma ZOk : RingOk ZOps.
Proof. exact Zth. Qed.

Definition inr (n i:Z) : bool := (0 <=? i) && (i <? n).
Lemma inr_true n i : 0 <= i < n -> inr n i = true.
Proof. unfold inr; lia. Qed.
Lemma inr_false n i : ~(0 <= i < n) -> inr n i = false.
Proof. unfold inr; lia. Qed.
