(* 4-D tensors (N,C,H,W) as index functions with a shape; the torch operations the library uses.
   Every convolution in pytorch_wavelets has one input channel per group, so conv2d/conv_transpose2d are
   modelled in that (depthwise, with channel multiplier) form. *)
From PW Require Import Base.Ops Base.Sum Base.Sig.

Inductive res (A:Type) := Ok (a:A) | Err (code:Z).
Arguments Ok {A}. Arguments Err {A}.
Definition bind {A B} (r:res A) (f:A -> res B) : res B := match r with Ok a => f a | Err c => Err c end.
Notation "'do' x <- r ; k" := (bind r (fun x => k)) (at level 200, x name, r at level 100, k at level 200).
(* error kinds *)
Definition E_VALUE := 1.      (* ValueError: unknown pad type / bad argument *)
Definition E_PADSIZE := 2.    (* RuntimeError: reflect padding not smaller than the input *)
Definition E_SHAPE := 3.      (* RuntimeError: size mismatch *)
Definition E_ASSERT := 4.     (* AssertionError *)
Definition E_INDEX := 5.      (* IndexError *)

Definition zrange (n:Z) : list Z := map Z.of_nat (seq 0 (Z.to_nat n)).
Lemma zrange_length n : length (zrange n) = Z.to_nat n.
Proof. unfold zrange. rewrite map_length, seq_length. reflexivity. Qed.
Lemma zrange_nth n k d : (k < Z.to_nat n)%nat -> nth k (zrange n) d = Z.of_nat k.
Proof. intros H. unfold zrange. rewrite nth_indep with (d':=Z.of_nat 0) by (rewrite map_length, seq_length; lia).
  rewrite map_nth. rewrite seq_nth by lia. reflexivity. Qed.

Section Ten.
Context {R:Type} (Op:Ops R).
Infix "+r" := (radd Op) (at level 50, left associativity).
Infix "*r" := (rmul Op) (at level 40, left associativity).

Record ten := mkT { tN:Z; tC:Z; tH:Z; tW:Z; tf : Z->Z->Z->Z->R }.

Definition lookup {A} (d:A) (l:list A) (i:Z) : A := nth (Z.to_nat i) l d.
Lemma lookup_map {A} (d:A) n (g:Z->A) i : 0 <= i < n -> lookup d (map g (zrange n)) i = g i.
Proof. intros H. unfold lookup. rewrite nth_indep with (d':=g 0) by (rewrite map_length, zrange_length; lia).
  rewrite map_nth. rewrite zrange_nth by lia. f_equal. lia. Qed.

Definition tab4 (t:ten) : list (list (list (list R))) :=
  map (fun n => map (fun c => map (fun i => map (fun j => tf t n c i j) (zrange (tW t))) (zrange (tH t))) (zrange (tC t))) (zrange (tN t)).
Definition force (t:ten) : ten :=
  let l := tab4 t in
  mkT (tN t) (tC t) (tH t) (tW t)
    (fun n c i j => if inr (tN t) n && inr (tC t) c && inr (tH t) i && inr (tW t) j
                    then lookup (r0 Op) (lookup nil (lookup nil (lookup nil l n) c) i) j
                    else tf t n c i j).
Lemma force_eq t n c i j : tf (force t) n c i j = tf t n c i j.
Proof. unfold force; cbn [tf]. destruct (inr (tN t) n) eqn:E1; [|reflexivity].
  destruct (inr (tC t) c) eqn:E2; [|reflexivity]. destruct (inr (tH t) i) eqn:E3; [|reflexivity].
  destruct (inr (tW t) j) eqn:E4; [|reflexivity]. cbn [andb]. unfold inr in *. unfold tab4.
  rewrite (lookup_map nil (tN t)) by lia. rewrite (lookup_map nil (tC t)) by lia.
  rewrite (lookup_map nil (tH t)) by lia. rewrite (lookup_map (r0 Op) (tW t)) by lia. reflexivity. Qed.
Definition flat (t:ten) : list R := concat (concat (concat (tab4 t))).
Definition shape (t:ten) : list Z := [tN t; tC t; tH t; tW t].

(* ---- elementwise / structural ---- *)
Definition t_add (a b:ten) : ten := mkT (tN a) (tC a) (tH a) (tW a) (fun n c i j => tf a n c i j +r tf b n c i j).
Definition t_zeros (N C H W:Z) : ten := mkT N C H W (fun _ _ _ _ => r0 Op).
(* new channel axis of size C', channel c' read from channel g c' *)
Definition t_chmap (C':Z) (g:Z->Z) (x:ten) : ten := mkT (tN x) C' (tH x) (tW x) (fun n c i j => tf x n (g c) i j).
(* dims: 2 = rows (H), 3 = columns (W) *)
Definition dlen (d:Z) (x:ten) : Z := if d =? 2 then tH x else tW x.
(* gather along d: x[:,:,idx] / x[:,:,:,idx], idx an index array of length len given as a function *)
Definition t_gather (d:Z) (len:Z) (idx:Z->Z) (x:ten) : ten :=
  if d =? 2 then mkT (tN x) (tC x) len (tW x) (fun n c i j => tf x n c (idx i) j)
  else mkT (tN x) (tC x) (tH x) len (fun n c i j => tf x n c i (idx j)).
(* x[..., a:b:s] along d, a b already normalised (0<=a, b<=len) *)
Definition t_slice (d:Z) (a b s:Z) (x:ten) : ten := t_gather d (range_len a b s) (fun q => a + s*q) x.
(* Python slicing x[..., a:b] with raw Python bounds *)
Definition t_pyslice (d:Z) (a b:Z) (x:ten) : ten :=
  let len := dlen d x in t_slice d (pyclip len a) (pyclip len b) 1 x.
Definition t_cat (d:Z) (a b:ten) : ten :=
  if d =? 1 then mkT (tN a) (tC a + tC b) (tH a) (tW a) (fun n c i j => if c <? tC a then tf a n c i j else tf b n (c - tC a) i j)
  else if d =? 2 then mkT (tN a) (tC a) (tH a + tH b) (tW a) (fun n c i j => if i <? tH a then tf a n c i j else tf b n c (i - tH a) j)
  else mkT (tN a) (tC a) (tH a) (tW a + tW b) (fun n c i j => if j <? tW a then tf a n c i j else tf b n c i (j - tW a)).
(* F.pad(x, (l, r, t, b)) with zeros *)
Definition t_zpad (l r t b:Z) (x:ten) : ten :=
  mkT (tN x) (tC x) (tH x + t + b) (tW x + l + r)
    (fun n c i j => if inr (tH x) (i - t) && inr (tW x) (j - l) then tf x n c (i - t) (j - l) else r0 Op).

(* ---- convolutions ---- *)
(* weights of shape (OC, 1, KH, KW) *)
Record wten := mkW { wO:Z; wKH:Z; wKW:Z; wf : Z->Z->Z->R }.
(* F.conv2d(x, w, stride=(sh,sw), padding=(ph,pw), dilation=(dh,dw), groups=C), OC = C*mult *)
Definition conv2d_dw (x:ten) (w:wten) (sh sw ph pw dh dw:Z) : ten :=
  let mult := wO w / tC x in
  let xp := t_zpad pw pw ph ph x in
  mkT (tN x) (wO w) ((tH x + 2*ph - dh*(wKH w - 1) - 1) / sh + 1) ((tW x + 2*pw - dw*(wKW w - 1) - 1) / sw + 1)
    (fun n oc i j => sumZ Op 0 (wKH w) (fun a => sumZ Op 0 (wKW w) (fun b =>
        wf w oc a b *r tf xp n (oc / mult) (i*sh + a*dh) (j*sw + b*dw)))).
(* F.conv_transpose2d(x, w, stride=(sh,sw), padding=(ph,pw), groups=C), w of shape (C, 1, KH, KW) *)
Definition convT2d_dw (x:ten) (w:wten) (sh sw ph pw:Z) : ten :=
  mkT (tN x) (tC x) ((tH x - 1)*sh - 2*ph + wKH w) ((tW x - 1)*sw - 2*pw + wKW w)
    (fun n c i j => sumZ Op 0 (tH x) (fun k => sumZ Op 0 (tW x) (fun l =>
        let a := i + ph - k*sh in let b := j + pw - l*sw in
        if inr (wKH w) a && inr (wKW w) b then tf x n c k l *r wf w c a b else r0 Op))).

(* torch raises when the kernel does not fit / the output would be empty *)
Definition conv2d_r (x:ten) (w:wten) (sh sw ph pw dh dw:Z) : res ten :=
  if (0 <=? tH x + 2*ph - dh*(wKH w - 1) - 1) && (0 <=? tW x + 2*pw - dw*(wKW w - 1) - 1) && (0 <=? ph) && (0 <=? pw)
  then Ok (conv2d_dw x w sh sw ph pw dh dw) else Err E_SHAPE.
Definition convT2d_r (x:ten) (w:wten) (sh sw ph pw:Z) : res ten :=
  if (1 <=? (tH x - 1)*sh - 2*ph + wKH w) && (1 <=? (tW x - 1)*sw - 2*pw + wKW w) && (0 <=? ph) && (0 <=? pw)
  then Ok (convT2d_dw x w sh sw ph pw) else Err E_SHAPE.

(* a 1-D filter (length L, values h) laid along dim d, one per output channel: w[oc] = hsel oc *)
Definition w_line (d:Z) (OC L:Z) (hsel:Z->Z->R) : wten :=
  if d =? 2 then mkW OC L 1 (fun oc a _ => hsel oc a) else mkW OC 1 L (fun oc _ b => hsel oc b).
End Ten.
Arguments mkT {R}. Arguments tN {R}. Arguments tC {R}. Arguments tH {R}. Arguments tW {R}. Arguments tf {R}.
Arguments mkW {R}. Arguments wO {R}. Arguments wKH {R}. Arguments wKW {R}. Arguments wf {R}.
Arguments shape {R}. Arguments dlen {R}. Arguments t_chmap {R}. Arguments t_gather {R}. Arguments t_slice {R}.
Arguments t_pyslice {R}. Arguments t_cat {R}.
