(* Interval sums over Z with values in a ring: ext, zero, add, scale, shift, split, widen, Fubini, reverse. *)
From PW Require Import Base.Ops.

Section S.
Context {R:Type} (Op:Ops R).
Infix "+r" := (radd Op) (at level 50, left associativity).
Infix "*r" := (rmul Op) (at level 40, left associativity).

Fixpoint sumf (n:nat) (a:Z) (f:Z->R) : R :=
  match n with O => r0 Op | S k => f a +r sumf k (a+1) f end.
Definition sumZ (a b:Z) (f:Z->R) : R := sumf (Z.to_nat (b-a)) a f.
Definition dot (n:Z) (u v:Z->R) : R := sumZ 0 n (fun i => u i *r v i).
Definition zx (n:Z) (x:Z->R) : Z->R := fun i => if inr n i then x i else r0 Op.
Definition delta (d:Z) : R := if d =? 0 then r1 Op else r0 Op.

Lemma zx_in n x i : 0 <= i < n -> zx n x i = x i.
Proof. intros; unfold zx. rewrite inr_true by lia. reflexivity. Qed.
Lemma zx_out n x i : ~(0 <= i < n) -> zx n x i = r0 Op.
Proof. intros; unfold zx. rewrite inr_false by lia. reflexivity. Qed.

Lemma sumf_ext n a f g : (forall i, a <= i < a + Z.of_nat n -> f i = g i) -> sumf n a f = sumf n a g.
Proof. revert a; induction n as [|n IH]; intros a H; cbn [sumf]; auto.
  rewrite H by lia. rewrite (IH (a+1)); auto. intros; apply H; lia. Qed.
Lemma sumZ_ext a b f g : (forall i, a <= i < b -> f i = g i) -> sumZ a b f = sumZ a b g.
Proof. intros H. apply sumf_ext. intros; apply H; lia. Qed.
Lemma sumf_shift n a c f : sumf n a (fun i => f (i + c)) = sumf n (a + c) f.
Proof. revert a; induction n as [|n IH]; intros a; cbn [sumf]; auto.
  rewrite IH. replace (a + 1 + c) with (a + c + 1) by lia. reflexivity. Qed.
Lemma sumZ_shift a b c f : sumZ a b (fun i => f (i + c)) = sumZ (a+c) (b+c) f.
Proof. unfold sumZ. rewrite sumf_shift. f_equal. f_equal. lia. Qed.
Lemma sumZ_empty a b f : b <= a -> sumZ a b f = r0 Op.
Proof. intros H. unfold sumZ. replace (Z.to_nat (b-a)) with 0%nat by lia. reflexivity. Qed.
Lemma sumZ_one a f : sumZ a (a+1) f = f a +r r0 Op.
Proof. unfold sumZ. replace (Z.to_nat (a+1-a)) with 1%nat by lia. reflexivity. Qed.

Section WithRing.
Variable Rth : RingOk Op.
Add Ring Rr : Rth.

Lemma sumf_zero n a f : (forall i, a <= i < a + Z.of_nat n -> f i = r0 Op) -> sumf n a f = r0 Op.
Proof. revert a; induction n as [|n IH]; intros a H; cbn [sumf]; auto.
  rewrite H by lia. rewrite IH. ring. intros; apply H; lia. Qed.
Lemma sumf_add n a f g : sumf n a (fun i => f i +r g i) = sumf n a f +r sumf n a g.
Proof. revert a; induction n as [|n IH]; intros a; cbn [sumf]. ring. rewrite IH; ring. Qed.
Lemma sumf_scale n a c f : sumf n a (fun i => c *r f i) = c *r sumf n a f.
Proof. revert a; induction n as [|n IH]; intros a; cbn [sumf]. ring. rewrite IH; ring. Qed.
Lemma sumf_app n m a f : sumf (n+m) a f = sumf n a f +r sumf m (a + Z.of_nat n) f.
Proof. revert a; induction n as [|n IH]; intros a.
  - cbn [sumf plus]. replace (a + Z.of_nat 0) with a by lia. ring.
  - cbn [sumf plus]. rewrite IH. replace (a + 1 + Z.of_nat n) with (a + Z.of_nat (S n)) by lia. ring. Qed.
Lemma sumZ_split a b c f : a <= b <= c -> sumZ a c f = sumZ a b f +r sumZ b c f.
Proof. intros H. unfold sumZ. replace (Z.to_nat (c-a)) with (Z.to_nat (b-a) + Z.to_nat (c-b))%nat by lia.
  rewrite sumf_app. f_equal. f_equal. lia. Qed.
Lemma sumZ_zero a b f : (forall i, a <= i < b -> f i = r0 Op) -> sumZ a b f = r0 Op.
Proof. intros; apply sumf_zero; intros; apply H; lia. Qed.
Lemma sumZ_widen a b a' b' f : a' <= a -> a <= b -> b <= b' ->
  (forall i, a' <= i < b' -> ~(a <= i < b) -> f i = r0 Op) -> sumZ a' b' f = sumZ a b f.
Proof. intros H1 H2 H3 Hz.
  rewrite (sumZ_split a' a b') by lia. rewrite (sumZ_split a b b') by lia.
  rewrite (sumZ_zero a' a), (sumZ_zero b b'). ring.
  intros; apply Hz; lia. intros; apply Hz; lia. Qed.
Lemma sumZ_add a b f g : sumZ a b (fun i => f i +r g i) = sumZ a b f +r sumZ a b g.
Proof. apply sumf_add. Qed.
Lemma sumZ_scale a b c f : sumZ a b (fun i => c *r f i) = c *r sumZ a b f.
Proof. apply sumf_scale. Qed.
Lemma sumZ_scale_r a b c f : sumZ a b (fun i => f i *r c) = sumZ a b f *r c.
Proof. rewrite (sumZ_ext a b _ (fun i => c *r f i)) by (intros; ring). rewrite sumZ_scale. ring. Qed.
Lemma sumf_swap n m a b (F:Z->Z->R) :
  sumf n a (fun i => sumf m b (fun j => F i j)) = sumf m b (fun j => sumf n a (fun i => F i j)).
Proof. revert a; induction n as [|n IH]; intros a; cbn [sumf].
  - symmetry. apply sumf_zero. reflexivity.
  - rewrite IH. rewrite <- sumf_add. reflexivity. Qed.
Lemma sumZ_swap a b c d (F:Z->Z->R) :
  sumZ a b (fun i => sumZ c d (fun j => F i j)) = sumZ c d (fun j => sumZ a b (fun i => F i j)).
Proof. apply sumf_swap. Qed.
Lemma sumZ_single a b c f : a <= c < b -> (forall i, a <= i < b -> i <> c -> f i = r0 Op) -> sumZ a b f = f c.
Proof. intros Hc Hz. rewrite (sumZ_split a c b) by lia. rewrite (sumZ_split c (c+1) b) by lia.
  rewrite (sumZ_zero a c), (sumZ_zero (c+1) b), sumZ_one. ring.
  intros; apply Hz; lia. intros; apply Hz; lia. Qed.
(* reverse the order of summation: i -> a + b - 1 - i *)
Lemma sumf_last n a f : sumf (S n) a f = sumf n a f +r f (a + Z.of_nat n).
Proof. replace (S n) with (n+1)%nat by lia. rewrite sumf_app. cbn [sumf]. ring. Qed.
Lemma sumf_rev n a f : sumf n a f = sumf n a (fun i => f (2*a + Z.of_nat n - 1 - i)).
Proof. revert a f; induction n as [|n IH]; intros a f; [reflexivity|].
  rewrite sumf_last. cbn [sumf]. rewrite (IH a f).
  replace (2*a + Z.of_nat (S n) - 1 - a) with (a + Z.of_nat n) by lia.
  rewrite <- (sumf_shift n a 1). 
  rewrite (sumf_ext n a (fun i => f (2*a + Z.of_nat n - 1 - i)) (fun i => f (2*a + Z.of_nat (S n) - 1 - (i+1)))).
  ring. intros; f_equal; lia. Qed.
Lemma sumZ_rev a b f : sumZ a b f = sumZ a b (fun i => f (a + b - 1 - i)).
Proof. destruct (Z_lt_le_dec a b) as [H|H].
  - unfold sumZ. rewrite sumf_rev. apply sumf_ext. intros; f_equal; lia.
  - rewrite !sumZ_empty by lia. reflexivity. Qed.
(* general affine reindex by a bijection i -> c - i *)
Lemma sumZ_neg a b c f : sumZ a b (fun i => f (c - i)) = sumZ (c - b + 1) (c - a + 1) f.
Proof. rewrite (sumZ_rev (c-b+1) (c-a+1)).
  set (g := fun i => f (c - b + 1 + (c - a + 1) - 1 - i)).
  transitivity (sumZ a b (fun i => g (i + (c-b+1-a)))).
  - apply sumZ_ext. intros; unfold g; f_equal; lia.
  - rewrite sumZ_shift. f_equal; lia. Qed.
Lemma dot_comm n u v : dot n u v = dot n v u.
Proof. apply sumZ_ext; intros; ring. Qed.
End WithRing.
End S.
