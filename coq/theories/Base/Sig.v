(* Signals as index functions, materialisation (tabulate + read back, extensionally the identity),
   Python slice normalisation and the index maps used for padding. *)
From PW Require Import Base.Ops.

Section Sig.
Context {R:Type} (Op:Ops R).
Definition sig := Z -> R.
Definition nthZ (l:list R) (i:Z) : R := if i <? 0 then r0 Op else nth (Z.to_nat i) l (r0 Op).
Definition tab (n:Z) (f:sig) : list R := map (fun k => f (Z.of_nat k)) (seq 0 (Z.to_nat n)).
(* mat n f is f, with the values on [0,n) computed once *)
Definition mat (n:Z) (f:sig) : sig :=
  let l := tab n f in fun i => if inr n i then nthZ l i else f i.
Definition of_list (l:list R) : sig := nthZ l.

Lemma tab_length n f : length (tab n f) = Z.to_nat n.
Proof. unfold tab. rewrite map_length, seq_length. reflexivity. Qed.
Lemma nthZ_tab n f i : 0 <= i < n -> nthZ (tab n f) i = f i.
Proof. intros H. unfold nthZ, tab. replace (i <? 0) with false by lia.
  rewrite nth_indep with (d':= f (Z.of_nat 0)) by (rewrite map_length, seq_length; lia).
  rewrite (map_nth (fun k => f (Z.of_nat k))). rewrite seq_nth by lia. f_equal. lia. Qed.
Lemma mat_eq n f i : mat n f i = f i.
Proof. unfold mat. destruct (inr n i) eqn:E; [|reflexivity]. apply nthZ_tab. unfold inr in E. lia. Qed.
Lemma tab_ext n f g : (forall i, 0 <= i < n -> f i = g i) -> tab n f = tab n g.
Proof. intros H. unfold tab. apply map_ext_in. intros k Hk. apply in_seq in Hk. apply H. lia. Qed.
Lemma tab_of_list l : tab (Z.of_nat (length l)) (of_list l) = l.
Proof. apply nth_ext with (d:=r0 Op) (d':=r0 Op).
  - rewrite tab_length. lia.
  - intros k Hk. rewrite tab_length in Hk.
    assert (E: nthZ (tab (Z.of_nat (length l)) (of_list l)) (Z.of_nat k) = of_list l (Z.of_nat k)) by (apply nthZ_tab; lia).
    unfold of_list, nthZ in E. replace (Z.of_nat k <? 0) with false in E by lia.
    rewrite Nat2Z.id in E. exact E. Qed.
End Sig.

(* ---- Python index / slice normalisation (pure integer functions) ---- *)
(* x[a:b] on a sequence of length len, a,b given as Python ints (negative = from the end) *)
Definition pyclip (len i:Z) : Z := if i <? 0 then Z.max 0 (len + i) else Z.min len i.
(* number of elements of range(a,b,step) for step>0 *)
Definition range_len (a b step:Z) : Z := if b <=? a then 0 else (b - a + step - 1) / step.

(* ---- index maps ---- *)
(* utils.reflect(i, -0.5, N-0.5), transcribed on doubled integers: fmod keeps the sign of the dividend (Z.rem) *)
Definition reflect_model (N i:Z) : Z :=
  let rng2 := 4*N in                       (* 2*rng_by_2, doubled *)
  let m := Z.rem (2*i + 1) rng2 in
  let nm := if m <? 0 then m + rng2 else m in
  let o := if nm >=? 2*N then rng2 - nm else nm in
  (o - 1) / 2.
(* half-sample symmetric extension, period 2N *)
Definition sym_idx (N i:Z) : Z := let m := i mod (2*N) in if m <? N then m else 2*N - 1 - m.
(* np.pad(arange(N), (a,b), 'wrap')[q] *)
Definition wrap_idx (N i:Z) : Z := i mod N.
(* whole-sample symmetric extension, valid for -N < i < 2N-1 (F.pad reflect) *)
Definition refl_idx (N i:Z) : Z := if i <? 0 then - i else if i <? N then i else 2*(N-1) - i.

Lemma reflect_model_sym N i : 0 < N -> reflect_model N i = sym_idx N i.
Proof.
  intros HN. unfold reflect_model, sym_idx. cbv zeta.
  set (q := i / (2*N)). set (r := i mod (2*N)).
  assert (Hi: i = 2*N*q + r) by (unfold q, r; apply Z.div_mod; lia).
  assert (Hr: 0 <= r < 2*N) by (unfold r; apply Z.mod_pos_bound; lia).
  assert (Hnm: (let m := Z.rem (2*i+1) (4*N) in if m <? 0 then m + 4*N else m) = 2*r+1).
  { cbv zeta. destruct (Z_lt_le_dec (2*i+1) 0) as [Hneg|Hpos].
    - assert (E: Z.rem (2*i+1) (4*N) = - ((-(2*i+1)) mod (4*N))).
      { rewrite <- (Z.opp_involutive (2*i+1)) at 1. rewrite Z.rem_opp_l by lia. rewrite Z.rem_mod_nonneg by lia. reflexivity. }
      rewrite E. rewrite <- (Z.mod_unique (-(2*i+1)) (4*N) (-q-1) (4*N-2*r-1)); [ | lia | nia ].
      destruct (_ <? 0) eqn:E1; lia.
    - rewrite Z.rem_mod_nonneg by lia.
      rewrite <- (Z.mod_unique (2*i+1) (4*N) q (2*r+1)); [ | lia | nia ].
      destruct (_ <? 0) eqn:E1; lia. }
  cbv zeta in Hnm. rewrite Hnm. clear Hnm.
  destruct (2*r+1 >=? 2*N) eqn:E2; destruct (r <? N) eqn:E3; try lia.
Qed.
Lemma sym_idx_range N i : 0 < N -> 0 <= sym_idx N i < N.
Proof. intros; unfold sym_idx; cbv zeta. pose proof (Z.mod_pos_bound i (2*N)). destruct (_ <? N) eqn:E; lia. Qed.
Lemma sym_idx_in N i : 0 <= i < N -> sym_idx N i = i.
Proof. intros; unfold sym_idx; cbv zeta. rewrite Z.mod_small by lia. destruct (_ <? N) eqn:E; lia. Qed.
