(* C02 / C17, filter side: the perfect-reconstruction kernel of every PyWavelets filter bank (exact dyadic taps, generated
   from the installed package on every run) deviates from the unit impulse by at most 2^-40 in l1 norm. *)
From Coq Require Import ZArith List Bool String Lia.
From PW Require Import Base.Ops Base.Sum Base.Sig Proofs.LineTheory Gen.PywtTables.
Import ListNotations.
Open Scope Z_scope.

Definition KP : Z := 130.                                  (* common scale 2^-KP for the taps *)
Definition fitsP (d:Z*Z) : bool := 0 <=? snd d + KP.
Definition toZP (d:Z*Z) : Z := fst d * 2 ^ (snd d + KP).
Definition sigP (t:list (Z*Z)) : Z -> Z := let l := map toZP t in mat ZOps (Z.of_nat (List.length l)) (of_list ZOps l).
Definition lenP {A} (l:list A) : Z := Z.of_nat (List.length l).
Definition rangeZ (a b:Z) : list Z := map (fun k => a + Z.of_nat k) (seq 0 (Z.to_nat (b - a))).

(* l1 deviation of the kernel of output parity p from the unit impulse, at scale 2^(2 KP) *)
Definition residual (L:Z) (d0 d1 g0 g1:Z->Z) (p:Z) : Z :=
  fold_left Z.add (map (fun d => Z.abs (Pk ZOps L d0 d1 g0 g1 (-1) L p d - (if d =? 0 then 2 ^ (2*KP) else 0))) (rangeZ (1 - L) L)) 0.
Definition bank_ok (bits:Z) (b:string * bool * list (Z*Z) * list (Z*Z) * list (Z*Z) * list (Z*Z)) : bool :=
  let '(name, orth, dl, dh, rl, rh) := b in
  let L := lenP dl in
  forallb fitsP dl && forallb fitsP dh && forallb fitsP rl && forallb fitsP rh &&
  (lenP dh =? L) && (lenP rl =? L) && (lenP rh =? L) && Z.even L &&
  let d0 := sigP dl in let d1 := sigP dh in let g0 := sigP rl in let g1 := sigP rh in
  (residual L d0 d1 g0 g1 0 <=? 2 ^ (2*KP - bits)) && (residual L d0 d1 g0 g1 1 <=? 2 ^ (2*KP - bits)).
(* dmey is only approximately PR in PyWavelets itself *)
Definition pr_bits (name:string) : Z := if String.eqb name "dmey" then 10 else 40.
Definition all_banks_ok : bool := forallb (fun b => bank_ok (pr_bits (fst (fst (fst (fst (fst b)))))) b) pywt_banks.
Definition n_banks : nat := List.length pywt_banks.

(* ---- what the residual bounds: the reconstruction error on integer data, exactly ---- *)
Lemma abs_sumf_le n a (f:Z->Z) : Z.abs (sumf ZOps n a f) <= sumf ZOps n a (fun i => Z.abs (f i)).
Proof. revert a; induction n as [|n IH]; intros a; cbn [sumf ZOps r0 radd]; [lia|]. specialize (IH (a+1)). cbn [ZOps radd] in *. lia. Qed.
Lemma sumf_le n a (f g:Z->Z) : (forall i, a <= i < a + Z.of_nat n -> f i <= g i) -> sumf ZOps n a f <= sumf ZOps n a g.
Proof. revert a; induction n as [|n IH]; intros a H; cbn [sumf ZOps r0 radd]; [lia|].
  assert (f a <= g a) by (apply H; lia). assert (sumf ZOps n (a+1) f <= sumf ZOps n (a+1) g) by (apply IH; intros; apply H; lia).
  cbn [ZOps radd] in *. lia. Qed.
Lemma sumZ_as_fold a b (f:Z->Z) : sumZ ZOps a b f = fold_left Z.add (map f (rangeZ a b)) 0.
Proof.
  unfold sumZ, rangeZ. set (n := Z.to_nat (b - a)). clearbody n.
  assert (G: forall acc s, fold_left Z.add (map f (map (fun k => a + Z.of_nat k) (seq s n))) acc = acc + sumf ZOps n (a + Z.of_nat s) f).
  { induction n as [|n IH]; intros acc s.
    - cbn [seq map fold_left sumf]. cbn. lia.
    - cbn [seq map fold_left]. rewrite IH. cbn [sumf]. rewrite Nat2Z.inj_succ.
      replace (a + Z.succ (Z.of_nat s)) with (a + Z.of_nat s + 1) by lia. cbn [ZOps radd]. lia. }
  rewrite (G 0 0%nat). replace (a + Z.of_nat 0) with a by lia. lia.
Qed.

(* for ANY integer signal bounded by M, any output index and any window covering the live taps:
   | (scaled synthesis of the scaled analysis) - 2^(2KP) * X_i |  <=  residual * M *)
Theorem recon_error_Z L (d0 d1 g0 g1 X:Z->Z) ka kb i M : 0 < L -> ka <= kb ->
  (forall k, ~(ka <= k < kb) -> ~(0 <= i + (L-2) - 2*k < L)) ->
  (forall u, Z.abs (X u) <= M) ->
  Z.abs (synL ZOps L g0 g1 ka kb (anaL ZOps L d0 X) (anaL ZOps L d1 X) i - 2 ^ (2*KP) * X i)
  <= residual L d0 d1 g0 g1 (i mod 2) * M.
Proof.
  intros HL Hab Hwin HM.
  rewrite (line_pr ZOps ZOk L d0 d1 g0 g1 ltac:(lia) ka kb X i).
  set (c := 2 ^ (2*KP)).
  assert (Hc: c * X i = sumZ ZOps (1-L) L (fun d => rmul ZOps (X (i - d)) (if d =? 0 then c else 0))).
  { rewrite (sumZ_single ZOps ZOk (1-L) L 0) by (try lia; intros d Hd Hne; replace (d =? 0) with false by lia; cbn [rmul ZOps r0]; lia).
    cbn [rmul ZOps]. change (0 =? 0) with true. cbv iota. replace (i - 0) with i by lia. lia. }
  rewrite Hc.
  set (E := fun d => Pk ZOps L d0 d1 g0 g1 ka kb i d - (if d =? 0 then c else 0)).
  replace (sumZ ZOps (1-L) L (fun d => rmul ZOps (X (i-d)) (Pk ZOps L d0 d1 g0 g1 ka kb i d)) - sumZ ZOps (1-L) L (fun d => rmul ZOps (X (i-d)) (if d =? 0 then c else 0)))
    with (sumZ ZOps (1-L) L (fun d => X (i-d) * E d)).
  2:{ transitivity (sumZ ZOps (1-L) L (fun d => radd ZOps (rmul ZOps (X (i-d)) (Pk ZOps L d0 d1 g0 g1 ka kb i d)) (rmul ZOps (-1) (rmul ZOps (X (i-d)) (if d =? 0 then c else 0))))).
      - apply sumZ_ext. intros d Hd. unfold E. cbn [radd rmul ZOps]. lia.
      - rewrite (sumZ_add ZOps ZOk). rewrite (sumZ_scale ZOps ZOk). cbn [radd rmul ZOps]. lia. }
  unfold sumZ at 1. eapply Z.le_trans; [apply abs_sumf_le|].
  unfold residual. rewrite <- sumZ_as_fold. unfold sumZ.
  transitivity (sumf ZOps (Z.to_nat (L - (1 - L))) (1 - L) (fun d => Z.abs (E d) * M)).
  - apply sumf_le. intros d Hd. rewrite Z.abs_mul. specialize (HM (i - d)). pose proof (Z.abs_nonneg (E d)). nia.
  - rewrite (sumf_ext ZOps _ _ (fun d => Z.abs (E d) * M) (fun d => rmul ZOps M (Z.abs (E d)))) by (intros; cbn [rmul ZOps]; lia).
    rewrite (sumf_scale ZOps ZOk). cbn [ZOps rmul].
    assert (Heq: forall d, E d = Pk ZOps L d0 d1 g0 g1 (-1) L (i mod 2) d - (if d =? 0 then c else 0)).
    { intros d. unfold E. rewrite (Pk_canonical ZOps ZOk L d0 d1 g0 g1 ka kb i d HL Hwin Hab). reflexivity. }
    rewrite (sumf_ext ZOps _ _ (fun d => Z.abs (E d)) (fun d => Z.abs (Pk ZOps L d0 d1 g0 g1 (-1) L (i mod 2) d - (if d =? 0 then 2 ^ (2*KP) else 0))))
      by (intros; rewrite Heq; reflexivity).
    lia.
Qed.

Lemma all_banks_hold : forallb (fun b => bank_ok (if String.eqb (fst (fst (fst (fst (fst b))))) "dmey" then 7 else 34) b) pywt_banks = true.
Proof. vm_compute. reflexivity. Qed.
