(* C06 on the tensor-level model: the column pass of coldfilt (dfilt) and the column pass of colifilt (ifilt) with the two
   filters exchanged are adjoint, column by column, when the second filter is the first one reversed. *)
From PW Require Import Base.Ops Base.Sum Base.Sig Base.Tensor Model.Dwt Model.Dtcwt Spec.Line Spec.DtcwtRef
  Proofs.DwtNF Proofs.DtcwtNF Proofs.QshiftAdj Proofs.QshiftPR.
Ltac Zify.zify_post_hook ::= Z.to_euclidean_division_equations.

Section S.
Context {R:Type} (Op:Ops R) (Rth: RingOk Op).
Add Ring Rr : Rth.
Notation ten := (@ten R).
Infix "+r" := (radd Op) (at level 50, left associativity).
Infix "*r" := (rmul Op) (at level 40, left associativity).

Theorem dfilt_ifilt_adjoint_col (x G:ten) L (HA HB:Z->R) (hp:bool) :
  2 <= L -> L mod 2 = 0 -> 4 <= tH x -> tH x mod 4 = 0 -> 1 <= tW x -> 0 < tC x ->
  tN G = tN x -> tC G = tC x -> tH G = tH x / 2 -> tW G = tW x ->
  (forall j, 0 <= j < L -> HB j = HA (L-1-j)) ->
  is_ok (dfilt Op 2 x L (rev_filt L HA) (rev_filt L HB) hp) (fun y =>
  is_ok (ifilt Op 2 G L (rev_filt L HB) (rev_filt L HA) hp) (fun dx =>
    tH y = tH G /\ tH dx = tH x /\
    forall n c j, 0 <= c < tC x -> 0 <= j < tW x ->
      let two := r1 Op +r r1 Op in
      two *r dot Op (tH G) (fun k => tf y n c k j) (fun k => tf G n c k j)
      = two *r dot Op (tH x) (fun i => tf x n c i j) (fun i => tf dx n c i j))).
Proof.
  intros HL HLe HH H4 HW HC G1 G2 G3 G4 Hrev.
  pose proof (dfilt_ref_col Op Rth x L HA HB hp HL HH H4 HW HC) as Ha.
  destruct (dfilt Op 2 x L _ _ hp) as [y|]; [|contradiction]. cbn [is_ok] in *.
  destruct Ha as (A1 & A2 & A3 & A4 & A5).
  pose proof (ifilt_ref_col Op Rth G L HB HA hp HL HLe ltac:(lia) ltac:(lia) ltac:(lia) ltac:(lia)) as Hb.
  destruct (ifilt Op 2 G L _ _ hp) as [dx|]; [|contradiction]. cbn [is_ok] in *.
  destruct Hb as (B1 & B2 & B3 & B4 & B5).
  repeat apply conj; try lia.
  intros n c j Hc Hj.
  pose proof (coldfilt_colifilt_adjoint2 Op Rth L (tH x) HA HB (fun q => tf x n c q j) (fun q => tf G n c q j) (negb hp)
                HL HLe ltac:(lia) H4 Hrev) as H. cbv zeta in H.
  unfold dot in *. rewrite G3.
  rewrite (sumZ_ext Op 0 (tH x / 2) _ (fun k => ref_coldfilt Op L (tH x) HA HB (fun q => tf x n c q j) (negb hp) k *r tf G n c k j))
    by (intros k Hk; rewrite A5 by lia; reflexivity).
  rewrite (sumZ_ext Op 0 (tH x) (fun i => tf x n c i j *r tf dx n c i j)
             (fun i => tf x n c i j *r ref_colifilt Op L (tH x / 2) HB HA (fun q => tf G n c q j) (negb hp) i))
    by (intros i Hi; rewrite B5 by lia; rewrite G3; reflexivity).
  exact H.
Qed.
End S.

(* C04 on the tensor-level model: one q-shift stage of the column pass reconstructs (lowpass branch hp = false, highpass hp = true) *)
Section PR.
Context {R:Type} (Op:Ops R) (Rth: RingOk Op).
Add Ring Rr4 : Rth.
Notation ten := (@ten R).
Infix "+r" := (radd Op) (at level 50, left associativity).

Lemma ref_colifilt_ext m r' ga gb (g g':Z->R) pos u : 0 < r' -> (forall k, 0 <= k < r' -> g k = g' k) ->
  ref_colifilt Op m r' ga gb g pos u = ref_colifilt Op m r' ga gb g' pos u.
Proof.
  intros Hr H. unfold ref_colifilt. cbv zeta.
  assert (E: forall f p c i, ibranch Op (m/2) r' f p c g i = ibranch Op (m/2) r' f p c g' i).
  { intros f p c i. unfold ibranch. apply sumZ_ext. intros k Hk. f_equal. unfold ext_sym. apply H. apply sym_idx_range. lia. }
  repeat match goal with |- context [if ?b then _ else _] => destruct b end; apply E.
Qed.

Theorem dfilt_ifilt_pr_col (x:ten) L (H0A H0B G0A G0B H1A H1B G1A G1B:Z->R) :
  2 <= L -> L mod 2 = 0 -> 4 <= tH x -> tH x mod 4 = 0 -> 1 <= tW x -> 0 < tC x ->
  RevPair L H0A H0B -> RevPair L G0A G0B -> RevPair L H1A H1B -> RevPair L G1A G1B ->
  QPRref Op L true H0A H0B G0A G0B false H1A H1B G1A G1B ->
  is_ok (dfilt Op 2 x L (rev_filt L H0A) (rev_filt L H0B) false) (fun lo =>
  is_ok (dfilt Op 2 x L (rev_filt L H1A) (rev_filt L H1B) true) (fun hi =>
  is_ok (ifilt Op 2 lo L (rev_filt L G0A) (rev_filt L G0B) false) (fun y0 =>
  is_ok (ifilt Op 2 hi L (rev_filt L G1A) (rev_filt L G1B) true) (fun y1 =>
    tH y0 = tH x /\ tH y1 = tH x /\
    forall n c i j, 0 <= c < tC x -> 0 <= i < tH x -> 0 <= j < tW x -> tf y0 n c i j +r tf y1 n c i j = tf x n c i j)))).
Proof.
  intros HL HLe HH H4 HW HC R0 S0 R1 S1 HQ.
  pose proof (dfilt_ref_col Op Rth x L H0A H0B false HL HH H4 HW HC) as Ha.
  destruct (dfilt Op 2 x L _ _ false) as [lo|]; [|contradiction]. cbn [is_ok] in *. destruct Ha as (A1 & A2 & A3 & A4 & A5).
  pose proof (dfilt_ref_col Op Rth x L H1A H1B true HL HH H4 HW HC) as Hb.
  destruct (dfilt Op 2 x L _ _ true) as [hi|]; [|contradiction]. cbn [is_ok] in *. destruct Hb as (B1 & B2 & B3 & B4 & B5).
  pose proof (ifilt_ref_col Op Rth lo L G0A G0B false HL HLe ltac:(lia) ltac:(lia) ltac:(lia) ltac:(lia)) as Hc.
  destruct (ifilt Op 2 lo L _ _ false) as [y0|]; [|contradiction]. cbn [is_ok] in *. destruct Hc as (C1 & C2 & C3 & C4 & C5).
  pose proof (ifilt_ref_col Op Rth hi L G1A G1B true HL HLe ltac:(lia) ltac:(lia) ltac:(lia) ltac:(lia)) as Hd.
  destruct (ifilt Op 2 hi L _ _ true) as [y1|]; [|contradiction]. cbn [is_ok] in *. destruct Hd as (D1 & D2 & D3 & D4 & D5).
  repeat apply conj; try lia.
  intros n c i j Hc' Hi Hj. rewrite C5 by lia. rewrite D5 by lia. rewrite A3, B3. cbn [negb].
  rewrite (ref_colifilt_ext L (tH x / 2) G0A G0B _ (ref_coldfilt Op L (tH x) H0A H0B (fun q => tf x n c q j) true) true i)
    by (try lia; intros k Hk; rewrite A5 by lia; reflexivity).
  rewrite (ref_colifilt_ext L (tH x / 2) G1A G1B _ (ref_coldfilt Op L (tH x) H1A H1B (fun q => tf x n c q j) false) false i)
    by (try lia; intros k Hk; rewrite B5 by lia; reflexivity).
  exact (qshift_pr_ref Op Rth L (tH x) true false H0A H0B G0A G0B H1A H1B G1A G1B (fun q => tf x n c q j) i
           HL HLe ltac:(lia) H4 R0 S0 R1 S1 HQ Hi).
Qed.
End PR.
