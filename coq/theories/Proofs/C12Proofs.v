(* C12 on the model of DTCWTForward: skipping levels only removes those levels' highpass outputs; the per-level results
   of a J-level transform are a prefix of those of any longer transform (so the first j levels, and the lowpass after each
   level, are those of the j-level transform). *)
From PW Require Import Base.Ops Base.Sum Base.Sig Base.Tensor Model.Dwt Model.Dtcwt.

Section S.
Context {R:Type} (Op:Ops R).
Notation ten := (@ten R).
Variable s : R.

(* one level with the highpass outputs masked *)
Definition mask1 (sk:bool) (r:ten * list ten) : ten * list ten := if sk then (fst r, nil) else r.

Lemma fwd_j1_skip x Lo0 h0o Lo1 h1o mode r :
  fwd_j1 Op s x Lo0 h0o Lo1 h1o false mode = Ok r -> fwd_j1 Op s x Lo0 h0o Lo1 h1o true mode = Ok (fst r, nil).
Proof.
  unfold fwd_j1. intros H.
  destruct (linefilter Op 3 x Lo0 h0o mode) as [lo|]; cbn [bind] in *; [|discriminate].
  destruct (linefilter Op 3 x Lo1 h1o mode) as [hi|]; cbn [bind] in *; [|discriminate].
  destruct (linefilter Op 2 lo Lo0 h0o mode) as [ll|]; cbn [bind] in *; [|discriminate].
  destruct (linefilter Op 2 lo Lo1 h1o mode) as [lh|]; cbn [bind] in *; [|discriminate].
  destruct (linefilter Op 2 hi Lo0 h0o mode) as [hl|]; cbn [bind] in *; [|discriminate].
  destruct (linefilter Op 2 hi Lo1 h1o mode) as [hh|]; cbn [bind] in *; [|discriminate].
  inversion H. reflexivity.
Qed.
Lemma fwd_j2plus_skip x L0 h0a h0b L1 h1a h1b r :
  fwd_j2plus Op s x L0 h0a h0b L1 h1a h1b false = Ok r -> fwd_j2plus Op s x L0 h0a h0b L1 h1a h1b true = Ok (fst r, nil).
Proof.
  unfold fwd_j2plus. intros H.
  destruct (dfilt Op 3 x L0 h0b h0a false) as [lo|]; cbn [bind] in *; [|discriminate].
  destruct (dfilt Op 3 x L1 h1b h1a true) as [hi|]; cbn [bind] in *; [|discriminate].
  destruct (dfilt Op 2 lo L0 h0b h0a false) as [ll|]; cbn [bind] in *; [|discriminate].
  destruct (dfilt Op 2 lo L1 h1b h1a true) as [lh|]; cbn [bind] in *; [|discriminate].
  destruct (dfilt Op 2 hi L0 h0b h0a false) as [hl|]; cbn [bind] in *; [|discriminate].
  destruct (dfilt Op 2 hi L1 h1b h1a true) as [hh|]; cbn [bind] in *; [|discriminate].
  inversion H. reflexivity.
Qed.

Fixpoint maskl (m:list bool) (l:list (ten * list ten)) : list (ten * list ten) :=
  match m, l with sk :: m', r :: l' => mask1 sk r :: maskl m' l' | _, _ => nil end.

(* levels 2..J: any mask of the same length gives the masked result, same lowpasses *)
Lemma fwd_levels_mask L0 h0a h0b L1 h1a h1b : forall (m:list bool) (low:ten) fl ls,
  fwd_levels Op s (map (fun _ => false) m) low L0 h0a h0b L1 h1a h1b = Ok (fl, ls) ->
  fwd_levels Op s m low L0 h0a h0b L1 h1a h1b = Ok (fl, maskl m ls).
Proof.
  induction m as [|sk m IH]; intros low fl ls H; cbn [map fwd_levels] in *.
  - inversion H. reflexivity.
  - destruct (fwd_j2plus Op s (force Op (pad4 low)) L0 h0a h0b L1 h1a h1b false) as [[l hs]|] eqn:E; cbn [bind] in H; [|discriminate].
    destruct (fwd_levels Op s (map (fun _ => false) m) l L0 h0a h0b L1 h1a h1b) as [[fl' ls']|] eqn:E2; cbn [bind] in H; [|discriminate].
    inversion H; subst fl ls. specialize (IH l fl' ls' E2).
    destruct sk.
    + rewrite (fwd_j2plus_skip _ _ _ _ _ _ _ _ E). cbn [bind fst]. rewrite IH. cbn [bind maskl mask1 fst]. reflexivity.
    + rewrite E. cbn [bind]. rewrite IH. cbn [bind maskl mask1]. reflexivity.
Qed.

Theorem DTCWTForward_mask (m:list bool) x Lo0 h0o Lo1 h1o L0 h0a h0b L1 h1a h1b mode l :
  DTCWTForward Op s (map (fun _ => false) m) x Lo0 h0o Lo1 h1o L0 h0a h0b L1 h1a h1b mode = Ok l ->
  DTCWTForward Op s m x Lo0 h0o Lo1 h1o L0 h0a h0b L1 h1a h1b mode = Ok (maskl m l).
Proof.
  destruct m as [|sk m]; cbn [map DTCWTForward]; intros H; [discriminate|].
  destruct (fwd_j1 Op s (force Op (ext_even x)) Lo0 h0o Lo1 h1o false mode) as [[l1 hs]|] eqn:E; cbn [bind] in H; [|discriminate].
  destruct (fwd_levels Op s (map (fun _ => false) m) l1 L0 h0a h0b L1 h1a h1b) as [[fl ls]|] eqn:E2; cbn [bind snd] in H; [|discriminate].
  inversion H; subst l. pose proof (fwd_levels_mask L0 h0a h0b L1 h1a h1b m l1 fl ls E2) as IH.
  destruct sk.
  - rewrite (fwd_j1_skip _ _ _ _ _ _ _ E). cbn [bind fst]. rewrite IH. cbn [bind snd maskl mask1 fst]. reflexivity.
  - rewrite E. cbn [bind]. rewrite IH. cbn [bind snd maskl mask1]. reflexivity.
Qed.

(* prefix consistency *)
Lemma fwd_levels_app L0 h0a h0b L1 h1a h1b : forall (m1 m2:list bool) (low:ten) fl ls,
  fwd_levels Op s (m1 ++ m2) low L0 h0a h0b L1 h1a h1b = Ok (fl, ls) ->
  exists fl1 ls1, fwd_levels Op s m1 low L0 h0a h0b L1 h1a h1b = Ok (fl1, ls1) /\ ls1 = firstn (length m1) ls /\
     fwd_levels Op s m2 fl1 L0 h0a h0b L1 h1a h1b = Ok (fl, skipn (length m1) ls).
Proof.
  induction m1 as [|sk m1 IH]; intros m2 low fl ls H; cbn [app fwd_levels length firstn skipn] in *.
  - exists low, nil. repeat split. exact H.
  - destruct (fwd_j2plus Op s (force Op (pad4 low)) L0 h0a h0b L1 h1a h1b sk) as [[l hs]|] eqn:E; cbn [bind] in *; [|discriminate].
    destruct (fwd_levels Op s (m1 ++ m2) l L0 h0a h0b L1 h1a h1b) as [[fl' ls']|] eqn:E2; cbn [bind] in H; [|discriminate].
    inversion H; subst fl ls. destruct (IH m2 l fl' ls' E2) as (fl1 & ls1 & A & B & C).
    exists fl1, ((l, hs) :: ls1). rewrite A. cbn [bind firstn skipn]. repeat split; [rewrite B; reflexivity | exact C].
Qed.

Theorem DTCWTForward_prefix (m1 m2:list bool) x Lo0 h0o Lo1 h1o L0 h0a h0b L1 h1a h1b mode l : m1 <> nil ->
  DTCWTForward Op s (m1 ++ m2) x Lo0 h0o Lo1 h1o L0 h0a h0b L1 h1a h1b mode = Ok l ->
  DTCWTForward Op s m1 x Lo0 h0o Lo1 h1o L0 h0a h0b L1 h1a h1b mode = Ok (firstn (length m1) l).
Proof.
  destruct m1 as [|sk m1]; [congruence|]. intros _. cbn [app DTCWTForward length firstn]. intros H.
  destruct (fwd_j1 Op s (force Op (ext_even x)) Lo0 h0o Lo1 h1o sk mode) as [[l1 hs]|] eqn:E; cbn [bind] in *; [|discriminate].
  destruct (fwd_levels Op s (m1 ++ m2) l1 L0 h0a h0b L1 h1a h1b) as [[fl ls]|] eqn:E2; cbn [bind snd] in H; [|discriminate].
  inversion H; subst l. destruct (fwd_levels_app L0 h0a h0b L1 h1a h1b m1 m2 l1 fl ls E2) as (fl1 & ls1 & A & B & C).
  rewrite A. cbn [bind snd firstn]. rewrite B. reflexivity.
Qed.
End S.
