(* Level 1 of the DTCWT on the tensor-level model, 2-D: inv_j1 (fwd_j1 x) = x in symmetric mode, for any symmetric odd
   analysis pair and any synthesis pair meeting the biorthogonal kernel condition BiortPR; even image sizes (the module
   extends odd sizes first), 2 s^2 = 1. *)
From PW Require Import Base.Ops Base.Sum Base.Sig Base.Tensor Model.Dwt Model.Dtcwt Spec.Line Spec.DtcwtRef
  Proofs.DwtNF Proofs.SfbNF Proofs.DtcwtNF Proofs.DtcwtNFrow Proofs.QuadProofs Proofs.SymExt Proofs.QshiftLevel.
Ltac Zify.zify_post_hook ::= Z.to_euclidean_division_equations.

Section S.
Context {R:Type} (Op:Ops R) (Rth: RingOk Op).
Add Ring Rr : Rth.
Notation ten := (@ten R).
Infix "+r" := (radd Op) (at level 50, left associativity).
Infix "*r" := (rmul Op) (at level 40, left associativity).
Notation sumZ := (sumZ Op).

Variables (Lh0 Lg0 Lh1 Lg1 M:Z) (h0 g0 h1 g1:Z->R).
Hypothesis Hodd : Lh0 mod 2 = 1 /\ Lh1 mod 2 = 1.
Hypothesis Hsym : Symmetric Lh0 h0 /\ Symmetric Lh1 h1.
Hypothesis Hlen : 1 <= Lg0 /\ 1 <= Lg1 /\ 1 <= Lh0 /\ 1 <= Lh1 /\ Lg0 mod 2 = 1 /\ Lg1 mod 2 = 1.
Hypothesis HM : Lg0/2 + Lh0/2 = M /\ Lg1/2 + Lh1/2 = M /\ Lg0 + Lh0 - 1 = 2*M + 1 /\ Lg1 + Lh1 - 1 = 2*M + 1.
Hypothesis HPR : BiortPR Op Lh0 Lg0 Lh1 Lg1 M h0 g0 h1 g1.

Lemma col_stage1 (X A B:ten) : 1 <= tH X -> 1 <= tW X -> 0 < tC X ->
  tN A = tN X -> tC A = tC X -> tH A = tH X -> tW A = tW X ->
  tN B = tN X -> tC B = tC X -> tH B = tH X -> tW B = tW X ->
  (forall n c k j, 0 <= c < tC X -> 0 <= k < tH X -> 0 <= j < tW X ->
     tf A n c k j = cfline Op Lh0 (tH X) h0 (fun q => tf X n c q j) k /\
     tf B n c k j = cfline Op Lh1 (tH X) h1 (fun q => tf X n c q j) k) ->
  is_ok (radd_res Op (linefilter Op 2 B Lg1 g1 M_SYMM) (linefilter Op 2 A Lg0 g0 M_SYMM)) (same_on X).
Proof.
  intros HH HW HC A1 A2 A3 A4 B1 B2 B3 B4 Hv.
  destruct Hlen as (Lg0p & Lg1p & Lh0p & Lh1p & Lg0o & Lg1o). destruct Hodd as (O0 & O1). destruct Hsym as (Y0 & Y1).
  destruct HM as (M0 & M1 & N0 & N1).
  pose proof (linefilter_sym_col Op Rth B Lg1 g1 Lg1p ltac:(lia) ltac:(lia) ltac:(lia)) as Hb.
  pose proof (linefilter_sym_col Op Rth A Lg0 g0 Lg0p ltac:(lia) ltac:(lia) ltac:(lia)) as Ha.
  unfold radd_res.
  destruct (linefilter Op 2 B Lg1 g1 M_SYMM) as [yb|]; [|contradiction]. destruct (linefilter Op 2 A Lg0 g0 M_SYMM) as [ya|]; [|contradiction].
  cbn [is_ok bind] in *. destruct Hb as (D1 & D2 & D3 & D4 & D5). destruct Ha as (C1 & C2 & C3 & C4 & C5).
  replace (same_shape yb ya) with true by (unfold same_shape; lia). cbn [is_ok].
  unfold same_on. cbn [force t_add tN tC tH tW]. repeat apply conj; try lia.
  intros n c i j Hc Hi Hj. rewrite force_eq. cbn [t_add tf]. rewrite D5, C5 by lia. rewrite A3, B3.
  set (xc := fun q => tf X n c q j).
  transitivity (cfline Op Lg1 (tH X) g1 (cfline Op Lh1 (tH X) h1 xc) i +r cfline Op Lg0 (tH X) g0 (cfline Op Lh0 (tH X) h0 xc) i).
  - unfold cfline at 1 3. f_equal; apply sumZ_ext; intros a Ha; f_equal; unfold ext_sym.
    + apply (proj2 (Hv n c _ j Hc ltac:(apply sym_idx_range; lia) Hj)).
    + apply (proj1 (Hv n c _ j Hc ltac:(apply sym_idx_range; lia) Hj)).
  - rewrite (Rth.(Radd_comm)).
    exact (level1_pr_line Op Rth Lh0 Lg0 Lh1 Lg1 M (tH X) h0 g0 h1 g1 xc i ltac:(lia) O0 O1 Y0 Y1 Lg0p Lg1p Lh0p Lh1p M0 M1 N0 N1 HPR Hi).
Qed.

Lemma row_stage1 (X A B:ten) : 1 <= tH X -> 1 <= tW X -> 0 < tC X ->
  tN A = tN X -> tC A = tC X -> tH A = tH X -> tW A = tW X ->
  tN B = tN X -> tC B = tC X -> tH B = tH X -> tW B = tW X ->
  (forall n c i k, 0 <= c < tC X -> 0 <= k < tW X -> 0 <= i < tH X ->
     tf A n c i k = cfline Op Lh0 (tW X) h0 (fun q => tf X n c i q) k /\
     tf B n c i k = cfline Op Lh1 (tW X) h1 (fun q => tf X n c i q) k) ->
  is_ok (radd_res Op (linefilter Op 3 B Lg1 g1 M_SYMM) (linefilter Op 3 A Lg0 g0 M_SYMM)) (same_on X).
Proof.
  intros HH HW HC A1 A2 A3 A4 B1 B2 B3 B4 Hv.
  destruct Hlen as (Lg0p & Lg1p & Lh0p & Lh1p & Lg0o & Lg1o). destruct Hodd as (O0 & O1). destruct Hsym as (Y0 & Y1).
  destruct HM as (M0 & M1 & N0 & N1).
  pose proof (linefilter_sym_row Op Rth B Lg1 g1 Lg1p ltac:(lia) ltac:(lia) ltac:(lia)) as Hb.
  pose proof (linefilter_sym_row Op Rth A Lg0 g0 Lg0p ltac:(lia) ltac:(lia) ltac:(lia)) as Ha.
  unfold radd_res.
  destruct (linefilter Op 3 B Lg1 g1 M_SYMM) as [yb|]; [|contradiction]. destruct (linefilter Op 3 A Lg0 g0 M_SYMM) as [ya|]; [|contradiction].
  cbn [is_ok bind] in *. destruct Hb as (D1 & D2 & D3 & D4 & D5). destruct Ha as (C1 & C2 & C3 & C4 & C5).
  replace (same_shape yb ya) with true by (unfold same_shape; lia). cbn [is_ok].
  unfold same_on. cbn [force t_add tN tC tH tW]. repeat apply conj; try lia.
  intros n c i j Hc Hi Hj. rewrite force_eq. cbn [t_add tf]. rewrite D5, C5 by lia. rewrite A4, B4.
  set (xr := fun q => tf X n c i q).
  transitivity (cfline Op Lg1 (tW X) g1 (cfline Op Lh1 (tW X) h1 xr) j +r cfline Op Lg0 (tW X) g0 (cfline Op Lh0 (tW X) h0 xr) j).
  - unfold cfline at 1 3. f_equal; apply sumZ_ext; intros a Ha; f_equal; unfold ext_sym.
    + apply (proj2 (Hv n c i _ Hc ltac:(apply sym_idx_range; lia) Hi)).
    + apply (proj1 (Hv n c i _ Hc ltac:(apply sym_idx_range; lia) Hi)).
  - rewrite (Rth.(Radd_comm)).
    exact (level1_pr_line Op Rth Lh0 Lg0 Lh1 Lg1 M (tW X) h0 g0 h1 g1 xr j ltac:(lia) O0 O1 Y0 Y1 Lg0p Lg1p Lh0p Lh1p M0 M1 N0 N1 HPR Hj).
Qed.

Variable s : R.
Hypothesis two_s2 : (r1 Op +r r1 Op) *r s *r s = r1 Op.

Lemma linefilter_cf_col (x:ten) Lh h : 1 <= Lh -> Lh mod 2 = 1 -> 1 <= tH x -> 1 <= tW x -> 0 < tC x ->
  is_ok (linefilter Op 2 x Lh h M_SYMM) (fun y => tN y = tN x /\ tC y = tC x /\ tH y = tH x /\ tW y = tW x /\
    forall n c i j, 0 <= c < tC x -> 0 <= i < tH x -> 0 <= j < tW x -> tf y n c i j = cfline Op Lh (tH x) h (fun q => tf x n c q j) i).
Proof.
  intros HL HLo HH HW HC. pose proof (linefilter_sym_col Op Rth x Lh h HL HH HW HC) as H.
  destruct (linefilter Op 2 x Lh h M_SYMM) as [y|]; [|contradiction]. cbn [is_ok] in *. destruct H as (A1 & A2 & A3 & A4 & A5).
  repeat apply conj; try lia. intros n c i j Hc Hi Hj. rewrite A5 by lia. reflexivity.
Qed.
Lemma linefilter_cf_row (x:ten) Lh h : 1 <= Lh -> Lh mod 2 = 1 -> 1 <= tH x -> 1 <= tW x -> 0 < tC x ->
  is_ok (linefilter Op 3 x Lh h M_SYMM) (fun y => tN y = tN x /\ tC y = tC x /\ tH y = tH x /\ tW y = tW x /\
    forall n c i j, 0 <= c < tC x -> 0 <= i < tH x -> 0 <= j < tW x -> tf y n c i j = cfline Op Lh (tW x) h (fun q => tf x n c i q) j).
Proof.
  intros HL HLo HH HW HC. pose proof (linefilter_sym_row Op Rth x Lh h HL HH HW HC) as H.
  destruct (linefilter Op 3 x Lh h M_SYMM) as [y|]; [|contradiction]. cbn [is_ok] in *. destruct H as (A1 & A2 & A3 & A4 & A5).
  repeat apply conj; try lia. intros n c i j Hc Hi Hj. rewrite A5 by lia. reflexivity.
Qed.

Theorem level1_pr_2d_ext (x:ten) : 2 <= tH x -> tH x mod 2 = 0 -> 2 <= tW x -> tW x mod 2 = 0 -> 0 < tC x ->
  is_ok (fwd_j1 Op s x Lh0 h0 Lh1 h1 false M_SYMM) (fun r =>
    tN (fst r) = tN x /\ tC (fst r) = tC x /\ tH (fst r) = tH x /\ tW (fst r) = tW x /\
    snd r <> nil /\ tH (pl Op (snd r) 0 0) = tH x / 2 /\ tW (pl Op (snd r) 0 0) = tW x / 2 /\
    forall ll', same_on (fst r) ll' ->
    is_ok (inv_j1 Op s (Some ll') (snd r) Lg0 g0 Lg1 g1 M_SYMM) (same_on x)).
Proof.
  intros HH HHe HW HWe HC.
  destruct Hlen as (Lg0p & Lg1p & Lh0p & Lh1p & Lg0o & Lg1o). destruct Hodd as (O0 & O1).
  unfold fwd_j1.
  pose proof (linefilter_cf_row x Lh0 h0 Lh0p O0 ltac:(lia) ltac:(lia) HC) as Hlo.
  destruct (linefilter Op 3 x Lh0 h0 M_SYMM) as [lo|]; [|contradiction]. cbn [is_ok bind] in *. destruct Hlo as (P1 & P2 & P3 & P4 & P5).
  pose proof (linefilter_cf_row x Lh1 h1 Lh1p O1 ltac:(lia) ltac:(lia) HC) as Hhi.
  destruct (linefilter Op 3 x Lh1 h1 M_SYMM) as [hi|]; [|contradiction]. cbn [is_ok bind] in *. destruct Hhi as (Q1 & Q2 & Q3 & Q4 & Q5).
  pose proof (linefilter_cf_col lo Lh0 h0 Lh0p O0 ltac:(lia) ltac:(lia) ltac:(lia)) as Hll.
  destruct (linefilter Op 2 lo Lh0 h0 M_SYMM) as [ll|]; [|contradiction]. cbn [is_ok bind] in *. destruct Hll as (A1 & A2 & A3 & A4 & A5).
  pose proof (linefilter_cf_col lo Lh1 h1 Lh1p O1 ltac:(lia) ltac:(lia) ltac:(lia)) as Hlh.
  destruct (linefilter Op 2 lo Lh1 h1 M_SYMM) as [lh|]; [|contradiction]. cbn [is_ok bind] in *. destruct Hlh as (B1 & B2 & B3 & B4 & B5).
  pose proof (linefilter_cf_col hi Lh0 h0 Lh0p O0 ltac:(lia) ltac:(lia) ltac:(lia)) as Hhl.
  destruct (linefilter Op 2 hi Lh0 h0 M_SYMM) as [hl|]; [|contradiction]. cbn [is_ok bind] in *. destruct Hhl as (C1 & C2 & C3 & C4 & C5).
  pose proof (linefilter_cf_col hi Lh1 h1 Lh1p O1 ltac:(lia) ltac:(lia) ltac:(lia)) as Hhh.
  destruct (linefilter Op 2 hi Lh1 h1 M_SYMM) as [hh|]; [|contradiction]. cbn [is_ok bind fst snd] in *. destruct Hhh as (D1 & D2 & D3 & D4 & D5).
  pose proof (c2q_q2c_same Op Rth s two_s2 lh ltac:(lia) ltac:(lia) ltac:(lia) ltac:(lia)) as Elh.
  pose proof (c2q_q2c_same Op Rth s two_s2 hl ltac:(lia) ltac:(lia) ltac:(lia) ltac:(lia)) as Ehl.
  pose proof (c2q_q2c_same Op Rth s two_s2 hh ltac:(lia) ltac:(lia) ltac:(lia) ltac:(lia)) as Ehh.
  assert (Hd15: let '((z1r, _), _) := q2c Op s lh in tH z1r = tH lh / 2 /\ tW z1r = tW lh / 2).
  { unfold q2c. cbv zeta. cbn [force t_sub t_add poly t_scale tN tC tH tW]. unfold range_len.
    replace (tH lh <=? 0) with false by lia. replace (tW lh <=? 0) with false by lia. split; lia. }
  unfold highs_to_orientations.
  destruct (q2c Op s lh) as ((d15r, d15i), (d165r, d165i)).
  destruct (q2c Op s hh) as ((d45r, d45i), (d135r, d135i)).
  destruct (q2c Op s hl) as ((d75r, d75i), (d105r, d105i)).
  destruct Hd15 as (K1 & K2).
  repeat apply conj; try lia; try discriminate;
    try (unfold pl; change (Z.to_nat (2*0+0)) with 0%nat; cbn [nth]; lia).
  intros ll' (U1 & U2 & U3 & U4 & U5).
  unfold inv_j1, orientations_to_highs, pl.
  change (Z.to_nat (2*0+0)) with 0%nat. change (Z.to_nat (2*0+1)) with 1%nat. change (Z.to_nat (2*1+0)) with 2%nat. change (Z.to_nat (2*1+1)) with 3%nat.
  change (Z.to_nat (2*2+0)) with 4%nat. change (Z.to_nat (2*2+1)) with 5%nat. change (Z.to_nat (2*3+0)) with 6%nat. change (Z.to_nat (2*3+1)) with 7%nat.
  change (Z.to_nat (2*4+0)) with 8%nat. change (Z.to_nat (2*4+1)) with 9%nat. change (Z.to_nat (2*5+0)) with 10%nat. change (Z.to_nat (2*5+1)) with 11%nat.
  cbn [nth].
  (* no crop: the lowpass has exactly twice the size of a highpass plane *)
  replace (crop_ll ll' (tH d15r) (tW d15r)) with ll'
    by (unfold crop_ll; replace (negb (tH ll' =? 2 * tH d15r)) with false by lia; replace (negb (tW ll' =? 2 * tW d15r)) with false by lia; reflexivity).
  set (lh' := c2q Op s d15r d15i d165r d165i) in *. set (hl' := c2q Op s d75r d75i d105r d105i) in *. set (hh' := c2q Op s d45r d45i d135r d135i) in *.
  destruct Elh as (E1 & E2 & E3 & E4 & E5). destruct Ehl as (F1 & F2 & F3 & F4 & F5). destruct Ehh as (G1 & G2 & G3 & G4 & G5).
  pose proof (col_stage1 hi hl' hh' ltac:(lia) ltac:(lia) ltac:(lia) ltac:(lia) ltac:(lia) ltac:(lia) ltac:(lia) ltac:(lia) ltac:(lia) ltac:(lia) ltac:(lia)) as Hhi'.
  assert (Vhi: forall n c k j, 0 <= c < tC hi -> 0 <= k < tH hi -> 0 <= j < tW hi ->
     tf hl' n c k j = cfline Op Lh0 (tH hi) h0 (fun q => tf hi n c q j) k /\
     tf hh' n c k j = cfline Op Lh1 (tH hi) h1 (fun q => tf hi n c q j) k).
  { intros n c k j Hc Hk Hj. split; [rewrite F5 by lia; rewrite C5 by lia | rewrite G5 by lia; rewrite D5 by lia]; reflexivity. }
  specialize (Hhi' Vhi).
  destruct (radd_res Op (linefilter Op 2 hh' Lg1 g1 M_SYMM) (linefilter Op 2 hl' Lg0 g0 M_SYMM)) as [hi2|]; [|contradiction]. cbn [is_ok bind] in *.
  destruct Hhi' as (I1 & I2 & I3 & I4 & I5).
  pose proof (col_stage1 lo ll' lh' ltac:(lia) ltac:(lia) ltac:(lia) ltac:(lia) ltac:(lia) ltac:(lia) ltac:(lia) ltac:(lia) ltac:(lia) ltac:(lia) ltac:(lia)) as Hlo'.
  assert (Vlo: forall n c k j, 0 <= c < tC lo -> 0 <= k < tH lo -> 0 <= j < tW lo ->
     tf ll' n c k j = cfline Op Lh0 (tH lo) h0 (fun q => tf lo n c q j) k /\
     tf lh' n c k j = cfline Op Lh1 (tH lo) h1 (fun q => tf lo n c q j) k).
  { intros n c k j Hc Hk Hj. split; [rewrite U5 by lia; rewrite A5 by lia | rewrite E5 by lia; rewrite B5 by lia]; reflexivity. }
  specialize (Hlo' Vlo).
  destruct (radd_res Op (linefilter Op 2 lh' Lg1 g1 M_SYMM) (linefilter Op 2 ll' Lg0 g0 M_SYMM)) as [lo2|]; [|contradiction]. cbn [is_ok bind] in *.
  destruct Hlo' as (J1 & J2 & J3 & J4 & J5).
  apply (row_stage1 x lo2 hi2); try lia.
  intros n c i k Hc Hk Hi. split; [rewrite J5 by lia; rewrite P5 by lia | rewrite I5 by lia; rewrite Q5 by lia]; reflexivity.
Qed.
Corollary level1_pr_2d (x:ten) : 2 <= tH x -> tH x mod 2 = 0 -> 2 <= tW x -> tW x mod 2 = 0 -> 0 < tC x ->
  is_ok (fwd_j1 Op s x Lh0 h0 Lh1 h1 false M_SYMM) (fun r =>
  is_ok (inv_j1 Op s (Some (fst r)) (snd r) Lg0 g0 Lg1 g1 M_SYMM) (same_on x)).
Proof.
  intros HH HHe HW HWe HC. pose proof (level1_pr_2d_ext x HH HHe HW HWe HC) as H.
  destruct (fwd_j1 Op s x Lh0 h0 Lh1 h1 false M_SYMM) as [r|]; [|contradiction]. cbn [is_ok] in *.
  destruct H as (_ & _ & _ & _ & _ & _ & _ & H). apply H. apply same_on_refl.
Qed.
End S.
