(* The smooth magnitude over Coq's real numbers: non-negativity, partial derivatives, bounded (finite) gradient.
   Uses the standard library real-number axioms and, through Coquelicot, classical logic. *)
From Coq Require Import Reals Lra.
From Coquelicot Require Import Coquelicot.
Open Scope R_scope.

Definition smagR (b x y:R) : R := sqrt (x*x + y*y + b*b) - b.

Lemma smag_dx b x y : b <> 0 -> is_derive (fun t => smagR b t y) x (x / sqrt (x*x+y*y+b*b)).
Proof.
  intros Hb. unfold smagR.
  assert (0 < x*x+y*y+b*b) by nra.
  auto_derive. exact H. field. apply Rgt_not_eq. apply sqrt_lt_R0. exact H.
Qed.
Lemma smag_dy b x y : b <> 0 -> is_derive (fun t => smagR b x t) y (y / sqrt (x*x+y*y+b*b)).
Proof.
  intros Hb. unfold smagR.
  assert (0 < x*x+y*y+b*b) by nra.
  auto_derive. exact H. field. apply Rgt_not_eq. apply sqrt_lt_R0. exact H.
Qed.
Lemma smag_nonneg b x y : 0 <= b -> 0 <= smagR b x y.
Proof. intros. unfold smagR. assert (b <= sqrt (x*x+y*y+b*b)). { rewrite <- (sqrt_Rsqr b) at 1 by lra. apply sqrt_le_1_alt. unfold Rsqr. nra. } lra. Qed.
Lemma grad_bounded b x y : b <> 0 -> Rabs (x / sqrt (x*x+y*y+b*b)) <= 1.
Proof.
  intros Hb. assert (H: 0 < x*x+y*y+b*b) by nra.
  assert (Hs: 0 < sqrt (x*x+y*y+b*b)) by (apply sqrt_lt_R0; exact H).
  unfold Rdiv. rewrite Rabs_mult, (Rabs_right (/ _)) by (left; apply Rinv_0_lt_compat; exact Hs).
  apply (Rmult_le_reg_r (sqrt (x*x+y*y+b*b))); [exact Hs|].
  rewrite Rmult_assoc, Rinv_l, Rmult_1_r, Rmult_1_l by lra.
  rewrite <- sqrt_Rsqr_abs. apply sqrt_le_1_alt. unfold Rsqr. nra.
Qed.
Lemma grad_bounded_y b x y : b <> 0 -> Rabs (y / sqrt (x*x+y*y+b*b)) <= 1.
Proof. intros Hb. replace (x*x+y*y+b*b) with (y*y+x*x+b*b) by ring. apply grad_bounded; assumption. Qed.
(* at the origin the gradient is exactly 0 (the plain modulus is not differentiable there) *)
Lemma grad_zero_image b : b <> 0 -> 0 / sqrt (0*0+0*0+b*b) = 0.
Proof. intros. unfold Rdiv. ring. Qed.
(* the colour-combined magnitude: three complex channels under one root *)
Definition smag3R (b x1 y1 x2 y2 x3 y3:R) : R := sqrt (x1*x1 + y1*y1 + x2*x2 + y2*y2 + x3*x3 + y3*y3 + b*b) - b.
Lemma smag3_nonneg b x1 y1 x2 y2 x3 y3 : 0 <= b -> 0 <= smag3R b x1 y1 x2 y2 x3 y3.
Proof. intros. unfold smag3R. assert (b <= sqrt (x1*x1 + y1*y1 + x2*x2 + y2*y2 + x3*x3 + y3*y3 + b*b)).
  { rewrite <- (sqrt_Rsqr b) at 1 by lra. apply sqrt_le_1_alt. unfold Rsqr. nra. } lra. Qed.
Lemma smag3_dx1 b x1 y1 x2 y2 x3 y3 : b <> 0 ->
  is_derive (fun t => smag3R b t y1 x2 y2 x3 y3) x1 (x1 / sqrt (x1*x1 + y1*y1 + x2*x2 + y2*y2 + x3*x3 + y3*y3 + b*b)).
Proof.
  intros Hb. unfold smag3R.
  assert (0 < x1*x1 + y1*y1 + x2*x2 + y2*y2 + x3*x3 + y3*y3 + b*b) by nra.
  auto_derive. exact H. field. apply Rgt_not_eq. apply sqrt_lt_R0. exact H.
Qed.
