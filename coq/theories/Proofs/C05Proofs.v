(* C05: adjointness of the row pass in zero mode, tensor-level model, per (batch, channel, row) line. *)
From PW Require Import Base.Ops Base.Sum Base.Sig Base.Tensor Model.Dwt Spec.Line Proofs.ConvLine Proofs.DwtNF Proofs.LineTheory Proofs.SfbNF Proofs.C10Proofs.
Ltac Zify.zify_post_hook ::= Z.to_euclidean_division_equations.

Section S.
Context {R:Type} (Op:Ops R) (Rth: RingOk Op).
Add Ring Rr : Rth.
Notation ten := (@ten R).
Infix "+r" := (radd Op) (at level 50, left associativity).
Infix "*r" := (rmul Op) (at level 40, left associativity).
Notation sumZ := (sumZ Op).
Notation dot := (dot Op).

(* AFB1D: forward y = afb1d(x) (channels 2c, 2c+1), backward dx = sfb1d(G0, G1) with the SAME registered filters,
   cropped to the input length.  For every line (n,c,i):
     <y[n,2c,i,:], G0[n,c,i,:]> + <y[n,2c+1,i,:], G1[n,c,i,:]> = <x[n,c,i,:], dx[n,c,i,:]>   *)
Theorem afb_zero_adjoint_row (x G0 G1:ten) L h0 h1 :
  2 <= L -> 1 <= tW x -> 1 <= tH x -> 0 < tC x ->
  same_shape G0 G1 = true -> tH G0 = tH x -> tW G0 = (tW x + L - 1)/2 ->
  is_ok (afb1d Op x L h0 h1 M_ZERO 3) (fun y =>
  is_ok (sfb1d Op G0 G1 L h0 h1 M_ZERO 3) (fun dx =>
    tW x <= tW dx <= tW x + 1 /\
    forall n c i, 0 <= i < tH x ->
      dot (tW y) (fun k => tf y n (2*c) i k) (fun k => tf G0 n c i k) +r
      dot (tW y) (fun k => tf y n (2*c+1) i k) (fun k => tf G1 n c i k)
      = dot (tW x) (fun q => tf x n c i q) (fun q => tf dx n c i q))).
Proof.
  intros HL HN HH HC Hs HGh HGw.
  pose proof (afb1d_zero_row Op Rth x L h0 h1 HL HN HH HC) as Ha.
  destruct (afb1d Op x L h0 h1 M_ZERO 3) as [y|]; [|contradiction]. cbn [is_ok] in *.
  destruct Ha as (A1 & A2 & A3 & A4 & A5).
  assert (Hn: nonper_mode M_ZERO) by (left; reflexivity).
  pose proof (sfb1d_nonper_row Op Rth G0 G1 L h0 h1 M_ZERO Hn Hs HL ltac:(lia) ltac:(lia)) as Hb.
  destruct (sfb1d Op G0 G1 L h0 h1 M_ZERO 3) as [dx|]; [|contradiction]. cbn [is_ok] in *.
  destruct Hb as (B1 & B2 & B3 & B4 & B5).
  split. { rewrite B4, HGw. lia. }
  intros n c i Hi. rewrite A4.
  set (nn := (tW x + L - 1)/2) in *.
  (* analysis side: the two bands as ana of the zero-extended line *)
  assert (E0: dot nn (fun k => tf y n (2*c) i k) (fun k => tf G0 n c i k)
            = dot nn (ana Op L h0 (zx Op (tW x) (fun q => tf x n c i q))) (fun k => tf G0 n c i k)).
  { apply sumZ_ext. intros k Hk. rewrite A5 by lia. f_equal. unfold hsel. replace ((2*c) mod 2) with 0 by lia. cbn [Z.eqb].
    replace ((2*c)/2) with c by lia. unfold ana. apply sumZ_ext. intros b Hb. f_equal. unfold rowz, zx.
    rewrite (inr_true (tH x) i) by lia. reflexivity. }
  assert (E1: dot nn (fun k => tf y n (2*c+1) i k) (fun k => tf G1 n c i k)
            = dot nn (ana Op L h1 (zx Op (tW x) (fun q => tf x n c i q))) (fun k => tf G1 n c i k)).
  { apply sumZ_ext. intros k Hk. rewrite A5 by lia. f_equal. unfold hsel. replace ((2*c+1) mod 2) with 1 by lia. cbn [Z.eqb].
    replace ((2*c+1)/2) with c by lia. unfold ana. apply sumZ_ext. intros b Hb. f_equal. unfold rowz, zx.
    rewrite (inr_true (tH x) i) by lia. reflexivity. }
  rewrite E0, E1. rewrite !(adjoint_zero Op Rth) by lia.
  unfold dot. rewrite <- sumZ_add by exact Rth. apply sumZ_ext. intros q Hq.
  rewrite B5 by (rewrite ?HGh; lia). unfold syn, convT_line. rewrite HGw. fold nn.
  rewrite <- (Rth.(Rdistr_r)) || idtac.
  transitivity (tf x n c i q *r (sumZ 0 nn (fun k => tf G0 n c i k *r zx Op L h0 (q + (L-2) - 2*k)) +r
                                 sumZ 0 nn (fun k => tf G1 n c i k *r zx Op L h1 (q + (L-2) - 2*k)))). ring.
  f_equal. rewrite <- sumZ_add by exact Rth. reflexivity.
Qed.
End S.

(* ---------------- periodization, even length >= filter length: backward is the adjoint, line by line ---------------- *)
Section Per.
Context {R:Type} (Op:Ops R) (Rth: RingOk Op).
Add Ring Rr2 : Rth.
Notation ten := (@ten R).
Infix "+r" := (radd Op) (at level 50, left associativity).
Infix "*r" := (rmul Op) (at level 40, left associativity).
Notation sumZ := (sumZ Op).
Notation dot := (dot Op).

Lemma ana_per_ext L N h (f g:Z->R) k : 0 < N -> (forall q, 0 <= q < N -> f q = g q) -> ana_per Op L N h f k = ana_per Op L N h g k.
Proof. intros HN H. unfold ana_per. apply sumZ_ext. intros b Hb. f_equal. apply H. apply Z.mod_pos_bound. exact HN. Qed.

Theorem afb_per_adjoint_row (x G0 G1:ten) L h0 h1 :
  2 <= L -> L mod 2 = 0 -> tW x mod 2 = 0 -> L <= tW x -> 1 <= tH x -> 0 < tC x ->
  same_shape G0 G1 = true -> tH G0 = tH x -> tW G0 = tW x / 2 ->
  is_ok (afb1d Op x L h0 h1 M_PER 3) (fun y =>
  is_ok (sfb1d Op G0 G1 L h0 h1 M_PER 3) (fun dx =>
    tW dx = tW x /\
    forall n c i, 0 <= i < tH x ->
      dot (tW y) (fun k => tf y n (2*c) i k) (fun k => tf G0 n c i k) +r
      dot (tW y) (fun k => tf y n (2*c+1) i k) (fun k => tf G1 n c i k)
      = dot (tW x) (fun q => tf x n c i q) (fun q => tf dx n c i q))).
Proof.
  intros HL HLe HWe HLN HH HC Hs HGh HGw.
  assert (HW: 1 <= tW x) by lia.
  assert (Hel: even_len (tW x) = tW x) by (unfold even_len; replace (tW x mod 2 =? 1) with false by lia; reflexivity).
  pose proof (afb1d_per_row Op Rth x L h0 h1 HL HLe ltac:(rewrite Hel; exact HLN) HW HH HC) as Ha.
  destruct (afb1d Op x L h0 h1 M_PER 3) as [y|]; [|contradiction]. cbn [is_ok] in *.
  destruct Ha as (A1 & A2 & A3 & A4 & A5). rewrite Hel in *.
  pose proof (sfb1d_per_row_circ Op Rth G0 G1 L h0 h1 Hs HL HLe ltac:(lia) ltac:(lia) ltac:(lia)) as Hb.
  destruct (sfb1d Op G0 G1 L h0 h1 M_PER 3) as [dx|]; [|contradiction]. cbn [is_ok] in *.
  destruct Hb as (B1 & B2 & B3 & B4 & B5).
  split. { rewrite B4, HGw. lia. }
  intros n c i Hi. rewrite A4.
  set (N := tW x) in *. set (xr := fun q => tf x n c i q).
  assert (E: forall t, 0 <= t < 2 -> forall G, dot (N/2) (fun k => tf y n (2*c+t) i k) G
            = dot (N/2) (ana_per Op L N (if t =? 0 then h0 else h1) xr) G).
  { intros t Ht G. apply sumZ_ext. intros k Hk. rewrite A5 by lia. f_equal. unfold afb_per_row_line. fold N. rewrite Hel.
    unfold hsel. replace ((2*c+t) mod 2) with t by lia. replace ((2*c+t)/2) with c by lia.
    apply ana_per_ext; [lia|]. intros q Hq. unfold even_ext. replace (q <? N) with true by lia. reflexivity. }
  pose proof (E 0 ltac:(lia)) as E0. pose proof (E 1 ltac:(lia)) as E1. replace (2*c+0) with (2*c) in E0 by lia.
  rewrite E0, E1. change (0 =? 0) with true. change (1 =? 0) with false. cbv iota.
  rewrite !(adjoint_per Op Rth) by lia.
  unfold dot. rewrite <- sumZ_add by exact Rth. apply sumZ_ext. intros q Hq.
  rewrite B5 by lia. rewrite HGw. fold N. rewrite (synT_per_syn_per Op Rth). replace (2*(N/2)) with N by lia. unfold xr. ring.
Qed.
End Per.
