(* C05: adjointness of the row pass in zero mode, tensor-level model, per (batch, channel, row) line. *)
From PW Require Import Base.Ops Base.Sum Base.Sig Base.Tensor Model.Dwt Spec.Line Proofs.ConvLine Proofs.DwtNF Proofs.LineTheory Proofs.SfbNF.
Ltac Zify.zify_post_hook ::= Z.to_euclidean_division_equations.

Section S.
Context {R:Type} (Op:Ops R) (Rth: RingOk Op).
Add Ring Rr : Rth.
Notation ten := (@ten R).
Infix "+r" := (radd Op) (at level 50, left associativity).
Infix "*r" := (rmul Op) (at level 40, left associativity).
Notation sumZ := (sumZ Op).
Notation dot := (dot Op).

(* AFB1D: forward y = afb1d(x) (channels 2c, 2c+1), backward dx = sfb1d(G0, G1) with the SAME registered filters,
   cropped to the input length.  For every line (n,c,i):
     <y[n,2c,i,:], G0[n,c,i,:]> + <y[n,2c+1,i,:], G1[n,c,i,:]> = <x[n,c,i,:], dx[n,c,i,:]>   *)
Theorem afb_zero_adjoint_row (x G0 G1:ten) L h0 h1 :
  2 <= L -> 1 <= tW x -> 1 <= tH x -> 0 < tC x ->
  same_shape G0 G1 = true -> tH G0 = tH x -> tW G0 = (tW x + L - 1)/2 ->
  is_ok (afb1d Op x L h0 h1 M_ZERO 3) (fun y =>
  is_ok (sfb1d Op G0 G1 L h0 h1 M_ZERO 3) (fun dx =>
    tW x <= tW dx <= tW x + 1 /\
    forall n c i, 0 <= i < tH x ->
      dot (tW y) (fun k => tf y n (2*c) i k) (fun k => tf G0 n c i k) +r
      dot (tW y) (fun k => tf y n (2*c+1) i k) (fun k => tf G1 n c i k)
      = dot (tW x) (fun q => tf x n c i q) (fun q => tf dx n c i q))).
Proof.
  intros HL HN HH HC Hs HGh HGw.
  pose proof (afb1d_zero_row Op Rth x L h0 h1 HL HN HH HC) as Ha.
  destruct (afb1d Op x L h0 h1 M_ZERO 3) as [y|]; [|contradiction]. cbn [is_ok] in *.
  destruct Ha as (A1 & A2 & A3 & A4 & A5).
  assert (Hn: nonper_mode M_ZERO) by (left; reflexivity).
  pose proof (sfb1d_nonper_row Op Rth G0 G1 L h0 h1 M_ZERO Hn Hs HL ltac:(lia) ltac:(lia)) as Hb.
  destruct (sfb1d Op G0 G1 L h0 h1 M_ZERO 3) as [dx|]; [|contradiction]. cbn [is_ok] in *.
  destruct Hb as (B1 & B2 & B3 & B4 & B5).
  split. { rewrite B4, HGw. lia. }
  intros n c i Hi. rewrite A4.
  set (nn := (tW x + L - 1)/2) in *.
  (* analysis side: the two bands as ana of the zero-extended line *)
  assert (E0: dot nn (fun k => tf y n (2*c) i k) (fun k => tf G0 n c i k)
            = dot nn (ana Op L h0 (zx Op (tW x) (fun q => tf x n c i q))) (fun k => tf G0 n c i k)).
  { apply sumZ_ext. intros k Hk. rewrite A5 by lia. f_equal. unfold hsel. replace ((2*c) mod 2) with 0 by lia. cbn [Z.eqb].
    replace ((2*c)/2) with c by lia. unfold ana. apply sumZ_ext. intros b Hb. f_equal. unfold rowz, zx.
    rewrite (inr_true (tH x) i) by lia. reflexivity. }
  assert (E1: dot nn (fun k => tf y n (2*c+1) i k) (fun k => tf G1 n c i k)
            = dot nn (ana Op L h1 (zx Op (tW x) (fun q => tf x n c i q))) (fun k => tf G1 n c i k)).
  { apply sumZ_ext. intros k Hk. rewrite A5 by lia. f_equal. unfold hsel. replace ((2*c+1) mod 2) with 1 by lia. cbn [Z.eqb].
    replace ((2*c+1)/2) with c by lia. unfold ana. apply sumZ_ext. intros b Hb. f_equal. unfold rowz, zx.
    rewrite (inr_true (tH x) i) by lia. reflexivity. }
  rewrite E0, E1. rewrite !(adjoint_zero Op Rth) by lia.
  unfold dot. rewrite <- sumZ_add by exact Rth. apply sumZ_ext. intros q Hq.
  rewrite B5 by (rewrite ?HGh; lia). unfold syn, convT_line. rewrite HGw. fold nn.
  rewrite <- (Rth.(Rdistr_r)) || idtac.
  transitivity (tf x n c i q *r (sumZ 0 nn (fun k => tf G0 n c i k *r zx Op L h0 (q + (L-2) - 2*k)) +r
                                 sumZ 0 nn (fun k => tf G1 n c i k *r zx Op L h1 (q + (L-2) - 2*k)))). ring.
  f_equal. rewrite <- sumZ_add by exact Rth. reflexivity.
Qed.
End S.
