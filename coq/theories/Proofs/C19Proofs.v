(* C19, zero padding: the non-separable one-level analysis bank (one 2-D convolution with outer-product kernels) returns the same
   four subbands as the separable functional API afb2d (rows then columns), for every image size, filter lengths and filters. *)
From PW Require Import Base.Ops Base.Sum Base.Sig Base.Tensor Model.Dwt Spec.Line Proofs.ConvLine Proofs.DwtNF Proofs.DwtNFcol.
Ltac Zify.zify_post_hook ::= Z.to_euclidean_division_equations.

Section S.
Context {R:Type} (Op:Ops R) (Rth: RingOk Op).
Add Ring Rr : Rth.
Notation ten := (@ten R).
Infix "+r" := (radd Op) (at level 50, left associativity).
Infix "*r" := (rmul Op) (at level 40, left associativity).
Notation sumZ := (sumZ Op).

Lemma pad_parity N L : 2 <= L -> 1 <= N ->
  let b := if (2 * ((N + L - 1)/2 - 1) - N + L) mod 2 =? 1 then 1 else 0 in
  0 <= b <= 1 /\ (N + b + 2*(L-2) - (L-1) - 1)/2 + 1 = (N + L - 1)/2.
Proof. intros HL HN. cbv zeta. destruct (_ =? 1) eqn:E; split; lia. Qed.

Definition same_vals (h w:Z) (A B:ten) : Prop :=
  tN B = tN A /\ tC B = tC A /\ tH A = h /\ tH B = h /\ tW A = w /\ tW B = w /\
  forall n c i j, 0 <= c < tC A -> 0 <= i < h -> 0 <= j < w -> tf A n c i j = tf B n c i j.

Theorem nonsep_zero_eq (x:ten) Ly h0c h1c Lx h0r h1r : 2 <= Ly -> 2 <= Lx -> 1 <= tH x -> 1 <= tW x -> 0 < tC x ->
  is_ok (afb2d_nonsep Op x Ly h0c h1c Lx h0r h1r M_ZERO) (fun y1 =>
  is_ok (afb2d Op x Lx (rev_filt Lx h0r) (rev_filt Lx h1r) Ly (rev_filt Ly h0c) (rev_filt Ly h1c) M_ZERO) (fun y2 =>
    same_vals ((tH x + Ly - 1)/2) ((tW x + Lx - 1)/2) y1 y2)).
Proof.
  intros HLy HLx HH HW HC.
  (* separable side *)
  unfold afb2d.
  pose proof (afb1d_zero_row Op Rth x Lx (rev_filt Lx h0r) (rev_filt Lx h1r) HLx HW HH HC) as Hr.
  destruct (afb1d Op x Lx _ _ M_ZERO 3) as [lohi|]; [|contradiction]. cbn [is_ok bind] in Hr |- *.
  destruct Hr as (R1 & R2 & R3 & R4 & R5).
  pose proof (afb1d_zero_col Op Rth lohi Ly (rev_filt Ly h0c) (rev_filt Ly h1c) HLy ltac:(lia) ltac:(lia) ltac:(lia)) as Hc.
  destruct (afb1d Op lohi Ly _ _ M_ZERO 2) as [y2|]; [|contradiction]. cbn [is_ok] in Hc.
  destruct Hc as (C1 & C2 & C3 & C4 & C5). rewrite R3 in C3, C5. rewrite R4 in C4, C5.
  set (H' := (tH x + Ly - 1)/2) in *. set (W' := (tW x + Lx - 1)/2) in *.
  (* non-separable side *)
  unfold afb2d_nonsep, dwt_coeff_len. change (M_ZERO =? M_PER) with false. change (M_ZERO =? M_ZERO) with true. cbn [orb]. cbv iota.
  fold H' W'.
  set (p1 := 2 * (H' - 1) - tH x + Ly). set (p2 := 2 * (W' - 1) - tW x + Lx).
  assert (Hp1: p1 / 2 = Ly - 2) by (unfold p1, H'; apply pad_half; lia).
  assert (Hp2: p2 / 2 = Lx - 2) by (unfold p2, W'; apply pad_half; lia).
  rewrite Hp1, Hp2.
  set (b0 := if p1 mod 2 =? 1 then 1 else 0). set (r0' := if p2 mod 2 =? 1 then 1 else 0).
  assert (Hb0: 0 <= b0 <= 1 /\ (tH x + b0 + 2*(Ly-2) - (Ly-1) - 1)/2 + 1 = H') by (exact (pad_parity (tH x) Ly HLy HH)).
  assert (Hr0: 0 <= r0' <= 1 /\ (tW x + r0' + 2*(Lx-2) - (Lx-1) - 1)/2 + 1 = W') by (exact (pad_parity (tW x) Lx HLx HW)).
  destruct Hb0 as (Hb01 & Hb02). destruct Hr0 as (Hr01 & Hr02).
  set (x1 := force Op (t_zpad Op 0 r0' 0 b0 x)).
  assert (Hx1: tN x1 = tN x /\ tC x1 = tC x /\ tH x1 = tH x + b0 /\ tW x1 = tW x + r0') by (unfold x1, t_zpad; cbn [force tN tC tH tW]; lia).
  destruct Hx1 as (X1 & X2 & X3 & X4).
  unfold conv2d_r. unfold w_afb_nonsep at 1 2. cbn [wKH wKW]. rewrite X3, X4.
  replace ((0 <=? tH x + b0 + 2 * (Ly - 2) - 1 * (Ly - 1) - 1) && (0 <=? tW x + r0' + 2 * (Lx - 2) - 1 * (Lx - 1) - 1) && (0 <=? Ly - 2) && (0 <=? Lx - 2)) with true by lia.
  cbn [bind is_ok]. unfold same_vals. cbn [force conv2d_dw tN tC tH tW]. unfold w_afb_nonsep at 1 2 3 4. cbn [wO wKH wKW]. rewrite X1, X3, X4.
  repeat apply conj; try lia.
  intros n oc i j Hoc Hi Hj. rewrite force_eq. cbn [conv2d_dw tf]. unfold w_afb_nonsep. cbn [wf wO wKH wKW]. rewrite X2.
  replace (4 * tC x / tC x) with 4 by (symmetry; apply Z.div_mul; lia).
  rewrite C5 by lia. unfold ana.
  apply sumZ_ext. intros a Ha.
  (* the column tap *)
  transitivity (csel h0c h1c (oc mod 4) (Ly - 1 - a) *r
     sumZ 0 Lx (fun b => rsel h0r h1r (oc mod 4) (Lx - 1 - b) *r tf (t_zpad Op (Lx - 2) (Lx - 2) (Ly - 2) (Ly - 2) x1) n (oc / 4) (i * 2 + a * 1) (j * 2 + b * 1))).
  { rewrite <- sumZ_scale by exact Rth. apply sumZ_ext. intros b Hb. ring. }
  f_equal.
  { unfold hsel, csel, rev_filt. assert (Hm: oc mod 4 = 0 \/ oc mod 4 = 1 \/ oc mod 4 = 2 \/ oc mod 4 = 3) by lia.
    destruct Hm as [E|[E|[E|E]]]; rewrite E; cbn [Z.eqb orb]; [replace (oc mod 2 =? 0) with true by lia | replace (oc mod 2 =? 0) with false by lia
      | replace (oc mod 2 =? 0) with true by lia | replace (oc mod 2 =? 0) with false by lia]; reflexivity. }
  unfold colz. rewrite R3, R4. replace (inr W' j) with true by (unfold inr; lia). rewrite andb_true_r.
  destruct (inr (tH x) (2 * i + a - (Ly - 2))) eqn:Eu.
  - unfold inr in Eu. rewrite R5 by lia. unfold ana. apply sumZ_ext. intros b Hb. f_equal.
    { unfold hsel, rsel, rev_filt. assert (Hm: oc mod 4 = 0 \/ oc mod 4 = 1 \/ oc mod 4 = 2 \/ oc mod 4 = 3) by lia.
      destruct Hm as [E|[E|[E|E]]]; rewrite E; cbn [Z.eqb orb]; [replace ((oc/2) mod 2 =? 0) with true by lia | replace ((oc/2) mod 2 =? 0) with true by lia
        | replace ((oc/2) mod 2 =? 0) with false by lia | replace ((oc/2) mod 2 =? 0) with false by lia]; reflexivity. }
    unfold rowz, t_zpad. cbn [tf tH tW]. rewrite X3, X4. unfold x1. rewrite force_eq. unfold t_zpad. cbn [tf].
    replace (oc / 2 / 2) with (oc / 4) by lia.
    replace (i * 2 + a * 1 - (Ly - 2) - 0) with (2 * i + a - (Ly - 2)) by lia. replace (j * 2 + b * 1 - (Lx - 2) - 0) with (2 * j + b - (Lx - 2)) by lia.
    replace (i * 2 + a * 1 - (Ly - 2)) with (2 * i + a - (Ly - 2)) by lia. replace (j * 2 + b * 1 - (Lx - 2)) with (2 * j + b - (Lx - 2)) by lia.
    replace (inr (tH x) (2 * i + a - (Ly - 2))) with true by (unfold inr; lia).
    replace (inr (tH x + b0) (2 * i + a - (Ly - 2))) with true by (unfold inr; lia). cbn [andb].
    destruct (inr (tW x) (2 * j + b - (Lx - 2))) eqn:Ev.
    + replace (inr (tW x + r0') (2 * j + b - (Lx - 2))) with true by (unfold inr in *; lia). reflexivity.
    + destruct (inr (tW x + r0') (2 * j + b - (Lx - 2))); reflexivity.
  - rewrite (sumZ_zero Op Rth); [reflexivity|]. intros b Hb.
    unfold t_zpad. cbn [tf tH tW]. rewrite X3, X4. unfold x1. rewrite force_eq. unfold t_zpad. cbn [tf].
    replace (i * 2 + a * 1 - (Ly - 2) - 0) with (2 * i + a - (Ly - 2)) by lia. replace (i * 2 + a * 1 - (Ly - 2)) with (2 * i + a - (Ly - 2)) by lia.
    rewrite Eu. cbn [andb]. destruct (inr (tH x + b0) _ && inr (tW x + r0') _); ring.
Qed.

(* ---- symmetric and reflect padding ---- *)
Lemma pad_idx_range mode N before after q : 0 < N ->
  mode = M_SYMM \/ (mode = M_REFLECT /\ before < N /\ after < N) -> 0 <= before -> 0 <= q < N + before + after ->
  0 <= pad_idx mode N before q < N.
Proof.
  intros HN Hm Hb Hq. unfold pad_idx. destruct Hm as [-> | (-> & H1 & H2)].
  - change (M_SYMM =? M_SYMM) with true. cbv iota. apply sym_idx_range. lia.
  - change (M_REFLECT =? M_SYMM) with false. change (M_REFLECT =? M_PERIODIC) with false. cbv iota.
    unfold refl_idx. destruct (q - before <? 0) eqn:E1; [lia|]. destruct (q - before <? N) eqn:E2; lia.
Qed.
Lemma pad_idx_shift mode N before q : pad_idx mode N 0 (q - before) = pad_idx mode N before q.
Proof. unfold pad_idx. destruct (mode =? M_SYMM); [|destruct (mode =? M_PERIODIC)]; f_equal; lia. Qed.

Theorem nonsep_gather_eq (x:ten) Ly h0c h1c Lx h0r h1r mode : 2 <= Ly -> 2 <= Lx -> 1 <= tH x -> 1 <= tW x -> 0 < tC x ->
  let aH := (2 * ((tH x + Ly - 1)/2 - 1) - tH x + Ly + 1)/2 in let aW := (2 * ((tW x + Lx - 1)/2 - 1) - tW x + Lx + 1)/2 in
  mode = M_SYMM \/ (mode = M_REFLECT /\ Ly - 2 < tH x /\ aH < tH x /\ Lx - 2 < tW x /\ aW < tW x) ->
  is_ok (afb2d_nonsep Op x Ly h0c h1c Lx h0r h1r mode) (fun y1 =>
  is_ok (afb2d Op x Lx (rev_filt Lx h0r) (rev_filt Lx h1r) Ly (rev_filt Ly h0c) (rev_filt Ly h1c) mode) (fun y2 =>
    same_vals ((tH x + Ly - 1)/2) ((tW x + Lx - 1)/2) y1 y2)).
Proof.
  intros HLy HLx HH HW HC aH aW Hm.
  assert (HgW: gather_mode_ok mode (tW x) (Lx-2) aW) by (destruct Hm as [->|(-> & A & B & C & D)]; [left; reflexivity | right; right; repeat split; assumption]).
  assert (HgH: gather_mode_ok mode (tH x) (Ly-2) aH) by (destruct Hm as [->|(-> & A & B & C & D)]; [left; reflexivity | right; right; repeat split; assumption]).
  assert (HmW: mode = M_SYMM \/ (mode = M_REFLECT /\ Lx - 2 < tW x /\ aW < tW x)) by (destruct Hm as [->|(-> & A & B & C & D)]; [left; reflexivity | right; repeat split; assumption]).
  assert (HmH: mode = M_SYMM \/ (mode = M_REFLECT /\ Ly - 2 < tH x /\ aH < tH x)) by (destruct Hm as [->|(-> & A & B & C & D)]; [left; reflexivity | right; repeat split; assumption]).
  assert (Hmode: (mode =? M_PER) = false /\ (mode =? M_ZERO) = false /\ ((mode =? M_ZERO) || (mode =? M_SYMM) || (mode =? M_REFLECT)) = true)
    by (destruct Hm as [->|(-> & _)]; repeat split; reflexivity).
  destruct Hmode as (Hm1 & Hm2 & Hm3).
  (* separable side *)
  unfold afb2d.
  pose proof (afb1d_gather_row Op Rth x Lx (rev_filt Lx h0r) (rev_filt Lx h1r) mode HLx HW HH HC HgW) as Hr.
  destruct (afb1d Op x Lx _ _ mode 3) as [lohi|]; [|contradiction]. cbn [is_ok bind] in Hr |- *.
  destruct Hr as (R1 & R2 & R3 & R4 & R5).
  pose proof (afb1d_gather_col Op Rth lohi Ly (rev_filt Ly h0c) (rev_filt Ly h1c) mode HLy ltac:(lia) ltac:(lia) ltac:(lia) ltac:(rewrite R3; exact HgH)) as Hc.
  destruct (afb1d Op lohi Ly _ _ mode 2) as [y2|]; [|contradiction]. cbn [is_ok] in Hc.
  destruct Hc as (C1 & C2 & C3 & C4 & C5). rewrite R3 in C3, C5. rewrite R4 in C4, C5.
  set (H' := (tH x + Ly - 1)/2) in *. set (W' := (tW x + Lx - 1)/2) in *.
  (* non-separable side *)
  unfold afb2d_nonsep, dwt_coeff_len. rewrite Hm1, Hm3, Hm2. cbv iota. fold H' W'.
  set (p1 := 2 * (H' - 1) - tH x + Ly). set (p2 := 2 * (W' - 1) - tW x + Lx).
  assert (Hp1: p1 / 2 = Ly - 2) by (unfold p1, H'; apply pad_half; lia).
  assert (Hp2: p2 / 2 = Lx - 2) by (unfold p2, W'; apply pad_half; lia).
  assert (Hq1: (p1 + 1)/2 = aH) by reflexivity. assert (Hq2: (p2 + 1)/2 = aW) by reflexivity.
  rewrite Hp1, Hp2, Hq1, Hq2.
  destruct (mypad_gather Op 3 (Lx-2) aW mode x ltac:(change (dlen 3 x) with (tW x); lia) HgW) as (iw & Epw & Hiw).
  rewrite Epw. cbn [bind]. change (dlen 3 x) with (tW x) in *.
  set (xa := t_gather 3 (tW x + (Lx-2) + aW) iw x).
  assert (HgH': gather_mode_ok mode (dlen 2 xa) (Ly-2) aH) by (unfold xa, t_gather, dlen; change (3 =? 2) with false; change (2 =? 2) with true; cbv iota; cbn [tH]; exact HgH).
  destruct (mypad_gather Op 2 (Ly-2) aH mode xa ltac:(unfold xa, t_gather, dlen; change (3 =? 2) with false; change (2 =? 2) with true; cbv iota; cbn [tH]; lia) HgH') as (ih & Eph & Hih).
  rewrite Eph. cbn [bind].
  assert (Hdl: dlen 2 xa = tH x) by (unfold xa, t_gather, dlen; change (3 =? 2) with false; change (2 =? 2) with true; cbv iota; reflexivity).
  rewrite Hdl in *.
  set (xb := force Op (t_gather 2 (tH x + (Ly-2) + aH) ih xa)).
  assert (Hxb: tN xb = tN x /\ tC xb = tC x /\ tH xb = tH x + (Ly-2) + aH /\ tW xb = tW x + (Lx-2) + aW /\
               forall n c u v, tf xb n c u v = tf x n c (ih u) (iw v)).
  { unfold xb, xa, t_gather. change (3 =? 2) with false. change (2 =? 2) with true. cbv iota. cbn [force tN tC tH tW].
    repeat apply conj; try lia. intros. rewrite force_eq. reflexivity. }
  destruct Hxb as (X1 & X2 & X3 & X4 & X5).
  assert (HaH: 0 <= aH /\ (tH x + (Ly-2) + aH - (Ly-1) - 1)/2 + 1 = H') by (unfold aH, H'; lia).
  assert (HaW: 0 <= aW /\ (tW x + (Lx-2) + aW - (Lx-1) - 1)/2 + 1 = W') by (unfold aW, W'; lia).
  destruct HaH as (HaH0 & HaH1). destruct HaW as (HaW0 & HaW1).
  unfold conv2d_r. unfold w_afb_nonsep at 1 2. cbn [wKH wKW]. rewrite X3, X4.
  replace ((0 <=? tH x + (Ly-2) + aH + 2 * 0 - 1 * (Ly - 1) - 1) && (0 <=? tW x + (Lx-2) + aW + 2 * 0 - 1 * (Lx - 1) - 1) && (0 <=? 0) && (0 <=? 0)) with true by lia.
  cbn [bind is_ok]. unfold same_vals. cbn [force conv2d_dw tN tC tH tW]. unfold w_afb_nonsep at 1 2 3 4. cbn [wO wKH wKW]. rewrite X1, X3, X4.
  repeat apply conj; try lia.
  intros n oc i j Hoc Hi Hj. rewrite force_eq. cbn [conv2d_dw tf]. unfold w_afb_nonsep. cbn [wf wO wKH wKW]. rewrite X2.
  replace (4 * tC x / tC x) with 4 by (symmetry; apply Z.div_mul; lia).
  rewrite C5 by lia. unfold ana.
  apply sumZ_ext. intros a Ha.
  transitivity (csel h0c h1c (oc mod 4) (Ly - 1 - a) *r
     sumZ 0 Lx (fun b => rsel h0r h1r (oc mod 4) (Lx - 1 - b) *r tf (t_zpad Op 0 0 0 0 xb) n (oc / 4) (i * 2 + a * 1) (j * 2 + b * 1))).
  { rewrite <- sumZ_scale by exact Rth. apply sumZ_ext. intros b Hb. ring. }
  f_equal.
  { unfold hsel, csel, rev_filt. assert (Hmm: oc mod 4 = 0 \/ oc mod 4 = 1 \/ oc mod 4 = 2 \/ oc mod 4 = 3) by lia.
    destruct Hmm as [E|[E|[E|E]]]; rewrite E; cbn [Z.eqb orb]; [replace (oc mod 2 =? 0) with true by lia | replace (oc mod 2 =? 0) with false by lia
      | replace (oc mod 2 =? 0) with true by lia | replace (oc mod 2 =? 0) with false by lia]; reflexivity. }
  set (u := pad_idx mode (tH x) 0 (2 * i + a - (Ly - 2))).
  assert (Hu: 0 <= u < tH x).
  { unfold u. rewrite pad_idx_shift. apply (pad_idx_range mode (tH x) (Ly-2) aH); [lia | exact HmH | lia | unfold H', aH in *; lia]. }
  rewrite R5 by lia. unfold ana. apply sumZ_ext. intros b Hb. f_equal.
  { unfold hsel, rsel, rev_filt. assert (Hmm: oc mod 4 = 0 \/ oc mod 4 = 1 \/ oc mod 4 = 2 \/ oc mod 4 = 3) by lia.
    destruct Hmm as [E|[E|[E|E]]]; rewrite E; cbn [Z.eqb orb]; [replace ((oc/2) mod 2 =? 0) with true by lia | replace ((oc/2) mod 2 =? 0) with true by lia
      | replace ((oc/2) mod 2 =? 0) with false by lia | replace ((oc/2) mod 2 =? 0) with false by lia]; reflexivity. }
  unfold t_zpad. cbn [tf tH tW]. rewrite X3, X4.
  replace (inr (tH x + (Ly-2) + aH) (i * 2 + a * 1 - 0) && inr (tW x + (Lx-2) + aW) (j * 2 + b * 1 - 0)) with true
    by (unfold inr, H', W', aH, aW in *; lia).
  rewrite X5. rewrite Hih, Hiw. replace (oc / 2 / 2) with (oc / 4) by lia.
  unfold u. rewrite !pad_idx_shift. f_equal; f_equal; lia.
Qed.
End S.
