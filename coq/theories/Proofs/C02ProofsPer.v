(* C02, periodization mode on the tensor-level model: one level and every J.  The guard L <= even_len W at every level is the
   one under which the code's roll + single fold is the circular transform (below it: known finding KF-PER-SHORT). *)
From PW Require Import Base.Ops Base.Sum Base.Sig Base.Tensor Model.Dwt Spec.Line Proofs.ConvLine Proofs.DwtNF Proofs.LineTheory
  Proofs.SfbNF Proofs.C01Proofs Proofs.C10Proofs Proofs.CircPR Proofs.C02Proofs.
Ltac Zify.zify_post_hook ::= Z.to_euclidean_division_equations.

Section S.
Context {R:Type} (Op:Ops R) (Rth: RingOk Op).
Add Ring Rr : Rth.
Notation ten := (@ten R).
Notation sumZ := (sumZ Op).
Infix "+r" := (radd Op) (at level 50, left associativity).
Infix "*r" := (rmul Op) (at level 40, left associativity).

Lemma pywt_dwt_per_ana L N dec (x:Z->R) k :
  pywt_dwt_per Op L N dec x k = ana_per Op L (even_len N) (rev_filt L dec) (even_ext N x) k.
Proof. rewrite (ana_per_pywt Op Rth). reflexivity. Qed.

Lemma even_len_props N : 1 <= N -> 0 < even_len N /\ even_len N mod 2 = 0 /\ N <= even_len N <= N + 1.
Proof. intros H. unfold even_len. destruct (N mod 2 =? 1) eqn:E; lia. Qed.

Theorem pr_level_1d_per_ext (x lo hi:ten) L d0 d1 g0 g1 :
  2 <= L -> L mod 2 = 0 -> L <= even_len (tW x) -> 1 <= tW x -> 1 <= tH x -> 0 < tC x ->
  PRcond Op L d0 d1 g0 g1 ->
  let n := even_len (tW x) / 2 in
  tN lo = tN x -> tC lo = tC x -> tH lo = tH x -> tW lo = n -> same_shape lo hi = true ->
  (forall nn c i k, 0 <= c < tC x -> 0 <= i < tH x -> 0 <= k < n ->
     tf lo nn c i k = pywt_dwt_per Op L (tW x) d0 (fun q => tf x nn c i q) k /\
     tf hi nn c i k = pywt_dwt_per Op L (tW x) d1 (fun q => tf x nn c i q) k) ->
  is_ok (SFB1D_fwd Op lo hi L g0 g1 M_PER) (fun y =>
      tN y = tN x /\ tC y = tC x /\ tH y = tH x /\ tW y = even_len (tW x) /\
      forall nn c i j, 0 <= c < tC x -> 0 <= i < tH x -> 0 <= j < tW x -> tf y nn c i j = tf x nn c i j).
Proof.
  intros HL HLe HLN HW HH HC HPR n X1 X2 X3 X4 Hss Hval.
  destruct (even_len_props (tW x) HW) as (E1 & E2 & E3).
  assert (Hn: 2 * n = even_len (tW x)) by (unfold n; lia).
  unfold SFB1D_fwd.
  pose proof (sfb1d_per_row_circ Op Rth lo hi L g0 g1 Hss HL HLe ltac:(lia) ltac:(lia) ltac:(lia)) as Hb.
  destruct (sfb1d Op lo hi L g0 g1 M_PER 3) as [y|]; [|contradiction]. cbn [is_ok] in *.
  destruct Hb as (B1 & B2 & B3 & B4 & B5). rewrite X1, X2, X3, X4 in *.
  repeat apply conj; try lia.
  intros nn c i j Hc Hi Hj. rewrite B5 by lia.
  set (xr := fun q => tf x nn c i q).
  transitivity (syn_per Op L (even_len (tW x) / 2) g0 g1
      (ana_per Op L (even_len (tW x)) (rev_filt L d0) (even_ext (tW x) xr))
      (ana_per Op L (even_len (tW x)) (rev_filt L d1) (even_ext (tW x) xr)) j).
  - fold n. unfold syn_per. apply sumZ_ext. intros k Hk. apply sumZ_ext. intros a Ha.
    destruct (Hval nn c i k Hc Hi Hk) as (V0 & V1). rewrite V0, V1. rewrite !pywt_dwt_per_ana. reflexivity.
  - rewrite (circ_pr Op Rth L (even_len (tW x)) d0 d1 g0 g1 (even_ext (tW x) xr) j) by (try assumption; lia).
    unfold even_ext, xr. replace (j <? tW x) with true by lia. reflexivity.
Qed.

Theorem pr_level_1d_per (x:ten) L d0 d1 g0 g1 :
  2 <= L -> L mod 2 = 0 -> L <= even_len (tW x) -> 1 <= tW x -> 1 <= tH x -> 0 < tC x ->
  PRcond Op L d0 d1 g0 g1 ->
  is_ok (AFB1D_fwd Op x L (rev_filt L d0) (rev_filt L d1) M_PER) (fun r =>
    is_ok (SFB1D_fwd Op (fst r) (snd r) L g0 g1 M_PER) (fun y =>
      tN y = tN x /\ tC y = tC x /\ tH y = tH x /\ tW y = even_len (tW x) /\
      forall n c i j, 0 <= c < tC x -> 0 <= i < tH x -> 0 <= j < tW x -> tf y n c i j = tf x n c i j)).
Proof.
  intros HL HLe HLN HW HH HC HPR.
  destruct (even_len_props (tW x) HW) as (E1 & E2 & E3).
  unfold AFB1D_fwd.
  pose proof (afb1d_row_pywt_per Op Rth x L d0 d1 HL HLe HLN HW HH HC) as Ha.
  destruct (afb1d Op x L _ _ M_PER 3) as [lohi|]; [|contradiction]. cbn [is_ok bind fst snd] in *.
  destruct Ha as (A1 & A2 & A3 & A4 & A5).
  set (n := even_len (tW x) / 2) in *.
  assert (Hrl0: range_len 0 (tC lohi) 2 = tC x) by (unfold range_len; rewrite A2; replace (2 * tC x <=? 0) with false by lia; lia).
  assert (Hrl1: range_len (Z.min 1 (tC lohi)) (tC lohi) 2 = tC x).
  { unfold range_len. rewrite A2. replace (Z.min 1 (2 * tC x)) with 1 by lia. replace (2 * tC x <=? 1) with false by lia. lia. }
  rewrite Hrl0, Hrl1.
  set (x0 := force Op (t_chmap (tC x) (fun c => 2*c) lohi)).
  set (x1 := force Op (t_chmap (tC x) (fun c => 2*c+1) lohi)).
  assert (Hss: same_shape x0 x1 = true) by (unfold same_shape, x0, x1; cbn [force t_chmap tN tC tH tW]; rewrite !Z.eqb_refl; reflexivity).
  apply (pr_level_1d_per_ext x x0 x1 L d0 d1 g0 g1 HL HLe HLN HW HH HC HPR);
    try (unfold x0; cbn [force t_chmap tN tC tH tW]; lia); try exact Hss.
  intros nn c i k Hc Hi Hk. unfold x0, x1. rewrite !force_eq. unfold t_chmap. cbn [tf].
  pose proof (A5 nn c 0 i k ltac:(lia) ltac:(lia) ltac:(lia)) as H0.
  pose proof (A5 nn c 1 i k ltac:(lia) ltac:(lia) ltac:(lia)) as H1.
  replace (2*c + 0) with (2*c) in H0 by lia. rewrite H0, H1.
  unfold dsel. change (0 mod 2 =? 0) with true. change (1 mod 2 =? 0) with false. cbv iota. split; reflexivity.
Qed.

(* every level long enough for the fold to be the circular transform *)
Fixpoint levels_ok_per (J:nat) (L W:Z) : Prop :=
  match J with O => True | S J' => 1 <= W /\ L <= even_len W /\ levels_ok_per J' L (even_len W / 2) end.

Theorem pr_multilevel_1d_per (J:nat) : forall (x:ten) L d0 d1 g0 g1,
  2 <= L -> L mod 2 = 0 -> 1 <= tH x -> 0 < tC x -> 1 <= tW x -> levels_ok_per J L (tW x) -> PRcond Op L d0 d1 g0 g1 ->
  is_ok (DWT1DForward Op J x L (rev_filt L d0) (rev_filt L d1) M_PER) (fun r =>
    is_ok (DWT1DInverse Op (fst r) (map Some (snd r)) L g0 g1 M_PER) (fun y =>
      tN y = tN x /\ tC y = tC x /\ tH y = tH x /\ tW x <= tW y <= tW x + 1 /\
      forall nn c i j, 0 <= c < tC x -> 0 <= i < tH x -> 0 <= j < tW x -> tf y nn c i j = tf x nn c i j)).
Proof.
  induction J as [|J IH]; intros x L d0 d1 g0 g1 HL HLe HH HC HW Hlv HPR.
  - cbn [DWT1DForward is_ok fst snd map]. unfold DWT1DInverse. cbn [rev DWT1DInverse_rev is_ok]. repeat split; try lia.
  - destruct Hlv as (HW1 & HLN & Hrest).
    destruct (even_len_props (tW x) HW) as (E1 & E2 & E3).
    cbn [DWT1DForward].
    pose proof (afb1d_row_pywt_per Op Rth x L d0 d1 HL HLe HLN HW HH HC) as Ha.
    unfold AFB1D_fwd. destruct (afb1d Op x L _ _ M_PER 3) as [lohi|]; [|contradiction]. cbn [is_ok bind] in *.
    destruct Ha as (A1 & A2 & A3 & A4 & A5).
    set (n := even_len (tW x) / 2) in *.
    assert (Hrl0: range_len 0 (tC lohi) 2 = tC x) by (unfold range_len; rewrite A2; replace (2 * tC x <=? 0) with false by lia; lia).
    assert (Hrl1: range_len (Z.min 1 (tC lohi)) (tC lohi) 2 = tC x).
    { unfold range_len. rewrite A2. replace (Z.min 1 (2 * tC x)) with 1 by lia. replace (2 * tC x <=? 1) with false by lia. lia. }
    rewrite Hrl0, Hrl1.
    set (x0 := force Op (t_chmap (tC x) (fun c => 2*c) lohi)).
    set (x1 := force Op (t_chmap (tC x) (fun c => 2*c+1) lohi)).
    assert (Hx0: tN x0 = tN x /\ tC x0 = tC x /\ tH x0 = tH x /\ tW x0 = n) by (unfold x0; cbn [force t_chmap tN tC tH tW]; repeat split; lia).
    assert (Hx1: tN x1 = tN x /\ tC x1 = tC x /\ tH x1 = tH x /\ tW x1 = n) by (unfold x1; cbn [force t_chmap tN tC tH tW]; repeat split; lia).
    destruct Hx0 as (P1 & P2 & P3 & P4). destruct Hx1 as (Q1 & Q2 & Q3 & Q4).
    assert (Hn1: 1 <= n) by (unfold n; lia).
    specialize (IH x0 L d0 d1 g0 g1 HL HLe ltac:(lia) ltac:(lia) ltac:(lia) ltac:(rewrite P4; exact Hrest) HPR).
    destruct (DWT1DForward Op J x0 L _ _ M_PER) as [[yl yh]|]; [|contradiction]. cbn [is_ok bind fst snd] in *.
    unfold DWT1DInverse in *. cbn [map rev]. rewrite inv_rev_app.
    destruct (DWT1DInverse_rev Op yl (rev (map Some yh)) L g0 g1 M_PER) as [z|]; [|contradiction]. cbn [is_ok bind] in *.
    destruct IH as (Z1 & Z2 & Z3 & Z4 & Z5). rewrite P1, P2, P3, P4 in *.
    cbn [DWT1DInverse_rev]. rewrite Q4.
    set (z' := if n <? tW z then t_pyslice 3 0 (-1) z else z).
    assert (Hz': tN z' = tN x /\ tC z' = tC x /\ tH z' = tH x /\ tW z' = n /\
                 forall nn c i k, 0 <= k < n -> tf z' nn c i k = tf z nn c i k).
    { unfold z'. destruct (n <? tW z) eqn:E.
      - unfold t_pyslice, t_slice, t_gather, dlen, pyclip, range_len. change (3 =? 2) with false. cbv iota.
        change (0 <? 0) with false. cbv iota. replace (-1 <? 0) with true by lia.
        replace (Z.min (tW z) 0) with 0 by lia. replace (Z.max 0 (tW z + -1)) with (tW z - 1) by lia.
        replace (tW z - 1 <=? 0) with false by lia. cbn [tN tC tH tW tf].
        repeat apply conj; try lia. intros nn c i k Hk. f_equal. lia.
      - repeat apply conj; try lia. intros; reflexivity. }
    destruct Hz' as (W1 & W2 & W3 & W4 & W5).
    assert (Hss: same_shape z' x1 = true) by (unfold same_shape; rewrite W1, W2, W3, W4, Q1, Q2, Q3, Q4; rewrite !Z.eqb_refl; reflexivity).
    pose proof (pr_level_1d_per_ext x z' x1 L d0 d1 g0 g1 HL HLe HLN HW HH HC HPR W1 W2 W3 W4 Hss) as Hfin.
    cbv zeta in Hfin. fold n in Hfin.
    assert (Hval: forall nn c i k, 0 <= c < tC x -> 0 <= i < tH x -> 0 <= k < n ->
       tf z' nn c i k = pywt_dwt_per Op L (tW x) d0 (fun q => tf x nn c i q) k /\
       tf x1 nn c i k = pywt_dwt_per Op L (tW x) d1 (fun q => tf x nn c i q) k).
    { intros nn c i k Hc Hi Hk. split.
      - rewrite W5 by lia. rewrite Z5 by lia. unfold x0. rewrite force_eq. unfold t_chmap. cbn [tf].
        pose proof (A5 nn c 0 i k ltac:(lia) ltac:(lia) ltac:(lia)) as H0. replace (2*c+0) with (2*c) in H0 by lia.
        rewrite H0. unfold dsel. change (0 mod 2 =? 0) with true. reflexivity.
      - unfold x1. rewrite force_eq. unfold t_chmap. cbn [tf].
        rewrite (A5 nn c 1 i k) by lia. unfold dsel. change (1 mod 2 =? 0) with false. reflexivity. }
    specialize (Hfin Hval).
    destruct (SFB1D_fwd Op z' x1 L g0 g1 M_PER) as [y|]; [|contradiction]. cbn [is_ok DWT1DInverse_rev] in *.
    destruct Hfin as (F1 & F2 & F3 & F4 & F5). repeat apply conj; try lia. exact F5.
Qed.
End S.
