(* C05 in two dimensions, zero padding: AFB2D.backward (column synthesis of the cotangent bands with the registered analysis
   filters, then row synthesis, then crop to the input size) is the adjoint of AFB2D.forward: for every image and every
   cotangent (lowpass + three detail bands), <low, Gl> + sum_b <high_b, Gh_b> = <x, backward>.  Read right to left it is
   SFB2D.backward.  Any commutative ring, every image size and filter lengths. *)
From PW Require Import Base.Ops Base.Sum Base.Sig Base.Tensor Model.Dwt Spec.Line Proofs.ConvLine Proofs.DwtNF Proofs.LineTheory
  Proofs.SfbNF Proofs.DwtNFcol Proofs.C10Proofs Proofs.C02Proofs.
Ltac Zify.zify_post_hook ::= Z.to_euclidean_division_equations.

Section S.
Context {R:Type} (Op:Ops R) (Rth: RingOk Op).
Add Ring Rr : Rth.
Notation ten := (@ten R).
Infix "+r" := (radd Op) (at level 50, left associativity).
Infix "*r" := (rmul Op) (at level 40, left associativity).
Notation sumZ := (sumZ Op).
Notation dot := (dot Op).

Definition dot2 (h w:Z) (A B:ten) (n c:Z) : R := sumZ 0 h (fun i => sumZ 0 w (fun j => tf A n c i j *r tf B n c i j)).

(* synthesis line = sum of the two transposed convolutions *)
Lemma syn_convT L n g0 g1 (lo hi:Z->R) m :
  syn Op L n g0 g1 lo hi m = convT_line Op L n g0 lo m +r convT_line Op L n g1 hi m.
Proof. unfold syn, convT_line. rewrite <- sumZ_add by exact Rth. reflexivity. Qed.

(* line-level adjoint of a two-band analysis with zero padding *)
Lemma line_adj L N n h0 h1 (x G0 G1:Z->R) : 0 <= L -> 0 <= N -> 0 <= n ->
  dot n (ana Op L h0 (zx Op N x)) G0 +r dot n (ana Op L h1 (zx Op N x)) G1
  = dot N x (syn Op L n h0 h1 G0 G1).
Proof.
  intros HL HN Hn. rewrite !(adjoint_zero Op Rth) by lia. unfold dot. rewrite <- sumZ_add by exact Rth.
  apply sumZ_ext. intros i Hi. rewrite syn_convT. ring.
Qed.

Lemma crop_to_vals (H0 W0:Z) (dx:ten) : 1 <= H0 -> 1 <= W0 -> H0 <= tH dx <= H0 + 1 -> W0 <= tW dx <= W0 + 1 ->
  let y := crop_to H0 W0 dx in
  tN y = tN dx /\ tC y = tC dx /\ tH y = H0 /\ tW y = W0 /\ forall n c i j, 0 <= i < H0 -> 0 <= j < W0 -> tf y n c i j = tf dx n c i j.
Proof.
  intros H1 W1 HH HW. cbv zeta. unfold crop_to.
  assert (Srow: forall t:ten, H0 < tH t -> let a := t_pyslice 2 0 H0 t in
     tN a = tN t /\ tC a = tC t /\ tH a = H0 /\ tW a = tW t /\ forall n c i j, tf a n c i j = tf t n c i j).
  { intros t Ht. cbv zeta. unfold t_pyslice, t_slice, t_gather, dlen, pyclip, range_len. change (2 =? 2) with true. cbv iota.
    change (0 <? 0) with false. cbv iota. replace (H0 <? 0) with false by lia. replace (Z.min (tH t) 0) with 0 by lia.
    replace (Z.min (tH t) H0) with H0 by lia. replace (H0 <=? 0) with false by lia. cbn [tN tC tH tW tf].
    repeat apply conj; try lia. intros. f_equal. lia. }
  assert (Scol: forall t:ten, W0 < tW t -> let a := t_pyslice 3 0 W0 t in
     tN a = tN t /\ tC a = tC t /\ tH a = tH t /\ tW a = W0 /\ forall n c i j, tf a n c i j = tf t n c i j).
  { intros t Ht. cbv zeta. unfold t_pyslice, t_slice, t_gather, dlen, pyclip, range_len. change (3 =? 2) with false. cbv iota.
    change (0 <? 0) with false. cbv iota. replace (W0 <? 0) with false by lia. replace (Z.min (tW t) 0) with 0 by lia.
    replace (Z.min (tW t) W0) with W0 by lia. replace (W0 <=? 0) with false by lia. cbn [tN tC tH tW tf].
    repeat apply conj; try lia. intros. f_equal. lia. }
  destruct (H0 <? tH dx) eqn:E1; destruct (W0 <? tW dx) eqn:E2; cbn [andb].
  - pose proof (Srow dx ltac:(lia)) as A. cbv zeta in A. destruct A as (A1 & A2 & A3 & A4 & A5).
    pose proof (Scol (t_pyslice 2 0 H0 dx) ltac:(lia)) as B. cbv zeta in B. destruct B as (B1 & B2 & B3 & B4 & B5).
    repeat apply conj; try lia. intros. rewrite B5, A5. reflexivity.
  - pose proof (Srow dx ltac:(lia)) as A. cbv zeta in A. destruct A as (A1 & A2 & A3 & A4 & A5).
    repeat apply conj; try lia. intros. apply A5.
  - pose proof (Scol dx ltac:(lia)) as B. cbv zeta in B. destruct B as (B1 & B2 & B3 & B4 & B5).
    repeat apply conj; try lia. intros. apply B5.
  - repeat apply conj; try lia. intros; reflexivity.
Qed.

Lemma rowz_zx (x:ten) n c i : 0 <= i < tH x -> forall q, rowz Op x n c i q = zx Op (tW x) (fun q => tf x n c i q) q.
Proof. intros Hi q. unfold rowz, zx. rewrite (inr_true (tH x) i) by lia. reflexivity. Qed.
Lemma colz_zx (x:ten) n c j : 0 <= j < tW x -> forall q, colz Op x n c j q = zx Op (tH x) (fun q => tf x n c q j) q.
Proof. intros Hj q. unfold colz, zx. rewrite (inr_true (tW x) j) by lia. destruct (inr (tH x) q); reflexivity. Qed.
Lemma ana_ext L h (e e':Z->R) k : (forall q, e q = e' q) -> ana Op L h e k = ana Op L h e' k.
Proof. intros H. unfold ana. apply sumZ_ext. intros b Hb. rewrite H. reflexivity. Qed.

Theorem AFB2D_zero_adjoint (x Gl Gh:ten) Lr h0r h1r Lc h0c h1c :
  2 <= Lr -> 2 <= Lc -> 1 <= tW x -> 1 <= tH x -> 0 < tC x ->
  let H' := (tH x + Lc - 1)/2 in let W' := (tW x + Lr - 1)/2 in
  tN Gl = tN x -> tC Gl = tC x -> tH Gl = H' -> tW Gl = W' ->
  tN Gh = tN x -> tC Gh = 3 * tC x -> tH Gh = H' -> tW Gh = W' ->
  is_ok (AFB2D_fwd Op x Lr h0r h1r Lc h0c h1c M_ZERO) (fun r =>
  is_ok (AFB2D_bwd Op (tH x) (tW x) Gl Gh Lr h0r h1r Lc h0c h1c M_ZERO) (fun dx =>
    tN dx = tN x /\ tC dx = tC x /\ tH dx = tH x /\ tW dx = tW x /\
    forall n c, 0 <= c < tC x ->
      dot2 H' W' (fst r) Gl n c +r dot2 H' W' (unbind3 0 (snd r)) (unbind3 0 Gh) n c
      +r dot2 H' W' (unbind3 1 (snd r)) (unbind3 1 Gh) n c +r dot2 H' W' (unbind3 2 (snd r)) (unbind3 2 Gh) n c
      = dot2 (tH x) (tW x) x dx n c)).
Proof.
  intros HLr HLc HW HH HC H' W' G1 G2 G3 G4 K1 K2 K3 K4.
  assert (HH': 1 <= H' /\ 2*H' - Lc + 2 >= tH x /\ 2*H' - Lc + 2 <= tH x + 1) by (unfold H'; lia).
  assert (HW': 1 <= W' /\ 2*W' - Lr + 2 >= tW x /\ 2*W' - Lr + 2 <= tW x + 1) by (unfold W'; lia).
  destruct HH' as (Hp1 & Hp2 & Hp3). destruct HW' as (Wp1 & Wp2 & Wp3).
  unfold AFB2D_fwd.
  pose proof (afb1d_zero_row Op Rth x Lr h0r h1r HLr HW HH HC) as Hrow.
  destruct (afb1d Op x Lr h0r h1r M_ZERO 3) as [lohi|]; [|contradiction]. cbn [is_ok bind] in *.
  destruct Hrow as (R1 & R2 & R3 & R4 & R5). fold W' in R4, R5.
  pose proof (afb1d_zero_col Op Rth lohi Lc h0c h1c HLc ltac:(lia) ltac:(lia) ltac:(lia)) as Hcol.
  destruct (afb1d Op lohi Lc h0c h1c M_ZERO 2) as [y|]; [|contradiction]. cbn [is_ok bind fst snd] in *.
  destruct Hcol as (C1 & C2 & C3 & C4 & C5). rewrite R3 in C3, C5. fold H' in C3, C5. rewrite R4 in C4, C5.
  (* backward *)
  unfold AFB2D_bwd.
  set (lh := unbind3 0 Gh). set (hl := unbind3 1 Gh). set (hh := unbind3 2 Gh).
  assert (Hsh: forall b, tN (unbind3 b Gh) = tN x /\ tC (unbind3 b Gh) = tC x /\ tH (unbind3 b Gh) = H' /\ tW (unbind3 b Gh) = W').
  { intros b. unfold unbind3, t_chmap. cbn [tN tC tH tW]. repeat split; lia. }
  assert (Hn: nonper_mode M_ZERO) by (left; reflexivity).
  assert (Hs1: same_shape Gl lh = true) by (destruct (Hsh 0) as (A & B & C & D); unfold same_shape, lh; rewrite A, B, C, D, G1, G2, G3, G4, !Z.eqb_refl; reflexivity).
  pose proof (sfb1d_nonper_col Op Rth Gl lh Lc h0c h1c M_ZERO Hn Hs1 HLc ltac:(lia) ltac:(lia)) as Hlo.
  destruct (sfb1d Op Gl lh Lc h0c h1c M_ZERO 2) as [lo|]; [|contradiction]. cbn [is_ok bind] in *.
  destruct Hlo as (A1 & A2 & A3 & A4 & A5). rewrite G3 in A3, A5. rewrite G4 in A4, A5.
  assert (Hs2: same_shape hl hh = true).
  { destruct (Hsh 1) as (A & B & C & D); destruct (Hsh 2) as (A' & B' & C' & D'); unfold same_shape, hl, hh; rewrite A, B, C, D, A', B', C', D', !Z.eqb_refl; reflexivity. }
  destruct (Hsh 1) as (S1 & S2 & S3 & S4). fold hl in S1, S2, S3, S4.
  pose proof (sfb1d_nonper_col Op Rth hl hh Lc h0c h1c M_ZERO Hn Hs2 HLc ltac:(lia) ltac:(lia)) as Hhi.
  destruct (sfb1d Op hl hh Lc h0c h1c M_ZERO 2) as [hi|]; [|contradiction]. cbn [is_ok bind] in *.
  destruct Hhi as (B1 & B2 & B3 & B4 & B5). rewrite S3 in B3, B5. rewrite S4 in B4, B5.
  assert (Hs3: same_shape lo hi = true) by (unfold same_shape; rewrite A1, A2, A3, A4, B1, B2, B3, B4, S1, S2, G1, G2, !Z.eqb_refl; reflexivity).
  pose proof (sfb1d_nonper_row Op Rth lo hi Lr h0r h1r M_ZERO Hn Hs3 HLr ltac:(lia) ltac:(lia)) as Hdx.
  destruct (sfb1d Op lo hi Lr h0r h1r M_ZERO 3) as [dxf|]; [|contradiction]. cbn [is_ok bind] in *.
  destruct Hdx as (D1 & D2 & D3 & D4 & D5). rewrite A3 in D3, D5. rewrite A4 in D4, D5.
  pose proof (crop_to_vals (tH x) (tW x) dxf HH HW ltac:(lia) ltac:(lia)) as Hc. cbv zeta in Hc. destruct Hc as (E1 & E2 & E3 & E4 & E5).
  cbn [force tN tC tH tW]. repeat apply conj; try lia.
  intros n c Hc.
  (* right-hand side, rows *)
  transitivity (sumZ 0 (tH x) (fun i => dot W' (fun k => tf lohi n (2*c) i k) (fun k => tf lo n c i k) +r dot W' (fun k => tf lohi n (2*c+1) i k) (fun k => tf hi n c i k))).
  2:{ unfold dot2. apply sumZ_ext. intros i Hi.
      rewrite (sumZ_ext Op 0 (tW x) _ (fun j => tf x n c i j *r syn Op Lr W' h0r h1r (fun k => tf lo n c i k) (fun k => tf hi n c i k) j))
        by (intros j Hj; rewrite force_eq; rewrite E5 by lia; rewrite D5 by lia; reflexivity).
      change (sumZ 0 (tW x) (fun j => tf x n c i j *r syn Op Lr W' h0r h1r (fun k => tf lo n c i k) (fun k => tf hi n c i k) j))
        with (dot (tW x) (fun j => tf x n c i j) (syn Op Lr W' h0r h1r (fun k => tf lo n c i k) (fun k => tf hi n c i k))).
      rewrite <- (line_adj Lr (tW x) W' h0r h1r) by lia.
      f_equal; unfold dot; apply sumZ_ext; intros k Hk; f_equal; rewrite R5 by lia; unfold hsel.
      - replace ((2*c) mod 2 =? 0) with true by lia. replace ((2*c)/2) with c by lia. apply ana_ext. intros q. apply rowz_zx. lia.
      - replace ((2*c+1) mod 2 =? 0) with false by lia. replace ((2*c+1)/2) with c by lia. apply ana_ext. intros q. apply rowz_zx. lia. }
  (* columns: for t = 0, 1 *)
  assert (Hcolt: forall t (Ga Gb lot:ten), 0 <= t < 2 ->
     (forall m j, 0 <= m < tH x -> 0 <= j < W' -> tf lot n c m j = syn Op Lc H' h0c h1c (fun k => tf Ga n c k j) (fun k => tf Gb n c k j) m) ->
     sumZ 0 (tH x) (fun i => dot W' (fun k => tf lohi n (2*c+t) i k) (fun k => tf lot n c i k))
     = dot2 H' W' (mkT 0 0 0 0 (fun n' c' i j => tf y n' (4*c'+2*t) i j)) Ga n c +r dot2 H' W' (mkT 0 0 0 0 (fun n' c' i j => tf y n' (4*c'+2*t+1) i j)) Gb n c).
  { intros t Ga Gb lot Ht Hlot. unfold dot.
    rewrite (sumZ_swap Op Rth 0 (tH x) 0 W' (fun i k => tf lohi n (2*c+t) i k *r tf lot n c i k)).
    unfold dot2. cbn [tf].
    rewrite (sumZ_swap Op Rth 0 H' 0 W' (fun i j => tf y n (4*c+2*t) i j *r tf Ga n c i j)).
    rewrite (sumZ_swap Op Rth 0 H' 0 W' (fun i j => tf y n (4*c+2*t+1) i j *r tf Gb n c i j)).
    rewrite <- sumZ_add by exact Rth. apply sumZ_ext. intros k Hk.
    rewrite (sumZ_ext Op 0 (tH x) _ (fun i => tf lohi n (2*c+t) i k *r syn Op Lc H' h0c h1c (fun k' => tf Ga n c k' k) (fun k' => tf Gb n c k' k) i))
      by (intros i Hi; rewrite Hlot by lia; reflexivity).
    change (sumZ 0 (tH x) (fun i => tf lohi n (2*c+t) i k *r syn Op Lc H' h0c h1c (fun k' => tf Ga n c k' k) (fun k' => tf Gb n c k' k) i))
      with (dot (tH x) (fun i => tf lohi n (2*c+t) i k) (syn Op Lc H' h0c h1c (fun k' => tf Ga n c k' k) (fun k' => tf Gb n c k' k))).
    rewrite <- (line_adj Lc (tH x) H' h0c h1c) by lia.
    f_equal; unfold dot; apply sumZ_ext; intros k' Hk'; f_equal.
    - replace (4*c+2*t) with (2*(2*c+t)) by lia. rewrite C5 by lia. unfold hsel. replace ((2*(2*c+t)) mod 2 =? 0) with true by lia.
      replace (2*(2*c+t)/2) with (2*c+t) by lia. apply ana_ext. intros q. rewrite colz_zx by lia. rewrite R3. reflexivity.
    - replace (4*c+2*t+1) with (2*(2*c+t)+1) by lia. rewrite C5 by lia. unfold hsel. replace ((2*(2*c+t)+1) mod 2 =? 0) with false by lia.
      replace ((2*(2*c+t)+1)/2) with (2*c+t) by lia. apply ana_ext. intros q. rewrite colz_zx by lia. rewrite R3. reflexivity. }
  rewrite (sumZ_add Op Rth).
  pose proof (Hcolt 0 Gl lh lo ltac:(lia)) as T0. replace (2*c+0) with (2*c) in T0 by lia.
  rewrite T0 by (intros m j Hm Hj; rewrite A5 by lia; reflexivity).
  rewrite (Hcolt 1 hl hh hi ltac:(lia)) by (intros m j Hm Hj; rewrite B5 by lia; reflexivity).
  (* identify the bands *)
  assert (Eb: forall (A B:ten) (f g:Z->Z), (forall i j, tf A n c i j = tf y n (f c) i j) -> (forall i j, tf B n c i j = tf Gh n (g c) i j) -> True) by (intros; exact I).
  unfold dot2. cbn [tf].
  replace (4*c+2*0) with (4*c+0) by lia. replace (4*c+2*0+1) with (4*c+1) by lia. replace (4*c+2*1) with (4*c+2) by lia. replace (4*c+2*1+1) with (4*c+3) by lia.
  assert (L0: forall i j, tf (force Op (band4 0 y)) n c i j = tf y n (4*c+0) i j) by (intros; rewrite force_eq; reflexivity).
  assert (Lb: forall b i j, 0 <= b < 3 -> tf (unbind3 b (force Op (highs4 y))) n c i j = tf y n (4*c+b+1) i j).
  { intros b i j Hb. unfold unbind3, t_chmap. cbn [tf]. rewrite force_eq. unfold highs4, t_chmap. cbn [tf]. f_equal. lia. }
  rewrite (sumZ_ext Op 0 H' (fun i => sumZ 0 W' (fun j => tf (force Op (band4 0 y)) n c i j *r tf Gl n c i j)) (fun i => sumZ 0 W' (fun j => tf y n (4*c+0) i j *r tf Gl n c i j)))
    by (intros i Hi; apply sumZ_ext; intros j Hj; rewrite L0; reflexivity).
  rewrite (Rth.(Radd_assoc)).
  f_equal; [f_equal; [f_equal|]|]; apply sumZ_ext; intros i Hi; apply sumZ_ext; intros j Hj; f_equal; rewrite Lb by lia; f_equal; lia.
Qed.

(* ---- periodization, even sizes >= filter lengths ---- *)
Lemma line_adj_per L N h0 h1 (x G0 G1:Z->R) : 2 <= L -> L mod 2 = 0 -> 0 < N -> N mod 2 = 0 ->
  dot (N/2) (ana_per Op L N h0 x) G0 +r dot (N/2) (ana_per Op L N h1 x) G1
  = dot N x (syn_per Op L (N/2) h0 h1 G0 G1).
Proof.
  intros HL HLe HN HNe. rewrite !(adjoint_per Op Rth) by lia. unfold dot. rewrite <- sumZ_add by exact Rth.
  apply sumZ_ext. intros i Hi. rewrite (synT_per_syn_per Op Rth). replace (2 * (N/2)) with N by lia. ring.
Qed.
Lemma ana_per_ext' L N h (f g:Z->R) k : 0 < N -> (forall q, 0 <= q < N -> f q = g q) -> ana_per Op L N h f k = ana_per Op L N h g k.
Proof. intros HN H. unfold ana_per. apply sumZ_ext. intros b Hb. f_equal. apply H. apply Z.mod_pos_bound. exact HN. Qed.

Theorem AFB2D_per_adjoint (x Gl Gh:ten) Lr h0r h1r Lc h0c h1c :
  2 <= Lr -> Lr mod 2 = 0 -> 2 <= Lc -> Lc mod 2 = 0 ->
  tW x mod 2 = 0 -> Lr <= tW x -> tH x mod 2 = 0 -> Lc <= tH x -> 0 < tC x ->
  let H' := tH x / 2 in let W' := tW x / 2 in
  tN Gl = tN x -> tC Gl = tC x -> tH Gl = H' -> tW Gl = W' ->
  tN Gh = tN x -> tC Gh = 3 * tC x -> tH Gh = H' -> tW Gh = W' ->
  is_ok (AFB2D_fwd Op x Lr h0r h1r Lc h0c h1c M_PER) (fun r =>
  is_ok (AFB2D_bwd Op (tH x) (tW x) Gl Gh Lr h0r h1r Lc h0c h1c M_PER) (fun dx =>
    tN dx = tN x /\ tC dx = tC x /\ tH dx = tH x /\ tW dx = tW x /\
    forall n c, 0 <= c < tC x ->
      dot2 H' W' (fst r) Gl n c +r dot2 H' W' (unbind3 0 (snd r)) (unbind3 0 Gh) n c
      +r dot2 H' W' (unbind3 1 (snd r)) (unbind3 1 Gh) n c +r dot2 H' W' (unbind3 2 (snd r)) (unbind3 2 Gh) n c
      = dot2 (tH x) (tW x) x dx n c)).
Proof.
  intros HLr HLre HLc HLce HWe HLrW HHe HLcH HC H' W' G1 G2 G3 G4 K1 K2 K3 K4.
  assert (HW: 1 <= tW x) by lia. assert (HH: 1 <= tH x) by lia.
  assert (ElW: even_len (tW x) = tW x) by (unfold even_len; replace (tW x mod 2 =? 1) with false by lia; reflexivity).
  assert (ElH: even_len (tH x) = tH x) by (unfold even_len; replace (tH x mod 2 =? 1) with false by lia; reflexivity).
  unfold AFB2D_fwd.
  pose proof (afb1d_per_row Op Rth x Lr h0r h1r HLr HLre ltac:(rewrite ElW; exact HLrW) HW HH HC) as Hrow.
  destruct (afb1d Op x Lr h0r h1r M_PER 3) as [lohi|]; [|contradiction]. cbn [is_ok bind] in *.
  destruct Hrow as (R1 & R2 & R3 & R4 & R5). rewrite ElW in R4, R5. fold W' in R4, R5.
  assert (ElH2: even_len (tH lohi) = tH x) by (rewrite R3; exact ElH).
  pose proof (afb1d_per_col Op Rth lohi Lc h0c h1c HLc HLce ltac:(rewrite ElH2; exact HLcH) ltac:(lia) ltac:(lia) ltac:(lia)) as Hcol.
  destruct (afb1d Op lohi Lc h0c h1c M_PER 2) as [y|]; [|contradiction]. cbn [is_ok bind fst snd] in *.
  destruct Hcol as (C1 & C2 & C3 & C4 & C5). rewrite ElH2 in C3, C5. fold H' in C3, C5. rewrite R4 in C4, C5.
  unfold AFB2D_bwd.
  set (lh := unbind3 0 Gh). set (hl := unbind3 1 Gh). set (hh := unbind3 2 Gh).
  assert (Hsh: forall b, tN (unbind3 b Gh) = tN x /\ tC (unbind3 b Gh) = tC x /\ tH (unbind3 b Gh) = H' /\ tW (unbind3 b Gh) = W').
  { intros b. unfold unbind3, t_chmap. cbn [tN tC tH tW]. repeat split; lia. }
  assert (Hs1: same_shape Gl lh = true) by (destruct (Hsh 0) as (A & B & C & D); unfold same_shape, lh; rewrite A, B, C, D, G1, G2, G3, G4, !Z.eqb_refl; reflexivity).
  pose proof (sfb1d_per_col Op Rth Gl lh Lc h0c h1c Hs1 HLc HLce ltac:(unfold H' in *; lia) ltac:(unfold W' in *; lia) ltac:(unfold H' in *; lia)) as Hlo.
  destruct (sfb1d Op Gl lh Lc h0c h1c M_PER 2) as [lo|]; [|contradiction]. cbn [is_ok bind] in *.
  destruct Hlo as (A1 & A2 & A3 & A4 & A5). rewrite G3 in A3, A5. rewrite G4 in A4, A5.
  assert (Hs2: same_shape hl hh = true).
  { destruct (Hsh 1) as (A & B & C & D); destruct (Hsh 2) as (A' & B' & C' & D'); unfold same_shape, hl, hh; rewrite A, B, C, D, A', B', C', D', !Z.eqb_refl; reflexivity. }
  destruct (Hsh 1) as (S1 & S2 & S3 & S4). fold hl in S1, S2, S3, S4.
  pose proof (sfb1d_per_col Op Rth hl hh Lc h0c h1c Hs2 HLc HLce ltac:(unfold H' in *; lia) ltac:(unfold W' in *; lia) ltac:(unfold H' in *; lia)) as Hhi.
  destruct (sfb1d Op hl hh Lc h0c h1c M_PER 2) as [hi|]; [|contradiction]. cbn [is_ok bind] in *.
  destruct Hhi as (B1 & B2 & B3 & B4 & B5). rewrite S3 in B3, B5. rewrite S4 in B4, B5.
  assert (Hs3: same_shape lo hi = true) by (unfold same_shape; rewrite A1, A2, A3, A4, B1, B2, B3, B4, S1, S2, G1, G2, !Z.eqb_refl; reflexivity).
  pose proof (sfb1d_per_row_circ Op Rth lo hi Lr h0r h1r Hs3 HLr HLre ltac:(unfold H' in *; lia) ltac:(unfold W' in *; lia) ltac:(unfold W' in *; lia)) as Hdx.
  destruct (sfb1d Op lo hi Lr h0r h1r M_PER 3) as [dxf|]; [|contradiction]. cbn [is_ok bind] in *.
  destruct Hdx as (D1 & D2 & D3 & D4 & D5). rewrite A3 in D3, D5. rewrite A4 in D4, D5.
  assert (HH2: 2 * H' = tH x) by (unfold H'; lia). assert (HW2: 2 * W' = tW x) by (unfold W'; lia).
  pose proof (crop_to_vals (tH x) (tW x) dxf HH HW ltac:(lia) ltac:(lia)) as Hc. cbv zeta in Hc. destruct Hc as (E1 & E2 & E3 & E4 & E5).
  cbn [force tN tC tH tW]. repeat apply conj; try lia.
  intros n c Hc.
  transitivity (sumZ 0 (tH x) (fun i => dot W' (fun k => tf lohi n (2*c) i k) (fun k => tf lo n c i k) +r dot W' (fun k => tf lohi n (2*c+1) i k) (fun k => tf hi n c i k))).
  2:{ unfold dot2. apply sumZ_ext. intros i Hi.
      rewrite (sumZ_ext Op 0 (tW x) _ (fun j => tf x n c i j *r syn_per Op Lr W' h0r h1r (fun k => tf lo n c i k) (fun k => tf hi n c i k) j))
        by (intros j Hj; rewrite force_eq; rewrite E5 by lia; rewrite D5 by lia; reflexivity).
      change (sumZ 0 (tW x) (fun j => tf x n c i j *r syn_per Op Lr W' h0r h1r (fun k => tf lo n c i k) (fun k => tf hi n c i k) j))
        with (dot (tW x) (fun j => tf x n c i j) (syn_per Op Lr W' h0r h1r (fun k => tf lo n c i k) (fun k => tf hi n c i k))).
      unfold W'. rewrite <- (line_adj_per Lr (tW x) h0r h1r) by lia. fold W'.
      f_equal; unfold dot; apply sumZ_ext; intros k Hk; f_equal; rewrite R5 by lia; unfold afb_per_row_line, hsel; rewrite ElW.
      - replace ((2*c) mod 2 =? 0) with true by lia. replace ((2*c)/2) with c by lia. apply ana_per_ext'; [lia|].
        intros q Hq. unfold even_ext. replace (q <? tW x) with true by lia. reflexivity.
      - replace ((2*c+1) mod 2 =? 0) with false by lia. replace ((2*c+1)/2) with c by lia. apply ana_per_ext'; [lia|].
        intros q Hq. unfold even_ext. replace (q <? tW x) with true by lia. reflexivity. }
  assert (Hcolt: forall t (Ga Gb lot:ten), 0 <= t < 2 ->
     (forall m j, 0 <= m < tH x -> 0 <= j < W' -> tf lot n c m j = syn_per Op Lc H' h0c h1c (fun k => tf Ga n c k j) (fun k => tf Gb n c k j) m) ->
     sumZ 0 (tH x) (fun i => dot W' (fun k => tf lohi n (2*c+t) i k) (fun k => tf lot n c i k))
     = dot2 H' W' (mkT 0 0 0 0 (fun n' c' i j => tf y n' (4*c'+2*t) i j)) Ga n c +r dot2 H' W' (mkT 0 0 0 0 (fun n' c' i j => tf y n' (4*c'+2*t+1) i j)) Gb n c).
  { intros t Ga Gb lot Ht Hlot. unfold dot.
    rewrite (sumZ_swap Op Rth 0 (tH x) 0 W' (fun i k => tf lohi n (2*c+t) i k *r tf lot n c i k)).
    unfold dot2. cbn [tf].
    rewrite (sumZ_swap Op Rth 0 H' 0 W' (fun i j => tf y n (4*c+2*t) i j *r tf Ga n c i j)).
    rewrite (sumZ_swap Op Rth 0 H' 0 W' (fun i j => tf y n (4*c+2*t+1) i j *r tf Gb n c i j)).
    rewrite <- sumZ_add by exact Rth. apply sumZ_ext. intros k Hk.
    rewrite (sumZ_ext Op 0 (tH x) _ (fun i => tf lohi n (2*c+t) i k *r syn_per Op Lc H' h0c h1c (fun k' => tf Ga n c k' k) (fun k' => tf Gb n c k' k) i))
      by (intros i Hi; rewrite Hlot by lia; reflexivity).
    change (sumZ 0 (tH x) (fun i => tf lohi n (2*c+t) i k *r syn_per Op Lc H' h0c h1c (fun k' => tf Ga n c k' k) (fun k' => tf Gb n c k' k) i))
      with (dot (tH x) (fun i => tf lohi n (2*c+t) i k) (syn_per Op Lc H' h0c h1c (fun k' => tf Ga n c k' k) (fun k' => tf Gb n c k' k))).
    unfold H'. rewrite <- (line_adj_per Lc (tH x) h0c h1c) by lia. fold H'.
    f_equal; unfold dot; apply sumZ_ext; intros k' Hk'; f_equal.
    - replace (4*c+2*t) with (2*(2*c+t)) by lia. rewrite C5 by lia. unfold afb_per_col_line, hsel. rewrite ElH2. replace ((2*(2*c+t)) mod 2 =? 0) with true by lia.
      replace (2*(2*c+t)/2) with (2*c+t) by lia. apply ana_per_ext'; [lia|]. intros q Hq. unfold even_ext. rewrite R3. replace (q <? tH x) with true by lia. reflexivity.
    - replace (4*c+2*t+1) with (2*(2*c+t)+1) by lia. rewrite C5 by lia. unfold afb_per_col_line, hsel. rewrite ElH2. replace ((2*(2*c+t)+1) mod 2 =? 0) with false by lia.
      replace ((2*(2*c+t)+1)/2) with (2*c+t) by lia. apply ana_per_ext'; [lia|]. intros q Hq. unfold even_ext. rewrite R3. replace (q <? tH x) with true by lia. reflexivity. }
  rewrite (sumZ_add Op Rth).
  pose proof (Hcolt 0 Gl lh lo ltac:(lia)) as T0. replace (2*c+0) with (2*c) in T0 by lia.
  rewrite T0 by (intros m j Hm Hj; rewrite A5 by lia; reflexivity).
  rewrite (Hcolt 1 hl hh hi ltac:(lia)) by (intros m j Hm Hj; rewrite B5 by lia; reflexivity).
  unfold dot2. cbn [tf].
  replace (4*c+2*0) with (4*c+0) by lia. replace (4*c+2*0+1) with (4*c+1) by lia. replace (4*c+2*1) with (4*c+2) by lia. replace (4*c+2*1+1) with (4*c+3) by lia.
  assert (L0: forall i j, tf (force Op (band4 0 y)) n c i j = tf y n (4*c+0) i j) by (intros; rewrite force_eq; reflexivity).
  assert (Lb: forall b i j, 0 <= b < 3 -> tf (unbind3 b (force Op (highs4 y))) n c i j = tf y n (4*c+b+1) i j).
  { intros b i j Hb. unfold unbind3, t_chmap. cbn [tf]. rewrite force_eq. unfold highs4, t_chmap. cbn [tf]. f_equal. lia. }
  rewrite (sumZ_ext Op 0 H' (fun i => sumZ 0 W' (fun j => tf (force Op (band4 0 y)) n c i j *r tf Gl n c i j)) (fun i => sumZ 0 W' (fun j => tf y n (4*c+0) i j *r tf Gl n c i j)))
    by (intros i Hi; apply sumZ_ext; intros j Hj; rewrite L0; reflexivity).
  rewrite (Rth.(Radd_assoc)).
  f_equal; [f_equal; [f_equal|]|]; apply sumZ_ext; intros i Hi; apply sumZ_ext; intros j Hj; f_equal; rewrite Lb by lia; f_equal; lia.
Qed.
End S.
