(* C07 on the tensor-level model of the dual-tree transform: every filter routine, level function and both modules are LINEAR maps
   (relation L3 of Proofs/Linear.v lifted through pairs, options and lists). *)
From PW Require Import Base.Ops Base.Sum Base.Sig Base.Tensor Model.Dwt Model.Dtcwt Proofs.Linear.
Ltac Zify.zify_post_hook ::= Z.to_euclidean_division_equations.

(* generic liftings of a ternary relation *)
Section Lift.
Context {A:Type} (rel:A->A->A->Prop).
Inductive F3 : list A -> list A -> list A -> Prop :=
| F3_nil : F3 nil nil nil
| F3_cons u1 u2 u3 l1 l2 l3 : rel u1 u2 u3 -> F3 l1 l2 l3 -> F3 (u1::l1) (u2::l2) (u3::l3).
Inductive O3 : option A -> option A -> option A -> Prop :=
| O3_none : O3 None None None
| O3_some u1 u2 u3 : rel u1 u2 u3 -> O3 (Some u1) (Some u2) (Some u3).
Lemma F3_app l1 l2 l3 m1 m2 m3 : F3 l1 l2 l3 -> F3 m1 m2 m3 -> F3 (l1 ++ m1) (l2 ++ m2) (l3 ++ m3).
Proof. intros Hl Hm. induction Hl as [|u1 u2 u3 l1 l2 l3 Hu Hl IH]; cbn [app]; [exact Hm | constructor; assumption]. Qed.
Lemma F3_rev l1 l2 l3 : F3 l1 l2 l3 -> F3 (rev l1) (rev l2) (rev l3).
Proof.
  intros Hl. induction Hl as [|u1 u2 u3 l1 l2 l3 Hu Hl IH]; cbn [rev]; [constructor|].
  apply F3_app; [exact IH | constructor; [exact Hu | constructor]].
Qed.
Lemma F3_nth l1 l2 l3 d1 d2 d3 (k:nat) : F3 l1 l2 l3 -> rel d1 d2 d3 -> rel (nth k l1 d1) (nth k l2 d2) (nth k l3 d3).
Proof.
  intros Hl Hd. revert k. induction Hl as [|u1 u2 u3 l1 l2 l3 Hu Hl IH]; intros k; destruct k; cbn [nth]; auto.
Qed.
End Lift.
Definition P3 {A B} (ra:A->A->A->Prop) (rb:B->B->B->Prop) (p1 p2 p3:A*B) : Prop := ra (fst p1) (fst p2) (fst p3) /\ rb (snd p1) (snd p2) (snd p3).

Section S.
Context {R:Type} (Op:Ops R) (Rth: RingOk Op).
Add Ring Rr2 : Rth.
Notation ten := (@ten R).
Infix "+r" := (radd Op) (at level 50, left associativity).
Infix "-r" := (rsub Op) (at level 50, left associativity).
Infix "*r" := (rmul Op) (at level 40, left associativity).
Variables (a b:R).
Variable s : R.
Notation L3 := (L3 Op a b).

Tactic Notation "ap" uconstr(l) := (apply l; try exact Rth).
Ltac shapes H := let S2 := fresh "S2" in let S3 := fresh "S3" in let V := fresh "V" in
  destruct H as (S2 & S3 & V); destruct S2 as (?&?&?&?); destruct S3 as (?&?&?&?).
Ltac rws := repeat match goal with
  | E : tN _ = tN _ |- _ => try rewrite !E; clear E
  | E : tC _ = tC _ |- _ => try rewrite !E; clear E
  | E : tH _ = tH _ |- _ => try rewrite !E; clear E
  | E : tW _ = tW _ |- _ => try rewrite !E; clear E end.
Ltac norm H := let H' := fresh "Hn" in let S2 := fresh "S2" in let S3 := fresh "S3" in
  pose proof H as H'; destruct H' as (S2 & S3 & _); destruct S2 as (?&?&?&?); destruct S3 as (?&?&?&?); rws.

Lemma L3_sub x1 x2 x3 y1 y2 y3 : L3 x1 x2 x3 -> L3 y1 y2 y3 -> L3 (t_sub Op x1 y1) (t_sub Op x2 y2) (t_sub Op x3 y3).
Proof.
  intros Hx Hy. shapes Hx. shapes Hy. unfold t_sub, Linear.L3, shp. cbn [tN tC tH tW tf]. repeat split; try lia.
  intros n c i j. rewrite V, V0. ring.
Qed.
Lemma L3_scale k x1 x2 x3 : L3 x1 x2 x3 -> L3 (t_scale Op k x1) (t_scale Op k x2) (t_scale Op k x3).
Proof.
  intros Hx. shapes Hx. unfold t_scale, Linear.L3, shp. cbn [tN tC tH tW tf]. repeat split; try lia.
  intros n c i j. rewrite V. ring.
Qed.
Lemma L3_neg x1 x2 x3 : L3 x1 x2 x3 -> L3 (t_neg Op x1) (t_neg Op x2) (t_neg Op x3).
Proof.
  intros Hx. shapes Hx. unfold t_neg, Linear.L3, shp. cbn [tN tC tH tW tf]. repeat split; try lia.
  intros n c i j. rewrite V. ring.
Qed.
Lemma L3_poly pi pj x1 x2 x3 : L3 x1 x2 x3 -> L3 (poly pi pj x1) (poly pi pj x2) (poly pi pj x3).
Proof. intros Hx. unfold poly. norm Hx. destruct Hx as (_ & _ & V). ap L3_mk. intros; apply V. Qed.

Lemma linefilter_lin d L h mode x1 x2 x3 : L3 x1 x2 x3 -> R3 L3 (linefilter Op d x1 L h mode) (linefilter Op d x2 L h mode) (linefilter Op d x3 L h mode).
Proof.
  intros H. unfold linefilter. destruct (dlen_eq Op a b d _ _ _ H) as (E2 & E3). destruct (tC_eq Op a b _ _ _ H) as (C2 & C3).
  rewrite E2, E3, C2, C3. cbv zeta. destruct (mode =? M_SYMM).
  - eapply R3_bind. { ap R3_conv2d_r. ap L3_force. ap L3_gather. exact H. } intros u1 u2 u3 Hu. apply R3_ok. ap L3_force. exact Hu.
  - destruct (along d (L/2)) as (ph, pw). eapply R3_bind. { ap R3_conv2d_r. exact H. } intros u1 u2 u3 Hu. apply R3_ok. ap L3_force. exact Hu.
Qed.

Lemma dfilt_lin d L ha hb hp x1 x2 x3 : L3 x1 x2 x3 -> R3 L3 (dfilt Op d x1 L ha hb hp) (dfilt Op d x2 L ha hb hp) (dfilt Op d x3 L ha hb hp).
Proof.
  intros H. unfold dfilt. destruct (dlen_eq Op a b d _ _ _ H) as (E2 & E3). destruct (tC_eq Op a b _ _ _ H) as (C2 & C3).
  rewrite E2, E3, C2, C3. cbv zeta. destruct (negb _); [apply R3_err|].
  destruct (sl _ 2 _ _ _) as (la, ia). destruct (sl _ 3 _ _ _) as (lb, ib). destruct (strides d) as (sh, sw).
  eapply R3_bind. { ap R3_conv2d_r. ap L3_force. ap L3_cat; ap L3_gather; exact H. } intros y1 y2 y3 Hy.
  apply R3_ok. ap L3_force. assert (Hf: L3 (force Op y1) (force Op y2) (force Op y3)) by (ap L3_force; exact Hy).
  norm Hf. destruct Hf as (_ & _ & V). destruct (d =? 2); ap L3_mk; intros; apply V.
Qed.

Lemma ifilt_lin d L ha hb hp x1 x2 x3 : L3 x1 x2 x3 -> R3 L3 (ifilt Op d x1 L ha hb hp) (ifilt Op d x2 L ha hb hp) (ifilt Op d x3 L ha hb hp).
Proof.
  intros H. unfold ifilt. destruct (dlen_eq Op a b d _ _ _ H) as (E2 & E3). destruct (tC_eq Op a b _ _ _ H) as (C2 & C3).
  rewrite E2, E3, C2, C3. cbv zeta. destruct (negb (_ mod 2 =? 0)); [apply R3_err|].
  set (q := if (L/2) mod 2 =? 0 then _ else _). destruct q as (((s1, s2), s3), s4).
  set (hq := if (L/2) mod 2 =? 0 then _ else _). destruct hq as (((h1, h2), h3), h4).
  destruct (negb (_ && _)); [apply R3_err|].
  eapply R3_bind. { ap R3_conv2d_r. ap L3_force. ap L3_cat; ap L3_cat; ap L3_gather; exact H. } intros y1 y2 y3 Hy.
  assert (Hf: L3 (force Op y1) (force Op y2) (force Op y3)) by (ap L3_force; exact Hy).
  destruct (dlen_eq Op a b d _ _ _ Hf) as (F2 & F3'). rewrite F2, F3'.
  destruct (negb (_ =? _)); [apply R3_err|]. apply R3_ok. ap L3_force.
  norm Hf. destruct Hf as (_ & _ & V). destruct (d =? 2); ap L3_mk; intros; apply V.
Qed.

(* q2c / c2q and the orientation bookkeeping *)
Notation L3l := (F3 L3).
Lemma highs_to_orientations_lin lh1 lh2 lh3 hl1 hl2 hl3 hh1 hh2 hh3 : L3 lh1 lh2 lh3 -> L3 hl1 hl2 hl3 -> L3 hh1 hh2 hh3 ->
  L3l (highs_to_orientations Op s lh1 hl1 hh1) (highs_to_orientations Op s lh2 hl2 hh2) (highs_to_orientations Op s lh3 hl3 hh3).
Proof.
  intros H1 H2 H3. unfold highs_to_orientations, q2c. cbv zeta beta iota.
  repeat (constructor; [ap L3_force; first [ap L3_sub | ap L3_add]; ap L3_poly; ap L3_scale; assumption|]). constructor.
Qed.
Lemma pl_lin hs1 hs2 hs3 o ri : L3l hs1 hs2 hs3 -> L3 (pl Op hs1 o ri) (pl Op hs2 o ri) (pl Op hs3 o ri).
Proof. intros H. unfold pl. apply F3_nth; [exact H | ap L3_zeros]. Qed.
Lemma c2q_lin p1 p2 p3 q1 q2 q3 u1 u2 u3 v1 v2 v3 : L3 p1 p2 p3 -> L3 q1 q2 q3 -> L3 u1 u2 u3 -> L3 v1 v2 v3 ->
  L3 (c2q Op s p1 q1 u1 v1) (c2q Op s p2 q2 u2 v2) (c2q Op s p3 q3 u3 v3).
Proof.
  intros Hp Hq Hu Hv. unfold c2q. cbv zeta. ap L3_force.
  destruct Hq as (_ & _ & Vq). destruct Hu as (_ & _ & Vu). destruct Hv as (_ & _ & Vv). norm Hp. destruct Hp as (_ & _ & Vp).
  ap L3_mk. intros n c i j. unfold t_add, t_sub, t_neg. cbn [tf].
  destruct (i mod 2 =? 0); destruct (j mod 2 =? 0); rewrite ?Vp, ?Vq, ?Vu, ?Vv; ring.
Qed.
Definition L3t (t1 t2 t3:ten*ten*ten) : Prop :=
  L3 (fst (fst t1)) (fst (fst t2)) (fst (fst t3)) /\ L3 (snd (fst t1)) (snd (fst t2)) (snd (fst t3)) /\ L3 (snd t1) (snd t2) (snd t3).
Lemma orientations_to_highs_lin hs1 hs2 hs3 : L3l hs1 hs2 hs3 ->
  L3t (orientations_to_highs Op s hs1) (orientations_to_highs Op s hs2) (orientations_to_highs Op s hs3).
Proof. intros H. unfold orientations_to_highs, L3t. cbv zeta. cbn [fst snd]. split; [|split]; apply c2q_lin; apply pl_lin; exact H. Qed.

Lemma radd_res_lin r1 r2 r3 q1 q2 q3 : R3 L3 r1 r2 r3 -> R3 L3 q1 q2 q3 -> R3 L3 (radd_res Op r1 q1) (radd_res Op r2 q2) (radd_res Op r3 q3).
Proof.
  intros Hr Hq. unfold radd_res. eapply R3_bind; [exact Hr|]. intros x1 x2 x3 Hx. eapply R3_bind; [exact Hq|]. intros y1 y2 y3 Hy.
  destruct (same_shape_eq3 Op a b _ _ _ _ _ _ Hx Hy) as (S2 & S3). rewrite S2, S3.
  destruct (same_shape x1 y1); [|apply R3_err]. apply R3_ok. ap L3_force. ap L3_add; assumption.
Qed.

Notation L3pl := (P3 L3 L3l).
Lemma fwd_j1_lin L0 h0 L1 h1 skip mode x1 x2 x3 : L3 x1 x2 x3 ->
  R3 L3pl (fwd_j1 Op s x1 L0 h0 L1 h1 skip mode) (fwd_j1 Op s x2 L0 h0 L1 h1 skip mode) (fwd_j1 Op s x3 L0 h0 L1 h1 skip mode).
Proof.
  intros H. unfold fwd_j1. destruct skip.
  - eapply R3_bind. { apply linefilter_lin. exact H. } intros lo1 lo2 lo3 Hlo.
    eapply R3_bind. { apply linefilter_lin. exact Hlo. } intros ll1 ll2 ll3 Hll. apply R3_ok. split; cbn [fst snd]; [exact Hll | constructor].
  - eapply R3_bind. { apply linefilter_lin. exact H. } intros lo1 lo2 lo3 Hlo.
    eapply R3_bind. { apply linefilter_lin. exact H. } intros hi1 hi2 hi3 Hhi.
    eapply R3_bind. { apply linefilter_lin. exact Hlo. } intros ll1 ll2 ll3 Hll.
    eapply R3_bind. { apply linefilter_lin. exact Hlo. } intros lh1 lh2 lh3 Hlh.
    eapply R3_bind. { apply linefilter_lin. exact Hhi. } intros hl1 hl2 hl3 Hhl.
    eapply R3_bind. { apply linefilter_lin. exact Hhi. } intros hh1 hh2 hh3 Hhh.
    apply R3_ok. split; cbn [fst snd]; [exact Hll | apply highs_to_orientations_lin; assumption].
Qed.
Lemma fwd_j2plus_lin L0 h0a h0b L1 h1a h1b skip x1 x2 x3 : L3 x1 x2 x3 ->
  R3 L3pl (fwd_j2plus Op s x1 L0 h0a h0b L1 h1a h1b skip) (fwd_j2plus Op s x2 L0 h0a h0b L1 h1a h1b skip) (fwd_j2plus Op s x3 L0 h0a h0b L1 h1a h1b skip).
Proof.
  intros H. unfold fwd_j2plus. destruct skip.
  - eapply R3_bind. { apply dfilt_lin. exact H. } intros lo1 lo2 lo3 Hlo.
    eapply R3_bind. { apply dfilt_lin. exact Hlo. } intros ll1 ll2 ll3 Hll. apply R3_ok. split; cbn [fst snd]; [exact Hll | constructor].
  - eapply R3_bind. { apply dfilt_lin. exact H. } intros lo1 lo2 lo3 Hlo.
    eapply R3_bind. { apply dfilt_lin. exact H. } intros hi1 hi2 hi3 Hhi.
    eapply R3_bind. { apply dfilt_lin. exact Hlo. } intros ll1 ll2 ll3 Hll.
    eapply R3_bind. { apply dfilt_lin. exact Hlo. } intros lh1 lh2 lh3 Hlh.
    eapply R3_bind. { apply dfilt_lin. exact Hhi. } intros hl1 hl2 hl3 Hhl.
    eapply R3_bind. { apply dfilt_lin. exact Hhi. } intros hh1 hh2 hh3 Hhh.
    apply R3_ok. split; cbn [fst snd]; [exact Hll | apply highs_to_orientations_lin; assumption].
Qed.

Lemma crop_ll_lin r1 c1 x1 x2 x3 : L3 x1 x2 x3 -> L3 (crop_ll x1 r1 c1) (crop_ll x2 r1 c1) (crop_ll x3 r1 c1).
Proof.
  intros H. unfold crop_ll. cbv zeta.
  assert (Ha: L3 (if negb (tH x1 =? 2 * r1) then t_pyslice 2 1 (-1) x1 else x1) (if negb (tH x2 =? 2 * r1) then t_pyslice 2 1 (-1) x2 else x2)
                 (if negb (tH x3 =? 2 * r1) then t_pyslice 2 1 (-1) x3 else x3)).
  { norm H. destruct (negb _); [ap L3_pyslice|]; exact H. }
  revert Ha. generalize (if negb (tH x1 =? 2 * r1) then t_pyslice 2 1 (-1) x1 else x1) (if negb (tH x2 =? 2 * r1) then t_pyslice 2 1 (-1) x2 else x2)
                 (if negb (tH x3 =? 2 * r1) then t_pyslice 2 1 (-1) x3 else x3). intros y1 y2 y3 Hy.
  norm Hy. destruct (negb _); [ap L3_pyslice|]; exact Hy.
Qed.

Notation L3op := (O3 L3).
Lemma inv_j1_lin L0 g0 L1 g1 mode ll1 ll2 ll3 hs1 hs2 hs3 : L3op ll1 ll2 ll3 -> L3l hs1 hs2 hs3 ->
  R3 L3 (inv_j1 Op s ll1 hs1 L0 g0 L1 g1 mode) (inv_j1 Op s ll2 hs2 L0 g0 L1 g1 mode) (inv_j1 Op s ll3 hs3 L0 g0 L1 g1 mode).
Proof.
  intros Hl Hh. unfold inv_j1. destruct Hh as [|u1 u2 u3 l1 l2 l3 Hu Hr].
  - destruct Hl as [|v1 v2 v3 Hv]; [apply R3_err|].
    eapply R3_bind. { apply linefilter_lin. exact Hv. } intros y1 y2 y3 Hy. apply linefilter_lin. exact Hy.
  - assert (Hhs: L3l (u1::l1) (u2::l2) (u3::l3)) by (constructor; assumption).
    pose proof (orientations_to_highs_lin _ _ _ Hhs) as Ht. pose proof (pl_lin _ _ _ 0 0 Hhs) as Hp0.
    revert Ht Hp0. generalize (u1::l1) (u2::l2) (u3::l3). intros hs1 hs2 hs3 Ht Hp0.
    destruct (orientations_to_highs Op s hs1) as ((lh1, hl1), hh1). destruct (orientations_to_highs Op s hs2) as ((lh2, hl2), hh2).
    destruct (orientations_to_highs Op s hs3) as ((lh3, hl3), hh3). destruct Ht as (Hlh & Hhl & Hhh). cbn [fst snd] in *.
    destruct Hl as [|v1 v2 v3 Hv].
    + eapply R3_bind. { apply radd_res_lin; apply linefilter_lin; assumption. } intros hi1 hi2 hi3 Hhi.
      eapply R3_bind. { apply linefilter_lin. exact Hlh. } intros lo1 lo2 lo3 Hlo.
      apply radd_res_lin; apply linefilter_lin; assumption.
    + norm Hp0. cbv zeta.
      eapply R3_bind. { apply radd_res_lin; apply linefilter_lin; assumption. } intros hi1 hi2 hi3 Hhi.
      eapply R3_bind. { apply radd_res_lin; apply linefilter_lin; [assumption | apply crop_ll_lin; exact Hv]. } intros lo1 lo2 lo3 Hlo.
      apply radd_res_lin; apply linefilter_lin; assumption.
Qed.
Lemma inv_j2plus_lin L0 g0a g0b L1 g1a g1b ll1 ll2 ll3 hs1 hs2 hs3 : L3op ll1 ll2 ll3 -> L3l hs1 hs2 hs3 ->
  R3 L3 (inv_j2plus Op s ll1 hs1 L0 g0a g0b L1 g1a g1b) (inv_j2plus Op s ll2 hs2 L0 g0a g0b L1 g1a g1b) (inv_j2plus Op s ll3 hs3 L0 g0a g0b L1 g1a g1b).
Proof.
  intros Hl Hh. unfold inv_j2plus. destruct Hh as [|u1 u2 u3 l1 l2 l3 Hu Hr].
  - destruct Hl as [|v1 v2 v3 Hv]; [apply R3_err|].
    eapply R3_bind. { apply ifilt_lin. exact Hv. } intros y1 y2 y3 Hy. apply ifilt_lin. exact Hy.
  - assert (Hhs: L3l (u1::l1) (u2::l2) (u3::l3)) by (constructor; assumption).
    pose proof (orientations_to_highs_lin _ _ _ Hhs) as Ht.
    revert Ht. generalize (u1::l1) (u2::l2) (u3::l3). intros hs1 hs2 hs3 Ht.
    destruct (orientations_to_highs Op s hs1) as ((lh1, hl1), hh1). destruct (orientations_to_highs Op s hs2) as ((lh2, hl2), hh2).
    destruct (orientations_to_highs Op s hs3) as ((lh3, hl3), hh3). destruct Ht as (Hlh & Hhl & Hhh). cbn [fst snd] in *.
    destruct Hl as [|v1 v2 v3 Hv].
    + eapply R3_bind. { apply radd_res_lin; apply ifilt_lin; assumption. } intros hi1 hi2 hi3 Hhi.
      eapply R3_bind. { apply ifilt_lin. exact Hlh. } intros lo1 lo2 lo3 Hlo.
      apply radd_res_lin; apply ifilt_lin; assumption.
    + eapply R3_bind. { apply radd_res_lin; apply ifilt_lin; assumption. } intros hi1 hi2 hi3 Hhi.
      eapply R3_bind. { apply radd_res_lin; apply ifilt_lin; assumption. } intros lo1 lo2 lo3 Hlo.
      apply radd_res_lin; apply ifilt_lin; assumption.
Qed.

(* ---- modules ---- *)
Lemma ext_even_lin x1 x2 x3 : L3 x1 x2 x3 -> L3 (ext_even x1) (ext_even x2) (ext_even x3).
Proof.
  intros H. unfold ext_even. cbv zeta.
  assert (Ha: L3 (if tH x1 mod 2 =? 1 then t_cat 2 x1 (t_slice 2 (pyclip (tH x1) (-1)) (tH x1) 1 x1) else x1)
                 (if tH x2 mod 2 =? 1 then t_cat 2 x2 (t_slice 2 (pyclip (tH x2) (-1)) (tH x2) 1 x2) else x2)
                 (if tH x3 mod 2 =? 1 then t_cat 2 x3 (t_slice 2 (pyclip (tH x3) (-1)) (tH x3) 1 x3) else x3)).
  { norm H. destruct (_ =? 1); [ap L3_cat; [|ap L3_slice]|]; exact H. }
  revert Ha. generalize (if tH x1 mod 2 =? 1 then t_cat 2 x1 (t_slice 2 (pyclip (tH x1) (-1)) (tH x1) 1 x1) else x1)
                 (if tH x2 mod 2 =? 1 then t_cat 2 x2 (t_slice 2 (pyclip (tH x2) (-1)) (tH x2) 1 x2) else x2)
                 (if tH x3 mod 2 =? 1 then t_cat 2 x3 (t_slice 2 (pyclip (tH x3) (-1)) (tH x3) 1 x3) else x3). intros y1 y2 y3 Hy.
  norm Hy. destruct (_ =? 1); [ap L3_cat; [|ap L3_slice]|]; exact Hy.
Qed.
Lemma pad4_lin x1 x2 x3 : L3 x1 x2 x3 -> L3 (pad4 x1) (pad4 x2) (pad4 x3).
Proof.
  intros H. unfold pad4. cbv zeta.
  assert (Ha: L3 (if negb (tH x1 mod 4 =? 0) then t_cat 2 (t_cat 2 (t_pyslice 2 0 1 x1) x1) (t_slice 2 (pyclip (tH x1) (-1)) (tH x1) 1 x1) else x1)
                 (if negb (tH x2 mod 4 =? 0) then t_cat 2 (t_cat 2 (t_pyslice 2 0 1 x2) x2) (t_slice 2 (pyclip (tH x2) (-1)) (tH x2) 1 x2) else x2)
                 (if negb (tH x3 mod 4 =? 0) then t_cat 2 (t_cat 2 (t_pyslice 2 0 1 x3) x3) (t_slice 2 (pyclip (tH x3) (-1)) (tH x3) 1 x3) else x3)).
  { norm H. destruct (negb _); [ap L3_cat; [ap L3_cat; [ap L3_pyslice|]|ap L3_slice]|]; exact H. }
  revert Ha. generalize (if negb (tH x1 mod 4 =? 0) then t_cat 2 (t_cat 2 (t_pyslice 2 0 1 x1) x1) (t_slice 2 (pyclip (tH x1) (-1)) (tH x1) 1 x1) else x1)
                 (if negb (tH x2 mod 4 =? 0) then t_cat 2 (t_cat 2 (t_pyslice 2 0 1 x2) x2) (t_slice 2 (pyclip (tH x2) (-1)) (tH x2) 1 x2) else x2)
                 (if negb (tH x3 mod 4 =? 0) then t_cat 2 (t_cat 2 (t_pyslice 2 0 1 x3) x3) (t_slice 2 (pyclip (tH x3) (-1)) (tH x3) 1 x3) else x3). intros y1 y2 y3 Hy.
  norm Hy. destruct (negb _); [ap L3_cat; [ap L3_cat; [ap L3_pyslice|]|ap L3_slice]|]; exact Hy.
Qed.

Notation L3lev := (F3 L3pl).
Lemma fwd_levels_lin L0 h0a h0b L1 h1a h1b skips : forall x1 x2 x3, L3 x1 x2 x3 ->
  R3 (P3 L3 L3lev) (fwd_levels Op s skips x1 L0 h0a h0b L1 h1a h1b) (fwd_levels Op s skips x2 L0 h0a h0b L1 h1a h1b) (fwd_levels Op s skips x3 L0 h0a h0b L1 h1a h1b).
Proof.
  induction skips as [|sk rest IH]; intros x1 x2 x3 H; cbn [fwd_levels].
  - apply R3_ok. split; cbn [fst snd]; [exact H | constructor].
  - eapply R3_bind. { apply fwd_j2plus_lin. ap L3_force. apply pad4_lin. exact H. }
    intros [l1 hs1] [l2 hs2] [l3 hs3] (Hl & Hhs). cbn [fst snd] in *.
    eapply R3_bind. { apply IH. exact Hl. } intros [f1 r1] [f2 r2] [f3 r3] (Hf & Hr). cbn [fst snd] in *.
    apply R3_ok. split; cbn [fst snd]; [exact Hf | constructor; [split; assumption | exact Hr]].
Qed.
Theorem DTCWTForward_lin Lo0 h0o Lo1 h1o L0 h0a h0b L1 h1a h1b mode skips x1 x2 x3 : L3 x1 x2 x3 ->
  R3 L3lev (DTCWTForward Op s skips x1 Lo0 h0o Lo1 h1o L0 h0a h0b L1 h1a h1b mode) (DTCWTForward Op s skips x2 Lo0 h0o Lo1 h1o L0 h0a h0b L1 h1a h1b mode)
           (DTCWTForward Op s skips x3 Lo0 h0o Lo1 h1o L0 h0a h0b L1 h1a h1b mode).
Proof.
  intros H. unfold DTCWTForward. destruct skips as [|sk rest]; [apply R3_err|].
  eapply R3_bind. { apply fwd_j1_lin. ap L3_force. apply ext_even_lin. exact H. }
  intros [l1 hs1] [l2 hs2] [l3 hs3] (Hl & Hhs). cbn [fst snd] in *.
  eapply R3_bind. { apply fwd_levels_lin. exact Hl. } intros r1 r2 r3 (Hf & Hr).
  apply R3_ok. constructor; [split; assumption | exact Hr].
Qed.

Lemma crop_opt_lin ll1 ll2 ll3 hs1 hs2 hs3 : L3op ll1 ll2 ll3 -> L3l hs1 hs2 hs3 -> L3op (crop_opt Op ll1 hs1) (crop_opt Op ll2 hs2) (crop_opt Op ll3 hs3).
Proof.
  intros Hl Hh. unfold crop_opt. destruct Hl as [|v1 v2 v3 Hv]; [constructor|].
  destruct Hh as [|u1 u2 u3 l1 l2 l3 Hu Hr]; [constructor; exact Hv|].
  assert (Hhs: L3l (u1::l1) (u2::l2) (u3::l3)) by (constructor; assumption).
  pose proof (pl_lin _ _ _ 0 0 Hhs) as Hp0. norm Hp0. constructor. apply crop_ll_lin. exact Hv.
Qed.
Notation L3ll := (F3 L3l).
Lemma inv_levels_lin L0 g0a g0b L1 g1a g1b hr1 hr2 hr3 : L3ll hr1 hr2 hr3 -> forall ll1 ll2 ll3, L3op ll1 ll2 ll3 ->
  R3 L3op (inv_levels Op s ll1 hr1 L0 g0a g0b L1 g1a g1b) (inv_levels Op s ll2 hr2 L0 g0a g0b L1 g1a g1b) (inv_levels Op s ll3 hr3 L0 g0a g0b L1 g1a g1b).
Proof.
  intros Hh. induction Hh as [|u1 u2 u3 l1 l2 l3 Hu Hr IH]; intros ll1 ll2 ll3 Hl; cbn [inv_levels].
  - apply R3_ok. exact Hl.
  - eapply R3_bind. { apply inv_j2plus_lin; [apply crop_opt_lin; assumption | exact Hu]. } intros y1 y2 y3 Hy.
    apply IH. constructor. exact Hy.
Qed.
Theorem DTCWTInverse_lin Lo0 g0o Lo1 g1o L0 g0a g0b L1 g1a g1b mode ll1 ll2 ll3 hs1 hs2 hs3 : L3op ll1 ll2 ll3 -> L3ll hs1 hs2 hs3 ->
  R3 L3 (DTCWTInverse Op s ll1 hs1 Lo0 g0o Lo1 g1o L0 g0a g0b L1 g1a g1b mode) (DTCWTInverse Op s ll2 hs2 Lo0 g0o Lo1 g1o L0 g0a g0b L1 g1a g1b mode)
        (DTCWTInverse Op s ll3 hs3 Lo0 g0o Lo1 g1o L0 g0a g0b L1 g1a g1b mode).
Proof.
  intros Hl Hh. unfold DTCWTInverse. destruct Hh as [|u1 u2 u3 l1 l2 l3 Hu Hr]; [apply R3_err|].
  eapply R3_bind. { apply inv_levels_lin; [apply F3_rev; exact Hr | exact Hl]. } intros y1 y2 y3 Hy.
  apply inv_j1_lin; [apply crop_opt_lin; assumption | exact Hu].
Qed.
End S.
