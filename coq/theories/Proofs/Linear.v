(* C07 on the tensor-level model: every DWT function and module is a LINEAR map.  Relation L3 a b x1 x2 x3: the three tensors have one
   shape and x3 = a x1 + b x2 at EVERY index (also outside the extent, which is what makes index maps, pads and rolls trivial).
   R3: three results are all Ok with related values, or all the same error (control flow only depends on shapes). *)
From PW Require Import Base.Ops Base.Sum Base.Sig Base.Tensor Model.Dwt.
Ltac Zify.zify_post_hook ::= Z.to_euclidean_division_equations.

Section S.
Context {R:Type} (Op:Ops R) (Rth: RingOk Op).
Add Ring Rr : Rth.
Notation ten := (@ten R).
Infix "+r" := (radd Op) (at level 50, left associativity).
Infix "*r" := (rmul Op) (at level 40, left associativity).
Notation sumZ := (sumZ Op).
Variables (a b:R).

Definition shp (x y:ten) : Prop := tN y = tN x /\ tC y = tC x /\ tH y = tH x /\ tW y = tW x.
Definition L3 (x1 x2 x3:ten) : Prop :=
  shp x1 x2 /\ shp x1 x3 /\ forall n c i j, tf x3 n c i j = a *r tf x1 n c i j +r b *r tf x2 n c i j.
Definition R3 {A} (rel:A->A->A->Prop) (r1 r2 r3:res A) : Prop :=
  match r1, r2, r3 with
  | Ok u1, Ok u2, Ok u3 => rel u1 u2 u3
  | Err e1, Err e2, Err e3 => e1 = e2 /\ e1 = e3
  | _, _, _ => False
  end.

Lemma R3_bind {A B} (relA:A->A->A->Prop) (relB:B->B->B->Prop) r1 r2 r3 (f1 f2 f3:A->res B) :
  R3 relA r1 r2 r3 -> (forall u1 u2 u3, relA u1 u2 u3 -> R3 relB (f1 u1) (f2 u2) (f3 u3)) ->
  R3 relB (bind r1 f1) (bind r2 f2) (bind r3 f3).
Proof.
  intros H Hf. destruct r1 as [u1|e1]; destruct r2 as [u2|e2]; destruct r3 as [u3|e3]; cbn [R3 bind] in *; try contradiction.
  - apply Hf; exact H.
  - exact H.
Qed.
Lemma R3_ok {A} (rel:A->A->A->Prop) u1 u2 u3 : rel u1 u2 u3 -> R3 rel (Ok u1) (Ok u2) (Ok u3).
Proof. intros H; exact H. Qed.
Lemma R3_err {A} (rel:A->A->A->Prop) e : R3 rel (Err e) (Err e) (Err e).
Proof. cbn. split; reflexivity. Qed.

(* building block: three tensors given by the same shape expression and pointwise-related value functions *)
Lemma L3_mk N C H W (f1 f2 f3:Z->Z->Z->Z->R) :
  (forall n c i j, f3 n c i j = a *r f1 n c i j +r b *r f2 n c i j) -> L3 (mkT N C H W f1) (mkT N C H W f2) (mkT N C H W f3).
Proof. intros H0. unfold L3, shp. cbn [tN tC tH tW tf]. repeat split; auto. Qed.

Ltac shapes H := let S2 := fresh "S2" in let S3 := fresh "S3" in let V := fresh "V" in
  destruct H as (S2 & S3 & V); destruct S2 as (?&?&?&?); destruct S3 as (?&?&?&?).

Lemma L3_gather d len idx x1 x2 x3 : L3 x1 x2 x3 -> L3 (t_gather d len idx x1) (t_gather d len idx x2) (t_gather d len idx x3).
Proof.
  intros H. shapes H. unfold t_gather. destruct (d =? 2).
  - replace (tN x2) with (tN x1) by lia. replace (tN x3) with (tN x1) by lia. replace (tC x2) with (tC x1) by lia. replace (tC x3) with (tC x1) by lia.
    replace (tW x2) with (tW x1) by lia. replace (tW x3) with (tW x1) by lia. apply L3_mk. intros; apply V.
  - replace (tN x2) with (tN x1) by lia. replace (tN x3) with (tN x1) by lia. replace (tC x2) with (tC x1) by lia. replace (tC x3) with (tC x1) by lia.
    replace (tH x2) with (tH x1) by lia. replace (tH x3) with (tH x1) by lia. apply L3_mk. intros; apply V.
Qed.
Lemma dlen_eq d x1 x2 x3 : L3 x1 x2 x3 -> dlen d x2 = dlen d x1 /\ dlen d x3 = dlen d x1.
Proof. intros H. shapes H. unfold dlen. destruct (d =? 2); lia. Qed.
Lemma L3_slice d p q st x1 x2 x3 : L3 x1 x2 x3 -> L3 (t_slice d p q st x1) (t_slice d p q st x2) (t_slice d p q st x3).
Proof. intros H. unfold t_slice. apply L3_gather; exact H. Qed.
Lemma L3_pyslice d p q x1 x2 x3 : L3 x1 x2 x3 -> L3 (t_pyslice d p q x1) (t_pyslice d p q x2) (t_pyslice d p q x3).
Proof. intros H. unfold t_pyslice. destruct (dlen_eq d _ _ _ H) as (E2 & E3). rewrite E2, E3. apply L3_slice; exact H. Qed.
Lemma L3_cat d x1 x2 x3 y1 y2 y3 : L3 x1 x2 x3 -> L3 y1 y2 y3 -> L3 (t_cat d x1 y1) (t_cat d x2 y2) (t_cat d x3 y3).
Proof.
  intros Hx Hy. shapes Hx. shapes Hy. unfold t_cat.
  replace (tN x2) with (tN x1) by lia. replace (tN x3) with (tN x1) by lia. replace (tC x2) with (tC x1) by lia. replace (tC x3) with (tC x1) by lia.
  replace (tH x2) with (tH x1) by lia. replace (tH x3) with (tH x1) by lia. replace (tW x2) with (tW x1) by lia. replace (tW x3) with (tW x1) by lia.
  replace (tC y2) with (tC y1) by lia. replace (tC y3) with (tC y1) by lia. replace (tH y2) with (tH y1) by lia. replace (tH y3) with (tH y1) by lia.
  replace (tW y2) with (tW y1) by lia. replace (tW y3) with (tW y1) by lia.
  destruct (d =? 1); [|destruct (d =? 2)]; apply L3_mk; intros n c i j.
  - destruct (c <? tC x1); [apply V | apply V0].
  - destruct (i <? tH x1); [apply V | apply V0].
  - destruct (j <? tW x1); [apply V | apply V0].
Qed.
Lemma L3_zpad l r' t u x1 x2 x3 : L3 x1 x2 x3 -> L3 (t_zpad Op l r' t u x1) (t_zpad Op l r' t u x2) (t_zpad Op l r' t u x3).
Proof.
  intros H. shapes H. unfold t_zpad.
  replace (tN x2) with (tN x1) by lia. replace (tN x3) with (tN x1) by lia. replace (tC x2) with (tC x1) by lia. replace (tC x3) with (tC x1) by lia.
  replace (tH x2) with (tH x1) by lia. replace (tH x3) with (tH x1) by lia. replace (tW x2) with (tW x1) by lia. replace (tW x3) with (tW x1) by lia.
  apply L3_mk. intros n c i j. destruct (inr (tH x1) (i - t) && inr (tW x1) (j - l)); [apply V | ring].
Qed.
Lemma L3_chmap C' g x1 x2 x3 : L3 x1 x2 x3 -> L3 (t_chmap C' g x1) (t_chmap C' g x2) (t_chmap C' g x3).
Proof.
  intros H. shapes H. unfold t_chmap.
  replace (tN x2) with (tN x1) by lia. replace (tN x3) with (tN x1) by lia.
  replace (tH x2) with (tH x1) by lia. replace (tH x3) with (tH x1) by lia. replace (tW x2) with (tW x1) by lia. replace (tW x3) with (tW x1) by lia.
  apply L3_mk. intros; apply V.
Qed.
Lemma L3_force x1 x2 x3 : L3 x1 x2 x3 -> L3 (force Op x1) (force Op x2) (force Op x3).
Proof.
  intros H. shapes H. unfold L3, shp. cbn [force tN tC tH tW]. repeat split; try lia.
  intros n c i j. rewrite !force_eq. apply V.
Qed.
Lemma L3_add x1 x2 x3 y1 y2 y3 : L3 x1 x2 x3 -> L3 y1 y2 y3 -> L3 (t_add Op x1 y1) (t_add Op x2 y2) (t_add Op x3 y3).
Proof.
  intros Hx Hy. shapes Hx. shapes Hy. unfold t_add, L3, shp. cbn [tN tC tH tW tf]. repeat split; try lia.
  intros n c i j. rewrite V, V0. ring.
Qed.
Lemma L3_zeros N C H W : L3 (t_zeros Op N C H W) (t_zeros Op N C H W) (t_zeros Op N C H W).
Proof. unfold t_zeros. apply L3_mk. intros; ring. Qed.
Lemma L3_conv w sh sw ph pw dh dw x1 x2 x3 : L3 x1 x2 x3 ->
  L3 (conv2d_dw Op x1 w sh sw ph pw dh dw) (conv2d_dw Op x2 w sh sw ph pw dh dw) (conv2d_dw Op x3 w sh sw ph pw dh dw).
Proof.
  intros H. pose proof (L3_zpad pw pw ph ph _ _ _ H) as (_ & _ & Vz). shapes H. unfold conv2d_dw.
  replace (tN x2) with (tN x1) by lia. replace (tN x3) with (tN x1) by lia. replace (tC x2) with (tC x1) by lia. replace (tC x3) with (tC x1) by lia.
  replace (tH x2) with (tH x1) by lia. replace (tH x3) with (tH x1) by lia. replace (tW x2) with (tW x1) by lia. replace (tW x3) with (tW x1) by lia.
  apply L3_mk. intros n oc i j.
  rewrite <- !(sumZ_scale Op Rth). rewrite <- (sumZ_add Op Rth). apply sumZ_ext. intros p Hp.
  rewrite <- !(sumZ_scale Op Rth). rewrite <- (sumZ_add Op Rth). apply sumZ_ext. intros q Hq.
  rewrite Vz. ring.
Qed.
Lemma L3_convT w sh sw ph pw x1 x2 x3 : L3 x1 x2 x3 ->
  L3 (convT2d_dw Op x1 w sh sw ph pw) (convT2d_dw Op x2 w sh sw ph pw) (convT2d_dw Op x3 w sh sw ph pw).
Proof.
  intros H. shapes H. unfold convT2d_dw.
  replace (tN x2) with (tN x1) by lia. replace (tN x3) with (tN x1) by lia. replace (tC x2) with (tC x1) by lia. replace (tC x3) with (tC x1) by lia.
  replace (tH x2) with (tH x1) by lia. replace (tH x3) with (tH x1) by lia. replace (tW x2) with (tW x1) by lia. replace (tW x3) with (tW x1) by lia.
  apply L3_mk. intros n c i j.
  rewrite <- !(sumZ_scale Op Rth). rewrite <- (sumZ_add Op Rth). apply sumZ_ext. intros k Hk.
  rewrite <- !(sumZ_scale Op Rth). rewrite <- (sumZ_add Op Rth). apply sumZ_ext. intros l Hl. cbv zeta.
  destruct (inr (wKH w) (i + ph - k * sh) && inr (wKW w) (j + pw - l * sw)); [rewrite V; ring | ring].
Qed.
Lemma L3_roll n d x1 x2 x3 : L3 x1 x2 x3 -> L3 (roll x1 n d) (roll x2 n d) (roll x3 n d).
Proof.
  intros H. unfold roll. destruct (dlen_eq d _ _ _ H) as (E2 & E3). rewrite E2, E3. apply L3_cat; apply L3_slice; exact H.
Qed.

(* result-valued primitives *)
Lemma R3_conv2d_r w sh sw ph pw dh dw x1 x2 x3 : L3 x1 x2 x3 ->
  R3 L3 (conv2d_r Op x1 w sh sw ph pw dh dw) (conv2d_r Op x2 w sh sw ph pw dh dw) (conv2d_r Op x3 w sh sw ph pw dh dw).
Proof.
  intros H. pose proof (L3_conv w sh sw ph pw dh dw _ _ _ H) as Hc. shapes H. unfold conv2d_r.
  replace (tH x2) with (tH x1) by lia. replace (tH x3) with (tH x1) by lia. replace (tW x2) with (tW x1) by lia. replace (tW x3) with (tW x1) by lia.
  destruct (_ && _ && _ && _); [exact Hc | apply R3_err].
Qed.
Lemma R3_convT2d_r w sh sw ph pw x1 x2 x3 : L3 x1 x2 x3 ->
  R3 L3 (convT2d_r Op x1 w sh sw ph pw) (convT2d_r Op x2 w sh sw ph pw) (convT2d_r Op x3 w sh sw ph pw).
Proof.
  intros H. pose proof (L3_convT w sh sw ph pw _ _ _ H) as Hc. shapes H. unfold convT2d_r.
  replace (tH x2) with (tH x1) by lia. replace (tH x3) with (tH x1) by lia. replace (tW x2) with (tW x1) by lia. replace (tW x3) with (tW x1) by lia.
  destruct (_ && _ && _ && _); [exact Hc | apply R3_err].
Qed.
Lemma R3_mypad d before after mode x1 x2 x3 : L3 x1 x2 x3 -> R3 L3 (mypad Op d before after mode x1) (mypad Op d before after mode x2) (mypad Op d before after mode x3).
Proof.
  intros H. unfold mypad. destruct (dlen_eq d _ _ _ H) as (E2 & E3). rewrite E2, E3. cbv zeta.
  destruct (mode =? M_SYMM). { apply L3_gather; exact H. }
  destruct (mode =? M_PERIODIC). { apply L3_gather; exact H. }
  destruct (mode =? M_REFLECT). { destruct (_ && _); [apply L3_gather; exact H | apply R3_err]. }
  destruct (mode =? M_REPL). { apply L3_gather; exact H. }
  destruct (_ || _); [|apply R3_err]. destruct (d =? 2); apply L3_zpad; exact H.
Qed.
Lemma R3_fold_add d la b0 x1 x2 x3 : L3 x1 x2 x3 -> R3 L3 (fold_add Op d la b0 x1) (fold_add Op d la b0 x2) (fold_add Op d la b0 x3).
Proof.
  intros H. unfold fold_add. destruct (dlen_eq d _ _ _ H) as (E2 & E3). rewrite E2, E3. cbv zeta. shapes H.
  destruct (_ =? _); [|apply R3_err].
  replace (tN x2) with (tN x1) by lia. replace (tN x3) with (tN x1) by lia. replace (tC x2) with (tC x1) by lia. replace (tC x3) with (tC x1) by lia.
  replace (tH x2) with (tH x1) by lia. replace (tH x3) with (tH x1) by lia. replace (tW x2) with (tW x1) by lia. replace (tW x3) with (tW x1) by lia.
  destruct (d =? 2); apply L3_mk; intros n c i j.
  - destruct (i <? _); [rewrite !V; ring | apply V].
  - destruct (j <? _); [rewrite !V; ring | apply V].
Qed.

(* ---- the filter banks ---- *)
Lemma tC_eq x1 x2 x3 : L3 x1 x2 x3 -> tC x2 = tC x1 /\ tC x3 = tC x1.
Proof. intros ((A1 & A2 & A3 & A4) & (B1 & B2 & B3 & B4) & _). split; assumption. Qed.

Lemma afb1d_lin L h0 h1 mode d x1 x2 x3 : L3 x1 x2 x3 -> R3 L3 (afb1d Op x1 L h0 h1 mode d) (afb1d Op x2 L h0 h1 mode d) (afb1d Op x3 L h0 h1 mode d).
Proof.
  intros H. unfold afb1d. destruct (dlen_eq d _ _ _ H) as (E2 & E3). destruct (tC_eq _ _ _ H) as (C2 & C3). rewrite E2, E3, C2, C3. cbv zeta.
  destruct (strides d) as (sh, sw).
  destruct (mode =? M_PER).
  - destruct (along d (L - 1)) as (ph, pw).
    set (y1 := if dlen d x1 mod 2 =? 1 then _ else x1). set (y2 := if dlen d x1 mod 2 =? 1 then _ else x2). set (y3 := if dlen d x1 mod 2 =? 1 then _ else x3).
    assert (Hy: L3 y1 y2 y3) by (unfold y1, y2, y3; destruct (_ =? 1); [apply L3_cat; [exact H | apply L3_slice; exact H] | exact H]).
    eapply R3_bind. { apply R3_conv2d_r. apply L3_force. apply L3_roll. exact Hy. }
    intros u1 u2 u3 Hu. eapply R3_bind. { apply R3_fold_add. apply L3_force. exact Hu. }
    intros v1 v2 v3 Hv. destruct (dlen_eq d _ _ _ Hv) as (F2 & F3). rewrite F2, F3. apply R3_ok. apply L3_force. apply L3_slice. exact Hv.
  - destruct (mode =? M_ZERO).
    + destruct (along d _) as (ph, pw). eapply R3_bind.
      { apply R3_conv2d_r. apply L3_force. destruct (_ =? 1); [destruct (d =? 2); apply L3_zpad; exact H | exact H]. }
      intros u1 u2 u3 Hu. apply R3_ok. apply L3_force. exact Hu.
    + destruct (_ || _ || _); [|apply R3_err]. eapply R3_bind. { apply R3_mypad. exact H. }
      intros u1 u2 u3 Hu. eapply R3_bind. { apply R3_conv2d_r. apply L3_force. exact Hu. }
      intros v1 v2 v3 Hv. apply R3_ok. apply L3_force. exact Hv.
Qed.

Lemma same_shape_eq3 x1 x2 x3 y1 y2 y3 : L3 x1 x2 x3 -> L3 y1 y2 y3 -> same_shape x2 y2 = same_shape x1 y1 /\ same_shape x3 y3 = same_shape x1 y1.
Proof.
  intros Hx Hy. shapes Hx. shapes Hy. unfold same_shape.
  replace (tN x2) with (tN x1) by lia. replace (tN x3) with (tN x1) by lia. replace (tC x2) with (tC x1) by lia. replace (tC x3) with (tC x1) by lia.
  replace (tH x2) with (tH x1) by lia. replace (tH x3) with (tH x1) by lia. replace (tW x2) with (tW x1) by lia. replace (tW x3) with (tW x1) by lia.
  replace (tN y2) with (tN y1) by lia. replace (tN y3) with (tN y1) by lia. replace (tC y2) with (tC y1) by lia. replace (tC y3) with (tC y1) by lia.
  replace (tH y2) with (tH y1) by lia. replace (tH y3) with (tH y1) by lia. replace (tW y2) with (tW y1) by lia. replace (tW y3) with (tW y1) by lia.
  split; reflexivity.
Qed.

Lemma sfb1d_lin L g0 g1 mode d x1 x2 x3 y1 y2 y3 : L3 x1 x2 x3 -> L3 y1 y2 y3 ->
  R3 L3 (sfb1d Op x1 y1 L g0 g1 mode d) (sfb1d Op x2 y2 L g0 g1 mode d) (sfb1d Op x3 y3 L g0 g1 mode d).
Proof.
  intros Hx Hy. unfold sfb1d. destruct (dlen_eq d _ _ _ Hx) as (E2 & E3). destruct (tC_eq _ _ _ Hx) as (C2 & C3). rewrite E2, E3, C2, C3. cbv zeta.
  destruct (same_shape_eq3 _ _ _ _ _ _ Hx Hy) as (S2 & S3). rewrite S2, S3.
  destruct (strides d) as (sh, sw). destruct (negb (same_shape x1 y1)); [apply R3_err|].
  destruct (mode =? M_PER).
  - eapply R3_bind. { apply R3_convT2d_r. exact Hx. } intros u1 u2 u3 Hu.
    eapply R3_bind. { apply R3_convT2d_r. exact Hy. } intros v1 v2 v3 Hv.
    eapply R3_bind. { apply R3_fold_add. apply L3_force. apply L3_add; assumption. } intros w1 w2 w3 Hw.
    destruct (dlen_eq d _ _ _ Hw) as (F2 & F3). rewrite F2, F3. apply R3_ok. apply L3_force. apply L3_roll. apply L3_force. apply L3_slice. exact Hw.
  - destruct (_ || _ || _ || _); [|apply R3_err]. destruct (along d (L - 2)) as (ph, pw).
    eapply R3_bind. { apply R3_convT2d_r. exact Hx. } intros u1 u2 u3 Hu.
    eapply R3_bind. { apply R3_convT2d_r. exact Hy. } intros v1 v2 v3 Hv.
    apply R3_ok. apply L3_force. apply L3_add; assumption.
Qed.

(* pairs and lists of tensors *)
Definition L3p (p1 p2 p3:ten*ten) : Prop := L3 (fst p1) (fst p2) (fst p3) /\ L3 (snd p1) (snd p2) (snd p3).
Inductive L3l : list ten -> list ten -> list ten -> Prop :=
| L3l_nil : L3l nil nil nil
| L3l_cons u1 u2 u3 l1 l2 l3 : L3 u1 u2 u3 -> L3l l1 l2 l3 -> L3l (u1::l1) (u2::l2) (u3::l3).
Definition L3pl (p1 p2 p3:ten*list ten) : Prop := L3 (fst p1) (fst p2) (fst p3) /\ L3l (snd p1) (snd p2) (snd p3).

Lemma range_len_C x1 x2 x3 p q : L3 x1 x2 x3 -> range_len p (tC x2) q = range_len p (tC x1) q /\ range_len p (tC x3) q = range_len p (tC x1) q.
Proof. intros H. destruct (tC_eq _ _ _ H) as (-> & ->). split; reflexivity. Qed.

Lemma AFB1D_fwd_lin L h0 h1 mode x1 x2 x3 : L3 x1 x2 x3 ->
  R3 L3p (AFB1D_fwd Op x1 L h0 h1 mode) (AFB1D_fwd Op x2 L h0 h1 mode) (AFB1D_fwd Op x3 L h0 h1 mode).
Proof.
  intros H. unfold AFB1D_fwd. eapply R3_bind. { apply afb1d_lin. exact H. }
  intros u1 u2 u3 Hu. destruct (tC_eq _ _ _ Hu) as (C2 & C3). rewrite C2, C3. apply R3_ok. split; cbn [fst snd]; apply L3_force; apply L3_chmap; exact Hu.
Qed.
Lemma SFB1D_fwd_lin L g0 g1 mode x1 x2 x3 y1 y2 y3 : L3 x1 x2 x3 -> L3 y1 y2 y3 ->
  R3 L3 (SFB1D_fwd Op x1 y1 L g0 g1 mode) (SFB1D_fwd Op x2 y2 L g0 g1 mode) (SFB1D_fwd Op x3 y3 L g0 g1 mode).
Proof. intros. unfold SFB1D_fwd. apply sfb1d_lin; assumption. Qed.

Lemma band4_lin bb x1 x2 x3 : L3 x1 x2 x3 -> L3 (band4 bb x1) (band4 bb x2) (band4 bb x3).
Proof. intros H. unfold band4. destruct (tC_eq _ _ _ H) as (-> & ->). apply L3_chmap; exact H. Qed.
Lemma highs4_lin x1 x2 x3 : L3 x1 x2 x3 -> L3 (highs4 x1) (highs4 x2) (highs4 x3).
Proof. intros H. unfold highs4. destruct (tC_eq _ _ _ H) as (-> & ->). apply L3_chmap; exact H. Qed.
Lemma unbind3_lin bb x1 x2 x3 : L3 x1 x2 x3 -> L3 (unbind3 bb x1) (unbind3 bb x2) (unbind3 bb x3).
Proof. intros H. unfold unbind3. destruct (tC_eq _ _ _ H) as (-> & ->). apply L3_chmap; exact H. Qed.

Lemma AFB2D_fwd_lin Lr h0r h1r Lc h0c h1c mode x1 x2 x3 : L3 x1 x2 x3 ->
  R3 L3p (AFB2D_fwd Op x1 Lr h0r h1r Lc h0c h1c mode) (AFB2D_fwd Op x2 Lr h0r h1r Lc h0c h1c mode) (AFB2D_fwd Op x3 Lr h0r h1r Lc h0c h1c mode).
Proof.
  intros H. unfold AFB2D_fwd. eapply R3_bind. { apply afb1d_lin. exact H. } intros u1 u2 u3 Hu.
  eapply R3_bind. { apply afb1d_lin. exact Hu. } intros v1 v2 v3 Hv.
  apply R3_ok. split; cbn [fst snd]; apply L3_force; [apply band4_lin | apply highs4_lin]; exact Hv.
Qed.
Lemma SFB2D_fwd_lin Lr g0r g1r Lc g0c g1c mode x1 x2 x3 y1 y2 y3 : L3 x1 x2 x3 -> L3 y1 y2 y3 ->
  R3 L3 (SFB2D_fwd Op x1 y1 Lr g0r g1r Lc g0c g1c mode) (SFB2D_fwd Op x2 y2 Lr g0r g1r Lc g0c g1c mode) (SFB2D_fwd Op x3 y3 Lr g0r g1r Lc g0c g1c mode).
Proof.
  intros Hx Hy. unfold SFB2D_fwd. cbv zeta.
  eapply R3_bind. { apply sfb1d_lin; [exact Hx | apply unbind3_lin; exact Hy]. } intros u1 u2 u3 Hu.
  eapply R3_bind. { apply sfb1d_lin; apply unbind3_lin; exact Hy. } intros v1 v2 v3 Hv.
  apply sfb1d_lin; assumption.
Qed.

(* ---- the modules: every J ---- *)
Theorem DWT1DForward_lin L h0 h1 mode (J:nat) : forall x1 x2 x3, L3 x1 x2 x3 ->
  R3 L3pl (DWT1DForward Op J x1 L h0 h1 mode) (DWT1DForward Op J x2 L h0 h1 mode) (DWT1DForward Op J x3 L h0 h1 mode).
Proof.
  induction J as [|J IH]; intros x1 x2 x3 H; cbn [DWT1DForward].
  - apply R3_ok. split; [exact H | constructor].
  - eapply R3_bind. { apply AFB1D_fwd_lin. exact H. } intros [a1 d1] [a2 d2] [a3 d3] (Ha & Hd). cbn [fst snd] in *.
    eapply R3_bind. { apply IH. exact Ha. } intros [l1 r1] [l2 r2] [l3 r3] (Hl & Hr). cbn [fst snd] in *.
    apply R3_ok. split; cbn [fst snd]; [exact Hl | constructor; assumption].
Qed.
Theorem DWTForward_lin Lr h0r h1r Lc h0c h1c mode (J:nat) : forall x1 x2 x3, L3 x1 x2 x3 ->
  R3 L3pl (DWTForward Op J x1 Lr h0r h1r Lc h0c h1c mode) (DWTForward Op J x2 Lr h0r h1r Lc h0c h1c mode) (DWTForward Op J x3 Lr h0r h1r Lc h0c h1c mode).
Proof.
  induction J as [|J IH]; intros x1 x2 x3 H; cbn [DWTForward].
  - apply R3_ok. split; [exact H | constructor].
  - eapply R3_bind. { apply AFB2D_fwd_lin. exact H. } intros [a1 d1] [a2 d2] [a3 d3] (Ha & Hd). cbn [fst snd] in *.
    eapply R3_bind. { apply IH. exact Ha. } intros [l1 r1] [l2 r2] [l3 r3] (Hl & Hr). cbn [fst snd] in *.
    apply R3_ok. split; cbn [fst snd]; [exact Hl | constructor; assumption].
Qed.

(* inverse modules: the detail levels may be absent (None) - in all three pyramids at the same places *)
Inductive L3o : list (option ten) -> list (option ten) -> list (option ten) -> Prop :=
| L3o_nil : L3o nil nil nil
| L3o_none l1 l2 l3 : L3o l1 l2 l3 -> L3o (None::l1) (None::l2) (None::l3)
| L3o_some u1 u2 u3 l1 l2 l3 : L3 u1 u2 u3 -> L3o l1 l2 l3 -> L3o (Some u1::l1) (Some u2::l2) (Some u3::l3).

Theorem DWT1DInverse_rev_lin L g0 g1 mode : forall hs1 hs2 hs3, L3o hs1 hs2 hs3 -> forall x1 x2 x3, L3 x1 x2 x3 ->
  R3 L3 (DWT1DInverse_rev Op x1 hs1 L g0 g1 mode) (DWT1DInverse_rev Op x2 hs2 L g0 g1 mode) (DWT1DInverse_rev Op x3 hs3 L g0 g1 mode).
Proof.
  intros hs1 hs2 hs3 Hh. induction Hh as [|l1 l2 l3 Hl IH|u1 u2 u3 l1 l2 l3 Hu Hl IH]; intros x1 x2 x3 H; cbn [DWT1DInverse_rev].
  - apply R3_ok. exact H.
  - pose proof H as H'. shapes H'.
    replace (tN x2) with (tN x1) by lia. replace (tN x3) with (tN x1) by lia. replace (tC x2) with (tC x1) by lia. replace (tC x3) with (tC x1) by lia.
    replace (tH x2) with (tH x1) by lia. replace (tH x3) with (tH x1) by lia. replace (tW x2) with (tW x1) by lia. replace (tW x3) with (tW x1) by lia.
    cbn [t_zeros tW]. eapply R3_bind.
    { apply SFB1D_fwd_lin; [destruct (_ <? _); [apply L3_pyslice|]; exact H | apply L3_zeros]. }
    intros y1 y2 y3 Hy. apply IH. exact Hy.
  - pose proof H as H'. shapes H'. pose proof Hu as Hu'. shapes Hu'.
    replace (tW u2) with (tW u1) by lia. replace (tW u3) with (tW u1) by lia. replace (tW x2) with (tW x1) by lia. replace (tW x3) with (tW x1) by lia.
    eapply R3_bind. { apply SFB1D_fwd_lin; [destruct (_ <? _); [apply L3_pyslice|]; exact H | exact Hu]. }
    intros y1 y2 y3 Hy. apply IH. exact Hy.
Qed.
Definition step2 (Lr:Z) (g0r g1r:Z->R) (Lc:Z) (g0c g1c:Z->R) (mode:Z) (ll h1:ten) : res ten :=
  let ll1 := if tH h1 <? tH ll then t_pyslice 2 0 (-1) ll else ll in
  let ll2 := if tW h1 <? tW ll1 then t_pyslice 3 0 (-1) ll1 else ll1 in
  SFB2D_fwd Op ll2 h1 Lr g0r g1r Lc g0c g1c mode.
Lemma step2_lin Lr g0r g1r Lc g0c g1c mode x1 x2 x3 h1 h2 h3 : L3 x1 x2 x3 -> L3 h1 h2 h3 ->
  R3 L3 (step2 Lr g0r g1r Lc g0c g1c mode x1 h1) (step2 Lr g0r g1r Lc g0c g1c mode x2 h2) (step2 Lr g0r g1r Lc g0c g1c mode x3 h3).
Proof.
  intros H Hh. unfold step2. pose proof H as H'. shapes H'. pose proof Hh as Hh'. shapes Hh'.
  replace (tH h2) with (tH h1) by lia. replace (tH h3) with (tH h1) by lia. replace (tW h2) with (tW h1) by lia. replace (tW h3) with (tW h1) by lia.
  replace (tH x2) with (tH x1) by lia. replace (tH x3) with (tH x1) by lia.
  assert (Hcol: forall a1 a2 a3, L3 a1 a2 a3 ->
     R3 L3 (SFB2D_fwd Op (if tW h1 <? tW a1 then t_pyslice 3 0 (-1) a1 else a1) h1 Lr g0r g1r Lc g0c g1c mode)
           (SFB2D_fwd Op (if tW h1 <? tW a2 then t_pyslice 3 0 (-1) a2 else a2) h2 Lr g0r g1r Lc g0c g1c mode)
           (SFB2D_fwd Op (if tW h1 <? tW a3 then t_pyslice 3 0 (-1) a3 else a3) h3 Lr g0r g1r Lc g0c g1c mode)).
  { intros a1 a2 a3 Ha. pose proof Ha as Ha'. shapes Ha'. replace (tW a2) with (tW a1) by lia. replace (tW a3) with (tW a1) by lia.
    apply SFB2D_fwd_lin; [destruct (_ <? _); [apply L3_pyslice|]; exact Ha | exact Hh]. }
  cbv zeta. destruct (tH h1 <? tH x1); apply Hcol; [apply L3_pyslice|]; exact H.
Qed.
Lemma inv2_cons ll h rest Lr g0r g1r Lc g0c g1c mode :
  DWTInverse_rev Op ll (h :: rest) Lr g0r g1r Lc g0c g1c mode
  = bind (step2 Lr g0r g1r Lc g0c g1c mode ll (match h with Some t => t | None => t_zeros Op (tN ll) (3 * tC ll) (tH ll) (tW ll) end))
         (fun y => DWTInverse_rev Op y rest Lr g0r g1r Lc g0c g1c mode).
Proof. reflexivity. Qed.

Theorem DWTInverse_rev_lin Lr g0r g1r Lc g0c g1c mode : forall hs1 hs2 hs3, L3o hs1 hs2 hs3 -> forall x1 x2 x3, L3 x1 x2 x3 ->
  R3 L3 (DWTInverse_rev Op x1 hs1 Lr g0r g1r Lc g0c g1c mode) (DWTInverse_rev Op x2 hs2 Lr g0r g1r Lc g0c g1c mode) (DWTInverse_rev Op x3 hs3 Lr g0r g1r Lc g0c g1c mode).
Proof.
  intros hs1 hs2 hs3 Hh. induction Hh as [|l1 l2 l3 Hl IH|u1 u2 u3 l1 l2 l3 Hu Hl IH]; intros x1 x2 x3 H.
  - cbn [DWTInverse_rev]. apply R3_ok. exact H.
  - rewrite !inv2_cons. eapply R3_bind; [|intros y1 y2 y3 Hy; apply IH; exact Hy].
    apply step2_lin; [exact H|]. pose proof H as H'. shapes H'.
    replace (tN x2) with (tN x1) by lia. replace (tN x3) with (tN x1) by lia. replace (tC x2) with (tC x1) by lia. replace (tC x3) with (tC x1) by lia.
    replace (tH x2) with (tH x1) by lia. replace (tH x3) with (tH x1) by lia. replace (tW x2) with (tW x1) by lia. replace (tW x3) with (tW x1) by lia.
    apply L3_zeros.
  - rewrite !inv2_cons. eapply R3_bind; [|intros y1 y2 y3 Hy; apply IH; exact Hy].
    apply step2_lin; assumption.
Qed.

(* the modules as called (highs finest first) *)
Lemma L3o_app l1 l2 l3 m1 m2 m3 : L3o l1 l2 l3 -> L3o m1 m2 m3 -> L3o (l1 ++ m1) (l2 ++ m2) (l3 ++ m3).
Proof. intros Hl Hm. induction Hl; cbn [app]; [exact Hm | constructor; assumption | constructor; assumption]. Qed.
Lemma L3o_rev l1 l2 l3 : L3o l1 l2 l3 -> L3o (rev l1) (rev l2) (rev l3).
Proof.
  intros Hl. induction Hl as [|l1 l2 l3 Hl IH|u1 u2 u3 l1 l2 l3 Hu Hl IH]; cbn [rev].
  - constructor.
  - apply L3o_app; [exact IH | constructor; constructor].
  - apply L3o_app; [exact IH | constructor; [exact Hu | constructor]].
Qed.
Theorem DWT1DInverse_lin L g0 g1 mode hs1 hs2 hs3 x1 x2 x3 : L3o hs1 hs2 hs3 -> L3 x1 x2 x3 ->
  R3 L3 (DWT1DInverse Op x1 hs1 L g0 g1 mode) (DWT1DInverse Op x2 hs2 L g0 g1 mode) (DWT1DInverse Op x3 hs3 L g0 g1 mode).
Proof. intros Hh H. unfold DWT1DInverse. apply DWT1DInverse_rev_lin; [apply L3o_rev; exact Hh | exact H]. Qed.
Theorem DWTInverse_lin Lr g0r g1r Lc g0c g1c mode hs1 hs2 hs3 x1 x2 x3 : L3o hs1 hs2 hs3 -> L3 x1 x2 x3 ->
  R3 L3 (DWTInverse Op x1 hs1 Lr g0r g1r Lc g0c g1c mode) (DWTInverse Op x2 hs2 Lr g0r g1r Lc g0c g1c mode) (DWTInverse Op x3 hs3 Lr g0r g1r Lc g0c g1c mode).
Proof. intros Hh H. unfold DWTInverse. apply DWTInverse_rev_lin; [apply L3o_rev; exact Hh | exact H]. Qed.

(* ---- the stationary transform ---- *)
Lemma afb1d_atrous_lin L h0 h1 mode d dil x1 x2 x3 : L3 x1 x2 x3 ->
  R3 L3 (afb1d_atrous Op x1 L h0 h1 mode d dil) (afb1d_atrous Op x2 L h0 h1 mode d dil) (afb1d_atrous Op x3 L h0 h1 mode d dil).
Proof.
  intros H. unfold afb1d_atrous. destruct (tC_eq _ _ _ H) as (C2 & C3). rewrite C2, C3. cbv zeta.
  eapply R3_bind. { apply R3_mypad. exact H. } intros u1 u2 u3 Hu.
  destruct (d =? 2); (eapply R3_bind; [apply R3_conv2d_r; apply L3_force; exact Hu|]); intros v1 v2 v3 Hv; apply R3_ok; apply L3_force; exact Hv.
Qed.
Lemma afb2d_atrous_lin Lr h0r h1r Lc h0c h1c mode dil x1 x2 x3 : L3 x1 x2 x3 ->
  R3 L3 (afb2d_atrous Op x1 Lr h0r h1r Lc h0c h1c mode dil) (afb2d_atrous Op x2 Lr h0r h1r Lc h0c h1c mode dil) (afb2d_atrous Op x3 Lr h0r h1r Lc h0c h1c mode dil).
Proof.
  intros H. unfold afb2d_atrous. eapply R3_bind. { apply afb1d_atrous_lin. exact H. } intros u1 u2 u3 Hu. apply afb1d_atrous_lin. exact Hu.
Qed.
Lemma SWTForward_from_lin Lr h0r h1r Lc h0c h1c mode (J:nat) : forall dil x1 x2 x3, L3 x1 x2 x3 ->
  R3 L3l (SWTForward_from Op J dil x1 Lr h0r h1r Lc h0c h1c mode) (SWTForward_from Op J dil x2 Lr h0r h1r Lc h0c h1c mode) (SWTForward_from Op J dil x3 Lr h0r h1r Lc h0c h1c mode).
Proof.
  induction J as [|J IH]; intros dil x1 x2 x3 H; cbn [SWTForward_from].
  - apply R3_ok. constructor.
  - eapply R3_bind. { apply afb2d_atrous_lin. exact H. } intros y1 y2 y3 Hy.
    eapply R3_bind. { apply IH. apply L3_force. apply band4_lin. exact Hy. } intros r1 r2 r3 Hr.
    apply R3_ok. constructor; assumption.
Qed.
Theorem SWTForward_lin Lr h0r h1r Lc h0c h1c mode (J:nat) x1 x2 x3 : L3 x1 x2 x3 ->
  R3 L3l (SWTForward Op J x1 Lr h0r h1r Lc h0c h1c mode) (SWTForward Op J x2 Lr h0r h1r Lc h0c h1c mode) (SWTForward Op J x3 Lr h0r h1r Lc h0c h1c mode).
Proof. intros H. unfold SWTForward. apply SWTForward_from_lin. exact H. Qed.

(* the linear combination itself, and the zero tensor *)
Definition lincomb (x1 x2:ten) : ten := mkT (tN x1) (tC x1) (tH x1) (tW x1) (fun n c i j => a *r tf x1 n c i j +r b *r tf x2 n c i j).
Lemma L3_lincomb x1 x2 : shp x1 x2 -> L3 x1 x2 (lincomb x1 x2).
Proof. intros (A1 & A2 & A3 & A4). unfold L3, lincomb, shp. cbn [tN tC tH tW tf]. repeat split; auto. Qed.
End S.

(* T(0) = 0: the relation with a = b = 0 says exactly "x3 is zero everywhere"; by the theorems above the outputs are then related
   in the same way, i.e. zero everywhere *)
Section Zero.
Context {R:Type} (Op:Ops R) (Rth: RingOk Op).
Add Ring Rrz : Rth.
Lemma L3_zero_intro (x z:@ten R) : shp x z -> (forall n c i j, tf z n c i j = r0 Op) -> L3 Op (r0 Op) (r0 Op) x x z.
Proof. intros Hs Hz. unfold L3. split; [|split; [exact Hs|]]. { unfold shp. repeat split; reflexivity. } intros n c i j. rewrite Hz. ring. Qed.
Lemma L3_zero_elim (x1 x2 x3:@ten R) : L3 Op (r0 Op) (r0 Op) x1 x2 x3 -> forall n c i j, tf x3 n c i j = r0 Op.
Proof. intros (_ & _ & V) n c i j. rewrite V. ring. Qed.
End Zero.
