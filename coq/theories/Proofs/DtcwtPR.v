(* C04 on the tensor-level model, whole pyramid: DTCWTInverse (DTCWTForward x) = the even-extended x, every J, every size,
   including the pad-to-a-multiple-of-4 of the forward level loop and the crop rule of the inverse level loop.
   Assumes: level-1 pair symmetric odd + BiortPR; q-shift families of one even length L with RevPair + QPRref; 2 s^2 = 1. *)
From PW Require Import Base.Ops Base.Sum Base.Sig Base.Tensor Model.Dwt Model.Dtcwt Spec.Line Spec.DtcwtRef
  Proofs.DwtNF Proofs.SfbNF Proofs.DtcwtNF Proofs.DtcwtNFrow Proofs.QuadProofs Proofs.SymExt Proofs.QshiftAdj Proofs.QshiftPR
  Proofs.QshiftTensor Proofs.QshiftLevel Proofs.DtcwtLevel1 Proofs.C02Proofs2D.
Ltac Zify.zify_post_hook ::= Z.to_euclidean_division_equations.

Section S.
Context {R:Type} (Op:Ops R) (Rth: RingOk Op).
Add Ring Rr : Rth.
Notation ten := (@ten R).
Infix "+r" := (radd Op) (at level 50, left associativity).
Infix "*r" := (rmul Op) (at level 40, left associativity).

Definition even2 (t:ten) : Prop := 2 <= tH t /\ tH t mod 2 = 0 /\ 2 <= tW t /\ tW t mod 2 = 0.

Lemma same_on_trans (X Y Z:ten) : same_on X Y -> same_on Y Z -> same_on X Z.
Proof.
  intros (A1 & A2 & A3 & A4 & A5) (B1 & B2 & B3 & B4 & B5). unfold same_on. repeat apply conj; try lia.
  intros n c i j Hc Hi Hj. rewrite B5 by lia. apply A5; lia.
Qed.

(* the forward loop's pad: one replicated row above and below (and likewise columns) when the size is 2 mod 4 *)
Definition prow (low:ten) : ten :=
  if negb (tH low mod 4 =? 0) then t_cat 2 (t_cat 2 (t_pyslice 2 0 1 low) low) (t_slice 2 (pyclip (tH low) (-1)) (tH low) 1 low) else low.
Definition pcol (l1:ten) : ten :=
  if negb (tW l1 mod 4 =? 0) then t_cat 3 (t_cat 3 (t_pyslice 3 0 1 l1) l1) (t_slice 3 (pyclip (tW l1) (-1)) (tW l1) 1 l1) else l1.
Lemma pad4_split (low:ten) : pad4 low = pcol (prow low).
Proof. reflexivity. Qed.
Lemma prow_props (low:ten) : 2 <= tH low ->
  let dh := if tH low mod 4 =? 0 then 0 else 1 in
  tN (prow low) = tN low /\ tC (prow low) = tC low /\ tH (prow low) = tH low + 2*dh /\ tW (prow low) = tW low /\
  forall n c i j, 0 <= i < tH low -> tf (prow low) n c (i + dh) j = tf low n c i j.
Proof.
  intros HH. cbv zeta. unfold prow. destruct (tH low mod 4 =? 0) eqn:E; cbn [negb].
  - repeat apply conj; try lia. intros n c i j Hi. f_equal. lia.
  - unfold t_cat, t_pyslice, t_slice, t_gather, dlen, pyclip, range_len. change (2 =? 1) with false. change (2 =? 2) with true. cbv iota.
    change (0 <? 0) with false. change (1 <? 0) with false. change (-1 <? 0) with true. cbv iota.
    replace (Z.min (tH low) 0) with 0 by lia. replace (Z.min (tH low) 1) with 1 by lia. replace (Z.max 0 (tH low + -1)) with (tH low - 1) by lia.
    replace (1 <=? 0) with false by lia. replace (tH low <=? tH low - 1) with false by lia.
    cbn [tN tC tH tW tf]. repeat apply conj; try lia.
    intros n c i j Hi. replace (i + 1 <? (1 - 0 + 1 - 1)/1 + tH low) with true by lia. replace (i + 1 <? (1 - 0 + 1 - 1)/1) with false by lia.
    f_equal. lia.
Qed.
Lemma pcol_props (low:ten) : 2 <= tW low ->
  let dw := if tW low mod 4 =? 0 then 0 else 1 in
  tN (pcol low) = tN low /\ tC (pcol low) = tC low /\ tH (pcol low) = tH low /\ tW (pcol low) = tW low + 2*dw /\
  forall n c i j, 0 <= j < tW low -> tf (pcol low) n c i (j + dw) = tf low n c i j.
Proof.
  intros HH. cbv zeta. unfold pcol. destruct (tW low mod 4 =? 0) eqn:E; cbn [negb].
  - repeat apply conj; try lia. intros n c i j Hi. f_equal. lia.
  - unfold t_cat, t_pyslice, t_slice, t_gather, dlen, pyclip, range_len. change (3 =? 1) with false. change (3 =? 2) with false. cbv iota.
    change (0 <? 0) with false. change (1 <? 0) with false. change (-1 <? 0) with true. cbv iota.
    replace (Z.min (tW low) 0) with 0 by lia. replace (Z.min (tW low) 1) with 1 by lia. replace (Z.max 0 (tW low + -1)) with (tW low - 1) by lia.
    replace (1 <=? 0) with false by lia. replace (tW low <=? tW low - 1) with false by lia.
    cbn [tN tC tH tW tf]. repeat apply conj; try lia.
    intros n c i j Hi. replace (j + 1 <? (1 - 0 + 1 - 1)/1 + tW low) with true by lia. replace (j + 1 <? (1 - 0 + 1 - 1)/1) with false by lia.
    f_equal. lia.
Qed.
Lemma pad4_props (low:ten) : even2 low ->
  let p := force Op (pad4 low) in
  let dh := if tH low mod 4 =? 0 then 0 else 1 in let dw := if tW low mod 4 =? 0 then 0 else 1 in
  tN p = tN low /\ tC p = tC low /\ tH p = tH low + 2*dh /\ tW p = tW low + 2*dw /\
  forall n c i j, 0 <= i < tH low -> 0 <= j < tW low -> tf p n c (i + dh) (j + dw) = tf low n c i j.
Proof.
  intros (E1 & E2 & E3 & E4). cbv zeta. rewrite pad4_split.
  pose proof (prow_props low E1) as Hr. cbv zeta in Hr. destruct Hr as (R1 & R2 & R3 & R4 & R5).
  pose proof (pcol_props (prow low) ltac:(lia)) as Hc. cbv zeta in Hc. rewrite R4 in Hc. destruct Hc as (C1 & C2 & C3 & C4 & C5).
  cbn [force tN tC tH tW]. repeat apply conj; try lia.
  intros n c i j Hi Hj. rewrite force_eq. rewrite C5 by lia. apply R5. lia.
Qed.

(* the inverse loop's crop undoes the pad *)
Lemma crop_noop (Y:ten) hh ww : tH Y = 2 * hh -> tW Y = 2 * ww -> crop_ll Y hh ww = Y.
Proof. intros H1 H2. unfold crop_ll. replace (negb (tH Y =? 2 * hh)) with false by lia. replace (negb (tW Y =? 2 * ww)) with false by lia. reflexivity. Qed.

Lemma crop_rows (Y:ten) : 3 <= tH Y ->
  let a := t_pyslice 2 1 (-1) Y in
  tN a = tN Y /\ tC a = tC Y /\ tH a = tH Y - 2 /\ tW a = tW Y /\ forall n c i j, tf a n c i j = tf Y n c (i + 1) j.
Proof.
  intros HH. cbv zeta. unfold t_pyslice, t_slice, t_gather, dlen, pyclip, range_len. change (2 =? 2) with true. cbv iota.
  change (1 <? 0) with false. change (-1 <? 0) with true. cbv iota.
  replace (Z.min (tH Y) 1) with 1 by lia. replace (Z.max 0 (tH Y + -1)) with (tH Y - 1) by lia. replace (tH Y - 1 <=? 1) with false by lia.
  cbn [tN tC tH tW tf]. repeat apply conj; try lia. intros. f_equal. lia.
Qed.
Lemma crop_cols (Y:ten) : 3 <= tW Y ->
  let a := t_pyslice 3 1 (-1) Y in
  tN a = tN Y /\ tC a = tC Y /\ tH a = tH Y /\ tW a = tW Y - 2 /\ forall n c i j, tf a n c i j = tf Y n c i (j + 1).
Proof.
  intros HH. cbv zeta. unfold t_pyslice, t_slice, t_gather, dlen, pyclip, range_len. change (3 =? 2) with false. cbv iota.
  change (1 <? 0) with false. change (-1 <? 0) with true. cbv iota.
  replace (Z.min (tW Y) 1) with 1 by lia. replace (Z.max 0 (tW Y + -1)) with (tW Y - 1) by lia. replace (tW Y - 1 <=? 1) with false by lia.
  cbn [tN tC tH tW tf]. repeat apply conj; try lia. intros. f_equal. lia.
Qed.

Lemma crop_pad4 (low Y:ten) : even2 low -> same_on (force Op (pad4 low)) Y -> same_on low (crop_ll Y (tH low / 2) (tW low / 2)).
Proof.
  intros Hev (Y1 & Y2 & Y3 & Y4 & Y5). pose proof Hev as (E1 & E2 & E3 & E4).
  pose proof (pad4_props low Hev) as Hp. cbv zeta in Hp. destruct Hp as (P1 & P2 & P3 & P4 & P5).
  rewrite P1, P2, P3, P4 in *.
  unfold crop_ll.
  set (a := if negb (tH Y =? 2 * (tH low / 2)) then t_pyslice 2 1 (-1) Y else Y).
  assert (Ha: tN a = tN low /\ tC a = tC low /\ tH a = tH low /\ tW a = tW Y /\
              forall n c i j, tf a n c i j = tf Y n c (i + (if tH low mod 4 =? 0 then 0 else 1)) j).
  { unfold a. destruct (tH low mod 4 =? 0) eqn:EH.
    - replace (negb (tH Y =? 2 * (tH low / 2))) with false by lia. repeat apply conj; try lia. intros. f_equal. lia.
    - replace (negb (tH Y =? 2 * (tH low / 2))) with true by lia.
      pose proof (crop_rows Y ltac:(lia)) as Hc. cbv zeta in Hc. destruct Hc as (C1 & C2 & C3 & C4 & C5).
      repeat apply conj; try lia. exact C5. }
  destruct Ha as (A1 & A2 & A3 & A4 & A5).
  set (b := if negb (tW a =? 2 * (tW low / 2)) then t_pyslice 3 1 (-1) a else a).
  assert (Hb: tN b = tN low /\ tC b = tC low /\ tH b = tH low /\ tW b = tW low /\
              forall n c i j, tf b n c i j = tf a n c i (j + (if tW low mod 4 =? 0 then 0 else 1))).
  { unfold b. destruct (tW low mod 4 =? 0) eqn:EW.
    - replace (negb (tW a =? 2 * (tW low / 2))) with false by lia. repeat apply conj; try lia. intros. f_equal. lia.
    - replace (negb (tW a =? 2 * (tW low / 2))) with true by lia.
      pose proof (crop_cols a ltac:(lia)) as Hc. cbv zeta in Hc. destruct Hc as (C1 & C2 & C3 & C4 & C5).
      repeat apply conj; try lia. exact C5. }
  destruct Hb as (B1 & B2 & B3 & B4 & B5).
  unfold same_on. repeat apply conj; try lia.
  intros n c i j Hc Hi Hj. rewrite B5, A5. rewrite Y5.
  - apply P5; lia.
  - lia.
  - destruct (tH low mod 4 =? 0); lia.
  - destruct (tW low mod 4 =? 0); lia.
Qed.

Lemma inv_levels_app (low:option ten) l1 l2 s L0 g0a g0b L1 g1a g1b :
  inv_levels Op s low (l1 ++ l2) L0 g0a g0b L1 g1a g1b
  = bind (inv_levels Op s low l1 L0 g0a g0b L1 g1a g1b) (fun r => inv_levels Op s r l2 L0 g0a g0b L1 g1a g1b).
Proof.
  revert low. induction l1 as [|h l1 IH]; intros low; cbn [app inv_levels bind]; [reflexivity|].
  destruct (inv_j2plus Op s (crop_opt Op low h) h L0 g0a g0b L1 g1a g1b) as [y|]; cbn [bind]; [apply IH | reflexivity].
Qed.

Variable s : R.
Hypothesis two_s2 : (r1 Op +r r1 Op) *r s *r s = r1 Op.
(* q-shift families *)
Variables (L:Z) (H0A H0B G0A G0B H1A H1B G1A G1B:Z->R).
Hypothesis HL : 2 <= L /\ L mod 2 = 0.
Hypothesis R0 : RevPair L H0A H0B. Hypothesis S0 : RevPair L G0A G0B.
Hypothesis R1 : RevPair L H1A H1B. Hypothesis S1 : RevPair L G1A G1B.
Hypothesis HQ : QPRref Op L true H0A H0B G0A G0B false H1A H1B G1A G1B.
Notation h0a := (rev_filt L H0B). Notation h0b := (rev_filt L H0A). Notation h1a := (rev_filt L H1B). Notation h1b := (rev_filt L H1A).
Notation g0a := (rev_filt L G0B). Notation g0b := (rev_filt L G0A). Notation g1a := (rev_filt L G1B). Notation g1b := (rev_filt L G1A).

(* what the inverse loop holds after having undone the levels built on `low`: low itself when there was no level, else the padded low *)
Definition undone (m:list bool) (low:ten) (r:option ten) : Prop :=
  match r with Some Y => (m = nil -> same_on low Y) /\ (m <> nil -> same_on (force Op (pad4 low)) Y) | None => False end.

Lemma levels_pr : forall (m:list bool) (low:ten), even2 low -> 0 < tC low ->
  is_ok (fwd_levels Op s (map (fun _ => false) m) low L h0a h0b L h1a h1b) (fun r =>
    forall fl', same_on (fst r) fl' ->
    is_ok (inv_levels Op s (Some fl') (rev (map snd (snd r))) L g0a g0b L g1a g1b) (undone m low)).
Proof.
  induction m as [|sk m IH]; intros low Hev HC; cbn [map fwd_levels].
  - cbn [is_ok fst snd map rev inv_levels undone]. intros fl' Hs. split; [intros _; exact Hs | intros H; congruence].
  - pose proof Hev as (E1 & E2 & E3 & E4).
    pose proof (pad4_props low Hev) as Hp. cbv zeta in Hp. destruct Hp as (P1 & P2 & P3 & P4 & P5).
    set (X := force Op (pad4 low)) in *.
    assert (HX: 4 <= tH X /\ tH X mod 4 = 0 /\ 4 <= tW X /\ tW X mod 4 = 0 /\ 0 < tC X).
    { rewrite P2, P3, P4. destruct (tH low mod 4 =? 0) eqn:A; destruct (tW low mod 4 =? 0) eqn:B; lia. }
    destruct HX as (X1 & X2 & X3 & X4 & X5).
    pose proof (qshift_level_pr_ext Op Rth s two_s2 L H0A H0B G0A G0B H1A H1B G1A G1B HL R0 S0 R1 S1 HQ X X1 X2 X3 X4 X5) as Hlev.
    destruct (fwd_j2plus Op s X L h0a h0b L h1a h1b false) as [[l hs]|]; [|contradiction]. cbn [is_ok bind fst snd] in *.
    destruct Hlev as (L1 & L2 & L3 & L4 & Lne & L5 & L6 & Linv).
    assert (Hevl: even2 l) by (unfold even2; lia).
    specialize (IH l Hevl ltac:(lia)).
    destruct (fwd_levels Op s (map (fun _ => false) m) l L h0a h0b L h1a h1b) as [[fl ls]|]; [|contradiction]. cbn [is_ok bind fst snd] in *.
    intros fl' Hfl. specialize (IH fl' Hfl).
    cbn [map rev]. rewrite inv_levels_app.
    destruct (inv_levels Op s (Some fl') (rev (map snd ls)) L g0a g0b L g1a g1b) as [r|]; [|contradiction]. cbn [is_ok bind] in *.
    destruct r as [Y'|]; [|contradiction]. cbn [undone] in IH. destruct IH as (I0 & I1).
    cbn [inv_levels].
    assert (Hcrop: same_on l (crop_ll Y' (tH (pl Op hs 0 0)) (tW (pl Op hs 0 0)))).
    { rewrite L5, L6. replace (tH X / 4) with (tH l / 2) by lia. replace (tW X / 4) with (tW l / 2) by lia.
      destruct m as [|sk' m'].
      - specialize (I0 eq_refl). destruct I0 as (Z1 & Z2 & Z3 & Z4 & Z5).
        rewrite crop_noop by lia. unfold same_on. repeat apply conj; try lia. exact Z5.
      - apply crop_pad4; [exact Hevl | apply I1; discriminate]. }
    assert (Hco: crop_opt Op (Some Y') hs = Some (crop_ll Y' (tH (pl Op hs 0 0)) (tW (pl Op hs 0 0)))).
    { unfold crop_opt. destruct hs; [congruence | reflexivity]. }
    cbn [snd]. rewrite Hco. specialize (Linv _ Hcrop).
    destruct (inv_j2plus Op s _ hs L g0a g0b L g1a g1b) as [y|]; [|contradiction]. cbn [is_ok bind inv_levels undone] in *.
    split; [intros H; discriminate H | intros _; exact Linv].
Qed.

Lemma last_cons {A} (a:A) l d : last (a :: l) d = last l a.
Proof.
  revert a d. induction l as [|b l IH]; intros a d; [reflexivity|].
  change (last (a :: b :: l) d) with (last (b :: l) d). rewrite (IH b d), (IH b a). reflexivity.
Qed.
Lemma fwd_levels_last : forall (m:list bool) (low fl:ten) ls,
  fwd_levels Op s m low L h0a h0b L h1a h1b = Ok (fl, ls) -> fl = fst (last ls (low, nil)).
Proof.
  induction m as [|sk m IH]; intros low fl ls H; cbn [fwd_levels] in H.
  - inversion H. reflexivity.
  - destruct (fwd_j2plus Op s (force Op (pad4 low)) L h0a h0b L h1a h1b sk) as [[l hs]|]; cbn [bind] in H; [|discriminate].
    destruct (fwd_levels Op s m l L h0a h0b L h1a h1b) as [[fl' ls']|] eqn:E; cbn [bind] in H; [|discriminate].
    inversion H; subst fl ls. rewrite last_cons. rewrite (IH l fl' ls' E).
    clear. revert hs. induction ls' as [|b ls' IH']; intros hs; [reflexivity|]. rewrite !last_cons. reflexivity.
Qed.

(* level-1 families *)
Variables (Lh0 Lg0 Lh1 Lg1 M:Z) (h0 g0 h1 g1:Z->R).
Hypothesis Hodd : Lh0 mod 2 = 1 /\ Lh1 mod 2 = 1.
Hypothesis Hsym : Symmetric Lh0 h0 /\ Symmetric Lh1 h1.
Hypothesis Hlen : 1 <= Lg0 /\ 1 <= Lg1 /\ 1 <= Lh0 /\ 1 <= Lh1 /\ Lg0 mod 2 = 1 /\ Lg1 mod 2 = 1.
Hypothesis HM : Lg0/2 + Lh0/2 = M /\ Lg1/2 + Lh1/2 = M /\ Lg0 + Lh0 - 1 = 2*M + 1 /\ Lg1 + Lh1 - 1 = 2*M + 1.
Hypothesis HPR : BiortPR Op Lh0 Lg0 Lh1 Lg1 M h0 g0 h1 g1.

Lemma ext_even_props (x:ten) : 1 <= tH x -> 1 <= tW x ->
  let X := force Op (ext_even x) in
  even2 X /\ tN X = tN x /\ tC X = tC x /\ tH x <= tH X <= tH x + 1 /\ tW x <= tW X <= tW x + 1 /\
  forall n c i j, 0 <= i < tH x -> 0 <= j < tW x -> tf X n c i j = tf x n c i j.
Proof.
  intros HH HW. cbv zeta. unfold ext_even.
  set (x1 := if tH x mod 2 =? 1 then _ else x).
  assert (H1: tN x1 = tN x /\ tC x1 = tC x /\ tW x1 = tW x /\ tH x1 = tH x + tH x mod 2 /\
              forall n c i j, 0 <= i < tH x -> tf x1 n c i j = tf x n c i j).
  { unfold x1. destruct (tH x mod 2 =? 1) eqn:E.
    - unfold t_cat, t_slice, t_gather, pyclip, range_len. change (2 =? 1) with false. change (2 =? 2) with true. cbv iota.
      cbn [tN tC tH tW tf]. replace (-1 <? 0) with true by lia. replace (tH x <=? Z.max 0 (tH x + -1)) with false by lia.
      repeat apply conj; try lia. intros n c i j Hi. replace (i <? tH x) with true by lia. reflexivity.
    - repeat apply conj; try lia. intros; reflexivity. }
  destruct H1 as (A1 & A2 & A3 & A4 & A5).
  set (x2 := if tW x1 mod 2 =? 1 then _ else x1).
  assert (H2: tN x2 = tN x /\ tC x2 = tC x /\ tH x2 = tH x1 /\ tW x2 = tW x + tW x mod 2 /\
              forall n c i j, 0 <= j < tW x -> tf x2 n c i j = tf x1 n c i j).
  { unfold x2. rewrite A3. destruct (tW x mod 2 =? 1) eqn:E.
    - unfold t_cat, t_slice, t_gather, pyclip, range_len. change (3 =? 1) with false. change (3 =? 2) with false. cbv iota.
      cbn [tN tC tH tW tf]. rewrite A3. replace (-1 <? 0) with true by lia. replace (tW x <=? Z.max 0 (tW x + -1)) with false by lia.
      repeat apply conj; try lia. intros n c i j Hj. replace (j <? tW x) with true by lia. reflexivity.
    - repeat apply conj; try lia. intros; reflexivity. }
  destruct H2 as (B1 & B2 & B3 & B4 & B5).
  unfold even2. cbn [force tN tC tH tW]. repeat apply conj; try lia.
  intros n c i j Hi Hj. rewrite force_eq. rewrite B5 by lia. apply A5. lia.
Qed.

(* every J = 1 + length m, every image size >= 1: the inverse of the forward pyramid is the even-extended image, which has the
   original image in its top-left corner *)
Theorem dtcwt_pr (m:list bool) (x:ten) : 1 <= tH x -> 1 <= tW x -> 0 < tC x ->
  is_ok (DTCWTForward Op s (false :: map (fun _ => false) m) x Lh0 h0 Lh1 h1 L h0a h0b L h1a h1b M_SYMM) (fun lst =>
  is_ok (DTCWTInverse Op s (Some (fst (last lst (x, nil)))) (map snd lst) Lg0 g0 Lg1 g1 L g0a g0b L g1a g1b M_SYMM) (fun y =>
    same_on (force Op (ext_even x)) y /\
    forall n c i j, 0 <= c < tC x -> 0 <= i < tH x -> 0 <= j < tW x -> tf y n c i j = tf x n c i j)).
Proof.
  intros HH HW HC. unfold DTCWTForward.
  pose proof (ext_even_props x HH HW) as He. cbv zeta in He. set (X := force Op (ext_even x)) in *.
  destruct He as ((V1 & V2 & V3 & V4) & W1 & W2 & W3 & W4 & W5).
  pose proof (level1_pr_2d_ext Op Rth Lh0 Lg0 Lh1 Lg1 M h0 g0 h1 g1 Hodd Hsym Hlen HM HPR s two_s2 X V1 V2 V3 V4 ltac:(lia)) as H1.
  destruct (fwd_j1 Op s X Lh0 h0 Lh1 h1 false M_SYMM) as [[l1 hs1]|]; [|contradiction]. cbn [is_ok bind fst snd] in *.
  destruct H1 as (K1 & K2 & K3 & K4 & Kne & K5 & K6 & Kinv).
  assert (Hev1: even2 l1) by (unfold even2; lia).
  pose proof (levels_pr m l1 Hev1 ltac:(lia)) as Hl.
  destruct (fwd_levels Op s (map (fun _ => false) m) l1 L h0a h0b L h1a h1b) as [[fl ls]|] eqn:Efl; [|contradiction]. cbn [is_ok bind fst snd] in *.
  pose proof (fwd_levels_last _ _ _ _ Efl) as Hlast.
  rewrite last_cons. cbn [map]. unfold DTCWTInverse.
  assert (Hfl: same_on fl (fst (last ls (l1, hs1)))).
  { replace (fst (last ls (l1, hs1))) with fl; [apply same_on_refl|]. rewrite Hlast. clear.
    destruct ls as [|b ls]; [reflexivity|]. rewrite !last_cons. reflexivity. }
  specialize (Hl _ Hfl).
  destruct (inv_levels Op s (Some (fst (last ls (l1, hs1)))) (rev (map snd ls)) L g0a g0b L g1a g1b) as [r|]; [|contradiction]. cbn [is_ok bind] in *.
  destruct r as [Y|]; [|contradiction]. cbn [undone] in Hl. destruct Hl as (I0 & I1).
  assert (Hcrop: same_on l1 (crop_ll Y (tH (pl Op hs1 0 0)) (tW (pl Op hs1 0 0)))).
  { rewrite K5, K6. replace (tH X / 2) with (tH l1 / 2) by lia. replace (tW X / 2) with (tW l1 / 2) by lia.
    destruct m as [|sk' m'].
    - specialize (I0 eq_refl). destruct I0 as (Z1 & Z2 & Z3 & Z4 & Z5).
      rewrite crop_noop by lia. unfold same_on. repeat apply conj; try lia. exact Z5.
    - apply crop_pad4; [exact Hev1 | apply I1; discriminate]. }
  assert (Hco: crop_opt Op (Some Y) hs1 = Some (crop_ll Y (tH (pl Op hs1 0 0)) (tW (pl Op hs1 0 0)))).
  { unfold crop_opt. destruct hs1; [congruence | reflexivity]. }
  cbn [snd]. rewrite Hco. specialize (Kinv _ Hcrop).
  destruct (inv_j1 Op s _ hs1 Lg0 g0 Lg1 g1 M_SYMM) as [y|]; [|contradiction]. cbn [is_ok] in *.
  split; [exact Kinv|]. destruct Kinv as (Q1 & Q2 & Q3 & Q4 & Q5).
  intros n c i j Hc Hi Hj. rewrite Q5 by lia. apply W5; lia.
Qed.
End S.
