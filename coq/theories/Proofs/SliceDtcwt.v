(* C07, slice independence of the dual-tree transform on the tensor-level model.  The column/row decimation filters stack the
   two trees (coldfilt/rowdfilt) or the four polyphase branches (colifilt/rowifilt) along the CHANNEL axis before one grouped
   convolution and un-stack them afterwards by index arithmetic; relation SlB B m tracks that layout: B blocks of m*C
   channels in the batch against B blocks of m channels in the slice. *)
From PW Require Import Base.Ops Base.Sum Base.Sig Base.Tensor Model.Dwt Model.Dtcwt Proofs.Slice.
Ltac Zify.zify_post_hook ::= Z.to_euclidean_division_equations.

Section S.
Context {R:Type} (Op:Ops R) (Rth: RingOk Op).
Add Ring Rr4 : Rth.
Notation ten := (@ten R).
Infix "+r" := (radd Op) (at level 50, left associativity).
Infix "-r" := (rsub Op) (at level 50, left associativity).
Infix "*r" := (rmul Op) (at level 40, left associativity).
Notation sumZ := (sumZ Op).
Variables (N0 C n c:Z).
Variable s : R.
Notation Sl := (Sl N0 C n c).

Definition SlB (B m:Z) (x xs:ten) : Prop :=
  0 < m /\ 0 < B /\ tN x = N0 /\ tN xs = 1 /\ tC x = B * (m * C) /\ tC xs = B * m /\ tH xs = tH x /\ tW xs = tW x /\
  forall blk t i j, 0 <= blk < B -> 0 <= t < m -> tf xs 0 (blk*m + t) i j = tf x n (blk*(m*C) + (m*c + t)) i j.

Ltac sh H := let Hm := fresh "Hm" in let SN := fresh "SN" in let SN1 := fresh "SN1" in let SCx := fresh "SCx" in let SC := fresh "SC" in
  let SH := fresh "SH" in let SW := fresh "SW" in let V := fresh "V" in destruct H as (Hm & SN & SN1 & SCx & SC & SH & SW & V).
Ltac shB H := let Hm := fresh "Hm" in let HB := fresh "HB" in let SN := fresh "SN" in let SN1 := fresh "SN1" in let SCx := fresh "SCx" in let SC := fresh "SC" in
  let SH := fresh "SH" in let SW := fresh "SW" in let V := fresh "V" in destruct H as (Hm & HB & SN & SN1 & SCx & SC & SH & SW & V).
Ltac shp := unfold Slice.Sl; cbn [tN tC tH tW tf]; repeat (split; [lia|]).

(* pointwise operations *)
Lemma Sl_sub m x xs y ys : Sl m x xs -> Sl m y ys -> Sl m (t_sub Op x y) (t_sub Op xs ys).
Proof. intros Hx Hy. sh Hx. sh Hy. unfold t_sub. shp. intros t i j Ht. rewrite V, V0 by lia. reflexivity. Qed.
Lemma Sl_scale k m x xs : Sl m x xs -> Sl m (t_scale Op k x) (t_scale Op k xs).
Proof. intros Hx. sh Hx. unfold t_scale. shp. intros t i j Ht. rewrite V by lia. reflexivity. Qed.
Lemma Sl_neg m x xs : Sl m x xs -> Sl m (t_neg Op x) (t_neg Op xs).
Proof. intros Hx. sh Hx. unfold t_neg. shp. intros t i j Ht. rewrite V by lia. reflexivity. Qed.
Lemma Sl_poly pi pj m (x xs:ten) : Sl m x xs -> Sl m (poly pi pj x) (poly pi pj xs).
Proof. intros Hx. sh Hx. unfold poly. rewrite SH, SW. shp. intros t i j Ht. apply V; lia. Qed.

(* the stacked layout *)
Lemma SlB_of_Sl m x xs : Sl m x xs -> SlB 1 m x xs.
Proof.
  intros H. sh H. unfold SlB. repeat (split; [lia|]). intros blk t i j Hb Ht. replace blk with 0 by lia.
  replace (0 * m + t) with t by ring. replace (0 * (m*C) + (m*c + t)) with (m*c + t) by ring. apply V; lia.
Qed.
Hypothesis HcC : 0 <= c < C.
Lemma SlB_cat1 B1 B2 m x xs y ys : SlB B1 m x xs -> SlB B2 m y ys -> SlB (B1 + B2) m (t_cat 1 x y) (t_cat 1 xs ys).
Proof.
  intros Hx Hy. shB Hx. shB Hy. unfold t_cat. cbn [Z.eqb Pos.eqb]. unfold SlB. cbn [tN tC tH tW tf].
  split; [lia|]. split; [lia|]. split; [lia|]. split; [lia|]. split; [nia|]. split; [nia|]. split; [lia|]. split; [lia|].
  intros blk t i j Hb Ht. rewrite SC, SCx.
  assert (Hr: 0 <= m*c + t < m*C) by nia.
  destruct (Z_lt_dec blk B1) as [Hlt|Hge].
  - replace (blk*m + t <? B1*m) with true by (symmetry; apply Z.ltb_lt; nia).
    replace (blk*(m*C) + (m*c + t) <? B1*(m*C)) with true by (symmetry; apply Z.ltb_lt; nia). apply V; lia.
  - replace (blk*m + t <? B1*m) with false by (symmetry; apply Z.ltb_ge; nia).
    replace (blk*(m*C) + (m*c + t) <? B1*(m*C)) with false by (symmetry; apply Z.ltb_ge; nia).
    replace (blk*m + t - B1*m) with ((blk - B1)*m + t) by ring.
    replace (blk*(m*C) + (m*c + t) - B1*(m*C)) with ((blk - B1)*(m*C) + (m*c + t)) by ring. apply V0; lia.
Qed.
Lemma SlB_force B m x xs : SlB B m x xs -> SlB B m (force Op x) (force Op xs).
Proof. intros H. shB H. unfold SlB. cbn [force tN tC tH tW]. repeat (split; [lia|]). intros blk t i j Hb Ht. rewrite !force_eq. apply V; lia. Qed.
(* one grouped convolution over the stack, one output channel per input channel *)
Lemma SlB_conv B m d L (f fs:Z->Z->R) OC OC' sh sw ph pw dh dw x xs : SlB B m x xs -> OC = tC x -> OC' = tC xs ->
  (forall blk t p, 0 <= blk < B -> 0 <= t < m -> fs (blk*m + t) p = f (blk*(m*C) + (m*c + t)) p) ->
  R2 (SlB B m) (conv2d_r Op x (w_line d OC L f) sh sw ph pw dh dw) (conv2d_r Op xs (w_line d OC' L fs) sh sw ph pw dh dw).
Proof.
  intros H HO HOs Hf. shB H. unfold conv2d_r.
  rewrite (w_line_KH d OC' OC L fs f), (w_line_KW d OC' OC L fs f), SH, SW. destruct (_ && _ && _ && _); [|reflexivity].
  cbn [R2]. unfold conv2d_dw. cbv zeta. unfold SlB. cbn [tN tC tH tW tf]. rewrite !w_line_O.
  rewrite (w_line_KH d OC' OC L fs f), (w_line_KW d OC' OC L fs f), SH, SW.
  split; [lia|]. split; [lia|]. split; [lia|]. split; [lia|]. split; [lia|]. split; [lia|]. split; [lia|]. split; [lia|].
  intros blk t i j Hb Ht. apply sumZ_ext; intros p Hp. apply sumZ_ext; intros q Hq.
  rewrite (w_line_fp d OC' OC L fs f (blk*m + t) (blk*(m*C) + (m*c + t)) p q) by (intros a0; apply Hf; lia). f_equal.
  rewrite SC, SCx, HO, HOs, SC, SCx.
  assert (Hmc: 0 < m * C) by nia. assert (Hnz: 0 < B * (m * C)) by nia. rewrite !Z.div_same by lia. rewrite !Z.div_1_r.
  unfold t_zpad. cbn [tf]. rewrite SH, SW. destruct (inr (tH x) _ && inr (tW x) _); [apply V; lia | reflexivity].
Qed.

(* ---- the filter routines ---- *)
Lemma conv_line m d L h sh sw ph pw dh dw OC OC' x xs : Sl m x xs -> OC = tC x -> OC' = tC xs ->
  R2 (Sl m) (conv2d_r Op x (w_line d OC L (fun _ a => h a)) sh sw ph pw dh dw) (conv2d_r Op xs (w_line d OC' L (fun _ a => h a)) sh sw ph pw dh dw).
Proof.
  intros H HO HOs. pose proof H as H'. sh H'.
  pose proof (R2_conv2d_r Op N0 C n c HcC 1 m (w_line d OC L (fun _ a => h a)) (w_line d OC' L (fun _ a => h a)) sh sw ph pw dh dw x xs ltac:(lia) H) as K.
  replace (1 * m) with m in K by ring. apply K.
  - rewrite w_line_O. lia.
  - rewrite w_line_O. lia.
  - apply w_line_KH.
  - apply w_line_KW.
  - intros t p q Ht. apply w_line_f. reflexivity.
Qed.
Lemma tC_gather d len idx (x:ten) : tC (t_gather d len idx x) = tC x.
Proof. unfold t_gather. destruct (d =? 2); reflexivity. Qed.
Lemma linefilter_sl d L h mode m x xs : Sl m x xs -> R2 (Sl m) (linefilter Op d x L h mode) (linefilter Op d xs L h mode).
Proof.
  intros H. unfold linefilter. rewrite (dlen_sl N0 C n c d m x xs H). cbv zeta. destruct (mode =? M_SYMM).
  - eapply R2_bind. { apply conv_line; [apply Sl_force; apply Sl_gather; exact H | cbn [force tC]; rewrite tC_gather; reflexivity | cbn [force tC]; rewrite tC_gather; reflexivity]. }
    intros u us Hu. apply R2_ok. apply Sl_force. exact Hu.
  - destruct (along d (L/2)) as (ph, pw). eapply R2_bind. { apply conv_line; [exact H | reflexivity | reflexivity]. }
    intros u us Hu. apply R2_ok. apply Sl_force. exact Hu.
Qed.

Lemma dfilt_sl d L ha hb hp m x xs : Sl m x xs -> R2 (Sl m) (dfilt Op d x L ha hb hp) (dfilt Op d xs L ha hb hp).
Proof.
  intros H. unfold dfilt. rewrite (dlen_sl N0 C n c d m x xs H). cbv zeta. destruct (negb _); [apply R2_err|].
  destruct (sl _ 2 _ _ _) as (la, ia). destruct (sl _ 3 _ _ _) as (lb, ib). destruct (strides d) as (sh', sw').
  pose proof H as H'. sh H'.
  assert (Hcat: SlB 2 m (force Op (t_cat 1 (t_gather d la ia x) (t_gather d lb ib x))) (force Op (t_cat 1 (t_gather d la ia xs) (t_gather d lb ib xs)))).
  { apply SlB_force. change 2 with (1 + 1). apply SlB_cat1; apply SlB_of_Sl; apply Sl_gather; exact H. }
  eapply R2_bind.
  { apply (SlB_conv 2 m); [exact Hcat | | |].
    - cbn [force tC]. unfold t_cat. cbn [Z.eqb Pos.eqb tC]. rewrite !tC_gather. lia.
    - cbn [force tC]. unfold t_cat. cbn [Z.eqb Pos.eqb tC]. rewrite !tC_gather. lia.
    - intros blk t p Hb Ht. cbv beta. rewrite SCx, SC. assert (Hr: 0 <= m*c + t < m*C) by nia.
      destruct (Z.eq_dec blk 0) as [->|Hb1].
      + replace (0*m + t <? m) with true by lia. replace (0*(m*C) + (m*c + t) <? m*C) with true by lia. reflexivity.
      + replace blk with 1 by lia. replace (1*m + t <? m) with false by lia. replace (1*(m*C) + (m*c + t) <? m*C) with false by lia. reflexivity. }
  intros y ys Hy. apply R2_ok. apply Sl_force. pose proof (SlB_force _ _ _ _ Hy) as Hf. shB Hf.
  rewrite SCx, SC.
  destruct (d =? 2); unfold Slice.Sl; cbn [tN tC tH tW tf]; rewrite ?SH0, ?SW0; repeat (split; [lia|]); intros t i j Ht.
  - destruct (i mod 2 =? 0).
    + destruct hp.
      * replace (m + t) with (1*m + t) by ring. replace (m*C + (m*c + t)) with (1*(m*C) + (m*c + t)) by ring. apply V0; lia.
      * replace (0 + t) with (0*m + t) by ring. replace (0 + (m*c + t)) with (0*(m*C) + (m*c + t)) by ring. apply V0; lia.
    + destruct hp.
      * replace (0 + t) with (0*m + t) by ring. replace (0 + (m*c + t)) with (0*(m*C) + (m*c + t)) by ring. apply V0; lia.
      * replace (m + t) with (1*m + t) by ring. replace (m*C + (m*c + t)) with (1*(m*C) + (m*c + t)) by ring. apply V0; lia.
  - destruct (j mod 2 =? 0).
    + destruct hp.
      * replace (m + t) with (1*m + t) by ring. replace (m*C + (m*c + t)) with (1*(m*C) + (m*c + t)) by ring. apply V0; lia.
      * replace (0 + t) with (0*m + t) by ring. replace (0 + (m*c + t)) with (0*(m*C) + (m*c + t)) by ring. apply V0; lia.
    + destruct hp.
      * replace (0 + t) with (0*m + t) by ring. replace (0 + (m*c + t)) with (0*(m*C) + (m*c + t)) by ring. apply V0; lia.
      * replace (m + t) with (1*m + t) by ring. replace (m*C + (m*c + t)) with (1*(m*C) + (m*c + t)) by ring. apply V0; lia.
Qed.

Lemma ifilt_sl d L ha hb hp m x xs : Sl m x xs -> R2 (Sl m) (ifilt Op d x L ha hb hp) (ifilt Op d xs L ha hb hp).
Proof.
  intros H. unfold ifilt. rewrite (dlen_sl N0 C n c d m x xs H). cbv zeta. destruct (negb (_ mod 2 =? 0)); [apply R2_err|].
  set (q := if (L/2) mod 2 =? 0 then _ else _). destruct q as (((s1, s2), s3), s4).
  set (hq := if (L/2) mod 2 =? 0 then _ else _). destruct hq as (((h1, h2), h3), h4).
  destruct (negb (_ && _)); [apply R2_err|].
  pose proof H as H'. sh H'.
  set (g := fun (p:Z*(Z->Z)) (z:ten) => t_gather d (fst p) (snd p) z).
  assert (Hcat: SlB 4 m (force Op (t_cat 1 (t_cat 1 (g s1 x) (g s2 x)) (t_cat 1 (g s3 x) (g s4 x))))
                        (force Op (t_cat 1 (t_cat 1 (g s1 xs) (g s2 xs)) (t_cat 1 (g s3 xs) (g s4 xs))))).
  { apply SlB_force. change 4 with ((1 + 1) + (1 + 1)). apply SlB_cat1; apply SlB_cat1; apply SlB_of_Sl; apply Sl_gather; exact H. }
  eapply R2_bind.
  { apply (SlB_conv 4 m); [exact Hcat | | |].
    - cbn [force tC]. unfold t_cat. cbn [Z.eqb Pos.eqb tC]. unfold g. rewrite !tC_gather. lia.
    - cbn [force tC]. unfold t_cat. cbn [Z.eqb Pos.eqb tC]. unfold g. rewrite !tC_gather. lia.
    - intros blk t p Hb Ht. cbv beta. rewrite SCx, SC. assert (Hr: 0 <= m*c + t < m*C) by nia.
      assert (Hblk: blk = 0 \/ blk = 1 \/ blk = 2 \/ blk = 3) by lia. destruct Hblk as [-> | [-> | [-> | ->]]].
      + replace (0*m + t <? m) with true by lia. replace (0*(m*C) + (m*c + t) <? m*C) with true by lia. reflexivity.
      + replace (1*m + t <? m) with false by lia. replace (1*(m*C) + (m*c + t) <? m*C) with false by lia.
        replace (1*m + t <? 2*m) with true by lia. replace (1*(m*C) + (m*c + t) <? 2*(m*C)) with true by lia. reflexivity.
      + replace (2*m + t <? m) with false by lia. replace (2*(m*C) + (m*c + t) <? m*C) with false by lia.
        replace (2*m + t <? 2*m) with false by lia. replace (2*(m*C) + (m*c + t) <? 2*(m*C)) with false by lia.
        replace (2*m + t <? 3*m) with true by lia. replace (2*(m*C) + (m*c + t) <? 3*(m*C)) with true by lia. reflexivity.
      + replace (3*m + t <? m) with false by lia. replace (3*(m*C) + (m*c + t) <? m*C) with false by lia.
        replace (3*m + t <? 2*m) with false by lia. replace (3*(m*C) + (m*c + t) <? 2*(m*C)) with false by lia.
        replace (3*m + t <? 3*m) with false by lia. replace (3*(m*C) + (m*c + t) <? 3*(m*C)) with false by lia. reflexivity. }
  intros y ys Hy. pose proof (SlB_force _ _ _ _ Hy) as Hf. shB Hf.
  replace (dlen d (force Op ys)) with (dlen d (force Op y)) by (unfold dlen; destruct (d =? 2); lia).
  destruct (negb (_ =? _)); [apply R2_err|]. apply R2_ok. apply Sl_force.
  rewrite SCx, SC.
  destruct (d =? 2); unfold Slice.Sl; cbn [tN tC tH tW tf]; rewrite ?SH0, ?SW0; repeat (split; [lia|]); intros t i j Ht.
  - replace (i mod 4 * (m*C) + (m*c + t)) with ((i mod 4)*(m*C) + (m*c + t)) by ring. apply V0; lia.
  - replace (j mod 4 * (m*C) + (m*c + t)) with ((j mod 4)*(m*C) + (m*c + t)) by ring. apply V0; lia.
Qed.

(* q2c / c2q and the orientation bookkeeping *)
Notation Sll m := (F2 (Sl m)).
Lemma highs_to_orientations_sl m lh lhs hl hls hh hhs : Sl m lh lhs -> Sl m hl hls -> Sl m hh hhs ->
  Sll m (highs_to_orientations Op s lh hl hh) (highs_to_orientations Op s lhs hls hhs).
Proof.
  intros H1 H2 H3. unfold highs_to_orientations, q2c. cbv zeta beta iota.
  repeat (constructor; [apply Sl_force; first [apply Sl_sub | apply Sl_add]; apply Sl_poly; apply Sl_scale; assumption|]). constructor.
Qed.
Lemma F2_length {A} (rel:A->A->Prop) l1 l2 : F2 rel l1 l2 -> length l2 = length l1.
Proof. intros H. induction H; cbn [length]; congruence. Qed.
Lemma F2_nth {A} (rel:A->A->Prop) l1 l2 d1 d2 (k:nat) : F2 rel l1 l2 -> (k < length l1)%nat -> rel (nth k l1 d1) (nth k l2 d2).
Proof.
  intros Hl. revert k. induction Hl as [|u1 u2 l1 l2 Hu Hl IH]; intros k Hk; cbn [length] in Hk; [lia|].
  destruct k; cbn [nth]; [exact Hu | apply IH; lia].
Qed.
Lemma pl_sl m hs hss o ri : Sll m hs hss -> length hs = 12%nat -> 0 <= o < 6 -> 0 <= ri < 2 -> Sl m (pl Op hs o ri) (pl Op hss o ri).
Proof. intros H Hlen Ho Hri. unfold pl. apply F2_nth; [exact H | lia]. Qed.
Lemma c2q_sl m p ps q qs u us v vs : Sl m p ps -> Sl m q qs -> Sl m u us -> Sl m v vs ->
  Sl m (c2q Op s p q u v) (c2q Op s ps qs us vs).
Proof.
  intros Hp Hq Hu Hv. unfold c2q. cbv zeta. apply Sl_force. sh Hp. sh Hq. sh Hu. sh Hv.
  unfold Slice.Sl. cbn [tN tC tH tW tf]. repeat (split; [lia|]). intros t i j Ht. unfold t_add, t_sub, t_neg. cbn [tf].
  destruct (i mod 2 =? 0); destruct (j mod 2 =? 0); rewrite ?V, ?V0, ?V1, ?V2 by lia; reflexivity.
Qed.
Definition Slt m (t1 t2:ten*ten*ten) : Prop :=
  Sl m (fst (fst t1)) (fst (fst t2)) /\ Sl m (snd (fst t1)) (snd (fst t2)) /\ Sl m (snd t1) (snd t2).
Lemma orientations_to_highs_sl m hs hss : Sll m hs hss -> length hs = 12%nat ->
  Slt m (orientations_to_highs Op s hs) (orientations_to_highs Op s hss).
Proof. intros H Hlen. unfold orientations_to_highs, Slt. cbv zeta. cbn [fst snd]. split; [|split]; apply c2q_sl; apply pl_sl; try assumption; lia. Qed.

Lemma radd_res_sl m r rs q qs : R2 (Sl m) r rs -> R2 (Sl m) q qs -> R2 (Sl m) (radd_res Op r q) (radd_res Op rs qs).
Proof.
  intros Hr Hq. unfold radd_res. eapply R2_bind; [exact Hr|]. intros x xs Hx. eapply R2_bind; [exact Hq|]. intros y ys Hy.
  rewrite (same_shape_sl N0 C n c m x xs y ys Hx Hy).
  destruct (same_shape x y); [|apply R2_err]. apply R2_ok. apply Sl_force. apply Sl_add; assumption.
Qed.

Notation Slpl m := (P2 (Sl m) (Sll m)).
Lemma fwd_j1_sl L0 h0 L1 h1 skip mode m x xs : Sl m x xs ->
  R2 (Slpl m) (fwd_j1 Op s x L0 h0 L1 h1 skip mode) (fwd_j1 Op s xs L0 h0 L1 h1 skip mode).
Proof.
  intros H. unfold fwd_j1. destruct skip.
  - eapply R2_bind. { apply linefilter_sl. exact H. } intros lo los Hlo.
    eapply R2_bind. { apply linefilter_sl. exact Hlo. } intros ll lls Hll. apply R2_ok. split; cbn [fst snd]; [exact Hll | constructor].
  - eapply R2_bind. { apply linefilter_sl. exact H. } intros lo los Hlo.
    eapply R2_bind. { apply linefilter_sl. exact H. } intros hi his Hhi.
    eapply R2_bind. { apply linefilter_sl. exact Hlo. } intros ll lls Hll.
    eapply R2_bind. { apply linefilter_sl. exact Hlo. } intros lh lhs Hlh.
    eapply R2_bind. { apply linefilter_sl. exact Hhi. } intros hl hls Hhl.
    eapply R2_bind. { apply linefilter_sl. exact Hhi. } intros hh hhs Hhh.
    apply R2_ok. split; cbn [fst snd]; [exact Hll | apply highs_to_orientations_sl; assumption].
Qed.
Lemma fwd_j2plus_sl L0 h0a h0b L1 h1a h1b skip m x xs : Sl m x xs ->
  R2 (Slpl m) (fwd_j2plus Op s x L0 h0a h0b L1 h1a h1b skip) (fwd_j2plus Op s xs L0 h0a h0b L1 h1a h1b skip).
Proof.
  intros H. unfold fwd_j2plus. destruct skip.
  - eapply R2_bind. { apply dfilt_sl. exact H. } intros lo los Hlo.
    eapply R2_bind. { apply dfilt_sl. exact Hlo. } intros ll lls Hll. apply R2_ok. split; cbn [fst snd]; [exact Hll | constructor].
  - eapply R2_bind. { apply dfilt_sl. exact H. } intros lo los Hlo.
    eapply R2_bind. { apply dfilt_sl. exact H. } intros hi his Hhi.
    eapply R2_bind. { apply dfilt_sl. exact Hlo. } intros ll lls Hll.
    eapply R2_bind. { apply dfilt_sl. exact Hlo. } intros lh lhs Hlh.
    eapply R2_bind. { apply dfilt_sl. exact Hhi. } intros hl hls Hhl.
    eapply R2_bind. { apply dfilt_sl. exact Hhi. } intros hh hhs Hhh.
    apply R2_ok. split; cbn [fst snd]; [exact Hll | apply highs_to_orientations_sl; assumption].
Qed.

Lemma crop_ll_sl r1 c1 m (x xs:ten) : Sl m x xs -> Sl m (crop_ll x r1 c1) (crop_ll xs r1 c1).
Proof.
  intros H. unfold crop_ll. cbv zeta. pose proof H as H'. sh H'. rewrite SH.
  assert (Ha: Sl m (if negb (tH x =? 2 * r1) then t_pyslice 2 1 (-1) x else x) (if negb (tH x =? 2 * r1) then t_pyslice 2 1 (-1) xs else xs))
    by (destruct (negb _); [apply Sl_pyslice|]; exact H).
  revert Ha. generalize (if negb (tH x =? 2 * r1) then t_pyslice 2 1 (-1) x else x) (if negb (tH x =? 2 * r1) then t_pyslice 2 1 (-1) xs else xs).
  intros y ys Hy. pose proof Hy as Hy'. sh Hy'. rewrite SW0. destruct (negb _); [apply Sl_pyslice|]; exact Hy.
Qed.

Notation Slop m := (O2 (Sl m)).
Lemma inv_j1_sl L0 g0 L1 g1 mode m ll lls hs hss : Slop m ll lls -> Sll m hs hss -> (hs = nil \/ length hs = 12%nat) ->
  R2 (Sl m) (inv_j1 Op s ll hs L0 g0 L1 g1 mode) (inv_j1 Op s lls hss L0 g0 L1 g1 mode).
Proof.
  intros Hl Hh Hlen. unfold inv_j1. destruct Hh as [|u1 u2 l1 l2 Hu Hr].
  - destruct Hl as [|v vs Hv]; [apply R2_err|].
    eapply R2_bind. { apply linefilter_sl. exact Hv. } intros y ys Hy. apply linefilter_sl. exact Hy.
  - destruct Hlen as [Hnil|Hlen]; [discriminate|].
    assert (Hhs: Sll m (u1::l1) (u2::l2)) by (constructor; assumption).
    pose proof (orientations_to_highs_sl m _ _ Hhs Hlen) as Ht. pose proof (pl_sl m _ _ 0 0 Hhs Hlen ltac:(lia) ltac:(lia)) as Hp0.
    revert Ht Hp0. generalize (u1::l1) (u2::l2). intros hs hss Ht Hp0.
    destruct (orientations_to_highs Op s hs) as ((lh, hl), hh). destruct (orientations_to_highs Op s hss) as ((lhs, hls), hhs).
    destruct Ht as (Hlh & Hhl & Hhh). cbn [fst snd] in *.
    destruct Hl as [|v vs Hv].
    + eapply R2_bind. { apply radd_res_sl; apply linefilter_sl; eassumption. } intros hi his Hhi.
      eapply R2_bind. { apply linefilter_sl. exact Hlh. } intros lo los Hlo.
      apply radd_res_sl; apply linefilter_sl; eassumption.
    + pose proof Hp0 as Hp0'. sh Hp0'. rewrite SH, SW. cbv zeta.
      eapply R2_bind. { apply radd_res_sl; apply linefilter_sl; eassumption. } intros hi his Hhi.
      eapply R2_bind. { apply radd_res_sl; apply linefilter_sl; [eassumption | apply crop_ll_sl; exact Hv]. } intros lo los Hlo.
      apply radd_res_sl; apply linefilter_sl; eassumption.
Qed.
Lemma inv_j2plus_sl L0 g0a g0b L1 g1a g1b m ll lls hs hss : Slop m ll lls -> Sll m hs hss -> (hs = nil \/ length hs = 12%nat) ->
  R2 (Sl m) (inv_j2plus Op s ll hs L0 g0a g0b L1 g1a g1b) (inv_j2plus Op s lls hss L0 g0a g0b L1 g1a g1b).
Proof.
  intros Hl Hh Hlen. unfold inv_j2plus. destruct Hh as [|u1 u2 l1 l2 Hu Hr].
  - destruct Hl as [|v vs Hv]; [apply R2_err|].
    eapply R2_bind. { apply ifilt_sl. exact Hv. } intros y ys Hy. apply ifilt_sl. exact Hy.
  - destruct Hlen as [Hnil|Hlen]; [discriminate|].
    assert (Hhs: Sll m (u1::l1) (u2::l2)) by (constructor; assumption).
    pose proof (orientations_to_highs_sl m _ _ Hhs Hlen) as Ht.
    revert Ht. generalize (u1::l1) (u2::l2). intros hs hss Ht.
    destruct (orientations_to_highs Op s hs) as ((lh, hl), hh). destruct (orientations_to_highs Op s hss) as ((lhs, hls), hhs).
    destruct Ht as (Hlh & Hhl & Hhh). cbn [fst snd] in *.
    destruct Hl as [|v vs Hv].
    + eapply R2_bind. { apply radd_res_sl; apply ifilt_sl; eassumption. } intros hi his Hhi.
      eapply R2_bind. { apply ifilt_sl. exact Hlh. } intros lo los Hlo.
      apply radd_res_sl; apply ifilt_sl; eassumption.
    + eapply R2_bind. { apply radd_res_sl; apply ifilt_sl; eassumption. } intros hi his Hhi.
      eapply R2_bind. { apply radd_res_sl; apply ifilt_sl; eassumption. } intros lo los Hlo.
      apply radd_res_sl; apply ifilt_sl; eassumption.
Qed.

(* ---- modules ---- *)
Lemma ext_even_sl m (x xs:ten) : Sl m x xs -> Sl m (ext_even x) (ext_even xs).
Proof.
  intros H. unfold ext_even. cbv zeta. pose proof H as H'. sh H'. rewrite SH.
  assert (Ha: Sl m (if tH x mod 2 =? 1 then t_cat 2 x (t_slice 2 (pyclip (tH x) (-1)) (tH x) 1 x) else x)
                   (if tH x mod 2 =? 1 then t_cat 2 xs (t_slice 2 (pyclip (tH x) (-1)) (tH x) 1 xs) else xs))
    by (destruct (_ =? 1); [apply Sl_cat; [reflexivity | exact H | apply Sl_slice; exact H]|exact H]).
  revert Ha. generalize (if tH x mod 2 =? 1 then t_cat 2 x (t_slice 2 (pyclip (tH x) (-1)) (tH x) 1 x) else x)
                        (if tH x mod 2 =? 1 then t_cat 2 xs (t_slice 2 (pyclip (tH x) (-1)) (tH x) 1 xs) else xs).
  intros y ys Hy. pose proof Hy as Hy'. sh Hy'. rewrite SW0.
  destruct (_ =? 1); [apply Sl_cat; [reflexivity | exact Hy | apply Sl_slice; exact Hy]|exact Hy].
Qed.
Lemma pad4_sl m (x xs:ten) : Sl m x xs -> Sl m (pad4 x) (pad4 xs).
Proof.
  intros H. unfold pad4. cbv zeta. pose proof H as H'. sh H'. rewrite SH.
  assert (Ha: Sl m (if negb (tH x mod 4 =? 0) then t_cat 2 (t_cat 2 (t_pyslice 2 0 1 x) x) (t_slice 2 (pyclip (tH x) (-1)) (tH x) 1 x) else x)
                   (if negb (tH x mod 4 =? 0) then t_cat 2 (t_cat 2 (t_pyslice 2 0 1 xs) xs) (t_slice 2 (pyclip (tH x) (-1)) (tH x) 1 xs) else xs))
    by (destruct (negb _); [apply Sl_cat; [reflexivity | apply Sl_cat; [reflexivity | apply Sl_pyslice; exact H | exact H] | apply Sl_slice; exact H]|exact H]).
  revert Ha. generalize (if negb (tH x mod 4 =? 0) then t_cat 2 (t_cat 2 (t_pyslice 2 0 1 x) x) (t_slice 2 (pyclip (tH x) (-1)) (tH x) 1 x) else x)
                   (if negb (tH x mod 4 =? 0) then t_cat 2 (t_cat 2 (t_pyslice 2 0 1 xs) xs) (t_slice 2 (pyclip (tH x) (-1)) (tH x) 1 xs) else xs).
  intros y ys Hy. pose proof Hy as Hy'. sh Hy'. rewrite SW0.
  destruct (negb _); [apply Sl_cat; [reflexivity | apply Sl_cat; [reflexivity | apply Sl_pyslice; exact Hy | exact Hy] | apply Sl_slice; exact Hy]|exact Hy].
Qed.

Notation Sllev m := (F2 (Slpl m)).
Lemma fwd_levels_sl L0 h0a h0b L1 h1a h1b m skips : forall x xs, Sl m x xs ->
  R2 (P2 (Sl m) (Sllev m)) (fwd_levels Op s skips x L0 h0a h0b L1 h1a h1b) (fwd_levels Op s skips xs L0 h0a h0b L1 h1a h1b).
Proof.
  induction skips as [|sk rest IH]; intros x xs H; cbn [fwd_levels].
  - apply R2_ok. split; cbn [fst snd]; [exact H | constructor].
  - eapply R2_bind. { apply fwd_j2plus_sl. apply Sl_force. apply pad4_sl. exact H. }
    intros [l1 hs1] [l2 hs2] (Hl & Hhs). cbn [fst snd] in *.
    eapply R2_bind. { apply IH. exact Hl. } intros [f1 r1] [f2 r2] (Hf & Hr). cbn [fst snd] in *.
    apply R2_ok. split; cbn [fst snd]; [exact Hf | constructor; [split; assumption | exact Hr]].
Qed.
Theorem DTCWTForward_sl Lo0 h0o Lo1 h1o L0 h0a h0b L1 h1a h1b mode m skips x xs : Sl m x xs ->
  R2 (Sllev m) (DTCWTForward Op s skips x Lo0 h0o Lo1 h1o L0 h0a h0b L1 h1a h1b mode) (DTCWTForward Op s skips xs Lo0 h0o Lo1 h1o L0 h0a h0b L1 h1a h1b mode).
Proof.
  intros H. unfold DTCWTForward. destruct skips as [|sk rest]; [apply R2_err|].
  eapply R2_bind. { apply fwd_j1_sl. apply Sl_force. apply ext_even_sl. exact H. }
  intros [l1 hs1] [l2 hs2] (Hl & Hhs). cbn [fst snd] in *.
  eapply R2_bind. { apply fwd_levels_sl. exact Hl. } intros r1 r2 (Hf & Hr).
  apply R2_ok. constructor; [split; assumption | exact Hr].
Qed.

Lemma crop_opt_sl m ll lls hs hss : Slop m ll lls -> Sll m hs hss -> (hs = nil \/ length hs = 12%nat) -> Slop m (crop_opt Op ll hs) (crop_opt Op lls hss).
Proof.
  intros Hl Hh Hlen. unfold crop_opt. destruct Hl as [|v vs Hv]; [constructor|].
  destruct Hh as [|u1 u2 l1 l2 Hu Hr]; [constructor; exact Hv|].
  destruct Hlen as [Hnil|Hlen]; [discriminate|].
  assert (Hhs: Sll m (u1::l1) (u2::l2)) by (constructor; assumption).
  pose proof (pl_sl m _ _ 0 0 Hhs Hlen ltac:(lia) ltac:(lia)) as Hp0. sh Hp0. rewrite SH, SW. constructor. apply crop_ll_sl. exact Hv.
Qed.
(* every level of an inverse pyramid is absent (nil) or holds its 12 planes *)
Definition planes_ok (hs:list ten) : Prop := hs = nil \/ length hs = 12%nat.
Notation Slll m := (F2 (fun hs hss => Sll m hs hss /\ planes_ok hs)).
Lemma inv_levels_sl L0 g0a g0b L1 g1a g1b m hr hrs : Slll m hr hrs -> forall ll lls, Slop m ll lls ->
  R2 (Slop m) (inv_levels Op s ll hr L0 g0a g0b L1 g1a g1b) (inv_levels Op s lls hrs L0 g0a g0b L1 g1a g1b).
Proof.
  intros Hh. induction Hh as [|u1 u2 l1 l2 (Hu & Hp) Hr IH]; intros ll lls Hl; cbn [inv_levels].
  - apply R2_ok. exact Hl.
  - eapply R2_bind. { apply inv_j2plus_sl; [apply crop_opt_sl; eassumption | exact Hu | exact Hp]. } intros y ys Hy.
    apply IH. constructor. exact Hy.
Qed.
Theorem DTCWTInverse_sl Lo0 g0o Lo1 g1o L0 g0a g0b L1 g1a g1b mode m ll lls hs hss : Slop m ll lls -> Slll m hs hss ->
  R2 (Sl m) (DTCWTInverse Op s ll hs Lo0 g0o Lo1 g1o L0 g0a g0b L1 g1a g1b mode) (DTCWTInverse Op s lls hss Lo0 g0o Lo1 g1o L0 g0a g0b L1 g1a g1b mode).
Proof.
  intros Hl Hh. unfold DTCWTInverse. destruct Hh as [|u1 u2 l1 l2 (Hu & Hp) Hr]; [apply R2_err|].
  eapply R2_bind. { apply inv_levels_sl; [apply F2_rev; exact Hr | exact Hl]. } intros y ys Hy.
  apply inv_j1_sl; [apply crop_opt_sl; eassumption | exact Hu | exact Hp].
Qed.
End S.
