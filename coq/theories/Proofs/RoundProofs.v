(* C16: a dot product evaluated in floating point in ANY order (any bracketing, as torch's kernels are free to choose)
   differs from the exact value by at most ((1+u)^depth - 1) * sum |a_i b_i|; instantiated with Flocq's FLX format
   (precision 24 = binary32 without under/overflow, round to nearest, any tie-breaking rule). *)
From Coq Require Import Reals Lra Psatz ZArith.
From Flocq Require Import Core Relative.
Open Scope R_scope.

Section Dot.
Variable rnd : R -> R.
Variable u : R.
Hypothesis u_pos : 0 <= u.
Hypothesis rnd_err : forall x, Rabs (rnd x - x) <= u * Rabs x.

Inductive tree := Leaf (a b : R) | Node (l r : tree).
Fixpoint exact (t:tree) : R := match t with Leaf a b => a * b | Node l r => exact l + exact r end.
Fixpoint fl (t:tree) : R := match t with Leaf a b => rnd (a * b) | Node l r => rnd (fl l + fl r) end.
Fixpoint asum (t:tree) : R := match t with Leaf a b => Rabs (a * b) | Node l r => asum l + asum r end.
Fixpoint depth (t:tree) : nat := match t with Leaf _ _ => 1%nat | Node l r => S (Nat.max (depth l) (depth r)) end.
Definition gam (d:nat) : R := (1 + u) ^ d - 1.

Lemma asum_pos t : 0 <= asum t.
Proof. induction t; cbn; [apply Rabs_pos | lra]. Qed.
Lemma exact_le_asum t : Rabs (exact t) <= asum t.
Proof. induction t as [a b|l IHl r IHr]; cbn; [lra|]. eapply Rle_trans; [apply Rabs_triang|]. lra. Qed.
Lemma gam_mono d e : (d <= e)%nat -> gam d <= gam e.
Proof. intros H. unfold gam. assert (1 <= 1 + u) by lra. pose proof (Rle_pow (1+u) d e H0 H). lra. Qed.
Lemma gam_pos d : 0 <= gam d.
Proof. unfold gam. assert (1 <= (1+u)^d) by (apply pow_R1_Rle; lra). lra. Qed.

Theorem dot_any_order t : Rabs (fl t - exact t) <= gam (depth t) * asum t.
Proof.
  induction t as [a b|l IHl r IHr].
  - cbn. unfold gam. cbn. replace ((1 + u) * 1 - 1) with u by ring. apply rnd_err.
  - cbn [fl exact asum depth].
    set (D := Nat.max (depth l) (depth r)).
    assert (Gl: gam (depth l) <= gam D) by (apply gam_mono; apply Nat.le_max_l).
    assert (Gr: gam (depth r) <= gam D) by (apply gam_mono; apply Nat.le_max_r).
    pose proof (asum_pos l) as Al. pose proof (asum_pos r) as Ar. pose proof (gam_pos D) as GD.
    set (el := fl l - exact l) in *. set (er := fl r - exact r) in *.
    assert (Hel: Rabs el <= gam D * asum l) by (eapply Rle_trans; [exact IHl|]; apply Rmult_le_compat_r; assumption).
    assert (Her: Rabs er <= gam D * asum r) by (eapply Rle_trans; [exact IHr|]; apply Rmult_le_compat_r; assumption).
    set (s := fl l + fl r).
    assert (Hs: Rabs s <= asum l + asum r + Rabs el + Rabs er).
    { replace s with (exact l + exact r + el + er) by (unfold s, el, er; ring).
      eapply Rle_trans; [apply Rabs_triang|]. apply Rplus_le_compat; [|lra].
      eapply Rle_trans; [apply Rabs_triang|]. apply Rplus_le_compat; [|lra].
      eapply Rle_trans; [apply Rabs_triang|]. pose proof (exact_le_asum l). pose proof (exact_le_asum r). lra. }
    replace (rnd s - (exact l + exact r)) with ((rnd s - s) + (el + er)) by (unfold s, el, er; ring).
    eapply Rle_trans; [apply Rabs_triang|].
    pose proof (rnd_err s) as Hr.
    assert (Rabs (el + er) <= Rabs el + Rabs er) by apply Rabs_triang.
    assert (Hg: gam (S D) = u + (1 + u) * gam D) by (unfold gam; cbn; ring).
    rewrite Hg.
    assert (u * Rabs s <= u * (asum l + asum r + Rabs el + Rabs er)) by (apply Rmult_le_compat_l; assumption).
    nra.
Qed.

(* single linear stage: when every |b_i| <= xmax and the absolute row sum is bounded by gain *)
Corollary dot_gain_bound t gain xmax : asum t <= gain * xmax ->
  Rabs (fl t - exact t) <= gam (depth t) * (gain * xmax).
Proof.
  intros H. eapply Rle_trans; [apply dot_any_order|]. apply Rmult_le_compat_l; [apply gam_pos | exact H].
Qed.
End Dot.

(* binary32 arithmetic without underflow/overflow: FLX, precision 24, round to nearest with any tie rule *)
Section FLX32.
Variable choice : Z -> bool.
Definition rnd32 (x:R) : R := round radix2 (FLX_exp 24) (Znearest choice) x.
Definition u32 : R := / 2 * bpow radix2 (-24 + 1).
Lemma u32_pos : 0 <= u32.
Proof. unfold u32. apply Rmult_le_pos; [lra | apply bpow_ge_0]. Qed.
Lemma rnd32_err x : Rabs (rnd32 x - x) <= u32 * Rabs x.
Proof. unfold rnd32, u32. apply relative_error_N_FLX. reflexivity. Qed.
Theorem dot_any_order_float32 (t:tree) :
  Rabs (fl rnd32 t - exact t) <= gam u32 (depth t) * asum t.
Proof. apply dot_any_order; [apply u32_pos | apply rnd32_err]. Qed.
Lemma u32_value : u32 = / 16777216.
Proof. unfold u32. rewrite <- bpow_plus || idtac. unfold bpow. cbn. lra. Qed.
End FLX32.
