(* C10 in two dimensions: SFB2D = PyWavelets' idwt2 axis by axis (columns first, then rows), for ANY four coefficient bands. *)
From PW Require Import Base.Ops Base.Sum Base.Sig Base.Tensor Model.Dwt Spec.Line Proofs.ConvLine Proofs.DwtNF Proofs.LineTheory
  Proofs.SfbNF Proofs.DwtNFcol.
Ltac Zify.zify_post_hook ::= Z.to_euclidean_division_equations.

Section S.
Context {R:Type} (Op:Ops R) (Rth: RingOk Op).
Add Ring Rr : Rth.
Notation ten := (@ten R).
Notation sumZ := (sumZ Op).

(* idwt2: synthesis along columns of (ll, lh) and of (hl, hh) with the column pair, then along rows with the row pair *)
Definition pywt_idwt2 (Lr:Z) (gr0 gr1:Z->R) (Lc:Z) (gc0 gc1:Z->R) (h w:Z) (ll lh hl hh:Z->Z->R) (i j:Z) : R :=
  syn Op Lr w gr0 gr1
    (fun q => syn Op Lc h gc0 gc1 (fun p => ll p q) (fun p => lh p q) i)
    (fun q => syn Op Lc h gc0 gc1 (fun p => hl p q) (fun p => hh p q) i) j.

Lemma syn_ext L n g0 g1 (lo hi lo' hi':Z->R) m :
  (forall k, 0 <= k < n -> lo k = lo' k /\ hi k = hi' k) -> syn Op L n g0 g1 lo hi m = syn Op L n g0 g1 lo' hi' m.
Proof. intros H. unfold syn. apply sumZ_ext. intros k Hk. destruct (H k Hk) as (-> & ->). reflexivity. Qed.

Theorem SFB2D_pywt (low highs:ten) Lr gr0 gr1 Lc gc0 gc1 mode : nonper_mode mode ->
  tN highs = tN low -> tC highs = 3 * tC low -> tH highs = tH low -> tW highs = tW low ->
  2 <= Lr -> 2 <= Lc -> 0 < tC low -> 1 <= tW low -> 1 <= tH low -> 1 <= 2 * tH low - Lc + 2 -> 1 <= 2 * tW low - Lr + 2 ->
  is_ok (SFB2D_fwd Op low highs Lr gr0 gr1 Lc gc0 gc1 mode)
    (fun y => tN y = tN low /\ tC y = tC low /\ tH y = 2 * tH low - Lc + 2 /\ tW y = 2 * tW low - Lr + 2 /\
       forall n c i j, 0 <= c < tC low -> 0 <= i < 2 * tH low - Lc + 2 -> 0 <= j < 2 * tW low - Lr + 2 ->
         tf y n c i j = pywt_idwt2 Lr gr0 gr1 Lc gc0 gc1 (tH low) (tW low)
                          (fun p q => tf low n c p q) (fun p q => tf highs n (3*c) p q)
                          (fun p q => tf highs n (3*c+1) p q) (fun p q => tf highs n (3*c+2) p q) i j).
Proof.
  intros Hm HN HCh HHh HWh HLr HLc HC HW HH HoutH HoutW.
  unfold SFB2D_fwd.
  set (lh := unbind3 0 highs). set (hl := unbind3 1 highs). set (hh := unbind3 2 highs).
  assert (Hsh: forall b, tN (unbind3 b highs) = tN low /\ tC (unbind3 b highs) = tC low /\ tH (unbind3 b highs) = tH low /\ tW (unbind3 b highs) = tW low).
  { intros b. unfold unbind3, t_chmap. cbn [tN tC tH tW]. repeat split; try lia. }
  assert (Hss: forall b, same_shape low (unbind3 b highs) = true).
  { intros b. destruct (Hsh b) as (A & B & C & D). unfold same_shape. rewrite A, B, C, D. rewrite !Z.eqb_refl. reflexivity. }
  pose proof (sfb1d_nonper_col Op Rth low lh Lc gc0 gc1 mode Hm (Hss 0) HLc HW HoutH) as H1.
  destruct (sfb1d Op low lh Lc gc0 gc1 mode 2) as [lo|]; [|contradiction]. cbn [is_ok bind] in *.
  destruct H1 as (A1 & A2 & A3 & A4 & A5).
  assert (Hss2: same_shape hl hh = true).
  { destruct (Hsh 1) as (A & B & C & D). destruct (Hsh 2) as (A' & B' & C' & D'). unfold same_shape, hl, hh.
    rewrite A, B, C, D, A', B', C', D'. rewrite !Z.eqb_refl. reflexivity. }
  destruct (Hsh 1) as (S1 & S2 & S3 & S4).
  pose proof (sfb1d_nonper_col Op Rth hl hh Lc gc0 gc1 mode Hm Hss2 HLc ltac:(unfold hl; lia) ltac:(unfold hl; lia)) as H2.
  destruct (sfb1d Op hl hh Lc gc0 gc1 mode 2) as [hi|]; [|contradiction]. cbn [is_ok bind] in *.
  destruct H2 as (B1 & B2 & B3 & B4 & B5).
  fold hl in S1, S2, S3, S4. rewrite S1, S2, S3, S4 in *.
  assert (Hss3: same_shape lo hi = true).
  { unfold same_shape. rewrite A1, A2, A3, A4, B1, B2, B3, B4. rewrite !Z.eqb_refl. reflexivity. }
  pose proof (sfb1d_nonper_row Op Rth lo hi Lr gr0 gr1 mode Hm Hss3 HLr ltac:(lia) ltac:(lia)) as H3.
  destruct (sfb1d Op lo hi Lr gr0 gr1 mode 3) as [y|]; [|contradiction]. cbn [is_ok] in *.
  destruct H3 as (C1 & C2 & C3 & C4 & C5).
  rewrite A1, A2, A3, A4 in *.
  repeat apply conj; try lia.
  intros n c i j Hc Hi Hj. rewrite C5 by lia. unfold pywt_idwt2. apply syn_ext. intros q Hq. split.
  - rewrite A5 by lia. apply syn_ext. intros p Hp. split; [reflexivity|]. unfold lh, unbind3, t_chmap. cbn [tf]. f_equal. lia.
  - rewrite B5 by lia. apply syn_ext. intros p Hp. unfold hl, hh, unbind3, t_chmap. cbn [tf]. split; f_equal; lia.
Qed.
End S.
