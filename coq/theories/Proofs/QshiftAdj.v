(* DTCWT levels >= 2 (q-shift filters), line level, any commutative ring: the decimating dual-tree filter coldfilt and the
   interpolating filter colifilt with the two filters exchanged are adjoint, for every even filter length m, every column
   length r (multiple of 4, also shorter than the filter) and both sampling layouts, PROVIDED the tree-b filter is the
   time reverse of the tree-a filter (true of every shipped q-shift table: TablesProofs.qshift_revpair).
   Method: everything is unfolded to symmetric-periodic sequences on Z; sums over one period; Fubini. *)
From PW Require Import Base.Ops Base.Sum Base.Sig Spec.Line Spec.DtcwtRef Proofs.LineTheory Proofs.CircPR Proofs.SymExt.
Ltac Zify.zify_post_hook ::= Z.to_euclidean_division_equations.

Section S.
Context {R:Type} (Op:Ops R) (Rth: RingOk Op).
Add Ring Rr : Rth.
Infix "+r" := (radd Op) (at level 50, left associativity).
Infix "*r" := (rmul Op) (at level 40, left associativity).
Notation sumZ := (sumZ Op).
Notation dot := (dot Op).

(* ---- summation helpers ---- *)
Lemma sum_even_odd n (T:Z->R) : 0 <= n -> sumZ 0 (2*n) T = sumZ 0 n (fun k => T (2*k)) +r sumZ 0 n (fun k => T (2*k+1)).
Proof.
  intros Hn. replace (sumZ 0 (2*n) T) with (sumZ (2*0) (2*n) T) by (f_equal; lia).
  rewrite (sumZ_blocks' Op Rth 2 0 n T) by lia. rewrite <- sumZ_add by exact Rth. apply sumZ_ext. intros q Hq.
  unfold Sum.sumZ. replace (Z.to_nat (2 - 0)) with 2%nat by lia. cbn [sumf].
  replace (0 + 2*q) with (2*q) by lia. replace (0 + 1 + 2*q) with (2*q+1) by lia. ring.
Qed.
(* a residue class mod 4 over one period = an arithmetic progression with any offset *)
Lemma sum_res4 q c (F:Z->R) : 0 <= q -> (forall v, F (v + 4*q) = F v) ->
  sumZ 0 (4*q) (fun u => if (u - c) mod 4 =? 0 then F u else r0 Op) = sumZ 0 q (fun i => F (4*i + c)).
Proof.
  intros Hq Hper.
  set (G := fun u => if u mod 4 =? 0 then F (u + c) else r0 Op).
  transitivity (sumZ 0 (4*q) (fun u => G (u + (-c)))).
  { apply sumZ_ext. intros u Hu. unfold G. replace ((u + - c) mod 4) with ((u - c) mod 4) by (f_equal; lia).
    destruct (_ =? 0); [f_equal; lia | reflexivity]. }
  assert (HG: forall v, G (v + 4*q) = G v).
  { intros v. unfold G. replace ((v + 4*q) mod 4) with (v mod 4) by lia. destruct (_ =? 0); [|reflexivity].
    replace (v + 4*q + c) with (v + c + 4*q) by lia. apply Hper. }
  rewrite (sum_period_shift Op Rth (4*q) G (-c) ltac:(lia) HG).
  replace (sumZ 0 (4*q) G) with (sumZ (4*0) (4*q) G) by (f_equal; lia).
  rewrite (sumZ_blocks' Op Rth 4 0 q G) by lia. apply sumZ_ext. intros i Hi.
  unfold Sum.sumZ. replace (Z.to_nat (4 - 0)) with 4%nat by lia. cbn [sumf]. unfold G.
  replace ((0 + 4*i) mod 4 =? 0) with true by lia. replace ((0 + 1 + 4*i) mod 4 =? 0) with false by lia.
  replace ((0 + 1 + 1 + 4*i) mod 4 =? 0) with false by lia. replace ((0 + 1 + 1 + 1 + 4*i) mod 4 =? 0) with false by lia.
  replace (0 + 4*i + c) with (4*i + c) by lia. ring.
Qed.

(* ---- the setting ---- *)
Variables (m r e:Z) (fe fo x g:Z->R).
Hypothesis Hm : 2 <= m /\ m mod 2 = 0.
Hypothesis Hr : 0 < r /\ r mod 4 = 0.
Hypothesis He : e = 0 \/ e = 1.
Hypothesis Hrev : forall j, 0 <= j < m -> fo j = fe (m-1-j).
Let xs := ext_sym r x.
Let gs := ext_sym (r/2) g.

Lemma xs_refl u : xs (-1 - u) = xs u. Proof. unfold xs, ext_sym. rewrite sym_idx_refl by lia. reflexivity. Qed.
Lemma xs_per u : xs (u + 2 * r) = xs u. Proof. unfold xs, ext_sym. rewrite sym_idx_period by lia. reflexivity. Qed.
Lemma gs_refl u : gs (-1 - u) = gs u. Proof. unfold gs, ext_sym. rewrite sym_idx_refl by lia. reflexivity. Qed.
Lemma gs_per u : gs (u + r) = gs u.
Proof. unfold gs, ext_sym. replace (u + r) with (u + 2*(r/2)) by lia. rewrite sym_idx_period by lia. reflexivity. Qed.
Lemma fe_rev j : 0 <= j < m -> fe j = fo (m-1-j).
Proof. intros Hj. rewrite Hrev by lia. f_equal. lia. Qed.

(* decimating filter, evaluated at every k in Z *)
Definition Dk (k:Z) : R :=
  if k mod 2 =? 0 then sumZ 0 m (fun j => fe j *r xs (2*k + m - 2*j + e))
  else sumZ 0 m (fun j => fo j *r xs (2*k + m - 2*j - 1 - e)).
(* its transpose, evaluated at every u in Z *)
Definition Zu (u:Z) : R :=
  sumZ 0 m (fun j => (if (u - m + 2*j - e) mod 4 =? 0 then fe j *r gs ((u - m + 2*j - e)/2) else r0 Op)
                  +r (if (u - m + 2*j + e) mod 4 =? 1 then fo j *r gs ((u - m + 2*j + e + 1)/2) else r0 Op)).

Lemma Dk_refl k : Dk (-1 - k) = Dk k.
Proof.
  unfold Dk. destruct (k mod 2 =? 0) eqn:E.
  - replace ((-1 - k) mod 2 =? 0) with false by lia. rewrite (sumZ_rev Op Rth 0 m). apply sumZ_ext. intros j Hj. cbv beta.
    replace (0 + m - 1 - j) with (m-1-j) by lia. rewrite <- fe_rev by lia. f_equal.
    rewrite <- (xs_refl (2*k + m - 2*j + e)). f_equal. lia.
  - replace ((-1 - k) mod 2 =? 0) with true by lia. rewrite (sumZ_rev Op Rth 0 m). apply sumZ_ext. intros j Hj. cbv beta.
    replace (0 + m - 1 - j) with (m-1-j) by lia. rewrite <- Hrev by lia. f_equal.
    rewrite <- (xs_refl (2*k + m - 2*j - 1 - e)). f_equal. lia.
Qed.
Lemma Dk_per k : Dk (k + r) = Dk k.
Proof.
  unfold Dk. replace ((k + r) mod 2) with (k mod 2) by lia. destruct (k mod 2 =? 0); apply sumZ_ext; intros j Hj; f_equal.
  - rewrite <- (xs_per (2*k + m - 2*j + e)). f_equal. lia.
  - rewrite <- (xs_per (2*k + m - 2*j - 1 - e)). f_equal. lia.
Qed.
Lemma Zu_per u : Zu (u + 2 * r) = Zu u.
Proof.
  unfold Zu. apply sumZ_ext. intros j Hj.
  replace ((u + 2 * r - m + 2*j - e) mod 4) with ((u - m + 2*j - e) mod 4) by lia.
  replace ((u + 2 * r - m + 2*j + e) mod 4) with ((u - m + 2*j + e) mod 4) by lia.
  f_equal.
  - destruct (_ =? 0); [|reflexivity]. f_equal. rewrite <- (gs_per ((u - m + 2*j - e)/2)). f_equal. lia.
  - destruct (_ =? 1); [|reflexivity]. f_equal. rewrite <- (gs_per ((u - m + 2*j + e + 1)/2)). f_equal. lia.
Qed.
Lemma Zu_refl u : Zu (-1 - u) = Zu u.
Proof.
  unfold Zu. rewrite (sumZ_rev Op Rth 0 m). apply sumZ_ext. intros j Hj. cbv beta.
  replace (0 + m - 1 - j) with (m-1-j) by lia.
  rewrite (Rth.(Radd_comm) _ _). f_equal.
  - (* second term at (-1-u, m-1-j) = first term at (u, j) *)
    replace ((-1 - u - m + 2*(m-1-j) + e) mod 4 =? 1) with ((u - m + 2*j - e) mod 4 =? 0) by lia.
    destruct ((u - m + 2*j - e) mod 4 =? 0) eqn:E; [|reflexivity].
    rewrite <- fe_rev by lia. f_equal. rewrite <- (gs_refl ((u - m + 2*j - e)/2)). f_equal. lia.
  - replace ((-1 - u - m + 2*(m-1-j) - e) mod 4 =? 0) with ((u - m + 2*j + e) mod 4 =? 1) by lia.
    destruct ((u - m + 2*j + e) mod 4 =? 1) eqn:E; [|reflexivity].
    rewrite <- Hrev by lia. f_equal. rewrite <- (gs_refl ((u - m + 2*j + e + 1)/2)). f_equal. lia.
Qed.

(* unfolded adjointness: one period of each side *)
Lemma unfolded_adjoint : sumZ 0 r (fun k => Dk k *r gs k) = sumZ 0 (2 * r) (fun u => xs u *r Zu u).
Proof.
  set (q := r/2). assert (Hq: r = 2*q /\ 2 * r = 4*q /\ 0 <= q) by (unfold q; lia). destruct Hq as (Hq1 & Hq2 & Hq3).
  (* left: split by the parity of k *)
  rewrite Hq2. rewrite Hq1. rewrite (sum_even_odd q (fun k => Dk k *r gs k)) by lia.
  transitivity (sumZ 0 m (fun j => sumZ 0 q (fun i => fe j *r xs (4*i + (m - 2*j + e)) *r gs (2*i)))
                +r sumZ 0 m (fun j => sumZ 0 q (fun i => fo j *r xs (4*i + (m - 2*j - e + 1)) *r gs (2*i + 1)))).
  { f_equal.
    - rewrite (sumZ_swap Op Rth). apply sumZ_ext. intros i Hi. unfold Dk. replace ((2*i) mod 2 =? 0) with true by lia.
      rewrite <- (sumZ_scale_r Op Rth). apply sumZ_ext. intros j Hj. f_equal. f_equal. f_equal. lia.
    - rewrite (sumZ_swap Op Rth). apply sumZ_ext. intros i Hi. unfold Dk. replace ((2*i+1) mod 2 =? 0) with false by lia.
      rewrite <- (sumZ_scale_r Op Rth). apply sumZ_ext. intros j Hj. f_equal. f_equal. f_equal. lia. }
  (* right: exchange sums, one residue class per j and per term *)
  symmetry.
  transitivity (sumZ 0 m (fun j => sumZ 0 (4*q) (fun u => if (u - (m - 2*j + e)) mod 4 =? 0 then fe j *r xs u *r gs ((u - m + 2*j - e)/2) else r0 Op))
                +r sumZ 0 m (fun j => sumZ 0 (4*q) (fun u => if (u - (m - 2*j - e + 1)) mod 4 =? 0 then fo j *r xs u *r gs ((u - m + 2*j + e + 1)/2) else r0 Op))).
  { transitivity (sumZ 0 m (fun j => sumZ 0 (4*q) (fun u =>
       (if (u - (m - 2*j + e)) mod 4 =? 0 then fe j *r xs u *r gs ((u - m + 2*j - e)/2) else r0 Op)
       +r (if (u - (m - 2*j - e + 1)) mod 4 =? 0 then fo j *r xs u *r gs ((u - m + 2*j + e + 1)/2) else r0 Op)))).
    - rewrite (sumZ_swap Op Rth). apply sumZ_ext. intros u Hu.
      unfold Zu. rewrite <- sumZ_scale by exact Rth. apply sumZ_ext. intros j Hj.
      replace ((u - (m - 2*j + e)) mod 4 =? 0) with ((u - m + 2*j - e) mod 4 =? 0) by lia.
      replace ((u - (m - 2*j - e + 1)) mod 4 =? 0) with ((u - m + 2*j + e) mod 4 =? 1) by lia.
      destruct (_ =? 0); destruct (_ =? 1); ring.
    - rewrite <- sumZ_add by exact Rth. apply sumZ_ext. intros j Hj. rewrite sumZ_add by exact Rth. reflexivity. }
  f_equal; apply sumZ_ext; intros j Hj.
  - rewrite (sum_res4 q (m - 2*j + e) (fun u => fe j *r xs u *r gs ((u - m + 2*j - e)/2))).
    + apply sumZ_ext. intros i Hi. f_equal. f_equal. lia.
    + lia.
    + intros v. rewrite <- Hq2. rewrite xs_per. f_equal. rewrite <- (gs_per ((v - m + 2*j - e)/2)). f_equal. lia.
  - rewrite (sum_res4 q (m - 2*j - e + 1) (fun u => fo j *r xs u *r gs ((u - m + 2*j + e + 1)/2))).
    + apply sumZ_ext. intros i Hi. f_equal. f_equal. lia.
    + lia.
    + intros v. rewrite <- Hq2. rewrite xs_per. f_equal. rewrite <- (gs_per ((v - m + 2*j + e + 1)/2)). f_equal. lia.
Qed.

(* adjointness on the actual finite signals (factor 2: a general ring cannot cancel it) *)
Theorem qshift_adjoint2 :
  let two := r1 Op +r r1 Op in
  two *r dot (r/2) Dk g = two *r dot r x Zu.
Proof.
  intros two. unfold dot.
  assert (E1: two *r sumZ 0 (r/2) (fun k => Dk k *r g k) = sumZ 0 r (fun k => Dk k *r gs k)).
  { replace r with (2*(r/2)) at 2 by lia.
    rewrite (sum_sym_double Op Rth (r/2) (fun k => Dk k *r gs k)); try lia.
    - rewrite (sumZ_ext Op 0 (r/2) (fun k => Dk k *r gs k) (fun k => Dk k *r g k))
        by (intros k Hk; unfold gs, ext_sym; rewrite sym_idx_in by lia; reflexivity).
      unfold two. ring.
    - intros v. rewrite Dk_refl, gs_refl. reflexivity.
    - intros v. replace (v + 2*(r/2)) with (v + r) by lia. rewrite Dk_per, gs_per. reflexivity. }
  assert (E2: two *r sumZ 0 r (fun u => x u *r Zu u) = sumZ 0 (2 * r) (fun u => xs u *r Zu u)).
  { rewrite (sum_sym_double Op Rth r (fun u => xs u *r Zu u)); try lia.
    - rewrite (sumZ_ext Op 0 r (fun u => xs u *r Zu u) (fun u => x u *r Zu u))
        by (intros u Hu; unfold xs, ext_sym; rewrite sym_idx_in by lia; reflexivity).
      unfold two. ring.
    - intros v. rewrite xs_refl, Zu_refl. reflexivity.
    - intros v. rewrite xs_per, Zu_per. reflexivity. }
  rewrite E1, E2. apply unfolded_adjoint.
Qed.
End S.

(* ---------------- the reference closed forms are these two functions ---------------- *)
Ltac is_const_z t := match t with 0 => idtac | 1 => idtac | 2 => idtac | 3 => idtac end.
Section L.
Context {R:Type} (Op:Ops R) (Rth: RingOk Op).
Add Ring Rr2 : Rth.
Infix "+r" := (radd Op) (at level 50, left associativity).
Infix "*r" := (rmul Op) (at level 40, left associativity).
Notation sumZ := (sumZ Op).

Lemma coldfilt_Dk m r ha hb x (pos:bool) k :
  ref_coldfilt Op m r ha hb x pos k
  = Dk Op m r (if pos then 0 else 1) (if pos then ha else hb) (if pos then hb else ha) x k.
Proof.
  unfold ref_coldfilt, Dk, ref_tree_a, ref_tree_b.
  destruct pos; destruct (k mod 2 =? 0) eqn:E; cbn [Bool.eqb]; apply sumZ_ext; intros j Hj; f_equal; f_equal; lia.
Qed.

Section Z.
Variables (m r:Z) (fe fo g:Z->R).
Hypothesis Hm : 2 <= m /\ m mod 2 = 0.
Hypothesis Hrev : forall j, 0 <= j < m -> fo j = fe (m-1-j).
Lemma fe_rev' j : 0 <= j < m -> fe j = fo (m-1-j).
Proof. intros Hj. rewrite Hrev by lia. f_equal. lia. Qed.

Ltac fin m2 :=
  unfold ibranch; rewrite (sumZ_rev Op Rth 0 m2); rewrite <- sumZ_add by exact Rth; apply sumZ_ext; intros k Hk; cbv beta;
  repeat (match goal with |- context [if ?c then _ else _] => first [replace c with true by lia | replace c with false by lia] end; cbv iota);
  match goal with |- _ = ?Rhs => match Rhs with context [?f ?i *r ext_sym ?rr ?gg ?a] => transitivity (f i *r ext_sym rr gg a); [ | ring ] end end;
  f_equal; [ first [ rewrite Hrev by lia; f_equal; lia | rewrite fe_rev' by lia; f_equal; lia ] | f_equal; lia ].

(* all 16 cases (4 output phases, both parities of m/2, both layouts) of the reference's branch table *)
Lemma colifilt_Zu (pos:bool) u :
  ref_colifilt Op m (r/2) (if pos then fo else fe) (if pos then fe else fo) g pos u
  = Zu Op m r (if pos then 0 else 1) fe fo g u.
Proof.
  unfold ref_colifilt. cbv zeta. unfold Zu. set (m2 := m/2).
  assert (Hm2: m = 2*m2 /\ 1 <= m2) by (unfold m2; lia). destruct Hm2 as (Hm2 & Hm2p).
  replace (sumZ 0 m) with (sumZ 0 (2*m2)) by (rewrite Hm2; reflexivity).
  rewrite (sum_even_odd Op Rth m2) by lia.
  assert (Hu: u mod 4 = 0 \/ u mod 4 = 1 \/ u mod 4 = 2 \/ u mod 4 = 3) by lia.
  destruct pos; destruct (m2 mod 2 =? 0) eqn:Ep; destruct Hu as [Hu|[Hu|[Hu|Hu]]]; rewrite Hu;
    repeat match goal with |- context [?a =? ?b] => is_const_z a; is_const_z b; let v := eval vm_compute in (a =? b) in change (a =? b) with v end;
    cbv iota.
  all: fin m2.
Qed.
End Z.

(* the decimating filter with (ha, hb) and the interpolating filter with (hb, ha) are adjoint when hb is ha reversed *)
Theorem coldfilt_colifilt_adjoint2 m r (ha hb x g:Z->R) (pos:bool) :
  2 <= m -> m mod 2 = 0 -> 0 < r -> r mod 4 = 0 -> (forall j, 0 <= j < m -> hb j = ha (m-1-j)) ->
  let two := r1 Op +r r1 Op in
  two *r dot Op (r/2) (ref_coldfilt Op m r ha hb x pos) g = two *r dot Op r x (ref_colifilt Op m (r/2) hb ha g pos).
Proof.
  intros Hm Hme Hr Hr4 Hrev two.
  assert (Hrev': forall j, 0 <= j < m -> ha j = hb (m-1-j)) by (intros j Hj; rewrite Hrev by lia; f_equal; lia).
  destruct pos.
  - pose proof (qshift_adjoint2 Op Rth m r 0 ha hb x g (conj Hr Hr4) Hrev) as H. cbv zeta in H.
    unfold dot in *.
    rewrite (sumZ_ext Op 0 (r/2) _ (fun k => Dk Op m r 0 ha hb x k *r g k)) by (intros k Hk; rewrite coldfilt_Dk; reflexivity).
    rewrite (sumZ_ext Op 0 r (fun i => x i *r ref_colifilt Op m (r/2) hb ha g true i) (fun i => x i *r Zu Op m r 0 ha hb g i))
      by (intros i Hi; rewrite <- (colifilt_Zu m r ha hb g (conj Hm Hme) Hrev true i); reflexivity).
    exact H.
  - pose proof (qshift_adjoint2 Op Rth m r 1 hb ha x g (conj Hr Hr4) Hrev') as H. cbv zeta in H.
    unfold dot in *.
    rewrite (sumZ_ext Op 0 (r/2) _ (fun k => Dk Op m r 1 hb ha x k *r g k)) by (intros k Hk; rewrite coldfilt_Dk; reflexivity).
    rewrite (sumZ_ext Op 0 r (fun i => x i *r ref_colifilt Op m (r/2) hb ha g false i) (fun i => x i *r Zu Op m r 1 hb ha g i))
      by (intros i Hi; rewrite <- (colifilt_Zu m r hb ha g (conj Hm Hme) Hrev' false i); reflexivity).
    exact H.
Qed.
End L.
