(* q2c / c2q: mutual adjointness quad by quad, and c2q (q2c y) = 2 s^2 y (identity when s = 1/sqrt 2). *)
From PW Require Import Base.Ops Base.Sum Base.Sig Base.Tensor Model.Dwt Model.Dtcwt.
Ltac Zify.zify_post_hook ::= Z.to_euclidean_division_equations.

Section S.
Context {R:Type} (Op:Ops R) (Rth: RingOk Op).
Add Ring Rr : Rth.
Notation ten := (@ten R).
Infix "+r" := (radd Op) (at level 50, left associativity).
Infix "*r" := (rmul Op) (at level 40, left associativity).
Variable s : R.

(* values of the four complex planes of q2c at (i,j) in terms of the quad of y at (2i,2j) *)
Lemma q2c_values (y:ten) n c i j :
  let '((z1r, z1i), (z2r, z2i)) := q2c Op s y in
  tf z1r n c i j = rsub Op (s *r tf y n c (2*i) (2*j)) (s *r tf y n c (2*i+1) (2*j+1)) /\
  tf z1i n c i j = s *r tf y n c (2*i) (2*j+1) +r s *r tf y n c (2*i+1) (2*j) /\
  tf z2r n c i j = s *r tf y n c (2*i) (2*j) +r s *r tf y n c (2*i+1) (2*j+1) /\
  tf z2i n c i j = rsub Op (s *r tf y n c (2*i) (2*j+1)) (s *r tf y n c (2*i+1) (2*j)).
Proof.
  unfold q2c. cbv zeta. rewrite !force_eq. unfold t_sub, t_add, poly, t_scale. cbn [tf].
  replace (2*i+0) with (2*i) by lia. replace (2*j+0) with (2*j) by lia. repeat split; reflexivity.
Qed.

Lemma c2q_values (w1r w1i w2r w2i:ten) n c i j :
  let q := c2q Op s w1r w1i w2r w2i in
  tf q n c (2*i) (2*j) = s *r (tf w1r n c i j +r tf w2r n c i j) /\
  tf q n c (2*i) (2*j+1) = s *r (tf w1i n c i j +r tf w2i n c i j) /\
  tf q n c (2*i+1) (2*j) = s *r (rsub Op (tf w1i n c i j) (tf w2i n c i j)) /\
  tf q n c (2*i+1) (2*j+1) = s *r (ropp Op (tf w1r n c i j) +r tf w2r n c i j).
Proof.
  unfold c2q. cbv zeta. rewrite !force_eq. cbn [tf t_add t_sub t_neg].
  replace ((2*i) mod 2) with 0 by lia. replace ((2*j) mod 2) with 0 by lia.
  replace ((2*i+1) mod 2) with 1 by lia. replace ((2*j+1) mod 2) with 1 by lia.
  replace (2*i/2) with i by lia. replace (2*j/2) with j by lia.
  replace ((2*i+1)/2) with i by lia. replace ((2*j+1)/2) with j by lia.
  cbn [Z.eqb]. repeat split; reflexivity.
Qed.

(* adjointness, quad by quad: <q2c y, w>_(i,j) = <y, c2q w>_(quad i,j) *)
Theorem q2c_c2q_adjoint (y w1r w1i w2r w2i:ten) n c i j :
  let '((z1r, z1i), (z2r, z2i)) := q2c Op s y in
  let q := c2q Op s w1r w1i w2r w2i in
  tf z1r n c i j *r tf w1r n c i j +r tf z1i n c i j *r tf w1i n c i j +r
  tf z2r n c i j *r tf w2r n c i j +r tf z2i n c i j *r tf w2i n c i j
  = tf y n c (2*i) (2*j) *r tf q n c (2*i) (2*j) +r tf y n c (2*i) (2*j+1) *r tf q n c (2*i) (2*j+1) +r
    tf y n c (2*i+1) (2*j) *r tf q n c (2*i+1) (2*j) +r tf y n c (2*i+1) (2*j+1) *r tf q n c (2*i+1) (2*j+1).
Proof.
  pose proof (q2c_values y n c i j) as Hq. pose proof (c2q_values w1r w1i w2r w2i n c i j) as Hc.
  destruct (q2c Op s y) as ((z1r, z1i), (z2r, z2i)). cbv zeta in *.
  destruct Hq as (Q1 & Q2 & Q3 & Q4). destruct Hc as (C1 & C2 & C3 & C4).
  rewrite Q1, Q2, Q3, Q4, C1, C2, C3, C4. ring.
Qed.

(* c2q after q2c multiplies by 2 s^2 *)
Theorem c2q_q2c (y:ten) n c i j : 0 <= i -> 0 <= j ->
  let '((z1r, z1i), (z2r, z2i)) := q2c Op s y in
  tf (c2q Op s z1r z1i z2r z2i) n c i j = (r1 Op +r r1 Op) *r s *r s *r tf y n c i j.
Proof.
  intros Hi Hj.
  pose proof (q2c_values y n c (i/2) (j/2)) as Hq.
  destruct (q2c Op s y) as ((z1r, z1i), (z2r, z2i)).
  pose proof (c2q_values z1r z1i z2r z2i n c (i/2) (j/2)) as Hc. cbv zeta in *.
  destruct Hq as (Q1 & Q2 & Q3 & Q4). destruct Hc as (C1 & C2 & C3 & C4).
  assert (Hpi: i = 2*(i/2) \/ i = 2*(i/2)+1) by lia. assert (Hpj: j = 2*(j/2) \/ j = 2*(j/2)+1) by lia.
  destruct Hpi as [Ei|Ei]; destruct Hpj as [Ej|Ej]; rewrite Ei, Ej at 1.
  - rewrite C1, Q1, Q3. rewrite <- Ei, <- Ej. ring.
  - rewrite C2, Q2, Q4. rewrite <- Ei, <- Ej. ring.
  - rewrite C3, Q2, Q4. rewrite <- Ei, <- Ej. ring.
  - rewrite C4, Q1, Q3. rewrite <- Ei, <- Ej. ring.
Qed.
End S.
