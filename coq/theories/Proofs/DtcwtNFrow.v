(* Row twins (d = 3) of Proofs/DtcwtNF.v: normal forms of rowfilter, rowdfilt, rowifilt and their equality with the
   reference package's closed forms applied along the last axis. *)
From PW Require Import Base.Ops Base.Sum Base.Sig Base.Tensor Model.Dwt Model.Dtcwt Spec.Line Spec.DtcwtRef Proofs.ConvLine Proofs.DwtNF Proofs.DtcwtNF.
Ltac Zify.zify_post_hook ::= Z.to_euclidean_division_equations.

Section S.
Context {R:Type} (Op:Ops R) (Rth: RingOk Op).
Add Ring Rr : Rth.
Notation ten := (@ten R).
Infix "+r" := (radd Op) (at level 50, left associativity).
Infix "*r" := (rmul Op) (at level 40, left associativity).
Notation sumZ := (sumZ Op).

Definition row_spec (x:ten) (Wout:Z) (line:Z->Z->Z->Z->R) (y:ten) : Prop :=
  tN y = tN x /\ tC y = tC x /\ tH y = tH x /\ tW y = Wout /\
  forall n c i j, 0 <= c < tC x -> 0 <= i < tH x -> 0 <= j < Wout -> tf y n c i j = line n c i j.

(* rowfilter, symmetric mode *)
Theorem linefilter_sym_row (x:ten) L h : 1 <= L -> 1 <= tH x -> 1 <= tW x -> 0 < tC x ->
  is_ok (linefilter Op 3 x L h M_SYMM)
    (row_spec x (tW x + 2*(L/2) - L + 1) (fun n c i j => sumZ 0 L (fun a => h a *r tf x n c i (sym_idx (tW x) (j + a - L/2))))).
Proof.
  intros HL HH HW HC. unfold linefilter, dlen. change (M_SYMM =? M_SYMM) with true. change (3 =? 2) with false. cbv iota.
  set (m := L/2). set (r := tW x).
  rewrite conv2d_r_row by (unfold t_gather; change (3 =? 2) with false; cbv iota; cbn [force tH tW]; fold r; unfold m; lia).
  cbn [bind is_ok]. unfold row_spec. cbn [force tN tC tH tW conv2d_dw]. rewrite w_line3; cbn [wO wKH wKW].
  unfold t_gather. change (3 =? 2) with false. cbv iota. cbn [tN tC tH tW]. fold r.
  repeat apply conj; try (unfold m; lia).
  intros n c i j Hc' Hi Hj. rewrite force_eq. rewrite <- w_line3. rewrite conv_row by exact Rth.
  apply sumZ_ext. intros a Ha. rewrite rowz_force. unfold rowz. cbn [tf tH tW tC force].
  replace (inr (tH x) i && inr (r + 2*m) (j*1 + a*1 - 0)) with true by (unfold inr, m in *; lia).
  replace (tC x / tC x) with 1 by (symmetry; apply Z.div_same; lia). rewrite Z.div_1_r.
  f_equal. rewrite symm_pad_sym by (unfold r; lia). f_equal. f_equal. lia.
Qed.

Corollary linefilter_ref_row (x:ten) L hh : 1 <= L -> L mod 2 = 1 -> 1 <= tH x -> 1 <= tW x -> 0 < tC x ->
  is_ok (linefilter Op 3 x L (rev_filt L hh) M_SYMM)
    (row_spec x (tW x) (fun n c i j => ref_colfilter Op L (tW x) hh (fun q => tf x n c i q) j)).
Proof.
  intros HL HLo HH HW HC. pose proof (linefilter_sym_row x L (rev_filt L hh) HL HH HW HC) as H.
  destruct (linefilter Op 3 x L _ M_SYMM) as [y|]; [|contradiction]. cbn [is_ok] in *.
  destruct H as (A1 & A2 & A3 & A4 & A5). unfold row_spec. repeat apply conj; auto; try lia.
  intros n c i j Hc' Hi Hj. rewrite A5 by lia. unfold ref_colfilter, rev_filt, ext_sym.
  rewrite (sumZ_rev Op Rth 0 L). apply sumZ_ext. intros a Ha. cbv beta.
  replace (L - 1 - (0 + L - 1 - a)) with a by lia. f_equal. f_equal. f_equal. lia.
Qed.

(* rowdfilt *)
Definition dtree_r (x:ten) (L:Z) (f:Z->R) (off:Z) n c i k : R :=
  sumZ 0 L (fun a => f a *r tf x n c i (sym_idx (tW x) (4*k + 2*a + 2 + off - L))).

Theorem dfilt_row (x:ten) L ha hb (hp:bool) : 2 <= L -> 4 <= tW x -> tW x mod 4 = 0 -> 1 <= tH x -> 0 < tC x ->
  is_ok (dfilt Op 3 x L ha hb hp)
    (row_spec x (tW x / 2) (fun n c i j =>
       if Bool.eqb (j mod 2 =? 0) (negb hp) then dtree_r x L ha 0 n c i (j/2) else dtree_r x L hb 1 n c i (j/2))).
Proof.
  intros HL HH H4 HW HC. unfold dfilt, dlen. change (3 =? 2) with false. cbv iota.
  set (r := tW x) in *. replace (negb (r mod 4 =? 0)) with false by lia. cbv iota.
  unfold sl, idx_slice. change (NONE =? NONE) with true. cbv iota.
  set (n := r + 2 * L).
  unfold pyclip. replace (2 <? 0) with false by lia. replace (3 <? 0) with false by lia. replace (n <? 0) with false by (unfold n; lia).
  replace (Z.min n 2) with 2 by (unfold n; lia). replace (Z.min n 3) with 3 by (unfold n; lia). replace (Z.min n n) with n by lia.
  unfold range_len. replace (n <=? 2) with false by (unfold n; lia). replace (n <=? 3) with false by (unfold n; lia).
  replace ((n - 2 + 2 - 1)/2) with (r/2 + L - 1) by (unfold n; lia).
  replace ((n - 3 + 2 - 1)/2) with (r/2 + L - 1) by (unfold n; lia).
  rewrite strides3.
  set (x1 := force Op (t_cat 1 _ _)).
  assert (Hx1: tN x1 = tN x /\ tC x1 = 2 * tC x /\ tW x1 = r/2 + L - 1 /\ tH x1 = tH x).
  { unfold x1, t_cat, t_gather. change (1 =? 1) with true. change (3 =? 2) with false. cbv iota. cbn [force tN tC tH tW]. repeat apply conj; lia. }
  destruct Hx1 as (X1 & X2 & X3 & X4).
  assert (Hx1v: forall nn oc i j, tf x1 nn oc i j =
      if oc <? tC x then tf x nn oc i (symm_pad r L (2 + 2*j)) else tf x nn (oc - tC x) i (symm_pad r L (3 + 2*j))).
  { intros. unfold x1. rewrite force_eq. unfold t_cat, t_gather. change (1 =? 1) with true. change (3 =? 2) with false. cbv iota. cbn [tf tC]. reflexivity. }
  rewrite conv2d_r_row by lia. cbn [bind is_ok].
  unfold row_spec. cbn [force tN tC tH tW conv2d_dw]. rewrite w_line3; cbn [wO wKH wKW]. rewrite ?X1, ?X3, ?X4.
  repeat apply conj; try lia.
  intros nn c i j Hc Hi Hj. rewrite force_eq. cbn [tf]. rewrite force_eq. rewrite <- w_line3. rewrite conv_row by exact Rth.
  rewrite X2. replace (2 * tC x / (2 * tC x)) with 1 by (symmetry; apply Z.div_same; lia). rewrite Z.div_1_r.
  assert (Ht: j mod 2 = 0 \/ j mod 2 = 1) by lia.
  unfold dtree_r. fold r.
  assert (Hsym: forall q, symm_pad r L q = sym_idx r (q - L)) by (intros; apply symm_pad_sym; lia).
  destruct hp; cbn [negb]; destruct Ht as [Ht|Ht]; rewrite Ht; cbn [Z.eqb Bool.eqb];
    apply sumZ_ext; intros a Ha; unfold rowz; rewrite X3, X4;
    replace (inr (tH x) i && inr (r/2 + L - 1) (j/2*2 + a*1 - 0)) with true by (unfold inr; lia);
    rewrite Hx1v.
  - replace (tC x + c <? tC x) with false by lia. f_equal. rewrite Hsym. f_equal; try lia. f_equal. lia.
  - replace (0 + c <? tC x) with true by lia. f_equal. rewrite Hsym. f_equal; try lia. f_equal. lia.
  - replace (0 + c <? tC x) with true by lia. f_equal. rewrite Hsym. f_equal; try lia. f_equal. lia.
  - replace (tC x + c <? tC x) with false by lia. f_equal. rewrite Hsym. f_equal; try lia. f_equal. lia.
Qed.
Corollary dfilt_ref_row (x:ten) L HA HB (hp:bool) : 2 <= L -> 4 <= tW x -> tW x mod 4 = 0 -> 1 <= tH x -> 0 < tC x ->
  is_ok (dfilt Op 3 x L (rev_filt L HA) (rev_filt L HB) hp)
    (row_spec x (tW x / 2) (fun n c i j => ref_coldfilt Op L (tW x) HA HB (fun q => tf x n c i q) (negb hp) j)).
Proof.
  intros HL HH H4 HW HC. pose proof (dfilt_row x L (rev_filt L HA) (rev_filt L HB) hp HL HH H4 HW HC) as H.
  destruct (dfilt Op 3 x L _ _ hp) as [y|]; [|contradiction]. cbn [is_ok] in *.
  destruct H as (A1 & A2 & A3 & A4 & A5). unfold row_spec. repeat apply conj; auto.
  intros n c i j Hc Hi Hj. rewrite A5 by lia. unfold ref_coldfilt.
  destruct (Bool.eqb (j mod 2 =? 0) (negb hp)); unfold dtree_r, ref_tree_a, ref_tree_b, rev_filt, ext_sym;
    rewrite (sumZ_rev Op Rth 0 L); apply sumZ_ext; intros a Ha; cbv beta;
    replace (L - 1 - (0 + L - 1 - a)) with a by lia; f_equal; f_equal; f_equal; lia.
Qed.

(* rowifilt *)
Definition itree_r (x:ten) (m2:Z) (f:Z->R) (base:Z) n c i k : R :=
  sumZ 0 m2 (fun a => f a *r tf x n c i (sym_idx (tW x) (base + 2*(k + a) - m2))).

Lemma ifilt_core_row (x:ten) (m2 len:Z) (i1 i2 i3 i4:Z->Z) (f1 f2 f3 f4:Z->R) :
  1 <= m2 -> m2 <= len -> 1 <= tH x -> 0 < tC x ->
  let ch := tC x in
  let g (idx:Z->Z) := t_gather 3 len idx x in
  let x1 := force Op (t_cat 1 (t_cat 1 (g i1) (g i2)) (t_cat 1 (g i3) (g i4))) in
  let w := w_line 3 (4*ch) m2 (fun oc a => if oc <? ch then f1 a else if oc <? 2*ch then f2 a else if oc <? 3*ch then f3 a else f4 a) in
  exists y, conv2d_r Op x1 w 1 1 0 0 1 1 = Ok y /\ tN y = tN x /\ tW y = len - m2 + 1 /\ tH y = tH x /\
    forall n c t i k, 0 <= c < ch -> 0 <= t < 4 -> 0 <= k < len - m2 + 1 -> 0 <= i < tH x ->
      tf y n (t * ch + c) i k = sumZ 0 m2 (fun a => pick4 t f1 f2 f3 f4 a *r tf x n c i (pick4 t i1 i2 i3 i4 (k + a))).
Proof.
  intros Hm Hlen HW HC ch g x1 w.
  assert (Hs: tN x1 = tN x /\ tC x1 = 4 * ch /\ tW x1 = len /\ tH x1 = tH x).
  { unfold x1, g, t_cat, t_gather. change (1 =? 1) with true. change (3 =? 2) with false. cbv iota. cbn [force tN tC tH tW]. unfold ch. repeat apply conj; lia. }
  destruct Hs as (X1 & X2 & X3 & X4).
  assert (Hv: forall n c t i j, 0 <= c < ch -> 0 <= t < 4 -> tf x1 n (t*ch + c) i j = tf x n c i (pick4 t i1 i2 i3 i4 j)).
  { intros n c t i j Hc Ht. unfold x1. rewrite force_eq. unfold g, t_cat, t_gather, pick4. change (1 =? 1) with true. change (3 =? 2) with false. cbv iota.
    cbn [tf tC]. fold ch.
    assert (Ht4: t = 0 \/ t = 1 \/ t = 2 \/ t = 3) by lia; destruct Ht4 as [E|[E|[E|E]]]; subst t; cbn [Z.eqb].
    - replace (0*ch + c <? ch + ch) with true by lia. replace (0*ch + c <? ch) with true by lia. f_equal; lia.
    - replace (1*ch + c <? ch + ch) with true by lia. replace (1*ch + c <? ch) with false by lia. f_equal; lia.
    - replace (2*ch + c <? ch + ch) with false by lia. replace (2*ch + c - (ch + ch) <? ch) with true by lia. f_equal; lia.
    - replace (3*ch + c <? ch + ch) with false by lia. replace (3*ch + c - (ch + ch) <? ch) with false by lia. f_equal. lia. }
  exists (conv2d_dw Op x1 w 1 1 0 0 1 1). split.
  { unfold w. apply conv2d_r_row; lia. }
  unfold w. cbn [conv2d_dw tN tC tH tW]. rewrite w_line3; cbn [wO wKH wKW]. rewrite X1, X3, X4.
  repeat apply conj; try lia.
  intros n c t i k Hc Ht Hk Hi. rewrite <- w_line3. rewrite conv_row by exact Rth.
  rewrite X2. replace (4 * ch / (4 * ch)) with 1 by (symmetry; apply Z.div_same; lia). rewrite Z.div_1_r.
  apply sumZ_ext. intros a Ha. unfold rowz. rewrite X3, X4.
  replace (inr (tH x) i && inr len (k*1 + a*1 - 0)) with true by (unfold inr; lia).
  rewrite Hv by lia. f_equal.
  - unfold pick4. assert (Ht4: t = 0 \/ t = 1 \/ t = 2 \/ t = 3) by lia; destruct Ht4 as [E|[E|[E|E]]]; subst t; cbn [Z.eqb].
    + replace (0*ch + c <? ch) with true by lia. reflexivity.
    + replace (1*ch + c <? ch) with false by lia. replace (1*ch + c <? 2*ch) with true by lia. reflexivity.
    + replace (2*ch + c <? ch) with false by lia. replace (2*ch + c <? 2*ch) with false by lia. replace (2*ch + c <? 3*ch) with true by lia. reflexivity.
    + replace (3*ch + c <? ch) with false by lia. replace (3*ch + c <? 2*ch) with false by lia. replace (3*ch + c <? 3*ch) with false by lia. reflexivity.
  - f_equal. f_equal. lia.
Qed.

Theorem ifilt_row (x:ten) L ha hb (hp:bool) : 2 <= L -> L mod 2 = 0 -> 2 <= tW x -> tW x mod 2 = 0 -> 1 <= tH x -> 0 < tC x ->
  is_ok (ifilt Op 3 x L ha hb hp)
    (row_spec x (2 * tW x) (fun n c i j => itree_r x (L/2) (ifsel (L/2) ha hb (j mod 4)) (ibase (L/2) hp (j mod 4)) n c i (j/4))).
Proof.
  intros HL HLe HH H2 HW HC. unfold ifilt, dlen. change (3 =? 2) with false. cbv iota.
  set (r := tW x) in *. set (m2 := L/2) in *. replace (negb (r mod 2 =? 0)) with false by lia. cbv iota.
  set (n := r + 2 * m2).
  assert (Hn2: n mod 2 = 0) by (unfold n; lia). assert (Hn4: 4 <= n) by (unfold n, m2; lia).
  replace (range_len 1 L 2) with m2 by (unfold range_len, m2; replace (L <=? 1) with false by lia; lia).
  replace (range_len 0 L 2) with m2 by (unfold range_len, m2; replace (L <=? 0) with false by lia; lia).
  rewrite Z.eqb_refl. cbn [andb negb].
  assert (Hlen: n/2 - 1 - m2 + 1 = r/2) by (unfold n; lia).
  assert (Hcore: forall (b1 b2 b3 b4:Z) (f1 f2 f3 f4:Z->R) (hpv:bool),
     (forall t, 0 <= t < 4 -> pick4 t b1 b2 b3 b4 = ibase m2 hpv t) ->
     (forall t a, 0 <= t < 4 -> pick4 t f1 f2 f3 f4 a = ifsel m2 ha hb t a) ->
     is_ok (do y <- conv2d_r Op
       (force Op (t_cat 1 (t_cat 1 (t_gather 3 (n/2 - 1) (fun q => symm_pad r m2 (b1 + 2*q)) x) (t_gather 3 (n/2 - 1) (fun q => symm_pad r m2 (b2 + 2*q)) x))
                          (t_cat 1 (t_gather 3 (n/2 - 1) (fun q => symm_pad r m2 (b3 + 2*q)) x) (t_gather 3 (n/2 - 1) (fun q => symm_pad r m2 (b4 + 2*q)) x))))
       (w_line 3 (4 * tC x) m2 (fun oc a => if oc <? tC x then f1 a else if oc <? 2 * tC x then f2 a else if oc <? 3 * tC x then f3 a else f4 a)) 1 1 0 0 1 1;
       if negb (4 * tW (force Op y) =? 2 * r) then Err E_SHAPE else
       Ok (force Op (mkT (tN (force Op y)) (tC x) (tH (force Op y)) (2 * r) (fun n0 c i j => tf (force Op y) n0 (j mod 4 * tC x + c) i (j / 4)))))
     (row_spec x (2 * r) (fun n0 c i j => itree_r x m2 (ifsel m2 ha hb (j mod 4)) (ibase m2 hpv (j mod 4)) n0 c i (j/4)))).
  { intros b1 b2 b3 b4 f1 f2 f3 f4 hpv Hb Hf.
    destruct (ifilt_core_row x m2 (n/2 - 1) (fun q => symm_pad r m2 (b1 + 2*q)) (fun q => symm_pad r m2 (b2 + 2*q))
                (fun q => symm_pad r m2 (b3 + 2*q)) (fun q => symm_pad r m2 (b4 + 2*q)) f1 f2 f3 f4
                ltac:(unfold m2; lia) ltac:(unfold n; lia) HW HC) as (y & Hy & Y1 & Y3 & Y4 & Y5).
    cbv zeta in Hy. rewrite Hy. cbn [bind].
    cbn [force tW]. rewrite Y3, Hlen. replace (negb (4 * (r/2) =? 2 * r)) with false by lia. cbv iota.
    cbn [is_ok]. unfold row_spec. cbn [force tN tC tH tW]. repeat apply conj; try lia.
    intros nn c i j Hc Hi Hj. rewrite force_eq. cbn [tf]. rewrite force_eq.
    rewrite Y5 by lia. unfold itree_r. apply sumZ_ext. intros a Ha. fold r.
    assert (Ht4: 0 <= j mod 4 < 4) by lia.
    rewrite Hf by lia. f_equal. f_equal.
    specialize (Hb (j mod 4) Ht4). unfold pick4 in *.
    destruct (j mod 4 =? 0); [|destruct (j mod 4 =? 1); [|destruct (j mod 4 =? 2)]];
      rewrite symm_pad_sym by lia; f_equal; lia. }
  assert (Hp: forall t, 0 <= t < 4 -> t = 0 \/ t = 1 \/ t = 2 \/ t = 3) by (intros; lia).
  destruct (m2 mod 2 =? 0) eqn:Ee; destruct hp;
    rewrite !(sl_eval n _ _ _ Hn2 Hn4) by tauto; cbv iota beta; cbn [fst snd]; apply Hcore;
    try (intros t Ht; destruct (Hp t Ht) as [E|[E|[E|E]]]; subst t; unfold pick4, ibase; rewrite Ee; reflexivity);
    try (intros t a Ht; destruct (Hp t Ht) as [E|[E|[E|E]]]; subst t; unfold pick4, ifsel; rewrite Ee; cbn [Z.eqb Z.ltb Z.compare orb Pos.compare Pos.compare_cont Pos.eqb]; f_equal; lia).
Qed.
Lemma itree_r_ibranch (x:ten) L (F:Z->R) par base n c i k : 2 <= L -> L mod 2 = 0 -> (par = 0 \/ par = 1) ->
  itree_r x (L/2) (fun a => rev_filt L F (2*a + par)) base n c i k
  = ibranch Op (L/2) (tW x) F (1 - par) (base + L/2 - 2) (fun q => tf x n c i q) k.
Proof.
  intros HL HLe Hpar. unfold itree_r, ibranch, rev_filt, ext_sym. set (m2 := L/2).
  rewrite (sumZ_rev Op Rth 0 m2). apply sumZ_ext. intros a Ha. cbv beta. f_equal.
  - f_equal. unfold m2 in *. lia.
  - f_equal. f_equal. lia.
Qed.

Corollary ifilt_ref_row (x:ten) L HA HB (hp:bool) : 2 <= L -> L mod 2 = 0 -> 2 <= tW x -> tW x mod 2 = 0 -> 1 <= tH x -> 0 < tC x ->
  is_ok (ifilt Op 3 x L (rev_filt L HA) (rev_filt L HB) hp)
    (row_spec x (2 * tW x) (fun n c i j => ref_colifilt Op L (tW x) HA HB (fun q => tf x n c i q) (negb hp) j)).
Proof.
  intros HL HLe HH H2 HW HC. pose proof (ifilt_row x L (rev_filt L HA) (rev_filt L HB) hp HL HLe HH H2 HW HC) as H.
  destruct (ifilt Op 3 x L _ _ hp) as [y|]; [|contradiction]. cbn [is_ok] in *.
  destruct H as (A1 & A2 & A3 & A4 & A5). unfold row_spec. repeat apply conj; auto.
  intros n c i j Hc Hi Hj. rewrite A5 by lia. unfold ref_colifilt. cbv zeta.
  assert (Ht4: j mod 4 = 0 \/ j mod 4 = 1 \/ j mod 4 = 2 \/ j mod 4 = 3) by lia.
  unfold ifsel, ibase.
  destruct (L/2 mod 2 =? 0) eqn:Ee; destruct hp; cbn [negb]; destruct Ht4 as [E|[E|[E|E]]]; rewrite E;
    cbn [Z.eqb Z.ltb Z.compare orb Pos.compare Pos.compare_cont Pos.eqb];
    rewrite itree_r_ibranch by (auto; lia); f_equal; lia.
Qed.
End S.
