(* C07, second half, on the tensor-level model: every DWT / SWT function and module acts independently and identically on
   every (batch item, channel) slice.  Relation Sl m x xs: xs is a ONE-item tensor with m channels holding channels
   m*c .. m*c+m-1 of batch item n of x (x has m*C channels: m sub-bands per input channel, channel-major as the library
   lays them out).  R2: both results Ok and related, or the same error.  The theorems say: the transform of the
   (n,c) slice of the input - a 1 x 1 x H x W tensor, so an operator that cannot mention n, c, N or C - is the (n,c) slice of
   the transform of the whole batch. *)
From PW Require Import Base.Ops Base.Sum Base.Sig Base.Tensor Model.Dwt.
Ltac Zify.zify_post_hook ::= Z.to_euclidean_division_equations.

Definition R2 {A} (rel:A->A->Prop) (r1 r2:res A) : Prop :=
  match r1, r2 with
  | Ok u1, Ok u2 => rel u1 u2
  | Err e1, Err e2 => e1 = e2
  | _, _ => False
  end.

Section S.
Context {R:Type} (Op:Ops R) (Rth: RingOk Op).
Add Ring Rr3 : Rth.
Notation ten := (@ten R).
Infix "+r" := (radd Op) (at level 50, left associativity).
Infix "*r" := (rmul Op) (at level 40, left associativity).
Notation sumZ := (sumZ Op).
Variables (N0 C n c:Z).

Definition Sl (m:Z) (x xs:ten) : Prop :=
  0 < m /\ tN x = N0 /\ tN xs = 1 /\ tC x = m * C /\ tC xs = m /\ tH xs = tH x /\ tW xs = tW x /\
  forall t i j, 0 <= t < m -> tf xs 0 t i j = tf x n (m*c + t) i j.

Lemma R2_bind {A B} (relA:A->A->Prop) (relB:B->B->Prop) r1 r2 (f1 f2:A->res B) :
  R2 relA r1 r2 -> (forall u1 u2, relA u1 u2 -> R2 relB (f1 u1) (f2 u2)) -> R2 relB (bind r1 f1) (bind r2 f2).
Proof. intros H Hf. destruct r1 as [u1|e1]; destruct r2 as [u2|e2]; cbn in *; try contradiction; auto. Qed.
Lemma R2_ok {A} (rel:A->A->Prop) u1 u2 : rel u1 u2 -> R2 rel (Ok u1) (Ok u2).
Proof. intros H; exact H. Qed.
Lemma R2_err {A} (rel:A->A->Prop) e : R2 rel (Err e) (Err e).
Proof. reflexivity. Qed.

Ltac sh H := let Hm := fresh "Hm" in let SN := fresh "SN" in let SN1 := fresh "SN1" in let SCx := fresh "SCx" in let SC := fresh "SC" in
  let SH := fresh "SH" in let SW := fresh "SW" in let V := fresh "V" in destruct H as (Hm & SN & SN1 & SCx & SC & SH & SW & V).
Ltac shp := unfold Sl; cbn [tN tC tH tW tf]; repeat (split; [lia|]).

Lemma Sl_gather d len idx m x xs : Sl m x xs -> Sl m (t_gather d len idx x) (t_gather d len idx xs).
Proof. intros H. sh H. unfold t_gather. destruct (d =? 2); shp; intros; apply V; lia. Qed.
Lemma dlen_sl d m x xs : Sl m x xs -> dlen d xs = dlen d x.
Proof. intros H. sh H. unfold dlen. destruct (d =? 2); lia. Qed.
Lemma Sl_slice d p q st m x xs : Sl m x xs -> Sl m (t_slice d p q st x) (t_slice d p q st xs).
Proof. intros H. unfold t_slice. apply Sl_gather; exact H. Qed.
Lemma Sl_pyslice d p q m x xs : Sl m x xs -> Sl m (t_pyslice d p q x) (t_pyslice d p q xs).
Proof. intros H. unfold t_pyslice. rewrite (dlen_sl d m x xs H). apply Sl_slice; exact H. Qed.
(* concatenation along rows or columns (not channels) *)
Lemma Sl_cat d m x xs y ys : (d =? 1) = false -> Sl m x xs -> Sl m y ys -> Sl m (t_cat d x y) (t_cat d xs ys).
Proof.
  intros Hd Hx Hy. sh Hx. sh Hy. unfold t_cat. rewrite Hd. destruct (d =? 2); shp; intros t i j Ht.
  - rewrite SH. destruct (i <? tH x); [apply V | apply V0]; lia.
  - rewrite SW. destruct (j <? tW x); [apply V | apply V0]; lia.
Qed.
Lemma Sl_zpad l r' t u m x xs : Sl m x xs -> Sl m (t_zpad Op l r' t u x) (t_zpad Op l r' t u xs).
Proof.
  intros H. sh H. unfold t_zpad. shp. intros k i j Hk. rewrite SH, SW. destruct (inr (tH x) (i - t) && inr (tW x) (j - l)); [apply V; lia | reflexivity].
Qed.
Lemma Sl_force m x xs : Sl m x xs -> Sl m (force Op x) (force Op xs).
Proof. intros H. sh H. unfold Sl. cbn [force tN tC tH tW]. repeat (split; [lia|]). intros t i j Ht. rewrite !force_eq. apply V; lia. Qed.
Lemma Sl_add m x xs y ys : Sl m x xs -> Sl m y ys -> Sl m (t_add Op x y) (t_add Op xs ys).
Proof. intros Hx Hy. sh Hx. sh Hy. unfold t_add. shp. intros t i j Ht. rewrite V, V0 by lia. reflexivity. Qed.
Lemma Sl_roll k d m x xs : (d =? 1) = false -> Sl m x xs -> Sl m (roll x k d) (roll xs k d).
Proof. intros Hd H. unfold roll. rewrite (dlen_sl d m x xs H). apply Sl_cat; [exact Hd | apply Sl_slice; exact H | apply Sl_slice; exact H]. Qed.
(* a new channel axis *)
Lemma Sl_chmap m m' C' g gs x xs : Sl m x xs -> 0 < m' -> C' = m' * C ->
  (forall t, 0 <= t < m' -> 0 <= gs t < m /\ g (m'*c + t) = m*c + gs t) ->
  Sl m' (t_chmap C' g x) (t_chmap m' gs xs).
Proof.
  intros H Hm' HC Hg. sh H. unfold t_chmap. shp. intros t i j Ht. destruct (Hg t Ht) as (Hr & Hgt). rewrite Hgt. apply V. exact Hr.
Qed.

(* grouped convolution: k output channels per input channel, weights of the slice = weights of the batch at the slice's channels *)
Hypothesis HcC : 0 <= c < C.
Lemma Sl_conv k m w ws sh sw ph pw dh dw x xs : 0 < k -> Sl m x xs ->
  wO w = k * tC x -> wO ws = k * m -> wKH ws = wKH w -> wKW ws = wKW w ->
  (forall t p q, 0 <= t < k*m -> wf ws t p q = wf w (k*m*c + t) p q) ->
  Sl (k*m) (conv2d_dw Op x w sh sw ph pw dh dw) (conv2d_dw Op xs ws sh sw ph pw dh dw).
Proof.
  intros Hk H HO HOs HKH HKW Hw. pose proof (Sl_zpad pw pw ph ph m x xs H) as Hz. sh H. sh Hz.
  unfold conv2d_dw. cbv zeta. unfold Sl. cbn [tN tC tH tW tf]. rewrite HKH, HKW, SH, SW.
  split; [nia|]. split; [lia|]. split; [lia|]. split; [nia|]. split; [lia|]. split; [lia|]. split; [lia|].
  intros t i j Ht. apply sumZ_ext; intros p Hp. apply sumZ_ext; intros q Hq.
  rewrite Hw by lia. f_equal.
  assert (E1: wO ws / tC xs = k) by (rewrite HOs, SC; apply Z.div_mul; lia).
  assert (E2: wO w / tC x = k) by (rewrite HO; apply Z.div_mul; nia).
  rewrite E1, E2.
  assert (E3: (k*m*c + t) / k = m*c + t/k) by (replace (k*m*c + t) with ((m*c)*k + t) by ring; apply Z.div_add_l; lia).
  rewrite E3. apply V0. split; [apply Z.div_pos; lia | apply Z.div_lt_upper_bound; nia].
Qed.
Lemma Sl_convT m w ws sh sw ph pw x xs : Sl m x xs -> wKH ws = wKH w -> wKW ws = wKW w ->
  (forall t p q, 0 <= t < m -> wf ws t p q = wf w (m*c + t) p q) ->
  Sl m (convT2d_dw Op x w sh sw ph pw) (convT2d_dw Op xs ws sh sw ph pw).
Proof.
  intros H HKH HKW Hw. sh H. unfold convT2d_dw. unfold Sl. cbn [tN tC tH tW tf]. rewrite HKH, HKW, SH, SW.
  repeat (split; [lia|]). intros t i j Ht. apply sumZ_ext; intros k Hk. apply sumZ_ext; intros l Hl. cbv zeta.
  destruct (inr (wKH w) (i + ph - k * sh) && inr (wKW w) (j + pw - l * sw)); [rewrite V, Hw by lia; reflexivity | reflexivity].
Qed.
Lemma R2_conv2d_r k m w ws sh sw ph pw dh dw x xs : 0 < k -> Sl m x xs ->
  wO w = k * tC x -> wO ws = k * m -> wKH ws = wKH w -> wKW ws = wKW w ->
  (forall t p q, 0 <= t < k*m -> wf ws t p q = wf w (k*m*c + t) p q) ->
  R2 (Sl (k*m)) (conv2d_r Op x w sh sw ph pw dh dw) (conv2d_r Op xs ws sh sw ph pw dh dw).
Proof.
  intros Hk H HO HOs HKH HKW Hw. pose proof (Sl_conv k m w ws sh sw ph pw dh dw x xs Hk H HO HOs HKH HKW Hw) as Hc. sh H.
  unfold conv2d_r. rewrite HKH, HKW, SH, SW. destruct (_ && _ && _ && _); [exact Hc | apply R2_err].
Qed.
Lemma R2_convT2d_r m w ws sh sw ph pw x xs : Sl m x xs -> wKH ws = wKH w -> wKW ws = wKW w ->
  (forall t p q, 0 <= t < m -> wf ws t p q = wf w (m*c + t) p q) ->
  R2 (Sl m) (convT2d_r Op x w sh sw ph pw) (convT2d_r Op xs ws sh sw ph pw).
Proof.
  intros H HKH HKW Hw. pose proof (Sl_convT m w ws sh sw ph pw x xs H HKH HKW Hw) as Hc. sh H.
  unfold convT2d_r. rewrite HKH, HKW, SH, SW. destruct (_ && _ && _ && _); [exact Hc | apply R2_err].
Qed.
Lemma R2_mypad d before after mode m x xs : Sl m x xs -> R2 (Sl m) (mypad Op d before after mode x) (mypad Op d before after mode xs).
Proof.
  intros H. unfold mypad. rewrite (dlen_sl d m x xs H). cbv zeta.
  destruct (mode =? M_SYMM). { apply Sl_gather; exact H. }
  destruct (mode =? M_PERIODIC). { apply Sl_gather; exact H. }
  destruct (mode =? M_REFLECT). { destruct (_ && _); [apply Sl_gather; exact H | apply R2_err]. }
  destruct (mode =? M_REPL). { apply Sl_gather; exact H. }
  destruct (_ || _); [|apply R2_err]. destruct (d =? 2); apply Sl_zpad; exact H.
Qed.
Lemma R2_fold_add d la b0 m x xs : Sl m x xs -> R2 (Sl m) (fold_add Op d la b0 x) (fold_add Op d la b0 xs).
Proof.
  intros H. unfold fold_add. rewrite (dlen_sl d m x xs H). cbv zeta. sh H.
  destruct (_ =? _); [|apply R2_err].
  destruct (d =? 2); cbn; shp; intros t i j Ht.
  - destruct (i <? _); [rewrite !V by lia; reflexivity | apply V; lia].
  - destruct (j <? _); [rewrite !V by lia; reflexivity | apply V; lia].
Qed.

(* ---- the filter banks ---- *)
Lemma w_line_O d OC L f : wO (@w_line R d OC L f) = OC.
Proof. unfold w_line. destruct (d =? 2); reflexivity. Qed.
Lemma w_line_KH d OC OC' L f f' : wKH (@w_line R d OC L f) = wKH (@w_line R d OC' L f').
Proof. unfold w_line. destruct (d =? 2); reflexivity. Qed.
Lemma w_line_KW d OC OC' L f f' : wKW (@w_line R d OC L f) = wKW (@w_line R d OC' L f').
Proof. unfold w_line. destruct (d =? 2); reflexivity. Qed.
Lemma w_line_f d OC OC' L f f' t t' p q : f t = f' t' -> wf (@w_line R d OC L f) t p q = wf (@w_line R d OC' L f') t' p q.
Proof. intros E. unfold w_line. destruct (d =? 2); cbn [wf]; rewrite E; reflexivity. Qed.

Lemma w_line_fp d OC OC' L f f' t t' p q : (forall a, f t a = f' t' a) -> wf (@w_line R d OC L f) t p q = wf (@w_line R d OC' L f') t' p q.
Proof. intros E. unfold w_line. destruct (d =? 2); cbn [wf]; apply E. Qed.
Lemma conv_afb m d L h0 h1 sh sw ph pw dh dw x xs : Sl m x xs ->
  R2 (Sl (2*m)) (conv2d_r Op x (w_afb d (tC x) L h0 h1) sh sw ph pw dh dw) (conv2d_r Op xs (w_afb d (tC xs) L h0 h1) sh sw ph pw dh dw).
Proof.
  intros H. pose proof H as H'. sh H'. apply R2_conv2d_r; try exact H; try lia; unfold w_afb.
  - apply w_line_O.
  - rewrite w_line_O. lia.
  - apply w_line_KH.
  - apply w_line_KW.
  - intros t p q Ht. apply w_line_f. replace ((2*m*c + t) mod 2) with (t mod 2); [reflexivity|].
    replace (2*m*c + t) with (t + (m*c)*2) by ring. rewrite Z.mod_add by lia. reflexivity.
Qed.
Lemma afb1d_sl L h0 h1 mode d m x xs : (d =? 1) = false -> Sl m x xs -> R2 (Sl (2*m)) (afb1d Op x L h0 h1 mode d) (afb1d Op xs L h0 h1 mode d).
Proof.
  intros Hd H. unfold afb1d. rewrite (dlen_sl d m x xs H). cbv zeta.
  destruct (strides d) as (sh, sw).
  destruct (mode =? M_PER).
  - destruct (along d (L - 1)) as (ph, pw).
    set (y := if dlen d x mod 2 =? 1 then _ else x). set (ys := if dlen d x mod 2 =? 1 then _ else xs).
    assert (Hy: Sl m y ys) by (unfold y, ys; destruct (dlen d x mod 2 =? 1); [apply Sl_cat; [exact Hd | exact H | apply Sl_slice; exact H] | exact H]).
    assert (Hz: Sl m (force Op (roll y (-(L/2)) d)) (force Op (roll ys (-(L/2)) d))) by (apply Sl_force; apply Sl_roll; assumption).
    assert (EC: tC (force Op (roll y (-(L/2)) d)) = tC x /\ tC (force Op (roll ys (-(L/2)) d)) = tC xs).
    { pose proof Hz as Hz'. sh Hz'. pose proof H as H'. sh H'. lia. }
    destruct EC as (EC1 & EC2). rewrite <- EC1, <- EC2.
    eapply R2_bind. { apply conv_afb. exact Hz. }
    intros u us Hu. eapply R2_bind. { apply R2_fold_add. apply Sl_force. exact Hu. }
    intros v vs Hv. rewrite (dlen_sl d _ v vs Hv). apply R2_ok. apply Sl_force. apply Sl_slice. exact Hv.
  - destruct (mode =? M_ZERO).
    + destruct (along d _) as (ph, pw).
      set (y := force Op _). set (ys := force Op _).
      assert (Hy: Sl m y ys) by (unfold y, ys; apply Sl_force; destruct (_ mod 2 =? 1); [destruct (d =? 2); apply Sl_zpad; exact H | exact H]).
      assert (EC: tC y = tC x /\ tC ys = tC xs) by (pose proof Hy as Hy'; sh Hy'; pose proof H as H'; sh H'; lia).
      destruct EC as (EC1 & EC2). rewrite <- EC1, <- EC2.
      eapply R2_bind. { apply conv_afb. exact Hy. }
      intros u us Hu. apply R2_ok. apply Sl_force. exact Hu.
    + destruct (_ || _ || _); [|apply R2_err]. eapply R2_bind. { apply R2_mypad. exact H. }
      intros u us Hu.
      assert (EC: tC (force Op u) = tC x /\ tC (force Op us) = tC xs) by (pose proof (Sl_force _ _ _ Hu) as Hy'; sh Hy'; pose proof H as H'; sh H'; lia).
      destruct EC as (EC1 & EC2). rewrite <- EC1, <- EC2.
      eapply R2_bind. { apply conv_afb. apply Sl_force. exact Hu. }
      intros v vs Hv. apply R2_ok. apply Sl_force. exact Hv.
Qed.

Lemma convT_line m d L g sh sw ph pw OC OC' x xs : Sl m x xs ->
  R2 (Sl m) (convT2d_r Op x (w_line d OC L (fun _ a => g a)) sh sw ph pw) (convT2d_r Op xs (w_line d OC' L (fun _ a => g a)) sh sw ph pw).
Proof.
  intros H. apply R2_convT2d_r; [exact H | apply w_line_KH | apply w_line_KW |]. intros t p q Ht. apply w_line_f. reflexivity.
Qed.
Lemma same_shape_sl m x xs y ys : Sl m x xs -> Sl m y ys -> same_shape xs ys = same_shape x y.
Proof. intros Hx Hy. sh Hx. sh Hy. unfold same_shape. rewrite SN, SN0, SN1, SN2, SCx, SCx0, SC, SC0, SH, SH0, SW, SW0. rewrite !Z.eqb_refl. reflexivity. Qed.

Lemma sfb1d_sl L g0 g1 mode d m x xs y ys : (d =? 1) = false -> Sl m x xs -> Sl m y ys ->
  R2 (Sl m) (sfb1d Op x y L g0 g1 mode d) (sfb1d Op xs ys L g0 g1 mode d).
Proof.
  intros Hd Hx Hy. unfold sfb1d. rewrite (dlen_sl d m x xs Hx). cbv zeta. rewrite (same_shape_sl m x xs y ys Hx Hy).
  destruct (strides d) as (sh, sw). destruct (same_shape x y) eqn:Ess; cbn [negb]; [|apply R2_err].
  destruct (mode =? M_PER).
  - eapply R2_bind. { apply convT_line. exact Hx. } intros u us Hu.
    eapply R2_bind. { apply convT_line. exact Hy. } intros v vs Hv.
    eapply R2_bind. { apply R2_fold_add. apply Sl_force. apply Sl_add; eassumption. } intros w ws Hw.
    rewrite (dlen_sl d m w ws Hw). apply R2_ok. apply Sl_force. apply Sl_roll; [exact Hd|]. apply Sl_force. apply Sl_slice. exact Hw.
  - destruct (_ || _ || _ || _); [|apply R2_err]. destruct (along d (L - 2)) as (ph, pw).
    eapply R2_bind. { apply convT_line. exact Hx. } intros u us Hu.
    eapply R2_bind. { apply convT_line. exact Hy. } intros v vs Hv.
    apply R2_ok. apply Sl_force. apply Sl_add; assumption.
Qed.

(* pairs and lists *)
Definition P2 {A B} (ra:A->A->Prop) (rb:B->B->Prop) (p1 p2:A*B) : Prop := ra (fst p1) (fst p2) /\ rb (snd p1) (snd p2).
Inductive F2 {A} (rel:A->A->Prop) : list A -> list A -> Prop :=
| F2_nil : F2 rel nil nil
| F2_cons u1 u2 l1 l2 : rel u1 u2 -> F2 rel l1 l2 -> F2 rel (u1::l1) (u2::l2).
Inductive O2 {A} (rel:A->A->Prop) : option A -> option A -> Prop :=
| O2_none : O2 rel None None
| O2_some u1 u2 : rel u1 u2 -> O2 rel (Some u1) (Some u2).
Lemma F2_app {A} (rel:A->A->Prop) l1 l2 m1 m2 : F2 rel l1 l2 -> F2 rel m1 m2 -> F2 rel (l1 ++ m1) (l2 ++ m2).
Proof. intros Hl Hm. induction Hl as [|u1 u2 l1 l2 Hu Hl IH]; cbn [app]; [exact Hm | constructor; assumption]. Qed.
Lemma F2_rev {A} (rel:A->A->Prop) l1 l2 : F2 rel l1 l2 -> F2 rel (rev l1) (rev l2).
Proof.
  intros Hl. induction Hl as [|u1 u2 l1 l2 Hu Hl IH]; cbn [rev]; [constructor|]. apply F2_app; [exact IH | constructor; [exact Hu | constructor]].
Qed.

Lemma AFB1D_fwd_sl L h0 h1 mode m x xs : Sl m x xs ->
  R2 (P2 (Sl m) (Sl m)) (AFB1D_fwd Op x L h0 h1 mode) (AFB1D_fwd Op xs L h0 h1 mode).
Proof.
  intros H. unfold AFB1D_fwd. eapply R2_bind. { apply afb1d_sl; [reflexivity | exact H]. }
  intros u us Hu. apply R2_ok. pose proof Hu as Hu'. sh Hu'. pose proof H as H'. sh H'.
  split; cbn [fst snd]; apply Sl_force.
  - rewrite SCx, SC. replace (range_len 0 (2 * m * C) 2) with (m * C) by (unfold range_len; destruct (_ <=? _) eqn:E; nia).
    replace (range_len 0 (2 * m) 2) with m by (unfold range_len; destruct (_ <=? _) eqn:E; lia).
    apply (Sl_chmap (2*m) m _ _ _ u us Hu); [lia | reflexivity |]. intros t Ht. split; [lia | ring].
  - rewrite SCx, SC. replace (range_len (Z.min 1 (2 * m * C)) (2 * m * C) 2) with (m * C) by (unfold range_len; destruct (_ <=? _) eqn:E; nia).
    replace (range_len (Z.min 1 (2 * m)) (2 * m) 2) with m by (unfold range_len; destruct (_ <=? _) eqn:E; lia).
    apply (Sl_chmap (2*m) m _ _ _ u us Hu); [lia | reflexivity |]. intros t Ht. split; [lia | ring].
Qed.
Lemma SFB1D_fwd_sl L g0 g1 mode m x xs y ys : Sl m x xs -> Sl m y ys ->
  R2 (Sl m) (SFB1D_fwd Op x y L g0 g1 mode) (SFB1D_fwd Op xs ys L g0 g1 mode).
Proof. intros. unfold SFB1D_fwd. apply sfb1d_sl; [reflexivity | assumption | assumption]. Qed.

Lemma band4_sl bb m y ys : 0 <= bb < 4 -> Sl (4*m) y ys -> Sl m (band4 bb y) (band4 bb ys).
Proof.
  intros Hb H. unfold band4. pose proof H as H'. sh H'. rewrite SCx, SC.
  replace (4 * m * C / 4) with (m * C) by (replace (4*m*C) with (m*C*4) by ring; rewrite Z.div_mul; lia).
  replace (4 * m / 4) with m by lia.
  apply (Sl_chmap (4*m) m _ _ _ y ys H); [lia | reflexivity |]. intros t Ht. split; [lia | ring].
Qed.
Lemma highs4_sl m y ys : Sl (4*m) y ys -> Sl (3*m) (highs4 y) (highs4 ys).
Proof.
  intros H. unfold highs4. pose proof H as H'. sh H'. rewrite SCx, SC.
  replace (4 * m * C / 4) with (m * C) by (replace (4*m*C) with (m*C*4) by ring; rewrite Z.div_mul; lia).
  replace (4 * m / 4) with m by lia.
  apply (Sl_chmap (4*m) (3*m) _ _ _ y ys H); [lia | ring |]. intros t Ht.
  assert (E: (3*m*c + t) / 3 = m*c + t/3) by (replace (3*m*c + t) with ((m*c)*3 + t) by ring; apply Z.div_add_l; lia).
  assert (E': (3*m*c + t) mod 3 = t mod 3) by (replace (3*m*c + t) with (t + (m*c)*3) by ring; apply Z.mod_add; lia).
  rewrite E, E'. split; [lia | ring].
Qed.
Lemma unbind3_sl bb m y ys : 0 <= bb < 3 -> Sl (3*m) y ys -> Sl m (unbind3 bb y) (unbind3 bb ys).
Proof.
  intros Hb H. unfold unbind3. pose proof H as H'. sh H'. rewrite SCx, SC.
  replace (3 * m * C / 3) with (m * C) by (replace (3*m*C) with (m*C*3) by ring; rewrite Z.div_mul; lia).
  replace (3 * m / 3) with m by lia.
  apply (Sl_chmap (3*m) m _ _ _ y ys H); [lia | reflexivity |]. intros t Ht. split; [lia | ring].
Qed.

Lemma AFB2D_fwd_sl Lr h0r h1r Lc h0c h1c mode m x xs : Sl m x xs ->
  R2 (P2 (Sl m) (Sl (3*m))) (AFB2D_fwd Op x Lr h0r h1r Lc h0c h1c mode) (AFB2D_fwd Op xs Lr h0r h1r Lc h0c h1c mode).
Proof.
  intros H. unfold AFB2D_fwd. eapply R2_bind. { apply afb1d_sl; [reflexivity | exact H]. } intros u us Hu.
  eapply R2_bind. { apply afb1d_sl; [reflexivity | exact Hu]. } intros v vs Hv.
  replace (2 * (2 * m)) with (4 * m) in Hv by ring.
  apply R2_ok. split; cbn [fst snd]; apply Sl_force; [apply band4_sl; [lia | exact Hv] | apply highs4_sl; exact Hv].
Qed.
Lemma SFB2D_fwd_sl Lr g0r g1r Lc g0c g1c mode m x xs y ys : Sl m x xs -> Sl (3*m) y ys ->
  R2 (Sl m) (SFB2D_fwd Op x y Lr g0r g1r Lc g0c g1c mode) (SFB2D_fwd Op xs ys Lr g0r g1r Lc g0c g1c mode).
Proof.
  intros Hx Hy. unfold SFB2D_fwd. cbv zeta.
  eapply R2_bind. { apply sfb1d_sl; [reflexivity | exact Hx | apply unbind3_sl; [lia | exact Hy]]. } intros u us Hu.
  eapply R2_bind. { apply sfb1d_sl; [reflexivity | apply unbind3_sl; [lia | exact Hy] | apply unbind3_sl; [lia | exact Hy]]. } intros v vs Hv.
  apply sfb1d_sl; [reflexivity | assumption | assumption].
Qed.

(* ---- the modules: every J ---- *)
Theorem DWT1DForward_sl L h0 h1 mode m (J:nat) : forall x xs, Sl m x xs ->
  R2 (P2 (Sl m) (F2 (Sl m))) (DWT1DForward Op J x L h0 h1 mode) (DWT1DForward Op J xs L h0 h1 mode).
Proof.
  induction J as [|J IH]; intros x xs H; cbn [DWT1DForward].
  - apply R2_ok. split; [exact H | constructor].
  - eapply R2_bind. { apply AFB1D_fwd_sl. exact H. } intros [a1 d1] [a2 d2] (Ha & Hd). cbn [fst snd] in *.
    eapply R2_bind. { apply IH. exact Ha. } intros [l1 r1] [l2 r2] (Hl & Hr). cbn [fst snd] in *.
    apply R2_ok. split; cbn [fst snd]; [exact Hl | constructor; assumption].
Qed.
Theorem DWTForward_sl Lr h0r h1r Lc h0c h1c mode m (J:nat) : forall x xs, Sl m x xs ->
  R2 (P2 (Sl m) (F2 (Sl (3*m)))) (DWTForward Op J x Lr h0r h1r Lc h0c h1c mode) (DWTForward Op J xs Lr h0r h1r Lc h0c h1c mode).
Proof.
  induction J as [|J IH]; intros x xs H; cbn [DWTForward].
  - apply R2_ok. split; [exact H | constructor].
  - eapply R2_bind. { apply AFB2D_fwd_sl. exact H. } intros [a1 d1] [a2 d2] (Ha & Hd). cbn [fst snd] in *.
    eapply R2_bind. { apply IH. exact Ha. } intros [l1 r1] [l2 r2] (Hl & Hr). cbn [fst snd] in *.
    apply R2_ok. split; cbn [fst snd]; [exact Hl | constructor; assumption].
Qed.

Lemma Sl_zeros m k x xs : Sl m x xs -> 0 < k -> Sl (k*m) (t_zeros Op (tN x) (k * tC x) (tH x) (tW x)) (t_zeros Op (tN xs) (k * tC xs) (tH xs) (tW xs)).
Proof. intros H Hk. sh H. unfold t_zeros. unfold Sl. cbn [tN tC tH tW tf]. repeat (split; [nia|]). reflexivity. Qed.

Theorem DWT1DInverse_rev_sl L g0 g1 mode m : forall hs hss, F2 (O2 (Sl m)) hs hss -> forall x xs, Sl m x xs ->
  R2 (Sl m) (DWT1DInverse_rev Op x hs L g0 g1 mode) (DWT1DInverse_rev Op xs hss L g0 g1 mode).
Proof.
  intros hs hss Hh. induction Hh as [|o1 o2 l1 l2 Ho Hl IH]; intros x xs H; cbn [DWT1DInverse_rev].
  - apply R2_ok. exact H.
  - assert (Hx1: Sl m (match o1 with Some t => t | None => t_zeros Op (tN x) (tC x) (tH x) (tW x) end)
                      (match o2 with Some t => t | None => t_zeros Op (tN xs) (tC xs) (tH xs) (tW xs) end)).
    { destruct Ho as [|u1 u2 Hu]; [|exact Hu]. pose proof (Sl_zeros m 1 x xs H ltac:(lia)) as Hz.
      replace (1 * m) with m in Hz by ring. replace (1 * tC x) with (tC x) in Hz by ring. replace (1 * tC xs) with (tC xs) in Hz by ring. exact Hz. }
    revert Hx1. generalize (match o1 with Some t => t | None => t_zeros Op (tN x) (tC x) (tH x) (tW x) end)
                           (match o2 with Some t => t | None => t_zeros Op (tN xs) (tC xs) (tH xs) (tW xs) end). intros x1 x1s Hx1.
    cbv zeta. pose proof H as H'. sh H'. pose proof Hx1 as Hx1'. sh Hx1'. rewrite SW, SW0.
    eapply R2_bind. { apply SFB1D_fwd_sl; [destruct (_ <? _); [apply Sl_pyslice|]; exact H | exact Hx1]. }
    intros y ys Hy. apply IH. exact Hy.
Qed.
Theorem DWTInverse_rev_sl Lr g0r g1r Lc g0c g1c mode m : forall hs hss, F2 (O2 (Sl (3*m))) hs hss -> forall x xs, Sl m x xs ->
  R2 (Sl m) (DWTInverse_rev Op x hs Lr g0r g1r Lc g0c g1c mode) (DWTInverse_rev Op xs hss Lr g0r g1r Lc g0c g1c mode).
Proof.
  intros hs hss Hh. induction Hh as [|o1 o2 l1 l2 Ho Hl IH]; intros x xs H; cbn [DWTInverse_rev].
  - apply R2_ok. exact H.
  - assert (Hx1: Sl (3*m) (match o1 with Some t => t | None => t_zeros Op (tN x) (3 * tC x) (tH x) (tW x) end)
                      (match o2 with Some t => t | None => t_zeros Op (tN xs) (3 * tC xs) (tH xs) (tW xs) end)).
    { destruct Ho as [|u1 u2 Hu]; [|exact Hu]. apply Sl_zeros; [exact H | lia]. }
    revert Hx1. generalize (match o1 with Some t => t | None => t_zeros Op (tN x) (3 * tC x) (tH x) (tW x) end)
                           (match o2 with Some t => t | None => t_zeros Op (tN xs) (3 * tC xs) (tH xs) (tW xs) end). intros x1 x1s Hx1.
    cbv zeta. pose proof H as H'. sh H'. pose proof Hx1 as Hx1'. sh Hx1'. rewrite SH, SH0, SW0.
    assert (Ha: Sl m (if tH x1 <? tH x then t_pyslice 2 0 (-1) x else x) (if tH x1 <? tH x then t_pyslice 2 0 (-1) xs else xs))
      by (destruct (_ <? _); [apply Sl_pyslice|]; exact H).
    revert Ha. generalize (if tH x1 <? tH x then t_pyslice 2 0 (-1) x else x) (if tH x1 <? tH x then t_pyslice 2 0 (-1) xs else xs). intros a1 a1s Ha.
    pose proof Ha as Ha'. sh Ha'. rewrite SW1.
    eapply R2_bind. { apply SFB2D_fwd_sl; [destruct (_ <? _); [apply Sl_pyslice|]; exact Ha | exact Hx1]. }
    intros y ys Hy. apply IH. exact Hy.
Qed.
Theorem DWT1DInverse_sl L g0 g1 mode m hs hss x xs : F2 (O2 (Sl m)) hs hss -> Sl m x xs ->
  R2 (Sl m) (DWT1DInverse Op x hs L g0 g1 mode) (DWT1DInverse Op xs hss L g0 g1 mode).
Proof. intros Hh H. unfold DWT1DInverse. apply DWT1DInverse_rev_sl; [apply F2_rev; exact Hh | exact H]. Qed.
Theorem DWTInverse_sl Lr g0r g1r Lc g0c g1c mode m hs hss x xs : F2 (O2 (Sl (3*m))) hs hss -> Sl m x xs ->
  R2 (Sl m) (DWTInverse Op x hs Lr g0r g1r Lc g0c g1c mode) (DWTInverse Op xs hss Lr g0r g1r Lc g0c g1c mode).
Proof. intros Hh H. unfold DWTInverse. apply DWTInverse_rev_sl; [apply F2_rev; exact Hh | exact H]. Qed.

(* ---- the stationary transform ---- *)
Lemma afb1d_atrous_sl L h0 h1 mode d dil m x xs : Sl m x xs ->
  R2 (Sl (2*m)) (afb1d_atrous Op x L h0 h1 mode d dil) (afb1d_atrous Op xs L h0 h1 mode d dil).
Proof.
  intros H. unfold afb1d_atrous. cbv zeta.
  eapply R2_bind. { apply R2_mypad. exact H. } intros u us Hu.
  assert (EC: tC (force Op u) = tC x /\ tC (force Op us) = tC xs) by (pose proof (Sl_force _ _ _ Hu) as Hy'; sh Hy'; pose proof H as H'; sh H'; lia).
  destruct EC as (EC1 & EC2). rewrite <- EC1, <- EC2.
  destruct (d =? 2); (eapply R2_bind; [apply conv_afb; apply Sl_force; exact Hu|]); intros v vs Hv; apply R2_ok; apply Sl_force; exact Hv.
Qed.
Lemma afb2d_atrous_sl Lr h0r h1r Lc h0c h1c mode dil m x xs : Sl m x xs ->
  R2 (Sl (4*m)) (afb2d_atrous Op x Lr h0r h1r Lc h0c h1c mode dil) (afb2d_atrous Op xs Lr h0r h1r Lc h0c h1c mode dil).
Proof.
  intros H. unfold afb2d_atrous. eapply R2_bind. { apply afb1d_atrous_sl. exact H. } intros u us Hu.
  replace (4 * m) with (2 * (2 * m)) by ring. apply afb1d_atrous_sl. exact Hu.
Qed.
Lemma SWTForward_from_sl Lr h0r h1r Lc h0c h1c mode m (J:nat) : forall dil x xs, Sl m x xs ->
  R2 (F2 (Sl (4*m))) (SWTForward_from Op J dil x Lr h0r h1r Lc h0c h1c mode) (SWTForward_from Op J dil xs Lr h0r h1r Lc h0c h1c mode).
Proof.
  induction J as [|J IH]; intros dil x xs H; cbn [SWTForward_from].
  - apply R2_ok. constructor.
  - eapply R2_bind. { apply afb2d_atrous_sl. exact H. } intros y ys Hy.
    eapply R2_bind. { apply IH. apply Sl_force. apply band4_sl; [lia | exact Hy]. } intros r rs Hr.
    apply R2_ok. constructor; assumption.
Qed.
Theorem SWTForward_sl Lr h0r h1r Lc h0c h1c mode m (J:nat) x xs : Sl m x xs ->
  R2 (F2 (Sl (4*m))) (SWTForward Op J x Lr h0r h1r Lc h0c h1c mode) (SWTForward Op J xs Lr h0r h1r Lc h0c h1c mode).
Proof. intros H. unfold SWTForward. apply SWTForward_from_sl. exact H. Qed.

(* the (n,c) slice of a batch as a tensor of its own, and the relation it satisfies *)
Definition slice1 (x:ten) : ten := mkT 1 1 (tH x) (tW x) (fun _ _ i j => tf x n c i j).
Lemma Sl_slice1 x : tN x = N0 -> tC x = C -> Sl 1 x (slice1 x).
Proof. intros HN HC. unfold Sl, slice1. cbn [tN tC tH tW tf]. repeat (split; [lia|]). intros t i j Ht. f_equal. lia. Qed.
End S.
