(* The depthwise convolutions with a 1-D kernel laid along one axis, reduced to 1-D sums
   ("grouped_conv_interleave": out channel 2c+t is filter t applied to input channel c). *)
From PW Require Import Base.Ops Base.Sum Base.Sig Base.Tensor Model.Dwt.

Section S.
Context {R:Type} (Op:Ops R) (Rth: RingOk Op).
Add Ring Rr : Rth.
Notation ten := (@ten R).
Infix "+r" := (radd Op) (at level 50, left associativity).
Infix "*r" := (rmul Op) (at level 40, left associativity).
Notation sumZ := (sumZ Op).
Notation zx := (zx Op).

(* value of a tensor along a line, zero outside the extent *)
Definition rowz (x:ten) (n c i:Z) : Z -> R := fun q => if inr (tH x) i && inr (tW x) q then tf x n c i q else r0 Op.
Definition colz (x:ten) (n c j:Z) : Z -> R := fun q => if inr (tH x) q && inr (tW x) j then tf x n c q j else r0 Op.

Lemma w_line3 OC L (hsel:Z->Z->R) : w_line 3 OC L hsel = mkW OC 1 L (fun oc _ b => hsel oc b).
Proof. reflexivity. Qed.
Lemma w_line2 OC L (hsel:Z->Z->R) : w_line 2 OC L hsel = mkW OC L 1 (fun oc a _ => hsel oc a).
Proof. reflexivity. Qed.

Lemma conv_row x (OC L:Z) (hsel:Z->Z->R) sw pw dw n oc i j :
  tf (conv2d_dw Op x (w_line 3 OC L hsel) 1 sw 0 pw 1 dw) n oc i j
  = sumZ 0 L (fun b => hsel oc b *r rowz x n (oc / (OC / tC x)) i (j*sw + b*dw - pw)).
Proof.
  unfold conv2d_dw; rewrite ?w_line3, ?w_line2. cbn [tf wKH wKW wf wO tN tC tH tW t_zpad].
  replace 1 with (0+1) at 1 by lia. rewrite sumZ_one.
  rewrite (Rth.(Radd_comm)), (Rth.(Radd_0_l)).
  apply sumZ_ext. intros b Hb. unfold rowz. f_equal.
  replace (i*1 + 0*1 - 0) with i by lia. reflexivity.
Qed.
Lemma conv_col x (OC L:Z) (hsel:Z->Z->R) sh ph dh n oc i j :
  tf (conv2d_dw Op x (w_line 2 OC L hsel) sh 1 ph 0 dh 1) n oc i j
  = sumZ 0 L (fun a => hsel oc a *r colz x n (oc / (OC / tC x)) j (i*sh + a*dh - ph)).
Proof.
  unfold conv2d_dw; rewrite ?w_line3, ?w_line2. cbn [tf wKH wKW wf wO tN tC tH tW t_zpad].
  apply sumZ_ext. intros a Ha.
  replace 1 with (0+1) at 1 by lia. rewrite sumZ_one.
  rewrite (Rth.(Radd_comm)), (Rth.(Radd_0_l)).
  unfold colz. f_equal. replace (j*1 + 0*1 - 0) with j by lia. reflexivity.
Qed.

Lemma convT_row x (L:Z) (hsel:Z->Z->R) sw pw n c i j : 0 <= i < tH x ->
  tf (convT2d_dw Op x (w_line 3 (tC x) L hsel) 1 sw 0 pw) n c i j
  = sumZ 0 (tW x) (fun l => tf x n c i l *r zx L (hsel c) (j + pw - l*sw)).
Proof.
  intros Hi. unfold convT2d_dw; rewrite ?w_line3, ?w_line2. cbn [tf wKH wKW wf wO tN tC tH tW].
  rewrite (sumZ_single Op Rth 0 (tH x) i) by (try lia; intros k Hk Hne; apply sumZ_zero; auto; intros l Hl;
     unfold inr; replace ((0 <=? i + 0 - k*1) && (i + 0 - k*1 <? 1)) with false by lia; reflexivity).
  apply sumZ_ext. intros l Hl. unfold inr at 1. replace ((0 <=? i + 0 - i*1) && (i + 0 - i*1 <? 1)) with true by lia.
  cbn [andb]. unfold zx. destruct (inr L (j + pw - l*sw)); ring.
Qed.
Lemma convT_col x (L:Z) (hsel:Z->Z->R) sh ph n c i j : 0 <= j < tW x ->
  tf (convT2d_dw Op x (w_line 2 (tC x) L hsel) sh 1 ph 0) n c i j
  = sumZ 0 (tH x) (fun k => tf x n c k j *r zx L (hsel c) (i + ph - k*sh)).
Proof.
  intros Hj. unfold convT2d_dw; rewrite ?w_line3, ?w_line2. cbn [tf wKH wKW wf wO tN tC tH tW].
  apply sumZ_ext. intros k Hk.
  rewrite (sumZ_single Op Rth 0 (tW x) j) by (try lia; intros l Hl Hne;
     unfold inr; replace ((0 <=? j + 0 - l*1) && (j + 0 - l*1 <? 1)) with false by lia; rewrite andb_false_r; reflexivity).
  unfold inr at 2. replace ((0 <=? j + 0 - j*1) && (j + 0 - j*1 <? 1)) with true by lia.
  rewrite andb_true_r. unfold zx. destruct (inr L (i + ph - k*sh)); ring.
Qed.
End S.
