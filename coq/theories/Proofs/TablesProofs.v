(* C18: identities of the shipped DTCWT filter tables, decided by kernel computation on the exact dyadic value
   of every float64 entry (Gen/Tables.v is regenerated from the .npz bytes on every run). *)
From Coq Require Import ZArith List Bool String Lia.
From PW Require Import Gen.Tables.
Import ListNotations.
Open Scope Z_scope.

Definition K : Z := 90.                                   (* common scale 2^-K *)
Definition dy := (Z*Z)%type.
Definition fits (d:dy) : bool := (0 <=? snd d + K).
Definition toZ (d:dy) : Z := fst d * 2 ^ (snd d + K).     (* value * 2^K, exact when fits *)
Definition vec (t:list dy) : list Z := map toZ t.
Definition nz (l:list Z) (i:Z) : Z := if i <? 0 then 0 else nth (Z.to_nat i) l 0.
Definition len {A} (l:list A) : Z := Z.of_nat (List.length l).
Definition idx (n:Z) : list Z := map Z.of_nat (seq 0 (Z.to_nat n)).

Fixpoint find (tabs:list (string*string*list dy)) (name var:string) : option (list dy) :=
  match tabs with
  | nil => None
  | (n, v, t) :: r => if (String.eqb n name && String.eqb v var)%bool then Some t else find r name var
  end.
Definition get (name var:string) : list dy := match find tab_all name var with Some t => t | None => nil end.
Definition has (name var:string) : bool := match find tab_all name var with Some (_::_) => true | _ => false end.
Definition names : list string := nodup string_dec (map (fun x => fst (fst x)) tab_all).

(* 0. every entry is representable at the common scale *)
Definition all_fit : bool := forallb (fun x => forallb fits (snd x)) tab_all && forallb (fun x => forallb fits (snd x)) ref_all.

(* 1. equality with the reference package (exact), for every table the reference ships *)
Definition dy_eqb (a b:dy) : bool := (fst a =? fst b) && (snd a =? snd b).
Fixpoint list_eqb (a b:list dy) : bool :=
  match a, b with nil, nil => true | x::a', y::b' => dy_eqb x y && list_eqb a' b' | _, _ => false end.
Definition eq_reference : bool :=
  forallb (fun x => let '(n, v, t) := x in
     match find ref_all n v with Some r => list_eqb t r | None => negb (existsb (fun y => String.eqb (fst (fst y)) n) ref_all) end) tab_all
  && forallb (fun y => let '(n, v, r) := y in match find tab_all n v with Some _ => true | None => false end) ref_all.

(* tolerances, as multiples of 2^-K (single values) or 2^-2K (products) *)
Definition tol1 (bits:Z) : Z := 2 ^ (K - bits).
Definition tol2 (bits:Z) : Z := 2 ^ (2*K - bits).
Definition close (tol a b:Z) : bool := Z.abs (a - b) <=? tol.

(* 2. level-1 (compact) tables: every filter symmetric within 2^-47 *)
Definition level1_vars : list string := ["h0o"; "g0o"; "h1o"; "g1o"; "h2o"; "g2o"]%string.
Definition is_level1 (n:string) : bool := has n "h0o".
Definition symmetric (tol:Z) (l:list Z) : bool := forallb (fun i => close tol (nz l i) (nz l (len l - 1 - i))) (idx (len l)).
Definition level1_symmetric : bool :=
  forallb (fun n => implb (is_level1 n) (forallb (fun v => implb (has n v) (symmetric (tol1 47) (vec (get n v))
                                                   && Z.odd (len (get n v)))) level1_vars)) names.

(* 3. level-1 perfect reconstruction of the undecimated pair: h0*g0 + h1*g1 = delta at the centre, within 2^-44 *)
Definition conv (a b:list Z) (n:Z) : Z := fold_left Z.add (map (fun k => nz a k * nz b (n - k)) (idx (len a))) 0.
Definition level1_pr (n:string) : bool :=
  let h0 := vec (get n "h0o") in let g0 := vec (get n "g0o") in
  let h1 := vec (get n "h1o") in let g1 := vec (get n "g1o") in
  let m := len h0 + len g0 - 1 in
  (len h1 + len g1 - 1 =? m) &&
  forallb (fun i => close (tol2 44) (conv h0 g0 i + conv h1 g1 i) (if i =? m / 2 then 2 ^ (2*K) else 0)) (idx m).
Definition level1_PR : bool := forallb (fun n => implb (is_level1 n) (level1_pr n)) names.

(* 4./5. q-shift tables: tree b is the time-reverse of tree a, synthesis is the time-reverse of analysis (exact) *)
Definition is_qshift (n:string) : bool := String.prefix "qshift" n.
Definition rev_eq (a b:list dy) : bool := list_eqb a (List.rev b).
Definition qshift_revpair : bool :=
  forallb (fun n => implb (is_qshift n) (forallb (fun p => implb (has n (fst p)) (rev_eq (get n (fst p)) (get n (snd p))))
     [("h0a","h0b"); ("h1a","h1b"); ("g0a","g0b"); ("g1a","g1b"); ("h2a","h2b"); ("g2a","g2b")]%string)) names.
Definition qshift_syn_rev_ana : bool :=
  forallb (fun n => implb (is_qshift n) (forallb (fun p => implb (has n (fst p)) (rev_eq (get n (snd p)) (get n (fst p))))
     [("h0a","g0a"); ("h1a","g1a"); ("h0b","g0b"); ("h1b","g1b"); ("h2a","g2a"); ("h2b","g2b")]%string)) names.

(* 6. orthonormality of each tree's lowpass/highpass pair: sum_k a[k] b[k+2s] = [a=b][s=0], within 2^-bits *)
Definition acorr (a b:list Z) (s:Z) : Z := fold_left Z.add (map (fun k => nz a k * nz b (k + 2*s)) (idx (len a))) 0.
Definition shifts (L:Z) : list Z := map (fun i => i - L/2) (idx (L + 1)).
Definition ortho_pair (bits:Z) (h0 h1:list Z) : bool :=
  Z.even (len h0) && (len h1 =? len h0) &&
  forallb (fun s => close (tol2 bits) (acorr h0 h0 s) (if s =? 0 then 2 ^ (2*K) else 0)
                 && close (tol2 bits) (acorr h1 h1 s) (if s =? 0 then 2 ^ (2*K) else 0)
                 && close (tol2 bits) (acorr h0 h1 s) 0) (shifts (len h0)).
Definition ortho_bits (n:string) : Z := if String.eqb n "qshift_32" then 28 else 44.
Definition qshift_orthonormal : bool :=
  forallb (fun n => implb (is_qshift n)
     (ortho_pair (ortho_bits n) (vec (get n "h0a")) (vec (get n "h1a")) && ortho_pair (ortho_bits n) (vec (get n "h0b")) (vec (get n "h1b")))) names.

(* 7. the sign facts the reference implementation branches on: sum(h0a*h0b) > 0, sum(h1a*h1b) < 0, sum(h2a*h2b) < 0 *)
Definition dotl (a b:list Z) : Z := fold_left Z.add (map (fun k => nz a k * nz b k) (idx (len a))) 0.
Definition qshift_signs : bool :=
  forallb (fun n => implb (is_qshift n)
     ((0 <? dotl (vec (get n "h0a")) (vec (get n "h0b"))) && (dotl (vec (get n "h1a")) (vec (get n "h1b")) <? 0)
      && (0 <? dotl (vec (get n "g0a")) (vec (get n "g0b"))) && (dotl (vec (get n "g1a")) (vec (get n "g1b")) <? 0)
      && implb (has n "h2a") ((dotl (vec (get n "h2a")) (vec (get n "h2b")) <? 0) && (dotl (vec (get n "g2a")) (vec (get n "g2b")) <? 0)))) names.

(* the names the loaders accept are present with the variables they read *)
Definition loader_names_present : bool :=
  forallb (fun n => has n "h0o" && has n "g0o" && has n "h1o" && has n "g1o") ["antonini"; "legall"; "near_sym_a"; "near_sym_b"; "near_sym_b_bp"]%string
  && has "near_sym_b_bp" "h2o" && has "near_sym_b_bp" "g2o"
  && forallb (fun n => forallb (has n) ["h0a";"h0b";"g0a";"g0b";"h1a";"h1b";"g1a";"g1b"]%string)
       ["qshift_06"; "qshift_a"; "qshift_b"; "qshift_c"; "qshift_d"; "qshift_b_bp"]%string
  && forallb (has "qshift_b_bp") ["h2a";"h2b";"g2a";"g2b"]%string.

Lemma tables_ok :
  all_fit = true /\ eq_reference = true /\ level1_symmetric = true /\ level1_PR = true /\
  qshift_revpair = true /\ qshift_syn_rev_ana = true /\ qshift_orthonormal = true /\ qshift_signs = true /\
  loader_names_present = true.
Proof. vm_compute. repeat split. Qed.

(* ---- loading: the process-wide cache as a state machine ---- *)
Definition cache := list (string * list (string * list dy)).
Fixpoint cfind (c:cache) (n:string) := match c with nil => None | (k,v)::r => if String.eqb k n then Some v else cfind r n end.
(* _load_from_file: read the file only when the name is absent; never overwrite *)
Definition load (file:string -> list (string * list dy)) (c:cache) (n:string) : cache * list (string * list dy) :=
  match cfind c n with Some v => (c, v) | None => let v := file n in ((n, v) :: c, v) end.
Lemma load_twice file c n : snd (load file (fst (load file c n)) n) = snd (load file c n).
Proof. unfold load. destruct (cfind c n) eqn:E; cbn [fst snd]. rewrite E. reflexivity.
  cbn [cfind]. rewrite String.eqb_refl. reflexivity. Qed.
Lemma load_preserves file c n m v : cfind c m = Some v -> cfind (fst (load file c n)) m = Some v.
Proof. unfold load. destruct (cfind c n) eqn:E; cbn [fst]; auto. intros H. cbn [cfind].
  destruct (String.eqb n m) eqn:E2; auto. apply String.eqb_eq in E2. subst. congruence. Qed.
