(* C01, every J: the level loop of DWT1DForward / DWTForward returns PyWavelets' wavedec / wavedec2: the detail list is
   finest level first, each level is the one-level transform of the previous approximation. *)
From PW Require Import Base.Ops Base.Sum Base.Sig Base.Tensor Model.Dwt Spec.Line Proofs.ConvLine Proofs.DwtNF Proofs.LineTheory
  Proofs.SfbNF Proofs.DwtNFcol Proofs.C01Proofs Proofs.C01Proofs2D Proofs.C02Proofs Proofs.C02ProofsPer Proofs.C02Proofs2D Proofs.Per2D.
Ltac Zify.zify_post_hook ::= Z.to_euclidean_division_equations.

Section S.
Context {R:Type} (Op:Ops R) (Rth: RingOk Op).
Add Ring Rr : Rth.
Notation ten := (@ten R).

(* one 1-D level: (a, h) are the approximation and detail of x, per row *)
Definition level1d (mode L:Z) (d0 d1:Z->R) (x a h:ten) : Prop :=
  let n := (tW x + L - 1)/2 in
  tN a = tN x /\ tC a = tC x /\ tH a = tH x /\ tW a = n /\ same_shape a h = true /\
  forall nn c i k, 0 <= c < tC x -> 0 <= i < tH x -> 0 <= k < n ->
    tf a nn c i k = pywt_dwt Op mode L (tW x) d0 (fun q => tf x nn c i q) k /\
    tf h nn c i k = pywt_dwt Op mode L (tW x) d1 (fun q => tf x nn c i q) k.
Definition level1d_per (L:Z) (d0 d1:Z->R) (x a h:ten) : Prop :=
  let n := even_len (tW x) / 2 in
  tN a = tN x /\ tC a = tC x /\ tH a = tH x /\ tW a = n /\ same_shape a h = true /\
  forall nn c i k, 0 <= c < tC x -> 0 <= i < tH x -> 0 <= k < n ->
    tf a nn c i k = pywt_dwt_per Op L (tW x) d0 (fun q => tf x nn c i q) k /\
    tf h nn c i k = pywt_dwt_per Op L (tW x) d1 (fun q => tf x nn c i q) k.

(* wavedec: yl = last approximation, yh = details, FINEST FIRST *)
Fixpoint wavedec_rel (lev:ten->ten->ten->Prop) (J:nat) (x yl:ten) (yh:list ten) : Prop :=
  match J, yh with
  | O, nil => yl = x
  | S J', h :: rest => exists a, lev x a h /\ wavedec_rel lev J' a yl rest
  | _, _ => False
  end.

Lemma afb1d_level x L d0 d1 mode : 2 <= L -> 1 <= tW x -> 1 <= tH x -> 0 < tC x ->
  level_ok mode L (tW x) -> (mode = M_REFLECT -> 2 <= tW x) ->
  is_ok (AFB1D_fwd Op x L (rev_filt L d0) (rev_filt L d1) mode) (fun r => level1d mode L d0 d1 x (fst r) (snd r)).
Proof.
  intros HL HW HH HC Hm Hr2. unfold AFB1D_fwd.
  pose proof (afb1d_row_pywt Op Rth x L d0 d1 mode HL HW HH HC Hm Hr2) as Ha.
  destruct (afb1d Op x L _ _ mode 3) as [lohi|]; [|contradiction]. cbn [is_ok bind fst snd] in *.
  destruct Ha as (A1 & A2 & A3 & A4 & A5).
  assert (Hrl0: range_len 0 (tC lohi) 2 = tC x) by (unfold range_len; rewrite A2; replace (2 * tC x <=? 0) with false by lia; lia).
  assert (Hrl1: range_len (Z.min 1 (tC lohi)) (tC lohi) 2 = tC x).
  { unfold range_len. rewrite A2. replace (Z.min 1 (2 * tC x)) with 1 by lia. replace (2 * tC x <=? 1) with false by lia. lia. }
  rewrite Hrl0, Hrl1. unfold level1d. cbn [force t_chmap tN tC tH tW]. unfold same_shape. cbn [force t_chmap tN tC tH tW].
  rewrite !Z.eqb_refl. repeat apply conj; try lia; try reflexivity.
  intros nn c i k Hc Hi Hk. rewrite !force_eq. unfold t_chmap. cbn [tf].
  pose proof (A5 nn c 0 i k ltac:(lia) ltac:(lia) ltac:(lia)) as H0.
  pose proof (A5 nn c 1 i k ltac:(lia) ltac:(lia) ltac:(lia)) as H1.
  replace (2*c + 0) with (2*c) in H0 by lia. rewrite H0, H1.
  unfold dsel. change (0 mod 2 =? 0) with true. change (1 mod 2 =? 0) with false. split; reflexivity.
Qed.
Lemma afb1d_level_per x L d0 d1 : 2 <= L -> L mod 2 = 0 -> L <= even_len (tW x) -> 1 <= tW x -> 1 <= tH x -> 0 < tC x ->
  is_ok (AFB1D_fwd Op x L (rev_filt L d0) (rev_filt L d1) M_PER) (fun r => level1d_per L d0 d1 x (fst r) (snd r)).
Proof.
  intros HL HLe HLN HW HH HC. unfold AFB1D_fwd.
  pose proof (afb1d_row_pywt_per Op Rth x L d0 d1 HL HLe HLN HW HH HC) as Ha.
  destruct (afb1d Op x L _ _ M_PER 3) as [lohi|]; [|contradiction]. cbn [is_ok bind fst snd] in *.
  destruct Ha as (A1 & A2 & A3 & A4 & A5).
  assert (Hrl0: range_len 0 (tC lohi) 2 = tC x) by (unfold range_len; rewrite A2; replace (2 * tC x <=? 0) with false by lia; lia).
  assert (Hrl1: range_len (Z.min 1 (tC lohi)) (tC lohi) 2 = tC x).
  { unfold range_len. rewrite A2. replace (Z.min 1 (2 * tC x)) with 1 by lia. replace (2 * tC x <=? 1) with false by lia. lia. }
  rewrite Hrl0, Hrl1. unfold level1d_per. cbn [force t_chmap tN tC tH tW]. unfold same_shape. cbn [force t_chmap tN tC tH tW].
  rewrite !Z.eqb_refl. repeat apply conj; try lia; try reflexivity.
  intros nn c i k Hc Hi Hk. rewrite !force_eq. unfold t_chmap. cbn [tf].
  pose proof (A5 nn c 0 i k ltac:(lia) ltac:(lia) ltac:(lia)) as H0.
  pose proof (A5 nn c 1 i k ltac:(lia) ltac:(lia) ltac:(lia)) as H1.
  replace (2*c + 0) with (2*c) in H0 by lia. rewrite H0, H1.
  unfold dsel. change (0 mod 2 =? 0) with true. change (1 mod 2 =? 0) with false. split; reflexivity.
Qed.

Theorem wavedec_1d (J:nat) : forall (x:ten) L d0 d1 mode,
  2 <= L -> 1 <= tH x -> 0 < tC x -> 1 <= tW x -> levels_ok J mode L (tW x) ->
  is_ok (DWT1DForward Op J x L (rev_filt L d0) (rev_filt L d1) mode)
    (fun r => wavedec_rel (level1d mode L d0 d1) J x (fst r) (snd r) /\ length (snd r) = J).
Proof.
  induction J as [|J IH]; intros x L d0 d1 mode HL HH HC HW Hlv.
  - cbn [DWT1DForward is_ok fst snd wavedec_rel length]. split; reflexivity.
  - destruct Hlv as (HW1 & Hm & Hr2 & Hrest). cbn [DWT1DForward].
    pose proof (afb1d_level x L d0 d1 mode HL HW HH HC Hm Hr2) as Ha.
    destruct (AFB1D_fwd Op x L _ _ mode) as [[a h]|]; [|contradiction]. cbn [is_ok bind fst snd] in *.
    pose proof Ha as (A1 & A2 & A3 & A4 & A5 & A6).
    specialize (IH a L d0 d1 mode HL ltac:(lia) ltac:(lia) ltac:(lia) ltac:(rewrite A4; exact Hrest)).
    destruct (DWT1DForward Op J a L _ _ mode) as [[yl yh]|]; [|contradiction]. cbn [is_ok bind fst snd] in *.
    destruct IH as (I1 & I2). split.
    + cbn [wavedec_rel]. exists a. split; assumption.
    + cbn [length]. rewrite I2. reflexivity.
Qed.
Theorem wavedec_1d_per (J:nat) : forall (x:ten) L d0 d1,
  2 <= L -> L mod 2 = 0 -> 1 <= tH x -> 0 < tC x -> 1 <= tW x -> levels_ok_per J L (tW x) ->
  is_ok (DWT1DForward Op J x L (rev_filt L d0) (rev_filt L d1) M_PER)
    (fun r => wavedec_rel (level1d_per L d0 d1) J x (fst r) (snd r) /\ length (snd r) = J).
Proof.
  induction J as [|J IH]; intros x L d0 d1 HL HLe HH HC HW Hlv.
  - cbn [DWT1DForward is_ok fst snd wavedec_rel length]. split; reflexivity.
  - destruct Hlv as (HW1 & HLN & Hrest). cbn [DWT1DForward].
    destruct (even_len_props (tW x) HW) as (E1 & E2 & E3).
    pose proof (afb1d_level_per x L d0 d1 HL HLe HLN HW HH HC) as Ha.
    destruct (AFB1D_fwd Op x L _ _ M_PER) as [[a h]|]; [|contradiction]. cbn [is_ok bind fst snd] in *.
    pose proof Ha as (A1 & A2 & A3 & A4 & A5 & A6).
    specialize (IH a L d0 d1 HL HLe ltac:(lia) ltac:(lia) ltac:(lia) ltac:(rewrite A4; exact Hrest)).
    destruct (DWT1DForward Op J a L _ _ M_PER) as [[yl yh]|]; [|contradiction]. cbn [is_ok bind fst snd] in *.
    destruct IH as (I1 & I2). split.
    + cbn [wavedec_rel]. exists a. split; assumption.
    + cbn [length]. rewrite I2. reflexivity.
Qed.

(* 2-D levels *)
Definition level2d (mode Lr:Z) (dr0 dr1:Z->R) (Lc:Z) (dc0 dc1:Z->R) (x low highs:ten) : Prop :=
  let H' := (tH x + Lc - 1)/2 in let W' := (tW x + Lr - 1)/2 in
  tN low = tN x /\ tC low = tC x /\ tH low = H' /\ tW low = W' /\
  tN highs = tN x /\ tC highs = 3 * tC x /\ tH highs = H' /\ tW highs = W' /\
  agrees2d Op x low highs mode Lr dr0 dr1 Lc dc0 dc1.
Definition level2d_per (Lr:Z) (dr0 dr1:Z->R) (Lc:Z) (dc0 dc1:Z->R) (x low highs:ten) : Prop :=
  let H' := even_len (tH x) / 2 in let W' := even_len (tW x) / 2 in
  tN low = tN x /\ tC low = tC x /\ tH low = H' /\ tW low = W' /\
  tN highs = tN x /\ tC highs = 3 * tC x /\ tH highs = H' /\ tW highs = W' /\
  agrees2d_per Op x low highs Lr dr0 dr1 Lc dc0 dc1.

Theorem wavedec_2d (J:nat) : forall (x:ten) Lr dr0 dr1 Lc dc0 dc1 mode,
  2 <= Lr -> 2 <= Lc -> 0 < tC x -> 1 <= tW x -> 1 <= tH x -> levels_ok2 J mode Lr Lc (tH x) (tW x) ->
  is_ok (DWTForward Op J x Lr (rev_filt Lr dr0) (rev_filt Lr dr1) Lc (rev_filt Lc dc0) (rev_filt Lc dc1) mode)
    (fun r => wavedec_rel (level2d mode Lr dr0 dr1 Lc dc0 dc1) J x (fst r) (snd r) /\ length (snd r) = J).
Proof.
  induction J as [|J IH]; intros x Lr dr0 dr1 Lc dc0 dc1 mode HLr HLc HC HW HH Hlv.
  - cbn [DWTForward is_ok fst snd wavedec_rel length]. split; reflexivity.
  - destruct Hlv as (HW1 & HH1 & (Hm & Hkr & Hkc & Hr2) & Hrest). cbn [DWTForward].
    pose proof (AFB2D_pywt Op Rth x Lr dr0 dr1 Lc dc0 dc1 mode HLr HLc HW HH HC Hkr Hkc Hr2) as Ha.
    destruct (AFB2D_fwd Op x Lr _ _ Lc _ _ mode) as [[low highs]|]; [|contradiction]. cbn [is_ok bind] in *.
    destruct Ha as (A1 & A2 & A3 & A4 & B1 & B2 & B3 & B4 & Hv).
    specialize (IH low Lr dr0 dr1 Lc dc0 dc1 mode HLr HLc ltac:(lia) ltac:(lia) ltac:(lia) ltac:(rewrite A3, A4; exact Hrest)).
    destruct (DWTForward Op J low Lr _ _ Lc _ _ mode) as [[yl yh]|]; [|contradiction]. cbn [is_ok bind fst snd] in *.
    destruct IH as (I1 & I2). split.
    + cbn [wavedec_rel]. exists low. split; [|exact I1]. unfold level2d. repeat apply conj; try assumption.
    + cbn [length]. rewrite I2. reflexivity.
Qed.
Theorem wavedec_2d_per (J:nat) : forall (x:ten) Lr dr0 dr1 Lc dc0 dc1,
  2 <= Lr -> Lr mod 2 = 0 -> 2 <= Lc -> Lc mod 2 = 0 -> 0 < tC x -> 1 <= tW x -> 1 <= tH x -> levels_ok2_per J Lr Lc (tH x) (tW x) ->
  is_ok (DWTForward Op J x Lr (rev_filt Lr dr0) (rev_filt Lr dr1) Lc (rev_filt Lc dc0) (rev_filt Lc dc1) M_PER)
    (fun r => wavedec_rel (level2d_per Lr dr0 dr1 Lc dc0 dc1) J x (fst r) (snd r) /\ length (snd r) = J).
Proof.
  induction J as [|J IH]; intros x Lr dr0 dr1 Lc dc0 dc1 HLr HLre HLc HLce HC HW HH Hlv.
  - cbn [DWTForward is_ok fst snd wavedec_rel length]. split; reflexivity.
  - destruct Hlv as (HW1 & HH1 & HLrN & HLcN & Hrest). cbn [DWTForward].
    destruct (even_len_props (tW x) HW) as (EW1 & EW2 & EW3). destruct (even_len_props (tH x) HH) as (EH1 & EH2 & EH3).
    pose proof (AFB2D_pywt_per Op Rth x Lr dr0 dr1 Lc dc0 dc1 HLr HLre HLrN HLc HLce HLcN HW HH HC) as Ha.
    destruct (AFB2D_fwd Op x Lr _ _ Lc _ _ M_PER) as [[low highs]|]; [|contradiction]. cbn [is_ok bind] in *.
    destruct Ha as (A1 & A2 & A3 & A4 & B1 & B2 & B3 & B4 & Hv).
    specialize (IH low Lr dr0 dr1 Lc dc0 dc1 HLr HLre HLc HLce ltac:(lia) ltac:(lia) ltac:(lia) ltac:(rewrite A3, A4; exact Hrest)).
    destruct (DWTForward Op J low Lr _ _ Lc _ _ M_PER) as [[yl yh]|]; [|contradiction]. cbn [is_ok bind fst snd] in *.
    destruct IH as (I1 & I2). split.
    + cbn [wavedec_rel]. exists low. split; [|exact I1]. unfold level2d_per. repeat apply conj; try assumption.
    + cbn [length]. rewrite I2. reflexivity.
Qed.
End S.
