(* Periodization in two dimensions on the tensor-level model: AFB2D = PyWavelets' dwt2 (mode periodization) axis by axis,
   SFB2D = circular idwt2 for any four bands, and perfect reconstruction for one level and every J.
   Guard: filter length <= even length of the axis at every level (below it: known finding KF-PER-SHORT). *)
From PW Require Import Base.Ops Base.Sum Base.Sig Base.Tensor Model.Dwt Spec.Line Proofs.ConvLine Proofs.DwtNF Proofs.LineTheory
  Proofs.SfbNF Proofs.DwtNFcol Proofs.C01Proofs Proofs.C01Proofs2D Proofs.C10Proofs Proofs.C10Proofs2D Proofs.CircPR Proofs.C02Proofs
  Proofs.C02ProofsPer Proofs.C02Proofs2D.
Ltac Zify.zify_post_hook ::= Z.to_euclidean_division_equations.

Section S.
Context {R:Type} (Op:Ops R) (Rth: RingOk Op).
Add Ring Rr : Rth.
Notation ten := (@ten R).
Notation sumZ := (sumZ Op).
Infix "+r" := (radd Op) (at level 50, left associativity).
Infix "*r" := (rmul Op) (at level 40, left associativity).

Theorem afb1d_col_pywt_per x L d0 d1 : 2 <= L -> L mod 2 = 0 -> L <= even_len (tH x) -> 1 <= tW x -> 1 <= tH x -> 0 < tC x ->
  is_ok (afb1d Op x L (rev_filt L d0) (rev_filt L d1) M_PER 2)
    (fun y => tN y = tN x /\ tC y = 2 * tC x /\ tW y = tW x /\ tH y = even_len (tH x) / 2 /\
       forall n c t k j, 0 <= t < 2 -> 0 <= j < tW x -> 0 <= k < even_len (tH x) / 2 ->
         tf y n (2*c + t) k j = pywt_dwt_per Op L (tH x) (dsel d0 d1 t) (fun q => tf x n c q j) k).
Proof.
  intros HL HLe HLN HW HH HC.
  pose proof (afb1d_per_col Op Rth x L (rev_filt L d0) (rev_filt L d1) HL HLe HLN HW HH HC) as H.
  destruct (afb1d Op x L _ _ M_PER 2) as [y|]; [|contradiction]. cbn [is_ok] in *.
  destruct H as (S1 & S2 & S3 & S4 & S5). repeat apply conj; auto.
  intros n c t k j Ht Hj Hk. rewrite S5 by lia. unfold afb_per_col_line.
  replace (hsel (rev_filt L d0) (rev_filt L d1) (2*c+t)) with (rev_filt L (dsel d0 d1 t)).
  2:{ unfold hsel, dsel. replace ((2*c+t) mod 2) with t by lia. rewrite (Z.mod_small t 2) by lia. destruct (t =? 0); reflexivity. }
  rewrite (ana_per_pywt Op Rth). unfold pywt_dwt_per. replace ((2*c+t)/2) with c by lia. reflexivity.
Qed.

Lemma even_ext_ext N (f g:Z->R) i : 1 <= N -> 0 <= i -> (forall q, 0 <= q < N -> f q = g q) -> even_ext N f i = even_ext N g i.
Proof. intros HN Hi H. unfold even_ext. destruct (i <? N) eqn:E; apply H; lia. Qed.
Lemma pywt_dwt_per_ext L N dec (f g:Z->R) k : 1 <= N -> (forall q, 0 <= q < N -> f q = g q) ->
  pywt_dwt_per Op L N dec f k = pywt_dwt_per Op L N dec g k.
Proof.
  intros HN H. unfold pywt_dwt_per. apply sumZ_ext. intros m Hm. f_equal.
  apply even_ext_ext; [lia | | exact H]. apply Z.mod_pos_bound. destruct (even_len_props N HN) as (E & _). exact E.
Qed.

Definition pywt_dwt2_per (Lr:Z) (dr:Z->R) (Lc:Z) (dc:Z->R) (H W:Z) (img:Z->Z->R) (i j:Z) : R :=
  pywt_dwt_per Op Lc H dc (fun p => pywt_dwt_per Op Lr W dr (fun q => img p q) j) i.

Theorem AFB2D_pywt_per (x:ten) Lr dr0 dr1 Lc dc0 dc1 :
  2 <= Lr -> Lr mod 2 = 0 -> Lr <= even_len (tW x) -> 2 <= Lc -> Lc mod 2 = 0 -> Lc <= even_len (tH x) ->
  1 <= tW x -> 1 <= tH x -> 0 < tC x ->
  is_ok (AFB2D_fwd Op x Lr (rev_filt Lr dr0) (rev_filt Lr dr1) Lc (rev_filt Lc dc0) (rev_filt Lc dc1) M_PER)
    (fun r => let '(low, highs) := r in
       let H' := even_len (tH x) / 2 in let W' := even_len (tW x) / 2 in
       tN low = tN x /\ tC low = tC x /\ tH low = H' /\ tW low = W' /\
       tN highs = tN x /\ tC highs = 3 * tC x /\ tH highs = H' /\ tW highs = W' /\
       forall n c i j, 0 <= c < tC x -> 0 <= i < H' -> 0 <= j < W' ->
         tf low n c i j = pywt_dwt2_per Lr dr0 Lc dc0 (tH x) (tW x) (fun p q => tf x n c p q) i j /\
         forall b, 1 <= b < 4 ->
           tf highs n (3*c + (b-1)) i j
           = pywt_dwt2_per Lr (dsel dr0 dr1 (b/2)) Lc (dsel dc0 dc1 (b mod 2)) (tH x) (tW x) (fun p q => tf x n c p q) i j).
Proof.
  intros HLr HLre HLrN HLc HLce HLcN HW HH HC.
  destruct (even_len_props (tW x) HW) as (EW1 & EW2 & EW3). destruct (even_len_props (tH x) HH) as (EH1 & EH2 & EH3).
  unfold AFB2D_fwd.
  pose proof (afb1d_row_pywt_per Op Rth x Lr dr0 dr1 HLr HLre HLrN HW HH HC) as Hrow.
  destruct (afb1d Op x Lr _ _ M_PER 3) as [lohi|]; [|contradiction]. cbn [is_ok bind] in *.
  destruct Hrow as (R1 & R2 & R3 & R4 & R5).
  assert (HWl: 1 <= tW lohi) by (rewrite R4; lia).
  pose proof (afb1d_col_pywt_per lohi Lc dc0 dc1 HLc HLce ltac:(rewrite R3; exact HLcN) HWl ltac:(lia) ltac:(lia)) as Hcol.
  destruct (afb1d Op lohi Lc _ _ M_PER 2) as [y|]; [|contradiction]. cbn [is_ok bind] in *.
  destruct Hcol as (C1 & C2 & C3 & C4 & C5).
  rewrite R3 in *. rewrite R4 in *.
  unfold band4, highs4, t_chmap. cbn [force tN tC tH tW].
  rewrite C2, R2.
  assert (Hval: forall n c t s i j, 0 <= t < 2 -> 0 <= s < 2 -> 0 <= i < even_len (tH x) / 2 -> 0 <= j < even_len (tW x) / 2 ->
      tf y n (4*c + 2*t + s) i j
      = pywt_dwt2_per Lr (dsel dr0 dr1 t) Lc (dsel dc0 dc1 s) (tH x) (tW x) (fun p q => tf x n c p q) i j).
  { intros n c t s i j Ht Hs Hi Hj. replace (4*c + 2*t + s) with (2*(2*c+t) + s) by lia.
    rewrite C5 by lia. unfold pywt_dwt2_per. apply pywt_dwt_per_ext; [lia|].
    intros p Hp. apply R5; lia. }
  repeat apply conj; try lia.
  intros n c i j Hc Hi Hj. split.
  - rewrite force_eq. cbn [tf]. replace (4*c + 0) with (4*c + 2*0 + 0) by lia. rewrite Hval by lia.
    unfold dsel. reflexivity.
  - intros b Hb. rewrite force_eq. cbn [tf].
    replace ((3*c + (b-1))/3) with c by lia. replace ((3*c + (b-1)) mod 3) with (b-1) by lia.
    replace (4*c + (b-1) + 1) with (4*c + 2*(b/2) + b mod 2) by lia. rewrite Hval by lia. reflexivity.
Qed.

(* circular idwt2 *)
Definition pywt_idwt2_per (Lr:Z) (gr0 gr1:Z->R) (Lc:Z) (gc0 gc1:Z->R) (h w:Z) (ll lh hl hh:Z->Z->R) (i j:Z) : R :=
  syn_per Op Lr w gr0 gr1
    (fun q => syn_per Op Lc h gc0 gc1 (fun p => ll p q) (fun p => lh p q) i)
    (fun q => syn_per Op Lc h gc0 gc1 (fun p => hl p q) (fun p => hh p q) i) j.
Lemma syn_per_ext L n g0 g1 (lo hi lo' hi':Z->R) m :
  (forall k, 0 <= k < n -> lo k = lo' k /\ hi k = hi' k) -> syn_per Op L n g0 g1 lo hi m = syn_per Op L n g0 g1 lo' hi' m.
Proof. intros H. unfold syn_per. apply sumZ_ext. intros k Hk. destruct (H k Hk) as (-> & ->). reflexivity. Qed.

Theorem SFB2D_pywt_per (low highs:ten) Lr gr0 gr1 Lc gc0 gc1 :
  tN highs = tN low -> tC highs = 3 * tC low -> tH highs = tH low -> tW highs = tW low ->
  2 <= Lr -> Lr mod 2 = 0 -> 2 <= Lc -> Lc mod 2 = 0 -> 0 < tC low -> 1 <= tW low -> 1 <= tH low ->
  Lc - 2 <= 2 * tH low -> Lr - 2 <= 2 * tW low ->
  is_ok (SFB2D_fwd Op low highs Lr gr0 gr1 Lc gc0 gc1 M_PER)
    (fun y => tN y = tN low /\ tC y = tC low /\ tH y = 2 * tH low /\ tW y = 2 * tW low /\
       forall n c i j, 0 <= c < tC low -> 0 <= i < 2 * tH low -> 0 <= j < 2 * tW low ->
         tf y n c i j = pywt_idwt2_per Lr gr0 gr1 Lc gc0 gc1 (tH low) (tW low)
                          (fun p q => tf low n c p q) (fun p q => tf highs n (3*c) p q)
                          (fun p q => tf highs n (3*c+1) p q) (fun p q => tf highs n (3*c+2) p q) i j).
Proof.
  intros HN HCh HHh HWh HLr HLre HLc HLce HC HW HH HfH HfW.
  unfold SFB2D_fwd.
  set (lh := unbind3 0 highs). set (hl := unbind3 1 highs). set (hh := unbind3 2 highs).
  assert (Hsh: forall b, tN (unbind3 b highs) = tN low /\ tC (unbind3 b highs) = tC low /\ tH (unbind3 b highs) = tH low /\ tW (unbind3 b highs) = tW low).
  { intros b. unfold unbind3, t_chmap. cbn [tN tC tH tW]. repeat split; try lia. }
  assert (Hss: forall b, same_shape low (unbind3 b highs) = true).
  { intros b. destruct (Hsh b) as (A & B & C & D). unfold same_shape. rewrite A, B, C, D. rewrite !Z.eqb_refl. reflexivity. }
  pose proof (sfb1d_per_col Op Rth low lh Lc gc0 gc1 (Hss 0) HLc HLce HH HW HfH) as H1.
  destruct (sfb1d Op low lh Lc gc0 gc1 M_PER 2) as [lo|]; [|contradiction]. cbn [is_ok bind] in *.
  destruct H1 as (A1 & A2 & A3 & A4 & A5).
  assert (Hss2: same_shape hl hh = true).
  { destruct (Hsh 1) as (A & B & C & D). destruct (Hsh 2) as (A' & B' & C' & D'). unfold same_shape, hl, hh.
    rewrite A, B, C, D, A', B', C', D'. rewrite !Z.eqb_refl. reflexivity. }
  destruct (Hsh 1) as (S1 & S2 & S3 & S4).
  pose proof (sfb1d_per_col Op Rth hl hh Lc gc0 gc1 Hss2 HLc HLce ltac:(unfold hl; lia) ltac:(unfold hl; lia) ltac:(unfold hl; lia)) as H2.
  destruct (sfb1d Op hl hh Lc gc0 gc1 M_PER 2) as [hi|]; [|contradiction]. cbn [is_ok bind] in *.
  destruct H2 as (B1 & B2 & B3 & B4 & B5).
  fold hl in S1, S2, S3, S4. rewrite S1, S2, S3, S4 in *.
  assert (Hss3: same_shape lo hi = true).
  { unfold same_shape. rewrite A1, A2, A3, A4, B1, B2, B3, B4. rewrite !Z.eqb_refl. reflexivity. }
  pose proof (sfb1d_per_row_circ Op Rth lo hi Lr gr0 gr1 Hss3 HLr HLre ltac:(lia) ltac:(lia) ltac:(lia)) as H3.
  destruct (sfb1d Op lo hi Lr gr0 gr1 M_PER 3) as [y|]; [|contradiction]. cbn [is_ok] in *.
  destruct H3 as (C1 & C2 & C3 & C4 & C5).
  rewrite A1, A2, A3, A4 in *.
  repeat apply conj; try lia.
  intros n c i j Hc Hi Hj. rewrite C5 by lia. unfold pywt_idwt2_per. apply syn_per_ext. intros q Hq. split.
  - rewrite A5 by lia. apply syn_per_ext. intros p Hp. split; [reflexivity|]. unfold lh, unbind3, t_chmap. cbn [tf]. f_equal. lia.
  - rewrite B5 by lia. apply syn_per_ext. intros p Hp. unfold hl, hh, unbind3, t_chmap. cbn [tf]. split; f_equal; lia.
Qed.

(* line level: circular synthesis of PyWavelets' periodization analysis gives the signal back on [0,N), odd N included *)
Lemma line_pr_per L N d0 d1 g0 g1 (f:Z->R) i :
  2 <= L -> L mod 2 = 0 -> 1 <= N -> PRcond Op L d0 d1 g0 g1 -> 0 <= i < N ->
  syn_per Op L (even_len N / 2) g0 g1 (pywt_dwt_per Op L N d0 f) (pywt_dwt_per Op L N d1 f) i = f i.
Proof.
  intros HL HLe HN HPR Hi. destruct (even_len_props N HN) as (E1 & E2 & E3).
  transitivity (syn_per Op L (even_len N / 2) g0 g1 (ana_per Op L (even_len N) (rev_filt L d0) (even_ext N f))
                  (ana_per Op L (even_len N) (rev_filt L d1) (even_ext N f)) i).
  - apply syn_per_ext. intros k Hk. rewrite !(pywt_dwt_per_ana Op Rth). split; reflexivity.
  - rewrite (circ_pr Op Rth L (even_len N) d0 d1 g0 g1 (even_ext N f) i) by (try assumption; lia).
    unfold even_ext. replace (i <? N) with true by lia. reflexivity.
Qed.

Definition agrees2d_per (x low highs:ten) Lr dr0 dr1 Lc dc0 dc1 : Prop :=
  forall n c i j, 0 <= c < tC x -> 0 <= i < even_len (tH x) / 2 -> 0 <= j < even_len (tW x) / 2 ->
    tf low n c i j = pywt_dwt2_per Lr dr0 Lc dc0 (tH x) (tW x) (fun p q => tf x n c p q) i j /\
    forall b, 1 <= b < 4 ->
      tf highs n (3*c + (b-1)) i j
      = pywt_dwt2_per Lr (dsel dr0 dr1 (b/2)) Lc (dsel dc0 dc1 (b mod 2)) (tH x) (tW x) (fun p q => tf x n c p q) i j.

Theorem pr_level_2d_per_ext (x low highs:ten) Lr dr0 dr1 gr0 gr1 Lc dc0 dc1 gc0 gc1 :
  2 <= Lr -> Lr mod 2 = 0 -> Lr <= even_len (tW x) -> 2 <= Lc -> Lc mod 2 = 0 -> Lc <= even_len (tH x) ->
  1 <= tW x -> 1 <= tH x -> 0 < tC x ->
  PRcond Op Lr dr0 dr1 gr0 gr1 -> PRcond Op Lc dc0 dc1 gc0 gc1 ->
  tN low = tN x -> tC low = tC x -> tH low = even_len (tH x) / 2 -> tW low = even_len (tW x) / 2 ->
  tN highs = tN x -> tC highs = 3 * tC x -> tH highs = even_len (tH x) / 2 -> tW highs = even_len (tW x) / 2 ->
  agrees2d_per x low highs Lr dr0 dr1 Lc dc0 dc1 ->
  is_ok (SFB2D_fwd Op low highs Lr gr0 gr1 Lc gc0 gc1 M_PER) (recon2d x).
Proof.
  intros HLr HLre HLrN HLc HLce HLcN HW HH HC HPr HPc L1 L2 L3 L4 G1 G2 G3 G4 Hag.
  destruct (even_len_props (tW x) HW) as (EW1 & EW2 & EW3). destruct (even_len_props (tH x) HH) as (EH1 & EH2 & EH3).
  set (H' := even_len (tH x) / 2) in *. set (W' := even_len (tW x) / 2) in *.
  pose proof (SFB2D_pywt_per low highs Lr gr0 gr1 Lc gc0 gc1 ltac:(lia) ltac:(lia) ltac:(lia) ltac:(lia) HLr HLre HLc HLce
                ltac:(lia) ltac:(unfold W' in *; lia) ltac:(unfold H' in *; lia) ltac:(unfold H' in *; lia) ltac:(unfold W' in *; lia)) as Hs.
  destruct (SFB2D_fwd Op low highs Lr gr0 gr1 Lc gc0 gc1 M_PER) as [y|]; [|contradiction]. cbn [is_ok] in *.
  destruct Hs as (S1 & S2 & S3 & S4 & S5). rewrite L2, L3, L4 in *.
  unfold recon2d. repeat apply conj; try (unfold H', W' in *; lia).
  intros n c i j Hc Hi Hj. rewrite S5 by (unfold H', W' in *; lia).
  unfold pywt_idwt2_per.
  set (Rt := fun t q => pywt_dwt_per Op Lr (tW x) (dsel dr0 dr1 t) (fun q' => tf x n c i q') q).
  transitivity (syn_per Op Lr W' gr0 gr1 (Rt 0) (Rt 1) j).
  - apply syn_per_ext. intros q Hq.
    assert (Hcol: forall t, 0 <= t < 2 ->
       syn_per Op Lc H' gc0 gc1
         (pywt_dwt_per Op Lc (tH x) dc0 (fun p => pywt_dwt_per Op Lr (tW x) (dsel dr0 dr1 t) (fun q' => tf x n c p q') q))
         (pywt_dwt_per Op Lc (tH x) dc1 (fun p => pywt_dwt_per Op Lr (tW x) (dsel dr0 dr1 t) (fun q' => tf x n c p q') q)) i = Rt t q).
    { intros t Ht. unfold H'. rewrite (line_pr_per Lc (tH x) dc0 dc1 gc0 gc1 _ i HLc HLce HH HPc Hi). reflexivity. }
    split.
    + rewrite <- (Hcol 0) by lia. apply syn_per_ext. intros p Hp.
      destruct (Hag n c p q Hc Hp Hq) as (A0 & Ab). split.
      * rewrite A0. unfold pywt_dwt2_per, dsel. change (0 mod 2 =? 0) with true. reflexivity.
      * pose proof (Ab 1 ltac:(lia)) as A1. replace (3*c + (1-1)) with (3*c) in A1 by lia. rewrite A1.
        unfold pywt_dwt2_per, dsel. change (1/2) with 0. change (1 mod 2) with 1. change (0 mod 2 =? 0) with true. change (1 mod 2 =? 0) with false. reflexivity.
    + rewrite <- (Hcol 1) by lia. apply syn_per_ext. intros p Hp.
      destruct (Hag n c p q Hc Hp Hq) as (A0 & Ab). split.
      * pose proof (Ab 2 ltac:(lia)) as A2. replace (3*c + (2-1)) with (3*c+1) in A2 by lia. rewrite A2.
        unfold pywt_dwt2_per, dsel. change (2/2) with 1. change (2 mod 2) with 0. change (0 mod 2 =? 0) with true. change (1 mod 2 =? 0) with false. reflexivity.
      * pose proof (Ab 3 ltac:(lia)) as A3. replace (3*c + (3-1)) with (3*c+2) in A3 by lia. rewrite A3.
        unfold pywt_dwt2_per, dsel. change (3/2) with 1. change (3 mod 2) with 1. change (1 mod 2 =? 0) with false. reflexivity.
  - unfold Rt, W', dsel. change (0 mod 2 =? 0) with true. change (1 mod 2 =? 0) with false. cbv iota.
    rewrite (line_pr_per Lr (tW x) dr0 dr1 gr0 gr1 _ j HLr HLre HW HPr Hj). reflexivity.
Qed.

Theorem pr_level_2d_per (x:ten) Lr dr0 dr1 gr0 gr1 Lc dc0 dc1 gc0 gc1 :
  2 <= Lr -> Lr mod 2 = 0 -> Lr <= even_len (tW x) -> 2 <= Lc -> Lc mod 2 = 0 -> Lc <= even_len (tH x) ->
  1 <= tW x -> 1 <= tH x -> 0 < tC x ->
  PRcond Op Lr dr0 dr1 gr0 gr1 -> PRcond Op Lc dc0 dc1 gc0 gc1 ->
  is_ok (AFB2D_fwd Op x Lr (rev_filt Lr dr0) (rev_filt Lr dr1) Lc (rev_filt Lc dc0) (rev_filt Lc dc1) M_PER) (fun r =>
    is_ok (SFB2D_fwd Op (fst r) (snd r) Lr gr0 gr1 Lc gc0 gc1 M_PER) (recon2d x)).
Proof.
  intros HLr HLre HLrN HLc HLce HLcN HW HH HC HPr HPc.
  pose proof (AFB2D_pywt_per x Lr dr0 dr1 Lc dc0 dc1 HLr HLre HLrN HLc HLce HLcN HW HH HC) as Ha.
  destruct (AFB2D_fwd Op x Lr _ _ Lc _ _ M_PER) as [[low highs]|]; [|contradiction]. cbn [is_ok fst snd] in *.
  destruct Ha as (A1 & A2 & A3 & A4 & B1 & B2 & B3 & B4 & Hv).
  apply (pr_level_2d_per_ext x low highs Lr dr0 dr1 gr0 gr1 Lc dc0 dc1 gc0 gc1); try assumption.
Qed.

Fixpoint levels_ok2_per (J:nat) (Lr Lc H W:Z) : Prop :=
  match J with O => True
  | S J' => 1 <= W /\ 1 <= H /\ Lr <= even_len W /\ Lc <= even_len H /\ levels_ok2_per J' Lr Lc (even_len H / 2) (even_len W / 2) end.

Theorem pr_multilevel_2d_per (J:nat) : forall (x:ten) Lr dr0 dr1 gr0 gr1 Lc dc0 dc1 gc0 gc1,
  2 <= Lr -> Lr mod 2 = 0 -> 2 <= Lc -> Lc mod 2 = 0 -> 0 < tC x -> 1 <= tW x -> 1 <= tH x -> levels_ok2_per J Lr Lc (tH x) (tW x) ->
  PRcond Op Lr dr0 dr1 gr0 gr1 -> PRcond Op Lc dc0 dc1 gc0 gc1 ->
  is_ok (DWTForward Op J x Lr (rev_filt Lr dr0) (rev_filt Lr dr1) Lc (rev_filt Lc dc0) (rev_filt Lc dc1) M_PER) (fun r =>
    is_ok (DWTInverse Op (fst r) (map Some (snd r)) Lr gr0 gr1 Lc gc0 gc1 M_PER) (recon2d x)).
Proof.
  induction J as [|J IH]; intros x Lr dr0 dr1 gr0 gr1 Lc dc0 dc1 gc0 gc1 HLr HLre HLc HLce HC HW HH Hlv HPr HPc.
  - cbn [DWTForward is_ok fst snd map]. unfold DWTInverse. cbn [rev DWTInverse_rev is_ok]. unfold recon2d. repeat split; try lia.
  - destruct Hlv as (HW1 & HH1 & HLrN & HLcN & Hrest).
    destruct (even_len_props (tW x) HW) as (EW1 & EW2 & EW3). destruct (even_len_props (tH x) HH) as (EH1 & EH2 & EH3).
    cbn [DWTForward].
    pose proof (AFB2D_pywt_per x Lr dr0 dr1 Lc dc0 dc1 HLr HLre HLrN HLc HLce HLcN HW HH HC) as Ha.
    destruct (AFB2D_fwd Op x Lr _ _ Lc _ _ M_PER) as [[low highs]|]; [|contradiction]. cbn [is_ok bind] in *.
    destruct Ha as (A1 & A2 & A3 & A4 & B1 & B2 & B3 & B4 & Hv).
    set (H' := even_len (tH x) / 2) in *. set (W' := even_len (tW x) / 2) in *.
    assert (HH': 1 <= H') by (unfold H'; lia). assert (HW': 1 <= W') by (unfold W'; lia).
    specialize (IH low Lr dr0 dr1 gr0 gr1 Lc dc0 dc1 gc0 gc1 HLr HLre HLc HLce ltac:(lia) ltac:(lia) ltac:(lia)
                  ltac:(rewrite A3, A4; exact Hrest) HPr HPc).
    destruct (DWTForward Op J low Lr _ _ Lc _ _ M_PER) as [[yl yh]|]; [|contradiction]. cbn [is_ok bind fst snd] in *.
    unfold DWTInverse in *. cbn [map rev]. rewrite (inv2_rev_app Op).
    destruct (DWTInverse_rev Op yl (rev (map Some yh)) Lr gr0 gr1 Lc gc0 gc1 M_PER) as [z|]; [|contradiction]. cbn [is_ok bind] in *.
    destruct IH as (Z1 & Z2 & Z3 & Z4 & Z5). rewrite A1, A2, A3, A4 in *.
    cbn [DWTInverse_rev]. rewrite B3.
    set (z1 := if H' <? tH z then t_pyslice 2 0 (-1) z else z).
    assert (Hz1: tN z1 = tN x /\ tC z1 = tC x /\ tH z1 = H' /\ tW z1 = tW z /\ forall n c i j, tf z1 n c i j = tf z n c i j).
    { unfold z1. destruct (H' <? tH z) eqn:E.
      - pose proof (slice_last_row z ltac:(lia)) as Hs. cbv zeta in Hs. destruct Hs as (S1 & S2 & S3 & S4 & S5).
        repeat apply conj; try lia. exact S5.
      - repeat apply conj; try lia. intros; reflexivity. }
    destruct Hz1 as (P1 & P2 & P3 & P4 & P5). rewrite B4.
    set (z2 := if W' <? tW z1 then t_pyslice 3 0 (-1) z1 else z1).
    assert (Hz2: tN z2 = tN x /\ tC z2 = tC x /\ tH z2 = H' /\ tW z2 = W' /\ forall n c i j, tf z2 n c i j = tf z n c i j).
    { unfold z2. destruct (W' <? tW z1) eqn:E.
      - pose proof (slice_last_col z1 ltac:(lia)) as Hs. cbv zeta in Hs. destruct Hs as (S1 & S2 & S3 & S4 & S5).
        repeat apply conj; try lia. intros. rewrite S5. apply P5.
      - repeat apply conj; try lia. exact P5. }
    destruct Hz2 as (Q1 & Q2 & Q3 & Q4 & Q5).
    assert (Hfin: is_ok (SFB2D_fwd Op z2 highs Lr gr0 gr1 Lc gc0 gc1 M_PER) (recon2d x)).
    { apply (pr_level_2d_per_ext x z2 highs Lr dr0 dr1 gr0 gr1 Lc dc0 dc1 gc0 gc1); try assumption; try lia.
      intros n c i j Hc Hi Hj. fold H' in Hi. fold W' in Hj. destruct (Hv n c i j Hc Hi Hj) as (V0 & Vb). split; [|exact Vb].
      rewrite Q5. rewrite Z5 by lia. exact V0. }
    destruct (SFB2D_fwd Op z2 highs Lr gr0 gr1 Lc gc0 gc1 M_PER) as [y|]; [|contradiction]. cbn [is_ok DWTInverse_rev] in *. exact Hfin.
Qed.
End S.
