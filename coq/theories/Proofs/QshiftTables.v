(* The q-shift kernel condition QPR for every shipped table (exact dyadic values regenerated from the .npz files on every run):
   the kernel of all four output phases deviates from the unit impulse by at most 2^-48 (qshift_32: 2^-26), entrywise.
   Argument convention of the reference transform: coldfilt(X, h?b, h?a), colifilt(X, g?b, g?a). *)
From Coq Require Import String.
From PW Require Import Base.Ops Base.Sum Base.Sig Proofs.QshiftAdj Proofs.QshiftPR Proofs.TablesProofs Gen.Tables.
Open Scope string_scope. Open Scope Z_scope.

Definition qflt (n v:string) : Z -> Z := nz (vec (get n v)).
(* largest entrywise deviation of the two-band kernel from 2^(2K) * delta, over the 4 phases and all shifts *)
Definition qres (n:string) : Z :=
  let m := len (get n "h0a") in
  fold_left Z.max (map (fun rho => fold_left Z.max (map (fun d =>
     Z.abs (Kb ZOps m 0 (qflt n "g0a") (qflt n "g0b") (qflt n "h0b") (qflt n "h0a") rho d
            + Kb ZOps m 1 (qflt n "g1b") (qflt n "g1a") (qflt n "h1a") (qflt n "h1b") rho d
            - (if d =? 0 then 2 ^ (2*K) else 0))) (map (fun i => i + 1 - m) (idx (2*m - 1)))) 0) [0;1;2;3]) 0.
Definition qnames : list string := filter is_qshift names.
Definition qbits (n:string) : Z := if String.eqb n "qshift_32" then 26 else 48.
Definition qshift_same_len : bool :=
  forallb (fun n => forallb (fun v => len (get n v) =? len (get n "h0a")) ["h0b";"h1a";"h1b";"g0a";"g0b";"g1a";"g1b"] && Z.even (len (get n "h0a"))) qnames.
Definition qshift_kernels_ok : bool := forallb (fun n => qres n <=? 2 ^ (2*K - qbits n)) qnames.

Lemma qshift_kernels_hold : qshift_same_len = true /\ qshift_kernels_ok = true /\ (7 <=? Z.of_nat (List.length qnames)) = true.
Proof. vm_compute. repeat split. Qed.

(* non-vacuity of the exact condition: an integer bank of length 2 *)
Definition f2 (a b:Z) : Z->Z := fun j => if j =? 0 then a else b.
Lemma QPR_exact_example :
  QPRref ZOps 2 true (f2 (-1) 0) (f2 0 (-1)) (f2 0 (-1)) (f2 (-1) 0) false (f2 0 (-1)) (f2 (-1) 0) (f2 (-1) 0) (f2 0 (-1)).
Proof.
  intros rho d Hr Hd. assert (Hr': rho = 0 \/ rho = 1 \/ rho = 2 \/ rho = 3) by lia. assert (Hd': d = -1 \/ d = 0 \/ d = 1) by lia.
  destruct Hr' as [->|[->|[->| ->]]]; destruct Hd' as [->|[->| ->]]; vm_compute; reflexivity.
Qed.
