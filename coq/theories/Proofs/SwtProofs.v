(* C13: the undecimated (a trous) bank with wrap-around padding is a circular dilated correlation; shift equivariance. *)
From PW Require Import Base.Ops Base.Sum Base.Sig Base.Tensor Model.Dwt Spec.Line Proofs.ConvLine Proofs.DwtNF.
Ltac Zify.zify_post_hook ::= Z.to_euclidean_division_equations.

Section S.
Context {R:Type} (Op:Ops R) (Rth: RingOk Op).
Add Ring Rr : Rth.
Notation ten := (@ten R).
Infix "+r" := (radd Op) (at level 50, left associativity).
Infix "*r" := (rmul Op) (at level 40, left associativity).
Notation sumZ := (sumZ Op).

(* level with dilation d: band[j] = sum_b h[b] x[(j + b d - (L d/2 - d)) mod N], h the registered (reversed) filter *)
Definition swt_line (L N d:Z) (h x:Z->R) (j:Z) : R := sumZ 0 L (fun b => h b *r x ((j + b*d - (L*d/2 - d)) mod N)).

Theorem atrous_periodic_row (x:ten) L h0 h1 dil : 2 <= L -> L mod 2 = 0 -> 1 <= dil -> 1 <= tW x -> 1 <= tH x -> 0 < tC x ->
  is_ok (afb1d_atrous Op x L h0 h1 M_PERIODIC 3 dil)
    (afb_row_spec x (tW x) (fun n oc i j => swt_line L (tW x) dil (hsel h0 h1 oc) (fun q => tf x n (oc/2) i q) j)).
Proof.
  intros HL HLe Hd HN HH HC. unfold afb1d_atrous.
  assert (HL2: 2 * (L * dil / 2) = L * dil).
  { assert (L * dil = 2 * ((L/2) * dil)) by (replace L with (2 * (L/2)) at 1 by lia; ring). lia. }
  set (L2 := L * dil / 2) in *.
  destruct (mypad_gather Op 3 (L2 - dil) L2 M_PERIODIC x) as (idx & Hpad & Hidx); [change (dlen 3 x) with (tW x); lia | right; left; reflexivity |].
  change (dlen 3 x) with (tW x) in *. rewrite Hpad. cbn [bind]. change (3 =? 2) with false. cbv iota.
  assert (Hdl: dil * (L - 1) = L * dil - dil) by ring.
  unfold w_afb. rewrite conv2d_r_row by (unfold t_gather; change (3 =? 2) with false; cbv iota; cbn [force tH tW]; nia).
  cbn [bind is_ok]. unfold afb_row_spec. cbn [force tN tC tH tW conv2d_dw]. rewrite w_line3; cbn [wO wKH wKW].
  unfold t_gather. change (3 =? 2) with false. cbv iota. cbn [tN tC tH tW].
  repeat apply conj; try lia.
  intros n oc i j Hi Hj. rewrite force_eq. rewrite <- w_line3. rewrite conv_row by exact Rth.
  unfold swt_line. apply sumZ_ext. intros b Hb. rewrite rowz_force. unfold rowz. cbn [tf tH tW tC force].
  assert (Hbd: 0 <= b * dil <= (L-1) * dil) by nia.
  replace (inr (tH x) i && inr (tW x + (L2 - dil) + L2) (j * 1 + b * dil - 0)) with true
    by (unfold inr; nia).
  replace (2 * tC x / tC x) with 2 by (symmetry; apply Z.div_mul; lia).
  rewrite Hidx. unfold hsel. f_equal. destruct (oc mod 2 =? 0); reflexivity.
  f_equal. unfold pad_idx. change (M_PERIODIC =? M_SYMM) with false. change (M_PERIODIC =? M_PERIODIC) with true. cbv iota.
  unfold wrap_idx. f_equal. lia.
Qed.

(* circularly shifting the input by s shifts every band by s *)
Theorem swt_shift L N d h x s j : 0 < N ->
  swt_line L N d h (fun q => x ((q + s) mod N)) j = swt_line L N d h x (j + s).
Proof.
  intros HN. unfold swt_line. apply sumZ_ext. intros b Hb. f_equal. f_equal.
  rewrite Zplus_mod_idemp_l. f_equal. lia.
Qed.
(* PyWavelets' closed form for one stationary level with dilation d (dec = decomposition filter, L even) *)
Definition pywt_swt (L N d:Z) (dec x:Z->R) (k:Z) : R := sumZ 0 L (fun m => dec m *r x ((k + d*(L/2 - m)) mod N)).
Lemma swt_line_pywt L N d dec x j : L mod 2 = 0 -> swt_line L N d (rev_filt L dec) x j = pywt_swt L N d dec x j.
Proof.
  intros HLe. unfold swt_line, pywt_swt, rev_filt. rewrite (sumZ_rev Op Rth 0 L). apply sumZ_ext. intros m Hm. cbv beta.
  replace (L - 1 - (0 + L - 1 - m)) with m by lia. f_equal. f_equal. f_equal.
  assert (L * d = 2 * ((L/2) * d)) by (replace L with (2 * (L/2)) at 1 by lia; ring).
  replace (L * d / 2) with ((L/2) * d) by lia. lia.
Qed.
End S.
