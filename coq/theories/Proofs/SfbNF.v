(* Normal forms of sfb1d (row pass). *)
From PW Require Import Base.Ops Base.Sum Base.Sig Base.Tensor Model.Dwt Spec.Line Proofs.ConvLine Proofs.DwtNF Proofs.LineTheory.
Ltac Zify.zify_post_hook ::= Z.to_euclidean_division_equations.

Section S.
Context {R:Type} (Op:Ops R) (Rth: RingOk Op).
Add Ring Rr : Rth.
Notation ten := (@ten R).
Infix "+r" := (radd Op) (at level 50, left associativity).
Infix "*r" := (rmul Op) (at level 40, left associativity).
Notation sumZ := (sumZ Op).
Notation zx := (zx Op).

Lemma same_shape_eq (a b:ten) : same_shape a b = true -> tN a = tN b /\ tC a = tC b /\ tH a = tH b /\ tW a = tW b.
Proof. unfold same_shape. intros H. lia. Qed.

Lemma convT2d_r_row (x:ten) L (hs:Z->Z->R) sw pw :
  1 <= tH x -> 0 <= pw -> 1 <= (tW x - 1)*sw - 2*pw + L ->
  convT2d_r Op x (w_line 3 (tC x) L hs) 1 sw 0 pw = Ok (convT2d_dw Op x (w_line 3 (tC x) L hs) 1 sw 0 pw).
Proof. intros. unfold convT2d_r. rewrite w_line3. cbn [wKH wKW].
  replace (_ && _ && _ && _) with true by lia. reflexivity. Qed.

Definition sfb_row_spec (lo:ten) (Wout:Z) (line:Z->Z->Z->Z->R) (y:ten) : Prop :=
  tN y = tN lo /\ tC y = tC lo /\ tH y = tH lo /\ tW y = Wout /\
  forall n c i m, 0 <= i < tH lo -> 0 <= m < Wout -> tf y n c i m = line n c i m.

Definition nonper_mode (mode:Z) : Prop := mode = M_ZERO \/ mode = M_SYMM \/ mode = M_REFLECT \/ mode = M_PERIODIC.

Theorem sfb1d_nonper_row lo hi L g0 g1 mode : nonper_mode mode -> same_shape lo hi = true ->
  2 <= L -> 1 <= tH lo -> 1 <= 2 * tW lo - L + 2 ->
  is_ok (sfb1d Op lo hi L g0 g1 mode 3)
    (sfb_row_spec lo (2 * tW lo - L + 2)
       (fun n c i m => syn Op L (tW lo) g0 g1 (fun k => tf lo n c i k) (fun k => tf hi n c i k) m)).
Proof.
  intros Hm Hs HL HH HW. destruct (same_shape_eq _ _ Hs) as (E1 & E2 & E3 & E4).
  assert (Hmode: (mode =? M_PER) = false /\ ((mode =? M_ZERO) || (mode =? M_SYMM) || (mode =? M_REFLECT) || (mode =? M_PERIODIC)) = true).
  { destruct Hm as [H|[H|[H|H]]]; subst mode; split; reflexivity. }
  destruct Hmode as (Hm1 & Hm2).
  unfold sfb1d. rewrite strides3, Hs, Hm1, Hm2. cbn [negb]. cbv iota. rewrite along3.
  rewrite convT2d_r_row by lia. cbn [bind].
  rewrite E2. rewrite convT2d_r_row by lia. cbn [bind is_ok].
  unfold sfb_row_spec. cbn [force t_add tN tC tH tW convT2d_dw]. rewrite w_line3; cbn [wKH wKW].
  repeat apply conj; try lia.
  intros n c i m Hi Hm'. rewrite force_eq. cbn [t_add tf]. rewrite <- !w_line3.
  rewrite <- E2 at 1. rewrite !convT_row by (exact Rth || lia).
  unfold syn. rewrite <- E4. rewrite <- sumZ_add by exact Rth. apply sumZ_ext. intros k Hk.
  replace (m + (L-2) - k*2) with (m + (L-2) - 2*k) by lia. reflexivity.
Qed.

(* periodization: the code's own formula (single fold) syn_per_code is defined in LineTheory *)
Lemma roll_row_any (x:ten) s : 0 <= s < tW x ->
  let y := roll x (-s) 3 in
  tN y = tN x /\ tC y = tC x /\ tH y = tH x /\ tW y = tW x /\
  forall n c i q, 0 <= q < tW x -> tf y n c i q = tf x n c i ((q + s) mod tW x).
Proof.
  intros Hs. destruct (Z.eq_dec s 0) as [->|Hne]; [|apply roll_row; lia].
  unfold roll, dlen. change (3 =? 2) with false. cbv iota. change (-0 <? 0) with false. cbv iota.
  change (- -0) with 0. unfold pyclip. change (0 <? 0) with false. cbv iota.
  replace (Z.min (tW x) 0) with 0 by lia.
  unfold t_slice, t_gather, t_cat. change (3 =? 2) with false. change (3 =? 1) with false. cbv iota. cbn [tN tC tH tW tf].
  unfold range_len. replace (tW x <=? 0) with false by lia. change (0 <=? 0) with true. cbv iota.
  repeat apply conj; try lia.
  intros n c i q Hq. replace (q <? (tW x - 0 + 1 - 1)/1) with true by lia.
  rewrite Z.add_0_r. rewrite Z.mod_small by lia. f_equal. lia.
Qed.

Theorem sfb1d_per_row lo hi L g0 g1 : same_shape lo hi = true ->
  2 <= L -> L mod 2 = 0 -> 1 <= tH lo -> 1 <= tW lo -> L/2 - 1 < 2 * tW lo ->
  is_ok (sfb1d Op lo hi L g0 g1 M_PER 3)
    (sfb_row_spec lo (2 * tW lo)
       (fun n c i m => syn_per_code Op L (tW lo) g0 g1 (fun k => tf lo n c i k) (fun k => tf hi n c i k) m)).
Proof.
  intros Hs HL HLe HH HW Hroll. destruct (same_shape_eq _ _ Hs) as (E1 & E2 & E3 & E4).
  unfold sfb1d. rewrite strides3, Hs. cbn [negb]. change (M_PER =? M_PER) with true. cbv iota.
  rewrite convT2d_r_row by lia. cbn [bind]. rewrite E2. rewrite convT2d_r_row by lia. cbn [bind].
  set (y := force Op (t_add Op _ _)).
  assert (Hy: tN y = tN lo /\ tC y = tC lo /\ tH y = tH lo /\ tW y = 2 * tW lo + L - 2).
  { unfold y. cbn [force t_add tN tC tH tW convT2d_dw]. rewrite w_line3; cbn [wKH wKW]. repeat apply conj; lia. }
  destruct Hy as (Y1 & Y2 & Y3 & Y4).
  assert (Hyv: forall n c i m, 0 <= i < tH lo -> tf y n c i m = syn_full Op L (tW lo) g0 g1 (fun k => tf lo n c i k) (fun k => tf hi n c i k) m).
  { intros n c i m Hi. unfold y. rewrite force_eq. cbn [t_add tf]. rewrite <- E2 at 1.
    rewrite !convT_row by (exact Rth || lia). unfold syn_full. rewrite <- E4. rewrite <- sumZ_add by exact Rth.
    apply sumZ_ext. intros k Hk. replace (m + 0 - k*2) with (m - 2*k) by lia. reflexivity. }
  unfold fold_add, dlen. change (3 =? 2) with false. cbv iota. rewrite Y4. unfold pyclip.
  replace (L - 2 <? 0) with false by lia. replace (2 * tW lo + (L - 2) <? 0) with false by lia. replace (2 * tW lo <? 0) with false by lia.
  replace (Z.min (2 * tW lo + L - 2) (L - 2)) with (L-2) by lia.
  replace (Z.min (2 * tW lo + L - 2) (2 * tW lo + (L - 2))) with (2 * tW lo + (L-2)) by lia.
  replace (Z.min (2 * tW lo + L - 2) (2 * tW lo)) with (2 * tW lo) by lia.
  replace (L - 2 =? 2 * tW lo + (L - 2) - 2 * tW lo) with true by lia.
  cbn [bind tW].
  replace (Z.min (2 * tW lo + L - 2) (2 * tW lo)) with (2 * tW lo) by lia.
  set (y2 := force Op (t_slice 3 0 (2 * tW lo) 1 _)).
  assert (Hy2: tN y2 = tN lo /\ tC y2 = tC lo /\ tH y2 = tH lo /\ tW y2 = 2 * tW lo).
  { unfold y2, t_slice, t_gather. change (3 =? 2) with false. cbv iota. cbn [force tN tC tH tW]. unfold range_len.
    replace (2 * tW lo <=? 0) with false by lia. repeat apply conj; lia. }
  destruct Hy2 as (Z1 & Z2 & Z3 & Z4).
  assert (Hy2v: forall n c i m, 0 <= i < tH lo -> 0 <= m < 2 * tW lo -> tf y2 n c i m =
     if m <? L - 2 then tf y n c i m +r tf y n c i (2 * tW lo + m) else tf y n c i m).
  { intros n c i m Hi Hm. unfold y2. rewrite force_eq. unfold t_slice, t_gather. change (3 =? 2) with false. cbv iota. cbn [tf].
    replace (0 + 1 * m) with m by lia. reflexivity. }
  replace (1 - L/2) with (- (L/2 - 1)) by lia.
  pose proof (roll_row_any y2 (L/2 - 1)) as Hr. rewrite Z4 in Hr. specialize (Hr ltac:(lia)). cbv zeta in Hr.
  destruct Hr as (B1 & B2 & B3 & B4 & B5).
  cbn [is_ok]. unfold sfb_row_spec. cbn [force tN tC tH tW]. repeat apply conj; try lia.
  intros n c i m Hi Hm. rewrite force_eq. rewrite B5 by lia. unfold syn_per_code. cbv zeta.
  assert (0 <= (m + (L/2 - 1)) mod (2 * tW lo) < 2 * tW lo) by (apply Z.mod_pos_bound; lia).
  rewrite Hy2v by lia. rewrite !Hyv by lia. reflexivity.
Qed.
End S.
