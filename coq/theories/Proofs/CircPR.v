(* Periodization: circular synthesis of the circular analysis reconstructs, for EVERY even length (also below the filter
   length), under the filter-only kernel condition PRcond.  Route: the circular synthesis is the synthesis on the infinite
   line with n-periodic coefficient sequences; the circular analysis is the analysis of the N-periodic extension; then the
   master identity line_pr_exact applies. *)
From PW Require Import Base.Ops Base.Sum Base.Sig Spec.Line Proofs.LineTheory.
Ltac Zify.zify_post_hook ::= Z.to_euclidean_division_equations.

Section S.
Context {R:Type} (Op:Ops R) (Rth: RingOk Op).
Add Ring Rr : Rth.
Infix "+r" := (radd Op) (at level 50, left associativity).
Infix "*r" := (rmul Op) (at level 40, left associativity).
Notation sumZ := (sumZ Op).
Notation zx := (zx Op).

(* a sum over [n qa, n qb) is a sum over blocks of length n *)
Lemma sumZ_blocks n qa (m:nat) (f:Z->R) : 0 <= n ->
  sumZ (n*qa) (n*(qa + Z.of_nat m)) f = sumZ qa (qa + Z.of_nat m) (fun q => sumZ 0 n (fun k => f (k + n*q))).
Proof.
  intros Hn. induction m as [|m IH].
  - rewrite !(sumZ_empty Op) by lia. reflexivity.
  - rewrite (sumZ_split Op Rth (n*qa) (n*(qa + Z.of_nat m)) (n*(qa + Z.of_nat (S m)))) by nia.
    rewrite IH.
    rewrite (sumZ_split Op Rth qa (qa + Z.of_nat m) (qa + Z.of_nat (S m))) by lia. f_equal.
    replace (qa + Z.of_nat (S m)) with (qa + Z.of_nat m + 1) by lia. rewrite sumZ_one.
    rewrite (sumZ_shift Op 0 n (n * (qa + Z.of_nat m)) f).
    replace (0 + n * (qa + Z.of_nat m)) with (n * (qa + Z.of_nat m)) by lia.
    replace (n + n * (qa + Z.of_nat m)) with (n * (qa + Z.of_nat m + 1)) by lia. ring.
Qed.
Lemma sumZ_blocks' n qa qb (f:Z->R) : 0 <= n -> qa <= qb ->
  sumZ (n*qa) (n*qb) f = sumZ qa qb (fun q => sumZ 0 n (fun k => f (k + n*q))).
Proof.
  intros Hn Hq. replace qb with (qa + Z.of_nat (Z.to_nat (qb - qa))) by lia. apply sumZ_blocks; exact Hn.
Qed.

(* taps at distance a multiple of N: the sum over taps with a divisibility test is a sum over the multiples *)
Lemma sum_multiples N L c qa qb (f:Z->R) : 0 < N -> qa <= qb ->
  (forall q, ~(qa <= q < qb) -> ~(0 <= c - N*q < L)) ->
  sumZ 0 L (fun a => if (c - a) mod N =? 0 then f a else r0 Op) = sumZ qa qb (fun q => zx L f (c - N*q)).
Proof.
  intros HN Hq Hcov.
  transitivity (sumZ qa qb (fun q => sumZ 0 L (fun a => if a =? c - N*q then f a else r0 Op))).
  2:{ apply sumZ_ext. intros q Hq'. rewrite (sumZ_delta Op Rth). unfold Sum.zx, inr. reflexivity. }
  rewrite (sumZ_swap Op Rth). apply sumZ_ext. intros a Ha. symmetry.
  destruct ((c - a) mod N =? 0) eqn:E.
  - set (q0 := (c - a) / N).
    assert (Hq0: c - a = N * q0) by (unfold q0; pose proof (Z.div_mod (c - a) N ltac:(lia)); lia).
    assert (Hin: qa <= q0 < qb).
    { destruct (Z_le_dec qa q0) as [H1|H1]; destruct (Z_lt_dec q0 qb) as [H2|H2]; try lia;
      exfalso; apply (Hcov q0); lia. }
    rewrite (sumZ_single Op Rth qa qb q0).
    + replace (a =? c - N*q0) with true by lia. reflexivity.
    + exact Hin.
    + intros q Hq' Hne. replace (a =? c - N*q) with false; [reflexivity|].
      symmetry. apply Z.eqb_neq. intros Heq. apply Hne. assert (N * q = N * q0) by lia. nia.
  - apply (sumZ_zero Op Rth). intros q Hq'. replace (a =? c - N*q) with false; [reflexivity|].
    symmetry. apply Z.eqb_neq. intros Heq. assert (Hm: (c - a) mod N = 0).
    { replace (c - a) with (q * N) by lia. apply Z.mod_mul. lia. }
    lia.
Qed.

(* circular synthesis = synthesis on the line with n-periodic coefficients, any window of whole periods that covers the live taps *)
Lemma syn_per_line L n g0 g1 (lo hi:Z->R) i qa qb : 2 <= L -> L mod 2 = 0 -> 1 <= n -> qa <= qb ->
  (forall k', ~(n*qa <= k' < n*qb) -> ~(0 <= i + L/2 - 1 - 2*k' < L)) ->
  syn_per Op L n g0 g1 lo hi i
  = synL Op L g0 g1 (n*qa) (n*qb) (fun k => lo (k mod n)) (fun k => hi (k mod n)) (i - (L/2 - 1)).
Proof.
  intros HL HLe Hn Hq Hcov. unfold synL. rewrite sumZ_blocks' by lia.
  rewrite (sumZ_swap Op Rth). unfold syn_per. apply sumZ_ext. intros k Hk.
  rewrite (sum_multiples (2*n) L (i + L/2 - 1 - 2*k) qa qb (fun a => lo k *r g0 a +r hi k *r g1 a)); try lia.
  - apply sumZ_ext. intros q Hq'.
    replace ((k + n*q) mod n) with k.
    2:{ replace (k + n*q) with (k + q*n) by lia. rewrite Z.mod_add by lia. rewrite Z.mod_small by lia. reflexivity. }
    replace (i - (L/2 - 1) + (L - 2) - 2*(k + n*q)) with (i + L/2 - 1 - 2*k - 2*n*q) by lia.
    unfold Sum.zx. destruct (inr L _); ring.
  - intros q Hnq. replace (i + L/2 - 1 - 2*k - 2*n*q) with (i + L/2 - 1 - 2*(k + n*q)) by lia.
    apply Hcov. nia.
Qed.

(* circular analysis with the registered (reversed) filter = analysis of the shifted periodic extension *)
Definition per_shift (L N:Z) (x:Z->R) : Z->R := fun u => x ((u + (L/2 - 1)) mod N).
Lemma ana_per_line L N (d x:Z->R) k : 2 <= L ->
  ana_per Op L N (rev_filt L d) x k = anaL Op L d (per_shift L N x) k.
Proof.
  intros HL. unfold ana_per, rev_filt, anaL, per_shift. rewrite (sumZ_rev Op Rth 0 L). apply sumZ_ext. intros m Hm. cbv beta.
  replace (L - 1 - (0 + L - 1 - m)) with m by lia. f_equal. f_equal. f_equal. lia.
Qed.
Lemma anaL_periodic L n (d x:Z->R) k : 1 <= n ->
  anaL Op L d (per_shift L (2*n) x) (k mod n) = anaL Op L d (per_shift L (2*n) x) k.
Proof.
  intros Hn. unfold anaL, per_shift. apply sumZ_ext. intros m Hm. f_equal. f_equal.
  pose proof (Z.div_mod k n ltac:(lia)) as Hdm.
  replace (2*k + 1 - m + (L/2 - 1)) with (2*(k mod n) + 1 - m + (L/2 - 1) + (k/n) * (2*n)) by lia.
  rewrite Z.mod_add by lia. reflexivity.
Qed.

Theorem circ_pr L N d0 d1 g0 g1 (x:Z->R) i : 2 <= L -> L mod 2 = 0 -> 0 < N -> N mod 2 = 0 ->
  PRcond Op L d0 d1 g0 g1 -> 0 <= i < N ->
  syn_per Op L (N/2) g0 g1 (ana_per Op L N (rev_filt L d0) x) (ana_per Op L N (rev_filt L d1) x) i = x i.
Proof.
  intros HL HLe HN HNe HPR Hi.
  set (n := N/2). assert (HNn: N = 2*n) by (unfold n; lia). assert (Hn: 1 <= n) by lia.
  assert (Ha: n * (-L) <= -L) by nia. assert (Hb: n + L <= n * (L + 2)) by nia.
  rewrite (syn_per_line L n g0 g1 _ _ i (-L) (L+2)) by (try lia; intros k' Hk'; lia).
  set (X := per_shift L N x).
  unfold synL.
  rewrite (sumZ_ext Op (n * - L) (n * (L+2)) _
     (fun k => zx L g0 (i - (L/2 - 1) + (L-2) - 2*k) *r anaL Op L d0 X k +r zx L g1 (i - (L/2 - 1) + (L-2) - 2*k) *r anaL Op L d1 X k)).
  2:{ intros k Hk. rewrite !ana_per_line by lia. unfold X. rewrite HNn. rewrite !anaL_periodic by lia. reflexivity. }
  change (sumZ (n * - L) (n * (L+2)) (fun k => zx L g0 (i - (L/2 - 1) + (L-2) - 2*k) *r anaL Op L d0 X k +r zx L g1 (i - (L/2 - 1) + (L-2) - 2*k) *r anaL Op L d1 X k))
    with (synL Op L g0 g1 (n * - L) (n * (L+2)) (anaL Op L d0 X) (anaL Op L d1 X) (i - (L/2 - 1))).
  rewrite (line_pr_exact Op Rth L d0 d1 g0 g1 ltac:(lia)).
  - unfold X, per_shift. replace (i - (L/2 - 1) + (L/2 - 1)) with i by lia. rewrite Z.mod_small by lia. reflexivity.
  - intros d Hd. apply (PRcond_at Op Rth L d0 d1 g0 g1 _ _ _ d ltac:(lia) HPR Hd); [|lia].
    intros k Hk. lia.
  - lia.
Qed.

(* orthogonal bank (synthesis filters = registered analysis filters, i.e. rec = reversed dec): inner products preserved, no reconstruction hypothesis left *)
Theorem inner_preserved_orth L N (h0 h1 x y:Z->R) : 2 <= L -> L mod 2 = 0 -> 0 < N -> N mod 2 = 0 ->
  PRcond Op L (rev_filt L h0) (rev_filt L h1) h0 h1 ->
  dot Op (N/2) (ana_per Op L N h0 x) (ana_per Op L N h0 y) +r dot Op (N/2) (ana_per Op L N h1 x) (ana_per Op L N h1 y) = dot Op N x y.
Proof.
  intros HL HLe HN HNe HPR. apply (inner_preserved Op Rth); try assumption.
  intros i Hi.
  assert (E: forall h k, ana_per Op L N h y k = ana_per Op L N (rev_filt L (rev_filt L h)) y k).
  { intros h k. unfold ana_per. apply sumZ_ext. intros b Hb. unfold rev_filt. f_equal. f_equal. lia. }
  transitivity (syn_per Op L (N/2) h0 h1 (ana_per Op L N (rev_filt L (rev_filt L h0)) y) (ana_per Op L N (rev_filt L (rev_filt L h1)) y) i).
  - unfold syn_per. apply sumZ_ext. intros k Hk. apply sumZ_ext. intros a Ha. rewrite <- !E. reflexivity.
  - apply (circ_pr L N (rev_filt L h0) (rev_filt L h1) h0 h1 y i); assumption.
Qed.
End S.
