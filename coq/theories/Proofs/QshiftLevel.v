(* One whole q-shift level of the DTCWT on the tensor-level model: inv_j2plus (fwd_j2plus x) = x, 2-D, rows and columns,
   q2c / c2q in between.  Assumes: both filter families of length L (even), b filters = a filters reversed (RevPair), the
   filter-only kernel condition QPRref, and 2 s^2 = 1 for the ring element s that stands for 1/sqrt 2. *)
From PW Require Import Base.Ops Base.Sum Base.Sig Base.Tensor Model.Dwt Model.Dtcwt Spec.Line Spec.DtcwtRef
  Proofs.DwtNF Proofs.SfbNF Proofs.DtcwtNF Proofs.DtcwtNFrow Proofs.QuadProofs Proofs.QshiftAdj Proofs.QshiftPR Proofs.QshiftTensor.
Ltac Zify.zify_post_hook ::= Z.to_euclidean_division_equations.

Section S.
Context {R:Type} (Op:Ops R) (Rth: RingOk Op).
Add Ring Rr : Rth.
Notation ten := (@ten R).
Infix "+r" := (radd Op) (at level 50, left associativity).
Infix "*r" := (rmul Op) (at level 40, left associativity).

Definition same_on (X Y:ten) : Prop :=
  tN Y = tN X /\ tC Y = tC X /\ tH Y = tH X /\ tW Y = tW X /\
  forall n c i j, 0 <= c < tC X -> 0 <= i < tH X -> 0 <= j < tW X -> tf Y n c i j = tf X n c i j.

Variables (L:Z) (H0A H0B G0A G0B H1A H1B G1A G1B:Z->R).
Hypothesis HL : 2 <= L /\ L mod 2 = 0.
Hypothesis R0 : RevPair L H0A H0B. Hypothesis S0 : RevPair L G0A G0B.
Hypothesis R1 : RevPair L H1A H1B. Hypothesis S1 : RevPair L G1A G1B.
Hypothesis HQ : QPRref Op L true H0A H0B G0A G0B false H1A H1B G1A G1B.

(* columns: A, B agree with the lowpass / highpass column analysis of X on their extent *)
Lemma col_stage (X A B:ten) : 4 <= tH X -> tH X mod 4 = 0 -> 1 <= tW X -> 0 < tC X ->
  tN A = tN X -> tC A = tC X -> tH A = tH X / 2 -> tW A = tW X ->
  tN B = tN X -> tC B = tC X -> tH B = tH X / 2 -> tW B = tW X ->
  (forall n c k j, 0 <= c < tC X -> 0 <= k < tH X / 2 -> 0 <= j < tW X ->
     tf A n c k j = ref_coldfilt Op L (tH X) H0A H0B (fun q => tf X n c q j) true k /\
     tf B n c k j = ref_coldfilt Op L (tH X) H1A H1B (fun q => tf X n c q j) false k) ->
  is_ok (radd_res Op (ifilt Op 2 B L (rev_filt L G1A) (rev_filt L G1B) true) (ifilt Op 2 A L (rev_filt L G0A) (rev_filt L G0B) false)) (same_on X).
Proof.
  intros HH H4 HW HC A1 A2 A3 A4 B1 B2 B3 B4 Hv. destruct HL as (HL1 & HL2).
  pose proof (ifilt_ref_col Op Rth B L G1A G1B true HL1 HL2 ltac:(lia) ltac:(lia) ltac:(lia) ltac:(lia)) as Hb.
  pose proof (ifilt_ref_col Op Rth A L G0A G0B false HL1 HL2 ltac:(lia) ltac:(lia) ltac:(lia) ltac:(lia)) as Ha.
  unfold radd_res.
  destruct (ifilt Op 2 B L _ _ true) as [yb|]; [|contradiction]. destruct (ifilt Op 2 A L _ _ false) as [ya|]; [|contradiction].
  cbn [is_ok bind] in *. destruct Hb as (D1 & D2 & D3 & D4 & D5). destruct Ha as (C1 & C2 & C3 & C4 & C5).
  replace (same_shape yb ya) with true by (unfold same_shape; lia). cbn [is_ok].
  unfold same_on. cbn [force t_add tN tC tH tW]. repeat apply conj; try lia.
  intros n c i j Hc Hi Hj. rewrite force_eq. cbn [t_add tf]. rewrite D5, C5 by lia. rewrite A3, B3. cbn [negb].
  rewrite (ref_colifilt_ext Op L (tH X / 2) G0A G0B _ (ref_coldfilt Op L (tH X) H0A H0B (fun q => tf X n c q j) true) true i)
    by (try lia; intros k Hk; apply (proj1 (Hv n c k j ltac:(lia) Hk Hj))).
  rewrite (ref_colifilt_ext Op L (tH X / 2) G1A G1B _ (ref_coldfilt Op L (tH X) H1A H1B (fun q => tf X n c q j) false) false i)
    by (try lia; intros k Hk; apply (proj2 (Hv n c k j ltac:(lia) Hk Hj))).
  rewrite (Rth.(Radd_comm)).
  exact (qshift_pr_ref Op Rth L (tH X) true false H0A H0B G0A G0B H1A H1B G1A G1B (fun q => tf X n c q j) i
           HL1 HL2 ltac:(lia) H4 R0 S0 R1 S1 HQ Hi).
Qed.

(* rows *)
Lemma row_stage (X A B:ten) : 4 <= tW X -> tW X mod 4 = 0 -> 1 <= tH X -> 0 < tC X ->
  tN A = tN X -> tC A = tC X -> tW A = tW X / 2 -> tH A = tH X ->
  tN B = tN X -> tC B = tC X -> tW B = tW X / 2 -> tH B = tH X ->
  (forall n c i k, 0 <= c < tC X -> 0 <= k < tW X / 2 -> 0 <= i < tH X ->
     tf A n c i k = ref_coldfilt Op L (tW X) H0A H0B (fun q => tf X n c i q) true k /\
     tf B n c i k = ref_coldfilt Op L (tW X) H1A H1B (fun q => tf X n c i q) false k) ->
  is_ok (radd_res Op (ifilt Op 3 B L (rev_filt L G1A) (rev_filt L G1B) true) (ifilt Op 3 A L (rev_filt L G0A) (rev_filt L G0B) false)) (same_on X).
Proof.
  intros HH H4 HW HC A1 A2 A3 A4 B1 B2 B3 B4 Hv. destruct HL as (HL1 & HL2).
  pose proof (ifilt_ref_row Op Rth B L G1A G1B true HL1 HL2 ltac:(lia) ltac:(lia) ltac:(lia) ltac:(lia)) as Hb.
  pose proof (ifilt_ref_row Op Rth A L G0A G0B false HL1 HL2 ltac:(lia) ltac:(lia) ltac:(lia) ltac:(lia)) as Ha.
  unfold radd_res.
  destruct (ifilt Op 3 B L _ _ true) as [yb|]; [|contradiction]. destruct (ifilt Op 3 A L _ _ false) as [ya|]; [|contradiction].
  cbn [is_ok bind] in *. destruct Hb as (D1 & D2 & D3 & D4 & D5). destruct Ha as (C1 & C2 & C3 & C4 & C5).
  replace (same_shape yb ya) with true by (unfold same_shape; lia). cbn [is_ok].
  unfold same_on. cbn [force t_add tN tC tH tW]. repeat apply conj; try lia.
  intros n c i j Hc Hi Hj. rewrite force_eq. cbn [t_add tf]. rewrite D5, C5 by lia. rewrite A3, B3. cbn [negb].
  rewrite (ref_colifilt_ext Op L (tW X / 2) G0A G0B _ (ref_coldfilt Op L (tW X) H0A H0B (fun q => tf X n c i q) true) true j)
    by (try lia; intros k Hk; apply (proj1 (Hv n c i k ltac:(lia) Hk Hi))).
  rewrite (ref_colifilt_ext Op L (tW X / 2) G1A G1B _ (ref_coldfilt Op L (tW X) H1A H1B (fun q => tf X n c i q) false) false j)
    by (try lia; intros k Hk; apply (proj2 (Hv n c i k ltac:(lia) Hk Hi))).
  rewrite (Rth.(Radd_comm)).
  exact (qshift_pr_ref Op Rth L (tW X) true false H0A H0B G0A G0B H1A H1B G1A G1B (fun q => tf X n c i q) j
           HL1 HL2 ltac:(lia) H4 R0 S0 R1 S1 HQ Hj).
Qed.
End S.

Section Level.
Context {R:Type} (Op:Ops R) (Rth: RingOk Op).
Add Ring Rr5 : Rth.
Notation ten := (@ten R).
Infix "+r" := (radd Op) (at level 50, left associativity).
Infix "*r" := (rmul Op) (at level 40, left associativity).
Variable s : R.
Hypothesis two_s2 : (r1 Op +r r1 Op) *r s *r s = r1 Op.

(* c2q after q2c gives the tensor back (even sizes) *)
Lemma c2q_q2c_same (y:ten) : 0 < tH y -> tH y mod 2 = 0 -> 0 < tW y -> tW y mod 2 = 0 ->
  let '((z1r, z1i), (z2r, z2i)) := q2c Op s y in same_on y (c2q Op s z1r z1i z2r z2i).
Proof.
  intros HH HHe HW HWe.
  assert (Hv: forall n c i j, 0 <= i -> 0 <= j ->
     let '((z1r, z1i), (z2r, z2i)) := q2c Op s y in tf (c2q Op s z1r z1i z2r z2i) n c i j = tf y n c i j).
  { intros n c i j Hi Hj. pose proof (c2q_q2c Op Rth s y n c i j Hi Hj) as H.
    destruct (q2c Op s y) as ((z1r, z1i), (z2r, z2i)). rewrite H. rewrite two_s2. ring. }
  assert (Hs: let '((z1r, z1i), (z2r, z2i)) := q2c Op s y in
     tN z1r = tN y /\ tC z1r = tC y /\ tH z1r = tH y / 2 /\ tW z1r = tW y / 2).
  { unfold q2c. cbv zeta. cbn [force t_sub t_add poly t_scale tN tC tH tW]. unfold range_len.
    replace (tH y <=? 0) with false by lia. replace (tW y <=? 0) with false by lia. repeat split; lia. }
  destruct (q2c Op s y) as ((z1r, z1i), (z2r, z2i)). destruct Hs as (S1 & S2 & S3 & S4).
  unfold same_on. unfold c2q at 1 2 3 4. cbn [force tN tC tH tW]. repeat apply conj; try lia.
  intros n c i j Hc Hi Hj. apply Hv; lia.
Qed.

Variables (L:Z) (H0A H0B G0A G0B H1A H1B G1A G1B:Z->R).
Hypothesis HL : 2 <= L /\ L mod 2 = 0.
Hypothesis R0 : RevPair L H0A H0B. Hypothesis S0 : RevPair L G0A G0B.
Hypothesis R1 : RevPair L H1A H1B. Hypothesis S1 : RevPair L G1A G1B.
Hypothesis HQ : QPRref Op L true H0A H0B G0A G0B false H1A H1B G1A G1B.

(* the lowpass handed to the inverse may be any tensor that agrees with the forward lowpass on its extent (in the pyramid it is the
   reconstruction coming from the coarser levels); the shapes of the outputs are those the level loops rely on *)
Theorem qshift_level_pr_ext (x:ten) : 4 <= tH x -> tH x mod 4 = 0 -> 4 <= tW x -> tW x mod 4 = 0 -> 0 < tC x ->
  is_ok (fwd_j2plus Op s x L (rev_filt L H0B) (rev_filt L H0A) L (rev_filt L H1B) (rev_filt L H1A) false) (fun r =>
    tN (fst r) = tN x /\ tC (fst r) = tC x /\ tH (fst r) = tH x / 2 /\ tW (fst r) = tW x / 2 /\
    snd r <> nil /\ tH (pl Op (snd r) 0 0) = tH x / 4 /\ tW (pl Op (snd r) 0 0) = tW x / 4 /\
    forall ll', same_on (fst r) ll' ->
    is_ok (inv_j2plus Op s (Some ll') (snd r) L (rev_filt L G0B) (rev_filt L G0A) L (rev_filt L G1B) (rev_filt L G1A)) (same_on x)).
Proof.
  intros HH HH4 HW HW4 HC. destruct HL as (HL1 & HL2).
  unfold fwd_j2plus.
  (* row pass *)
  pose proof (dfilt_ref_row Op Rth x L H0A H0B false HL1 HW HW4 ltac:(lia) HC) as Hlo.
  destruct (dfilt Op 3 x L (rev_filt L H0A) (rev_filt L H0B) false) as [lo|]; [|contradiction]. cbn [is_ok bind] in *.
  destruct Hlo as (P1 & P2 & P3 & P4 & P5).
  pose proof (dfilt_ref_row Op Rth x L H1A H1B true HL1 HW HW4 ltac:(lia) HC) as Hhi.
  destruct (dfilt Op 3 x L (rev_filt L H1A) (rev_filt L H1B) true) as [hi|]; [|contradiction]. cbn [is_ok bind] in *.
  destruct Hhi as (Q1 & Q2 & Q3 & Q4 & Q5).
  (* column pass *)
  pose proof (dfilt_ref_col Op Rth lo L H0A H0B false HL1 ltac:(lia) ltac:(lia) ltac:(lia) ltac:(lia)) as Hll.
  destruct (dfilt Op 2 lo L (rev_filt L H0A) (rev_filt L H0B) false) as [ll|]; [|contradiction]. cbn [is_ok bind] in *.
  destruct Hll as (A1 & A2 & A3 & A4 & A5).
  pose proof (dfilt_ref_col Op Rth lo L H1A H1B true HL1 ltac:(lia) ltac:(lia) ltac:(lia) ltac:(lia)) as Hlh.
  destruct (dfilt Op 2 lo L (rev_filt L H1A) (rev_filt L H1B) true) as [lh|]; [|contradiction]. cbn [is_ok bind] in *.
  destruct Hlh as (B1 & B2 & B3 & B4 & B5).
  pose proof (dfilt_ref_col Op Rth hi L H0A H0B false HL1 ltac:(lia) ltac:(lia) ltac:(lia) ltac:(lia)) as Hhl.
  destruct (dfilt Op 2 hi L (rev_filt L H0A) (rev_filt L H0B) false) as [hl|]; [|contradiction]. cbn [is_ok bind] in *.
  destruct Hhl as (C1 & C2 & C3 & C4 & C5).
  pose proof (dfilt_ref_col Op Rth hi L H1A H1B true HL1 ltac:(lia) ltac:(lia) ltac:(lia) ltac:(lia)) as Hhh.
  destruct (dfilt Op 2 hi L (rev_filt L H1A) (rev_filt L H1B) true) as [hh|]; [|contradiction]. cbn [is_ok bind fst snd] in *.
  destruct Hhh as (D1 & D2 & D3 & D4 & D5).
  (* complex conversion and back *)
  pose proof (c2q_q2c_same lh ltac:(lia) ltac:(lia) ltac:(lia) ltac:(lia)) as Elh.
  pose proof (c2q_q2c_same hl ltac:(lia) ltac:(lia) ltac:(lia) ltac:(lia)) as Ehl.
  pose proof (c2q_q2c_same hh ltac:(lia) ltac:(lia) ltac:(lia) ltac:(lia)) as Ehh.
  assert (Hd15: let '((z1r, _), _) := q2c Op s lh in tH z1r = tH lh / 2 /\ tW z1r = tW lh / 2).
  { unfold q2c. cbv zeta. cbn [force t_sub t_add poly t_scale tN tC tH tW]. unfold range_len.
    replace (tH lh <=? 0) with false by lia. replace (tW lh <=? 0) with false by lia. split; lia. }
  unfold highs_to_orientations.
  destruct (q2c Op s lh) as ((d15r, d15i), (d165r, d165i)).
  destruct (q2c Op s hh) as ((d45r, d45i), (d135r, d135i)).
  destruct (q2c Op s hl) as ((d75r, d75i), (d105r, d105i)).
  destruct Hd15 as (K1 & K2).
  repeat apply conj; try lia; try discriminate;
    try (unfold pl; change (Z.to_nat (2*0+0)) with 0%nat; cbn [nth]; lia).
  intros ll' (U1 & U2 & U3 & U4 & U5).
  unfold inv_j2plus, orientations_to_highs, pl.
  change (Z.to_nat (2*0+0)) with 0%nat. change (Z.to_nat (2*0+1)) with 1%nat. change (Z.to_nat (2*1+0)) with 2%nat. change (Z.to_nat (2*1+1)) with 3%nat.
  change (Z.to_nat (2*2+0)) with 4%nat. change (Z.to_nat (2*2+1)) with 5%nat. change (Z.to_nat (2*3+0)) with 6%nat. change (Z.to_nat (2*3+1)) with 7%nat.
  change (Z.to_nat (2*4+0)) with 8%nat. change (Z.to_nat (2*4+1)) with 9%nat. change (Z.to_nat (2*5+0)) with 10%nat. change (Z.to_nat (2*5+1)) with 11%nat.
  cbn [nth].
  set (lh' := c2q Op s d15r d15i d165r d165i) in *. set (hl' := c2q Op s d75r d75i d105r d105i) in *. set (hh' := c2q Op s d45r d45i d135r d135i) in *.
  destruct Elh as (E1 & E2 & E3 & E4 & E5). destruct Ehl as (F1 & F2 & F3 & F4 & F5). destruct Ehh as (G1 & G2 & G3 & G4 & G5).
  (* columns of the highpass branch *)
  pose proof (col_stage Op Rth L H0A H0B G0A G0B H1A H1B G1A G1B (conj HL1 HL2) R0 S0 R1 S1 HQ hi hl' hh'
                ltac:(lia) ltac:(lia) ltac:(lia) ltac:(lia) ltac:(lia) ltac:(lia) ltac:(lia) ltac:(lia) ltac:(lia) ltac:(lia) ltac:(lia) ltac:(lia)) as Hhi'.
  assert (Vhi: forall n c k j, 0 <= c < tC hi -> 0 <= k < tH hi / 2 -> 0 <= j < tW hi ->
     tf hl' n c k j = ref_coldfilt Op L (tH hi) H0A H0B (fun q => tf hi n c q j) true k /\
     tf hh' n c k j = ref_coldfilt Op L (tH hi) H1A H1B (fun q => tf hi n c q j) false k).
  { intros n c k j Hc Hk Hj. split.
    - rewrite F5 by lia. rewrite C5 by lia. reflexivity.
    - rewrite G5 by lia. rewrite D5 by lia. reflexivity. }
  specialize (Hhi' Vhi).
  destruct (radd_res Op (ifilt Op 2 hh' L _ _ true) (ifilt Op 2 hl' L _ _ false)) as [hi2|]; [|contradiction]. cbn [is_ok bind] in *.
  destruct Hhi' as (I1 & I2 & I3 & I4 & I5).
  (* columns of the lowpass branch *)
  pose proof (col_stage Op Rth L H0A H0B G0A G0B H1A H1B G1A G1B (conj HL1 HL2) R0 S0 R1 S1 HQ lo ll' lh'
                ltac:(lia) ltac:(lia) ltac:(lia) ltac:(lia) ltac:(lia) ltac:(lia) ltac:(lia) ltac:(lia) ltac:(lia) ltac:(lia) ltac:(lia) ltac:(lia)) as Hlo'.
  assert (Vlo: forall n c k j, 0 <= c < tC lo -> 0 <= k < tH lo / 2 -> 0 <= j < tW lo ->
     tf ll' n c k j = ref_coldfilt Op L (tH lo) H0A H0B (fun q => tf lo n c q j) true k /\
     tf lh' n c k j = ref_coldfilt Op L (tH lo) H1A H1B (fun q => tf lo n c q j) false k).
  { intros n c k j Hc Hk Hj. split.
    - rewrite U5 by lia. rewrite A5 by lia. reflexivity.
    - rewrite E5 by lia. rewrite B5 by lia. reflexivity. }
  specialize (Hlo' Vlo).
  destruct (radd_res Op (ifilt Op 2 lh' L _ _ true) (ifilt Op 2 ll' L _ _ false)) as [lo2|]; [|contradiction]. cbn [is_ok bind] in *.
  destruct Hlo' as (J1 & J2 & J3 & J4 & J5).
  (* rows *)
  apply (row_stage Op Rth L H0A H0B G0A G0B H1A H1B G1A G1B (conj HL1 HL2) R0 S0 R1 S1 HQ x lo2 hi2); try lia.
  intros n c i k Hc Hk Hi. split.
  - rewrite J5 by lia. rewrite P5 by lia. reflexivity.
  - rewrite I5 by lia. rewrite Q5 by lia. reflexivity.
Qed.
Lemma same_on_refl (X:ten) : same_on X X.
Proof. unfold same_on. repeat split. Qed.
Corollary qshift_level_pr (x:ten) : 4 <= tH x -> tH x mod 4 = 0 -> 4 <= tW x -> tW x mod 4 = 0 -> 0 < tC x ->
  is_ok (fwd_j2plus Op s x L (rev_filt L H0B) (rev_filt L H0A) L (rev_filt L H1B) (rev_filt L H1A) false) (fun r =>
  is_ok (inv_j2plus Op s (Some (fst r)) (snd r) L (rev_filt L G0B) (rev_filt L G0A) L (rev_filt L G1B) (rev_filt L G1A)) (same_on x)).
Proof.
  intros HH HH4 HW HW4 HC. pose proof (qshift_level_pr_ext x HH HH4 HW HW4 HC) as H.
  destruct (fwd_j2plus Op s x L _ _ L _ _ false) as [r|]; [|contradiction]. cbn [is_ok] in *.
  destruct H as (_ & _ & _ & _ & _ & _ & _ & H). apply H. apply same_on_refl.
Qed.
End Level.
