(* DTCWT levels >= 2, line level, any commutative ring: perfect reconstruction of the q-shift stage.
   colifilt (coldfilt x h0a h0b) g0a g0b + colifilt (coldfilt x h1a h1b) g1a g1b = x for EVERY column length r = 0 mod 4
   (also shorter than the filters), under (i) b filters = a filters reversed and (ii) a filter-only kernel condition QPR
   (four output phases).  Both hold, (i) exactly and (ii) within 2^-40, for every shipped table (TablesProofs). *)
From PW Require Import Base.Ops Base.Sum Base.Sig Spec.Line Spec.DtcwtRef Proofs.LineTheory Proofs.CircPR Proofs.SymExt Proofs.QshiftAdj.
Ltac Zify.zify_post_hook ::= Z.to_euclidean_division_equations.

Section S.
Context {R:Type} (Op:Ops R) (Rth: RingOk Op).
Add Ring Rr : Rth.
Infix "+r" := (radd Op) (at level 50, left associativity).
Infix "*r" := (rmul Op) (at level 40, left associativity).
Notation sumZ := (sumZ Op).

(* regroup a double sum by the difference of the indices *)
Lemma regroup_diff m (A B X:Z->R) : 0 <= m ->
  sumZ 0 m (fun j => sumZ 0 m (fun j' => A j *r B j' *r X (j - j')))
  = sumZ (1-m) m (fun d => sumZ 0 m (fun j => if inr m (j - d) then A j *r B (j - d) else r0 Op) *r X d).
Proof.
  intros Hm.
  transitivity (sumZ 0 m (fun j => sumZ (1-m) m (fun d => (if inr m (j - d) then A j *r B (j - d) else r0 Op) *r X d))).
  - apply sumZ_ext. intros j Hj.
    rewrite (sumZ_ext Op 0 m _ (fun j' => (fun d => A j *r B (j - d) *r X d) (j - j')))
      by (intros j' Hj'; cbv beta; replace (j - (j - j')) with j' by lia; reflexivity).
    rewrite (sumZ_neg Op Rth 0 m j (fun d => A j *r B (j - d) *r X d)).
    symmetry. rewrite (sumZ_widen Op Rth (j - m + 1) (j - 0 + 1) (1-m) m) by (try lia; intros d Hd Hn; rewrite inr_false by lia; ring).
    apply sumZ_ext. intros d Hd. rewrite inr_true by lia. reflexivity.
  - rewrite (sumZ_swap Op Rth). apply sumZ_ext. intros d Hd. rewrite (sumZ_scale_r Op Rth). reflexivity.
Qed.

Section Band.
Variables (m r e:Z) (fe fo fe' fo' x:Z->R).
Hypothesis Hm : 2 <= m.
Hypothesis Hr : 0 < r /\ r mod 4 = 0.
Hypothesis Hrev' : forall j, 0 <= j < m -> fo' j = fe' (m-1-j).
Let xs := ext_sym r x.
Notation D := (Dk Op m r e fe' fo' x).

(* the symmetric extension of the analysis output is the analysis formula itself, at every index *)
Lemma ext_Dk k : ext_sym (r/2) D k = D k.
Proof.
  unfold ext_sym. apply (sym_determined (r/2) D k); try lia.
  - intros v. apply (Dk_refl Op Rth m r e fe' fo' x x Hr Hrev').
  - intros v. replace (v + 2 * (r/2)) with (v + r) by lia. apply (Dk_per Op m r e fe' fo' x x Hr Hrev').
Qed.

(* phase-dependent taps of the synthesis stage *)
Definition A1 (rho j:Z) : R := if (rho + 2*j - e) mod 4 =? 0 then fe j else r0 Op.
Definition A2 (rho j:Z) : R := if (rho + 2*j + e) mod 4 =? 1 then fo j else r0 Op.
(* composite kernel of one band: output phase rho = (u - m) mod 4, shift 2d *)
Definition Kb (rho d:Z) : R :=
  sumZ 0 m (fun j => if inr m (j - d) then A1 rho j *r fe' (j - d) else r0 Op)
  +r sumZ 0 m (fun j => if inr m (j - d) then A2 rho j *r fo' (j - d) else r0 Op).

Lemma Zu_Dk_kernel u :
  Zu Op m r e fe fo D u = sumZ (1-m) m (fun d => Kb ((u - m) mod 4) d *r xs (u + 2*d)).
Proof.
  set (rho := (u - m) mod 4).
  transitivity (sumZ 0 m (fun j => sumZ 0 m (fun j' => A1 rho j *r fe' j' *r xs (u + 2*(j - j'))))
                +r sumZ 0 m (fun j => sumZ 0 m (fun j' => A2 rho j *r fo' j' *r xs (u + 2*(j - j'))))).
  - unfold Zu. rewrite <- sumZ_add by exact Rth. apply sumZ_ext. intros j Hj. f_equal.
    + unfold A1. replace ((rho + 2*j - e) mod 4 =? 0) with ((u - m + 2*j - e) mod 4 =? 0) by (unfold rho; lia).
      destruct ((u - m + 2*j - e) mod 4 =? 0) eqn:E.
      * rewrite ext_Dk. unfold Dk. replace (((u - m + 2*j - e)/2) mod 2 =? 0) with true by lia.
        rewrite <- sumZ_scale by exact Rth. apply sumZ_ext. intros j' Hj'. fold xs.
        replace (2 * ((u - m + 2*j - e)/2) + m - 2*j' + e) with (u + 2*(j - j')) by lia. ring.
      * rewrite (sumZ_zero Op Rth) by (intros; ring). reflexivity.
    + unfold A2. replace ((rho + 2*j + e) mod 4 =? 1) with ((u - m + 2*j + e) mod 4 =? 1) by (unfold rho; lia).
      destruct ((u - m + 2*j + e) mod 4 =? 1) eqn:E.
      * rewrite ext_Dk. unfold Dk. replace (((u - m + 2*j + e + 1)/2) mod 2 =? 0) with false by lia.
        rewrite <- sumZ_scale by exact Rth. apply sumZ_ext. intros j' Hj'. fold xs.
        replace (2 * ((u - m + 2*j + e + 1)/2) + m - 2*j' - 1 - e) with (u + 2*(j - j')) by lia. ring.
      * rewrite (sumZ_zero Op Rth) by (intros; ring). reflexivity.
  - rewrite (regroup_diff m (A1 rho) fe' (fun d => xs (u + 2*d))) by lia.
    rewrite (regroup_diff m (A2 rho) fo' (fun d => xs (u + 2*d))) by lia.
    rewrite <- sumZ_add by exact Rth. apply sumZ_ext. intros d Hd. unfold Kb. ring.
Qed.
End Band.

(* ---- two bands ---- *)
Definition QPR (m:Z) (e0:Z) (s0e s0o a0e a0o:Z->R) (e1:Z) (s1e s1o a1e a1o:Z->R) : Prop :=
  forall rho d, 0 <= rho < 4 -> 1 - m <= d < m ->
    Kb m e0 s0e s0o a0e a0o rho d +r Kb m e1 s1e s1o a1e a1o rho d = delta Op d.

Theorem qshift_pr_line m r e0 (s0e s0o a0e a0o:Z->R) e1 (s1e s1o a1e a1o x:Z->R) u :
  2 <= m -> 0 < r -> r mod 4 = 0 ->
  (forall j, 0 <= j < m -> a0o j = a0e (m-1-j)) -> (forall j, 0 <= j < m -> a1o j = a1e (m-1-j)) ->
  QPR m e0 s0e s0o a0e a0o e1 s1e s1o a1e a1o ->
  Zu Op m r e0 s0e s0o (Dk Op m r e0 a0e a0o x) u +r Zu Op m r e1 s1e s1o (Dk Op m r e1 a1e a1o x) u = ext_sym r x u.
Proof.
  intros Hm Hr Hr4 Hv0 Hv1 HQ.
  rewrite (Zu_Dk_kernel m r e0 s0e s0o a0e a0o x Hm (conj Hr Hr4) Hv0 u).
  rewrite (Zu_Dk_kernel m r e1 s1e s1o a1e a1o x Hm (conj Hr Hr4) Hv1 u).
  rewrite <- sumZ_add by exact Rth.
  rewrite (sumZ_single Op Rth (1-m) m 0).
  - rewrite <- (Rth.(Rdistr_l)). rewrite HQ by lia. unfold delta. change (0 =? 0) with true. cbv iota.
    replace (u + 2*0) with u by lia. ring.
  - lia.
  - intros d Hd Hne. rewrite <- (Rth.(Rdistr_l)). rewrite HQ by lia. unfold delta. replace (d =? 0) with false by lia. ring.
Qed.
End S.

(* ---------------- in terms of the reference closed forms ---------------- *)
Section Ref.
Context {R:Type} (Op:Ops R) (Rth: RingOk Op).
Add Ring Rr3 : Rth.
Infix "+r" := (radd Op) (at level 50, left associativity).
Infix "*r" := (rmul Op) (at level 40, left associativity).
Notation sumZ := (sumZ Op).

Lemma Zu_ext m r e fe fo (g g':Z->R) u : 0 < r/2 -> (forall k, 0 <= k < r/2 -> g k = g' k) ->
  Zu Op m r e fe fo g u = Zu Op m r e fe fo g' u.
Proof.
  intros Hr H. unfold Zu. apply sumZ_ext. intros j Hj. unfold ext_sym.
  f_equal; (destruct (_ =? _); [|reflexivity]); f_equal; apply H; apply sym_idx_range; lia.
Qed.

(* the kernel condition for the reference's argument convention: band 0 = (h0a,h0b | g0a,g0b) with layout pos0, band 1 likewise *)
Definition QPRref (m:Z) (pos0:bool) (h0a h0b g0a g0b:Z->R) (pos1:bool) (h1a h1b g1a g1b:Z->R) : Prop :=
  QPR Op m (if pos0 then 0 else 1) (if pos0 then g0b else g0a) (if pos0 then g0a else g0b) (if pos0 then h0a else h0b) (if pos0 then h0b else h0a)
           (if pos1 then 0 else 1) (if pos1 then g1b else g1a) (if pos1 then g1a else g1b) (if pos1 then h1a else h1b) (if pos1 then h1b else h1a).
Definition RevPair (m:Z) (a b:Z->R) : Prop := forall j, 0 <= j < m -> b j = a (m-1-j).
Lemma RevPair_sym m a b : RevPair m a b -> RevPair m b a.
Proof. intros H j Hj. rewrite (H (m-1-j)) by lia. f_equal. lia. Qed.

Theorem qshift_pr_ref m r (pos0 pos1:bool) (h0a h0b g0a g0b h1a h1b g1a g1b x:Z->R) u :
  2 <= m -> m mod 2 = 0 -> 0 < r -> r mod 4 = 0 ->
  RevPair m h0a h0b -> RevPair m g0a g0b -> RevPair m h1a h1b -> RevPair m g1a g1b ->
  QPRref m pos0 h0a h0b g0a g0b pos1 h1a h1b g1a g1b -> 0 <= u < r ->
  ref_colifilt Op m (r/2) g0a g0b (ref_coldfilt Op m r h0a h0b x pos0) pos0 u
  +r ref_colifilt Op m (r/2) g1a g1b (ref_coldfilt Op m r h1a h1b x pos1) pos1 u = x u.
Proof.
  intros Hm Hme Hr Hr4 R0 S0 R1 S1 HQ Hu.
  assert (Band: forall (pos:bool) ha hb ga gb, RevPair m ha hb -> RevPair m ga gb ->
     ref_colifilt Op m (r/2) ga gb (ref_coldfilt Op m r ha hb x pos) pos u
     = Zu Op m r (if pos then 0 else 1) (if pos then gb else ga) (if pos then ga else gb)
          (Dk Op m r (if pos then 0 else 1) (if pos then ha else hb) (if pos then hb else ha) x) u).
  { intros pos ha hb ga gb Rh Rg.
    transitivity (Zu Op m r (if pos then 0 else 1) (if pos then gb else ga) (if pos then ga else gb) (ref_coldfilt Op m r ha hb x pos) u).
    - destruct pos.
      + exact (colifilt_Zu Op Rth m r gb ga _ (conj Hm Hme) (RevPair_sym m ga gb Rg) true u).
      + exact (colifilt_Zu Op Rth m r ga gb _ (conj Hm Hme) Rg false u).
    - apply Zu_ext; [lia|]. intros k Hk. apply coldfilt_Dk. }
  rewrite (Band pos0 h0a h0b g0a g0b R0 S0), (Band pos1 h1a h1b g1a g1b R1 S1).
  rewrite (qshift_pr_line Op Rth m r _ _ _ _ _ _ _ _ _ _ x u Hm Hr Hr4).
  - unfold ext_sym. rewrite sym_idx_in by lia. reflexivity.
  - destruct pos0; [exact R0 | exact (RevPair_sym m h0a h0b R0)].
  - destruct pos1; [exact R1 | exact (RevPair_sym m h1a h1b R1)].
  - exact HQ.
Qed.
End Ref.
