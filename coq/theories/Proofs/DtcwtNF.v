(* Normal forms of the DTCWT column filters (d = 2) and their equality with the reference package's closed forms. *)
From PW Require Import Base.Ops Base.Sum Base.Sig Base.Tensor Model.Dwt Model.Dtcwt Spec.Line Spec.DtcwtRef Proofs.ConvLine Proofs.DwtNF.
Ltac Zify.zify_post_hook ::= Z.to_euclidean_division_equations.

Section S.
Context {R:Type} (Op:Ops R) (Rth: RingOk Op).
Add Ring Rr : Rth.
Notation ten := (@ten R).
Infix "+r" := (radd Op) (at level 50, left associativity).
Infix "*r" := (rmul Op) (at level 40, left associativity).
Notation sumZ := (sumZ Op).

Definition col_spec (x:ten) (Hout:Z) (line:Z->Z->Z->Z->R) (y:ten) : Prop :=
  tN y = tN x /\ tC y = tC x /\ tH y = Hout /\ tW y = tW x /\
  forall n c i j, 0 <= c < tC x -> 0 <= i < Hout -> 0 <= j < tW x -> tf y n c i j = line n c i j.

Lemma symm_pad_sym l m q : 0 < l -> symm_pad l m q = sym_idx l (q - m).
Proof. intros. unfold symm_pad. apply reflect_model_sym; assumption. Qed.

(* colfilter, symmetric mode: y[i] = sum_a h[a] x[sym(i + a - L/2)], any L >= 1 *)
Theorem linefilter_sym_col (x:ten) L h : 1 <= L -> 1 <= tH x -> 1 <= tW x -> 0 < tC x ->
  is_ok (linefilter Op 2 x L h M_SYMM)
    (col_spec x (tH x + 2*(L/2) - L + 1) (fun n c i j => sumZ 0 L (fun a => h a *r tf x n c (sym_idx (tH x) (i + a - L/2)) j))).
Proof.
  intros HL HH HW HC. unfold linefilter, dlen. change (M_SYMM =? M_SYMM) with true. change (2 =? 2) with true. cbv iota.
  set (m := L/2). set (r := tH x).
  rewrite conv2d_r_col by (unfold t_gather; change (2 =? 2) with true; cbv iota; cbn [force tH tW]; fold r; unfold m; lia).
  cbn [bind is_ok]. unfold col_spec. cbn [force tN tC tH tW conv2d_dw]. rewrite w_line2; cbn [wO wKH wKW].
  unfold t_gather. change (2 =? 2) with true. cbv iota. cbn [tN tC tH tW]. fold r.
  repeat apply conj; try (unfold m; lia).
  intros n c i j Hc' Hi Hj. rewrite force_eq. rewrite <- w_line2. rewrite conv_col by exact Rth.
  apply sumZ_ext. intros a Ha. rewrite colz_force. unfold colz. cbn [tf tH tW tC force].
  replace (inr (r + 2*m) (i*1 + a*1 - 0) && inr (tW x) j) with true by (unfold inr, m in *; lia).
  replace (tC x / tC x) with 1 by (symmetry; apply Z.div_same; lia). rewrite Z.div_1_r.
  f_equal. rewrite symm_pad_sym by (unfold r; lia). f_equal. f_equal. lia.
Qed.

(* = the reference colfilter for odd L, with the registered filter the reverse of the given one *)
Corollary linefilter_ref_col (x:ten) L hh : 1 <= L -> L mod 2 = 1 -> 1 <= tH x -> 1 <= tW x -> 0 < tC x ->
  is_ok (linefilter Op 2 x L (rev_filt L hh) M_SYMM)
    (col_spec x (tH x) (fun n c i j => ref_colfilter Op L (tH x) hh (fun q => tf x n c q j) i)).
Proof.
  intros HL HLo HH HW HC. pose proof (linefilter_sym_col x L (rev_filt L hh) HL HH HW HC) as H.
  destruct (linefilter Op 2 x L _ M_SYMM) as [y|]; [|contradiction]. cbn [is_ok] in *.
  destruct H as (A1 & A2 & A3 & A4 & A5). unfold col_spec. repeat apply conj; auto; try lia.
  intros n c i j Hc' Hi Hj. rewrite A5 by lia. unfold ref_colfilter, rev_filt, ext_sym.
  rewrite (sumZ_rev Op Rth 0 L). apply sumZ_ext. intros a Ha. cbv beta.
  replace (L - 1 - (0 + L - 1 - a)) with a by lia. f_equal. f_equal. f_equal. lia.
Qed.
(* coldfilt: row 2k+t of the result is tree t: sum_a F_t[a] x[sym(4k + 2a + 2 + off_t - L)]; the highpass flag swaps the trees *)
Definition dtree (x:ten) (L:Z) (f:Z->R) (off:Z) n c k j : R :=
  sumZ 0 L (fun a => f a *r tf x n c (sym_idx (tH x) (4*k + 2*a + 2 + off - L)) j).

Theorem dfilt_col (x:ten) L ha hb (hp:bool) : 2 <= L -> 4 <= tH x -> tH x mod 4 = 0 -> 1 <= tW x -> 0 < tC x ->
  is_ok (dfilt Op 2 x L ha hb hp)
    (col_spec x (tH x / 2) (fun n c i j =>
       if Bool.eqb (i mod 2 =? 0) (negb hp) then dtree x L ha 0 n c (i/2) j else dtree x L hb 1 n c (i/2) j)).
Proof.
  intros HL HH H4 HW HC. unfold dfilt, dlen. change (2 =? 2) with true. cbv iota.
  set (r := tH x) in *. replace (negb (r mod 4 =? 0)) with false by lia. cbv iota.
  unfold sl, idx_slice. change (NONE =? NONE) with true. cbv iota.
  set (n := r + 2 * L).
  unfold pyclip. replace (2 <? 0) with false by lia. replace (3 <? 0) with false by lia. replace (n <? 0) with false by (unfold n; lia).
  replace (Z.min n 2) with 2 by (unfold n; lia). replace (Z.min n 3) with 3 by (unfold n; lia). replace (Z.min n n) with n by lia.
  unfold range_len. replace (n <=? 2) with false by (unfold n; lia). replace (n <=? 3) with false by (unfold n; lia).
  replace ((n - 2 + 2 - 1)/2) with (r/2 + L - 1) by (unfold n; lia).
  replace ((n - 3 + 2 - 1)/2) with (r/2 + L - 1) by (unfold n; lia).
  rewrite strides2.
  set (x1 := force Op (t_cat 1 _ _)).
  assert (Hx1: tN x1 = tN x /\ tC x1 = 2 * tC x /\ tH x1 = r/2 + L - 1 /\ tW x1 = tW x).
  { unfold x1, t_cat, t_gather. change (1 =? 1) with true. change (2 =? 2) with true. cbv iota. cbn [force tN tC tH tW]. repeat apply conj; lia. }
  destruct Hx1 as (X1 & X2 & X3 & X4).
  assert (Hx1v: forall nn oc i j, tf x1 nn oc i j =
      if oc <? tC x then tf x nn oc (symm_pad r L (2 + 2*i)) j else tf x nn (oc - tC x) (symm_pad r L (3 + 2*i)) j).
  { intros. unfold x1. rewrite force_eq. unfold t_cat, t_gather. change (1 =? 1) with true. change (2 =? 2) with true. cbv iota. cbn [tf tC]. reflexivity. }
  rewrite conv2d_r_col by lia. cbn [bind is_ok].
  unfold col_spec. cbn [force tN tC tH tW conv2d_dw]. rewrite w_line2; cbn [wO wKH wKW]. rewrite ?X1, ?X3, ?X4.
  repeat apply conj; try lia.
  intros nn c i j Hc Hi Hj. rewrite force_eq. cbn [tf]. rewrite force_eq. rewrite <- w_line2. rewrite conv_col by exact Rth.
  rewrite X2. replace (2 * tC x / (2 * tC x)) with 1 by (symmetry; apply Z.div_same; lia). rewrite Z.div_1_r.
  assert (Ht: i mod 2 = 0 \/ i mod 2 = 1) by lia.
  unfold dtree. fold r.
  assert (Hsym: forall q, symm_pad r L q = sym_idx r (q - L)) by (intros; apply symm_pad_sym; lia).
  destruct hp; cbn [negb]; destruct Ht as [Ht|Ht]; rewrite Ht; cbn [Z.eqb Bool.eqb];
    apply sumZ_ext; intros a Ha; unfold colz; rewrite X3, X4;
    replace (inr (r/2 + L - 1) (i/2*2 + a*1 - 0) && inr (tW x) j) with true by (unfold inr; lia);
    rewrite Hx1v.
  - replace (tC x + c <? tC x) with false by lia. f_equal. rewrite Hsym. f_equal; try lia. f_equal. lia.
  - replace (0 + c <? tC x) with true by lia. f_equal. rewrite Hsym. f_equal; try lia. f_equal. lia.
  - replace (0 + c <? tC x) with true by lia. f_equal. rewrite Hsym. f_equal; try lia. f_equal. lia.
  - replace (tC x + c <? tC x) with false by lia. f_equal. rewrite Hsym. f_equal; try lia. f_equal. lia.
Qed.
(* = the reference coldfilt with the given (unreversed) filters, pos = not highpass *)
Corollary dfilt_ref_col (x:ten) L HA HB (hp:bool) : 2 <= L -> 4 <= tH x -> tH x mod 4 = 0 -> 1 <= tW x -> 0 < tC x ->
  is_ok (dfilt Op 2 x L (rev_filt L HA) (rev_filt L HB) hp)
    (col_spec x (tH x / 2) (fun n c i j => ref_coldfilt Op L (tH x) HA HB (fun q => tf x n c q j) (negb hp) i)).
Proof.
  intros HL HH H4 HW HC. pose proof (dfilt_col x L (rev_filt L HA) (rev_filt L HB) hp HL HH H4 HW HC) as H.
  destruct (dfilt Op 2 x L _ _ hp) as [y|]; [|contradiction]. cbn [is_ok] in *.
  destruct H as (A1 & A2 & A3 & A4 & A5). unfold col_spec. repeat apply conj; auto.
  intros n c i j Hc Hi Hj. rewrite A5 by lia. unfold ref_coldfilt.
  destruct (Bool.eqb (i mod 2 =? 0) (negb hp)); unfold dtree, ref_tree_a, ref_tree_b, rev_filt, ext_sym;
    rewrite (sumZ_rev Op Rth 0 L); apply sumZ_ext; intros a Ha; cbv beta;
    replace (L - 1 - (0 + L - 1 - a)) with a by lia; f_equal; f_equal; f_equal; lia.
Qed.

(* colifilt *)
Definition ibase (m2:Z) (hp:bool) (t:Z) : Z :=
  if m2 mod 2 =? 0 then (if hp then (if t =? 0 then 1 else if t =? 1 then 0 else if t =? 2 then 3 else 2) else t)
  else (if hp then (if (t =? 0) || (t =? 2) then 2 else 1) else (if (t =? 0) || (t =? 2) then 1 else 2)).
Definition ifsel (m2:Z) (ha hb:Z->R) (t:Z) : Z->R :=
  let par := if m2 mod 2 =? 0 then (if t <? 2 then 0 else 1) else (if t <? 2 then 1 else 0) in   (* 0: h[2a], 1: h[2a+1] *)
  let f := if (t =? 0) || (t =? 2) then ha else hb in
  fun a => f (2*a + par).
Definition itree (x:ten) (m2:Z) (f:Z->R) (base:Z) n c k j : R :=
  sumZ 0 m2 (fun a => f a *r tf x n c (sym_idx (tH x) (base + 2*(k + a) - m2)) j).

Definition pick4 {A} (t:Z) (a b c d:A) : A := if t =? 0 then a else if t =? 1 then b else if t =? 2 then c else d.

(* the common core of colifilt: four gathers stacked on the channel axis, one grouped convolution, 4-way interleave *)
Lemma ifilt_core (x:ten) (m2 len:Z) (i1 i2 i3 i4:Z->Z) (f1 f2 f3 f4:Z->R) :
  1 <= m2 -> m2 <= len -> 1 <= tW x -> 0 < tC x ->
  let ch := tC x in
  let g (idx:Z->Z) := t_gather 2 len idx x in
  let x1 := force Op (t_cat 1 (t_cat 1 (g i1) (g i2)) (t_cat 1 (g i3) (g i4))) in
  let w := w_line 2 (4*ch) m2 (fun oc a => if oc <? ch then f1 a else if oc <? 2*ch then f2 a else if oc <? 3*ch then f3 a else f4 a) in
  exists y, conv2d_r Op x1 w 1 1 0 0 1 1 = Ok y /\ tN y = tN x /\ tH y = len - m2 + 1 /\ tW y = tW x /\
    forall n c t k j, 0 <= c < ch -> 0 <= t < 4 -> 0 <= k < len - m2 + 1 -> 0 <= j < tW x ->
      tf y n (t * ch + c) k j = sumZ 0 m2 (fun a => pick4 t f1 f2 f3 f4 a *r tf x n c (pick4 t i1 i2 i3 i4 (k + a)) j).
Proof.
  intros Hm Hlen HW HC ch g x1 w.
  assert (Hs: tN x1 = tN x /\ tC x1 = 4 * ch /\ tH x1 = len /\ tW x1 = tW x).
  { unfold x1, g, t_cat, t_gather. change (1 =? 1) with true. change (2 =? 2) with true. cbv iota. cbn [force tN tC tH tW]. unfold ch. repeat apply conj; lia. }
  destruct Hs as (X1 & X2 & X3 & X4).
  assert (Hv: forall n c t i j, 0 <= c < ch -> 0 <= t < 4 -> tf x1 n (t*ch + c) i j = tf x n c (pick4 t i1 i2 i3 i4 i) j).
  { intros n c t i j Hc Ht. unfold x1. rewrite force_eq. unfold g, t_cat, t_gather, pick4. change (1 =? 1) with true. change (2 =? 2) with true. cbv iota.
    cbn [tf tC]. fold ch.
    assert (Ht4: t = 0 \/ t = 1 \/ t = 2 \/ t = 3) by lia; destruct Ht4 as [E|[E|[E|E]]]; subst t; cbn [Z.eqb].
    - replace (0*ch + c <? ch + ch) with true by lia. replace (0*ch + c <? ch) with true by lia. f_equal; lia.
    - replace (1*ch + c <? ch + ch) with true by lia. replace (1*ch + c <? ch) with false by lia. f_equal; lia.
    - replace (2*ch + c <? ch + ch) with false by lia. replace (2*ch + c - (ch + ch) <? ch) with true by lia. f_equal; lia.
    - replace (3*ch + c <? ch + ch) with false by lia. replace (3*ch + c - (ch + ch) <? ch) with false by lia. f_equal. lia. }
  exists (conv2d_dw Op x1 w 1 1 0 0 1 1). split.
  { unfold w. apply conv2d_r_col; lia. }
  unfold w. cbn [conv2d_dw tN tC tH tW]. rewrite w_line2; cbn [wO wKH wKW]. rewrite X1, X3, X4.
  repeat apply conj; try lia.
  intros n c t k j Hc Ht Hk Hj. rewrite <- w_line2. rewrite conv_col by exact Rth.
  rewrite X2. replace (4 * ch / (4 * ch)) with 1 by (symmetry; apply Z.div_same; lia). rewrite Z.div_1_r.
  apply sumZ_ext. intros a Ha. unfold colz. rewrite X3, X4.
  replace (inr len (k*1 + a*1 - 0) && inr (tW x) j) with true by (unfold inr; lia).
  rewrite Hv by lia. f_equal.
  - unfold pick4. assert (Ht4: t = 0 \/ t = 1 \/ t = 2 \/ t = 3) by lia; destruct Ht4 as [E|[E|[E|E]]]; subst t; cbn [Z.eqb].
    + replace (0*ch + c <? ch) with true by lia. reflexivity.
    + replace (1*ch + c <? ch) with false by lia. replace (1*ch + c <? 2*ch) with true by lia. reflexivity.
    + replace (2*ch + c <? ch) with false by lia. replace (2*ch + c <? 2*ch) with false by lia. replace (2*ch + c <? 3*ch) with true by lia. reflexivity.
    + replace (3*ch + c <? ch) with false by lia. replace (3*ch + c <? 2*ch) with false by lia. replace (3*ch + c <? 3*ch) with false by lia. reflexivity.
  - f_equal. f_equal. lia.
Qed.
Lemma sl_eval n a b (xe:Z->Z) : n mod 2 = 0 -> 4 <= n ->
  (a = 0 /\ b = -2) \/ (a = 1 /\ b = -2) \/ (a = 2 /\ b = NONE) \/ (a = 3 /\ b = NONE) \/ (a = 1 /\ b = -1) \/ (a = 2 /\ b = -1) ->
  sl n a b 2 xe = (n/2 - 1, fun q => xe (a + 2*q)).
Proof.
  intros Hn2 Hn4 Hab. unfold sl, idx_slice, pyclip, range_len, NONE in *.
  destruct Hab as [(Ea&Eb)|[(Ea&Eb)|[(Ea&Eb)|[(Ea&Eb)|[(Ea&Eb)|(Ea&Eb)]]]]]; subst a b; cbn [Z.eqb Z.ltb Z.compare Pos.eqb Pos.compare Pos.compare_cont Z.opp];
  repeat match goal with |- context[?u <? ?v] => (replace (u <? v) with true by lia) || (replace (u <? v) with false by lia) end;
  repeat match goal with |- context[Z.min ?u ?v] => (replace (Z.min u v) with u by lia) || (replace (Z.min u v) with v by lia) end;
  repeat match goal with |- context[Z.max ?u ?v] => (replace (Z.max u v) with u by lia) || (replace (Z.max u v) with v by lia) end;
  repeat match goal with |- context[?u <=? ?v] => (replace (u <=? v) with true by lia) || (replace (u <=? v) with false by lia) end;
  f_equal; lia.
Qed.

Theorem ifilt_col (x:ten) L ha hb (hp:bool) : 2 <= L -> L mod 2 = 0 -> 2 <= tH x -> tH x mod 2 = 0 -> 1 <= tW x -> 0 < tC x ->
  is_ok (ifilt Op 2 x L ha hb hp)
    (col_spec x (2 * tH x) (fun n c i j => itree x (L/2) (ifsel (L/2) ha hb (i mod 4)) (ibase (L/2) hp (i mod 4)) n c (i/4) j)).
Proof.
  intros HL HLe HH H2 HW HC. unfold ifilt, dlen. change (2 =? 2) with true. cbv iota.
  set (r := tH x) in *. set (m2 := L/2) in *. replace (negb (r mod 2 =? 0)) with false by lia. cbv iota.
  set (n := r + 2 * m2).
  assert (Hn2: n mod 2 = 0) by (unfold n; lia). assert (Hn4: 4 <= n) by (unfold n, m2; lia).
  replace (range_len 1 L 2) with m2 by (unfold range_len, m2; replace (L <=? 1) with false by lia; lia).
  replace (range_len 0 L 2) with m2 by (unfold range_len, m2; replace (L <=? 0) with false by lia; lia).
  rewrite Z.eqb_refl. cbn [andb negb].
  assert (Hlen: n/2 - 1 - m2 + 1 = r/2) by (unfold n; lia).
  assert (Hcore: forall (b1 b2 b3 b4:Z) (f1 f2 f3 f4:Z->R) (hpv:bool),
     (forall t, 0 <= t < 4 -> pick4 t b1 b2 b3 b4 = ibase m2 hpv t) ->
     (forall t a, 0 <= t < 4 -> pick4 t f1 f2 f3 f4 a = ifsel m2 ha hb t a) ->
     is_ok (do y <- conv2d_r Op
       (force Op (t_cat 1 (t_cat 1 (t_gather 2 (n/2 - 1) (fun q => symm_pad r m2 (b1 + 2*q)) x) (t_gather 2 (n/2 - 1) (fun q => symm_pad r m2 (b2 + 2*q)) x))
                          (t_cat 1 (t_gather 2 (n/2 - 1) (fun q => symm_pad r m2 (b3 + 2*q)) x) (t_gather 2 (n/2 - 1) (fun q => symm_pad r m2 (b4 + 2*q)) x))))
       (w_line 2 (4 * tC x) m2 (fun oc a => if oc <? tC x then f1 a else if oc <? 2 * tC x then f2 a else if oc <? 3 * tC x then f3 a else f4 a)) 1 1 0 0 1 1;
       if negb (4 * tH (force Op y) =? 2 * r) then Err E_SHAPE else
       Ok (force Op (mkT (tN (force Op y)) (tC x) (2 * r) (tW (force Op y)) (fun n0 c i j => tf (force Op y) n0 (i mod 4 * tC x + c) (i / 4) j))))
     (col_spec x (2 * r) (fun n0 c i j => itree x m2 (ifsel m2 ha hb (i mod 4)) (ibase m2 hpv (i mod 4)) n0 c (i/4) j))).
  { intros b1 b2 b3 b4 f1 f2 f3 f4 hpv Hb Hf.
    destruct (ifilt_core x m2 (n/2 - 1) (fun q => symm_pad r m2 (b1 + 2*q)) (fun q => symm_pad r m2 (b2 + 2*q))
                (fun q => symm_pad r m2 (b3 + 2*q)) (fun q => symm_pad r m2 (b4 + 2*q)) f1 f2 f3 f4
                ltac:(unfold m2; lia) ltac:(unfold n; lia) HW HC) as (y & Hy & Y1 & Y3 & Y4 & Y5).
    cbv zeta in Hy. rewrite Hy. cbn [bind].
    cbn [force tH]. rewrite Y3, Hlen. replace (negb (4 * (r/2) =? 2 * r)) with false by lia. cbv iota.
    cbn [is_ok]. unfold col_spec. cbn [force tN tC tH tW]. repeat apply conj; try lia.
    intros nn c i j Hc Hi Hj. rewrite force_eq. cbn [tf]. rewrite force_eq.
    rewrite Y5 by lia. unfold itree. apply sumZ_ext. intros a Ha. fold r.
    assert (Ht4: 0 <= i mod 4 < 4) by lia.
    rewrite Hf by lia. f_equal. f_equal.
    specialize (Hb (i mod 4) Ht4). unfold pick4 in *.
    destruct (i mod 4 =? 0); [|destruct (i mod 4 =? 1); [|destruct (i mod 4 =? 2)]];
      rewrite symm_pad_sym by lia; f_equal; lia. }
  assert (Hp: forall t, 0 <= t < 4 -> t = 0 \/ t = 1 \/ t = 2 \/ t = 3) by (intros; lia).
  destruct (m2 mod 2 =? 0) eqn:Ee; destruct hp;
    rewrite !(sl_eval n _ _ _ Hn2 Hn4) by tauto; cbv iota beta; cbn [fst snd]; apply Hcore;
    try (intros t Ht; destruct (Hp t Ht) as [E|[E|[E|E]]]; subst t; unfold pick4, ibase; rewrite Ee; reflexivity);
    try (intros t a Ht; destruct (Hp t Ht) as [E|[E|[E|E]]]; subst t; unfold pick4, ifsel; rewrite Ee; cbn [Z.eqb Z.ltb Z.compare orb Pos.compare Pos.compare_cont Pos.eqb]; f_equal; lia).
Qed.
(* itree with the registered (reversed) filters is the reference's polyphase branch *)
Lemma itree_ibranch (x:ten) L (F:Z->R) par base n c k j : 2 <= L -> L mod 2 = 0 -> (par = 0 \/ par = 1) ->
  itree x (L/2) (fun a => rev_filt L F (2*a + par)) base n c k j
  = ibranch Op (L/2) (tH x) F (1 - par) (base + L/2 - 2) (fun q => tf x n c q j) k.
Proof.
  intros HL HLe Hpar. unfold itree, ibranch, rev_filt, ext_sym. set (m2 := L/2).
  rewrite (sumZ_rev Op Rth 0 m2). apply sumZ_ext. intros a Ha. cbv beta. f_equal.
  - f_equal. unfold m2 in *. lia.
  - f_equal. f_equal. lia.
Qed.

Corollary ifilt_ref_col (x:ten) L HA HB (hp:bool) : 2 <= L -> L mod 2 = 0 -> 2 <= tH x -> tH x mod 2 = 0 -> 1 <= tW x -> 0 < tC x ->
  is_ok (ifilt Op 2 x L (rev_filt L HA) (rev_filt L HB) hp)
    (col_spec x (2 * tH x) (fun n c i j => ref_colifilt Op L (tH x) HA HB (fun q => tf x n c q j) (negb hp) i)).
Proof.
  intros HL HLe HH H2 HW HC. pose proof (ifilt_col x L (rev_filt L HA) (rev_filt L HB) hp HL HLe HH H2 HW HC) as H.
  destruct (ifilt Op 2 x L _ _ hp) as [y|]; [|contradiction]. cbn [is_ok] in *.
  destruct H as (A1 & A2 & A3 & A4 & A5). unfold col_spec. repeat apply conj; auto.
  intros n c i j Hc Hi Hj. rewrite A5 by lia. unfold ref_colifilt. cbv zeta.
  assert (Ht4: i mod 4 = 0 \/ i mod 4 = 1 \/ i mod 4 = 2 \/ i mod 4 = 3) by lia.
  unfold ifsel, ibase.
  destruct (L/2 mod 2 =? 0) eqn:Ee; destruct hp; cbn [negb]; destruct Ht4 as [E|[E|[E|E]]]; rewrite E;
    cbn [Z.eqb Z.ltb Z.compare orb Pos.compare Pos.compare_cont Pos.eqb];
    rewrite itree_ibranch by (auto; lia); f_equal; lia.
Qed.
End S.
