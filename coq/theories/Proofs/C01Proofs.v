(* C01: the analysis bank (tensor-level model of afb1d) equals PyWavelets' closed form, one level, along rows. *)
From PW Require Import Base.Ops Base.Sum Base.Sig Base.Tensor Model.Dwt Spec.Line Proofs.ConvLine Proofs.DwtNF.
Ltac Zify.zify_post_hook ::= Z.to_euclidean_division_equations.

Section S.
Context {R:Type} (Op:Ops R) (Rth: RingOk Op).
Add Ring Rr : Rth.
Notation ten := (@ten R).
Infix "+r" := (radd Op) (at level 50, left associativity).
Infix "*r" := (rmul Op) (at level 40, left associativity).
Notation sumZ := (sumZ Op).

(* the module registers h = reversed decomposition filter *)
Lemma ana_pywt L (dec e:Z->R) k :
  ana Op L (rev_filt L dec) e k = sumZ 0 L (fun m => dec m *r e (2*k + 1 - m)).
Proof.
  unfold ana, rev_filt. rewrite (sumZ_rev Op Rth 0 L). apply sumZ_ext. intros m Hm. cbv beta.
  replace (L - 1 - (0 + L - 1 - m)) with m by lia. f_equal. f_equal. lia.
Qed.
Lemma ana_per_pywt L N' (dec x':Z->R) k :
  ana_per Op L N' (rev_filt L dec) x' k = sumZ 0 L (fun m => dec m *r x' ((2*k + L/2 - m) mod N')).
Proof.
  unfold ana_per, rev_filt. rewrite (sumZ_rev Op Rth 0 L). apply sumZ_ext. intros m Hm. cbv beta.
  replace (L - 1 - (0 + L - 1 - m)) with m by lia. f_equal. f_equal. f_equal. lia.
Qed.

Lemma refl_idx_full N q : 2 <= N -> -(N-1) <= q <= 2*N-2 -> refl_idx N q = refl_full N q.
Proof.
  intros HN Hq. unfold refl_idx, refl_full. cbv zeta.
  destruct (q <? 0) eqn:E1.
  - rewrite <- (Z.mod_unique q (2*N-2) (-1) (q + 2*N - 2)) by lia.
    destruct (q + 2*N - 2 <? N) eqn:E; lia.
  - destruct (q <? N) eqn:E2.
    + rewrite Z.mod_small by lia. rewrite E2. reflexivity.
    + destruct (Z.eq_dec q (2*N-2)) as [->|Hne].
      * rewrite Z.mod_same by lia. replace (0 <? N) with true by lia. lia.
      * rewrite Z.mod_small by lia. rewrite E2. lia.
Qed.

Definition registered (L:Z) (d0 d1:Z->R) : (Z->R)*(Z->R) := (rev_filt L d0, rev_filt L d1).
Definition dsel (d0 d1:Z->R) (t:Z) : Z->R := if t mod 2 =? 0 then d0 else d1.

(* one statement for the four non-periodization modes; output channel 2c+t = band t of input channel c *)
Definition level_ok (mode L N:Z) : Prop :=
  mode = M_ZERO \/ mode = M_SYMM \/ mode = M_PERIODIC \/
  (mode = M_REFLECT /\ L - 2 < N /\ (2 * ((N + L - 1)/2 - 1) - N + L + 1)/2 < N).

Theorem afb1d_row_pywt x L d0 d1 mode : 2 <= L -> 1 <= tW x -> 1 <= tH x -> 0 < tC x ->
  level_ok mode L (tW x) -> (mode = M_REFLECT -> 2 <= tW x) ->
  is_ok (afb1d Op x L (rev_filt L d0) (rev_filt L d1) mode 3)
    (fun y => tN y = tN x /\ tC y = 2 * tC x /\ tH y = tH x /\ tW y = (tW x + L - 1)/2 /\
       forall n c t i k, 0 <= t < 2 -> 0 <= i < tH x -> 0 <= k < (tW x + L - 1)/2 ->
         tf y n (2*c + t) i k = pywt_dwt Op mode L (tW x) (dsel d0 d1 t) (fun q => tf x n c i q) k).
Proof.
  intros HL HN HH HC Hm Hr2.
  assert (Hsel: forall c t, 0 <= t < 2 -> hsel (rev_filt L d0) (rev_filt L d1) (2*c+t) = rev_filt L (dsel d0 d1 t)).
  { intros c t Ht. unfold hsel, dsel. replace ((2*c+t) mod 2) with t by lia. rewrite (Z.mod_small t 2) by lia.
    destruct (t =? 0); reflexivity. }
  destruct (Z.eq_dec mode M_ZERO) as [->|Hnz].
  - pose proof (afb1d_zero_row Op Rth x L (rev_filt L d0) (rev_filt L d1) HL HN HH HC) as H.
    destruct (afb1d Op x L _ _ M_ZERO 3) as [y|]; [|contradiction]. cbn [is_ok] in *.
    destruct H as (S1 & S2 & S3 & S4 & S5). repeat apply conj; auto.
    intros n c t i k Ht Hi Hk. rewrite S5 by lia. rewrite Hsel by lia. rewrite ana_pywt.
    unfold pywt_dwt. apply sumZ_ext. intros m _. f_equal.
    replace ((2*c+t)/2) with c by lia.
    unfold ext_of. change (M_ZERO =? 0) with true. cbv iota. unfold ext_zero, rowz, zx.
    rewrite (inr_true (tH x) i) by lia. reflexivity.
  - assert (Hg: gather_mode_ok mode (tW x) (L-2) ((2 * ((tW x + L - 1)/2 - 1) - tW x + L + 1)/2)).
    { destruct Hm as [H|[H|[H|(H & H1 & H2)]]]; [contradiction | left; exact H | right; left; exact H | right; right; auto]. }
    pose proof (afb1d_gather_row Op Rth x L (rev_filt L d0) (rev_filt L d1) mode HL HN HH HC Hg) as H.
    destruct (afb1d Op x L _ _ mode 3) as [y|]; [|contradiction]. cbn [is_ok] in *.
    destruct H as (S1 & S2 & S3 & S4 & S5). repeat apply conj; auto.
    intros n c t i k Ht Hi Hk. rewrite S5 by lia. rewrite Hsel by lia. rewrite ana_pywt.
    unfold pywt_dwt. apply sumZ_ext. intros m Hm'. f_equal.
    replace ((2*c+t)/2) with c by lia.
    unfold ext_of, pad_idx.
    destruct Hg as [->|[->|(-> & G1 & G2)]].
    + change (M_SYMM =? M_SYMM) with true. change (M_SYMM =? 0) with false. change (M_SYMM =? 1) with true. cbv iota.
      unfold ext_sym. f_equal. f_equal. lia.
    + change (M_PERIODIC =? M_SYMM) with false. change (M_PERIODIC =? M_PERIODIC) with true.
      change (M_PERIODIC =? 0) with false. change (M_PERIODIC =? 1) with false. change (M_PERIODIC =? 4) with false. cbv iota.
      unfold ext_wrap, wrap_idx. f_equal. f_equal. lia.
    + change (M_REFLECT =? M_SYMM) with false. change (M_REFLECT =? M_PERIODIC) with false.
      change (M_REFLECT =? 0) with false. change (M_REFLECT =? 1) with false. change (M_REFLECT =? 4) with true. cbv iota.
      unfold ext_refl. f_equal. replace (2*k+1-m-0) with (2*k+1-m) by lia. apply refl_idx_full. apply Hr2; reflexivity.
      lia.
Qed.

(* periodization, every level length N' = even_len N at least the filter length *)
Theorem afb1d_row_pywt_per x L d0 d1 : 2 <= L -> L mod 2 = 0 -> L <= even_len (tW x) -> 1 <= tW x -> 1 <= tH x -> 0 < tC x ->
  is_ok (afb1d Op x L (rev_filt L d0) (rev_filt L d1) M_PER 3)
    (fun y => tN y = tN x /\ tC y = 2 * tC x /\ tH y = tH x /\ tW y = even_len (tW x) / 2 /\
       forall n c t i k, 0 <= t < 2 -> 0 <= i < tH x -> 0 <= k < even_len (tW x) / 2 ->
         tf y n (2*c + t) i k = pywt_dwt_per Op L (tW x) (dsel d0 d1 t) (fun q => tf x n c i q) k).
Proof.
  intros HL HLe HLN HN HH HC.
  pose proof (afb1d_per_row Op Rth x L (rev_filt L d0) (rev_filt L d1) HL HLe HLN HN HH HC) as H.
  destruct (afb1d Op x L _ _ M_PER 3) as [y|]; [|contradiction]. cbn [is_ok] in *.
  destruct H as (S1 & S2 & S3 & S4 & S5). repeat apply conj; auto.
  intros n c t i k Ht Hi Hk. rewrite S5 by lia. unfold afb_per_row_line.
  replace (hsel (rev_filt L d0) (rev_filt L d1) (2*c+t)) with (rev_filt L (dsel d0 d1 t)).
  2:{ unfold hsel, dsel. replace ((2*c+t) mod 2) with t by lia. rewrite (Z.mod_small t 2) by lia. destruct (t =? 0); reflexivity. }
  rewrite ana_per_pywt. unfold pywt_dwt_per. replace ((2*c+t)/2) with c by lia. reflexivity.
Qed.
End S.
