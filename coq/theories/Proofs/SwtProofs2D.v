(* C13 in two dimensions and for every J: the column twin of the a-trous level, one 2-D level = PyWavelets' swt2 closed form
   axis by axis, and the level loop of SWTForward (dilation doubling, next input = approximation band). *)
From PW Require Import Base.Ops Base.Sum Base.Sig Base.Tensor Model.Dwt Spec.Line Proofs.ConvLine Proofs.DwtNF Proofs.DwtNFcol Proofs.SwtProofs.
Ltac Zify.zify_post_hook ::= Z.to_euclidean_division_equations.

Section S.
Context {R:Type} (Op:Ops R) (Rth: RingOk Op).
Add Ring Rr : Rth.
Notation ten := (@ten R).
Infix "+r" := (radd Op) (at level 50, left associativity).
Infix "*r" := (rmul Op) (at level 40, left associativity).
Notation sumZ := (sumZ Op).

Theorem atrous_periodic_col (x:ten) L h0 h1 dil : 2 <= L -> L mod 2 = 0 -> 1 <= dil -> 1 <= tW x -> 1 <= tH x -> 0 < tC x ->
  is_ok (afb1d_atrous Op x L h0 h1 M_PERIODIC 2 dil)
    (afb_col_spec x (tH x) (fun n oc i j => swt_line Op L (tH x) dil (hsel h0 h1 oc) (fun q => tf x n (oc/2) q j) i)).
Proof.
  intros HL HLe Hd HN HH HC. unfold afb1d_atrous.
  assert (HL2: 2 * (L * dil / 2) = L * dil).
  { assert (L * dil = 2 * ((L/2) * dil)) by (replace L with (2 * (L/2)) at 1 by lia; ring). lia. }
  set (L2 := L * dil / 2) in *.
  destruct (mypad_gather Op 2 (L2 - dil) L2 M_PERIODIC x) as (idx & Hpad & Hidx); [change (dlen 2 x) with (tH x); lia | right; left; reflexivity |].
  change (dlen 2 x) with (tH x) in *. rewrite Hpad. cbn [bind]. change (2 =? 2) with true. cbv iota.
  assert (Hdl: dil * (L - 1) = L * dil - dil) by ring.
  unfold w_afb. rewrite conv2d_r_col by (unfold t_gather; change (2 =? 2) with true; cbv iota; cbn [force tH tW]; nia).
  cbn [bind is_ok]. unfold afb_col_spec. cbn [force tN tC tH tW conv2d_dw]. rewrite w_line2; cbn [wO wKH wKW].
  unfold t_gather. change (2 =? 2) with true. cbv iota. cbn [tN tC tH tW].
  repeat apply conj; try lia.
  intros n oc i j Hi Hj. rewrite force_eq. rewrite <- w_line2. rewrite conv_col by exact Rth.
  unfold swt_line. apply sumZ_ext. intros b Hb. rewrite colz_force. unfold colz. cbn [tf tH tW tC force].
  assert (Hbd: 0 <= b * dil <= (L-1) * dil) by nia.
  replace (inr (tH x + (L2 - dil) + L2) (i * 1 + b * dil - 0) && inr (tW x) j) with true
    by (unfold inr; nia).
  replace (2 * tC x / tC x) with 2 by (symmetry; apply Z.div_mul; lia).
  rewrite Hidx. unfold hsel. f_equal. destruct (oc mod 2 =? 0); reflexivity.
  f_equal. unfold pad_idx. change (M_PERIODIC =? M_SYMM) with false. change (M_PERIODIC =? M_PERIODIC) with true. cbv iota.
  unfold wrap_idx. f_equal. lia.
Qed.

(* swt2, one level, axis by axis: rows (last axis) with the row pair, then columns with the column pair *)
Definition swt2_line (Lr:Z) (hr:Z->R) (Lc:Z) (hc:Z->R) (H W d:Z) (img:Z->Z->R) (i j:Z) : R :=
  swt_line Op Lc H d hc (fun p => swt_line Op Lr W d hr (fun q => img p q) j) i.
Lemma swt_line_ext L N d h (f g:Z->R) j : 0 < N -> (forall q, 0 <= q < N -> f q = g q) -> swt_line Op L N d h f j = swt_line Op L N d h g j.
Proof. intros HN H. unfold swt_line. apply sumZ_ext. intros b Hb. f_equal. apply H. apply Z.mod_pos_bound. exact HN. Qed.

(* channel 4c + 2t + s: row band t, column band s, full resolution *)
Definition swt_level (Lr:Z) (h0r h1r:Z->R) (Lc:Z) (h0c h1c:Z->R) (d:Z) (x y:ten) : Prop :=
  tN y = tN x /\ tC y = 4 * tC x /\ tH y = tH x /\ tW y = tW x /\
  forall n c t s i j, 0 <= t < 2 -> 0 <= s < 2 -> 0 <= i < tH x -> 0 <= j < tW x ->
    tf y n (4*c + 2*t + s) i j
    = swt2_line Lr (if t =? 0 then h0r else h1r) Lc (if s =? 0 then h0c else h1c) (tH x) (tW x) d (fun p q => tf x n c p q) i j.

Theorem afb2d_atrous_swt2 (x:ten) Lr h0r h1r Lc h0c h1c dil :
  2 <= Lr -> Lr mod 2 = 0 -> 2 <= Lc -> Lc mod 2 = 0 -> 1 <= dil -> 1 <= tW x -> 1 <= tH x -> 0 < tC x ->
  is_ok (afb2d_atrous Op x Lr h0r h1r Lc h0c h1c M_PERIODIC dil) (swt_level Lr h0r h1r Lc h0c h1c dil x).
Proof.
  intros HLr HLre HLc HLce Hd HW HH HC. unfold afb2d_atrous.
  pose proof (atrous_periodic_row Op Rth x Lr h0r h1r dil HLr HLre Hd HW HH HC) as Hr.
  destruct (afb1d_atrous Op x Lr h0r h1r M_PERIODIC 3 dil) as [lohi|]; [|contradiction]. cbn [is_ok bind] in *.
  destruct Hr as (R1 & R2 & R3 & R4 & R5).
  pose proof (atrous_periodic_col lohi Lc h0c h1c dil HLc HLce Hd ltac:(lia) ltac:(lia) ltac:(lia)) as Hc.
  destruct (afb1d_atrous Op lohi Lc h0c h1c M_PERIODIC 2 dil) as [y|]; [|contradiction]. cbn [is_ok] in *.
  destruct Hc as (C1 & C2 & C3 & C4 & C5).
  unfold swt_level. repeat apply conj; try lia.
  intros n c t s i j Ht Hs Hi Hj. replace (4*c + 2*t + s) with (2*(2*c+t) + s) by lia.
  rewrite C5 by lia. unfold swt2_line, hsel. replace ((2*(2*c+t)+s) mod 2) with s by lia. replace ((2*(2*c+t)+s)/2) with (2*c+t) by lia.
  rewrite R3. replace (s =? 0) with (s mod 2 =? 0) by (rewrite (Z.mod_small s 2) by lia; reflexivity).
  rewrite (Z.mod_small s 2) by lia.
  apply swt_line_ext; [lia|]. intros p Hp. rewrite R5 by lia. unfold hsel. replace ((2*c+t) mod 2) with t by lia. replace ((2*c+t)/2) with c by lia.
  reflexivity.
Qed.

(* every J: level k uses dilation 2^(k-1) and the approximation band of level k-1 *)
Fixpoint swt_rel (lev:Z->ten->ten->Prop) (J:nat) (d:Z) (x:ten) (ys:list ten) : Prop :=
  match J, ys with
  | O, nil => True
  | S J', y :: rest => lev d x y /\ swt_rel lev J' (2*d) (force Op (band4 0 y)) rest
  | _, _ => False
  end.
Theorem swt_levels (J:nat) : forall (x:ten) Lr h0r h1r Lc h0c h1c dil,
  2 <= Lr -> Lr mod 2 = 0 -> 2 <= Lc -> Lc mod 2 = 0 -> 1 <= dil -> 1 <= tW x -> 1 <= tH x -> 0 < tC x ->
  is_ok (SWTForward_from Op J dil x Lr h0r h1r Lc h0c h1c M_PERIODIC)
    (fun ys => swt_rel (swt_level Lr h0r h1r Lc h0c h1c) J dil x ys /\ length ys = J).
Proof.
  induction J as [|J IH]; intros x Lr h0r h1r Lc h0c h1c dil HLr HLre HLc HLce Hd HW HH HC; cbn [SWTForward_from].
  - cbn [is_ok swt_rel length]. split; [exact I | reflexivity].
  - pose proof (afb2d_atrous_swt2 x Lr h0r h1r Lc h0c h1c dil HLr HLre HLc HLce Hd HW HH HC) as Hl.
    destruct (afb2d_atrous Op x Lr h0r h1r Lc h0c h1c M_PERIODIC dil) as [y|]; [|contradiction]. cbn [is_ok bind] in *.
    pose proof Hl as (L1 & L2 & L3 & L4 & L5).
    assert (Hb: tN (force Op (band4 0 y)) = tN x /\ tC (force Op (band4 0 y)) = tC x /\ tH (force Op (band4 0 y)) = tH x /\ tW (force Op (band4 0 y)) = tW x).
    { unfold band4, t_chmap. cbn [force tN tC tH tW]. repeat split; lia. }
    destruct Hb as (B1 & B2 & B3 & B4).
    specialize (IH (force Op (band4 0 y)) Lr h0r h1r Lc h0c h1c (2*dil) HLr HLre HLc HLce ltac:(lia) ltac:(lia) ltac:(lia) ltac:(lia)).
    destruct (SWTForward_from Op J (2*dil) (force Op (band4 0 y)) Lr h0r h1r Lc h0c h1c M_PERIODIC) as [rest|]; [|contradiction]. cbn [is_ok bind] in *.
    destruct IH as (I1 & I2). split; [cbn [swt_rel]; split; assumption | cbn [length]; rewrite I2; reflexivity].
Qed.

(* the module maps the default mode periodization to periodic *)
Theorem SWTForward_levels (J:nat) (x:ten) Lr h0r h1r Lc h0c h1c mode : mode = M_PER \/ mode = M_PERIODIC ->
  2 <= Lr -> Lr mod 2 = 0 -> 2 <= Lc -> Lc mod 2 = 0 -> 1 <= tW x -> 1 <= tH x -> 0 < tC x ->
  is_ok (SWTForward Op J x Lr h0r h1r Lc h0c h1c mode)
    (fun ys => swt_rel (swt_level Lr h0r h1r Lc h0c h1c) J 1 x ys /\ length ys = J).
Proof.
  intros Hm HLr HLre HLc HLce HW HH HC. unfold SWTForward.
  replace (if mode =? M_PER then M_PERIODIC else mode) with M_PERIODIC by (destruct Hm as [-> | ->]; reflexivity).
  apply swt_levels; try assumption. lia.
Qed.
End S.
