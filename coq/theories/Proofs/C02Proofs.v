(* C02: one level of the 1-D transform reconstructs, on the tensor-level model: SFB1D(AFB1D(x)) = x on the extent,
   for the four non-periodization modes, under the filter-only kernel condition PRcond. *)
From PW Require Import Base.Ops Base.Sum Base.Sig Base.Tensor Model.Dwt Spec.Line Proofs.ConvLine Proofs.DwtNF Proofs.LineTheory
  Proofs.SfbNF Proofs.C01Proofs.
Ltac Zify.zify_post_hook ::= Z.to_euclidean_division_equations.

Section S.
Context {R:Type} (Op:Ops R) (Rth: RingOk Op).
Add Ring Rr : Rth.
Notation ten := (@ten R).
Infix "+r" := (radd Op) (at level 50, left associativity).
Infix "*r" := (rmul Op) (at level 40, left associativity).
Notation sumZ := (sumZ Op).

Lemma ext_of_in mode N (f:Z->R) i : 0 <= i < N -> (mode = M_REFLECT -> 2 <= N) -> ext_of Op mode N f i = f i.
Proof.
  intros Hi Hr. unfold ext_of.
  destruct (mode =? 0) eqn:E0. { unfold ext_zero. apply zx_in; lia. }
  destruct (mode =? 1) eqn:E1. { unfold ext_sym. rewrite sym_idx_in by lia. reflexivity. }
  destruct (mode =? 4) eqn:E4.
  - unfold ext_refl, refl_full. cbv zeta. assert (2 <= N) by (apply Hr; unfold M_REFLECT; lia).
    rewrite Z.mod_small by lia. replace (i <? N) with true by lia. reflexivity.
  - unfold ext_wrap. rewrite Z.mod_small by lia. reflexivity.
Qed.

Lemma syn_synL L n g0 g1 (lo hi:Z->R) m : syn Op L n g0 g1 lo hi m = synL Op L g0 g1 0 n lo hi m.
Proof. unfold syn, synL. apply sumZ_ext. intros; ring. Qed.
Lemma pywt_anaL mode L N dec x k : pywt_dwt Op mode L N dec x k = anaL Op L dec (ext_of Op mode N x) k.
Proof. reflexivity. Qed.

Theorem pr_level_1d (x:ten) L d0 d1 g0 g1 mode :
  2 <= L -> 1 <= tW x -> 1 <= tH x -> 0 < tC x -> level_ok mode L (tW x) -> (mode = M_REFLECT -> 2 <= tW x) ->
  PRcond Op L d0 d1 g0 g1 ->
  is_ok (AFB1D_fwd Op x L (rev_filt L d0) (rev_filt L d1) mode) (fun r =>
    is_ok (SFB1D_fwd Op (fst r) (snd r) L g0 g1 mode) (fun y =>
      tN y = tN x /\ tC y = tC x /\ tH y = tH x /\ tW x <= tW y <= tW x + 1 /\
      forall n c i j, 0 <= c < tC x -> 0 <= i < tH x -> 0 <= j < tW x -> tf y n c i j = tf x n c i j)).
Proof.
  intros HL HW HH HC Hm Hr2 HPR.
  unfold AFB1D_fwd.
  pose proof (afb1d_row_pywt Op Rth x L d0 d1 mode HL HW HH HC Hm Hr2) as Ha.
  destruct (afb1d Op x L _ _ mode 3) as [lohi|]; [|contradiction]. cbn [is_ok bind fst snd] in *.
  destruct Ha as (A1 & A2 & A3 & A4 & A5).
  set (n := (tW x + L - 1)/2) in *.
  assert (Hrl0: range_len 0 (tC lohi) 2 = tC x) by (unfold range_len; rewrite A2; replace (2 * tC x <=? 0) with false by lia; lia).
  assert (Hrl1: range_len (Z.min 1 (tC lohi)) (tC lohi) 2 = tC x).
  { unfold range_len. rewrite A2. replace (Z.min 1 (2 * tC x)) with 1 by lia. replace (2 * tC x <=? 1) with false by lia. lia. }
  rewrite Hrl0, Hrl1.
  set (x0 := force Op (t_chmap (tC x) (fun c => 2*c) lohi)).
  set (x1 := force Op (t_chmap (tC x) (fun c => 2*c+1) lohi)).
  assert (Hnm: nonper_mode mode).
  { destruct Hm as [H|[H|[H|(H & _)]]]; subst mode; unfold nonper_mode; tauto. }
  assert (Hss: same_shape x0 x1 = true) by (unfold same_shape, x0, x1; cbn [force t_chmap tN tC tH tW]; rewrite !Z.eqb_refl; reflexivity).
  unfold SFB1D_fwd.
  assert (Hx0s: tN x0 = tN x /\ tC x0 = tC x /\ tH x0 = tH x /\ tW x0 = n) by (unfold x0; cbn [force t_chmap tN tC tH tW]; repeat split; lia).
  destruct Hx0s as (X1 & X2 & X3 & X4).
  pose proof (sfb1d_nonper_row Op Rth x0 x1 L g0 g1 mode Hnm Hss HL ltac:(lia) ltac:(rewrite X4; unfold n; lia)) as Hb.
  destruct (sfb1d Op x0 x1 L g0 g1 mode 3) as [y|]; [|contradiction]. cbn [is_ok] in *.
  destruct Hb as (B1 & B2 & B3 & B4 & B5). rewrite X1, X2, X3, X4 in *.
  repeat apply conj; try (unfold n in *; lia).
  intros nn c i j Hc Hi Hj. rewrite B5 by (unfold n in *; lia).
  rewrite syn_synL. unfold synL.
  (* the coefficient lines are the analysis of the extended signal *)
  set (X := ext_of Op mode (tW x) (fun q => tf x nn c i q)).
  rewrite (sumZ_ext Op 0 n _ (fun k => zx Op L g0 (j + (L-2) - 2*k) *r anaL Op L d0 X k +r zx Op L g1 (j + (L-2) - 2*k) *r anaL Op L d1 X k)).
  2:{ intros k Hk. unfold x0, x1. rewrite !force_eq. unfold t_chmap. cbn [tf].
      pose proof (A5 nn c 0 i k ltac:(lia) ltac:(lia) ltac:(lia)) as H0.
      pose proof (A5 nn c 1 i k ltac:(lia) ltac:(lia) ltac:(lia)) as H1.
      replace (2*c + 0) with (2*c) in H0 by lia. rewrite H0, H1.
      unfold dsel. change (0 mod 2 =? 0) with true. change (1 mod 2 =? 0) with false. cbv iota.
      rewrite !pywt_anaL. fold X. ring. }
  change (sumZ 0 n (fun k => zx Op L g0 (j + (L-2) - 2*k) *r anaL Op L d0 X k +r zx Op L g1 (j + (L-2) - 2*k) *r anaL Op L d1 X k))
    with (synL Op L g0 g1 0 n (anaL Op L d0 X) (anaL Op L d1 X) j).
  rewrite (line_pr_exact Op Rth L d0 d1 g0 g1 ltac:(lia) 0 n X j).
  - unfold X. apply ext_of_in; [lia | exact Hr2].
  - intros d Hd. apply (PRcond_at Op Rth L d0 d1 g0 g1 0 n j d ltac:(lia) HPR Hd); [|unfold n; lia].
    intros k Hk. unfold n in *. lia.
  - lia.
Qed.
End S.

(* ---------------- multi-level: DWT1DInverse (DWT1DForward x) = x on the extent, every J ---------------- *)
Section Multi.
Context {R:Type} (Op:Ops R) (Rth: RingOk Op).
Add Ring Rr2 : Rth.
Notation ten := (@ten R).
Notation sumZ := (sumZ Op).
Infix "+r" := (radd Op) (at level 50, left associativity).
Infix "*r" := (rmul Op) (at level 40, left associativity).

(* one synthesis level on coefficient tensors that AGREE with the analysis of x on their extent (the running lowpass of
   the inverse is such a tensor: it equals the forward lowpass on its first n samples) *)
Theorem pr_level_1d_ext (x lo hi:ten) L d0 d1 g0 g1 mode :
  2 <= L -> 1 <= tW x -> 1 <= tH x -> 0 < tC x -> level_ok mode L (tW x) -> (mode = M_REFLECT -> 2 <= tW x) ->
  PRcond Op L d0 d1 g0 g1 ->
  let n := (tW x + L - 1)/2 in
  tN lo = tN x -> tC lo = tC x -> tH lo = tH x -> tW lo = n -> same_shape lo hi = true ->
  (forall nn c i k, 0 <= c < tC x -> 0 <= i < tH x -> 0 <= k < n ->
     tf lo nn c i k = pywt_dwt Op mode L (tW x) d0 (fun q => tf x nn c i q) k /\
     tf hi nn c i k = pywt_dwt Op mode L (tW x) d1 (fun q => tf x nn c i q) k) ->
  is_ok (SFB1D_fwd Op lo hi L g0 g1 mode) (fun y =>
      tN y = tN x /\ tC y = tC x /\ tH y = tH x /\ tW x <= tW y <= tW x + 1 /\
      forall nn c i j, 0 <= c < tC x -> 0 <= i < tH x -> 0 <= j < tW x -> tf y nn c i j = tf x nn c i j).
Proof.
  intros HL HW HH HC Hm Hr2 HPR n X1 X2 X3 X4 Hss Hval.
  assert (Hnm: nonper_mode mode).
  { destruct Hm as [H|[H|[H|(H & _)]]]; subst mode; unfold nonper_mode; tauto. }
  unfold SFB1D_fwd.
  pose proof (sfb1d_nonper_row Op Rth lo hi L g0 g1 mode Hnm Hss HL ltac:(lia) ltac:(rewrite X4; unfold n; lia)) as Hb.
  destruct (sfb1d Op lo hi L g0 g1 mode 3) as [y|]; [|contradiction]. cbn [is_ok] in *.
  destruct Hb as (B1 & B2 & B3 & B4 & B5). rewrite X1, X2, X3, X4 in *.
  repeat apply conj; try (unfold n in *; lia).
  intros nn c i j Hc Hi Hj. rewrite B5 by (unfold n in *; lia).
  rewrite (syn_synL Op Rth). unfold synL.
  set (X := ext_of Op mode (tW x) (fun q => tf x nn c i q)).
  rewrite (sumZ_ext Op 0 n _ (fun k => zx Op L g0 (j + (L-2) - 2*k) *r anaL Op L d0 X k +r zx Op L g1 (j + (L-2) - 2*k) *r anaL Op L d1 X k)).
  2:{ intros k Hk. destruct (Hval nn c i k Hc Hi Hk) as (E0 & E1). rewrite E0, E1. rewrite !pywt_anaL. fold X. ring. }
  change (sumZ 0 n (fun k => zx Op L g0 (j + (L-2) - 2*k) *r anaL Op L d0 X k +r zx Op L g1 (j + (L-2) - 2*k) *r anaL Op L d1 X k))
    with (synL Op L g0 g1 0 n (anaL Op L d0 X) (anaL Op L d1 X) j).
  rewrite (line_pr_exact Op Rth L d0 d1 g0 g1 ltac:(lia) 0 n X j).
  - unfold X. apply ext_of_in; [lia | exact Hr2].
  - intros d Hd. apply (PRcond_at Op Rth L d0 d1 g0 g1 0 n j d ltac:(lia) HPR Hd); [|unfold n; lia].
    intros k Hk. unfold n in *. lia.
  - lia.
Qed.

Lemma inv_rev_app (x0:ten) l1 l2 L g0 g1 mode :
  DWT1DInverse_rev Op x0 (l1 ++ l2) L g0 g1 mode
  = bind (DWT1DInverse_rev Op x0 l1 L g0 g1 mode) (fun z => DWT1DInverse_rev Op z l2 L g0 g1 mode).
Proof.
  revert x0. induction l1 as [|h l1 IH]; intros x0; cbn [app DWT1DInverse_rev bind]; [reflexivity|].
  destruct (SFB1D_fwd Op _ _ L g0 g1 mode) as [y|e]; cbn [bind]; [apply IH | reflexivity].
Qed.

(* every level of a J-level transform of a signal of width W is admissible (only reflect can refuse) *)
Fixpoint levels_ok (J:nat) (mode L W:Z) : Prop :=
  match J with O => True | S J' => 1 <= W /\ level_ok mode L W /\ (mode = M_REFLECT -> 2 <= W) /\ levels_ok J' mode L ((W + L - 1)/2) end.

Theorem pr_multilevel_1d (J:nat) : forall (x:ten) L d0 d1 g0 g1 mode,
  2 <= L -> 1 <= tH x -> 0 < tC x -> 1 <= tW x -> levels_ok J mode L (tW x) -> PRcond Op L d0 d1 g0 g1 ->
  is_ok (DWT1DForward Op J x L (rev_filt L d0) (rev_filt L d1) mode) (fun r =>
    is_ok (DWT1DInverse Op (fst r) (map Some (snd r)) L g0 g1 mode) (fun y =>
      tN y = tN x /\ tC y = tC x /\ tH y = tH x /\ tW x <= tW y <= tW x + 1 /\
      forall nn c i j, 0 <= c < tC x -> 0 <= i < tH x -> 0 <= j < tW x -> tf y nn c i j = tf x nn c i j)).
Proof.
  induction J as [|J IH]; intros x L d0 d1 g0 g1 mode HL HH HC HW Hlv HPR.
  - cbn [DWT1DForward is_ok fst snd map]. unfold DWT1DInverse. cbn [rev DWT1DInverse_rev is_ok]. repeat split; try lia.
  - destruct Hlv as (HW1 & Hm & Hr2 & Hrest).
    cbn [DWT1DForward].
    (* first analysis level *)
    pose proof (afb1d_row_pywt Op Rth x L d0 d1 mode HL HW HH HC Hm Hr2) as Ha.
    unfold AFB1D_fwd. destruct (afb1d Op x L _ _ mode 3) as [lohi|]; [|contradiction]. cbn [is_ok bind] in *.
    destruct Ha as (A1 & A2 & A3 & A4 & A5).
    set (n := (tW x + L - 1)/2) in *.
    assert (Hrl0: range_len 0 (tC lohi) 2 = tC x) by (unfold range_len; rewrite A2; replace (2 * tC x <=? 0) with false by lia; lia).
    assert (Hrl1: range_len (Z.min 1 (tC lohi)) (tC lohi) 2 = tC x).
    { unfold range_len. rewrite A2. replace (Z.min 1 (2 * tC x)) with 1 by lia. replace (2 * tC x <=? 1) with false by lia. lia. }
    rewrite Hrl0, Hrl1.
    set (x0 := force Op (t_chmap (tC x) (fun c => 2*c) lohi)).
    set (x1 := force Op (t_chmap (tC x) (fun c => 2*c+1) lohi)).
    assert (Hx0: tN x0 = tN x /\ tC x0 = tC x /\ tH x0 = tH x /\ tW x0 = n) by (unfold x0; cbn [force t_chmap tN tC tH tW]; repeat split; lia).
    assert (Hx1: tN x1 = tN x /\ tC x1 = tC x /\ tH x1 = tH x /\ tW x1 = n) by (unfold x1; cbn [force t_chmap tN tC tH tW]; repeat split; lia).
    destruct Hx0 as (P1 & P2 & P3 & P4). destruct Hx1 as (Q1 & Q2 & Q3 & Q4).
    (* the remaining levels act on x0 *)
    assert (Hn1: 1 <= n) by (unfold n; lia).
    specialize (IH x0 L d0 d1 g0 g1 mode HL ltac:(lia) ltac:(lia) ltac:(lia) ltac:(rewrite P4; exact Hrest) HPR).
    destruct (DWT1DForward Op J x0 L _ _ mode) as [[yl yh]|]; [|contradiction]. cbn [is_ok bind fst snd] in *.
    unfold DWT1DInverse in *. cbn [map rev]. rewrite inv_rev_app.
    destruct (DWT1DInverse_rev Op yl (rev (map Some yh)) L g0 g1 mode) as [z|]; [|contradiction]. cbn [is_ok bind] in *.
    destruct IH as (Z1 & Z2 & Z3 & Z4 & Z5). rewrite P1, P2, P3, P4 in *.
    (* last synthesis level: trim, then reconstruct *)
    cbn [DWT1DInverse_rev]. rewrite Q4.
    set (z' := if n <? tW z then t_pyslice 3 0 (-1) z else z).
    assert (Hz': tN z' = tN x /\ tC z' = tC x /\ tH z' = tH x /\ tW z' = n /\
                 forall nn c i k, 0 <= k < n -> tf z' nn c i k = tf z nn c i k).
    { unfold z'. destruct (n <? tW z) eqn:E.
      - unfold t_pyslice, t_slice, t_gather, dlen, pyclip, range_len. change (3 =? 2) with false. cbv iota.
        change (0 <? 0) with false. cbv iota. replace (-1 <? 0) with true by lia.
        replace (Z.min (tW z) 0) with 0 by lia. replace (Z.max 0 (tW z + -1)) with (tW z - 1) by lia.
        replace (tW z - 1 <=? 0) with false by lia. cbn [tN tC tH tW tf].
        repeat apply conj; try lia. intros nn c i k Hk. f_equal. lia.
      - repeat apply conj; try lia. intros; reflexivity. }
    destruct Hz' as (W1 & W2 & W3 & W4 & W5).
    assert (Hss: same_shape z' x1 = true) by (unfold same_shape; rewrite W1, W2, W3, W4, Q1, Q2, Q3, Q4; rewrite !Z.eqb_refl; reflexivity).
    pose proof (pr_level_1d_ext x z' x1 L d0 d1 g0 g1 mode HL HW HH HC Hm Hr2 HPR W1 W2 W3 W4 Hss) as Hfin.
    cbv zeta in Hfin. fold n in Hfin.
    assert (Hval: forall nn c i k, 0 <= c < tC x -> 0 <= i < tH x -> 0 <= k < n ->
       tf z' nn c i k = pywt_dwt Op mode L (tW x) d0 (fun q => tf x nn c i q) k /\
       tf x1 nn c i k = pywt_dwt Op mode L (tW x) d1 (fun q => tf x nn c i q) k).
    { intros nn c i k Hc Hi Hk. split.
      - rewrite W5 by lia. rewrite Z5 by lia. unfold x0. rewrite force_eq. unfold t_chmap. cbn [tf].
        pose proof (A5 nn c 0 i k ltac:(lia) ltac:(lia) ltac:(lia)) as H0. replace (2*c+0) with (2*c) in H0 by lia.
        rewrite H0. unfold dsel. change (0 mod 2 =? 0) with true. reflexivity.
      - unfold x1. rewrite force_eq. unfold t_chmap. cbn [tf].
        rewrite (A5 nn c 1 i k) by lia. unfold dsel. change (1 mod 2 =? 0) with false. reflexivity. }
    specialize (Hfin Hval).
    destruct (SFB1D_fwd Op z' x1 L g0 g1 mode) as [y|]; [|contradiction]. cbn [is_ok DWT1DInverse_rev] in *. exact Hfin.
Qed.
End Multi.
