(* C02: one level of the 1-D transform reconstructs, on the tensor-level model: SFB1D(AFB1D(x)) = x on the extent,
   for the four non-periodization modes, under the filter-only kernel condition PRcond. *)
From PW Require Import Base.Ops Base.Sum Base.Sig Base.Tensor Model.Dwt Spec.Line Proofs.ConvLine Proofs.DwtNF Proofs.LineTheory
  Proofs.SfbNF Proofs.C01Proofs.
Ltac Zify.zify_post_hook ::= Z.to_euclidean_division_equations.

Section S.
Context {R:Type} (Op:Ops R) (Rth: RingOk Op).
Add Ring Rr : Rth.
Notation ten := (@ten R).
Infix "+r" := (radd Op) (at level 50, left associativity).
Infix "*r" := (rmul Op) (at level 40, left associativity).
Notation sumZ := (sumZ Op).

Lemma ext_of_in mode N (f:Z->R) i : 0 <= i < N -> (mode = M_REFLECT -> 2 <= N) -> ext_of Op mode N f i = f i.
Proof.
  intros Hi Hr. unfold ext_of.
  destruct (mode =? 0) eqn:E0. { unfold ext_zero. apply zx_in; lia. }
  destruct (mode =? 1) eqn:E1. { unfold ext_sym. rewrite sym_idx_in by lia. reflexivity. }
  destruct (mode =? 4) eqn:E4.
  - unfold ext_refl, refl_full. cbv zeta. assert (2 <= N) by (apply Hr; unfold M_REFLECT; lia).
    rewrite Z.mod_small by lia. replace (i <? N) with true by lia. reflexivity.
  - unfold ext_wrap. rewrite Z.mod_small by lia. reflexivity.
Qed.

Lemma syn_synL L n g0 g1 (lo hi:Z->R) m : syn Op L n g0 g1 lo hi m = synL Op L g0 g1 0 n lo hi m.
Proof. unfold syn, synL. apply sumZ_ext. intros; ring. Qed.
Lemma pywt_anaL mode L N dec x k : pywt_dwt Op mode L N dec x k = anaL Op L dec (ext_of Op mode N x) k.
Proof. reflexivity. Qed.

Theorem pr_level_1d (x:ten) L d0 d1 g0 g1 mode :
  2 <= L -> 1 <= tW x -> 1 <= tH x -> 0 < tC x -> level_ok mode L (tW x) -> (mode = M_REFLECT -> 2 <= tW x) ->
  PRcond Op L d0 d1 g0 g1 ->
  is_ok (AFB1D_fwd Op x L (rev_filt L d0) (rev_filt L d1) mode) (fun r =>
    is_ok (SFB1D_fwd Op (fst r) (snd r) L g0 g1 mode) (fun y =>
      tN y = tN x /\ tC y = tC x /\ tH y = tH x /\ tW x <= tW y <= tW x + 1 /\
      forall n c i j, 0 <= c < tC x -> 0 <= i < tH x -> 0 <= j < tW x -> tf y n c i j = tf x n c i j)).
Proof.
  intros HL HW HH HC Hm Hr2 HPR.
  unfold AFB1D_fwd.
  pose proof (afb1d_row_pywt Op Rth x L d0 d1 mode HL HW HH HC Hm Hr2) as Ha.
  destruct (afb1d Op x L _ _ mode 3) as [lohi|]; [|contradiction]. cbn [is_ok bind fst snd] in *.
  destruct Ha as (A1 & A2 & A3 & A4 & A5).
  set (n := (tW x + L - 1)/2) in *.
  assert (Hrl0: range_len 0 (tC lohi) 2 = tC x) by (unfold range_len; rewrite A2; replace (2 * tC x <=? 0) with false by lia; lia).
  assert (Hrl1: range_len (Z.min 1 (tC lohi)) (tC lohi) 2 = tC x).
  { unfold range_len. rewrite A2. replace (Z.min 1 (2 * tC x)) with 1 by lia. replace (2 * tC x <=? 1) with false by lia. lia. }
  rewrite Hrl0, Hrl1.
  set (x0 := force Op (t_chmap (tC x) (fun c => 2*c) lohi)).
  set (x1 := force Op (t_chmap (tC x) (fun c => 2*c+1) lohi)).
  assert (Hnm: nonper_mode mode).
  { destruct Hm as [H|[H|[H|(H & _)]]]; subst mode; unfold nonper_mode; tauto. }
  assert (Hss: same_shape x0 x1 = true) by (unfold same_shape, x0, x1; cbn [force t_chmap tN tC tH tW]; rewrite !Z.eqb_refl; reflexivity).
  unfold SFB1D_fwd.
  assert (Hx0s: tN x0 = tN x /\ tC x0 = tC x /\ tH x0 = tH x /\ tW x0 = n) by (unfold x0; cbn [force t_chmap tN tC tH tW]; repeat split; lia).
  destruct Hx0s as (X1 & X2 & X3 & X4).
  pose proof (sfb1d_nonper_row Op Rth x0 x1 L g0 g1 mode Hnm Hss HL ltac:(lia) ltac:(rewrite X4; unfold n; lia)) as Hb.
  destruct (sfb1d Op x0 x1 L g0 g1 mode 3) as [y|]; [|contradiction]. cbn [is_ok] in *.
  destruct Hb as (B1 & B2 & B3 & B4 & B5). rewrite X1, X2, X3, X4 in *.
  repeat apply conj; try (unfold n in *; lia).
  intros nn c i j Hc Hi Hj. rewrite B5 by (unfold n in *; lia).
  rewrite syn_synL.
  (* the coefficient lines are the analysis of the extended signal *)
  set (X := ext_of Op mode (tW x) (fun q => tf x nn c i q)).
  rewrite (sumZ_ext Op 0 n _ (fun k => zx Op L g0 (j + (L-2) - 2*k) *r anaL Op L d0 X k +r zx Op L g1 (j + (L-2) - 2*k) *r anaL Op L d1 X k)).
  2:{ intros k Hk. unfold x0, x1. rewrite !force_eq. unfold t_chmap. cbn [tf].
      replace (2*k) with (2*k) by lia.
      rewrite (A5 nn c 0 i k) by lia. replace (2*c + 0) with (2*c) in * by lia.
      rewrite (A5 nn c 1 i k) by lia. unfold dsel. cbn [Z.eqb]. change (0 mod 2 =? 0) with true. change (1 mod 2 =? 0) with false. cbv iota.
      rewrite !pywt_anaL. reflexivity. }
  change (sumZ 0 n (fun k => zx Op L g0 (j + (L-2) - 2*k) *r anaL Op L d0 X k +r zx Op L g1 (j + (L-2) - 2*k) *r anaL Op L d1 X k))
    with (synL Op L g0 g1 0 n (anaL Op L d0 X) (anaL Op L d1 X) j).
  rewrite (line_pr_exact Op Rth L d0 d1 g0 g1 ltac:(lia) 0 n X j).
  - unfold X. apply ext_of_in; [lia | exact Hr2].
  - intros d Hd. apply (PRcond_at Op Rth L d0 d1 g0 g1 0 n j d ltac:(lia) HPR Hd); [|unfold n; lia].
    intros k Hk. unfold n in *. lia.
  - lia.
Qed.
End S.
