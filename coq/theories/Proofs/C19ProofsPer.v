(* C19, periodization: the non-separable one-level analysis bank (extend both axes to even length, roll both, ONE strided 2-D
   convolution with outer-product kernels, fold the wrap-around rows then columns, crop) returns the same four subbands as the
   separable functional API afb2d, for even filter lengths not longer than the (even-extended) image on each axis. *)
From PW Require Import Base.Ops Base.Sum Base.Sig Base.Tensor Model.Dwt Spec.Line Proofs.ConvLine Proofs.DwtNF Proofs.DwtNFcol Proofs.C19Proofs.
Ltac Zify.zify_post_hook ::= Z.to_euclidean_division_equations.

Section S.
Context {R:Type} (Op:Ops R) (Rth: RingOk Op).
Add Ring Rr : Rth.
Notation ten := (@ten R).
Infix "+r" := (radd Op) (at level 50, left associativity).
Infix "*r" := (rmul Op) (at level 40, left associativity).
Notation sumZ := (sumZ Op).

(* the 1-D heart: a strided correlation of a zero-padded N-periodic sequence, with the L/2 wrapped outputs folded back *)
Definition S1 (L N:Z) (h phi:Z->R) (k:Z) : R :=
  sumZ 0 L (fun b => h b *r (if inr N (2*k + b - (L-1)) then phi (2*k + b - (L-1)) else r0 Op)).
Lemma fold1d L N h (phi:Z->R) k : 2 <= L -> L mod 2 = 0 -> N mod 2 = 0 -> L <= N -> 0 <= k < N/2 ->
  (forall p, phi (p + N) = phi p) ->
  S1 L N h phi k +r (if k <? L/2 then S1 L N h phi (N/2 + k) else r0 Op) = sumZ 0 L (fun b => h b *r phi (2*k + b - (L-1))).
Proof.
  intros HL HLe HNe HLN Hk Hper. unfold S1. destruct (k <? L/2) eqn:Ek.
  - rewrite <- sumZ_add by exact Rth. apply sumZ_ext. intros b Hb.
    destruct (Z_le_gt_dec 0 (2*k + b - (L-1))) as [Hp|Hp].
    + rewrite (inr_true N (2*k + b - (L-1))) by lia. rewrite (inr_false N (2*(N/2 + k) + b - (L-1))) by lia. ring.
    + rewrite (inr_false N (2*k + b - (L-1))) by lia. rewrite (inr_true N (2*(N/2 + k) + b - (L-1))) by lia.
      replace (2*(N/2 + k) + b - (L-1)) with ((2*k + b - (L-1)) + N) by lia. rewrite Hper. ring.
  - replace (sumZ 0 L (fun b => h b *r (if inr N (2*k + b - (L-1)) then phi (2*k + b - (L-1)) else r0 Op)) +r r0 Op)
      with (sumZ 0 L (fun b => h b *r (if inr N (2*k + b - (L-1)) then phi (2*k + b - (L-1)) else r0 Op))) by ring.
    apply sumZ_ext. intros b Hb. rewrite (inr_true N (2*k + b - (L-1))) by lia. reflexivity.
Qed.

(* even extension of both axes *)
Definition ext2 (x:ten) n c p q : R := tf x n c (if p <? tH x then p else tH x - 1) (if q <? tW x then q else tW x - 1).

Lemma ext_both (x:ten) : 1 <= tH x -> 1 <= tW x ->
  let x1 := if tH x mod 2 =? 1 then t_cat 2 x (t_slice 2 (pyclip (tH x) (-1)) (tH x) 1 x) else x in
  let x2 := if tW x1 mod 2 =? 1 then t_cat 3 x1 (t_slice 3 (pyclip (tW x1) (-1)) (tW x1) 1 x1) else x1 in
  tN x2 = tN x /\ tC x2 = tC x /\ tH x2 = even_len (tH x) /\ tW x2 = even_len (tW x) /\
  forall n c p q, 0 <= p < even_len (tH x) -> 0 <= q < even_len (tW x) -> tf x2 n c p q = ext2 x n c p q.
Proof.
  intros HH HW. cbv zeta.
  set (x1 := if tH x mod 2 =? 1 then _ else x).
  assert (Hx1: tN x1 = tN x /\ tC x1 = tC x /\ tW x1 = tW x /\ tH x1 = even_len (tH x) /\
               forall n c p q, 0 <= p < even_len (tH x) -> tf x1 n c p q = tf x n c (if p <? tH x then p else tH x - 1) q).
  { unfold x1, even_len. destruct (tH x mod 2 =? 1) eqn:E.
    - unfold t_cat, t_slice, t_gather, pyclip, range_len. change (2 =? 1) with false. change (2 =? 2) with true. cbv iota.
      replace (-1 <? 0) with true by lia. replace (tH x <=? Z.max 0 (tH x + -1)) with false by lia.
      cbn [tN tC tH tW tf]. repeat apply conj; try lia.
      intros n c p q Hp. destruct (p <? tH x) eqn:Ep; [reflexivity|]. f_equal. lia.
    - repeat apply conj; try reflexivity. intros n c p q Hp. replace (p <? tH x) with true by lia. reflexivity. }
  destruct Hx1 as (A1 & A2 & A3 & A4 & A5). rewrite A3.
  unfold even_len at 2 4. destruct (tW x mod 2 =? 1) eqn:E.
  - unfold t_cat, t_slice, t_gather, pyclip, range_len. change (3 =? 1) with false. change (3 =? 2) with false. cbv iota.
    replace (-1 <? 0) with true by lia. replace (tW x <=? Z.max 0 (tW x + -1)) with false by lia.
    cbn [tN tC tH tW tf]. rewrite A3. repeat apply conj; try lia.
    intros n c p q Hp Hq. unfold ext2. destruct (q <? tW x) eqn:Eq; rewrite A5 by lia; [reflexivity|]. f_equal. lia.
  - repeat apply conj; try lia. intros n c p q Hp Hq. unfold ext2. rewrite A5 by lia. replace (q <? tW x) with true by lia. reflexivity.
Qed.

Theorem nonsep_per_eq (x:ten) Ly h0c h1c Lx h0r h1r : 2 <= Ly -> Ly mod 2 = 0 -> Ly <= even_len (tH x) -> 2 <= Lx -> Lx mod 2 = 0 -> Lx <= even_len (tW x) ->
  1 <= tH x -> 1 <= tW x -> 0 < tC x ->
  is_ok (afb2d_nonsep Op x Ly h0c h1c Lx h0r h1r M_PER) (fun y1 =>
  is_ok (afb2d Op x Lx (rev_filt Lx h0r) (rev_filt Lx h1r) Ly (rev_filt Ly h0c) (rev_filt Ly h1c) M_PER) (fun y2 =>
    same_vals (even_len (tH x) / 2) (even_len (tW x) / 2) y1 y2)).
Proof.
  intros HLy HLye HLyN HLx HLxe HLxN HH HW HC.
  (* separable side *)
  unfold afb2d.
  pose proof (afb1d_per_row Op Rth x Lx (rev_filt Lx h0r) (rev_filt Lx h1r) HLx HLxe HLxN HW HH HC) as Hr.
  destruct (afb1d Op x Lx _ _ M_PER 3) as [lohi|]; [|contradiction]. cbn [is_ok bind] in Hr |- *.
  destruct Hr as (R1 & R2 & R3 & R4 & R5).
  assert (HNxe: even_len (tW x) mod 2 = 0 /\ tW x <= even_len (tW x) <= tW x + 1) by (unfold even_len; destruct (tW x mod 2 =? 1) eqn:E; lia).
  assert (HNye: even_len (tH x) mod 2 = 0 /\ tH x <= even_len (tH x) <= tH x + 1) by (unfold even_len; destruct (tH x mod 2 =? 1) eqn:E; lia).
  set (Ny := even_len (tH x)) in *. set (Nx := even_len (tW x)) in *.
  pose proof (afb1d_per_col Op Rth lohi Ly (rev_filt Ly h0c) (rev_filt Ly h1c) HLy HLye ltac:(rewrite R3; exact HLyN) ltac:(lia) ltac:(lia) ltac:(lia)) as Hc.
  destruct (afb1d Op lohi Ly _ _ M_PER 2) as [y2|]; [|contradiction]. cbn [is_ok] in Hc.
  destruct Hc as (C1 & C2 & C3 & C4 & C5). rewrite R3 in C3, C5. rewrite R4 in C4, C5. fold Ny in C3, C5.
  (* non-separable side *)
  unfold afb2d_nonsep. change (M_PER =? M_PER) with true. cbv iota.
  pose proof (ext_both x HH HW) as Hx2. cbv zeta in Hx2.
  set (x2 := if tW (if tH x mod 2 =? 1 then _ else x) mod 2 =? 1 then _ else _) in *.
  destruct Hx2 as (E1 & E2 & E3 & E4 & E5). fold Ny in E3, E5. fold Nx in E4, E5.
  rewrite E3, E4.
  replace (- Ly / 2) with (- (Ly/2)) by lia. replace (- Lx / 2) with (- (Lx/2)) by lia.
  assert (Hs2: 0 < Ly/2 < tH x2) by lia.
  pose proof (roll_col x2 (Ly/2) Hs2) as Hrc. cbv zeta in Hrc. destruct Hrc as (B1 & B2 & B3 & B4 & B5).
  set (ra := force Op (roll x2 (- (Ly/2)) 2)) in *.
  assert (Hs3: 0 < Lx/2 < tW ra) by (unfold ra; cbn [force tW]; lia).
  pose proof (roll_row ra (Lx/2) Hs3) as Hrr. cbv zeta in Hrr. destruct Hrr as (D1 & D2 & D3 & D4 & D5).
  set (x3 := force Op (roll ra (- (Lx/2)) 3)) in *.
  assert (X3: tN x3 = tN x /\ tC x3 = tC x /\ tH x3 = Ny /\ tW x3 = Nx) by (unfold x3, ra in *; cbn [force tN tC tH tW] in *; lia).
  destruct X3 as (X31 & X32 & X33 & X34).
  assert (X3v: forall n c p q, 0 <= p < Ny -> 0 <= q < Nx -> tf x3 n c p q = ext2 x n c ((p + Ly/2) mod Ny) ((q + Lx/2) mod Nx)).
  { intros n c p q Hp Hq. unfold x3. rewrite force_eq. rewrite D5 by (unfold ra; cbn [force tW]; lia).
    unfold ra. rewrite force_eq. cbn [force tW]. rewrite B4, E4. rewrite B5 by lia. rewrite E3. apply E5; apply Z.mod_pos_bound; lia. }
  unfold conv2d_r. unfold w_afb_nonsep at 1 2. cbn [wKH wKW]. rewrite X33, X34.
  replace ((0 <=? Ny + 2 * (Ly - 1) - 1 * (Ly - 1) - 1) && (0 <=? Nx + 2 * (Lx - 1) - 1 * (Lx - 1) - 1) && (0 <=? Ly - 1) && (0 <=? Lx - 1)) with true by lia.
  cbn [bind].
  set (w := w_afb_nonsep Op (tC x) Ly Lx h0c h1c h0r h1r).
  set (y := force Op (conv2d_dw Op x3 w 2 2 (Ly - 1) (Lx - 1) 1 1)).
  assert (Yh: tH y = Ny/2 + Ly/2) by (unfold y, w, w_afb_nonsep; cbn [force tH conv2d_dw wKH]; rewrite X33; lia).
  assert (Yw: tW y = Nx/2 + Lx/2) by (unfold y, w, w_afb_nonsep; cbn [force tW conv2d_dw wKW]; rewrite X34; lia).
  assert (Yn: tN y = tN x /\ tC y = 4 * tC x) by (unfold y, w, w_afb_nonsep; cbn [force tN tC conv2d_dw wO]; lia).
  destruct Yn as (Yn & Yc).
  (* value of the convolution *)
  set (Kc := fun oc a => csel h0c h1c (oc mod 4) (Ly - 1 - a)). set (Kr := fun oc b => rsel h0r h1r (oc mod 4) (Lx - 1 - b)).
  set (G := fun n oc p q => ext2 x n (oc/4) ((p + Ly/2) mod Ny) ((q + Lx/2) mod Nx)).
  assert (Yv: forall n oc i' k', tf y n oc i' k' =
     sumZ 0 Ly (fun a => Kc oc a *r (if inr Ny (2*i' + a - (Ly-1)) then
        sumZ 0 Lx (fun b => Kr oc b *r (if inr Nx (2*k' + b - (Lx-1)) then G n oc (2*i' + a - (Ly-1)) (2*k' + b - (Lx-1)) else r0 Op)) else r0 Op))).
  { intros n oc i' k'. unfold y. rewrite force_eq. unfold conv2d_dw, w, w_afb_nonsep. cbn [tf wf wO wKH wKW]. rewrite X32.
    replace (4 * tC x / tC x) with 4 by (symmetry; apply Z.div_mul; lia).
    apply sumZ_ext. intros a Ha. fold (Kc oc a).
    destruct (inr Ny (2*i' + a - (Ly-1))) eqn:Ea.
    - rewrite <- sumZ_scale by exact Rth. apply sumZ_ext. intros b Hb. fold (Kr oc b).
      unfold t_zpad. cbn [tf]. rewrite X33, X34.
      replace (i' * 2 + a * 1 - (Ly - 1)) with (2*i' + a - (Ly-1)) by lia. replace (k' * 2 + b * 1 - (Lx - 1)) with (2*k' + b - (Lx-1)) by lia.
      rewrite Ea. cbn [andb]. destruct (inr Nx (2*k' + b - (Lx-1))) eqn:Eb.
      + unfold inr in Ea, Eb. rewrite X3v by lia. unfold G. ring.
      + ring.
    - transitivity (r0 Op); [|ring]. apply (sumZ_zero Op Rth). intros b Hb. unfold t_zpad. cbn [tf]. rewrite X33, X34.
      replace (i' * 2 + a * 1 - (Ly - 1)) with (2*i' + a - (Ly-1)) by lia. rewrite Ea. cbn [andb]. ring. }
  (* the two folds and the crop *)
  unfold fold_add, dlen. change (2 =? 2) with true. cbv iota. rewrite Yh.
  unfold pyclip.
  replace (Ly/2 <? 0) with false by lia. replace (Ny/2 + Ly/2 <? 0) with false by lia. replace (Ny/2 <? 0) with false by lia.
  replace (Z.min (Ny/2 + Ly/2) (Ly/2)) with (Ly/2) by lia.
  replace (Z.min (Ny/2 + Ly/2) (Ny/2 + Ly/2)) with (Ny/2 + Ly/2) by lia.
  replace (Z.min (Ny/2 + Ly/2) (Ny/2)) with (Ny/2) by lia.
  replace (Ly/2 =? Ny/2 + Ly/2 - Ny/2) with true by lia.
  cbn [bind].
  match goal with |- context [force Op ?t] => set (y1 := force Op t) end.
  assert (Y1def: forall n c i j, tf y1 n c i j = if i <? Ly/2 then tf y n c i j +r tf y n c (Ny/2 + i) j else tf y n c i j)
    by (intros; unfold y1; rewrite force_eq; reflexivity).
  assert (Y1s: tN y1 = tN y /\ tC y1 = tC y /\ tH y1 = Ny/2 + Ly/2 /\ tW y1 = tW y) by (unfold y1; cbn [force tN tC tH tW]; repeat split; reflexivity).
  destruct Y1s as (Y1n & Y1c & Y1h & Y1w0).
  change (3 =? 2) with false. cbv iota.
  assert (Y1w: tW y1 = Nx/2 + Lx/2) by lia.
  rewrite Y1w.
  replace (Lx/2 <? 0) with false by lia. replace (Nx/2 + Lx/2 <? 0) with false by lia. replace (Nx/2 <? 0) with false by lia.
  replace (Z.min (Nx/2 + Lx/2) (Lx/2)) with (Lx/2) by lia.
  replace (Z.min (Nx/2 + Lx/2) (Nx/2 + Lx/2)) with (Nx/2 + Lx/2) by lia.
  replace (Z.min (Nx/2 + Lx/2) (Nx/2)) with (Nx/2) by lia.
  replace (Lx/2 =? Nx/2 + Lx/2 - Nx/2) with true by lia.
  cbn [bind is_ok].
  unfold same_vals, t_pyslice, t_slice, t_gather, dlen. change (2 =? 2) with true. change (3 =? 2) with false. cbv iota.
  cbn [force tN tC tH tW]. rewrite ?Y1n, ?Y1c, ?Y1h, ?Y1w, ?Yh, ?Yw.
  unfold pyclip. replace (0 <? 0) with false by lia. replace (Ny/2 <? 0) with false by lia. replace (Nx/2 <? 0) with false by lia.
  replace (Z.min (Ny/2 + Ly/2) 0) with 0 by lia. replace (Z.min (Ny/2 + Ly/2) (Ny/2)) with (Ny/2) by lia.
  replace (Z.min (Nx/2 + Lx/2) 0) with 0 by lia. replace (Z.min (Nx/2 + Lx/2) (Nx/2)) with (Nx/2) by lia.
  unfold range_len. replace (Ny/2 <=? 0) with false by lia. replace (Nx/2 <=? 0) with false by lia.
  repeat apply conj; try lia.
  intros n oc i k Hoc Hi Hk. rewrite force_eq. cbn [tf].
  replace (0 + 1 * i) with i by lia. replace (0 + 1 * k) with k by lia.
  (* y1 values *)
  assert (Y1v: forall k', tf y1 n oc i k' = sumZ 0 Ly (fun a => Kc oc a *r
             sumZ 0 Lx (fun b => Kr oc b *r (if inr Nx (2*k' + b - (Lx-1)) then G n oc (2*i + a - (Ly-1)) (2*k' + b - (Lx-1)) else r0 Op)))).
  { intros k'. rewrite Y1def.
    pose proof (fold1d Ly Ny (Kc oc)
       (fun p => sumZ 0 Lx (fun b => Kr oc b *r (if inr Nx (2*k' + b - (Lx-1)) then G n oc p (2*k' + b - (Lx-1)) else r0 Op))) i
       HLy HLye ltac:(lia) HLyN ltac:(lia)) as Hf.
    unfold S1 in Hf. rewrite <- Hf.
    - destruct (i <? Ly/2); rewrite !Yv; [reflexivity | ring].
    - intros p. apply sumZ_ext. intros b Hb. f_equal. destruct (inr Nx _); [|reflexivity]. unfold G. f_equal.
      replace (p + Ny + Ly/2) with ((p + Ly/2) + 1 * Ny) by lia. rewrite Z.mod_add by lia. reflexivity. }
  transitivity (sumZ 0 Ly (fun a => Kc oc a *r sumZ 0 Lx (fun b => Kr oc b *r G n oc (2*i + a - (Ly-1)) (2*k + b - (Lx-1))))).
  { destruct (k <? Lx/2) eqn:Ek.
    - rewrite !Y1v. rewrite <- sumZ_add by exact Rth. apply sumZ_ext. intros a Ha.
      pose proof (fold1d Lx Nx (Kr oc) (fun q => G n oc (2*i + a - (Ly-1)) q) k HLx HLxe ltac:(lia) HLxN ltac:(lia)) as Hf.
      unfold S1 in Hf. rewrite Ek in Hf. rewrite <- Hf.
      + ring.
      + intros q. unfold G. f_equal. replace (q + Nx + Lx/2) with ((q + Lx/2) + 1 * Nx) by lia. rewrite Z.mod_add by lia. reflexivity.
    - rewrite Y1v. apply sumZ_ext. intros a Ha. f_equal.
      pose proof (fold1d Lx Nx (Kr oc) (fun q => G n oc (2*i + a - (Ly-1)) q) k HLx HLxe ltac:(lia) HLxN ltac:(lia)) as Hf.
      unfold S1 in Hf. rewrite Ek in Hf. rewrite <- Hf.
      + ring.
      + intros q. unfold G. f_equal. replace (q + Nx + Lx/2) with ((q + Lx/2) + 1 * Nx) by lia. rewrite Z.mod_add by lia. reflexivity. }
  (* the separable closed form *)
  rewrite C5 by lia. unfold afb_per_col_line, ana_per. rewrite R3. fold Ny.
  apply sumZ_ext. intros a Ha. f_equal.
  { unfold Kc, hsel, csel, rev_filt. assert (Hm: oc mod 4 = 0 \/ oc mod 4 = 1 \/ oc mod 4 = 2 \/ oc mod 4 = 3) by lia.
    destruct Hm as [E|[E|[E|E]]]; rewrite E; cbn [Z.eqb orb]; [replace (oc mod 2 =? 0) with true by lia | replace (oc mod 2 =? 0) with false by lia
      | replace (oc mod 2 =? 0) with true by lia | replace (oc mod 2 =? 0) with false by lia]; reflexivity. }
  set (p := (2 * i + a - (Ly - 1) + Ly / 2) mod Ny).
  assert (Hp: 0 <= p < Ny) by (apply Z.mod_pos_bound; lia).
  unfold even_ext at 1.
  assert (Hrow: forall p', 0 <= p' < tH x -> tf lohi n (oc/2) p' k =
            sumZ 0 Lx (fun b => Kr oc b *r ext2 x n (oc/4) p' ((2*k + b - (Lx-1) + Lx/2) mod Nx))).
  { intros p' Hp'. rewrite R5 by lia. unfold afb_per_row_line, ana_per. fold Nx. apply sumZ_ext. intros b Hb. f_equal.
    { unfold Kr, hsel, rsel, rev_filt. assert (Hm: oc mod 4 = 0 \/ oc mod 4 = 1 \/ oc mod 4 = 2 \/ oc mod 4 = 3) by lia.
      destruct Hm as [E|[E|[E|E]]]; rewrite E; cbn [Z.eqb orb]; [replace ((oc/2) mod 2 =? 0) with true by lia | replace ((oc/2) mod 2 =? 0) with true by lia
        | replace ((oc/2) mod 2 =? 0) with false by lia | replace ((oc/2) mod 2 =? 0) with false by lia]; reflexivity. }
    unfold even_ext, ext2. replace (oc / 2 / 2) with (oc / 4) by lia. replace (p' <? tH x) with true by lia.
    set (q := (2 * k + b - (Lx - 1) + Lx / 2) mod Nx). destruct (q <? tW x); reflexivity. }
  unfold G. fold p.
  destruct (p <? tH x) eqn:Ep.
  - rewrite Hrow by lia. reflexivity.
  - rewrite Hrow by lia. apply sumZ_ext. intros b Hb. unfold ext2. rewrite Ep. replace (tH x - 1 <? tH x) with true by lia. reflexivity.
Qed.
End S.
