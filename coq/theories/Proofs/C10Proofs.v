From PW Require Import Base.Ops Base.Sum Base.Sig Base.Tensor Model.Dwt Spec.Line Proofs.ConvLine Proofs.DwtNF Proofs.LineTheory Proofs.SfbNF.
Ltac Zify.zify_post_hook ::= Z.to_euclidean_division_equations.
Section S.
Context {R:Type} (Op:Ops R) (Rth: RingOk Op).
Notation ten := (@ten R).

Theorem sfb1d_per_row_circ (lo hi:ten) L g0 g1 : same_shape lo hi = true ->
  2 <= L -> L mod 2 = 0 -> 1 <= tH lo -> 1 <= tW lo -> L - 2 <= 2 * tW lo ->
  is_ok (sfb1d Op lo hi L g0 g1 M_PER 3)
    (sfb_row_spec lo (2 * tW lo)
       (fun n c i m => syn_per Op L (tW lo) g0 g1 (fun k => tf lo n c i k) (fun k => tf hi n c i k) m)).
Proof.
  intros Hs HL HLe HH HW HLN.
  pose proof (sfb1d_per_row Op Rth lo hi L g0 g1 Hs HL HLe HH HW ltac:(lia)) as H.
  destruct (sfb1d Op lo hi L g0 g1 M_PER 3) as [y|]; [|contradiction]. cbn [is_ok] in *.
  destruct H as (A1 & A2 & A3 & A4 & A5). repeat apply conj; auto.
  intros n c i m Hi Hm. rewrite A5 by lia. apply (syn_per_fold Op Rth); lia.
Qed.
End S.
