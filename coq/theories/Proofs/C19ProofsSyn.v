(* C19, synthesis: the non-separable one-level synthesis bank (four transposed 2-D convolutions with outer-product kernels) returns
   the same reconstruction as the separable functional API sfb2d, in the four non-periodization modes, for every coefficient size,
   filter lengths and filters, for ANY four bands. *)
From PW Require Import Base.Ops Base.Sum Base.Sig Base.Tensor Model.Dwt Spec.Line Proofs.ConvLine Proofs.DwtNF Proofs.SfbNF Proofs.DwtNFcol.
Ltac Zify.zify_post_hook ::= Z.to_euclidean_division_equations.

Section S.
Context {R:Type} (Op:Ops R) (Rth: RingOk Op).
Add Ring Rr : Rth.
Notation ten := (@ten R).
Infix "+r" := (radd Op) (at level 50, left associativity).
Infix "*r" := (rmul Op) (at level 40, left associativity).
Notation sumZ := (sumZ Op).

Lemma sum4_merge h w (A B C D:Z->Z->R) :
  sumZ 0 h (fun k => sumZ 0 w (fun l => A k l) +r sumZ 0 w (fun l => B k l) +r (sumZ 0 w (fun l => C k l) +r sumZ 0 w (fun l => D k l)))
  = sumZ 0 w (fun l => sumZ 0 h (fun k => A k l +r B k l +r (C k l +r D k l))).
Proof.
  rewrite (sumZ_swap Op Rth 0 w 0 h). apply sumZ_ext. intros k Hk. rewrite <- !sumZ_add by exact Rth. reflexivity.
Qed.

Theorem nonsep_syn_eq (x:ten) Ly g0c g1c Lx g0r g1r mode : nonper_mode mode ->
  2 <= Ly -> 2 <= Lx -> 1 <= tH x -> 1 <= tW x -> 0 < tC x -> tC x mod 4 = 0 ->
  1 <= 2 * tH x - Ly + 2 -> 1 <= 2 * tW x - Lx + 2 ->
  is_ok (sfb2d_nonsep Op x Ly g0c g1c Lx g0r g1r mode) (fun y1 =>
  is_ok (sfb2d Op (band4 0 x) (band4 1 x) (band4 2 x) (band4 3 x) Lx g0r g1r Ly g0c g1c mode) (fun y2 =>
    tN y2 = tN y1 /\ tC y2 = tC y1 /\ tH y1 = 2 * tH x - Ly + 2 /\ tH y2 = 2 * tH x - Ly + 2 /\ tW y1 = 2 * tW x - Lx + 2 /\ tW y2 = 2 * tW x - Lx + 2 /\
    forall n c i j, 0 <= c < tC x / 4 -> 0 <= i < 2 * tH x - Ly + 2 -> 0 <= j < 2 * tW x - Lx + 2 -> tf y1 n c i j = tf y2 n c i j)).
Proof.
  intros Hm HLy HLx HH HW HC HC4 HoH HoW.
  assert (Hmode: (mode =? M_PER) = false /\ ((mode =? M_SYMM) || (mode =? M_ZERO) || (mode =? M_REFLECT) || (mode =? M_PERIODIC)) = true).
  { destruct Hm as [H|[H|[H|H]]]; subst mode; split; reflexivity. }
  destruct Hmode as (Hm1 & Hm2).
  set (C := tC x / 4). assert (HCp: 0 < C) by (unfold C; lia).
  assert (Hb: forall b, tN (band4 b x) = tN x /\ tC (band4 b x) = C /\ tH (band4 b x) = tH x /\ tW (band4 b x) = tW x /\
                        forall n c k l, tf (band4 b x) n c k l = tf x n (4*c + b) k l).
  { intros b. unfold band4, t_chmap. cbn [tN tC tH tW tf]. repeat split. }
  (* separable side *)
  unfold sfb2d.
  assert (Hss: forall a b, same_shape (band4 a x) (band4 b x) = true).
  { intros a b. destruct (Hb a) as (A1 & A2 & A3 & A4 & _). destruct (Hb b) as (B1 & B2 & B3 & B4 & _). unfold same_shape. rewrite A1, A2, A3, A4, B1, B2, B3, B4, !Z.eqb_refl. reflexivity. }
  destruct (Hb 0) as (Z1 & Z2 & Z3 & Z4 & Z5). destruct (Hb 1) as (_ & _ & _ & _ & O5). destruct (Hb 2) as (T1 & T2 & T3 & T4 & T5). destruct (Hb 3) as (_ & _ & _ & _ & Q5).
  pose proof (sfb1d_nonper_col Op Rth (band4 0 x) (band4 1 x) Ly g0c g1c mode Hm (Hss 0 1) HLy ltac:(lia) ltac:(lia)) as Hlo.
  destruct (sfb1d Op (band4 0 x) (band4 1 x) Ly g0c g1c mode 2) as [lo|]; [|contradiction]. cbn [is_ok bind] in Hlo |- *.
  destruct Hlo as (A1 & A2 & A3 & A4 & A5). rewrite Z3 in A3, A5. rewrite Z4 in A4, A5.
  pose proof (sfb1d_nonper_col Op Rth (band4 2 x) (band4 3 x) Ly g0c g1c mode Hm (Hss 2 3) HLy ltac:(lia) ltac:(lia)) as Hhi.
  destruct (sfb1d Op (band4 2 x) (band4 3 x) Ly g0c g1c mode 2) as [hi|]; [|contradiction]. cbn [is_ok bind] in Hhi |- *.
  destruct Hhi as (B1 & B2 & B3 & B4 & B5). rewrite T3 in B3, B5. rewrite T4 in B4, B5.
  assert (Hs3: same_shape lo hi = true) by (unfold same_shape; rewrite A1, A2, A3, A4, B1, B2, B3, B4, Z1, Z2, T1, T2, !Z.eqb_refl; reflexivity).
  pose proof (sfb1d_nonper_row Op Rth lo hi Lx g0r g1r mode Hm Hs3 HLx ltac:(lia) ltac:(lia)) as Hy.
  destruct (sfb1d Op lo hi Lx g0r g1r mode 3) as [y2|]; [|contradiction]. cbn [is_ok] in Hy.
  destruct Hy as (D1 & D2 & D3 & D4 & D5). rewrite A3 in D3, D5. rewrite A4 in D4, D5.
  (* non-separable side *)
  unfold sfb2d_nonsep. rewrite Hm1, Hm2. cbv iota. fold C.
  assert (Hterm: forall b, convT2d_r Op (band4 b x) (w_sfb_nonsep_band Op b C Ly Lx g0c g1c g0r g1r) 2 2 (Ly-2) (Lx-2)
                 = Ok (convT2d_dw Op (band4 b x) (w_sfb_nonsep_band Op b C Ly Lx g0c g1c g0r g1r) 2 2 (Ly-2) (Lx-2))).
  { intros b. destruct (Hb b) as (E1 & E2 & E3 & E4 & _). unfold convT2d_r, w_sfb_nonsep_band. cbn [wKH wKW]. rewrite E3, E4.
    replace (_ && _ && _ && _) with true by lia. reflexivity. }
  rewrite !Hterm. cbn [bind is_ok].
  cbn [force t_add convT2d_dw tN tC tH tW]. unfold w_sfb_nonsep_band at 1 2 3 4. cbn [wKH wKW]. rewrite Z1, Z2, Z3, Z4.
  repeat apply conj; try lia.
  intros n c i j Hc Hi Hj. rewrite force_eq. cbn [t_add convT2d_dw tf]. unfold w_sfb_nonsep_band. cbn [wf wKH wKW].
  rewrite Z3, Z4, T3, T4. destruct (Hb 1) as (_ & _ & O3 & O4 & _). destruct (Hb 3) as (_ & _ & Q3 & Q4 & _). rewrite O3, O4, Q3, Q4.
  rewrite D5 by lia. unfold syn.
  rewrite <- !sumZ_add by exact Rth.
  rewrite sum4_merge.
  apply sumZ_ext. intros l Hl.
  rewrite A5, B5 by lia. unfold syn.
  rewrite <- !(sumZ_scale_r Op Rth). rewrite <- !sumZ_add by exact Rth. apply sumZ_ext. intros k Hk.
  rewrite Z5, O5, T5, Q5.
  change (csel g0c g1c 0) with g0c. change (csel g0c g1c 1) with g1c. change (csel g0c g1c 2) with g0c. change (csel g0c g1c 3) with g1c.
  change (rsel g0r g1r 0) with g0r. change (rsel g0r g1r 1) with g0r. change (rsel g0r g1r 2) with g1r. change (rsel g0r g1r 3) with g1r.
  unfold zx.
  replace (i + (Ly - 2) - k * 2) with (i + (Ly-2) - 2*k) by lia. replace (j + (Lx - 2) - l * 2) with (j + (Lx-2) - 2*l) by lia.
  destruct (inr Ly (i + (Ly-2) - 2*k)); destruct (inr Lx (j + (Lx-2) - 2*l)); cbn [andb]; ring.
Qed.
End S.
