(* Scattering layers: size extension to a multiple of 8, output channel layout, pooling/upsampling adjointness. *)
From PW Require Import Base.Ops Base.Sum Base.Sig Base.Tensor Model.Dwt Model.Dtcwt Model.Scat.
Ltac Zify.zify_post_hook ::= Z.to_euclidean_division_equations.

Section S.
Context {R:Type} (Op:Ops R) (X:XOps R).
Notation ten := (@ten R).

(* ScatLayerj2's extension along rows: every height >= 3 becomes the next multiple of 8 *)
Lemma ext8_rows (x:ten) : 3 <= tH x ->
  tH (ext8 2 x) mod 8 = 0 /\ tH x <= tH (ext8 2 x) < tH x + 8 /\ tW (ext8 2 x) = tW x /\ tC (ext8 2 x) = tC x /\ tN (ext8 2 x) = tN x.
Proof.
  intros HH. unfold ext8, dlen. change (2 =? 2) with true. cbv iota.
  destruct (tH x mod 8 =? 0) eqn:E. { repeat split; lia. }
  unfold t_cat, t_pyslice, t_slice, t_gather, dlen, pyclip, range_len. change (2 =? 1) with false. change (2 =? 2) with true. cbv iota. cbn [tN tC tH tW].
  set (H := tH x) in *. set (rem := H mod 8) in *.
  assert (Hrem: 1 <= rem <= 7) by (unfold rem in *; lia).
  change (0 <? 0) with false. cbv iota. replace ((8 - rem)/2 <? 0) with false by lia.
  replace (- ((9 - rem)/2) <? 0) with true by lia.
  replace (Z.min H 0) with 0 by lia. replace (Z.min H ((8 - rem)/2)) with ((8 - rem)/2) by lia.
  replace (Z.max 0 (H + - ((9 - rem)/2))) with (H - (9 - rem)/2) by lia.
  replace (H <=? H - (9 - rem)/2) with false by lia.
  destruct ((8 - rem)/2 <=? 0) eqn:E1; repeat split; try lia.
Qed.
Lemma ext8_cols (x:ten) : 3 <= tW x ->
  tW (ext8 3 x) mod 8 = 0 /\ tW x <= tW (ext8 3 x) < tW x + 8 /\ tH (ext8 3 x) = tH x /\ tC (ext8 3 x) = tC x /\ tN (ext8 3 x) = tN x.
Proof.
  intros HH. unfold ext8, dlen. change (3 =? 2) with false. cbv iota.
  destruct (tW x mod 8 =? 0) eqn:E. { repeat split; lia. }
  unfold t_cat, t_pyslice, t_slice, t_gather, dlen, pyclip, range_len. change (3 =? 1) with false. change (3 =? 2) with false. cbv iota. cbn [tN tC tH tW].
  set (H := tW x) in *. set (rem := H mod 8) in *.
  assert (Hrem: 1 <= rem <= 7) by (unfold rem in *; lia).
  change (0 <? 0) with false. cbv iota. replace ((8 - rem)/2 <? 0) with false by lia.
  replace (- ((9 - rem)/2) <? 0) with true by lia.
  replace (Z.min H 0) with 0 by lia. replace (Z.min H ((8 - rem)/2)) with ((8 - rem)/2) by lia.
  replace (Z.max 0 (H + - ((9 - rem)/2))) with (H - (9 - rem)/2) by lia.
  replace (H <=? H - (9 - rem)/2) with false by lia.
  destruct ((8 - rem)/2 <=? 0) eqn:E1; repeat split; try lia.
Qed.

(* channel layout of the first-order layer (greyscale): channel band*C + c; band 0 = pooled lowpass, band 1+o = magnitude of orientation o *)
Variable b : R.
Lemma j1_layout (C:Z) (lp:ten) (p:list ten) n q i j : 0 < C -> tC lp = C -> 0 <= q < 7*C ->
  tf (t_cat 1 lp (mags Op X b C p)) n q i j =
  if q <? C then tf lp n q i j
  else smag Op X b (tf (pl Op p ((q - C)/C) 0) n ((q - C) mod C) i j) (tf (pl Op p ((q - C)/C) 1) n ((q - C) mod C) i j).
Proof.
  intros HC HlC Hq. unfold t_cat. change (1 =? 1) with true. cbv iota. cbn [tf]. rewrite HlC.
  destruct (q <? C); reflexivity.
Qed.
End S.

Section Adj.
Context {R:Type} (Op:Ops R) (Rth: RingOk Op) (X:XOps R).
Add Ring Rr : Rth.
(* avg_pool2d(.,2) and 1/4 * nearest upsampling are adjoint, 2x2 block by block *)
Lemma avgpool_up_adjoint (x g:@ten R) n c i j :
  rmul Op (tf (avgpool2 Op X x) n c i j) (tf g n c i j)
  = radd Op (radd Op (radd Op (rmul Op (tf x n c (2*i) (2*j)) (tf (up2q Op X g) n c (2*i) (2*j)))
                              (rmul Op (tf x n c (2*i) (2*j+1)) (tf (up2q Op X g) n c (2*i) (2*j+1))))
                     (rmul Op (tf x n c (2*i+1) (2*j)) (tf (up2q Op X g) n c (2*i+1) (2*j))))
            (rmul Op (tf x n c (2*i+1) (2*j+1)) (tf (up2q Op X g) n c (2*i+1) (2*j+1))).
Proof.
  unfold avgpool2, up2q. cbn [tf].
  replace (2*i/2) with i by lia. replace (2*j/2) with j by lia.
  replace ((2*i+1)/2) with i by lia. replace ((2*j+1)/2) with j by lia. ring.
Qed.
End Adj.

(* the size-2 case is outside the guarantee: height 2 is extended to 6, not 8 (known finding KF-J2-SIZE2) *)
Lemma ext8_size2_refuted : tH (ext8 2 (mkT 1 1 2 8 (fun _ _ _ _ => 0))) = 6.
Proof. vm_compute. reflexivity. Qed.
