(* C12 (axis tables): the GENERATED get_dimensions5/6 give the true axis positions for every requested pair
   in [-6,6)^2 with o <> ri (mod 6).  Truth is defined by inserting the two axes into the list of axis names. *)
From Coq Require Import ZArith List Lia Bool.
From PW Require Import Gen.Dims.
Import ListNotations.
Open Scope Z_scope.

Inductive ax := AN | AC | AH | AW | AO | ARI.
Definition ax_eqb (a b:ax) : bool := match a,b with AN,AN|AC,AC|AH,AH|AW,AW|AO,AO|ARI,ARI => true | _,_ => false end.
Fixpoint insert_at {A} (n:nat) (a:A) (l:list A) : list A :=
  match n, l with O, _ => a :: l | S k, x::t => x :: insert_at k a t | S k, [] => [a] end.
Fixpoint index_of (a:ax) (l:list ax) : Z := match l with [] => -1 | x::t => if ax_eqb a x then 0 else 1 + index_of a t end.
(* torch.stack([...6 orientations...], dim=o5) on (N,C,H,W), then torch.stack((re,im), dim=ri6) *)
Definition layout5 (o5:Z) := insert_at (Z.to_nat o5) AO [AN;AC;AH;AW].
Definition layout6 (o5 ri6:Z) := insert_at (Z.to_nat ri6) ARI (layout5 o5).

(* the requested positions are met by the final 6-D tensor, and the table knows where H and W are *)
Definition ok5 (o ri:Z) : bool :=
  let '(o5, ri6, h, w) := get_dimensions5 o ri in
  let l := layout5 o5 in
  (0 <=? o5) && (o5 <=? 4) && (index_of AO l =? o5) && (index_of AH l =? h) && (index_of AW l =? w)
  && (index_of AO (layout6 o5 ri6) =? o mod 6) && (index_of ARI (layout6 o5 ri6) =? ri mod 6).
Definition ok6 (o ri:Z) : bool :=
  let '(o5, ri6, h, w) := get_dimensions6 o ri in
  let l := layout6 o5 ri6 in
  (index_of ARI l =? ri mod 6) && (index_of AO l =? o mod 6) && (index_of AH l =? h) && (index_of AW l =? w).

Definition dom : list Z := [-6;-5;-4;-3;-2;-1;0;1;2;3;4;5].
Definition pairs := flat_map (fun o => map (fun r => (o,r)) dom) dom.
Definition distinct (p:Z*Z) := negb (fst p mod 6 =? snd p mod 6).

Lemma finite_dims : forallb (fun p => implb (distinct p) (ok5 (fst p) (snd p) && ok6 (fst p) (snd p))) pairs = true.
Proof. vm_compute. reflexivity. Qed.

Lemma dom_in z : -6 <= z < 6 -> In z dom.
Proof. intros H. unfold dom. cbn [In].
  assert (z = -6 \/ z = -5 \/ z = -4 \/ z = -3 \/ z = -2 \/ z = -1 \/ z = 0 \/ z = 1 \/ z = 2 \/ z = 3 \/ z = 4 \/ z = 5) by lia.
  intuition. Qed.

Theorem dims_correct : forall o ri : Z, -6 <= o < 6 -> -6 <= ri < 6 -> o mod 6 <> ri mod 6 ->
  ok5 o ri = true /\ ok6 o ri = true.
Proof.
  intros o ri Ho Hri Hd.
  pose proof finite_dims as F. rewrite forallb_forall in F.
  assert (Hin: In (o, ri) pairs).
  { unfold pairs. apply in_flat_map. exists o. split. apply dom_in; lia. apply in_map. apply dom_in; lia. }
  specialize (F _ Hin). cbn [fst snd] in F.
  unfold distinct in F. cbn [fst snd] in F.
  destruct (o mod 6 =? ri mod 6) eqn:E; [apply Z.eqb_eq in E; contradiction|]. cbn [negb implb] in F.
  apply andb_true_iff in F. exact F.
Qed.
