(* C15 / C16: the effect and dtype summary generated from the source on every run satisfies the purity rules;
   the process-wide state as a state machine: results do not depend on the history. *)
From Coq Require Import ZArith List Bool String.
From PW Require Import Gen.Effects Proofs.TablesProofs.
Import ListNotations.
Open Scope string_scope.

Definition mem (s:string) (l:list string) : bool := existsb (String.eqb s) l.
Definition site := (string * string * string * string * string)%type.
(* functions that run at construction time and may read the process default dtype *)
Definition is_constructor (fn:string) : bool :=
  String.prefix "prep_filt" fn || String.prefix "_as_" fn || mem fn ["__init__"].
(* creation sites without an explicit dtype that are tolerated: the absent-input guard of the six DTCWT primitives
   (reached only with a placeholder, result discarded) and the unused inverse-SWT file *)
Definition create_allow : list (string * string) :=
  [("dtcwt/lowlevel.py","colfilter"); ("dtcwt/lowlevel.py","rowfilter"); ("dtcwt/lowlevel.py","coldfilt");
   ("dtcwt/lowlevel.py","rowdfilt"); ("dtcwt/lowlevel.py","colifilt"); ("dtcwt/lowlevel.py","rowifilt");
   ("dwt/swt_inverse.py","SWTInverse.forward")].
(* creation sites with a dtype fixed in the source that are tolerated: the conversion of filters given as lists/arrays instead of
   tensors in the functional filter banks (never reached from the modules, whose filters are registered tensors; with a float64
   input the following convolution raises on the dtype mismatch, it does not compute in the wrong precision) *)
Definition filter_convert_allow : list (string * string) :=
  [("dwt/lowlevel.py","afb1d"); ("dwt/lowlevel.py","afb1d_atrous"); ("dwt/lowlevel.py","sfb1d"); ("dwt/swt_inverse.py","sfb1d_atrous")].
Definition pair_mem (f fn:string) (l:list (string*string)) : bool := existsb (fun p => String.eqb f (fst p) && String.eqb fn (snd p)) l.

Definition site_ok (s:site) : bool :=
  let '(file, fn, kind, detail, prov) := s in
  if String.eqb kind "inplace" then
    mem prov ["fresh"; "scalar"] || (String.eqb file "utils.py" && String.eqb fn "memoize")
  else if String.eqb kind "global_write" then
    String.eqb file "dtcwt/coeffs.py" && String.eqb fn "_load_from_file" && String.eqb detail "COEFF_CACHE"
  else if String.eqb kind "self_write" then false
  else if String.eqb kind "global_read" then String.eqb detail "get_default_dtype" && is_constructor fn
  else if String.eqb kind "create" then String.eqb prov "dtype" || is_constructor fn || pair_mem file fn create_allow
                                        || (String.eqb prov "fixed_dtype" && String.eqb detail "tensor" && pair_mem file fn filter_convert_allow)
  else if String.eqb kind "cast" then is_constructor fn
  else if String.eqb kind "decorator" then mem detail ["staticmethod"; "wraps"; "property"]
  else false.
Definition effects_ok : bool := forallb site_ok effects.
Definition bad_sites : list site := filter (fun s => negb (site_ok s)) effects.

Lemma effects_hold : effects_ok = true.
Proof. vm_compute. reflexivity. Qed.

(* ---- history independence over the effect abstraction ---- *)
Section Hist.
Variables (table params dtype modl arg out : Type).
Variable file : string -> table.                          (* the shipped data files: immutable *)
(* licensed by effects_ok: construction reads (params, default dtype, tables through the loader) and nothing else;
   a call reads the module and its argument and nothing else, and writes nothing but the cache insert-if-absent *)
Variable build : params -> dtype -> (string -> table) -> modl.
Variable needs : params -> list string.                   (* tables a construction loads *)
Variable run : modl -> arg -> out.

Record world := mkWorld { wcache : list (string * table); wdflt : dtype; wmods : list modl }.
Inductive op := Load (n:string) | SetDefault (d:dtype) | Construct (p:params) | Call (k:nat) (x:arg).

Fixpoint wfind (c:list (string*table)) (n:string) : option table :=
  match c with nil => None | (k,v)::r => if String.eqb k n then Some v else wfind r n end.
Definition wload (c:list (string*table)) (n:string) : list (string*table) * table :=
  match wfind c n with Some v => (c, v) | None => ((n, file n) :: c, file n) end.
Fixpoint wload_all (c:list (string*table)) (ns:list string) : list (string*table) :=
  match ns with nil => c | n :: r => wload_all (fst (wload c n)) r end.
(* the table a construction sees for name n, through the cache *)
Definition seen (c:list (string*table)) (n:string) : table := snd (wload c n).

Definition step (w:world) (o:op) : world * option out :=
  match o with
  | Load n => (mkWorld (fst (wload (wcache w) n)) (wdflt w) (wmods w), None)
  | SetDefault d => (mkWorld (wcache w) d (wmods w), None)
  | Construct p => (mkWorld (wload_all (wcache w) (needs p)) (wdflt w) (wmods w ++ [build p (wdflt w) (seen (wcache w))]), None)
  | Call k x => (w, match nth_error (wmods w) k with Some m => Some (run m x) | None => None end)
  end.
Definition cache_ok (c:list (string*table)) : Prop := forall n t, wfind c n = Some t -> t = file n.

Lemma wload_ok c n : cache_ok c -> cache_ok (fst (wload c n)) /\ snd (wload c n) = file n.
Proof.
  intros H. unfold wload. destruct (wfind c n) eqn:E; cbn [fst snd].
  - split; [exact H | apply H; exact E].
  - split; [|reflexivity]. intros m t. cbn [wfind]. destruct (String.eqb n m) eqn:E2.
    + apply String.eqb_eq in E2. subst. intros Ht. inversion Ht. reflexivity.
    + apply H.
Qed.
Lemma wload_all_ok c ns : cache_ok c -> cache_ok (wload_all c ns).
Proof. revert c; induction ns as [|n r IH]; intros c H; cbn [wload_all]; auto. apply IH. apply (wload_ok c n H). Qed.
Lemma seen_is_file c : cache_ok c -> forall n, seen c n = file n.
Proof. intros H n. unfold seen. apply (wload_ok c n H). Qed.
Lemma step_ok w o : cache_ok (wcache w) -> cache_ok (wcache (fst (step w o))).
Proof. intros H. destruct o; cbn [step fst wcache]; auto. apply (wload_ok _ n H). apply wload_all_ok; exact H. Qed.
Definition runs (w:world) (h:list op) : world := fold_left (fun w o => fst (step w o)) h w.
Lemma runs_ok h : forall w, cache_ok (wcache w) -> cache_ok (wcache (runs w h)).
Proof. induction h as [|o h IH]; intros w H; cbn [runs fold_left]; auto. apply IH. apply step_ok; exact H. Qed.

(* after ANY history, a module constructed with parameters p under default dtype d and called with x returns
   run (build p d file) x, provided build only looks at the tables through extensionally equal loaders *)
Hypothesis build_ext : forall p d f g, (forall n, f n = g n) -> build p d f = build p d g.
Theorem history_independent (h:list op) (w0:world) p d x :
  cache_ok (wcache w0) ->
  let w1 := runs w0 (h ++ [SetDefault d; Construct p]) in
  snd (step w1 (Call (List.length (wmods w1) - 1) x)) = Some (run (build p d file) x).
Proof.
  intros H0. cbv zeta. unfold runs. rewrite fold_left_app. cbn [fold_left step fst wcache wdflt wmods].
  set (w := fold_left _ h w0).
  assert (Hw: cache_ok (wcache w)) by (apply (runs_ok h w0 H0)).
  cbn [snd step wmods]. rewrite app_length. cbn [List.length]. rewrite Nat.add_sub.
  rewrite nth_error_app2 by apply le_n. rewrite Nat.sub_diag. cbn [nth_error].
  f_equal. f_equal. apply build_ext. apply seen_is_file. exact Hw.
Qed.
End Hist.
