(* C01 in two dimensions: column pass equals PyWavelets' closed form; AFB2D = pywt.dwt2 axis by axis with the band order
   (ll | lh, hl, hh) = (cA | cH, cV, cD). *)
From PW Require Import Base.Ops Base.Sum Base.Sig Base.Tensor Model.Dwt Spec.Line Proofs.ConvLine Proofs.DwtNF Proofs.LineTheory
  Proofs.SfbNF Proofs.DwtNFcol Proofs.C01Proofs.
Ltac Zify.zify_post_hook ::= Z.to_euclidean_division_equations.

Section S.
Context {R:Type} (Op:Ops R) (Rth: RingOk Op).
Add Ring Rr : Rth.
Notation ten := (@ten R).
Infix "+r" := (radd Op) (at level 50, left associativity).
Infix "*r" := (rmul Op) (at level 40, left associativity).
Notation sumZ := (sumZ Op).

Theorem afb1d_col_pywt x L d0 d1 mode : 2 <= L -> 1 <= tW x -> 1 <= tH x -> 0 < tC x ->
  level_ok mode L (tH x) -> (mode = M_REFLECT -> 2 <= tH x) ->
  is_ok (afb1d Op x L (rev_filt L d0) (rev_filt L d1) mode 2)
    (fun y => tN y = tN x /\ tC y = 2 * tC x /\ tW y = tW x /\ tH y = (tH x + L - 1)/2 /\
       forall n c t k j, 0 <= t < 2 -> 0 <= j < tW x -> 0 <= k < (tH x + L - 1)/2 ->
         tf y n (2*c + t) k j = pywt_dwt Op mode L (tH x) (dsel d0 d1 t) (fun q => tf x n c q j) k).
Proof.
  intros HL HW HH HC Hm Hr2.
  assert (Hsel: forall c t, 0 <= t < 2 -> hsel (rev_filt L d0) (rev_filt L d1) (2*c+t) = rev_filt L (dsel d0 d1 t)).
  { intros c t Ht. unfold hsel, dsel. replace ((2*c+t) mod 2) with t by lia. rewrite (Z.mod_small t 2) by lia.
    destruct (t =? 0); reflexivity. }
  destruct (Z.eq_dec mode M_ZERO) as [->|Hnz].
  - pose proof (afb1d_zero_col Op Rth x L (rev_filt L d0) (rev_filt L d1) HL HW HH HC) as H.
    destruct (afb1d Op x L _ _ M_ZERO 2) as [y|]; [|contradiction]. cbn [is_ok] in *.
    destruct H as (S1 & S2 & S3 & S4 & S5). repeat apply conj; auto.
    intros n c t k j Ht Hj Hk. rewrite S5 by lia. rewrite Hsel by lia. rewrite (ana_pywt Op Rth).
    unfold pywt_dwt. apply sumZ_ext. intros m _. f_equal.
    replace ((2*c+t)/2) with c by lia.
    unfold ext_of. change (M_ZERO =? 0) with true. cbv iota. unfold ext_zero, colz, zx.
    rewrite (inr_true (tW x) j) by lia. rewrite andb_true_r. reflexivity.
  - assert (Hg: gather_mode_ok mode (tH x) (L-2) ((2 * ((tH x + L - 1)/2 - 1) - tH x + L + 1)/2)).
    { destruct Hm as [H|[H|[H|(H & H1 & H2)]]]; [contradiction | left; exact H | right; left; exact H | right; right; auto]. }
    pose proof (afb1d_gather_col Op Rth x L (rev_filt L d0) (rev_filt L d1) mode HL HW HH HC Hg) as H.
    destruct (afb1d Op x L _ _ mode 2) as [y|]; [|contradiction]. cbn [is_ok] in *.
    destruct H as (S1 & S2 & S3 & S4 & S5). repeat apply conj; auto.
    intros n c t k j Ht Hj Hk. rewrite S5 by lia. rewrite Hsel by lia. rewrite (ana_pywt Op Rth).
    unfold pywt_dwt. apply sumZ_ext. intros m Hm'. f_equal.
    replace ((2*c+t)/2) with c by lia.
    unfold ext_of, pad_idx.
    destruct Hg as [->|[->|(-> & G1 & G2)]].
    + change (M_SYMM =? M_SYMM) with true. change (M_SYMM =? 0) with false. change (M_SYMM =? 1) with true. cbv iota.
      unfold ext_sym. f_equal. f_equal. lia.
    + change (M_PERIODIC =? M_SYMM) with false. change (M_PERIODIC =? M_PERIODIC) with true.
      change (M_PERIODIC =? 0) with false. change (M_PERIODIC =? 1) with false. change (M_PERIODIC =? 4) with false. cbv iota.
      unfold ext_wrap, wrap_idx. f_equal. f_equal. lia.
    + change (M_REFLECT =? M_SYMM) with false. change (M_REFLECT =? M_PERIODIC) with false.
      change (M_REFLECT =? 0) with false. change (M_REFLECT =? 1) with false. change (M_REFLECT =? 4) with true. cbv iota.
      unfold ext_refl. f_equal. replace (2*k+1-m-0) with (2*k+1-m) by lia. apply refl_idx_full. apply Hr2; reflexivity.
      lia.
Qed.

(* the extension of a signal of length N only reads the signal on [0,N) *)
Lemma refl_full_range N i : 2 <= N -> 0 <= refl_full N i < N.
Proof. intros HN. unfold refl_full. cbv zeta. pose proof (Z.mod_pos_bound i (2*N-2) ltac:(lia)).
  destruct (_ <? N) eqn:E; lia. Qed.
Lemma ext_of_ext mode N (f g:Z->R) i : 0 < N -> (mode = M_REFLECT -> 2 <= N) ->
  (forall q, 0 <= q < N -> f q = g q) -> ext_of Op mode N f i = ext_of Op mode N g i.
Proof.
  intros HN Hr Hfg. unfold ext_of.
  destruct (mode =? 0) eqn:E0.
  - unfold ext_zero, zx. destruct (inr N i) eqn:E; [apply Hfg; unfold inr in E; lia | reflexivity].
  - destruct (mode =? 1) eqn:E1.
    + unfold ext_sym. apply Hfg. apply sym_idx_range; lia.
    + destruct (mode =? 4) eqn:E4.
      * unfold ext_refl. apply Hfg. apply refl_full_range. apply Hr. unfold M_REFLECT. lia.
      * unfold ext_wrap. apply Hfg. apply Z.mod_pos_bound; lia.
Qed.
Lemma pywt_dwt_ext mode L N dec (f g:Z->R) k : 0 < N -> (mode = M_REFLECT -> 2 <= N) ->
  (forall q, 0 <= q < N -> f q = g q) -> pywt_dwt Op mode L N dec f k = pywt_dwt Op mode L N dec g k.
Proof. intros HN Hr Hfg. unfold pywt_dwt. apply sumZ_ext. intros m Hm. f_equal. apply ext_of_ext; assumption. Qed.

(* pywt.dwt2 axis by axis: rows (last axis) first with the row wavelet, then columns with the column wavelet *)
Definition pywt_dwt2 (mode:Z) (Lr:Z) (dr:Z->R) (Lc:Z) (dc:Z->R) (H W:Z) (img:Z->Z->R) (i j:Z) : R :=
  pywt_dwt Op mode Lc H dc (fun p => pywt_dwt Op mode Lr W dr (fun q => img p q) j) i.

(* band b of (N,C,4,H',W'): b = 2*t + s with t the row band and s the column band:
   0 = approximation, 1 = row-low/col-high (cH), 2 = row-high/col-low (cV), 3 = cD *)
Theorem AFB2D_pywt (x:ten) Lr dr0 dr1 Lc dc0 dc1 mode :
  2 <= Lr -> 2 <= Lc -> 1 <= tW x -> 1 <= tH x -> 0 < tC x ->
  level_ok mode Lr (tW x) -> level_ok mode Lc (tH x) -> (mode = M_REFLECT -> 2 <= tW x /\ 2 <= tH x) ->
  is_ok (AFB2D_fwd Op x Lr (rev_filt Lr dr0) (rev_filt Lr dr1) Lc (rev_filt Lc dc0) (rev_filt Lc dc1) mode)
    (fun r => let '(low, highs) := r in
       let H' := (tH x + Lc - 1)/2 in let W' := (tW x + Lr - 1)/2 in
       tN low = tN x /\ tC low = tC x /\ tH low = H' /\ tW low = W' /\
       tN highs = tN x /\ tC highs = 3 * tC x /\ tH highs = H' /\ tW highs = W' /\
       forall n c i j, 0 <= c < tC x -> 0 <= i < H' -> 0 <= j < W' ->
         tf low n c i j = pywt_dwt2 mode Lr dr0 Lc dc0 (tH x) (tW x) (fun p q => tf x n c p q) i j /\
         forall b, 1 <= b < 4 ->
           tf highs n (3*c + (b-1)) i j
           = pywt_dwt2 mode Lr (dsel dr0 dr1 (b/2)) Lc (dsel dc0 dc1 (b mod 2)) (tH x) (tW x) (fun p q => tf x n c p q) i j).
Proof.
  intros HLr HLc HW HH HC Hmr Hmc Hr2.
  unfold AFB2D_fwd.
  pose proof (afb1d_row_pywt Op Rth x Lr dr0 dr1 mode HLr HW HH HC Hmr ltac:(intros E; apply (proj1 (Hr2 E)))) as Hrow.
  destruct (afb1d Op x Lr _ _ mode 3) as [lohi|]; [|contradiction]. cbn [is_ok bind] in *.
  destruct Hrow as (R1 & R2 & R3 & R4 & R5).
  assert (HWl: 1 <= tW lohi) by (rewrite R4; lia).
  pose proof (afb1d_col_pywt lohi Lc dc0 dc1 mode HLc HWl ltac:(lia) ltac:(lia) ltac:(rewrite R3; exact Hmc) ltac:(intros E; rewrite R3; apply (proj2 (Hr2 E)))) as Hcol.
  destruct (afb1d Op lohi Lc _ _ mode 2) as [y|]; [|contradiction]. cbn [is_ok bind] in *.
  destruct Hcol as (C1 & C2 & C3 & C4 & C5).
  rewrite R3 in *. rewrite R4 in *.
  unfold band4, highs4, t_chmap. cbn [force tN tC tH tW].
  rewrite C2, R2.
  assert (Hval: forall n c t s i j, 0 <= t < 2 -> 0 <= s < 2 -> 0 <= i < (tH x + Lc - 1)/2 -> 0 <= j < (tW x + Lr - 1)/2 ->
      tf y n (4*c + 2*t + s) i j
      = pywt_dwt2 mode Lr (dsel dr0 dr1 t) Lc (dsel dc0 dc1 s) (tH x) (tW x) (fun p q => tf x n c p q) i j).
  { intros n c t s i j Ht Hs Hi Hj. replace (4*c + 2*t + s) with (2*(2*c+t) + s) by lia.
    rewrite C5 by lia. unfold pywt_dwt2. apply pywt_dwt_ext; [lia | intros E; apply (proj2 (Hr2 E)) |].
    intros p Hp. apply R5; lia. }
  repeat apply conj; try lia.
  intros n c i j Hc Hi Hj. split.
  - rewrite force_eq. cbn [tf]. replace (4*c + 0) with (4*c + 2*0 + 0) by lia. rewrite Hval by lia.
    unfold dsel. reflexivity.
  - intros b Hb. rewrite force_eq. cbn [tf].
    replace ((3*c + (b-1))/3) with c by lia. replace ((3*c + (b-1)) mod 3) with (b-1) by lia.
    replace (4*c + (b-1) + 1) with (4*c + 2*(b/2) + b mod 2) by lia. rewrite Hval by lia. reflexivity.
Qed.
End S.
