(* Normal forms: what afb1d / sfb1d (tensor-level transcription) compute, as 1-D sums along the filtered line. *)
From PW Require Import Base.Ops Base.Sum Base.Sig Base.Tensor Model.Dwt Spec.Line Proofs.ConvLine.

Ltac Zify.zify_post_hook ::= Z.to_euclidean_division_equations.
Definition is_ok {A} (r:res A) (P:A->Prop) : Prop := match r with Ok a => P a | Err _ => False end.
Lemma is_ok_bind {A B} (r:res A) (f:A->res B) (P:A->Prop) (Q:B->Prop) :
  is_ok r P -> (forall a, P a -> is_ok (f a) Q) -> is_ok (bind r f) Q.
Proof. destruct r; cbn; intros H1 H2; [apply H2; exact H1 | contradiction]. Qed.

Section S.
Context {R:Type} (Op:Ops R) (Rth: RingOk Op).
Add Ring Rr : Rth.
Notation ten := (@ten R).
Infix "+r" := (radd Op) (at level 50, left associativity).
Infix "*r" := (rmul Op) (at level 40, left associativity).
Notation sumZ := (sumZ Op).

Definition hsel (h0 h1:Z->R) (oc:Z) : Z->R := if oc mod 2 =? 0 then h0 else h1.

Lemma strides3 : strides 3 = (1,2). Proof. reflexivity. Qed.
Lemma strides2 : strides 2 = (2,1). Proof. reflexivity. Qed.
Lemma along3 v : along 3 v = (0,v). Proof. reflexivity. Qed.
Lemma along2 v : along 2 v = (v,0). Proof. reflexivity. Qed.

Lemma pad_half N L : 2 <= L -> 1 <= N -> (2 * ((N + L - 1)/2 - 1) - N + L) / 2 = L - 2.
Proof. intros. lia. Qed.

(* shape + line formula of the result, dim 3 *)
Definition afb_row_spec (x:ten) (Wout:Z) (line:Z->Z->Z->Z->R) (y:ten) : Prop :=
  tN y = tN x /\ tC y = 2 * tC x /\ tH y = tH x /\ tW y = Wout /\
  forall n oc i k, 0 <= i < tH x -> 0 <= k < Wout -> tf y n oc i k = line n oc i k.

Lemma rowz_zpad_after x n c i q : rowz Op (t_zpad Op 0 1 0 0 x) n c i q = rowz Op x n c i q.
Proof. unfold rowz, t_zpad; cbn [tf tH tW]. unfold inr.
  destruct (Z_le_gt_dec 0 i), (Z_lt_ge_dec i (tH x)), (Z_le_gt_dec 0 q), (Z_lt_ge_dec q (tW x));
  repeat match goal with |- context[?a <=? ?b] => (replace (a <=? b) with true by lia) || (replace (a <=? b) with false by lia) end;
  repeat match goal with |- context[?a <? ?b] => (replace (a <? b) with true by lia) || (replace (a <? b) with false by lia) end;
  cbn [andb]; try reflexivity.
  all: try (replace (i - 0) with i by lia; replace (q - 0) with q by lia; reflexivity).
  all: destruct (Z_lt_ge_dec q (tW x + 0 + 1)); 
   repeat match goal with |- context[?a <? ?b] => (replace (a <? b) with true by lia) || (replace (a <? b) with false by lia) end; cbn [andb]; reflexivity.
Qed.

Lemma force_shape (t:ten) : tN (force Op t) = tN t /\ tC (force Op t) = tC t /\ tH (force Op t) = tH t /\ tW (force Op t) = tW t.
Proof. repeat split. Qed.
Lemma rowz_force t n c i q : rowz Op (force Op t) n c i q = rowz Op t n c i q.
Proof. unfold rowz. rewrite force_eq. reflexivity. Qed.
Lemma colz_force t n c j q : colz Op (force Op t) n c j q = colz Op t n c j q.
Proof. unfold colz. rewrite force_eq. reflexivity. Qed.

Lemma conv2d_r_row (x:ten) OC L (hs:Z->Z->R) sw pw dw :
  1 <= tH x -> 0 <= pw -> 0 <= tW x + 2*pw - dw*(L-1) - 1 ->
  conv2d_r Op x (w_line 3 OC L hs) 1 sw 0 pw 1 dw = Ok (conv2d_dw Op x (w_line 3 OC L hs) 1 sw 0 pw 1 dw).
Proof. intros. unfold conv2d_r. rewrite w_line3. cbn [wKH wKW].
  replace (_ && _ && _ && _) with true by lia. reflexivity. Qed.
Lemma conv2d_r_col (x:ten) OC L (hs:Z->Z->R) sh ph dh :
  1 <= tW x -> 0 <= ph -> 0 <= tH x + 2*ph - dh*(L-1) - 1 ->
  conv2d_r Op x (w_line 2 OC L hs) sh 1 ph 0 dh 1 = Ok (conv2d_dw Op x (w_line 2 OC L hs) sh 1 ph 0 dh 1).
Proof. intros. unfold conv2d_r. rewrite w_line2. cbn [wKH wKW].
  replace (_ && _ && _ && _) with true by lia. reflexivity. Qed.

Theorem afb1d_zero_row x L h0 h1 : 2 <= L -> 1 <= tW x -> 1 <= tH x -> 0 < tC x ->
  is_ok (afb1d Op x L h0 h1 M_ZERO 3)
    (afb_row_spec x ((tW x + L - 1)/2) (fun n oc i k => ana Op L (hsel h0 h1 oc) (rowz Op x n (oc/2) i) k)).
Proof.
  intros HL HN HH HC. unfold afb1d, dlen, dwt_coeff_len. rewrite strides3.
  change (M_ZERO =? M_PER) with false. change (M_ZERO =? M_ZERO) with true.
  change (3 =? 2) with false. cbv iota. rewrite along3.
  rewrite pad_half by lia.
  set (p := 2 * ((tW x + L - 1) / 2 - 1) - tW x + L).
  set (x1 := force Op _).
  assert (Hs: tN x1 = tN x /\ tC x1 = tC x /\ tH x1 = tH x /\ tW x1 = tW x + (if p mod 2 =? 1 then 1 else 0)).
  { unfold x1. destruct (p mod 2 =? 1); cbn [force tN tC tH tW t_zpad]; repeat apply conj; lia. }
  assert (Hr: forall n c i q, rowz Op x1 n c i q = rowz Op x n c i q).
  { intros. unfold x1. rewrite rowz_force. destruct (p mod 2 =? 1); [apply rowz_zpad_after | reflexivity]. }
  destruct Hs as (Hs1 & Hs2 & Hs3 & Hs4).
  unfold w_afb. rewrite conv2d_r_row by (destruct (p mod 2 =? 1) eqn:E; unfold p in *; lia).
  cbn [bind is_ok]. unfold afb_row_spec. cbn [force tN tC tH tW conv2d_dw]. rewrite w_line3; cbn [wO wKH wKW].
  repeat split; try lia.
  - rewrite Hs4. destruct (p mod 2 =? 1) eqn:E; unfold p in *; lia.
  - intros n oc i k _ _. rewrite force_eq. rewrite <- w_line3. rewrite conv_row by exact Rth.
    unfold ana. apply sumZ_ext. intros b Hb. rewrite Hr. rewrite Hs2.
    replace (2 * tC x / tC x) with 2 by (symmetry; apply Z.div_mul; lia).
    unfold hsel. f_equal. destruct (oc mod 2 =? 0); reflexivity. f_equal. lia.
Qed.

(* index array built by mypad for the three gather modes *)
Definition pad_idx (mode N before:Z) : Z -> Z :=
  if mode =? M_SYMM then (fun q => sym_idx N (q - before))
  else if mode =? M_PERIODIC then (fun q => wrap_idx N (q - before))
  else (fun q => refl_idx N (q - before)).
Definition gather_mode_ok (mode N before after:Z) : Prop :=
  mode = M_SYMM \/ mode = M_PERIODIC \/ (mode = M_REFLECT /\ before < N /\ after < N).

Lemma mypad_gather d before after mode (x:ten) : 0 < dlen d x -> gather_mode_ok mode (dlen d x) before after ->
  exists idx, mypad Op d before after mode x = Ok (t_gather d (dlen d x + before + after) idx x)
    /\ forall q, idx q = pad_idx mode (dlen d x) before q.
Proof.
  intros HN [H|[H|(H & H1 & H2)]]; subst mode; unfold mypad, pad_idx.
  - change (M_SYMM =? M_SYMM) with true. cbv iota. eexists; split; [reflexivity|].
    intros q. apply reflect_model_sym; lia.
  - change (M_PERIODIC =? M_SYMM) with false. change (M_PERIODIC =? M_PERIODIC) with true. cbv iota.
    eexists; split; reflexivity.
  - change (M_REFLECT =? M_SYMM) with false. change (M_REFLECT =? M_PERIODIC) with false.
    change (M_REFLECT =? M_REFLECT) with true. cbv iota.
    replace ((before <? dlen d x) && (after <? dlen d x)) with true by lia.
    eexists; split; reflexivity.
Qed.

Theorem afb1d_gather_row x L h0 h1 mode : 2 <= L -> 1 <= tW x -> 1 <= tH x -> 0 < tC x ->
  gather_mode_ok mode (tW x) (L-2) ((2 * ((tW x + L - 1)/2 - 1) - tW x + L + 1)/2) ->
  is_ok (afb1d Op x L h0 h1 mode 3)
    (afb_row_spec x ((tW x + L - 1)/2) (fun n oc i k =>
       ana Op L (hsel h0 h1 oc) (fun q => tf x n (oc/2) i (pad_idx mode (tW x) 0 q)) k)).
Proof.
  intros HL HN HH HC Hm.
  assert (Hmode: (mode =? M_PER) = false /\ (mode =? M_ZERO) = false /\
                 ((mode =? M_SYMM) || (mode =? M_REFLECT) || (mode =? M_PERIODIC)) = true).
  { destruct Hm as [H|[H|(H & _)]]; subst mode; repeat split; reflexivity. }
  destruct Hmode as (Hm1 & Hm2 & Hm3).
  unfold afb1d, dwt_coeff_len. rewrite strides3, Hm1, Hm2, Hm3. cbv iota.
  change (dlen 3 x) with (tW x). rewrite pad_half by lia.
  set (p := 2 * ((tW x + L - 1) / 2 - 1) - tW x + L) in *.
  destruct (mypad_gather 3 (L-2) ((p+1)/2) mode x) as (idx & Hpad & Hidx); [change (dlen 3 x) with (tW x); lia | exact Hm |].
  change (dlen 3 x) with (tW x) in *. rewrite Hpad. cbn [bind].
  unfold w_afb. rewrite conv2d_r_row by (unfold t_gather; change (3 =? 2) with false; cbv iota; cbn [force tH tW]; unfold p; lia).
  cbn [bind is_ok]. unfold afb_row_spec. cbn [force tN tC tH tW conv2d_dw]. rewrite w_line3; cbn [wO wKH wKW].
  unfold t_gather. change (3 =? 2) with false. cbv iota. cbn [tN tC tH tW].
  repeat apply conj; try (unfold p; lia).
  intros n oc i k Hi Hk. rewrite force_eq. rewrite <- w_line3. rewrite conv_row by exact Rth.
    unfold ana. apply sumZ_ext. intros b Hb. rewrite rowz_force. unfold rowz. cbn [tf tH tW tC].
    replace (inr (tH x) i && inr (tW x + (L - 2) + (p + 1) / 2) (k * 2 + b * 1 - 0)) with true
      by (unfold inr, p in *; lia).
    cbn [force tC].
    replace (2 * tC x / tC x) with 2 by (symmetry; apply Z.div_mul; lia).
    rewrite Hidx. unfold hsel. f_equal. destruct (oc mod 2 =? 0); reflexivity.
    f_equal. unfold pad_idx. destruct (mode =? M_SYMM); [|destruct (mode =? M_PERIODIC)]; f_equal; lia.
Qed.

(* ---- periodization ---- *)
Lemma roll_row (x:ten) s : 0 < s < tW x ->
  let y := roll x (-s) 3 in
  tN y = tN x /\ tC y = tC x /\ tH y = tH x /\ tW y = tW x /\
  forall n c i q, 0 <= q < tW x -> tf y n c i q = tf x n c i ((q + s) mod tW x).
Proof.
  intros Hs. unfold roll, dlen. change (3 =? 2) with false. cbv iota.
  replace (- s <? 0) with true by lia.
  unfold pyclip. replace (- (tW x + - s) <? 0) with true by lia.
  replace (Z.max 0 (tW x + - (tW x + - s))) with s by lia.
  unfold t_slice, t_gather, t_cat. change (3 =? 2) with false. change (3 =? 1) with false. cbv iota. cbn [tN tC tH tW tf].
  unfold range_len. replace (tW x <=? s) with false by lia. replace (s <=? 0) with false by lia.
  repeat apply conj; try lia.
  intros n c i q Hq.
  destruct (q <? (tW x - s + 1 - 1) / 1) eqn:E.
  - f_equal. rewrite Z.mod_small by lia. lia.
  - f_equal. replace (q + s) with ((q + s - tW x) + 1 * tW x) by lia. rewrite Z.mod_add by lia.
    rewrite Z.mod_small by lia. lia.
Qed.

Definition afb_per_row_line (x:ten) (L:Z) (h0 h1:Z->R) n oc i k : R :=
  ana_per Op L (even_len (tW x)) (hsel h0 h1 oc) (even_ext (tW x) (fun q => tf x n (oc/2) i q)) k.

Theorem afb1d_per_row x L h0 h1 : 2 <= L -> L mod 2 = 0 -> L <= even_len (tW x) -> 1 <= tW x -> 1 <= tH x -> 0 < tC x ->
  is_ok (afb1d Op x L h0 h1 M_PER 3) (afb_row_spec x (even_len (tW x) / 2) (afb_per_row_line x L h0 h1)).
Proof.
  intros HL HLe HLN HN HH HC. unfold afb1d, dlen. rewrite strides3.
  change (M_PER =? M_PER) with true. change (3 =? 2) with false. cbv iota. rewrite along3.
  set (N := tW x) in *.
  set (x1 := if N mod 2 =? 1 then _ else x).
  set (N1 := if N mod 2 =? 1 then N + 1 else N).
  assert (HN1: N1 = even_len N) by reflexivity.
  assert (Hx1: tN x1 = tN x /\ tC x1 = tC x /\ tH x1 = tH x /\ tW x1 = N1 /\
               forall n c i q, 0 <= q < N1 -> tf x1 n c i q = even_ext N (fun q => tf x n c i q) q).
  { unfold x1, N1, even_ext. destruct (N mod 2 =? 1) eqn:E.
    - unfold t_cat, t_slice, t_gather, pyclip, range_len. change (3 =? 1) with false. change (3 =? 2) with false. cbv iota.
      replace (-1 <? 0) with true by lia. replace (N <=? Z.max 0 (N + -1)) with false by lia.
      cbn [tN tC tH tW tf]. fold N. repeat apply conj; try lia.
      intros n c i q Hq. destruct (q <? N) eqn:Eq; [reflexivity|]. f_equal. lia.
    - repeat apply conj; try reflexivity. intros n c i q Hq. replace (q <? N) with true by lia. reflexivity. }
  destruct Hx1 as (A1 & A2 & A3 & A4 & A5).
  assert (HL2: 0 < L/2 < tW x1) by (rewrite A4, HN1; unfold even_len in *; destruct (N mod 2 =? 1); lia).
  pose proof (roll_row x1 (L/2) HL2) as Hr. cbv zeta in Hr. destruct Hr as (B1 & B2 & B3 & B4 & B5).
  set (x2 := force Op (roll x1 (- (L/2)) 3)).
  unfold w_afb.
  assert (HN1pos: N <= N1 <= N + 1) by (unfold N1; destruct (N mod 2 =? 1); lia).
  rewrite conv2d_r_row by (unfold x2; cbn [force tH tW]; rewrite ?B3, ?B4, ?A3, ?A4; lia).
  cbn [bind].
  set (lohi := force Op (conv2d_dw Op x2 _ 1 2 0 (L-1) 1 1)).
  assert (Hlw: tW lohi = N1/2 + L/2).
  { unfold lohi. cbn [force tW conv2d_dw]. rewrite w_line3; cbn [wKW]. unfold x2; cbn [force tW]. rewrite B4, A4.
    rewrite HN1 in *. unfold even_len in *. destruct (N mod 2 =? 1) eqn:E; lia. }
  assert (Hlh: tH lohi = tH x /\ tN lohi = tN x /\ tC lohi = 2 * tC x).
  { unfold lohi. cbn [force tN tC tH conv2d_dw]. rewrite w_line3; cbn [wKH wO]. unfold x2; cbn [force tH tN tC]. rewrite ?B3, ?A3, ?B1, ?A1, ?A2. repeat split; lia. }
  destruct Hlh as (C1 & C2 & C3).
  unfold fold_add, dlen. change (3 =? 2) with false. cbv iota. rewrite Hlw.
  assert (HN1e: N1 mod 2 = 0) by (rewrite HN1; unfold even_len; destruct (N mod 2 =? 1) eqn:E; lia).
  unfold pyclip.
  replace (L/2 <? 0) with false by lia. replace (N1/2 + L/2 <? 0) with false by lia. replace (N1/2 <? 0) with false by lia.
  replace (Z.min (N1/2 + L/2) (L/2)) with (L/2) by lia.
  replace (Z.min (N1/2 + L/2) (N1/2 + L/2)) with (N1/2 + L/2) by lia.
  replace (Z.min (N1/2 + L/2) (N1/2)) with (N1/2) by lia.
  replace (L/2 =? N1/2 + L/2 - N1/2) with true by lia.
  cbn [bind is_ok tW].
  replace (Z.min (N1/2 + L/2) (N1/2)) with (N1/2) by lia.
  unfold afb_row_spec, t_slice, t_gather. change (3 =? 2) with false. cbv iota. cbn [force tN tC tH tW].
  unfold range_len. replace (N1/2 <=? 0) with false by lia.
  repeat apply conj; try lia.
  intros n oc i k Hi Hk. rewrite <- HN1 in Hk. rewrite force_eq. cbn [tf].
  replace (0 + 1 * k) with k by lia.
  (* value of lohi *)
  assert (Hlohi: forall k', 0 <= k' < N1/2 + L/2 -> tf lohi n oc i k' =
            sumZ 0 L (fun b => hsel h0 h1 oc b *r (if inr N1 (2*k' + b - (L-1)) then even_ext N (fun q => tf x n (oc/2) i q) ((2*k' + b - (L-1) + L/2) mod N1) else r0 Op))).
  { intros k' Hk'. unfold lohi. rewrite force_eq. rewrite conv_row by exact Rth. apply sumZ_ext. intros b Hb.
    unfold hsel at 1. f_equal. destruct (oc mod 2 =? 0); reflexivity.
    unfold x2. rewrite rowz_force. unfold rowz. rewrite B3, A3, B4, A4. rewrite (inr_true (tH x) i) by lia. cbn [andb].
    cbn [force tC]. rewrite B2, A2. replace (2 * tC x / tC x) with 2 by (symmetry; apply Z.div_mul; lia).
    replace (k' * 2 + b * 1 - (L - 1)) with (2 * k' + b - (L-1)) by lia.
    destruct (inr N1 (2 * k' + b - (L - 1))) eqn:E; [|reflexivity].
    unfold inr in E. rewrite B5 by lia. rewrite A4. apply A5. apply Z.mod_pos_bound. lia. }
  unfold afb_per_row_line, ana_per. fold N. rewrite <- HN1.
  destruct (k <? L/2) eqn:Ek.
  - rewrite !Hlohi by lia. rewrite <- sumZ_add by exact Rth. apply sumZ_ext. intros b Hb.
    destruct (Z_le_gt_dec 0 (2*k + b - (L-1))) as [Hp|Hp].
    + rewrite (inr_true N1 (2*k + b - (L-1))) by lia. rewrite (inr_false N1 (2*(N1/2 + k) + b - (L-1))) by lia. ring.
    + rewrite (inr_false N1 (2*k + b - (L-1))) by lia. rewrite (inr_true N1 (2*(N1/2 + k) + b - (L-1))) by lia.
      replace ((2 * (N1 / 2 + k) + b - (L - 1) + L / 2) mod N1) with ((2 * k + b - (L - 1) + L / 2) mod N1).
      ring.
      replace (2 * (N1 / 2 + k) + b - (L - 1) + L / 2) with ((2 * k + b - (L - 1) + L / 2) + 1 * N1) by lia.
      rewrite Z.mod_add by lia. reflexivity.
  - rewrite Hlohi by lia. apply sumZ_ext. intros b Hb. rewrite (inr_true N1 (2*k + b - (L-1))) by lia. reflexivity.
Qed.
End S.
