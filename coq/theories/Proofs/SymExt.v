(* Half-sample symmetric extension and odd-length symmetric filters: the algebra behind DTCWT level 1
   (perfect reconstruction, C04) and the self-adjointness of colfilter (C06).  Line level, any commutative ring. *)
From PW Require Import Base.Ops Base.Sum Base.Sig Spec.Line.
Ltac Zify.zify_post_hook ::= Z.to_euclidean_division_equations.

Lemma sym_idx_refl r u : 0 < r -> sym_idx r (-1 - u) = sym_idx r u.
Proof.
  intros Hr. unfold sym_idx. cbv zeta.
  pose proof (Z.div_mod u (2 * r) ltac:(lia)) as Hdm. pose proof (Z.mod_pos_bound u (2 * r) ltac:(lia)) as Hb.
  set (q := u / (2 * r)) in *. set (m := u mod (2 * r)) in *.
  rewrite <- (Z.mod_unique (-1-u) (2 * r) (-q-1) (2 * r-1-m)) by lia.
  destruct (2 * r-1-m <? r) eqn:E1; destruct (m <? r) eqn:E2; lia.
Qed.
Lemma sym_idx_period r u : 0 < r -> sym_idx r (u + 2 * r) = sym_idx r u.
Proof.
  intros Hr. unfold sym_idx. cbv zeta. replace (u + 2 * r) with (u + 1*(2 * r)) by lia. rewrite Z.mod_add by lia. reflexivity.
Qed.
Lemma sym_idx_idem r u : 0 < r -> sym_idx r (sym_idx r u) = sym_idx r u.
Proof. intros. apply sym_idx_in. apply sym_idx_range. assumption. Qed.

Section S.
Context {R:Type} (Op:Ops R) (Rth: RingOk Op).
Add Ring Rr : Rth.
Infix "+r" := (radd Op) (at level 50, left associativity).
Infix "*r" := (rmul Op) (at level 40, left associativity).
Notation sumZ := (sumZ Op).
Notation dot := (dot Op).

Definition Symmetric (L:Z) (h:Z->R) : Prop := forall a, 0 <= a < L -> h a = h (L-1-a).
(* line filtering of the symmetric extension, for every u in Z (model normal form of colfilter on [0,r)) *)
Definition cfline (L r:Z) (h x:Z->R) (u:Z) : R := sumZ 0 L (fun a => h a *r ext_sym r x (u + a - L/2)).

(* (1) the output of a symmetric odd filter on a symmetric extension is symmetric with the same centre *)
Lemma cfline_refl L r h x u : 0 < r -> L mod 2 = 1 -> Symmetric L h -> cfline L r h x (-1 - u) = cfline L r h x u.
Proof.
  intros Hr HLo Hs. unfold cfline, ext_sym. rewrite (sumZ_rev Op Rth 0 L). apply sumZ_ext. intros a Ha. cbv beta.
  rewrite <- Hs by lia. f_equal. f_equal.
  rewrite <- (sym_idx_refl r (-1 - u + (0 + L - 1 - a) - L/2)) by lia. f_equal. lia.
Qed.
Lemma cfline_period L r h x u : 0 < r -> cfline L r h x (u + 2 * r) = cfline L r h x u.
Proof.
  intros Hr. unfold cfline, ext_sym. apply sumZ_ext. intros a Ha. f_equal. f_equal.
  replace (u + 2 * r + a - L/2) with ((u + a - L/2) + 2 * r) by lia. apply sym_idx_period; lia.
Qed.
(* a function with these two symmetries is determined by its values on [0,r) *)
Lemma sym_determined r (F:Z->R) u : 0 < r -> (forall v, F (-1 - v) = F v) -> (forall v, F (v + 2 * r) = F v) -> F (sym_idx r u) = F u.
Proof.
  intros Hr Hrefl Hper.
  assert (Hperk: forall k v, F (v + k*(2 * r)) = F v).
  { intros k. pattern k. apply Z.bi_induction.
    - intros a b ->. tauto.
    - intros v. f_equal. lia.
    - intros k'. split; intros IH v.
      + replace (v + Z.succ k' * (2 * r)) with ((v + k'*(2 * r)) + 2 * r) by lia. rewrite Hper. apply IH.
      + rewrite <- (IH v). replace (v + Z.succ k' * (2 * r)) with ((v + k'*(2 * r)) + 2 * r) by lia. rewrite Hper. reflexivity. }
  unfold sym_idx. cbv zeta.
  pose proof (Z.div_mod u (2 * r) ltac:(lia)) as Hdm. pose proof (Z.mod_pos_bound u (2 * r) ltac:(lia)) as Hb.
  set (q := u / (2 * r)) in *. set (m := u mod (2 * r)) in *.
  destruct (m <? r) eqn:E.
  - rewrite <- (Hperk q m). f_equal. lia.
  - rewrite <- (Hrefl (2 * r-1-m)). replace (-1 - (2 * r-1-m)) with (m + (-1)*(2 * r)) by lia. rewrite Hperk.
    rewrite <- (Hperk q m). f_equal. lia.
Qed.
(* hence: the symmetric extension of the output IS the line filtering of the symmetric extension *)
Theorem ext_of_cf L r h x u : 0 < r -> L mod 2 = 1 -> Symmetric L h ->
  ext_sym r (cfline L r h x) u = cfline L r h x u.
Proof.
  intros Hr HLo Hs. unfold ext_sym at 1.
  apply (sym_determined r (cfline L r h x) u Hr); intros v; [apply cfline_refl | apply cfline_period]; assumption.
Qed.

(* (2) cascade of two such filters = one filter with the convolved taps *)
Theorem cf_cascade Lg Lh r g h x i : 0 < r -> Lh mod 2 = 1 -> Symmetric Lh h ->
  cfline Lg r g (cfline Lh r h x) i
  = sumZ 0 Lg (fun b => sumZ 0 Lh (fun a => g b *r h a *r ext_sym r x (i + b + a - Lg/2 - Lh/2))).
Proof.
  intros Hr HLo Hs. unfold cfline at 1. apply sumZ_ext. intros b Hb.
  rewrite ext_of_cf by assumption. unfold cfline. rewrite <- sumZ_scale by exact Rth. apply sumZ_ext. intros a Ha.
  replace (i + b - Lg/2 + a - Lh/2) with (i + b + a - Lg/2 - Lh/2) by lia. ring.
Qed.

(* level-1 perfect reconstruction on a column: both analysis filters symmetric and odd, the four centres aligned
   (Lg0/2 + Lh0/2 = Lg1/2 + Lh1/2 = M) and the biorthogonal condition  sum_{a+b=d} g0 b h0 a + g1 b h1 a = [d = M] *)
Definition BiortPR (Lh0 Lg0 Lh1 Lg1 M:Z) (h0 g0 h1 g1:Z->R) : Prop :=
  forall d, 0 <= d <= 2*M ->
    sumZ 0 Lg0 (fun b => if inr Lh0 (d - b) then g0 b *r h0 (d - b) else r0 Op)
    +r sumZ 0 Lg1 (fun b => if inr Lh1 (d - b) then g1 b *r h1 (d - b) else r0 Op) = delta Op (d - M).

(* regroup a double sum over (b,a) by d = a + b *)
Lemma regroup Lg Lh (g h:Z->R) (X:Z->R) :
  0 <= Lg -> 0 <= Lh ->
  sumZ 0 Lg (fun b => sumZ 0 Lh (fun a => g b *r h a *r X (b + a)))
  = sumZ 0 (Lg + Lh - 1) (fun d => sumZ 0 Lg (fun b => if inr Lh (d - b) then g b *r h (d - b) else r0 Op) *r X d).
Proof.
  intros HLg HLh.
  transitivity (sumZ 0 Lg (fun b => sumZ 0 (Lg + Lh - 1) (fun d => (if inr Lh (d - b) then g b *r h (d - b) else r0 Op) *r X d))).
  - apply sumZ_ext. intros b Hb. symmetry.
    rewrite (sumZ_widen Op Rth b (Lh+b) 0 (Lg+Lh-1)) by (try lia; intros d Hd Hn; rewrite inr_false by lia; ring).
    transitivity (sumZ (0+b) (Lh+b) (fun d => (if inr Lh (d - b) then g b *r h (d - b) else r0 Op) *r X d)).
    { reflexivity. }
    rewrite <- (sumZ_shift Op 0 Lh b).
    apply sumZ_ext. intros a Ha. replace (a + b - b) with a by lia. rewrite inr_true by lia. f_equal. f_equal. lia.
  - rewrite sumZ_swap by exact Rth. apply sumZ_ext. intros d Hd. rewrite sumZ_scale_r by exact Rth. reflexivity.
Qed.

Theorem level1_pr_line Lh0 Lg0 Lh1 Lg1 M r h0 g0 h1 g1 x i :
  0 < r -> Lh0 mod 2 = 1 -> Lh1 mod 2 = 1 -> Symmetric Lh0 h0 -> Symmetric Lh1 h1 ->
  1 <= Lg0 -> 1 <= Lg1 -> 1 <= Lh0 -> 1 <= Lh1 ->
  Lg0/2 + Lh0/2 = M -> Lg1/2 + Lh1/2 = M -> Lg0 + Lh0 - 1 = 2*M + 1 -> Lg1 + Lh1 - 1 = 2*M + 1 ->
  BiortPR Lh0 Lg0 Lh1 Lg1 M h0 g0 h1 g1 ->
  0 <= i < r ->
  cfline Lg0 r g0 (cfline Lh0 r h0 x) i +r cfline Lg1 r g1 (cfline Lh1 r h1 x) i = x i.
Proof.
  intros Hr Ho0 Ho1 Hs0 Hs1 HLg0 HLg1 HLh0 HLh1 HM0 HM1 HN0 HN1 HPR Hi.
  rewrite !cf_cascade by assumption.
  rewrite (sumZ_ext Op 0 Lg0 _ (fun b => sumZ 0 Lh0 (fun a => g0 b *r h0 a *r (fun d => ext_sym r x (i + d - M)) (b + a))))
    by (intros b Hb; apply sumZ_ext; intros a Ha; cbv beta; f_equal; f_equal; lia).
  rewrite (sumZ_ext Op 0 Lg1 _ (fun b => sumZ 0 Lh1 (fun a => g1 b *r h1 a *r (fun d => ext_sym r x (i + d - M)) (b + a))))
    by (intros b Hb; apply sumZ_ext; intros a Ha; cbv beta; f_equal; f_equal; lia).
  rewrite (regroup Lg0 Lh0 g0 h0 (fun d => ext_sym r x (i + d - M))) by lia.
  rewrite (regroup Lg1 Lh1 g1 h1 (fun d => ext_sym r x (i + d - M))) by lia. rewrite HN0, HN1. rewrite <- sumZ_add by exact Rth.
  rewrite (sumZ_single Op Rth 0 (2*M+1) M).
  - specialize (HPR M ltac:(lia)). rewrite <- (Rth.(Rdistr_l)). rewrite HPR. unfold delta. replace (M - M =? 0) with true by lia.
    cbv beta. replace (i + M - M) with i by lia. unfold ext_sym. rewrite sym_idx_in by lia. ring.
  - lia.
  - intros d Hd Hne. rewrite <- (Rth.(Rdistr_l)). rewrite (HPR d) by lia. unfold delta. replace (d - M =? 0) with false by lia. ring.
Qed.

(* (3) colfilter with a symmetric odd filter is self-adjoint (up to the factor 2 that a general ring cannot cancel) *)
Lemma sum_period_shift1 P (F:Z->R) : 0 <= P -> (forall v, F (v + P) = F v) -> sumZ 0 P (fun u => F (u + 1)) = sumZ 0 P F.
Proof.
  intros HP Hper. destruct (Z.eq_dec P 0) as [->|Hne]. reflexivity.
  rewrite sumZ_shift. rewrite (sumZ_split Op Rth (0+1) P (P+1)) by lia. rewrite (sumZ_split Op Rth 0 1 P) by lia.
  rewrite !sumZ_one. replace (F P) with (F 0) by (rewrite <- (Hper 0); f_equal; lia).
  replace (0 + 1) with 1 by lia. ring.
Qed.
Lemma sum_period_shift P (F:Z->R) c : 0 <= P -> (forall v, F (v + P) = F v) -> sumZ 0 P (fun u => F (u + c)) = sumZ 0 P F.
Proof.
  intros HP Hper. pattern c. apply Z.bi_induction.
  - intros a b ->. tauto.
  - apply sumZ_ext. intros; f_equal; lia.
  - intros k. split; intros IH.
    + rewrite <- IH. rewrite <- (sum_period_shift1 P (fun u => F (u + k))) by (auto; intros; rewrite <- (Hper (v + k)); f_equal; lia).
      apply sumZ_ext. intros; f_equal; lia.
    + rewrite <- IH. rewrite <- (sum_period_shift1 P (fun u => F (u + k))) by (auto; intros; rewrite <- (Hper (v + k)); f_equal; lia).
      apply sumZ_ext. intros; f_equal; lia.
Qed.
(* sum over a full period of a product of two symmetric sequences = twice the sum over [0,r) *)
Lemma sum_sym_double r (F:Z->R) : 0 < r -> (forall v, F (-1 - v) = F v) -> (forall v, F (v + 2 * r) = F v) ->
  sumZ 0 (2 * r) F = sumZ 0 r F +r sumZ 0 r F.
Proof.
  intros Hr Hrefl Hper. rewrite (sumZ_split Op Rth 0 r (2 * r)) by lia. f_equal.
  rewrite (sumZ_rev Op Rth r (2 * r)). replace r with (0 + r) at 1 by lia. replace (2 * r) with (r + r) at 1 by lia.
  rewrite <- (sumZ_shift Op 0 r r). apply sumZ_ext. intros u Hu.
  replace (r + 2 * r - 1 - (u + r)) with ((-1 - u) + 2 * r) by lia. rewrite Hper. apply Hrefl.
Qed.

Theorem cf_selfadjoint2 L r h x g : 0 < r -> L mod 2 = 1 -> 1 <= L -> Symmetric L h ->
  let two := r1 Op +r r1 Op in
  two *r dot r (cfline L r h x) g = two *r dot r x (cfline L r h g).
Proof.
  intros Hr HLo HL Hs two. unfold dot.
  set (Fx := cfline L r h x). set (Fg := cfline L r h g).
  set (xs := ext_sym r x). set (gs := ext_sym r g).
  assert (Hxs: forall v, xs (-1 - v) = xs v /\ xs (v + 2 * r) = xs v).
  { intros v. unfold xs, ext_sym. rewrite sym_idx_refl, sym_idx_period by lia. tauto. }
  assert (Hgs: forall v, gs (-1 - v) = gs v /\ gs (v + 2 * r) = gs v).
  { intros v. unfold gs, ext_sym. rewrite sym_idx_refl, sym_idx_period by lia. tauto. }
  assert (HFx: forall v, Fx (-1 - v) = Fx v /\ Fx (v + 2 * r) = Fx v) by (intros; split; [apply cfline_refl | apply cfline_period]; assumption).
  assert (HFg: forall v, Fg (-1 - v) = Fg v /\ Fg (v + 2 * r) = Fg v) by (intros; split; [apply cfline_refl | apply cfline_period]; assumption).
  (* both sides as sums over the full period *)
  assert (E1: two *r sumZ 0 r (fun i => Fx i *r g i) = sumZ 0 (2 * r) (fun u => Fx u *r gs u)).
  { rewrite (sum_sym_double r (fun u => Fx u *r gs u)) by (auto; intros v; rewrite ?(proj1 (HFx v)), ?(proj1 (Hgs v)), ?(proj2 (HFx v)), ?(proj2 (Hgs v)); reflexivity).
    rewrite (sumZ_ext Op 0 r (fun u => Fx u *r gs u) (fun i => Fx i *r g i)) by (intros i Hi; unfold gs, ext_sym; rewrite sym_idx_in by lia; reflexivity).
    unfold two. ring. }
  assert (E2: two *r sumZ 0 r (fun i => x i *r Fg i) = sumZ 0 (2 * r) (fun u => xs u *r Fg u)).
  { rewrite (sum_sym_double r (fun u => xs u *r Fg u)) by (auto; intros v; rewrite ?(proj1 (HFg v)), ?(proj1 (Hxs v)), ?(proj2 (HFg v)), ?(proj2 (Hxs v)); reflexivity).
    rewrite (sumZ_ext Op 0 r (fun u => xs u *r Fg u) (fun i => x i *r Fg i)) by (intros i Hi; unfold xs, ext_sym; rewrite sym_idx_in by lia; reflexivity).
    unfold two. ring. }
  rewrite E1, E2. unfold Fx, Fg, cfline. fold xs gs.
  (* sum_u sum_a h a xs(u+a-m) gs(u) : shift u by (m - a) *)
  transitivity (sumZ 0 L (fun a => h a *r sumZ 0 (2 * r) (fun u => xs (u + a - L/2) *r gs u))).
  { transitivity (sumZ 0 (2 * r) (fun u => sumZ 0 L (fun a => h a *r (xs (u + a - L/2) *r gs u)))).
    - apply sumZ_ext. intros u Hu. rewrite <- (sumZ_scale_r Op Rth). apply sumZ_ext. intros; ring.
    - rewrite sumZ_swap by exact Rth. apply sumZ_ext. intros a Ha. rewrite sumZ_scale by exact Rth. reflexivity. }
  transitivity (sumZ 0 L (fun a => h a *r sumZ 0 (2 * r) (fun v => xs v *r gs (v + (L-1-a) - L/2)))).
  { apply sumZ_ext. intros a Ha. f_equal.
    rewrite <- (sum_period_shift (2 * r) (fun v => xs v *r gs (v + (L-1-a) - L/2)) (a - L/2)) by
      (try lia; intros v; rewrite (proj2 (Hxs v)); f_equal; replace (v + 2 * r + (L-1-a) - L/2) with ((v + (L-1-a) - L/2) + 2 * r) by lia; apply (proj2 (Hgs _))).
    apply sumZ_ext. intros u Hu. cbv beta. f_equal. f_equal; lia. f_equal. lia. }
  rewrite (sumZ_rev Op Rth 0 L).
  transitivity (sumZ 0 L (fun a => sumZ 0 (2 * r) (fun v => h a *r (xs v *r gs (v + a - L/2))))).
  { apply sumZ_ext. intros a Ha. cbv beta. rewrite <- Hs by lia. rewrite sumZ_scale by exact Rth.
    f_equal. apply sumZ_ext. intros v Hv. f_equal. f_equal. lia. }
  rewrite sumZ_swap by exact Rth. apply sumZ_ext. intros v Hv. rewrite <- sumZ_scale by exact Rth. apply sumZ_ext. intros; ring.
Qed.
End S.
