(* Line-level theory shared by C02, C05, C10, C17: single fold = circular synthesis, adjointness (Fubini),
   master reconstruction identity. All over an arbitrary commutative ring, all sizes. *)
From PW Require Import Base.Ops Base.Sum Base.Sig Spec.Line.
Ltac Zify.zify_post_hook ::= Z.to_euclidean_division_equations.

Section S.
Context {R:Type} (Op:Ops R) (Rth: RingOk Op).
Add Ring Rr : Rth.
Infix "+r" := (radd Op) (at level 50, left associativity).
Infix "*r" := (rmul Op) (at level 40, left associativity).
Notation sumZ := (sumZ Op).
Notation zx := (zx Op).
Notation dot := (dot Op).

(* sum of a delta *)
Lemma sumZ_delta a b c (T:Z->R) :
  sumZ a b (fun i => if i =? c then T i else r0 Op) = if (a <=? c) && (c <? b) then T c else r0 Op.
Proof.
  destruct ((a <=? c) && (c <? b)) eqn:E.
  - rewrite (sumZ_single Op Rth a b c) by (try lia; intros i Hi Hne; replace (i =? c) with false by lia; reflexivity).
    rewrite Z.eqb_refl. reflexivity.
  - apply sumZ_zero; [exact Rth|]. intros i Hi. replace (i =? c) with false by lia. reflexivity.
Qed.

(* ---------------- adjointness, zero padding (analysis <-> transposed convolution with padding L-2) ------------- *)
Definition convT_line (L n:Z) (h g:Z->R) (i:Z) : R := sumZ 0 n (fun k => g k *r zx L h (i + (L-2) - 2*k)).

Lemma reindex_zero L N h x k : 0 <= L -> 0 <= N ->
  sumZ 0 L (fun j => h j *r zx N x (2*k + j - (L-2))) = sumZ 0 N (fun i => zx L h (i + (L-2) - 2*k) *r x i).
Proof.
  intros HL HN. set (c := 2*k - (L-2)).
  set (lo := Z.min 0 (-c)). set (hi := Z.max L (N - c)).
  transitivity (sumZ lo hi (fun j => zx L h j *r zx N x (j + c))).
  - symmetry. rewrite (sumZ_widen Op Rth 0 L lo hi) by (try lia; intros; rewrite zx_out by lia; ring).
    apply sumZ_ext. intros j Hj. rewrite zx_in by lia. f_equal. f_equal. lia.
  - transitivity (sumZ (lo + c) (hi + c) (fun i => zx L h (i - c) *r zx N x i)).
    + rewrite <- sumZ_shift. apply sumZ_ext. intros j Hj. f_equal. f_equal. lia.
    + rewrite (sumZ_widen Op Rth 0 N (lo+c) (hi+c)) by (try lia; intros; rewrite (zx_out Op N) by lia; ring).
      apply sumZ_ext. intros i Hi. rewrite (zx_in Op N) by lia. f_equal. f_equal. lia.
Qed.

Theorem adjoint_zero L N n h x g : 0 <= L -> 0 <= N -> 0 <= n ->
  dot n (ana Op L h (zx N x)) g = dot N x (convT_line L n h g).
Proof.
  intros HL HN Hn. unfold dot, ana, convT_line.
  transitivity (sumZ 0 n (fun k => sumZ 0 N (fun i => g k *r zx L h (i + (L-2) - 2*k) *r x i))).
  - apply sumZ_ext. intros k Hk. rewrite reindex_zero by lia.
    transitivity (g k *r sumZ 0 N (fun i => zx L h (i + (L-2) - 2*k) *r x i)). ring.
    rewrite <- sumZ_scale by exact Rth. apply sumZ_ext. intros; ring.
  - rewrite sumZ_swap by exact Rth. apply sumZ_ext. intros i Hi.
    transitivity (x i *r sumZ 0 n (fun k => g k *r zx L h (i + (L - 2) - 2 * k))).
    rewrite <- sumZ_scale by exact Rth. apply sumZ_ext. intros; ring. ring.
Qed.

(* ---------------- master reconstruction identity on the infinite line ---------------- *)
(* analysis with decomposition filters d_t (not reversed): y_t[k] = sum_m d_t[m] X[2k+1-m];
   synthesis over the window [ka,kb): sum_k g_t[i+L-2-2k] y_t[k]  (this is Spec.Line.syn with padding L-2) *)
Section PR.
Variables (L : Z) (d0 d1 g0 g1 : Z -> R).
Hypothesis HL : 0 <= L.
Definition anaL (dt:Z->R) (X:Z->R) (k:Z) : R := sumZ 0 L (fun m => dt m *r X (2*k + 1 - m)).
Definition synL (ka kb:Z) (c0 c1:Z->R) (i:Z) : R :=
  sumZ ka kb (fun k => zx L g0 (i + (L-2) - 2*k) *r c0 k +r zx L g1 (i + (L-2) - 2*k) *r c1 k).
Definition Pk (ka kb i d:Z) : R :=
  sumZ ka kb (fun k => zx L g0 (i + (L-2) - 2*k) *r zx L d0 (d + (L-1) - (i + (L-2) - 2*k))
                    +r zx L g1 (i + (L-2) - 2*k) *r zx L d1 (d + (L-1) - (i + (L-2) - 2*k))).

Lemma inner_reindex (gt dt:Z->R) X i k :
  zx L gt (i + (L-2) - 2*k) *r sumZ 0 L (fun m => dt m *r X (2*k + 1 - m))
  = sumZ (1-L) L (fun d => zx L gt (i + (L-2) - 2*k) *r zx L dt (d + (L-1) - (i + (L-2) - 2*k)) *r X (i - d)).
Proof.
  set (a := i + (L-2) - 2*k).
  destruct (inr L a) eqn:Ea.
  - unfold inr in Ea. rewrite <- sumZ_scale by exact Rth.
    transitivity (sumZ (a-(L-1)) (a+1) (fun d => zx L gt a *r (zx L dt (d + (L-1) - a) *r X (i - d)))).
    + replace (sumZ 0 L (fun m => zx L gt a *r (dt m *r X (2*k + 1 - m))))
        with (sumZ (a-(L-1) + ((L-1)-a)) (a+1 + ((L-1)-a)) (fun m => zx L gt a *r (dt m *r X (2*k + 1 - m)))).
      2:{ f_equal; lia. }
      rewrite <- sumZ_shift. apply sumZ_ext. intros d Hd.
      rewrite (zx_in Op L dt) by lia.
      replace (d + (L - 1 - a)) with (d + (L-1) - a) by lia.
      replace (2*k + 1 - (d + (L-1) - a)) with (i - d) by (unfold a; lia).
      reflexivity.
    + rewrite (sumZ_widen Op Rth (a-(L-1)) (a+1) (1-L) L) by (try lia; intros; rewrite (zx_out Op L dt) by lia; ring).
      apply sumZ_ext. intros; ring.
  - unfold inr in Ea. rewrite (zx_out Op L gt a) by lia.
    rewrite (sumZ_zero Op Rth (1-L) L) by (intros; ring). ring.
Qed.

Theorem line_pr ka kb X i :
  synL ka kb (anaL d0 X) (anaL d1 X) i = sumZ (1-L) L (fun d => X (i - d) *r Pk ka kb i d).
Proof.
  unfold synL, anaL, Pk.
  transitivity (sumZ ka kb (fun k => sumZ (1-L) L (fun d =>
     (zx L g0 (i + (L-2) - 2*k) *r zx L d0 (d + (L-1) - (i + (L-2) - 2*k)) +r zx L g1 (i + (L-2) - 2*k) *r zx L d1 (d + (L-1) - (i + (L-2) - 2*k))) *r X (i-d)))).
  - apply sumZ_ext. intros k Hk. rewrite !inner_reindex. rewrite <- sumZ_add by exact Rth. apply sumZ_ext. intros; ring.
  - rewrite sumZ_swap by exact Rth. apply sumZ_ext. intros d Hd.
    transitivity (X (i-d) *r sumZ ka kb (fun k => zx L g0 (i + (L-2) - 2*k) *r zx L d0 (d + (L-1) - (i + (L-2) - 2*k)) +r zx L g1 (i + (L-2) - 2*k) *r zx L d1 (d + (L-1) - (i + (L-2) - 2*k)))).
    rewrite <- sumZ_scale by exact Rth. apply sumZ_ext. intros; ring. reflexivity.
Qed.

Corollary line_pr_exact ka kb X i :
  (forall d, 1-L <= d < L -> Pk ka kb i d = delta Op d) -> 0 < L ->
  synL ka kb (anaL d0 X) (anaL d1 X) i = X i.
Proof.
  intros HP HLpos. rewrite line_pr.
  rewrite (sumZ_single Op Rth (1-L) L 0).
  - rewrite HP by lia. unfold delta. rewrite Z.eqb_refl. replace (i - 0) with i by lia. ring.
  - lia.
  - intros d Hd Hne. rewrite HP by lia. unfold delta. replace (d =? 0) with false by lia. ring.
Qed.

(* the kernel only depends on the window through the taps it reaches: windows that contain every k with a
   live tap give the same kernel (used to pass from the finite coefficient range to the whole line) *)
Lemma Pk_window ka kb ka' kb' i d : ka' <= ka -> ka <= kb -> kb <= kb' ->
  (forall k, ka' <= k < kb' -> ~(ka <= k < kb) -> ~(0 <= i + (L-2) - 2*k < L)) ->
  Pk ka' kb' i d = Pk ka kb i d.
Proof.
  intros H1 H2 H3 Hout. unfold Pk. apply (sumZ_widen Op Rth); try lia.
  intros k Hk Hnk. specialize (Hout k Hk Hnk). rewrite !(zx_out Op L g0), !(zx_out Op L g1) by lia. ring.
Qed.
End PR.

(* ---------------- shifting the output index by 2 shifts the coefficient window by 1 ---------------- *)
Section PRshift.
Variables (L : Z) (d0 d1 g0 g1 : Z -> R).
Lemma Pk_shift ka kb i d t : Pk L d0 d1 g0 g1 ka kb (i + 2*t) d = Pk L d0 d1 g0 g1 (ka - t) (kb - t) i d.
Proof.
  unfold Pk.
  set (F := fun k => zx L g0 (i + 2*t + (L-2) - 2*k) *r zx L d0 (d + (L-1) - (i + 2*t + (L-2) - 2*k))
                  +r zx L g1 (i + 2*t + (L-2) - 2*k) *r zx L d1 (d + (L-1) - (i + 2*t + (L-2) - 2*k))).
  transitivity (sumZ (ka - t + t) (kb - t + t) F). { f_equal; lia. }
  rewrite <- (sumZ_shift Op (ka - t) (kb - t) t F).
  apply sumZ_ext. intros k Hk. unfold F. replace (i + 2*t + (L-2) - 2*(k + t)) with (i + (L-2) - 2*k) by lia. reflexivity.
Qed.
(* filter-only perfect-reconstruction condition: the kernel of both output parities is the unit impulse *)
Definition PRcond : Prop := forall p d, 0 <= p < 2 -> 1 - L <= d < L -> Pk L d0 d1 g0 g1 (-1) L p d = delta Op d.
(* it gives the kernel condition at every output index and every window that contains the live taps *)
Lemma PRcond_at ka kb i d : 0 < L -> PRcond -> 1 - L <= d < L ->
  (forall k, ~(ka <= k < kb) -> ~(0 <= i + (L-2) - 2*k < L)) -> ka <= kb ->
  Pk L d0 d1 g0 g1 ka kb i d = delta Op d.
Proof.
  intros HL HPR Hd Hwin Hab.
  set (p := i mod 2). set (t := i / 2).
  assert (Hi: i = p + 2*t) by (unfold p, t; lia).
  assert (Hp: 0 <= p < 2) by (unfold p; lia).
  rewrite <- (HPR p d Hp Hd).
  (* widen both windows to a common one *)
  set (lo := Z.min ka (t - 1)). set (hi := Z.max kb (t + L)).
  rewrite <- (Pk_window L d0 d1 g0 g1 ka kb lo hi i d) by (try (unfold lo, hi; lia); intros k Hk Hn; apply Hwin; exact Hn).
  rewrite Hi. rewrite Pk_shift.
  apply (Pk_window L d0 d1 g0 g1 (-1) L (lo - t) (hi - t) p d); unfold lo, hi; lia.
Qed.
(* the kernel at any output index and any covering window is the canonical kernel of its parity *)
Lemma Pk_canonical ka kb i d : 0 < L ->
  (forall k, ~(ka <= k < kb) -> ~(0 <= i + (L-2) - 2*k < L)) -> ka <= kb ->
  Pk L d0 d1 g0 g1 ka kb i d = Pk L d0 d1 g0 g1 (-1) L (i mod 2) d.
Proof.
  intros HL Hwin Hab.
  set (p := i mod 2). set (t := i / 2).
  assert (Hi: i = p + 2*t) by (unfold p, t; lia).
  assert (Hp: 0 <= p < 2) by (unfold p; lia).
  set (lo := Z.min ka (t - 1)). set (hi := Z.max kb (t + L)).
  rewrite <- (Pk_window L d0 d1 g0 g1 ka kb lo hi i d) by (try (unfold lo, hi; lia); intros k Hk Hn; apply Hwin; exact Hn).
  rewrite Hi at 1. rewrite Pk_shift.
  apply (Pk_window L d0 d1 g0 g1 (-1) L (lo - t) (hi - t) p d); unfold lo, hi; lia.
Qed.
End PRshift.

(* ---------------- periodization: the code's single fold is the circular synthesis when L-2 <= N ---------------- *)
Definition T2 (L:Z) (g0 g1 lo hi:Z->R) (k c:Z) : R := lo k *r zx L g0 c +r hi k *r zx L g1 c.

Lemma mod0_cases N d : 0 < N -> -2*N < d < N -> ((d mod N =? 0) = ((d =? 0) || (d =? -N))).
Proof.
  intros HN Hd.
  destruct (Z.eq_dec d 0) as [->|H0]. { rewrite Z.mod_0_l by lia. reflexivity. }
  destruct (Z.eq_dec d (-N)) as [->|H1].
  { assert (E: (-N) mod N = 0) by (replace (-N) with ((-1)*N) by lia; apply Z.mod_mul; lia).
    rewrite E. rewrite (Z.eqb_refl (-N)). rewrite orb_true_r. reflexivity. }
  replace ((d =? 0) || (d =? -N)) with false by lia.
  destruct (Z_lt_le_dec 0 d).
  - rewrite Z.mod_small by lia. lia.
  - destruct (Z_lt_le_dec (-N) d).
    + rewrite <- (Z.mod_unique d N (-1) (d+N)) by lia. lia.
    + rewrite <- (Z.mod_unique d N (-2) (d+2*N)) by lia. lia.
Qed.

Definition syn_full (L n:Z) (g0 g1 lo hi:Z->R) (m:Z) : R :=
  sumZ 0 n (fun k => lo k *r zx L g0 (m - 2*k) +r hi k *r zx L g1 (m - 2*k)).
Definition syn_per_code (L n:Z) (g0 g1 lo hi:Z->R) (i:Z) : R :=
  let m := (i + (L/2 - 1)) mod (2*n) in
  if m <? L - 2 then syn_full L n g0 g1 lo hi m +r syn_full L n g0 g1 lo hi (2*n + m) else syn_full L n g0 g1 lo hi m.

Theorem syn_per_fold L n g0 g1 lo hi i : 2 <= L -> 1 <= n -> L - 2 <= 2*n ->
  syn_per_code L n g0 g1 lo hi i = syn_per Op L n g0 g1 lo hi i.
Proof.
  intros HL Hn HLN. unfold syn_per_code, syn_per. cbv zeta.
  set (N := 2*n). set (m := (i + (L/2 - 1)) mod N).
  assert (Hm: 0 <= m < N) by (apply Z.mod_pos_bound; lia).
  (* per k *)
  assert (Hk: forall k, 0 <= k < n ->
     sumZ 0 L (fun a => if (i + L/2 - 1 - 2*k - a) mod N =? 0 then lo k *r g0 a +r hi k *r g1 a else r0 Op)
     = T2 L g0 g1 lo hi k (m - 2*k) +r T2 L g0 g1 lo hi k (N + m - 2*k)).
  { intros k Hk.
    transitivity (sumZ 0 L (fun a => (if a =? m - 2*k then lo k *r g0 a +r hi k *r g1 a else r0 Op)
                                  +r (if a =? N + m - 2*k then lo k *r g0 a +r hi k *r g1 a else r0 Op))).
    - apply sumZ_ext. intros a Ha.
      replace ((i + L/2 - 1 - 2*k - a) mod N) with ((m - 2*k - a) mod N).
      2:{ pose proof (Z.div_mod (i + (L/2 - 1)) N ltac:(unfold N; lia)) as Hdm. fold m in Hdm.
          set (q := (i + (L/2 - 1)) / N) in *.
          replace (m - 2*k - a) with ((i + L/2 - 1 - 2*k - a) + (-q) * N) by (clear - Hdm; lia).
          rewrite Z.mod_add by (unfold N; lia). reflexivity. }
      rewrite mod0_cases by (unfold N in *; lia).
      destruct (a =? m - 2*k) eqn:E1; destruct (a =? N + m - 2*k) eqn:E2; try lia.
      + replace (m - 2*k - a =? 0) with true by lia. cbn [orb]. ring.
      + replace (m - 2*k - a =? 0) with false by lia. replace (m - 2*k - a =? -N) with true by lia. cbn [orb]. ring.
      + replace (m - 2*k - a =? 0) with false by lia. replace (m - 2*k - a =? -N) with false by lia. cbn [orb]. ring.
    - rewrite sumZ_add by exact Rth. rewrite !sumZ_delta. unfold T2, zx, inr.
      destruct ((0 <=? m - 2*k) && (m - 2*k <? L)); destruct ((0 <=? N + m - 2*k) && (N + m - 2*k <? L)); ring. }
  rewrite (sumZ_ext Op 0 n _ _ Hk). rewrite sumZ_add by exact Rth. unfold T2. fold N.
  destruct (m <? L - 2) eqn:E.
  - unfold syn_full. reflexivity.
  - unfold syn_full. rewrite (sumZ_zero Op Rth 0 n (fun k => lo k *r zx L g0 (N + m - 2*k) +r hi k *r zx L g1 (N + m - 2*k))).
    ring. intros k Hk'. rewrite !zx_out by (unfold N in *; lia). ring.
Qed.
(* ---------------- periodization: analysis and circular synthesis with the same filter are transposes ---------------- *)
(* f(phi) = sum_i [phi = i] f(i)  for phi in [0,N) *)
Lemma pick N (f:Z->R) phi : 0 <= phi < N -> f phi = sumZ 0 N (fun i => if i =? phi then f i else r0 Op).
Proof. intros H. rewrite sumZ_delta. replace ((0 <=? phi) && (phi <? N)) with true by lia. reflexivity. Qed.

Definition synT_per (L N n:Z) (h g:Z->R) (i:Z) : R :=
  sumZ 0 n (fun k => sumZ 0 L (fun a => if (i + L/2 - 1 - 2*k - a) mod N =? 0 then g k *r h a else r0 Op)).

Lemma mod_eq_iff N i t : 0 < N -> 0 <= i < N -> ((i =? t mod N) = ((i - t) mod N =? 0)).
Proof.
  intros HN Hi. pose proof (Z.div_mod t N ltac:(lia)) as Hdm. pose proof (Z.mod_pos_bound t N HN) as Hb.
  set (q := t / N) in *. set (r := t mod N) in *.
  replace (i - t) with ((i - r) + (-q) * N) by lia. rewrite Z.mod_add by lia.
  rewrite mod0_cases by lia. lia.
Qed.

Theorem adjoint_per L N h x g : 2 <= L -> L mod 2 = 0 -> 0 < N -> N mod 2 = 0 ->
  dot (N/2) (ana_per Op L N h x) g = dot N x (synT_per L N (N/2) h g).
Proof.
  intros HL HLe HN HNe. unfold dot, ana_per, synT_per.
  transitivity (sumZ 0 (N/2) (fun k => sumZ 0 L (fun b => sumZ 0 N (fun i =>
      if i =? (2*k + b - (L-1) + L/2) mod N then x i *r (g k *r h b) else r0 Op)))).
  - apply sumZ_ext. intros k Hk. rewrite <- sumZ_scale_r by exact Rth. apply sumZ_ext. intros b Hb.
    rewrite <- (pick N (fun i => x i *r (g k *r h b))) by (apply Z.mod_pos_bound; lia). ring.
  - transitivity (sumZ 0 N (fun i => sumZ 0 (N/2) (fun k => sumZ 0 L (fun b =>
      if i =? (2*k + b - (L-1) + L/2) mod N then x i *r (g k *r h b) else r0 Op)))).
    + transitivity (sumZ 0 (N/2) (fun k => sumZ 0 N (fun i => sumZ 0 L (fun b =>
        if i =? (2*k + b - (L-1) + L/2) mod N then x i *r (g k *r h b) else r0 Op)))).
      * apply sumZ_ext. intros k Hk. apply (sumZ_swap Op Rth).
      * apply (sumZ_swap Op Rth).
    + apply sumZ_ext. intros i Hi. rewrite <- sumZ_scale by exact Rth. apply sumZ_ext. intros k Hk.
      rewrite <- sumZ_scale by exact Rth. apply sumZ_ext. intros b Hb.
      rewrite mod_eq_iff by lia.
      replace (i - (2*k + b - (L-1) + L/2)) with (i + L/2 - 1 - 2*k - b) by lia.
      destruct (_ =? 0); ring.
Qed.
(* synT_per is Spec.Line.syn_per with one band *)
Lemma synT_per_syn_per L n h0 h1 g0 g1 i :
  syn_per Op L n h0 h1 g0 g1 i = synT_per L (2*n) n h0 g0 i +r synT_per L (2*n) n h1 g1 i.
Proof.
  unfold syn_per, synT_per. rewrite <- sumZ_add by exact Rth. apply sumZ_ext. intros k Hk.
  rewrite <- sumZ_add by exact Rth. apply sumZ_ext. intros a Ha. destruct (_ =? 0); ring.
Qed.

(* orthogonality from (inverse = transpose) + perfect reconstruction *)
Theorem inner_preserved L N h0 h1 x y : 2 <= L -> L mod 2 = 0 -> 0 < N -> N mod 2 = 0 ->
  (forall i, 0 <= i < N -> syn_per Op L (N/2) h0 h1 (ana_per Op L N h0 y) (ana_per Op L N h1 y) i = y i) ->
  dot (N/2) (ana_per Op L N h0 x) (ana_per Op L N h0 y) +r dot (N/2) (ana_per Op L N h1 x) (ana_per Op L N h1 y) = dot N x y.
Proof.
  intros HL HLe HN HNe HPR. rewrite !adjoint_per by lia. unfold dot. rewrite <- sumZ_add by exact Rth.
  apply sumZ_ext. intros i Hi. rewrite <- (HPR i Hi). rewrite synT_per_syn_per.
  replace (2 * (N/2)) with N by lia. ring.
Qed.

(* ---------------- linearity of the closed forms ---------------- *)
Lemma ana_linear L h e1 e2 a b k :
  ana Op L h (fun q => a *r e1 q +r b *r e2 q) k = a *r ana Op L h e1 k +r b *r ana Op L h e2 k.
Proof. unfold ana. rewrite <- !sumZ_scale by exact Rth. rewrite <- sumZ_add by exact Rth. apply sumZ_ext. intros; ring. Qed.
Lemma ana_per_linear L N h e1 e2 a b k :
  ana_per Op L N h (fun q => a *r e1 q +r b *r e2 q) k = a *r ana_per Op L N h e1 k +r b *r ana_per Op L N h e2 k.
Proof. unfold ana_per. rewrite <- !sumZ_scale by exact Rth. rewrite <- sumZ_add by exact Rth. apply sumZ_ext. intros; ring. Qed.
Lemma syn_linear L n g0 g1 lo1 hi1 lo2 hi2 a b m :
  syn Op L n g0 g1 (fun k => a *r lo1 k +r b *r lo2 k) (fun k => a *r hi1 k +r b *r hi2 k) m
  = a *r syn Op L n g0 g1 lo1 hi1 m +r b *r syn Op L n g0 g1 lo2 hi2 m.
Proof. unfold syn. rewrite <- !sumZ_scale by exact Rth. rewrite <- sumZ_add by exact Rth. apply sumZ_ext. intros; ring. Qed.
Lemma syn_per_linear L n g0 g1 lo1 hi1 lo2 hi2 a b m :
  syn_per Op L n g0 g1 (fun k => a *r lo1 k +r b *r lo2 k) (fun k => a *r hi1 k +r b *r hi2 k) m
  = a *r syn_per Op L n g0 g1 lo1 hi1 m +r b *r syn_per Op L n g0 g1 lo2 hi2 m.
Proof. unfold syn_per. rewrite <- !sumZ_scale by exact Rth. rewrite <- sumZ_add by exact Rth. apply sumZ_ext. intros k Hk.
  rewrite <- !sumZ_scale by exact Rth. rewrite <- sumZ_add by exact Rth. apply sumZ_ext. intros c Hc. destruct (_ =? 0); ring. Qed.
End S.
