(* C06 on the tensor-level model, 2-D: one whole q-shift level.  The backward pass of FWD_J2PLUS - inv_j2plus with the a and b
   filters exchanged - is the adjoint of fwd_j2plus: for every input x and every cotangent (gll, 12 planes),
   <ll, gll> + sum over the planes <plane, gplane> = <x, backward>.  Over a ring in which 2 can be cancelled. *)
From PW Require Import Base.Ops Base.Sum Base.Sig Base.Tensor Model.Dwt Model.Dtcwt Spec.Line Spec.DtcwtRef
  Proofs.DwtNF Proofs.SfbNF Proofs.DtcwtNF Proofs.DtcwtNFrow Proofs.QuadProofs Proofs.CircPR Proofs.QshiftAdj Proofs.QshiftPR Proofs.QshiftTensor Proofs.QshiftLevel.
Ltac Zify.zify_post_hook ::= Z.to_euclidean_division_equations.

Section S.
Context {R:Type} (Op:Ops R) (Rth: RingOk Op).
Add Ring Rr : Rth.
Notation ten := (@ten R).
Infix "+r" := (radd Op) (at level 50, left associativity).
Infix "*r" := (rmul Op) (at level 40, left associativity).
Notation sumZ := (sumZ Op).
Notation two := (r1 Op +r r1 Op).

(* inner product of slice (n,c) over an h x w window *)
Definition dot2 (h w:Z) (A B:ten) (n c:Z) : R := sumZ 0 h (fun i => sumZ 0 w (fun j => tf A n c i j *r tf B n c i j)).

Lemma dot2_ext h w (A A' B B':ten) n c :
  (forall i j, 0 <= i < h -> 0 <= j < w -> tf A n c i j = tf A' n c i j /\ tf B n c i j = tf B' n c i j) ->
  dot2 h w A B n c = dot2 h w A' B' n c.
Proof. intros H. unfold dot2. apply sumZ_ext. intros i Hi. apply sumZ_ext. intros j Hj. destruct (H i j Hi Hj) as (-> & ->). reflexivity. Qed.
Lemma dot2_add_r h w (X Y A B:ten) n c :
  (forall i j, 0 <= i < h -> 0 <= j < w -> tf Y n c i j = tf A n c i j +r tf B n c i j) ->
  dot2 h w X Y n c = dot2 h w X A n c +r dot2 h w X B n c.
Proof.
  intros H. unfold dot2. rewrite <- sumZ_add by exact Rth. apply sumZ_ext. intros i Hi. rewrite <- sumZ_add by exact Rth.
  apply sumZ_ext. intros j Hj. rewrite H by lia. ring.
Qed.
Lemma dot2_swap h w (F:Z->Z->R) : sumZ 0 h (fun i => sumZ 0 w (fun j => F i j)) = sumZ 0 w (fun j => sumZ 0 h (fun i => F i j)).
Proof. apply (sumZ_swap Op Rth). Qed.

(* a sum over an even x even window, quad by quad *)
Lemma sum_quads h w (F:Z->Z->R) : 0 <= h -> 0 <= w ->
  sumZ 0 (2*h) (fun i => sumZ 0 (2*w) (fun j => F i j))
  = sumZ 0 h (fun i => sumZ 0 w (fun j => F (2*i) (2*j) +r F (2*i) (2*j+1) +r F (2*i+1) (2*j) +r F (2*i+1) (2*j+1))).
Proof.
  intros Hh Hw. rewrite (sum_even_odd Op Rth h) by lia. rewrite <- sumZ_add by exact Rth. apply sumZ_ext. intros i Hi.
  rewrite (sum_even_odd Op Rth w (fun j => F (2*i) j)) by lia. rewrite (sum_even_odd Op Rth w (fun j => F (2*i+1) j)) by lia.
  rewrite <- !sumZ_add by exact Rth. apply sumZ_ext. intros j Hj. ring.
Qed.

Variable s : R.
(* q2c and c2q are adjoint as maps between an even-sized tensor and four half-sized planes *)
Lemma quad_adj (y w1r w1i w2r w2i:ten) n c h w : 0 <= h -> 0 <= w ->
  let '((z1r, z1i), (z2r, z2i)) := q2c Op s y in
  dot2 (2*h) (2*w) y (c2q Op s w1r w1i w2r w2i) n c
  = dot2 h w z1r w1r n c +r dot2 h w z1i w1i n c +r dot2 h w z2r w2r n c +r dot2 h w z2i w2i n c.
Proof.
  intros Hh Hw.
  assert (P: forall i j, let '((z1r, z1i), (z2r, z2i)) := q2c Op s y in
     tf z1r n c i j *r tf w1r n c i j +r tf z1i n c i j *r tf w1i n c i j +r tf z2r n c i j *r tf w2r n c i j +r tf z2i n c i j *r tf w2i n c i j
     = tf y n c (2*i) (2*j) *r tf (c2q Op s w1r w1i w2r w2i) n c (2*i) (2*j) +r tf y n c (2*i) (2*j+1) *r tf (c2q Op s w1r w1i w2r w2i) n c (2*i) (2*j+1)
       +r tf y n c (2*i+1) (2*j) *r tf (c2q Op s w1r w1i w2r w2i) n c (2*i+1) (2*j) +r tf y n c (2*i+1) (2*j+1) *r tf (c2q Op s w1r w1i w2r w2i) n c (2*i+1) (2*j+1)).
  { intros i j. exact (q2c_c2q_adjoint Op Rth s y w1r w1i w2r w2i n c i j). }
  destruct (q2c Op s y) as ((z1r, z1i), (z2r, z2i)).
  unfold dot2. rewrite (sum_quads h w (fun i j => tf y n c i j *r tf (c2q Op s w1r w1i w2r w2i) n c i j)) by lia.
  rewrite <- !sumZ_add by exact Rth. apply sumZ_ext. intros i Hi. rewrite <- !sumZ_add by exact Rth. apply sumZ_ext. intros j Hj.
  symmetry. apply P.
Qed.

Hypothesis cancel2 : forall a b:R, two *r a = two *r b -> a = b.

(* ---- stage adjoints in inner-product form ---- *)
Section Stage.
Variables (L:Z) (HA HB:Z->R) (hp:bool).
Hypothesis HL : 2 <= L /\ L mod 2 = 0.
Hypothesis HR : forall j, 0 <= j < L -> HB j = HA (L-1-j).

Lemma col_adj (x G:ten) : 4 <= tH x -> tH x mod 4 = 0 -> 1 <= tW x -> 0 < tC x ->
  tN G = tN x -> tC G = tC x -> tH G = tH x / 2 -> tW G = tW x ->
  is_ok (dfilt Op 2 x L (rev_filt L HA) (rev_filt L HB) hp) (fun y =>
  is_ok (ifilt Op 2 G L (rev_filt L HB) (rev_filt L HA) hp) (fun dx =>
    tN y = tN x /\ tC y = tC x /\ tH y = tH x / 2 /\ tW y = tW x /\
    tN dx = tN x /\ tC dx = tC x /\ tH dx = tH x /\ tW dx = tW x /\
    forall n c, 0 <= c < tC x -> dot2 (tH x / 2) (tW x) y G n c = dot2 (tH x) (tW x) x dx n c)).
Proof.
  intros HH H4 HW HC G1 G2 G3 G4. destruct HL as (HL1 & HL2).
  pose proof (dfilt_ifilt_adjoint_col Op Rth x G L HA HB hp HL1 HL2 HH H4 HW HC G1 G2 G3 G4 HR) as H.
  pose proof (dfilt_ref_col Op Rth x L HA HB hp HL1 HH H4 HW HC) as Ha.
  pose proof (ifilt_ref_col Op Rth G L HB HA hp HL1 HL2 ltac:(lia) ltac:(lia) ltac:(lia) ltac:(lia)) as Hb.
  destruct (dfilt Op 2 x L _ _ hp) as [y|]; [|contradiction]. cbn [is_ok] in *.
  destruct (ifilt Op 2 G L _ _ hp) as [dx|]; [|contradiction]. cbn [is_ok] in *.
  destruct Ha as (A1 & A2 & A3 & A4 & _). destruct Hb as (B1 & B2 & B3 & B4 & _). destruct H as (_ & _ & H).
  repeat apply conj; try lia.
  intros n c Hc. apply cancel2. unfold dot2.
  rewrite (sumZ_swap Op Rth 0 (tH x / 2) 0 (tW x) (fun i j => tf y n c i j *r tf G n c i j)).
  rewrite (sumZ_swap Op Rth 0 (tH x) 0 (tW x) (fun i j => tf x n c i j *r tf dx n c i j)).
  rewrite <- !(sumZ_scale Op Rth). apply sumZ_ext. intros j Hj.
  pose proof (H n c j Hc Hj) as E. unfold dot in E. rewrite G3 in E. exact E.
Qed.

Lemma dfilt_ifilt_adjoint_row (x G:ten) : 4 <= tW x -> tW x mod 4 = 0 -> 1 <= tH x -> 0 < tC x ->
  tN G = tN x -> tC G = tC x -> tW G = tW x / 2 -> tH G = tH x ->
  is_ok (dfilt Op 3 x L (rev_filt L HA) (rev_filt L HB) hp) (fun y =>
  is_ok (ifilt Op 3 G L (rev_filt L HB) (rev_filt L HA) hp) (fun dx =>
    tN y = tN x /\ tC y = tC x /\ tW y = tW x / 2 /\ tH y = tH x /\
    tN dx = tN x /\ tC dx = tC x /\ tH dx = tH x /\ tW dx = tW x /\
    forall n c, 0 <= c < tC x -> dot2 (tH x) (tW x / 2) y G n c = dot2 (tH x) (tW x) x dx n c)).
Proof.
  intros HH H4 HW HC G1 G2 G3 G4. destruct HL as (HL1 & HL2).
  pose proof (dfilt_ref_row Op Rth x L HA HB hp HL1 HH H4 HW HC) as Ha.
  pose proof (ifilt_ref_row Op Rth G L HB HA hp HL1 HL2 ltac:(lia) ltac:(lia) ltac:(lia) ltac:(lia)) as Hb.
  destruct (dfilt Op 3 x L _ _ hp) as [y|]; [|contradiction]. cbn [is_ok] in *.
  destruct (ifilt Op 3 G L _ _ hp) as [dx|]; [|contradiction]. cbn [is_ok] in *.
  destruct Ha as (A1 & A2 & A3 & A4 & A5). destruct Hb as (B1 & B2 & B3 & B4 & B5).
  repeat apply conj; try lia.
  intros n c Hc. apply cancel2. unfold dot2.
  rewrite <- !(sumZ_scale Op Rth). apply sumZ_ext. intros i Hi.
  pose proof (coldfilt_colifilt_adjoint2 Op Rth L (tW x) HA HB (fun q => tf x n c i q) (fun q => tf G n c i q) (negb hp)
                HL1 HL2 ltac:(lia) H4 HR) as E. cbv zeta in E. unfold dot in E.
  rewrite (sumZ_ext Op 0 (tW x / 2) (fun j => tf y n c i j *r tf G n c i j)
             (fun k => ref_coldfilt Op L (tW x) HA HB (fun q => tf x n c i q) (negb hp) k *r tf G n c i k))
    by (intros k Hk; rewrite A5 by lia; reflexivity).
  rewrite (sumZ_ext Op 0 (tW x) (fun j => tf x n c i j *r tf dx n c i j)
             (fun j => tf x n c i j *r ref_colifilt Op L (tW x / 2) HB HA (fun q => tf G n c i q) (negb hp) j))
    by (intros j Hj; rewrite B5 by lia; rewrite G3; reflexivity).
  exact E.
Qed.
End Stage.


Variables (L:Z) (H0A H0B H1A H1B:Z->R).
Hypothesis HL : 2 <= L /\ L mod 2 = 0.
Hypothesis R0 : forall j, 0 <= j < L -> H0B j = H0A (L-1-j).
Hypothesis R1 : forall j, 0 <= j < L -> H1B j = H1A (L-1-j).
Notation h0a := (rev_filt L H0B). Notation h0b := (rev_filt L H0A). Notation h1a := (rev_filt L H1B). Notation h1b := (rev_filt L H1A).

Definition shaped (x:ten) (h w:Z) (g:ten) : Prop := tN g = tN x /\ tC g = tC x /\ tH g = h /\ tW g = w.

Theorem qshift_level_adjoint (x gll g15r g15i g45r g45i g75r g75i g105r g105i g135r g135i g165r g165i:ten) :
  4 <= tH x -> tH x mod 4 = 0 -> 4 <= tW x -> tW x mod 4 = 0 -> 0 < tC x ->
  let H2 := tH x / 2 in let W2 := tW x / 2 in let H4 := tH x / 4 in let W4 := tW x / 4 in
  shaped x H2 W2 gll ->
  shaped x H4 W4 g15r -> shaped x H4 W4 g15i -> shaped x H4 W4 g45r -> shaped x H4 W4 g45i ->
  shaped x H4 W4 g75r -> shaped x H4 W4 g75i -> shaped x H4 W4 g105r -> shaped x H4 W4 g105i ->
  shaped x H4 W4 g135r -> shaped x H4 W4 g135i -> shaped x H4 W4 g165r -> shaped x H4 W4 g165i ->
  let gp := [g15r; g15i; g45r; g45i; g75r; g75i; g105r; g105i; g135r; g135i; g165r; g165i] in
  is_ok (fwd_j2plus Op s x L h0a h0b L h1a h1b false) (fun r =>
  is_ok (inv_j2plus Op s (Some gll) gp L h0b h0a L h1b h1a) (fun dx =>
    tN dx = tN x /\ tC dx = tC x /\ tH dx = tH x /\ tW dx = tW x /\
    forall n c, 0 <= c < tC x ->
      dot2 H2 W2 (fst r) gll n c
      +r (dot2 H4 W4 (pl Op (snd r) 0 0) g15r n c +r dot2 H4 W4 (pl Op (snd r) 0 1) g15i n c
          +r dot2 H4 W4 (pl Op (snd r) 5 0) g165r n c +r dot2 H4 W4 (pl Op (snd r) 5 1) g165i n c)
      +r (dot2 H4 W4 (pl Op (snd r) 2 0) g75r n c +r dot2 H4 W4 (pl Op (snd r) 2 1) g75i n c
          +r dot2 H4 W4 (pl Op (snd r) 3 0) g105r n c +r dot2 H4 W4 (pl Op (snd r) 3 1) g105i n c)
      +r (dot2 H4 W4 (pl Op (snd r) 1 0) g45r n c +r dot2 H4 W4 (pl Op (snd r) 1 1) g45i n c
          +r dot2 H4 W4 (pl Op (snd r) 4 0) g135r n c +r dot2 H4 W4 (pl Op (snd r) 4 1) g135i n c)
      = dot2 (tH x) (tW x) x dx n c)).
Proof.
  intros HH HH4 HW HW4 HC H2 W2 H4 W4 Sll S15r S15i S45r S45i S75r S75i S105r S105i S135r S135i S165r S165i gp.
  destruct HL as (HL1 & HL2).
  unfold fwd_j2plus.
  (* forward: rows *)
  pose proof (dfilt_ref_row Op Rth x L H0A H0B false HL1 HW HW4 ltac:(lia) HC) as Hlo.
  destruct (dfilt Op 3 x L h0b h0a false) as [lo|] eqn:Elo; [|contradiction]. cbn [is_ok bind] in *. destruct Hlo as (P1 & P2 & P3 & P4 & _).
  pose proof (dfilt_ref_row Op Rth x L H1A H1B true HL1 HW HW4 ltac:(lia) HC) as Hhi.
  destruct (dfilt Op 3 x L h1b h1a true) as [hi|] eqn:Ehi; [|contradiction]. cbn [is_ok bind] in *. destruct Hhi as (Q1 & Q2 & Q3 & Q4 & _).
  (* forward: columns *)
  pose proof (dfilt_ref_col Op Rth lo L H0A H0B false HL1 ltac:(lia) ltac:(lia) ltac:(lia) ltac:(lia)) as Hll.
  destruct (dfilt Op 2 lo L h0b h0a false) as [ll|] eqn:Ell; [|contradiction]. cbn [is_ok bind] in *. destruct Hll as (A1 & A2 & A3 & A4 & _).
  pose proof (dfilt_ref_col Op Rth lo L H1A H1B true HL1 ltac:(lia) ltac:(lia) ltac:(lia) ltac:(lia)) as Hlh.
  destruct (dfilt Op 2 lo L h1b h1a true) as [lh|] eqn:Elh; [|contradiction]. cbn [is_ok bind] in *. destruct Hlh as (B1 & B2 & B3 & B4 & _).
  pose proof (dfilt_ref_col Op Rth hi L H0A H0B false HL1 ltac:(lia) ltac:(lia) ltac:(lia) ltac:(lia)) as Hhl.
  destruct (dfilt Op 2 hi L h0b h0a false) as [hl|] eqn:Ehl; [|contradiction]. cbn [is_ok bind] in *. destruct Hhl as (C1 & C2 & C3 & C4 & _).
  pose proof (dfilt_ref_col Op Rth hi L H1A H1B true HL1 ltac:(lia) ltac:(lia) ltac:(lia) ltac:(lia)) as Hhh.
  destruct (dfilt Op 2 hi L h1b h1a true) as [hh|] eqn:Ehh; [|contradiction]. cbn [is_ok bind fst snd] in *. destruct Hhh as (D1 & D2 & D3 & D4 & _).
  (* planes *)
  pose proof (quad_adj lh g15r g15i g165r g165i) as Qlh. pose proof (quad_adj hl g75r g75i g105r g105i) as Qhl. pose proof (quad_adj hh g45r g45i g135r g135i) as Qhh.
  unfold highs_to_orientations.
  destruct (q2c Op s lh) as ((d15r, d15i), (d165r, d165i)).
  destruct (q2c Op s hh) as ((d45r, d45i), (d135r, d135i)).
  destruct (q2c Op s hl) as ((d75r, d75i), (d105r, d105i)).
  unfold inv_j2plus, orientations_to_highs, gp, pl.
  change (Z.to_nat (2*0+0)) with 0%nat. change (Z.to_nat (2*0+1)) with 1%nat. change (Z.to_nat (2*1+0)) with 2%nat. change (Z.to_nat (2*1+1)) with 3%nat.
  change (Z.to_nat (2*2+0)) with 4%nat. change (Z.to_nat (2*2+1)) with 5%nat. change (Z.to_nat (2*3+0)) with 6%nat. change (Z.to_nat (2*3+1)) with 7%nat.
  change (Z.to_nat (2*4+0)) with 8%nat. change (Z.to_nat (2*4+1)) with 9%nat. change (Z.to_nat (2*5+0)) with 10%nat. change (Z.to_nat (2*5+1)) with 11%nat.
  cbn [nth].
  set (glh := c2q Op s g15r g15i g165r g165i) in *. set (ghl := c2q Op s g75r g75i g105r g105i) in *. set (ghh := c2q Op s g45r g45i g135r g135i) in *.
  destruct Sll as (Sl1 & Sl2 & Sl3 & Sl4).
  assert (Sg: forall a b c' d, shaped x H4 W4 a -> shaped x H4 W4 b -> shaped x H4 W4 c' -> shaped x H4 W4 d ->
             tN (c2q Op s a b c' d) = tN x /\ tC (c2q Op s a b c' d) = tC x /\ tH (c2q Op s a b c' d) = H2 /\ tW (c2q Op s a b c' d) = W2).
  { intros a b c' d (X1 & X2 & X3 & X4) _ _ _. unfold c2q. cbn [force tN tC tH tW]. unfold H2, W2, H4, W4 in *. repeat split; lia. }
  destruct (Sg _ _ _ _ S15r S15i S165r S165i) as (U1 & U2 & U3 & U4). fold glh in U1, U2, U3, U4.
  destruct (Sg _ _ _ _ S75r S75i S105r S105i) as (V1 & V2 & V3 & V4). fold ghl in V1, V2, V3, V4.
  destruct (Sg _ _ _ _ S45r S45i S135r S135i) as (Y1 & Y2 & Y3 & Y4). fold ghh in Y1, Y2, Y3, Y4.
  unfold H2, W2, H4, W4 in *.
  (* backward: columns of the highpass branch *)
  pose proof (col_adj L H1A H1B true (conj HL1 HL2) R1 hi ghh ltac:(lia) ltac:(lia) ltac:(lia) ltac:(lia) ltac:(lia) ltac:(lia) ltac:(lia) ltac:(lia)) as Ahh.
  rewrite Ehh in Ahh. cbn [is_ok] in Ahh.
  pose proof (col_adj L H0A H0B false (conj HL1 HL2) R0 hi ghl ltac:(lia) ltac:(lia) ltac:(lia) ltac:(lia) ltac:(lia) ltac:(lia) ltac:(lia) ltac:(lia)) as Ahl.
  rewrite Ehl in Ahl. cbn [is_ok] in Ahl.
  unfold radd_res.
  destruct (ifilt Op 2 ghh L h1a h1b true) as [t1|]; [|contradiction]. destruct (ifilt Op 2 ghl L h0a h0b false) as [t2|]; [|contradiction].
  cbn [is_ok bind] in *. destruct Ahh as (_ & _ & _ & _ & T1a & T1b & T1c & T1d & Ahh). destruct Ahl as (_ & _ & _ & _ & T2a & T2b & T2c & T2d & Ahl).
  replace (same_shape t1 t2) with true by (unfold same_shape; lia). cbn [bind].
  set (hig := force Op (t_add Op t1 t2)).
  (* backward: columns of the lowpass branch *)
  pose proof (col_adj L H1A H1B true (conj HL1 HL2) R1 lo glh ltac:(lia) ltac:(lia) ltac:(lia) ltac:(lia) ltac:(lia) ltac:(lia) ltac:(lia) ltac:(lia)) as Alh.
  rewrite Elh in Alh. cbn [is_ok] in Alh.
  pose proof (col_adj L H0A H0B false (conj HL1 HL2) R0 lo gll ltac:(lia) ltac:(lia) ltac:(lia) ltac:(lia) ltac:(lia) ltac:(lia) ltac:(lia) ltac:(lia)) as All.
  rewrite Ell in All. cbn [is_ok] in All.
  destruct (ifilt Op 2 glh L h1a h1b true) as [t3|]; [|contradiction]. destruct (ifilt Op 2 gll L h0a h0b false) as [t4|]; [|contradiction].
  cbn [is_ok bind] in *. destruct Alh as (_ & _ & _ & _ & T3a & T3b & T3c & T3d & Alh). destruct All as (_ & _ & _ & _ & T4a & T4b & T4c & T4d & All).
  replace (same_shape t3 t4) with true by (unfold same_shape; lia). cbn [bind].
  set (log := force Op (t_add Op t3 t4)).
  (* backward: rows *)
  assert (Shig: tN hig = tN x /\ tC hig = tC x /\ tH hig = tH x /\ tW hig = tW x / 2) by (unfold hig; cbn [force t_add tN tC tH tW]; lia).
  assert (Slog: tN log = tN x /\ tC log = tC x /\ tH log = tH x /\ tW log = tW x / 2) by (unfold log; cbn [force t_add tN tC tH tW]; lia).
  pose proof (dfilt_ifilt_adjoint_row L H1A H1B true (conj HL1 HL2) R1 x hig HW HW4 ltac:(lia) HC ltac:(lia) ltac:(lia) ltac:(lia) ltac:(lia)) as Ahi.
  rewrite Ehi in Ahi. cbn [is_ok] in Ahi.
  pose proof (dfilt_ifilt_adjoint_row L H0A H0B false (conj HL1 HL2) R0 x log HW HW4 ltac:(lia) HC ltac:(lia) ltac:(lia) ltac:(lia) ltac:(lia)) as Alo.
  rewrite Elo in Alo. cbn [is_ok] in Alo.
  destruct (ifilt Op 3 hig L h1a h1b true) as [t5|]; [|contradiction]. destruct (ifilt Op 3 log L h0a h0b false) as [t6|]; [|contradiction].
  cbn [is_ok bind] in *. destruct Ahi as (_ & _ & _ & _ & T5a & T5b & T5c & T5d & Ahi). destruct Alo as (_ & _ & _ & _ & T6a & T6b & T6c & T6d & Alo).
  replace (same_shape t5 t6) with true by (unfold same_shape; lia). cbn [is_ok].
  cbn [force t_add tN tC tH tW]. repeat apply conj; try lia.
  intros n c Hc.
  (* assemble, from the input side *)
  rewrite (dot2_add_r (tH x) (tW x) x (force Op (t_add Op t5 t6)) t5 t6 n c) by (intros; rewrite force_eq; reflexivity).
  rewrite <- (Ahi n c Hc), <- (Alo n c Hc).
  rewrite (dot2_add_r (tH x) (tW x / 2) hi hig t1 t2 n c) by (intros; unfold hig; rewrite force_eq; reflexivity).
  rewrite (dot2_add_r (tH x) (tW x / 2) lo log t3 t4 n c) by (intros; unfold log; rewrite force_eq; reflexivity).
  rewrite Q3, Q4 in Ahh, Ahl. rewrite P3, P4 in Alh, All. rewrite Q2 in Ahh, Ahl. rewrite P2 in Alh, All.
  rewrite <- (Ahh n c Hc), <- (Ahl n c Hc), <- (Alh n c Hc), <- (All n c Hc).
  (* planes: quad adjointness *)
  specialize (Qlh n c (tH x / 4) (tW x / 4) ltac:(lia) ltac:(lia)). specialize (Qhl n c (tH x / 4) (tW x / 4) ltac:(lia) ltac:(lia)).
  specialize (Qhh n c (tH x / 4) (tW x / 4) ltac:(lia) ltac:(lia)).
  replace (2 * (tH x / 4)) with (tH x / 2) in * by lia. replace (2 * (tW x / 4)) with (tW x / 2) in * by lia.
  fold glh in Qlh. fold ghl in Qhl. fold ghh in Qhh.
  rewrite Qlh, Qhl, Qhh. ring.
Qed.
End S.
