(* C06 on the tensor-level model, level 1 in 2-D: FWD_J1.backward (= inv_j1 with the same symmetric odd filters) is the adjoint of
   fwd_j1 in symmetric mode; read right to left it is INV_J1.backward. *)
From PW Require Import Base.Ops Base.Sum Base.Sig Base.Tensor Model.Dwt Model.Dtcwt Spec.Line Spec.DtcwtRef
  Proofs.DwtNF Proofs.SfbNF Proofs.DtcwtNF Proofs.DtcwtNFrow Proofs.QuadProofs Proofs.SymExt Proofs.CircPR Proofs.QshiftLevel Proofs.DtcwtLevel1 Proofs.DtcwtAdj2D.
Ltac Zify.zify_post_hook ::= Z.to_euclidean_division_equations.

Section S.
Context {R:Type} (Op:Ops R) (Rth: RingOk Op).
Add Ring Rr : Rth.
Notation ten := (@ten R).
Infix "+r" := (radd Op) (at level 50, left associativity).
Infix "*r" := (rmul Op) (at level 40, left associativity).
Notation sumZ := (sumZ Op).
Notation two := (r1 Op +r r1 Op).
Hypothesis cancel2 : forall a b:R, two *r a = two *r b -> a = b.

Lemma lf_cf_col (x:ten) Lh h : 1 <= Lh -> Lh mod 2 = 1 -> 1 <= tH x -> 1 <= tW x -> 0 < tC x ->
  is_ok (linefilter Op 2 x Lh h M_SYMM) (fun y => tN y = tN x /\ tC y = tC x /\ tH y = tH x /\ tW y = tW x /\
    forall n c i j, 0 <= c < tC x -> 0 <= i < tH x -> 0 <= j < tW x -> tf y n c i j = cfline Op Lh (tH x) h (fun q => tf x n c q j) i).
Proof.
  intros HL HLo HH HW HC. pose proof (linefilter_sym_col Op Rth x Lh h HL HH HW HC) as H.
  destruct (linefilter Op 2 x Lh h M_SYMM) as [y|]; [|contradiction]. cbn [is_ok] in *. destruct H as (A1 & A2 & A3 & A4 & A5).
  repeat apply conj; try lia. intros n c i j Hc Hi Hj. rewrite A5 by lia. reflexivity.
Qed.
Lemma lf_cf_row (x:ten) Lh h : 1 <= Lh -> Lh mod 2 = 1 -> 1 <= tH x -> 1 <= tW x -> 0 < tC x ->
  is_ok (linefilter Op 3 x Lh h M_SYMM) (fun y => tN y = tN x /\ tC y = tC x /\ tH y = tH x /\ tW y = tW x /\
    forall n c i j, 0 <= c < tC x -> 0 <= i < tH x -> 0 <= j < tW x -> tf y n c i j = cfline Op Lh (tW x) h (fun q => tf x n c i q) j).
Proof.
  intros HL HLo HH HW HC. pose proof (linefilter_sym_row Op Rth x Lh h HL HH HW HC) as H.
  destruct (linefilter Op 3 x Lh h M_SYMM) as [y|]; [|contradiction]. cbn [is_ok] in *. destruct H as (A1 & A2 & A3 & A4 & A5).
  repeat apply conj; try lia. intros n c i j Hc Hi Hj. rewrite A5 by lia. reflexivity.
Qed.

Section Stage.
Variables (L:Z) (h:Z->R).
Hypothesis HLo : 1 <= L /\ L mod 2 = 1.
Hypothesis Hs : Symmetric L h.

Lemma lf_adj_col (x G:ten) : 1 <= tH x -> 1 <= tW x -> 0 < tC x ->
  tN G = tN x -> tC G = tC x -> tH G = tH x -> tW G = tW x ->
  is_ok (linefilter Op 2 x L h M_SYMM) (fun y => is_ok (linefilter Op 2 G L h M_SYMM) (fun dx =>
    shaped x (tH x) (tW x) y /\ shaped x (tH x) (tW x) dx /\
    forall n c, 0 <= c < tC x -> dot2 Op (tH x) (tW x) y G n c = dot2 Op (tH x) (tW x) x dx n c)).
Proof.
  intros HH HW HC G1 G2 G3 G4. destruct HLo as (HL1 & HL2).
  pose proof (lf_cf_col x L h HL1 HL2 HH HW HC) as Ha.
  pose proof (lf_cf_col G L h HL1 HL2 ltac:(lia) ltac:(lia) ltac:(lia)) as Hb.
  destruct (linefilter Op 2 x L h M_SYMM) as [y|]; [|contradiction]. destruct (linefilter Op 2 G L h M_SYMM) as [dx|]; [|contradiction].
  cbn [is_ok] in *. destruct Ha as (A1 & A2 & A3 & A4 & A5). destruct Hb as (B1 & B2 & B3 & B4 & B5).
  unfold shaped. repeat apply conj; try lia.
  intros n c Hc. apply cancel2. unfold dot2.
  rewrite (sumZ_swap Op Rth 0 (tH x) 0 (tW x) (fun i j => tf y n c i j *r tf G n c i j)).
  rewrite (sumZ_swap Op Rth 0 (tH x) 0 (tW x) (fun i j => tf x n c i j *r tf dx n c i j)).
  rewrite <- !(sumZ_scale Op Rth). apply sumZ_ext. intros j Hj.
  pose proof (cf_selfadjoint2 Op Rth L (tH x) h (fun q => tf x n c q j) (fun q => tf G n c q j) ltac:(lia) HL2 HL1 Hs) as E.
  cbv zeta in E. unfold dot in E.
  rewrite (sumZ_ext Op 0 (tH x) (fun i => tf y n c i j *r tf G n c i j) (fun i => cfline Op L (tH x) h (fun q => tf x n c q j) i *r tf G n c i j))
    by (intros i Hi; rewrite A5 by lia; reflexivity).
  rewrite (sumZ_ext Op 0 (tH x) (fun i => tf x n c i j *r tf dx n c i j) (fun i => tf x n c i j *r cfline Op L (tH x) h (fun q => tf G n c q j) i))
    by (intros i Hi; rewrite B5 by lia; rewrite G3; reflexivity).
  exact E.
Qed.
Lemma lf_adj_row (x G:ten) : 1 <= tH x -> 1 <= tW x -> 0 < tC x ->
  tN G = tN x -> tC G = tC x -> tH G = tH x -> tW G = tW x ->
  is_ok (linefilter Op 3 x L h M_SYMM) (fun y => is_ok (linefilter Op 3 G L h M_SYMM) (fun dx =>
    shaped x (tH x) (tW x) y /\ shaped x (tH x) (tW x) dx /\
    forall n c, 0 <= c < tC x -> dot2 Op (tH x) (tW x) y G n c = dot2 Op (tH x) (tW x) x dx n c)).
Proof.
  intros HH HW HC G1 G2 G3 G4. destruct HLo as (HL1 & HL2).
  pose proof (lf_cf_row x L h HL1 HL2 HH HW HC) as Ha.
  pose proof (lf_cf_row G L h HL1 HL2 ltac:(lia) ltac:(lia) ltac:(lia)) as Hb.
  destruct (linefilter Op 3 x L h M_SYMM) as [y|]; [|contradiction]. destruct (linefilter Op 3 G L h M_SYMM) as [dx|]; [|contradiction].
  cbn [is_ok] in *. destruct Ha as (A1 & A2 & A3 & A4 & A5). destruct Hb as (B1 & B2 & B3 & B4 & B5).
  unfold shaped. repeat apply conj; try lia.
  intros n c Hc. apply cancel2. unfold dot2.
  rewrite <- !(sumZ_scale Op Rth). apply sumZ_ext. intros i Hi.
  pose proof (cf_selfadjoint2 Op Rth L (tW x) h (fun q => tf x n c i q) (fun q => tf G n c i q) ltac:(lia) HL2 HL1 Hs) as E.
  cbv zeta in E. unfold dot in E.
  rewrite (sumZ_ext Op 0 (tW x) (fun j => tf y n c i j *r tf G n c i j) (fun j => cfline Op L (tW x) h (fun q => tf x n c i q) j *r tf G n c i j))
    by (intros j Hj; rewrite A5 by lia; reflexivity).
  rewrite (sumZ_ext Op 0 (tW x) (fun j => tf x n c i j *r tf dx n c i j) (fun j => tf x n c i j *r cfline Op L (tW x) h (fun q => tf G n c i q) j))
    by (intros j Hj; rewrite B5 by lia; rewrite G4; reflexivity).
  exact E.
Qed.
End Stage.

Variable s : R.
Variables (L0 L1:Z) (h0 h1:Z->R).
Hypothesis HL0 : 1 <= L0 /\ L0 mod 2 = 1. Hypothesis HL1 : 1 <= L1 /\ L1 mod 2 = 1.
Hypothesis Hs0 : Symmetric L0 h0. Hypothesis Hs1 : Symmetric L1 h1.

Theorem level1_adjoint (x gll g15r g15i g45r g45i g75r g75i g105r g105i g135r g135i g165r g165i:ten) :
  2 <= tH x -> tH x mod 2 = 0 -> 2 <= tW x -> tW x mod 2 = 0 -> 0 < tC x ->
  let H2 := tH x / 2 in let W2 := tW x / 2 in
  shaped x (tH x) (tW x) gll ->
  shaped x H2 W2 g15r -> shaped x H2 W2 g15i -> shaped x H2 W2 g45r -> shaped x H2 W2 g45i ->
  shaped x H2 W2 g75r -> shaped x H2 W2 g75i -> shaped x H2 W2 g105r -> shaped x H2 W2 g105i ->
  shaped x H2 W2 g135r -> shaped x H2 W2 g135i -> shaped x H2 W2 g165r -> shaped x H2 W2 g165i ->
  let gp := [g15r; g15i; g45r; g45i; g75r; g75i; g105r; g105i; g135r; g135i; g165r; g165i] in
  is_ok (fwd_j1 Op s x L0 h0 L1 h1 false M_SYMM) (fun r =>
  is_ok (inv_j1 Op s (Some gll) gp L0 h0 L1 h1 M_SYMM) (fun dx =>
    shaped x (tH x) (tW x) dx /\
    forall n c, 0 <= c < tC x ->
      dot2 Op (tH x) (tW x) (fst r) gll n c
      +r (dot2 Op H2 W2 (pl Op (snd r) 0 0) g15r n c +r dot2 Op H2 W2 (pl Op (snd r) 0 1) g15i n c
          +r dot2 Op H2 W2 (pl Op (snd r) 5 0) g165r n c +r dot2 Op H2 W2 (pl Op (snd r) 5 1) g165i n c)
      +r (dot2 Op H2 W2 (pl Op (snd r) 2 0) g75r n c +r dot2 Op H2 W2 (pl Op (snd r) 2 1) g75i n c
          +r dot2 Op H2 W2 (pl Op (snd r) 3 0) g105r n c +r dot2 Op H2 W2 (pl Op (snd r) 3 1) g105i n c)
      +r (dot2 Op H2 W2 (pl Op (snd r) 1 0) g45r n c +r dot2 Op H2 W2 (pl Op (snd r) 1 1) g45i n c
          +r dot2 Op H2 W2 (pl Op (snd r) 4 0) g135r n c +r dot2 Op H2 W2 (pl Op (snd r) 4 1) g135i n c)
      = dot2 Op (tH x) (tW x) x dx n c)).
Proof.
  intros HH HHe HW HWe HC H2 W2 Sll S15r S15i S45r S45i S75r S75i S105r S105i S135r S135i S165r S165i gp.
  destruct HL0 as (L0p & L0o). destruct HL1 as (L1p & L1o).
  unfold fwd_j1.
  pose proof (lf_cf_row x L0 h0 L0p L0o ltac:(lia) ltac:(lia) HC) as Hlo.
  destruct (linefilter Op 3 x L0 h0 M_SYMM) as [lo|] eqn:Elo; [|contradiction]. cbn [is_ok bind] in *. destruct Hlo as (P1 & P2 & P3 & P4 & _).
  pose proof (lf_cf_row x L1 h1 L1p L1o ltac:(lia) ltac:(lia) HC) as Hhi.
  destruct (linefilter Op 3 x L1 h1 M_SYMM) as [hi|] eqn:Ehi; [|contradiction]. cbn [is_ok bind] in *. destruct Hhi as (Q1 & Q2 & Q3 & Q4 & _).
  pose proof (lf_cf_col lo L0 h0 L0p L0o ltac:(lia) ltac:(lia) ltac:(lia)) as Hll.
  destruct (linefilter Op 2 lo L0 h0 M_SYMM) as [ll|] eqn:Ell; [|contradiction]. cbn [is_ok bind] in *. destruct Hll as (A1 & A2 & A3 & A4 & _).
  pose proof (lf_cf_col lo L1 h1 L1p L1o ltac:(lia) ltac:(lia) ltac:(lia)) as Hlh.
  destruct (linefilter Op 2 lo L1 h1 M_SYMM) as [lh|] eqn:Elh; [|contradiction]. cbn [is_ok bind] in *. destruct Hlh as (B1 & B2 & B3 & B4 & _).
  pose proof (lf_cf_col hi L0 h0 L0p L0o ltac:(lia) ltac:(lia) ltac:(lia)) as Hhl.
  destruct (linefilter Op 2 hi L0 h0 M_SYMM) as [hl|] eqn:Ehl; [|contradiction]. cbn [is_ok bind] in *. destruct Hhl as (C1 & C2 & C3 & C4 & _).
  pose proof (lf_cf_col hi L1 h1 L1p L1o ltac:(lia) ltac:(lia) ltac:(lia)) as Hhh.
  destruct (linefilter Op 2 hi L1 h1 M_SYMM) as [hh|] eqn:Ehh; [|contradiction]. cbn [is_ok bind fst snd] in *. destruct Hhh as (D1 & D2 & D3 & D4 & _).
  pose proof (quad_adj Op Rth s lh g15r g15i g165r g165i) as Qlh. pose proof (quad_adj Op Rth s hl g75r g75i g105r g105i) as Qhl.
  pose proof (quad_adj Op Rth s hh g45r g45i g135r g135i) as Qhh.
  unfold highs_to_orientations.
  destruct (q2c Op s lh) as ((d15r, d15i), (d165r, d165i)).
  destruct (q2c Op s hh) as ((d45r, d45i), (d135r, d135i)).
  destruct (q2c Op s hl) as ((d75r, d75i), (d105r, d105i)).
  unfold inv_j1, orientations_to_highs, gp, pl.
  change (Z.to_nat (2*0+0)) with 0%nat. change (Z.to_nat (2*0+1)) with 1%nat. change (Z.to_nat (2*1+0)) with 2%nat. change (Z.to_nat (2*1+1)) with 3%nat.
  change (Z.to_nat (2*2+0)) with 4%nat. change (Z.to_nat (2*2+1)) with 5%nat. change (Z.to_nat (2*3+0)) with 6%nat. change (Z.to_nat (2*3+1)) with 7%nat.
  change (Z.to_nat (2*4+0)) with 8%nat. change (Z.to_nat (2*4+1)) with 9%nat. change (Z.to_nat (2*5+0)) with 10%nat. change (Z.to_nat (2*5+1)) with 11%nat.
  cbn [nth].
  destruct Sll as (Sl1 & Sl2 & Sl3 & Sl4). pose proof S15r as (K1 & K2 & K3 & K4).
  replace (crop_ll gll (tH g15r) (tW g15r)) with gll
    by (unfold crop_ll, H2, W2 in *; replace (negb (tH gll =? 2 * tH g15r)) with false by lia; replace (negb (tW gll =? 2 * tW g15r)) with false by lia; reflexivity).
  set (glh := c2q Op s g15r g15i g165r g165i) in *. set (ghl := c2q Op s g75r g75i g105r g105i) in *. set (ghh := c2q Op s g45r g45i g135r g135i) in *.
  assert (Sg: forall a b c' d, shaped x H2 W2 a -> shaped x H2 W2 b -> shaped x H2 W2 c' -> shaped x H2 W2 d ->
             tN (c2q Op s a b c' d) = tN x /\ tC (c2q Op s a b c' d) = tC x /\ tH (c2q Op s a b c' d) = tH x /\ tW (c2q Op s a b c' d) = tW x).
  { intros a b c' d (X1 & X2 & X3 & X4) _ _ _. unfold c2q. cbn [force tN tC tH tW]. unfold H2, W2 in *. repeat split; lia. }
  destruct (Sg _ _ _ _ S15r S15i S165r S165i) as (U1 & U2 & U3 & U4). fold glh in U1, U2, U3, U4.
  destruct (Sg _ _ _ _ S75r S75i S105r S105i) as (V1 & V2 & V3 & V4). fold ghl in V1, V2, V3, V4.
  destruct (Sg _ _ _ _ S45r S45i S135r S135i) as (Y1 & Y2 & Y3 & Y4). fold ghh in Y1, Y2, Y3, Y4.
  unfold H2, W2 in *.
  pose proof (lf_adj_col L1 h1 (conj L1p L1o) Hs1 hi ghh ltac:(lia) ltac:(lia) ltac:(lia) ltac:(lia) ltac:(lia) ltac:(lia) ltac:(lia)) as Ahh.
  rewrite Ehh in Ahh. cbn [is_ok] in Ahh.
  pose proof (lf_adj_col L0 h0 (conj L0p L0o) Hs0 hi ghl ltac:(lia) ltac:(lia) ltac:(lia) ltac:(lia) ltac:(lia) ltac:(lia) ltac:(lia)) as Ahl.
  rewrite Ehl in Ahl. cbn [is_ok] in Ahl.
  unfold radd_res.
  destruct (linefilter Op 2 ghh L1 h1 M_SYMM) as [t1|]; [|contradiction]. destruct (linefilter Op 2 ghl L0 h0 M_SYMM) as [t2|]; [|contradiction].
  cbn [is_ok bind] in *. destruct Ahh as (_ & (T1a & T1b & T1c & T1d) & Ahh). destruct Ahl as (_ & (T2a & T2b & T2c & T2d) & Ahl).
  replace (same_shape t1 t2) with true by (unfold same_shape; lia). cbn [bind].
  set (hig := force Op (t_add Op t1 t2)).
  pose proof (lf_adj_col L1 h1 (conj L1p L1o) Hs1 lo glh ltac:(lia) ltac:(lia) ltac:(lia) ltac:(lia) ltac:(lia) ltac:(lia) ltac:(lia)) as Alh.
  rewrite Elh in Alh. cbn [is_ok] in Alh.
  pose proof (lf_adj_col L0 h0 (conj L0p L0o) Hs0 lo gll ltac:(lia) ltac:(lia) ltac:(lia) ltac:(lia) ltac:(lia) ltac:(lia) ltac:(lia)) as All.
  rewrite Ell in All. cbn [is_ok] in All.
  destruct (linefilter Op 2 glh L1 h1 M_SYMM) as [t3|]; [|contradiction]. destruct (linefilter Op 2 gll L0 h0 M_SYMM) as [t4|]; [|contradiction].
  cbn [is_ok bind] in *. destruct Alh as (_ & (T3a & T3b & T3c & T3d) & Alh). destruct All as (_ & (T4a & T4b & T4c & T4d) & All).
  replace (same_shape t3 t4) with true by (unfold same_shape; lia). cbn [bind].
  set (log := force Op (t_add Op t3 t4)).
  assert (Shig: tN hig = tN x /\ tC hig = tC x /\ tH hig = tH x /\ tW hig = tW x) by (unfold hig; cbn [force t_add tN tC tH tW]; lia).
  assert (Slog: tN log = tN x /\ tC log = tC x /\ tH log = tH x /\ tW log = tW x) by (unfold log; cbn [force t_add tN tC tH tW]; lia).
  pose proof (lf_adj_row L1 h1 (conj L1p L1o) Hs1 x hig ltac:(lia) ltac:(lia) HC ltac:(lia) ltac:(lia) ltac:(lia) ltac:(lia)) as Ahi.
  rewrite Ehi in Ahi. cbn [is_ok] in Ahi.
  pose proof (lf_adj_row L0 h0 (conj L0p L0o) Hs0 x log ltac:(lia) ltac:(lia) HC ltac:(lia) ltac:(lia) ltac:(lia) ltac:(lia)) as Alo.
  rewrite Elo in Alo. cbn [is_ok] in Alo.
  destruct (linefilter Op 3 hig L1 h1 M_SYMM) as [t5|]; [|contradiction]. destruct (linefilter Op 3 log L0 h0 M_SYMM) as [t6|]; [|contradiction].
  cbn [is_ok bind] in *. destruct Ahi as (_ & (T5a & T5b & T5c & T5d) & Ahi). destruct Alo as (_ & (T6a & T6b & T6c & T6d) & Alo).
  replace (same_shape t5 t6) with true by (unfold same_shape; lia). cbn [is_ok].
  unfold shaped. cbn [force t_add tN tC tH tW]. repeat apply conj; try lia.
  intros n c Hc.
  rewrite (dot2_add_r Op Rth (tH x) (tW x) x (force Op (t_add Op t5 t6)) t5 t6 n c) by (intros; rewrite force_eq; reflexivity).
  rewrite <- (Ahi n c Hc), <- (Alo n c Hc).
  rewrite (dot2_add_r Op Rth (tH x) (tW x) hi hig t1 t2 n c) by (intros; unfold hig; rewrite force_eq; reflexivity).
  rewrite (dot2_add_r Op Rth (tH x) (tW x) lo log t3 t4 n c) by (intros; unfold log; rewrite force_eq; reflexivity).
  rewrite Q3, Q4 in Ahh, Ahl. rewrite P3, P4 in Alh, All. rewrite Q2 in Ahh, Ahl. rewrite P2 in Alh, All.
  rewrite <- (Ahh n c Hc), <- (Ahl n c Hc), <- (Alh n c Hc), <- (All n c Hc).
  specialize (Qlh n c (tH x / 2) (tW x / 2) ltac:(lia) ltac:(lia)). specialize (Qhl n c (tH x / 2) (tW x / 2) ltac:(lia) ltac:(lia)).
  specialize (Qhh n c (tH x / 2) (tW x / 2) ltac:(lia) ltac:(lia)).
  replace (2 * (tH x / 2)) with (tH x) in * by lia. replace (2 * (tW x / 2)) with (tW x) in * by lia.
  fold glh in Qlh. fold ghl in Qhl. fold ghh in Qhh.
  rewrite Qlh, Qhl, Qhh. ring.
Qed.
End S.
