(* C09 on the model: the backward pass of the SECOND-ORDER scattering layer (greyscale, plain filter family) is the adjoint of the
   linearisation of its forward pass.  Forward at x:  (s0,p1) = J1(x);  s1 = |p1|;  (s0b,p2) = J2(s0);  (l3,p3) = J1(s1);
   output = [avgpool s0b | avgpool l3 | |p2| | |p3|].  Linearisation in direction h (phases saved at x):
   (s0',p1') = J1(h);  s1' = phase(p1).p1';  (s0b',p2') = J2(s0');  (l3',p3') = J1(s1');  and for every input channel c
     < avgpool s0b', dZ_0 >_c + < phase(p2).p2', dZ_2 >_c + sum over the six level-1 orientations o of
     ( < avgpool l3', dZ_1 >_(oC+c) + < phase(p3).p3', dZ_3 >_(oC+c) )  =  < h, backward(x, dZ) >_c.
   Assembled from the level adjoints C06_level1_adjoint (twice) and C06_qshift_level_adjoint, the pooling adjoint and the
   pointwise identity that moves the phase factors from the direction to the cotangent. *)
From PW Require Import Base.Ops Base.Sum Base.Sig Base.Tensor Model.Dwt Model.Dtcwt Model.Scat Spec.Line
  Proofs.DwtNF Proofs.SfbNF Proofs.DtcwtNF Proofs.DtcwtNFrow Proofs.QuadProofs Proofs.SymExt Proofs.CircPR Proofs.ScatProofs
  Proofs.QshiftLevel Proofs.DtcwtLevel1 Proofs.DtcwtAdj2D Proofs.DtcwtAdj1 Proofs.ScatVJP.
Ltac Zify.zify_post_hook ::= Z.to_euclidean_division_equations.

Section S.
Context {R:Type} (Op:Ops R) (Rth: RingOk Op) (X:XOps R).
Add Ring Rr : Rth.
Notation ten := (@ten R).
Infix "+r" := (radd Op) (at level 50, left associativity).
Infix "*r" := (rmul Op) (at level 40, left associativity).
Notation sumZ := (sumZ Op).
Notation two := (r1 Op +r r1 Op).
Notation dot2 := (dot2 Op).
Notation s := (xs_ X).
Variable b : R.
Notation dz := (t_zeros Op 0 0 0 0).

Lemma is_ok_bind {A B} (r:res A) (f:A->res B) (P:A->Prop) (Q:B->Prop) :
  is_ok r P -> (forall a, P a -> is_ok (f a) Q) -> is_ok (bind r f) Q.
Proof. intros H Hf. destruct r as [a|e]; cbn [is_ok bind] in *; [apply Hf; exact H | contradiction]. Qed.
Lemma is_ok_eq {A} (r:res A) a (P:A->Prop) : r = Ok a -> is_ok r P -> P a.
Proof. intros -> H. exact H. Qed.

(* the pairing of twelve planes with twelve cotangent planes, in the bracketing of the level adjoints *)
Definition dot12 (h w:Z) (ps gs:list ten) (n c:Z) : R :=
  let d o ri := dot2 h w (pl Op ps o ri) (pl Op gs o ri) n c in
  (d 0 0 +r d 0 1 +r d 5 0 +r d 5 1) +r (d 2 0 +r d 2 1 +r d 3 0 +r d 3 1) +r (d 1 0 +r d 1 1 +r d 4 0 +r d 4 1).

(* linearisation of the magnitudes: channel o*C + c <- phase_re[o] * re'[o] + phase_im[o] * im'[o] *)
Definition linmag (C:Z) (ph p':list ten) : ten :=
  let a := pl Op p' 0 0 in
  mkT (tN a) (6*C) (tH a) (tW a) (fun n q i j =>
    tf (pl Op ph (q / C) 0) n (q mod C) i j *r tf (pl Op p' (q / C) 0) n (q mod C) i j +r
    tf (pl Op ph (q / C) 1) n (q mod C) i j *r tf (pl Op p' (q / C) 1) n (q mod C) i j).

Lemma move_phase (C:Z) (ph p':list ten) (d:ten) h w n c o : 0 < C -> 0 <= c < C -> 0 <= o < 6 ->
  dot2 h w (pl Op p' o 0) (pl Op (cot_planes Op false C d ph) o 0) n c +r dot2 h w (pl Op p' o 1) (pl Op (cot_planes Op false C d ph) o 1) n c
  = dot2 h w (linmag C ph p') d n (o*C + c).
Proof.
  intros HC Hc Ho. rewrite !(cot_nth Op C d ph o) by lia. unfold DtcwtAdj2D.dot2.
  rewrite <- sumZ_add by exact Rth. apply sumZ_ext. intros i Hi. rewrite <- sumZ_add by exact Rth. apply sumZ_ext. intros j Hj.
  rewrite !force_eq. unfold linmag. cbn [tf].
  replace ((o*C + c) / C) with o by (symmetry; rewrite Z.div_add_l by lia; rewrite Z.div_small by lia; lia).
  replace ((o*C + c) mod C) with c by (symmetry; rewrite Z.add_comm; rewrite Z.mod_add by lia; apply Z.mod_small; lia).
  ring.
Qed.
Lemma move_phase12 (C:Z) (ph p':list ten) (d:ten) h w n c : 0 < C -> 0 <= c < C ->
  dot12 h w p' (cot_planes Op false C d ph) n c
  = dot2 h w (linmag C ph p') d n (0*C + c) +r dot2 h w (linmag C ph p') d n (1*C + c) +r dot2 h w (linmag C ph p') d n (2*C + c)
    +r dot2 h w (linmag C ph p') d n (3*C + c) +r dot2 h w (linmag C ph p') d n (4*C + c) +r dot2 h w (linmag C ph p') d n (5*C + c).
Proof.
  intros HC Hc. rewrite <- !(move_phase C ph p' d h w n c) by lia. unfold dot12. cbv zeta. ring.
Qed.

(* ---- the level adjoints with the cotangent planes given as a list ---- *)
Variables (L0 L1:Z) (h0 h1:Z->R).
Hypothesis HL0 : 1 <= L0 /\ L0 mod 2 = 1. Hypothesis HL1 : 1 <= L1 /\ L1 mod 2 = 1.
Hypothesis Hs0 : Symmetric L0 h0. Hypothesis Hs1 : Symmetric L1 h1.
Variables (L:Z) (H0A H0B H1A H1B:Z->R).
Hypothesis HL : 2 <= L /\ L mod 2 = 0.
Hypothesis R0 : forall j, 0 <= j < L -> H0B j = H0A (L-1-j).
Hypothesis R1 : forall j, 0 <= j < L -> H1B j = H1A (L-1-j).
Notation h0a := (rev_filt L H0B). Notation h0b := (rev_filt L H0A). Notation h1a := (rev_filt L H1B). Notation h1b := (rev_filt L H1A).
Hypothesis cancel2 : forall a b:R, two *r a = two *r b -> a = b.

Lemma j1_adj_list (x gll:ten) (cot:list ten) : 2 <= tH x -> tH x mod 2 = 0 -> 2 <= tW x -> tW x mod 2 = 0 -> 0 < tC x ->
  shaped x (tH x) (tW x) gll -> length cot = 12%nat -> (forall k, (k < 12)%nat -> shaped x (tH x / 2) (tW x / 2) (nth k cot dz)) ->
  is_ok (fwd_j1 Op s x L0 h0 L1 h1 false M_SYMM) (fun r =>
  is_ok (inv_j1 Op s (Some gll) cot L0 h0 L1 h1 M_SYMM) (fun dx =>
    shaped x (tH x) (tW x) dx /\
    forall n c, 0 <= c < tC x -> dot2 (tH x) (tW x) (fst r) gll n c +r dot12 (tH x / 2) (tW x / 2) (snd r) cot n c = dot2 (tH x) (tW x) x dx n c)).
Proof.
  intros HH HHe HW HWe HC Sg Lc Sh.
  pose proof (level1_adjoint Op Rth cancel2 s L0 L1 h0 h1 HL0 HL1 Hs0 Hs1 x gll
     (nth 0 cot dz) (nth 1 cot dz) (nth 2 cot dz) (nth 3 cot dz) (nth 4 cot dz) (nth 5 cot dz)
     (nth 6 cot dz) (nth 7 cot dz) (nth 8 cot dz) (nth 9 cot dz) (nth 10 cot dz) (nth 11 cot dz)
     HH HHe HW HWe HC Sg
     (Sh 0%nat ltac:(lia)) (Sh 1%nat ltac:(lia)) (Sh 2%nat ltac:(lia)) (Sh 3%nat ltac:(lia)) (Sh 4%nat ltac:(lia)) (Sh 5%nat ltac:(lia))
     (Sh 6%nat ltac:(lia)) (Sh 7%nat ltac:(lia)) (Sh 8%nat ltac:(lia)) (Sh 9%nat ltac:(lia)) (Sh 10%nat ltac:(lia)) (Sh 11%nat ltac:(lia))) as Hadj.
  cbv zeta in Hadj. rewrite <- (list12 cot dz Lc) in Hadj.
  revert Hadj. apply is_ok_imp. intros r. apply is_ok_imp. intros dx (Sd & Hadj). split; [exact Sd|].
  intros n c Hc. rewrite <- (Hadj n c Hc). unfold dot12. cbv zeta.
  rewrite !(pl_nth Op cot) by lia.
  change (Z.to_nat (2*0 + 0)) with 0%nat. change (Z.to_nat (2*0 + 1)) with 1%nat. change (Z.to_nat (2*1 + 0)) with 2%nat. change (Z.to_nat (2*1 + 1)) with 3%nat.
  change (Z.to_nat (2*2 + 0)) with 4%nat. change (Z.to_nat (2*2 + 1)) with 5%nat. change (Z.to_nat (2*3 + 0)) with 6%nat. change (Z.to_nat (2*3 + 1)) with 7%nat.
  change (Z.to_nat (2*4 + 0)) with 8%nat. change (Z.to_nat (2*4 + 1)) with 9%nat. change (Z.to_nat (2*5 + 0)) with 10%nat. change (Z.to_nat (2*5 + 1)) with 11%nat.
  unfold ScatVJP.dz. ring.
Qed.

Lemma j2_adj_list (x gll:ten) (cot:list ten) : 4 <= tH x -> tH x mod 4 = 0 -> 4 <= tW x -> tW x mod 4 = 0 -> 0 < tC x ->
  shaped x (tH x / 2) (tW x / 2) gll -> length cot = 12%nat -> (forall k, (k < 12)%nat -> shaped x (tH x / 4) (tW x / 4) (nth k cot dz)) ->
  is_ok (fwd_j2plus Op s x L h0a h0b L h1a h1b false) (fun r =>
  is_ok (inv_j2plus Op s (Some gll) cot L h0b h0a L h1b h1a) (fun dx =>
    shaped x (tH x) (tW x) dx /\
    forall n c, 0 <= c < tC x -> dot2 (tH x / 2) (tW x / 2) (fst r) gll n c +r dot12 (tH x / 4) (tW x / 4) (snd r) cot n c = dot2 (tH x) (tW x) x dx n c)).
Proof.
  intros HH HHe HW HWe HC Sg Lc Sh.
  pose proof (qshift_level_adjoint Op Rth s cancel2 L H0A H0B H1A H1B HL R0 R1 x gll
     (nth 0 cot dz) (nth 1 cot dz) (nth 2 cot dz) (nth 3 cot dz) (nth 4 cot dz) (nth 5 cot dz)
     (nth 6 cot dz) (nth 7 cot dz) (nth 8 cot dz) (nth 9 cot dz) (nth 10 cot dz) (nth 11 cot dz)
     HH HHe HW HWe HC Sg
     (Sh 0%nat ltac:(lia)) (Sh 1%nat ltac:(lia)) (Sh 2%nat ltac:(lia)) (Sh 3%nat ltac:(lia)) (Sh 4%nat ltac:(lia)) (Sh 5%nat ltac:(lia))
     (Sh 6%nat ltac:(lia)) (Sh 7%nat ltac:(lia)) (Sh 8%nat ltac:(lia)) (Sh 9%nat ltac:(lia)) (Sh 10%nat ltac:(lia)) (Sh 11%nat ltac:(lia))) as Hadj.
  cbv zeta in Hadj. rewrite <- (list12 cot dz Lc) in Hadj.
  revert Hadj. apply is_ok_imp. intros r. apply is_ok_imp. intros dx (D1 & D2 & D3 & D4 & Hadj). split; [unfold shaped; lia|].
  intros n c Hc. rewrite <- (Hadj n c Hc). unfold dot12. cbv zeta.
  rewrite !(pl_nth Op cot) by lia.
  change (Z.to_nat (2*0 + 0)) with 0%nat. change (Z.to_nat (2*0 + 1)) with 1%nat. change (Z.to_nat (2*1 + 0)) with 2%nat. change (Z.to_nat (2*1 + 1)) with 3%nat.
  change (Z.to_nat (2*2 + 0)) with 4%nat. change (Z.to_nat (2*2 + 1)) with 5%nat. change (Z.to_nat (2*3 + 0)) with 6%nat. change (Z.to_nat (2*3 + 1)) with 7%nat.
  change (Z.to_nat (2*4 + 0)) with 8%nat. change (Z.to_nat (2*4 + 1)) with 9%nat. change (Z.to_nat (2*5 + 0)) with 10%nat. change (Z.to_nat (2*5 + 1)) with 11%nat.
  unfold ScatVJP.dz. ring.
Qed.

(* shapes of a q-shift level: lowpass of half the size, twelve planes of a quarter *)
Lemma fwd_j2plus_shapes (x:ten) : 4 <= tH x -> tH x mod 4 = 0 -> 4 <= tW x -> tW x mod 4 = 0 -> 0 < tC x ->
  is_ok (fwd_j2plus Op s x L h0a h0b L h1a h1b false) (fun r =>
    shaped x (tH x / 2) (tW x / 2) (fst r) /\ length (snd r) = 12%nat /\
    forall k d, (k < 12)%nat -> shaped x (tH x / 4) (tW x / 4) (nth k (snd r) d)).
Proof.
  intros HH HHe HW HWe HC. destruct HL as (HLa & HLb). unfold fwd_j2plus.
  pose proof (dfilt_ref_row Op Rth x L H0A H0B false HLa HW HWe ltac:(lia) HC) as Hlo.
  destruct (dfilt Op 3 x L h0b h0a false) as [lo|]; [|contradiction]. cbn [is_ok bind] in *. destruct Hlo as (P1 & P2 & P3 & P4 & _).
  pose proof (dfilt_ref_row Op Rth x L H1A H1B true HLa HW HWe ltac:(lia) HC) as Hhi.
  destruct (dfilt Op 3 x L h1b h1a true) as [hi|]; [|contradiction]. cbn [is_ok bind] in *. destruct Hhi as (Q1 & Q2 & Q3 & Q4 & _).
  pose proof (dfilt_ref_col Op Rth lo L H0A H0B false HLa ltac:(lia) ltac:(lia) ltac:(lia) ltac:(lia)) as Hll.
  destruct (dfilt Op 2 lo L h0b h0a false) as [ll|]; [|contradiction]. cbn [is_ok bind] in *. destruct Hll as (A1 & A2 & A3 & A4 & _).
  pose proof (dfilt_ref_col Op Rth lo L H1A H1B true HLa ltac:(lia) ltac:(lia) ltac:(lia) ltac:(lia)) as Hlh.
  destruct (dfilt Op 2 lo L h1b h1a true) as [lh|]; [|contradiction]. cbn [is_ok bind] in *. destruct Hlh as (B1 & B2 & B3 & B4 & _).
  pose proof (dfilt_ref_col Op Rth hi L H0A H0B false HLa ltac:(lia) ltac:(lia) ltac:(lia) ltac:(lia)) as Hhl.
  destruct (dfilt Op 2 hi L h0b h0a false) as [hl|]; [|contradiction]. cbn [is_ok bind] in *. destruct Hhl as (C1 & C2 & C3 & C4 & _).
  pose proof (dfilt_ref_col Op Rth hi L H1A H1B true HLa ltac:(lia) ltac:(lia) ltac:(lia) ltac:(lia)) as Hhh.
  destruct (dfilt Op 2 hi L h1b h1a true) as [hh|]; [|contradiction]. cbn [is_ok bind fst snd] in *. destruct Hhh as (D1 & D2 & D3 & D4 & _).
  assert (Hq: forall y:ten, tN y = tN x -> tC y = tC x -> tH y = tH x / 2 -> tW y = tW x / 2 ->
     let '((z1r, z1i), (z2r, z2i)) := q2c Op s y in
     shaped x (tH x / 4) (tW x / 4) z1r /\ shaped x (tH x / 4) (tW x / 4) z1i /\ shaped x (tH x / 4) (tW x / 4) z2r /\ shaped x (tH x / 4) (tW x / 4) z2i).
  { intros y Y1 Y2 Y3 Y4. unfold q2c, shaped. cbv zeta. cbn [force t_sub t_add poly t_scale tN tC tH tW]. unfold range_len.
    replace (tH y <=? 0) with false by lia. replace (tW y <=? 0) with false by lia. replace (tH y <=? 1) with false by lia. replace (tW y <=? 1) with false by lia.
    repeat split; lia. }
  pose proof (Hq lh ltac:(lia) ltac:(lia) ltac:(lia) ltac:(lia)) as Qlh. pose proof (Hq hl ltac:(lia) ltac:(lia) ltac:(lia) ltac:(lia)) as Qhl.
  pose proof (Hq hh ltac:(lia) ltac:(lia) ltac:(lia) ltac:(lia)) as Qhh.
  unfold highs_to_orientations.
  destruct (q2c Op s lh) as ((d15r, d15i), (d165r, d165i)). destruct (q2c Op s hh) as ((d45r, d45i), (d135r, d135i)). destruct (q2c Op s hl) as ((d75r, d75i), (d105r, d105i)).
  destruct Qlh as (E1 & E2 & E3 & E4). destruct Qhl as (F1 & F2 & F3 & F4). destruct Qhh as (G1 & G2 & G3 & G4).
  split; [unfold shaped; lia | split; [reflexivity|]].
  intros k d Hk. do 12 (destruct k as [|k]; [cbn [nth]; assumption|]). lia.
Qed.

Lemma sumZ6 (f:Z->R) : sumZ 0 6 f = f 0 +r f 1 +r f 2 +r f 3 +r f 4 +r f 5.
Proof. unfold Sum.sumZ. change (Z.to_nat (6 - 0)) with 6%nat. cbn [sumf Z.add Pos.add Pos.succ]. ring. Qed.

Lemma shaped_trans (x y:ten) h w (g:ten) : tN y = tN x -> tC y = tC x -> shaped x h w g -> shaped y h w g.
Proof. intros A B (C1 & C2 & C3 & C4). unfold shaped. repeat split; congruence. Qed.

(* the backward pass along given forward values *)
Lemma bwd_unfold (x dZ s0 s0b l3:ten) (p1 p2 p3:list ten) :
  fwd_j1 Op s x L0 h0 L1 h1 false M_SYMM = Ok (s0, p1) ->
  fwd_j2plus Op s s0 L h0a h0b L h1a h1b false = Ok (s0b, p2) ->
  fwd_j1 Op s (force Op (mags Op X b (tC x) p1)) L0 h0 L1 h1 false M_SYMM = Ok (l3, p3) ->
  scat_j2_bwd Op X b false false x dZ L0 h0 L1 h1 L1 h1 L h0a h0b L h1a h1b L h1a h1b M_SYMM
  = bind (inv_j1 Op s (Some (force Op (up2q Op X (force Op (t_chmap (6 * tC x) (fun c => tC x + c) dZ)))))
            (cot_planes Op false (6 * tC x) (force Op (t_chmap (6 * (6 * tC x)) (fun c => tC x + 2 * (6 * tC x) + c) dZ)) (phases Op X b false (6 * tC x) p3)) L0 h0 L1 h1 M_SYMM) (fun d1 =>
    bind (inv_j2plus Op s (Some (force Op (up2q Op X (force Op (t_chmap (tC x) (fun c => c) dZ)))))
            (cot_planes Op false (tC x) (force Op (t_chmap (6 * tC x) (fun c => tC x + 6 * tC x + c) dZ)) (phases Op X b false (tC x) p2)) L h0b h0a L h1b h1a) (fun d0 =>
    inv_j1 Op s (Some d0) (cot_planes Op false (tC x) d1 (phases Op X b false (tC x) p1)) L0 h0 L1 h1 M_SYMM)).
Proof.
  intros E1 E2 E3. unfold scat_j2_bwd, fwd1, fwd2, inv1, inv2.
  rewrite E1. cbn [bind]. rewrite E2. cbn [bind]. rewrite E3. cbn [bind]. reflexivity.
Qed.

(* ---- the second-order layer ---- *)
(* stage A: the three level adjoints chained, for arbitrary tensors of the right shapes *)
Lemma chain3 (h s0' s0b' s1' l3' gll3 gll2:ten) (p1' p2' p3' cot3 cot2 ph1:list ten) (C:Z) :
  2 <= tH h -> tH h mod 2 = 0 -> 2 <= tW h -> tW h mod 2 = 0 -> 0 < tC h ->
  4 <= tH s0' -> tH s0' mod 4 = 0 -> 4 <= tW s0' -> tW s0' mod 4 = 0 -> 0 < tC s0' ->
  2 <= tH s1' -> tH s1' mod 2 = 0 -> 2 <= tW s1' -> tW s1' mod 2 = 0 -> 0 < tC s1' ->
  fwd_j1 Op s h L0 h0 L1 h1 false M_SYMM = Ok (s0', p1') ->
  fwd_j2plus Op s s0' L h0a h0b L h1a h1b false = Ok (s0b', p2') ->
  fwd_j1 Op s s1' L0 h0 L1 h1 false M_SYMM = Ok (l3', p3') ->
  shaped s1' (tH s1') (tW s1') gll3 -> length cot3 = 12%nat -> (forall k, (k < 12)%nat -> shaped s1' (tH s1' / 2) (tW s1' / 2) (nth k cot3 dz)) ->
  shaped s0' (tH s0' / 2) (tW s0' / 2) gll2 -> length cot2 = 12%nat -> (forall k, (k < 12)%nat -> shaped s0' (tH s0' / 4) (tW s0' / 4) (nth k cot2 dz)) ->
  tN s0' = tN h -> tC s0' = tC h -> tH s0' = tH h -> tW s0' = tW h ->
  (forall d1 k, (k < 12)%nat -> shaped h (tH h / 2) (tW h / 2) (nth k (cot_planes Op false C d1 ph1) dz)) ->
  is_ok (bind (inv_j1 Op s (Some gll3) cot3 L0 h0 L1 h1 M_SYMM) (fun d1 =>
         bind (inv_j2plus Op s (Some gll2) cot2 L h0b h0a L h1b h1a) (fun d0 =>
         inv_j1 Op s (Some d0) (cot_planes Op false C d1 ph1) L0 h0 L1 h1 M_SYMM))) (fun dx =>
    shaped h (tH h) (tW h) dx /\ exists d1 d0,
      (forall n c, 0 <= c < tC h -> dot2 (tH h) (tW h) s0' d0 n c +r dot12 (tH h / 2) (tW h / 2) p1' (cot_planes Op false C d1 ph1) n c = dot2 (tH h) (tW h) h dx n c) /\
      (forall n c, 0 <= c < tC s0' -> dot2 (tH s0' / 2) (tW s0' / 2) s0b' gll2 n c +r dot12 (tH s0' / 4) (tW s0' / 4) p2' cot2 n c = dot2 (tH s0') (tW s0') s0' d0 n c) /\
      (forall n q, 0 <= q < tC s1' -> dot2 (tH s1') (tW s1') l3' gll3 n q +r dot12 (tH s1' / 2) (tW s1' / 2) p3' cot3 n q = dot2 (tH s1') (tW s1') s1' d1 n q)).
Proof.
  intros A1 A2 A3 A4 A5 B1 B2 B3 B4 B5 C1 C2 C3 C4 C5 E4 E5 E6 Sg3 L3 Hc3 Sg2 L2 Hc2 T1 T2 T3 T4 Hc1.
  pose proof (j1_adj_list s1' gll3 cot3 C1 C2 C3 C4 C5 Sg3 L3 Hc3) as K3. rewrite E6 in K3. cbn [is_ok fst snd] in K3.
  apply (is_ok_bind _ _ _ _ K3). intros d1 (Sd1 & I3).
  pose proof (j2_adj_list s0' gll2 cot2 B1 B2 B3 B4 B5 Sg2 L2 Hc2) as K2. rewrite E5 in K2. cbn [is_ok fst snd] in K2.
  apply (is_ok_bind _ _ _ _ K2). intros d0 (Sd0 & I2).
  assert (Sg1: shaped h (tH h) (tW h) d0) by (destruct Sd0 as (u1 & u2 & u3 & u4); unfold shaped; repeat split; lia).
  pose proof (j1_adj_list h d0 (cot_planes Op false C d1 ph1) A1 A2 A3 A4 A5 Sg1 (cot_len_gen Op false C d1 ph1) (Hc1 d1)) as K1.
  rewrite E4 in K1. cbn [is_ok fst snd] in K1.
  revert K1. apply is_ok_imp. intros dx (Sdx & I1). split; [exact Sdx|]. exists d1, d0. split; [exact I1 | split; [exact I2 | exact I3]].
Qed.

(* stage B: the algebra that turns the three identities into the statement about the outputs of the layer *)
Lemma assemble (h s0' s0b' l3' ds0 ds1_j1 d0 d1 dx:ten) (p1' p2' p3' cot2 cot3 ph1:list ten) (C H4 W4 n c:Z) :
  0 < C -> 0 <= c < C -> 0 <= H4 -> 0 <= W4 ->
  dot2 (4*H4) (4*W4) s0' d0 n c +r dot12 (2*H4) (2*W4) p1' (cot_planes Op false C d1 ph1) n c = dot2 (4*H4) (4*W4) h dx n c ->
  dot2 (2*H4) (2*W4) s0b' (force Op (up2q Op X ds0)) n c +r dot12 H4 W4 p2' cot2 n c = dot2 (4*H4) (4*W4) s0' d0 n c ->
  (forall q, 0 <= q < 6 * C -> dot2 (2*H4) (2*W4) l3' (force Op (up2q Op X ds1_j1)) n q +r dot12 H4 W4 p3' cot3 n q = dot2 (2*H4) (2*W4) (linmag C ph1 p1') d1 n q) ->
  dot2 H4 W4 (avgpool2 Op X s0b') ds0 n c +r dot12 H4 W4 p2' cot2 n c
  +r sumZ 0 6 (fun o => dot2 H4 W4 (avgpool2 Op X l3') ds1_j1 n (o*C + c) +r dot12 H4 W4 p3' cot3 n (o*C + c))
  = dot2 (4*H4) (4*W4) h dx n c.
Proof.
  intros HC Hc HH HW I1 I2 I3. rewrite <- I1, <- I2.
  rewrite (move_phase12 C ph1 p1' d1 (2*H4) (2*W4) n c HC Hc).
  rewrite <- (I3 (0*C + c) ltac:(nia)), <- (I3 (1*C + c) ltac:(nia)), <- (I3 (2*C + c) ltac:(nia)),
          <- (I3 (3*C + c) ltac:(nia)), <- (I3 (4*C + c) ltac:(nia)), <- (I3 (5*C + c) ltac:(nia)).
  rewrite sumZ6.
  assert (P: forall (A G:ten) q, dot2 (2*H4) (2*W4) A (force Op (up2q Op X G)) n q = dot2 H4 W4 (avgpool2 Op X A) G n q).
  { intros A G q. rewrite (avgpool_dot2 Op Rth X A G n q H4 W4 HH HW). apply dot2_ext. intros i j Hi Hj. split; [reflexivity | apply force_eq]. }
  rewrite !P. ring.
Qed.

Theorem scat_j2_vjp (x h dZ s0 s0b l3 s0' s0b' l3':ten) (p1 p2 p3 p1' p2' p3':list ten) :
  8 <= tH x -> tH x mod 8 = 0 -> 8 <= tW x -> tW x mod 8 = 0 -> 0 < tC x ->
  tN h = tN x -> tC h = tC x -> tH h = tH x -> tW h = tW x ->
  tN dZ = tN x -> tC dZ = 49 * tC x -> tH dZ = tH x / 4 -> tW dZ = tW x / 4 ->
  fwd_j1 Op s x L0 h0 L1 h1 false M_SYMM = Ok (s0, p1) ->
  fwd_j2plus Op s s0 L h0a h0b L h1a h1b false = Ok (s0b, p2) ->
  fwd_j1 Op s (force Op (mags Op X b (tC x) p1)) L0 h0 L1 h1 false M_SYMM = Ok (l3, p3) ->
  fwd_j1 Op s h L0 h0 L1 h1 false M_SYMM = Ok (s0', p1') ->
  fwd_j2plus Op s s0' L h0a h0b L h1a h1b false = Ok (s0b', p2') ->
  fwd_j1 Op s (linmag (tC x) (phases Op X b false (tC x) p1) p1') L0 h0 L1 h1 false M_SYMM = Ok (l3', p3') ->
  let C := tC x in let H4 := tH x / 4 in let W4 := tW x / 4 in
  let ds0 := force Op (t_chmap C (fun c => c) dZ) in
  let ds1_j1 := force Op (t_chmap (6 * C) (fun c => C + c) dZ) in
  let ds1_j2 := force Op (t_chmap (6 * C) (fun c => C + 6 * C + c) dZ) in
  let ds2_j1 := force Op (t_chmap (6 * (6 * C)) (fun c => C + 2 * (6 * C) + c) dZ) in
  let cot2 := cot_planes Op false C ds1_j2 (phases Op X b false C p2) in
  let cot3 := cot_planes Op false (6 * C) ds2_j1 (phases Op X b false (6 * C) p3) in
  is_ok (scat_j2_bwd Op X b false false x dZ L0 h0 L1 h1 L1 h1 L h0a h0b L h1a h1b L h1a h1b M_SYMM) (fun dx =>
    shaped x (tH x) (tW x) dx /\
    forall n c, 0 <= c < C ->
      dot2 H4 W4 (avgpool2 Op X s0b') ds0 n c +r dot12 H4 W4 p2' cot2 n c
      +r sumZ 0 6 (fun o => dot2 H4 W4 (avgpool2 Op X l3') ds1_j1 n (o*C + c) +r dot12 H4 W4 p3' cot3 n (o*C + c))
      = dot2 (tH x) (tW x) h dx n c).
Proof.
  intros HH HH8 HW HW8 HC N1 N2 N3 N4 Z1 Z2 Z3 Z4 E1 E2 E3 E4 E5 E6 C H4 W4 ds0 ds1_j1 ds1_j2 ds2_j1 cot2 cot3.
  rewrite (bwd_unfold x dZ s0 s0b l3 p1 p2 p3 E1 E2 E3).
  (* shapes of everything computed in the forward passes *)
  pose proof (is_ok_eq _ _ _ E1 (fwd_j1_shapes Op Rth X L0 L1 h0 h1 HL0 HL1 x ltac:(lia) ltac:(lia) ltac:(lia) ltac:(lia) HC)) as (Ss0 & Lp1 & Sp1). cbn [fst snd] in Ss0, Lp1, Sp1.
  destruct Ss0 as (a1 & a2 & a3 & a4).
  pose proof (is_ok_eq _ _ _ E2 (fwd_j2plus_shapes s0 ltac:(lia) ltac:(lia) ltac:(lia) ltac:(lia) ltac:(lia))) as (Ss0b & Lp2 & Sp2). cbn [fst snd] in Ss0b, Lp2, Sp2.
  set (s1 := force Op (mags Op X b (tC x) p1)) in *.
  set (ph1 := phases Op X b false (tC x) p1) in *.
  set (s1' := linmag (tC x) ph1 p1') in *.
  assert (Ss1: tN s1 = tN x /\ tC s1 = 6 * C /\ tH s1 = tH x / 2 /\ tW s1 = tW x / 2).
  { destruct (Sp1 0%nat dz ltac:(lia)) as (q1 & q2 & q3 & q4). unfold s1, mags. cbn [force tN tC tH tW]. unfold pl. change (Z.to_nat (2*0+0)) with 0%nat. fold C. repeat split; lia. }
  destruct Ss1 as (b1 & b2 & b3 & b4).
  pose proof (is_ok_eq _ _ _ E3 (fwd_j1_shapes Op Rth X L0 L1 h0 h1 HL0 HL1 s1 ltac:(lia) ltac:(lia) ltac:(lia) ltac:(lia) ltac:(lia))) as (Sl3 & Lp3 & Sp3). cbn [fst snd] in Sl3, Lp3, Sp3.
  pose proof (is_ok_eq _ _ _ E4 (fwd_j1_shapes Op Rth X L0 L1 h0 h1 HL0 HL1 h ltac:(lia) ltac:(lia) ltac:(lia) ltac:(lia) ltac:(lia))) as (Ss0' & Lp1' & Sp1'). cbn [fst snd] in Ss0', Lp1', Sp1'.
  destruct Ss0' as (c1 & c2 & c3 & c4).
  assert (Ss1': tN s1' = tN x /\ tC s1' = 6 * C /\ tH s1' = tH x / 2 /\ tW s1' = tW x / 2).
  { destruct (Sp1' 0%nat dz ltac:(lia)) as (q1 & q2 & q3 & q4). unfold s1', linmag. cbn [tN tC tH tW]. unfold pl. change (Z.to_nat (2*0+0)) with 0%nat. fold C. repeat split; lia. }
  destruct Ss1' as (d1' & d2' & d3' & d4').
  assert (Hc3: forall k, (k < 12)%nat -> shaped s1' (tH s1' / 2) (tW s1' / 2) (nth k cot3 dz)).
  { intros k Hk.
    assert (Ek: exists o ri, 0 <= o < 6 /\ 0 <= ri < 2 /\ k = Z.to_nat (2*o + ri)) by (exists (Z.of_nat k / 2), (Z.of_nat k mod 2); repeat split; lia).
    destruct Ek as (o & ri & Ho & Hri & ->). rewrite <- (pl_nth Op _ o ri Ho Hri).
    destruct (cot_shape Op false (6*C) ds2_j1 (phases Op X b false (6*C) p3) o ri Ho Hri) as (e1 & e2 & e3 & e4).
    destruct (phases_shape Op X b false (6*C) p3 o 0 Ho ltac:(lia)) as (f1 & f2 & f3 & f4).
    destruct (Sp3 (Z.to_nat (2*o+0)) (ScatVJP.dz Op) ltac:(lia)) as (g1 & g2 & g3 & g4). rewrite <- (pl_nth Op p3 o 0 Ho ltac:(lia)) in g1, g2, g3, g4.
    unfold shaped. fold cot3 in e1, e2, e3, e4. rewrite e1, e2, e3, e4, f1, f2, f3, f4, g1, g2, g3, g4. repeat split; lia. }
  assert (Sg3: shaped s1' (tH s1') (tW s1') (force Op (up2q Op X ds1_j1))).
  { unfold shaped, up2q, ds1_j1, t_chmap. cbn [force tN tC tH tW]. repeat split; lia. }
  assert (Hc2: forall k, (k < 12)%nat -> shaped s0' (tH s0' / 4) (tW s0' / 4) (nth k cot2 dz)).
  { intros k Hk.
    assert (Ek: exists o ri, 0 <= o < 6 /\ 0 <= ri < 2 /\ k = Z.to_nat (2*o + ri)) by (exists (Z.of_nat k / 2), (Z.of_nat k mod 2); repeat split; lia).
    destruct Ek as (o & ri & Ho & Hri & ->). rewrite <- (pl_nth Op _ o ri Ho Hri).
    destruct (cot_shape Op false C ds1_j2 (phases Op X b false C p2) o ri Ho Hri) as (e1 & e2 & e3 & e4).
    destruct (phases_shape Op X b false C p2 o 0 Ho ltac:(lia)) as (f1 & f2 & f3 & f4).
    destruct (Sp2 (Z.to_nat (2*o+0)) (ScatVJP.dz Op) ltac:(lia)) as (g1 & g2 & g3 & g4). rewrite <- (pl_nth Op p2 o 0 Ho ltac:(lia)) in g1, g2, g3, g4.
    unfold shaped. fold cot2 in e1, e2, e3, e4. rewrite e1, e2, e3, e4, f1, f2, f3, f4, g1, g2, g3, g4. repeat split; lia. }
  assert (Sg2: shaped s0' (tH s0' / 2) (tW s0' / 2) (force Op (up2q Op X ds0))).
  { unfold shaped, up2q, ds0, t_chmap. cbn [force tN tC tH tW]. repeat split; lia. }
  assert (Hc1: forall d1 k, (k < 12)%nat -> shaped h (tH h / 2) (tW h / 2) (nth k (cot_planes Op false C d1 ph1) dz)).
  { intros d1 k Hk.
    assert (Ek: exists o ri, 0 <= o < 6 /\ 0 <= ri < 2 /\ k = Z.to_nat (2*o + ri)) by (exists (Z.of_nat k / 2), (Z.of_nat k mod 2); repeat split; lia).
    destruct Ek as (o & ri & Ho & Hri & ->). rewrite <- (pl_nth Op _ o ri Ho Hri).
    destruct (cot_shape Op false C d1 ph1 o ri Ho Hri) as (e1 & e2 & e3 & e4).
    destruct (phases_shape Op X b false (tC x) p1 o 0 Ho ltac:(lia)) as (f1 & f2 & f3 & f4).
    destruct (Sp1 (Z.to_nat (2*o+0)) (ScatVJP.dz Op) ltac:(lia)) as (g1 & g2 & g3 & g4). rewrite <- (pl_nth Op p1 o 0 Ho ltac:(lia)) in g1, g2, g3, g4.
    unfold shaped. fold ph1 in f1, f2, f3, f4. rewrite e1, e2, e3, e4, f1, f2, f3, f4, g1, g2, g3, g4. repeat split; lia. }
  pose proof (chain3 h s0' s0b' s1' l3' (force Op (up2q Op X ds1_j1)) (force Op (up2q Op X ds0)) p1' p2' p3' cot3 cot2 ph1 C
     ltac:(lia) ltac:(lia) ltac:(lia) ltac:(lia) ltac:(lia) ltac:(lia) ltac:(lia) ltac:(lia) ltac:(lia) ltac:(lia)
     ltac:(lia) ltac:(lia) ltac:(lia) ltac:(lia) ltac:(lia) E4 E5 E6 Sg3 (cot_len_gen Op false (6*C) ds2_j1 _) Hc3 Sg2 (cot_len_gen Op false C ds1_j2 _) Hc2
     c1 c2 c3 c4 Hc1) as K.
  revert K. apply is_ok_imp. intros dx (Sdx & d1 & d0 & I1 & I2 & I3).
  split. { destruct Sdx as (u1 & u2 & u3 & u4). unfold shaped. repeat split; lia. }
  intros n c Hc.
  specialize (I1 n c ltac:(lia)). specialize (I2 n c ltac:(lia)). specialize (I3 n).
  rewrite N3, N4 in I1. rewrite c3, c4, N3, N4 in I2. rewrite d2', d3', d4' in I3.
  assert (EH: tH x = 4 * H4) by (unfold H4; lia). assert (EW: tW x = 4 * W4) by (unfold W4; lia).
  replace (tH x / 2) with (2 * H4) in I1, I2, I3 by (unfold H4; lia). replace (tW x / 2) with (2 * W4) in I1, I2, I3 by (unfold W4; lia).
  replace (2 * H4 / 2) with H4 in I3 by lia. replace (2 * W4 / 2) with W4 in I3 by lia.
  replace (tH x / 4) with H4 in I2 by reflexivity. replace (tW x / 4) with W4 in I2 by reflexivity.
  rewrite EH, EW in I1, I2 |- *.
  exact (assemble h s0' s0b' l3' ds0 ds1_j1 d0 d1 dx p1' p2' p3' cot2 cot3 ph1 C H4 W4 n c HC Hc ltac:(unfold H4; lia) ltac:(unfold W4; lia) I1 I2 I3).
Qed.

(* the forward equations assumed by scat_j2_vjp always have solutions on images whose sides are multiples of 8 *)
Lemma is_ok_ex {A} (r:res A) (P:A->Prop) : is_ok r P -> exists a, r = Ok a /\ P a.
Proof. destruct r as [a|e]; cbn [is_ok]; [intros H; exists a; split; [reflexivity | exact H] | contradiction]. Qed.

Theorem scat_j2_forward_total (x h:ten) : 8 <= tH x -> tH x mod 8 = 0 -> 8 <= tW x -> tW x mod 8 = 0 -> 0 < tC x ->
  tN h = tN x -> tC h = tC x -> tH h = tH x -> tW h = tW x ->
  exists s0 p1 s0b p2 l3 p3 s0' p1' s0b' p2' l3' p3',
    fwd_j1 Op s x L0 h0 L1 h1 false M_SYMM = Ok (s0, p1) /\
    fwd_j2plus Op s s0 L h0a h0b L h1a h1b false = Ok (s0b, p2) /\
    fwd_j1 Op s (force Op (mags Op X b (tC x) p1)) L0 h0 L1 h1 false M_SYMM = Ok (l3, p3) /\
    fwd_j1 Op s h L0 h0 L1 h1 false M_SYMM = Ok (s0', p1') /\
    fwd_j2plus Op s s0' L h0a h0b L h1a h1b false = Ok (s0b', p2') /\
    fwd_j1 Op s (linmag (tC x) (phases Op X b false (tC x) p1) p1') L0 h0 L1 h1 false M_SYMM = Ok (l3', p3').
Proof.
  intros HH HH8 HW HW8 HC N1 N2 N3 N4.
  destruct (is_ok_ex _ _ (fwd_j1_shapes Op Rth X L0 L1 h0 h1 HL0 HL1 x ltac:(lia) ltac:(lia) ltac:(lia) ltac:(lia) HC)) as ([s0 p1] & E1 & (a1 & a2 & a3 & a4) & Lp1 & Sp1).
  cbn [fst snd] in *.
  destruct (is_ok_ex _ _ (fwd_j2plus_shapes s0 ltac:(lia) ltac:(lia) ltac:(lia) ltac:(lia) ltac:(lia))) as ([s0b p2] & E2 & _).
  set (s1 := force Op (mags Op X b (tC x) p1)).
  assert (Ss1: tN s1 = tN x /\ tC s1 = 6 * tC x /\ tH s1 = tH x / 2 /\ tW s1 = tW x / 2).
  { destruct (Sp1 0%nat dz ltac:(lia)) as (q1 & q2 & q3 & q4). unfold s1, mags. cbn [force tN tC tH tW]. unfold pl. change (Z.to_nat (2*0+0)) with 0%nat. repeat split; lia. }
  destruct Ss1 as (b1 & b2 & b3 & b4).
  destruct (is_ok_ex _ _ (fwd_j1_shapes Op Rth X L0 L1 h0 h1 HL0 HL1 s1 ltac:(lia) ltac:(lia) ltac:(lia) ltac:(lia) ltac:(lia))) as ([l3 p3] & E3 & _).
  destruct (is_ok_ex _ _ (fwd_j1_shapes Op Rth X L0 L1 h0 h1 HL0 HL1 h ltac:(lia) ltac:(lia) ltac:(lia) ltac:(lia) ltac:(lia))) as ([s0' p1'] & E4 & (c1 & c2 & c3 & c4) & Lp1' & Sp1').
  cbn [fst snd] in *.
  destruct (is_ok_ex _ _ (fwd_j2plus_shapes s0' ltac:(lia) ltac:(lia) ltac:(lia) ltac:(lia) ltac:(lia))) as ([s0b' p2'] & E5 & _).
  set (s1' := linmag (tC x) (phases Op X b false (tC x) p1) p1').
  assert (Ss1': tN s1' = tN x /\ tC s1' = 6 * tC x /\ tH s1' = tH x / 2 /\ tW s1' = tW x / 2).
  { destruct (Sp1' 0%nat dz ltac:(lia)) as (q1 & q2 & q3 & q4). unfold s1', linmag. cbn [tN tC tH tW]. unfold pl. change (Z.to_nat (2*0+0)) with 0%nat. repeat split; lia. }
  destruct Ss1' as (d1' & d2' & d3' & d4').
  destruct (is_ok_ex _ _ (fwd_j1_shapes Op Rth X L0 L1 h0 h1 HL0 HL1 s1' ltac:(lia) ltac:(lia) ltac:(lia) ltac:(lia) ltac:(lia))) as ([l3' p3'] & E6 & _).
  exists s0, p1, s0b, p2, l3, p3, s0', p1', s0b', p2', l3', p3'. repeat split; assumption.
Qed.
End S.
