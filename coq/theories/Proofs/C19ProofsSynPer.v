(* C19, periodization synthesis: the non-separable bank (four transposed 2-D convolutions with outer-product kernels, added; fold the
   wrap-around rows, then columns; crop; roll both axes) returns the same reconstruction as the separable sfb2d (column synthesis of
   the band pairs, then row synthesis), for even filter lengths with L - 2 <= the output length on each axis, for ANY four bands. *)
From PW Require Import Base.Ops Base.Sum Base.Sig Base.Tensor Model.Dwt Spec.Line Proofs.ConvLine Proofs.LineTheory Proofs.DwtNF Proofs.SfbNF Proofs.DwtNFcol Proofs.C19ProofsSyn.
Ltac Zify.zify_post_hook ::= Z.to_euclidean_division_equations.

Section S.
Context {R:Type} (Op:Ops R) (Rth: RingOk Op).
Add Ring Rr : Rth.
Notation ten := (@ten R).
Infix "+r" := (radd Op) (at level 50, left associativity).
Infix "*r" := (rmul Op) (at level 40, left associativity).
Notation sumZ := (sumZ Op).
Notation zx := (zx Op).

(* the un-folded ("full") 2-D synthesis, as a row synthesis of column syntheses *)
Definition colfull (x:ten) (Ly:Z) (g0c g1c:Z->R) (bA bB:Z) n c p l : R :=
  syn_full Op Ly (tH x) g0c g1c (fun k => tf x n (4*c + bA) k l) (fun k => tf x n (4*c + bB) k l) p.
Definition T2 (x:ten) Ly g0c g1c Lx g0r g1r n c p q : R :=
  syn_full Op Lx (tW x) g0r g1r (fun l => colfull x Ly g0c g1c 0 1 n c p l) (fun l => colfull x Ly g0c g1c 2 3 n c p l) q.

Lemma syn_full_add L n g0 g1 (lo1 hi1 lo2 hi2:Z->R) m :
  syn_full Op L n g0 g1 (fun k => lo1 k +r lo2 k) (fun k => hi1 k +r hi2 k) m = syn_full Op L n g0 g1 lo1 hi1 m +r syn_full Op L n g0 g1 lo2 hi2 m.
Proof. unfold syn_full. rewrite <- sumZ_add by exact Rth. apply sumZ_ext. intros; ring. Qed.

Theorem nonsep_syn_per_eq (x:ten) Ly g0c g1c Lx g0r g1r :
  2 <= Ly -> Ly mod 2 = 0 -> 2 <= Lx -> Lx mod 2 = 0 -> 1 <= tH x -> 1 <= tW x -> 0 < tC x -> tC x mod 4 = 0 ->
  Ly - 2 <= 2 * tH x -> Lx - 2 <= 2 * tW x ->
  is_ok (sfb2d_nonsep Op x Ly g0c g1c Lx g0r g1r M_PER) (fun y1 =>
  is_ok (sfb2d Op (band4 0 x) (band4 1 x) (band4 2 x) (band4 3 x) Lx g0r g1r Ly g0c g1c M_PER) (fun y2 =>
    tN y2 = tN y1 /\ tC y2 = tC y1 /\ tH y1 = 2 * tH x /\ tH y2 = 2 * tH x /\ tW y1 = 2 * tW x /\ tW y2 = 2 * tW x /\
    forall n c i j, 0 <= c < tC x / 4 -> 0 <= i < 2 * tH x -> 0 <= j < 2 * tW x -> tf y1 n c i j = tf y2 n c i j)).
Proof.
  intros HLy HLye HLx HLxe HH HW HC HC4 HgY HgX.
  set (Ny := tH x) in *. set (Nx := tW x) in *.
  set (C := tC x / 4). assert (HCp: 0 < C) by (unfold C; lia).
  assert (Hb: forall b, tN (band4 b x) = tN x /\ tC (band4 b x) = C /\ tH (band4 b x) = Ny /\ tW (band4 b x) = Nx /\
                        forall n c k l, tf (band4 b x) n c k l = tf x n (4*c + b) k l).
  { intros b. unfold band4, t_chmap. cbn [tN tC tH tW tf]. repeat split. }
  (* ---- separable side ---- *)
  unfold sfb2d.
  assert (Hss: forall a b, same_shape (band4 a x) (band4 b x) = true).
  { intros a b. destruct (Hb a) as (A1 & A2 & A3 & A4 & _). destruct (Hb b) as (B1 & B2 & B3 & B4 & _). unfold same_shape. rewrite A1, A2, A3, A4, B1, B2, B3, B4, !Z.eqb_refl. reflexivity. }
  destruct (Hb 0) as (Z1 & Z2 & Z3 & Z4 & Z5). destruct (Hb 1) as (_ & _ & O3 & O4 & O5). destruct (Hb 2) as (T1 & T2' & T3 & T4 & T5). destruct (Hb 3) as (_ & _ & Q3 & Q4 & Q5).
  pose proof (sfb1d_per_col Op Rth (band4 0 x) (band4 1 x) Ly g0c g1c (Hss 0 1) HLy HLye ltac:(lia) ltac:(lia) ltac:(lia)) as Hlo.
  destruct (sfb1d Op (band4 0 x) (band4 1 x) Ly g0c g1c M_PER 2) as [lo|]; [|contradiction]. cbn [is_ok bind] in Hlo |- *.
  destruct Hlo as (A1 & A2 & A3 & A4 & A5). rewrite Z3 in A3, A5. rewrite Z4 in A4, A5.
  pose proof (sfb1d_per_col Op Rth (band4 2 x) (band4 3 x) Ly g0c g1c (Hss 2 3) HLy HLye ltac:(lia) ltac:(lia) ltac:(lia)) as Hhi.
  destruct (sfb1d Op (band4 2 x) (band4 3 x) Ly g0c g1c M_PER 2) as [hi|]; [|contradiction]. cbn [is_ok bind] in Hhi |- *.
  destruct Hhi as (B1 & B2 & B3 & B4 & B5). rewrite T3 in B3, B5. rewrite T4 in B4, B5.
  assert (Hs3: same_shape lo hi = true) by (unfold same_shape; rewrite A1, A2, A3, A4, B1, B2, B3, B4, Z1, Z2, T1, T2', !Z.eqb_refl; reflexivity).
  pose proof (sfb1d_per_row Op Rth lo hi Lx g0r g1r Hs3 HLx HLxe ltac:(lia) ltac:(lia) ltac:(lia)) as Hy.
  destruct (sfb1d Op lo hi Lx g0r g1r M_PER 3) as [y2|]; [|contradiction]. cbn [is_ok] in Hy.
  destruct Hy as (D1 & D2 & D3 & D4 & D5). rewrite A3 in D3, D5. rewrite A4 in D4, D5.
  (* ---- non-separable side ---- *)
  unfold sfb2d_nonsep. change (M_PER =? M_PER) with true. cbv iota. fold C. fold Ny Nx.
  assert (Hterm: forall b, convT2d_r Op (band4 b x) (w_sfb_nonsep_band Op b C Ly Lx g0c g1c g0r g1r) 2 2 0 0
                 = Ok (convT2d_dw Op (band4 b x) (w_sfb_nonsep_band Op b C Ly Lx g0c g1c g0r g1r) 2 2 0 0)).
  { intros b. destruct (Hb b) as (E1 & E2 & E3 & E4 & _). unfold convT2d_r, w_sfb_nonsep_band. cbn [wKH wKW]. rewrite E3, E4.
    replace (_ && _ && _ && _) with true by lia. reflexivity. }
  rewrite !Hterm. cbn [bind].
  set (ll := force Op (t_add Op (t_add Op _ _) (t_add Op _ _))).
  assert (LLs: tN ll = tN x /\ tC ll = C /\ tH ll = 2 * Ny + Ly - 2 /\ tW ll = 2 * Nx + Lx - 2).
  { unfold ll. cbn [force t_add convT2d_dw tN tC tH tW]. unfold w_sfb_nonsep_band at 1 2. cbn [wKH wKW]. rewrite Z1, Z2, Z3, Z4. repeat split; lia. }
  destruct LLs as (LL1 & LL2 & LL3 & LL4).
  assert (LLv: forall n c p q, tf ll n c p q = T2 x Ly g0c g1c Lx g0r g1r n c p q).
  { intros n c p q. unfold ll. rewrite force_eq. cbn [t_add convT2d_dw tf]. unfold w_sfb_nonsep_band. cbn [wf wKH wKW].
    rewrite Z3, Z4, T3, T4, O3, O4, Q3, Q4.
    unfold T2, syn_full. fold Nx Ny.
    rewrite <- !sumZ_add by exact Rth. rewrite sum4_merge by exact Rth.
    apply sumZ_ext. intros l Hl. unfold colfull, syn_full. fold Ny.
    rewrite <- !(sumZ_scale_r Op Rth). rewrite <- !sumZ_add by exact Rth. apply sumZ_ext. intros k Hk.
    rewrite Z5, O5, T5, Q5.
    change (csel g0c g1c 0) with g0c. change (csel g0c g1c 1) with g1c. change (csel g0c g1c 2) with g0c. change (csel g0c g1c 3) with g1c.
    change (rsel g0r g1r 0) with g0r. change (rsel g0r g1r 1) with g0r. change (rsel g0r g1r 2) with g1r. change (rsel g0r g1r 3) with g1r.
    unfold Sum.zx.
    replace (p + 0 - k * 2) with (p - 2*k) by lia. replace (q + 0 - l * 2) with (q - 2*l) by lia.
    destruct (inr Ly (p - 2*k)); destruct (inr Lx (q - 2*l)); cbn [andb]; ring. }
  (* fold rows *)
  unfold fold_add, dlen. change (2 =? 2) with true. cbv iota. rewrite LL3. unfold pyclip.
  replace (Ly - 2 <? 0) with false by lia. replace (2 * Ny + (Ly - 2) <? 0) with false by lia. replace (2 * Ny <? 0) with false by lia.
  replace (Z.min (2 * Ny + Ly - 2) (Ly - 2)) with (Ly - 2) by lia.
  replace (Z.min (2 * Ny + Ly - 2) (2 * Ny + (Ly - 2))) with (2 * Ny + (Ly - 2)) by lia.
  replace (Z.min (2 * Ny + Ly - 2) (2 * Ny)) with (2 * Ny) by lia.
  replace (Ly - 2 =? 2 * Ny + (Ly - 2) - 2 * Ny) with true by lia.
  cbn [bind].
  match goal with |- context [force Op (mkT ?a1 ?a2 ?a3 ?a4 ?a5)] => set (l1 := force Op (mkT a1 a2 a3 a4 a5)) end.
  assert (L1s: tN l1 = tN x /\ tC l1 = C /\ tH l1 = 2 * Ny + Ly - 2 /\ tW l1 = 2 * Nx + Lx - 2) by (unfold l1; cbn [force tN tC tH tW]; repeat split; lia).
  destruct L1s as (L11 & L12 & L13 & L14).
  assert (L1v: forall n c p q, tf l1 n c p q = if p <? Ly - 2 then tf ll n c p q +r tf ll n c (2 * Ny + p) q else tf ll n c p q)
    by (intros; unfold l1; rewrite force_eq; reflexivity).
  (* fold columns *)
  change (3 =? 2) with false. cbv iota. rewrite L14.
  replace (Lx - 2 <? 0) with false by lia. replace (2 * Nx + (Lx - 2) <? 0) with false by lia. replace (2 * Nx <? 0) with false by lia.
  replace (Z.min (2 * Nx + Lx - 2) (Lx - 2)) with (Lx - 2) by lia.
  replace (Z.min (2 * Nx + Lx - 2) (2 * Nx + (Lx - 2))) with (2 * Nx + (Lx - 2)) by lia.
  replace (Z.min (2 * Nx + Lx - 2) (2 * Nx)) with (2 * Nx) by lia.
  replace (Lx - 2 =? 2 * Nx + (Lx - 2) - 2 * Nx) with true by lia.
  cbn [bind].
  (* crop *)
  match goal with |- context [force Op (t_pyslice 3 0 (2 * Nx) (t_pyslice 2 0 (2 * Ny) ?t))] => set (l2 := t) end.
  set (l3 := force Op (t_pyslice 3 0 (2 * Nx) (t_pyslice 2 0 (2 * Ny) l2))).
  assert (L3s: tN l3 = tN x /\ tC l3 = C /\ tH l3 = 2 * Ny /\ tW l3 = 2 * Nx).
  { unfold l3, l2, t_pyslice, t_slice, t_gather, dlen. change (2 =? 2) with true. change (3 =? 2) with false. cbv iota. cbn [force tN tC tH tW].
    rewrite ?L13, ?L14, ?LL3, ?LL4. unfold pyclip. replace (0 <? 0) with false by lia. replace (2 * Ny <? 0) with false by lia. replace (2 * Nx <? 0) with false by lia.
    unfold range_len.
    replace (Z.min (2 * Ny + Ly - 2) 0) with 0 by lia. replace (Z.min (2 * Ny + Ly - 2) (2 * Ny)) with (2 * Ny) by lia.
    replace (Z.min (2 * Nx + Lx - 2) 0) with 0 by lia. replace (Z.min (2 * Nx + Lx - 2) (2 * Nx)) with (2 * Nx) by lia.
    replace (2 * Ny <=? 0) with false by lia. replace (2 * Nx <=? 0) with false by lia. repeat split; lia. }
  destruct L3s as (L31 & L32 & L33 & L34).
  assert (L3v: forall n c p q, 0 <= p < 2 * Ny -> 0 <= q < 2 * Nx ->
     tf l3 n c p q = if q <? Lx - 2 then tf l1 n c p q +r tf l1 n c p (2 * Nx + q) else tf l1 n c p q).
  { intros n c p q Hp Hq. unfold l3. rewrite force_eq. unfold l2, t_pyslice, t_slice, t_gather, dlen. change (2 =? 2) with true. change (3 =? 2) with false. cbv iota. cbn [tN tC tH tW tf].
    rewrite ?L13, ?L14, ?LL3, ?LL4. unfold pyclip. replace (0 <? 0) with false by lia.
    replace (Z.min (2 * Ny + Ly - 2) 0) with 0 by lia. replace (Z.min (2 * Nx + Lx - 2) 0) with 0 by lia.
    replace (0 + 1 * p) with p by lia. replace (0 + 1 * q) with q by lia. reflexivity. }
  (* the two rolls *)
  replace (1 - Ly/2) with (- (Ly/2 - 1)) by lia. replace (1 - Lx/2) with (- (Lx/2 - 1)) by lia.
  pose proof (roll_col_any l3 (Ly/2 - 1)) as Hr. rewrite L33 in Hr. specialize (Hr ltac:(lia)). cbv zeta in Hr.
  destruct Hr as (R1 & R2 & R3 & R4 & R5).
  set (l4 := force Op (roll l3 (- (Ly/2 - 1)) 2)) in *.
  pose proof (roll_row_any l4 (Lx/2 - 1)) as Hr'. assert (L4w: tW l4 = 2 * Nx) by (unfold l4; cbn [force tW]; lia).
  rewrite L4w in Hr'. specialize (Hr' ltac:(lia)). cbv zeta in Hr'. destruct Hr' as (S1 & S2 & S3 & S4 & S5).
  cbn [is_ok]. cbn [force tN tC tH tW].
  assert (L4s: tN l4 = tN x /\ tC l4 = C /\ tH l4 = 2 * Ny) by (unfold l4; cbn [force tN tC tH]; lia).
  destruct L4s as (L41 & L42 & L43).
  repeat apply conj; try lia.
  intros n c i j Hc Hi Hj. rewrite force_eq. rewrite S5 by lia. unfold l4. rewrite force_eq. rewrite R5 by lia.
  set (mi := (i + (Ly/2 - 1)) mod (2 * Ny)). set (mj := (j + (Lx/2 - 1)) mod (2 * Nx)).
  assert (Hmi: 0 <= mi < 2 * Ny) by (apply Z.mod_pos_bound; lia). assert (Hmj: 0 <= mj < 2 * Nx) by (apply Z.mod_pos_bound; lia).
  rewrite L3v by lia. rewrite !L1v. rewrite !LLv.
  (* separable closed form *)
  rewrite D5 by lia. unfold syn_per_code. cbv zeta. fold Nx. fold mj.
  assert (SF: forall q, syn_full Op Lx Nx g0r g1r (fun k => tf lo n c i k) (fun k => tf hi n c i k) q
            = if mi <? Ly - 2 then T2 x Ly g0c g1c Lx g0r g1r n c mi q +r T2 x Ly g0c g1c Lx g0r g1r n c (2 * Ny + mi) q
              else T2 x Ly g0c g1c Lx g0r g1r n c mi q).
  { intros q.
    assert (Hlo: forall l, 0 <= l < Nx -> tf lo n c i l = if mi <? Ly - 2 then colfull x Ly g0c g1c 0 1 n c mi l +r colfull x Ly g0c g1c 0 1 n c (2 * Ny + mi) l else colfull x Ly g0c g1c 0 1 n c mi l).
    { intros l Hl. rewrite A5 by lia. rewrite <- (syn_per_fold Op Rth) by lia. unfold syn_per_code. cbv zeta. fold mi.
      unfold colfull. fold Ny. destruct (mi <? Ly - 2); rewrite ?Z5, ?O5; f_equal; unfold syn_full; apply sumZ_ext; intros k Hk; rewrite ?Z5, ?O5; reflexivity. }
    assert (Hhi: forall l, 0 <= l < Nx -> tf hi n c i l = if mi <? Ly - 2 then colfull x Ly g0c g1c 2 3 n c mi l +r colfull x Ly g0c g1c 2 3 n c (2 * Ny + mi) l else colfull x Ly g0c g1c 2 3 n c mi l).
    { intros l Hl. rewrite B5 by lia. rewrite <- (syn_per_fold Op Rth) by lia. unfold syn_per_code. cbv zeta. fold mi.
      unfold colfull. fold Ny. destruct (mi <? Ly - 2); f_equal; unfold syn_full; apply sumZ_ext; intros k Hk; rewrite ?T5, ?Q5; reflexivity. }
    destruct (mi <? Ly - 2) eqn:Emi.
    - unfold T2. fold Nx. rewrite <- syn_full_add. unfold syn_full. apply sumZ_ext. intros l Hl. rewrite Hlo, Hhi by lia. reflexivity.
    - unfold T2. fold Nx. unfold syn_full. apply sumZ_ext. intros l Hl. rewrite Hlo, Hhi by lia. reflexivity. }
  rewrite !SF. destruct (mj <? Lx - 2); destruct (mi <? Ly - 2); reflexivity.
Qed.
End S.
