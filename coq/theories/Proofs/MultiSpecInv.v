(* C10, every J: the level loops of DWT1DInverse / DWTInverse return PyWavelets' waverec / waverec2 on ANY pyramid whose
   shapes chain (each running lowpass has the size of the next detail level, or one more row/column which is dropped):
   each level is the one-level synthesis of (running lowpass, that level's detail bands); a level given as None is a level of
   zeros of the running lowpass' own size. *)
From PW Require Import Base.Ops Base.Sum Base.Sig Base.Tensor Model.Dwt Spec.Line Proofs.ConvLine Proofs.DwtNF Proofs.LineTheory
  Proofs.SfbNF Proofs.DwtNFcol Proofs.C10Proofs Proofs.C10Proofs2D Proofs.C02Proofs2D Proofs.Per2D.
Ltac Zify.zify_post_hook ::= Z.to_euclidean_division_equations.

Section S.
Context {R:Type} (Op:Ops R) (Rth: RingOk Op).
Add Ring Rr : Rth.
Notation ten := (@ten R).

Definition level_hi (x0:ten) (h:option ten) : ten :=
  match h with Some t => t | None => t_zeros Op (tN x0) (tC x0) (tH x0) (tW x0) end.
Definition fits1 (x0 x1:ten) : Prop :=
  tN x1 = tN x0 /\ tC x1 = tC x0 /\ tH x1 = tH x0 /\ (tW x0 = tW x1 \/ tW x0 = tW x1 + 1).

(* one level of waverec (line = syn or syn_per; wout = output width as a function of the detail width) *)
Definition invlevel1d (line:Z->(Z->R)->(Z->R)->Z->R) (wout:Z->Z) (x0:ten) (h:option ten) (z:ten) : Prop :=
  let x1 := level_hi x0 h in let n := tW x1 in
  tN z = tN x0 /\ tC z = tC x0 /\ tH z = tH x0 /\ tW z = wout n /\
  forall nn c i m, 0 <= i < tH x0 -> 0 <= m < wout n ->
    tf z nn c i m = line n (fun k => tf x0 nn c i k) (fun k => tf x1 nn c i k) m.
Fixpoint waverec_rel (lev:ten->option ten->ten->Prop) (x0:ten) (hs:list (option ten)) (y:ten) : Prop :=
  match hs with nil => y = x0 | h :: rest => exists z, lev x0 h z /\ waverec_rel lev z rest y end.
(* shapes chain *)
Fixpoint chain1 (ok:Z->Prop) (wout:Z->Z) (x0:ten) (W0:Z) (hs:list (option ten)) : Prop :=
  match hs with nil => True
  | h :: rest => let n := match h with Some t => tW t | None => W0 end in
      match h with Some t => tN t = tN x0 /\ tC t = tC x0 /\ tH t = tH x0 /\ (W0 = n \/ W0 = n + 1) | None => True end /\
      ok n /\ chain1 ok wout x0 (wout n) rest
  end.

Lemma trim_col (x0:ten) n : 1 <= n -> (tW x0 = n \/ tW x0 = n + 1) ->
  let a := if n <? tW x0 then t_pyslice 3 0 (-1) x0 else x0 in
  tN a = tN x0 /\ tC a = tC x0 /\ tH a = tH x0 /\ tW a = n /\ forall nn c i k, tf a nn c i k = tf x0 nn c i k.
Proof.
  intros Hn Hw. cbv zeta. destruct (n <? tW x0) eqn:E.
  - pose proof (slice_last_col x0 ltac:(lia)) as Hs. cbv zeta in Hs. destruct Hs as (S1 & S2 & S3 & S4 & S5).
    repeat apply conj; try lia. exact S5.
  - repeat apply conj; try lia. intros; reflexivity.
Qed.
Lemma trim_row (x0:ten) n : 1 <= n -> (tH x0 = n \/ tH x0 = n + 1) ->
  let a := if n <? tH x0 then t_pyslice 2 0 (-1) x0 else x0 in
  tN a = tN x0 /\ tC a = tC x0 /\ tH a = n /\ tW a = tW x0 /\ forall nn c i k, tf a nn c i k = tf x0 nn c i k.
Proof.
  intros Hn Hw. cbv zeta. destruct (n <? tH x0) eqn:E.
  - pose proof (slice_last_row x0 ltac:(lia)) as Hs. cbv zeta in Hs. destruct Hs as (S1 & S2 & S3 & S4 & S5).
    repeat apply conj; try lia. exact S5.
  - repeat apply conj; try lia. intros; reflexivity.
Qed.

(* ---- 1-D, four non-periodization modes ---- *)
Theorem waverec_1d L g0 g1 mode : nonper_mode mode -> 2 <= L ->
  forall (hs:list (option ten)) (x0:ten), 1 <= tH x0 -> 1 <= tW x0 ->
  chain1 (fun n => 1 <= n /\ 1 <= 2*n - L + 2) (fun n => 2*n - L + 2) x0 (tW x0) hs ->
  is_ok (DWT1DInverse_rev Op x0 hs L g0 g1 mode)
    (waverec_rel (invlevel1d (fun n lo hi m => syn Op L n g0 g1 lo hi m) (fun n => 2*n - L + 2)) x0 hs).
Proof.
  intros Hm HL. induction hs as [|h rest IH]; intros x0 HH HW Hch.
  - cbn [DWT1DInverse_rev is_ok waverec_rel]. reflexivity.
  - cbn [chain1] in Hch. destruct Hch as (Hfit & (Hn1 & Hout) & Hrest).
    cbn [DWT1DInverse_rev]. fold (level_hi x0 h).
    set (x1 := level_hi x0 h). set (n := match h with Some t => tW t | None => tW x0 end) in *.
    assert (Hx1: tN x1 = tN x0 /\ tC x1 = tC x0 /\ tH x1 = tH x0 /\ tW x1 = n /\ (tW x0 = n \/ tW x0 = n + 1)).
    { unfold x1, level_hi, n. destruct h as [t|]; cbn [t_zeros tN tC tH tW]; repeat split; try tauto; try lia. }
    destruct Hx1 as (X1 & X2 & X3 & X4 & X5). rewrite X4.
    pose proof (trim_col x0 n Hn1 X5) as Ht. cbv zeta in Ht.
    set (a := if n <? tW x0 then t_pyslice 3 0 (-1) x0 else x0) in *.
    destruct Ht as (T1 & T2 & T3 & T4 & T5).
    assert (Hss: same_shape a x1 = true) by (unfold same_shape; rewrite T1, T2, T3, T4, X1, X2, X3, X4; rewrite !Z.eqb_refl; reflexivity).
    unfold SFB1D_fwd.
    pose proof (sfb1d_nonper_row Op Rth a x1 L g0 g1 mode Hm Hss HL ltac:(lia) ltac:(lia)) as Hb.
    destruct (sfb1d Op a x1 L g0 g1 mode 3) as [z|]; [|contradiction]. cbn [is_ok bind] in *.
    destruct Hb as (B1 & B2 & B3 & B4 & B5). rewrite T1, T2, T3, T4 in *.
    assert (Hz: 1 <= tH z /\ 1 <= tW z) by lia.
    specialize (IH z ltac:(lia) ltac:(lia)).
    assert (Hch': chain1 (fun n => 1 <= n /\ 1 <= 2*n - L + 2) (fun n => 2*n - L + 2) z (tW z) rest).
    { rewrite B4. clear - Hrest B1 B2 B3. revert Hrest. generalize (2*n - L + 2). induction rest as [|h' r' IHr]; intros w Hr; cbn [chain1] in *; [exact I|].
      destruct Hr as (F & O & Rr). repeat split; try tauto.
      - destruct h' as [t|]; [|exact I]. rewrite B1, B2, B3. exact F.
      - apply IHr. exact Rr. }
    specialize (IH Hch').
    destruct (DWT1DInverse_rev Op z rest L g0 g1 mode) as [y|]; [|contradiction]. cbn [is_ok waverec_rel] in *.
    exists z. split; [|exact IH].
    unfold invlevel1d. fold x1. rewrite X4. repeat apply conj; try lia.
    intros nn c i m Hi Hm'. rewrite B5 by lia. unfold syn. apply sumZ_ext. intros k Hk. rewrite T5. reflexivity.
Qed.

(* ---- 1-D, periodization (guard: filter length - 2 <= output length at every level) ---- *)
Theorem waverec_1d_per L g0 g1 : 2 <= L -> L mod 2 = 0 ->
  forall (hs:list (option ten)) (x0:ten), 1 <= tH x0 -> 1 <= tW x0 ->
  chain1 (fun n => 1 <= n /\ L - 2 <= 2*n) (fun n => 2*n) x0 (tW x0) hs ->
  is_ok (DWT1DInverse_rev Op x0 hs L g0 g1 M_PER)
    (waverec_rel (invlevel1d (fun n lo hi m => syn_per Op L n g0 g1 lo hi m) (fun n => 2*n)) x0 hs).
Proof.
  intros HL HLe. induction hs as [|h rest IH]; intros x0 HH HW Hch.
  - cbn [DWT1DInverse_rev is_ok waverec_rel]. reflexivity.
  - cbn [chain1] in Hch. destruct Hch as (Hfit & (Hn1 & Hout) & Hrest).
    cbn [DWT1DInverse_rev]. fold (level_hi x0 h).
    set (x1 := level_hi x0 h). set (n := match h with Some t => tW t | None => tW x0 end) in *.
    assert (Hx1: tN x1 = tN x0 /\ tC x1 = tC x0 /\ tH x1 = tH x0 /\ tW x1 = n /\ (tW x0 = n \/ tW x0 = n + 1)).
    { unfold x1, level_hi, n. destruct h as [t|]; cbn [t_zeros tN tC tH tW]; repeat split; try tauto; try lia. }
    destruct Hx1 as (X1 & X2 & X3 & X4 & X5). rewrite X4.
    pose proof (trim_col x0 n Hn1 X5) as Ht. cbv zeta in Ht.
    set (a := if n <? tW x0 then t_pyslice 3 0 (-1) x0 else x0) in *.
    destruct Ht as (T1 & T2 & T3 & T4 & T5).
    assert (Hss: same_shape a x1 = true) by (unfold same_shape; rewrite T1, T2, T3, T4, X1, X2, X3, X4; rewrite !Z.eqb_refl; reflexivity).
    unfold SFB1D_fwd.
    pose proof (sfb1d_per_row_circ Op Rth a x1 L g0 g1 Hss HL HLe ltac:(lia) ltac:(lia) ltac:(lia)) as Hb.
    destruct (sfb1d Op a x1 L g0 g1 M_PER 3) as [z|]; [|contradiction]. cbn [is_ok bind] in *.
    destruct Hb as (B1 & B2 & B3 & B4 & B5). rewrite T1, T2, T3, T4 in *.
    specialize (IH z ltac:(lia) ltac:(lia)).
    assert (Hch': chain1 (fun n => 1 <= n /\ L - 2 <= 2*n) (fun n => 2*n) z (tW z) rest).
    { rewrite B4. clear - Hrest B1 B2 B3. revert Hrest. generalize (2*n). induction rest as [|h' r' IHr]; intros w Hr; cbn [chain1] in *; [exact I|].
      destruct Hr as (F & O & Rr). repeat split; try tauto.
      - destruct h' as [t|]; [|exact I]. rewrite B1, B2, B3. exact F.
      - apply IHr. exact Rr. }
    specialize (IH Hch').
    destruct (DWT1DInverse_rev Op z rest L g0 g1 M_PER) as [y|]; [|contradiction]. cbn [is_ok waverec_rel] in *.
    exists z. split; [|exact IH].
    unfold invlevel1d. fold x1. rewrite X4. repeat apply conj; try lia.
    intros nn c i m Hi Hm'. rewrite B5 by lia. unfold syn_per. apply sumZ_ext. intros k Hk. apply sumZ_ext. intros a' Ha'. rewrite T5. reflexivity.
Qed.

(* ---- 2-D ---- *)
Definition level_hi2 (ll:ten) (h:option ten) : ten :=
  match h with Some t => t | None => t_zeros Op (tN ll) (3 * tC ll) (tH ll) (tW ll) end.
Definition invlevel2d (img:Z->Z->(Z->Z->R)->(Z->Z->R)->(Z->Z->R)->(Z->Z->R)->Z->Z->R) (hout wout:Z->Z) (ll:ten) (h:option ten) (z:ten) : Prop :=
  let h1 := level_hi2 ll h in let hh := tH h1 in let ww := tW h1 in
  tN z = tN ll /\ tC z = tC ll /\ tH z = hout hh /\ tW z = wout ww /\
  forall n c i j, 0 <= c < tC ll -> 0 <= i < hout hh -> 0 <= j < wout ww ->
    tf z n c i j = img hh ww (fun p q => tf ll n c p q) (fun p q => tf h1 n (3*c) p q)
                     (fun p q => tf h1 n (3*c+1) p q) (fun p q => tf h1 n (3*c+2) p q) i j.
Fixpoint chain2 (okh okw:Z->Prop) (hout wout:Z->Z) (ll:ten) (H0 W0:Z) (hs:list (option ten)) : Prop :=
  match hs with nil => True
  | h :: rest => let hh := match h with Some t => tH t | None => H0 end in let ww := match h with Some t => tW t | None => W0 end in
      match h with Some t => tN t = tN ll /\ tC t = 3 * tC ll /\ (H0 = hh \/ H0 = hh + 1) /\ (W0 = ww \/ W0 = ww + 1) | None => True end /\
      okh hh /\ okw ww /\ chain2 okh okw hout wout ll (hout hh) (wout ww) rest
  end.
Lemma chain2_shape okh okw hout wout (ll z:ten) H0 W0 hs : tN z = tN ll -> tC z = tC ll ->
  chain2 okh okw hout wout ll H0 W0 hs -> chain2 okh okw hout wout z H0 W0 hs.
Proof.
  intros E1 E2. revert H0 W0. induction hs as [|h r IH]; intros H0 W0 Hc; cbn [chain2] in *; [exact I|].
  destruct Hc as (F & O1 & O2 & Rr). repeat split; try assumption.
  - destruct h as [t|]; [|exact I]. rewrite E1, E2. exact F.
  - apply IH. exact Rr.
Qed.

Theorem waverec_2d Lr gr0 gr1 Lc gc0 gc1 mode : nonper_mode mode -> 2 <= Lr -> 2 <= Lc ->
  forall (hs:list (option ten)) (ll:ten), 0 < tC ll -> 1 <= tH ll -> 1 <= tW ll ->
  chain2 (fun n => 1 <= n /\ 1 <= 2*n - Lc + 2) (fun n => 1 <= n /\ 1 <= 2*n - Lr + 2) (fun n => 2*n - Lc + 2) (fun n => 2*n - Lr + 2) ll (tH ll) (tW ll) hs ->
  is_ok (DWTInverse_rev Op ll hs Lr gr0 gr1 Lc gc0 gc1 mode)
    (waverec_rel (invlevel2d (fun hh ww a b c d i j => pywt_idwt2 Op Lr gr0 gr1 Lc gc0 gc1 hh ww a b c d i j)
                             (fun n => 2*n - Lc + 2) (fun n => 2*n - Lr + 2)) ll hs).
Proof.
  intros Hm HLr HLc. induction hs as [|h rest IH]; intros ll HC HH HW Hch.
  - cbn [DWTInverse_rev is_ok waverec_rel]. reflexivity.
  - cbn [chain2] in Hch. destruct Hch as (Hfit & (Hh1 & Hho) & (Hw1 & Hwo) & Hrest).
    cbn [DWTInverse_rev]. fold (level_hi2 ll h).
    set (h1 := level_hi2 ll h).
    set (hh := match h with Some t => tH t | None => tH ll end) in *. set (ww := match h with Some t => tW t | None => tW ll end) in *.
    assert (Hx1: tN h1 = tN ll /\ tC h1 = 3 * tC ll /\ tH h1 = hh /\ tW h1 = ww /\ (tH ll = hh \/ tH ll = hh + 1) /\ (tW ll = ww \/ tW ll = ww + 1)).
    { unfold h1, level_hi2, hh, ww. destruct h as [t|]; cbn [t_zeros tN tC tH tW]; repeat split; try tauto; try lia. }
    destruct Hx1 as (X1 & X2 & X3 & X4 & X5 & X6). rewrite X3.
    pose proof (trim_row ll hh Hh1 X5) as Ht. cbv zeta in Ht.
    set (l1 := if hh <? tH ll then t_pyslice 2 0 (-1) ll else ll) in *.
    destruct Ht as (T1 & T2 & T3 & T4 & T5). rewrite X4.
    pose proof (trim_col l1 ww Hw1 ltac:(lia)) as Ht2. cbv zeta in Ht2.
    set (l2 := if ww <? tW l1 then t_pyslice 3 0 (-1) l1 else l1) in *.
    destruct Ht2 as (U1 & U2 & U3 & U4 & U5).
    pose proof (SFB2D_pywt Op Rth l2 h1 Lr gr0 gr1 Lc gc0 gc1 mode Hm ltac:(lia) ltac:(lia) ltac:(lia) ltac:(lia) HLr HLc
                  ltac:(lia) ltac:(lia) ltac:(lia) ltac:(lia) ltac:(lia)) as Hs.
    destruct (SFB2D_fwd Op l2 h1 Lr gr0 gr1 Lc gc0 gc1 mode) as [z|]; [|contradiction]. cbn [is_ok bind] in *.
    destruct Hs as (S1 & S2 & S3 & S4 & S5). rewrite U1, U2, U3, U4, T1, T2, T3 in *.
    specialize (IH z ltac:(lia) ltac:(lia) ltac:(lia)).
    assert (Hch': chain2 (fun n => 1 <= n /\ 1 <= 2*n - Lc + 2) (fun n => 1 <= n /\ 1 <= 2*n - Lr + 2) (fun n => 2*n - Lc + 2) (fun n => 2*n - Lr + 2) z (tH z) (tW z) rest).
    { rewrite S3, S4. apply (chain2_shape _ _ _ _ ll z); [exact S1 | exact S2 | exact Hrest]. }
    specialize (IH Hch').
    destruct (DWTInverse_rev Op z rest Lr gr0 gr1 Lc gc0 gc1 mode) as [y|]; [|contradiction]. cbn [is_ok waverec_rel] in *.
    exists z. split; [|exact IH].
    unfold invlevel2d. fold h1. rewrite X3, X4. repeat apply conj; try lia.
    intros n c i j Hc Hi Hj. rewrite S5 by lia. unfold pywt_idwt2.
    apply (syn_ext Op). intros q Hq. split; apply (syn_ext Op); intros p Hp; split; try reflexivity.
    rewrite U5, T5. reflexivity.
Qed.

Theorem waverec_2d_per Lr gr0 gr1 Lc gc0 gc1 : 2 <= Lr -> Lr mod 2 = 0 -> 2 <= Lc -> Lc mod 2 = 0 ->
  forall (hs:list (option ten)) (ll:ten), 0 < tC ll -> 1 <= tH ll -> 1 <= tW ll ->
  chain2 (fun n => 1 <= n /\ Lc - 2 <= 2*n) (fun n => 1 <= n /\ Lr - 2 <= 2*n) (fun n => 2*n) (fun n => 2*n) ll (tH ll) (tW ll) hs ->
  is_ok (DWTInverse_rev Op ll hs Lr gr0 gr1 Lc gc0 gc1 M_PER)
    (waverec_rel (invlevel2d (fun hh ww a b c d i j => pywt_idwt2_per Op Lr gr0 gr1 Lc gc0 gc1 hh ww a b c d i j)
                             (fun n => 2*n) (fun n => 2*n)) ll hs).
Proof.
  intros HLr HLre HLc HLce. induction hs as [|h rest IH]; intros ll HC HH HW Hch.
  - cbn [DWTInverse_rev is_ok waverec_rel]. reflexivity.
  - cbn [chain2] in Hch. destruct Hch as (Hfit & (Hh1 & Hho) & (Hw1 & Hwo) & Hrest).
    cbn [DWTInverse_rev]. fold (level_hi2 ll h).
    set (h1 := level_hi2 ll h).
    set (hh := match h with Some t => tH t | None => tH ll end) in *. set (ww := match h with Some t => tW t | None => tW ll end) in *.
    assert (Hx1: tN h1 = tN ll /\ tC h1 = 3 * tC ll /\ tH h1 = hh /\ tW h1 = ww /\ (tH ll = hh \/ tH ll = hh + 1) /\ (tW ll = ww \/ tW ll = ww + 1)).
    { unfold h1, level_hi2, hh, ww. destruct h as [t|]; cbn [t_zeros tN tC tH tW]; repeat split; try tauto; try lia. }
    destruct Hx1 as (X1 & X2 & X3 & X4 & X5 & X6). rewrite X3.
    pose proof (trim_row ll hh Hh1 X5) as Ht. cbv zeta in Ht.
    set (l1 := if hh <? tH ll then t_pyslice 2 0 (-1) ll else ll) in *.
    destruct Ht as (T1 & T2 & T3 & T4 & T5). rewrite X4.
    pose proof (trim_col l1 ww Hw1 ltac:(lia)) as Ht2. cbv zeta in Ht2.
    set (l2 := if ww <? tW l1 then t_pyslice 3 0 (-1) l1 else l1) in *.
    destruct Ht2 as (U1 & U2 & U3 & U4 & U5).
    pose proof (SFB2D_pywt_per Op Rth l2 h1 Lr gr0 gr1 Lc gc0 gc1 ltac:(lia) ltac:(lia) ltac:(lia) ltac:(lia) HLr HLre HLc HLce
                  ltac:(lia) ltac:(lia) ltac:(lia) ltac:(lia) ltac:(lia)) as Hs.
    destruct (SFB2D_fwd Op l2 h1 Lr gr0 gr1 Lc gc0 gc1 M_PER) as [z|]; [|contradiction]. cbn [is_ok bind] in *.
    destruct Hs as (S1 & S2 & S3 & S4 & S5). rewrite U1, U2, U3, U4, T1, T2, T3 in *.
    specialize (IH z ltac:(lia) ltac:(lia) ltac:(lia)).
    assert (Hch': chain2 (fun n => 1 <= n /\ Lc - 2 <= 2*n) (fun n => 1 <= n /\ Lr - 2 <= 2*n) (fun n => 2*n) (fun n => 2*n) z (tH z) (tW z) rest).
    { rewrite S3, S4. apply (chain2_shape _ _ _ _ ll z); [exact S1 | exact S2 | exact Hrest]. }
    specialize (IH Hch').
    destruct (DWTInverse_rev Op z rest Lr gr0 gr1 Lc gc0 gc1 M_PER) as [y|]; [|contradiction]. cbn [is_ok waverec_rel] in *.
    exists z. split; [|exact IH].
    unfold invlevel2d. fold h1. rewrite X3, X4. repeat apply conj; try lia.
    intros n c i j Hc Hi Hj. rewrite S5 by lia. unfold pywt_idwt2_per.
    apply (syn_per_ext Op). intros q Hq. split; apply (syn_per_ext Op); intros p Hp; split; try reflexivity.
    rewrite U5, T5. reflexivity.
Qed.
End S.
