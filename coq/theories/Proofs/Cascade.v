(* C16: a CASCADE of linear stages (what every transform of the library is: row pass, column pass, level after level), each
   stage a family of dot products of fixed coefficients with the previous stage's COMPUTED outputs, every dot product evaluated
   in floating point in any bracketing.  The computed result differs from the exact one by at most
        ((1+u)^(d_1+...+d_K) - 1) * (g_1 * ... * g_K) * max|x|
   with g_k a bound on the absolute row sums of stage k and d_k a bound on the depth of its summation trees. *)
From Coq Require Import Reals Lra Psatz ZArith List.
From Flocq Require Import Core Relative.
From PW Require Import Proofs.RoundProofs.
Open Scope R_scope.

Section Cascade.
Variable rnd : R -> R.
Variable u : R.
Hypothesis u_pos : 0 <= u.
Hypothesis rnd_err : forall x, Rabs (rnd x - x) <= u * Rabs x.
Notation fl := (fl rnd).
Notation gam := (gam u).

(* a summation tree over the entries of an input vector: coefficient a times entry j *)
Inductive stree := SLeaf (a : R) (j : nat) | SNode (l r : stree).
Fixpoint inst (t:stree) (x:nat->R) : tree :=
  match t with SLeaf a j => Leaf a (x j) | SNode l r => Node (inst l x) (inst r x) end.
Fixpoint rowsum (t:stree) : R := match t with SLeaf a _ => Rabs a | SNode l r => rowsum l + rowsum r end.
Fixpoint sdepth (t:stree) : nat := match t with SLeaf _ _ => 1%nat | SNode l r => S (Nat.max (sdepth l) (sdepth r)) end.

Lemma depth_inst t x : depth (inst t x) = sdepth t.
Proof. induction t as [a j|l IHl r IHr]; cbn; [reflexivity | rewrite IHl, IHr; reflexivity]. Qed.
Lemma rowsum_pos t : 0 <= rowsum t.
Proof. induction t; cbn; [apply Rabs_pos | lra]. Qed.
Lemma asum_inst t x M : (forall j, Rabs (x j) <= M) -> asum (inst t x) <= rowsum t * M.
Proof.
  intros Hx. induction t as [a j|l IHl r IHr]; cbn.
  - rewrite Rabs_mult. apply Rmult_le_compat_l; [apply Rabs_pos | apply Hx].
  - lra.
Qed.
Lemma exact_inst_sub t x y : exact (inst t x) - exact (inst t y) = exact (inst t (fun j => x j - y j)).
Proof. induction t as [a j|l IHl r IHr]; cbn; [ring | rewrite <- IHl, <- IHr; ring]. Qed.

(* one stage: output i is the tree rows i; g bounds the absolute row sums, d the tree depths *)
Record stage := mkStage { rows : nat -> stree; sg : R; sd : nat }.
Definition stage_ok (s:stage) : Prop := forall i, rowsum (rows s i) <= sg s /\ (sdepth (rows s i) <= sd s)%nat.
Definition apply_fl (s:stage) (x:nat->R) : nat -> R := fun i => fl (inst (rows s i) x).
Definition apply_ex (s:stage) (x:nat->R) : nat -> R := fun i => exact (inst (rows s i) x).
Definition run_fl (st:list stage) (x:nat->R) : nat -> R := fold_left (fun v s => apply_fl s v) st x.
Definition run_ex (st:list stage) (x:nat->R) : nat -> R := fold_left (fun v s => apply_ex s v) st x.
Fixpoint gains (st:list stage) : R := match st with nil => 1 | s :: r => sg s * gains r end.
Fixpoint depths (st:list stage) : nat := match st with nil => O | s :: r => (sd s + depths r)%nat end.

Lemma sg_pos s : stage_ok s -> 0 <= sg s.
Proof. intros H. destruct (H O) as (H1 & _). pose proof (rowsum_pos (rows s O)). lra. Qed.
Lemma gains_pos st : Forall stage_ok st -> 0 <= gains st.
Proof. intros H. induction H as [|s r Hs Hr IH]; cbn; [lra|]. apply Rmult_le_pos; [apply sg_pos; exact Hs | exact IH]. Qed.

(* one stage applied to a perturbed input *)
Lemma stage_step s xh x Xe E : stage_ok s -> 0 <= Xe -> 0 <= E ->
  (forall j, Rabs (x j) <= Xe) -> (forall j, Rabs (xh j - x j) <= E) ->
  (forall i, Rabs (apply_ex s x i) <= sg s * Xe) /\
  (forall i, Rabs (apply_fl s xh i - apply_ex s x i) <= sg s * ((1+u)^(sd s) * E + gam (sd s) * Xe)).
Proof.
  intros Hs HXe HE Hx Hd. pose proof (sg_pos s Hs) as Hg. split; intros i; destruct (Hs i) as (Hr & Hdep); unfold apply_fl, apply_ex.
  - eapply Rle_trans; [apply exact_le_asum|]. eapply Rle_trans; [apply asum_inst; exact Hx|].
    apply Rmult_le_compat_r; assumption.
  - set (t := rows s i) in *.
    assert (Hxh: forall j, Rabs (xh j) <= Xe + E).
    { intros j. replace (xh j) with (x j + (xh j - x j)) by ring. eapply Rle_trans; [apply Rabs_triang|]. pose proof (Hx j). pose proof (Hd j). lra. }
    replace (fl (inst t xh) - exact (inst t x)) with ((fl (inst t xh) - exact (inst t xh)) + (exact (inst t xh) - exact (inst t x))) by ring.
    eapply Rle_trans; [apply Rabs_triang|].
    assert (H1: Rabs (fl (inst t xh) - exact (inst t xh)) <= gam (sd s) * (sg s * (Xe + E))).
    { eapply Rle_trans; [apply (dot_any_order rnd u u_pos rnd_err)|]. rewrite depth_inst.
      pose proof (gam_mono u u_pos _ _ Hdep) as Hgm. pose proof (gam_pos u u_pos (sdepth t)) as Hgp.
      pose proof (asum_pos (inst t xh)) as Hap.
      assert (Ha: asum (inst t xh) <= sg s * (Xe + E)).
      { eapply Rle_trans; [apply asum_inst; exact Hxh|]. apply Rmult_le_compat_r; [lra | exact Hr]. }
      eapply Rle_trans; [apply Rmult_le_compat_l; [exact Hgp | exact Ha]|].
      apply Rmult_le_compat_r; [|exact Hgm]. apply Rmult_le_pos; lra. }
    assert (H2: Rabs (exact (inst t xh) - exact (inst t x)) <= sg s * E).
    { rewrite exact_inst_sub. eapply Rle_trans; [apply exact_le_asum|]. eapply Rle_trans; [apply asum_inst; exact Hd|].
      apply Rmult_le_compat_r; assumption. }
    unfold RoundProofs.gam in *. nra.
Qed.

Lemma cascade_gen st : Forall stage_ok st -> forall xh x Xe E, 0 <= Xe -> 0 <= E ->
  (forall j, Rabs (x j) <= Xe) -> (forall j, Rabs (xh j - x j) <= E) ->
  forall i, Rabs (run_fl st xh i - run_ex st x i) <= (1+u)^(depths st) * (gains st * E) + gam (depths st) * (gains st * Xe).
Proof.
  intros Hst. induction Hst as [|s r Hs Hr IH]; intros xh x Xe E HXe HE Hx Hd i.
  - cbn. unfold RoundProofs.gam. cbn. pose proof (Hd i). lra.
  - unfold run_fl, run_ex. cbn [fold_left]. fold (run_fl r (apply_fl s xh)). fold (run_ex r (apply_ex s x)).
    destruct (stage_step s xh x Xe E Hs HXe HE Hx Hd) as (Hb & He).
    pose proof (sg_pos s Hs) as Hg. pose proof (gains_pos r Hr) as HG.
    assert (Hp1: 1 <= (1+u)^(sd s)) by (apply pow_R1_Rle; lra).
    assert (Hp2: 1 <= (1+u)^(depths r)) by (apply pow_R1_Rle; lra).
    assert (HE': 0 <= sg s * ((1+u)^(sd s) * E + gam (sd s) * Xe)).
    { apply Rmult_le_pos; [exact Hg|]. pose proof (gam_pos u u_pos (sd s)). apply Rplus_le_le_0_compat; apply Rmult_le_pos; lra. }
    eapply Rle_trans; [apply (IH _ _ (sg s * Xe) (sg s * ((1+u)^(sd s) * E + gam (sd s) * Xe))); try assumption; apply Rmult_le_pos; assumption|].
    cbn [depths gains]. unfold RoundProofs.gam. rewrite pow_add.
    set (P := (1+u)^(sd s)) in *. set (Q := (1+u)^(depths r)) in *. set (G := gains r) in *. set (g := sg s) in *.
    apply Req_le. ring.
Qed.

Theorem cascade_bound st x X : Forall stage_ok st -> 0 <= X -> (forall j, Rabs (x j) <= X) ->
  forall i, Rabs (run_fl st x i - run_ex st x i) <= gam (depths st) * (gains st * X).
Proof.
  intros Hst HX Hx i.
  pose proof (cascade_gen st Hst x x X 0 HX (Rle_refl 0) Hx) as H.
  assert (Hd: forall j, Rabs (x j - x j) <= 0) by (intros j; replace (x j - x j) with 0 by ring; rewrite Rabs_R0; lra).
  specialize (H Hd i). rewrite Rmult_0_r, Rmult_0_r, Rplus_0_l in H. exact H.
Qed.
End Cascade.

(* binary32 *)
Theorem cascade_bound_float32 (choice : Z -> bool) st x X : Forall stage_ok st -> 0 <= X -> (forall j, Rabs (x j) <= X) ->
  forall i, Rabs (run_fl (rnd32 choice) st x i - run_ex st x i) <= gam u32 (depths st) * (gains st * X).
Proof. intros. apply cascade_bound; try assumption; [apply u32_pos | apply rnd32_err]. Qed.

(* the hypotheses are satisfiable: a Haar-like stage (difference and sum of neighbours), two of them in cascade *)
Definition haar_stage : stage :=
  mkStage (fun i => if Nat.even i then SNode (SLeaf 1 i) (SLeaf 1 (S i)) else SNode (SLeaf 1 (Nat.pred i)) (SLeaf (-1) i)) 2 2.
Example haar_stage_ok : Forall stage_ok (haar_stage :: haar_stage :: nil).
Proof.
  assert (H: stage_ok haar_stage).
  { assert (E1: Rabs (-1) = 1) by (unfold Rabs; destruct (Rcase_abs (-1)); lra).
    intros i. unfold haar_stage. cbn [rows sg sd]. destruct (Nat.even i); cbn [rowsum sdepth Nat.max]; rewrite ?E1, ?Rabs_R1.
    - split; [lra | apply le_n].
    - split; [lra | apply le_n]. }
  constructor; [exact H|]. constructor; [exact H|]. constructor.
Qed.
