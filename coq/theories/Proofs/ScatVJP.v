(* C09 on the model: the backward pass of the first-order scattering layer (greyscale, plain filter family) is the adjoint of the
   linearisation of its forward pass: for every input x, direction h and cotangent dZ,
     < avgpool(ll(h)), dZ_low > + sum_o < phase_re[o] * re_o(h) + phase_im[o] * im_o(h), dZ_o > = < h, backward(x, dZ) >
   where (ll(h), re_o(h), im_o(h)) is the level-1 DTCWT of h and phase_re/phase_im are the factors saved in the forward pass at x
   (C09_smag_dx/dy: they are the partial derivatives of the smooth magnitude).  Any commutative ring in which 2 cancels. *)
From PW Require Import Base.Ops Base.Sum Base.Sig Base.Tensor Model.Dwt Model.Dtcwt Model.Scat Spec.Line
  Proofs.DwtNF Proofs.SfbNF Proofs.DtcwtNF Proofs.DtcwtNFrow Proofs.QuadProofs Proofs.SymExt Proofs.CircPR Proofs.ScatProofs
  Proofs.QshiftLevel Proofs.DtcwtLevel1 Proofs.DtcwtAdj2D Proofs.DtcwtAdj1.
Ltac Zify.zify_post_hook ::= Z.to_euclidean_division_equations.

Section S.
Context {R:Type} (Op:Ops R) (Rth: RingOk Op) (X:XOps R).
Add Ring Rr : Rth.
Notation ten := (@ten R).
Infix "+r" := (radd Op) (at level 50, left associativity).
Infix "*r" := (rmul Op) (at level 40, left associativity).
Notation sumZ := (sumZ Op).
Notation two := (r1 Op +r r1 Op).

(* pooling: <avgpool A, G> = <A, 1/4 upsample G> on even windows *)
Lemma avgpool_dot2 (A G:ten) n c h w : 0 <= h -> 0 <= w ->
  dot2 Op h w (avgpool2 Op X A) G n c = dot2 Op (2*h) (2*w) A (up2q Op X G) n c.
Proof.
  intros Hh Hw. unfold dot2. rewrite (sum_quads Op Rth h w (fun i j => tf A n c i j *r tf (up2q Op X G) n c i j)) by lia.
  apply sumZ_ext. intros i Hi. apply sumZ_ext. intros j Hj. apply (avgpool_up_adjoint Op Rth X A G n c i j).
Qed.

Lemma is_ok_imp {A} (r:res A) (P Q:A->Prop) : (forall a, P a -> Q a) -> is_ok r P -> is_ok r Q.
Proof. intros H. destruct r; cbn [is_ok]; [apply H | exact (fun f => f)]. Qed.
Lemma list12 (l:list ten) d : length l = 12%nat ->
  l = [nth 0 l d; nth 1 l d; nth 2 l d; nth 3 l d; nth 4 l d; nth 5 l d; nth 6 l d; nth 7 l d; nth 8 l d; nth 9 l d; nth 10 l d; nth 11 l d].
Proof.
  intros H. do 12 (destruct l as [|? l]; [discriminate H|]). destruct l; [reflexivity | discriminate H].
Qed.

Variable b : R.
Definition dz : ten := t_zeros Op 0 0 0 0.
(* the saved phase factors and the cotangent planes, plane by plane *)
Lemma phases_nth (C:Z) (p:list ten) o ri : 0 <= o < 6 -> 0 <= ri < 2 ->
  let re := pl Op p o 0 in let im := pl Op p o 1 in
  pl Op (phases Op X b false C p) o ri
  = force Op (mkT (tN re) (tC re) (tH re) (tW re) (fun n c i j =>
      xdv X (tf (if ri =? 0 then re else im) n c i j) (xsq X (tf re n c i j *r tf re n c i j +r tf im n c i j *r tf im n c i j +r b *r b)))).
Proof.
  intros Ho Hri. cbv zeta. unfold phases. change (zrange 6) with [0;1;2;3;4;5]. cbn [flat_map app].
  assert (Ho': o = 0 \/ o = 1 \/ o = 2 \/ o = 3 \/ o = 4 \/ o = 5) by lia. assert (Hr': ri = 0 \/ ri = 1) by lia.
  destruct Ho' as [->|[->|[->|[->|[->| ->]]]]]; destruct Hr' as [->| ->]; reflexivity.
Qed.
Lemma cot_nth (C:Z) (dr:ten) (ph:list ten) o ri : 0 <= o < 6 -> 0 <= ri < 2 ->
  let a := pl Op ph o 0 in
  pl Op (cot_planes Op false C dr ph) o ri
  = force Op (mkT (tN a) (tC a) (tH a) (tW a) (fun n c i j => tf dr n (o*C + c) i j *r tf (pl Op ph o ri) n c i j)).
Proof.
  intros Ho Hri. cbv zeta. unfold cot_planes. change (zrange 6) with [0;1;2;3;4;5]. cbn [flat_map app].
  assert (Ho': o = 0 \/ o = 1 \/ o = 2 \/ o = 3 \/ o = 4 \/ o = 5) by lia. assert (Hr': ri = 0 \/ ri = 1) by lia.
  destruct Ho' as [->|[->|[->|[->|[->| ->]]]]]; destruct Hr' as [->| ->]; reflexivity.
Qed.
Lemma cot_len (C:Z) (dr:ten) (ph:list ten) : length (cot_planes Op false C dr ph) = 12%nat.
Proof. unfold cot_planes. change (zrange 6) with [0;1;2;3;4;5]. reflexivity. Qed.
Lemma pl_nth (l:list ten) o ri : 0 <= o < 6 -> 0 <= ri < 2 -> pl Op l o ri = nth (Z.to_nat (2*o + ri)) l dz.
Proof. intros. reflexivity. Qed.

(* shapes only, either colour mode *)
Lemma phases_shape (colour:bool) (C:Z) (p:list ten) o ri : 0 <= o < 6 -> 0 <= ri < 2 ->
  let a := pl Op p o 0 in let q := pl Op (phases Op X b colour C p) o ri in
  tN q = tN a /\ tC q = tC a /\ tH q = tH a /\ tW q = tW a.
Proof.
  intros Ho Hri. cbv zeta. unfold phases. change (zrange 6) with [0;1;2;3;4;5]. cbn [flat_map app].
  assert (Ho': o = 0 \/ o = 1 \/ o = 2 \/ o = 3 \/ o = 4 \/ o = 5) by lia. assert (Hr': ri = 0 \/ ri = 1) by lia.
  destruct Ho' as [->|[->|[->|[->|[->| ->]]]]]; destruct Hr' as [->| ->]; repeat split; reflexivity.
Qed.
Lemma cot_shape (colour:bool) (C:Z) (dr:ten) (ph:list ten) o ri : 0 <= o < 6 -> 0 <= ri < 2 ->
  let a := pl Op ph o 0 in let q := pl Op (cot_planes Op colour C dr ph) o ri in
  tN q = tN a /\ tC q = tC a /\ tH q = tH a /\ tW q = tW a.
Proof.
  intros Ho Hri. cbv zeta. unfold cot_planes. change (zrange 6) with [0;1;2;3;4;5]. cbn [flat_map app].
  assert (Ho': o = 0 \/ o = 1 \/ o = 2 \/ o = 3 \/ o = 4 \/ o = 5) by lia. assert (Hr': ri = 0 \/ ri = 1) by lia.
  destruct Ho' as [->|[->|[->|[->|[->| ->]]]]]; destruct Hr' as [->| ->]; repeat split; reflexivity.
Qed.
Lemma cot_len_gen (colour:bool) (C:Z) (dr:ten) (ph:list ten) : length (cot_planes Op colour C dr ph) = 12%nat.
Proof. unfold cot_planes. change (zrange 6) with [0;1;2;3;4;5]. reflexivity. Qed.

Variables (L0 L1:Z) (h0 h1:Z->R).
Hypothesis HL0 : 1 <= L0 /\ L0 mod 2 = 1. Hypothesis HL1 : 1 <= L1 /\ L1 mod 2 = 1.
Hypothesis Hs0 : Symmetric L0 h0. Hypothesis Hs1 : Symmetric L1 h1.
Notation s := (xs_ X).

(* shapes of the level-1 transform: lowpass of the input size, twelve planes of half the size *)
Lemma fwd_j1_shapes (x:ten) : 2 <= tH x -> tH x mod 2 = 0 -> 2 <= tW x -> tW x mod 2 = 0 -> 0 < tC x ->
  is_ok (fwd_j1 Op s x L0 h0 L1 h1 false M_SYMM) (fun r =>
    shaped x (tH x) (tW x) (fst r) /\ length (snd r) = 12%nat /\
    forall k d, (k < 12)%nat -> shaped x (tH x / 2) (tW x / 2) (nth k (snd r) d)).
Proof.
  intros HH HHe HW HWe HC. destruct HL0 as (L0p & L0o). destruct HL1 as (L1p & L1o).
  unfold fwd_j1.
  pose proof (lf_cf_row Op Rth x L0 h0 L0p L0o ltac:(lia) ltac:(lia) HC) as Hlo.
  destruct (linefilter Op 3 x L0 h0 M_SYMM) as [lo|]; [|contradiction]. cbn [is_ok bind] in *. destruct Hlo as (P1 & P2 & P3 & P4 & _).
  pose proof (lf_cf_row Op Rth x L1 h1 L1p L1o ltac:(lia) ltac:(lia) HC) as Hhi.
  destruct (linefilter Op 3 x L1 h1 M_SYMM) as [hi|]; [|contradiction]. cbn [is_ok bind] in *. destruct Hhi as (Q1 & Q2 & Q3 & Q4 & _).
  pose proof (lf_cf_col Op Rth lo L0 h0 L0p L0o ltac:(lia) ltac:(lia) ltac:(lia)) as Hll.
  destruct (linefilter Op 2 lo L0 h0 M_SYMM) as [ll|]; [|contradiction]. cbn [is_ok bind] in *. destruct Hll as (A1 & A2 & A3 & A4 & _).
  pose proof (lf_cf_col Op Rth lo L1 h1 L1p L1o ltac:(lia) ltac:(lia) ltac:(lia)) as Hlh.
  destruct (linefilter Op 2 lo L1 h1 M_SYMM) as [lh|]; [|contradiction]. cbn [is_ok bind] in *. destruct Hlh as (B1 & B2 & B3 & B4 & _).
  pose proof (lf_cf_col Op Rth hi L0 h0 L0p L0o ltac:(lia) ltac:(lia) ltac:(lia)) as Hhl.
  destruct (linefilter Op 2 hi L0 h0 M_SYMM) as [hl|]; [|contradiction]. cbn [is_ok bind] in *. destruct Hhl as (C1 & C2 & C3 & C4 & _).
  pose proof (lf_cf_col Op Rth hi L1 h1 L1p L1o ltac:(lia) ltac:(lia) ltac:(lia)) as Hhh.
  destruct (linefilter Op 2 hi L1 h1 M_SYMM) as [hh|]; [|contradiction]. cbn [is_ok bind fst snd] in *. destruct Hhh as (D1 & D2 & D3 & D4 & _).
  assert (Hq: forall y:ten, tN y = tN x -> tC y = tC x -> tH y = tH x -> tW y = tW x ->
     let '((z1r, z1i), (z2r, z2i)) := q2c Op s y in
     shaped x (tH x / 2) (tW x / 2) z1r /\ shaped x (tH x / 2) (tW x / 2) z1i /\ shaped x (tH x / 2) (tW x / 2) z2r /\ shaped x (tH x / 2) (tW x / 2) z2i).
  { intros y Y1 Y2 Y3 Y4. unfold q2c, shaped. cbv zeta. cbn [force t_sub t_add poly t_scale tN tC tH tW]. unfold range_len.
    replace (tH y <=? 0) with false by lia. replace (tW y <=? 0) with false by lia. replace (tH y <=? 1) with false by lia. replace (tW y <=? 1) with false by lia.
    repeat split; lia. }
  pose proof (Hq lh ltac:(lia) ltac:(lia) ltac:(lia) ltac:(lia)) as Qlh. pose proof (Hq hl ltac:(lia) ltac:(lia) ltac:(lia) ltac:(lia)) as Qhl.
  pose proof (Hq hh ltac:(lia) ltac:(lia) ltac:(lia) ltac:(lia)) as Qhh.
  unfold highs_to_orientations.
  destruct (q2c Op s lh) as ((d15r, d15i), (d165r, d165i)). destruct (q2c Op s hh) as ((d45r, d45i), (d135r, d135i)). destruct (q2c Op s hl) as ((d75r, d75i), (d105r, d105i)).
  destruct Qlh as (E1 & E2 & E3 & E4). destruct Qhl as (F1 & F2 & F3 & F4). destruct Qhh as (G1 & G2 & G3 & G4).
  split; [unfold shaped; lia | split; [reflexivity|]].
  intros k d Hk. do 12 (destruct k as [|k]; [cbn [nth]; assumption|]). lia.
Qed.

Hypothesis cancel2 : forall a b:R, two *r a = two *r b -> a = b.

Theorem scat_j1_vjp (x h dZ:ten) : 2 <= tH x -> tH x mod 2 = 0 -> 2 <= tW x -> tW x mod 2 = 0 -> 0 < tC x ->
  tN h = tN x -> tC h = tC x -> tH h = tH x -> tW h = tW x ->
  tN dZ = tN x -> tC dZ = 7 * tC x -> tH dZ = tH x / 2 -> tW dZ = tW x / 2 ->
  let C := tC x in let H2 := tH x / 2 in let W2 := tW x / 2 in
  let dYl := force Op (t_chmap C (fun c => c) dZ) in
  let dr := force Op (t_chmap (tC dZ - C) (fun c => C + c) dZ) in
  is_ok (fwd_j1 Op s x L0 h0 L1 h1 false M_SYMM) (fun rx =>
  let cot := cot_planes Op false C dr (phases Op X b false C (snd rx)) in
  is_ok (fwd_j1 Op s h L0 h0 L1 h1 false M_SYMM) (fun rh =>
  is_ok (scat_j1_bwd Op X b false false x dZ L0 h0 L1 h1 L1 h1 M_SYMM) (fun dx =>
    shaped x (tH x) (tW x) dx /\
    forall n c, 0 <= c < C ->
      dot2 Op H2 W2 (avgpool2 Op X (fst rh)) dYl n c
      +r (dot2 Op H2 W2 (pl Op (snd rh) 0 0) (pl Op cot 0 0) n c +r dot2 Op H2 W2 (pl Op (snd rh) 0 1) (pl Op cot 0 1) n c
          +r dot2 Op H2 W2 (pl Op (snd rh) 5 0) (pl Op cot 5 0) n c +r dot2 Op H2 W2 (pl Op (snd rh) 5 1) (pl Op cot 5 1) n c)
      +r (dot2 Op H2 W2 (pl Op (snd rh) 2 0) (pl Op cot 2 0) n c +r dot2 Op H2 W2 (pl Op (snd rh) 2 1) (pl Op cot 2 1) n c
          +r dot2 Op H2 W2 (pl Op (snd rh) 3 0) (pl Op cot 3 0) n c +r dot2 Op H2 W2 (pl Op (snd rh) 3 1) (pl Op cot 3 1) n c)
      +r (dot2 Op H2 W2 (pl Op (snd rh) 1 0) (pl Op cot 1 0) n c +r dot2 Op H2 W2 (pl Op (snd rh) 1 1) (pl Op cot 1 1) n c
          +r dot2 Op H2 W2 (pl Op (snd rh) 4 0) (pl Op cot 4 0) n c +r dot2 Op H2 W2 (pl Op (snd rh) 4 1) (pl Op cot 4 1) n c)
      = dot2 Op (tH x) (tW x) h dx n c))).
Proof.
  intros HH HHe HW HWe HC N1 N2 N3 N4 Z1 Z2 Z3 Z4 C H2 W2 dYl dr.
  pose proof (fwd_j1_shapes x HH HHe HW HWe HC) as Sx.
  unfold scat_j1_bwd, fwd1, inv1.
  destruct (fwd_j1 Op s x L0 h0 L1 h1 false M_SYMM) as [[llx px]|]; [|contradiction]. cbn [is_ok bind fst snd] in *.
  destruct Sx as (_ & Lpx & Spx). fold C. fold dYl. fold dr.
  assert (SdYl: tN dYl = tN x /\ tC dYl = C /\ tH dYl = H2 /\ tW dYl = W2) by (unfold dYl, t_chmap; cbn [force tN tC tH tW]; lia).
  clearbody dYl.
  (* shapes of the cotangent planes *)
  assert (Scot: forall k, (k < 12)%nat -> shaped x H2 W2 (nth k (cot_planes Op false C dr (phases Op X b false C px)) dz)).
  { intros k Hk.
    assert (Ek: exists o ri, 0 <= o < 6 /\ 0 <= ri < 2 /\ k = Z.to_nat (2*o + ri)).
    { exists (Z.of_nat k / 2), (Z.of_nat k mod 2). repeat split; try lia. }
    destruct Ek as (o & ri & Ho & Hri & ->). rewrite <- (pl_nth _ o ri Ho Hri). rewrite cot_nth by assumption.
    rewrite phases_nth by lia. unfold shaped. cbn [force tN tC tH tW].
    rewrite (pl_nth px o 0) by lia. apply Spx. lia. }
  pose proof (cot_len C dr (phases Op X b false C px)) as Lcot.
  remember (cot_planes Op false C dr (phases Op X b false C px)) as cot eqn:Ecot. clear Ecot. clearbody dr.
  (* the lowpass cotangent *)
  assert (Sgll: shaped h (tH h) (tW h) (force Op (up2q Op X dYl))).
  { unfold shaped, up2q. cbn [force tN tC tH tW]. unfold C, H2, W2 in *. repeat split; lia. }
  assert (Egll: forall n c i j, tf (force Op (up2q Op X dYl)) n c i j = tf (up2q Op X dYl) n c i j) by (intros; apply force_eq).
  remember (force Op (up2q Op X dYl)) as gll eqn:Eg. clear Eg.
  assert (Sh: forall k, (k < 12)%nat -> shaped h (tH h / 2) (tW h / 2) (nth k cot dz)).
  { intros k Hk. destruct (Scot k Hk) as (A & B & Cc & D). unfold shaped, H2, W2 in *. rewrite N1, N2, N3, N4. repeat split; assumption. }
  pose proof (level1_adjoint Op Rth cancel2 s L0 L1 h0 h1 HL0 HL1 Hs0 Hs1 h gll
     (nth 0 cot dz) (nth 1 cot dz) (nth 2 cot dz) (nth 3 cot dz) (nth 4 cot dz) (nth 5 cot dz)
     (nth 6 cot dz) (nth 7 cot dz) (nth 8 cot dz) (nth 9 cot dz) (nth 10 cot dz) (nth 11 cot dz)
     ltac:(lia) ltac:(lia) ltac:(lia) ltac:(lia) ltac:(lia) Sgll
     (Sh 0%nat ltac:(lia)) (Sh 1%nat ltac:(lia)) (Sh 2%nat ltac:(lia)) (Sh 3%nat ltac:(lia)) (Sh 4%nat ltac:(lia)) (Sh 5%nat ltac:(lia))
     (Sh 6%nat ltac:(lia)) (Sh 7%nat ltac:(lia)) (Sh 8%nat ltac:(lia)) (Sh 9%nat ltac:(lia)) (Sh 10%nat ltac:(lia)) (Sh 11%nat ltac:(lia))) as Hadj.
  cbv zeta in Hadj. rewrite <- (list12 cot dz Lcot) in Hadj. clear Scot Sh Sgll Spx Lpx.
  revert Hadj. apply is_ok_imp. intros [llh phh]. cbn [fst snd]. apply is_ok_imp. intros dx ((D1 & D2 & D3 & D4) & Hadj).
  split. { unfold shaped. lia. }
  intros n c Hc. rewrite N3, N4 in Hadj. fold H2 W2 in Hadj. rewrite <- (Hadj n c ltac:(lia)).
  replace (dot2 Op (tH x) (tW x) llh gll n c) with (dot2 Op H2 W2 (avgpool2 Op X llh) dYl n c).
  2:{ rewrite (avgpool_dot2 llh dYl n c H2 W2) by (unfold H2, W2; lia). replace (2 * H2) with (tH x) by (unfold H2; lia). replace (2 * W2) with (tW x) by (unfold W2; lia).
      apply dot2_ext. intros i j Hi Hj. split; [reflexivity|]. rewrite Egll. reflexivity. }
  rewrite !pl_nth by lia.
  change (Z.to_nat (2*0 + 0)) with 0%nat. change (Z.to_nat (2*0 + 1)) with 1%nat. change (Z.to_nat (2*1 + 0)) with 2%nat. change (Z.to_nat (2*1 + 1)) with 3%nat.
  change (Z.to_nat (2*2 + 0)) with 4%nat. change (Z.to_nat (2*2 + 1)) with 5%nat. change (Z.to_nat (2*3 + 0)) with 6%nat. change (Z.to_nat (2*3 + 1)) with 7%nat.
  change (Z.to_nat (2*4 + 0)) with 8%nat. change (Z.to_nat (2*4 + 1)) with 9%nat. change (Z.to_nat (2*5 + 0)) with 10%nat. change (Z.to_nat (2*5 + 1)) with 11%nat.
  reflexivity.
Qed.
Theorem scat_j1_vjp_gen (colour:bool) (x h dZ:ten) : (colour = true -> tC x = 3) -> 2 <= tH x -> tH x mod 2 = 0 -> 2 <= tW x -> tW x mod 2 = 0 -> 0 < tC x ->
  tN h = tN x -> tC h = tC x -> tH h = tH x -> tW h = tW x ->
  tN dZ = tN x -> tH dZ = tH x / 2 -> tW dZ = tW x / 2 ->
  let C := tC x in let H2 := tH x / 2 in let W2 := tW x / 2 in
  let nl := if colour then 3 else C in
  let dYl := force Op (t_chmap nl (fun c => c) dZ) in
  let dr := force Op (t_chmap (tC dZ - nl) (fun c => nl + c) dZ) in
  is_ok (fwd_j1 Op s x L0 h0 L1 h1 false M_SYMM) (fun rx =>
  let cot := cot_planes Op colour C dr (phases Op X b colour C (snd rx)) in
  is_ok (fwd_j1 Op s h L0 h0 L1 h1 false M_SYMM) (fun rh =>
  is_ok (scat_j1_bwd Op X b false colour x dZ L0 h0 L1 h1 L1 h1 M_SYMM) (fun dx =>
    shaped x (tH x) (tW x) dx /\
    forall n c, 0 <= c < C ->
      dot2 Op H2 W2 (avgpool2 Op X (fst rh)) dYl n c
      +r (dot2 Op H2 W2 (pl Op (snd rh) 0 0) (pl Op cot 0 0) n c +r dot2 Op H2 W2 (pl Op (snd rh) 0 1) (pl Op cot 0 1) n c
          +r dot2 Op H2 W2 (pl Op (snd rh) 5 0) (pl Op cot 5 0) n c +r dot2 Op H2 W2 (pl Op (snd rh) 5 1) (pl Op cot 5 1) n c)
      +r (dot2 Op H2 W2 (pl Op (snd rh) 2 0) (pl Op cot 2 0) n c +r dot2 Op H2 W2 (pl Op (snd rh) 2 1) (pl Op cot 2 1) n c
          +r dot2 Op H2 W2 (pl Op (snd rh) 3 0) (pl Op cot 3 0) n c +r dot2 Op H2 W2 (pl Op (snd rh) 3 1) (pl Op cot 3 1) n c)
      +r (dot2 Op H2 W2 (pl Op (snd rh) 1 0) (pl Op cot 1 0) n c +r dot2 Op H2 W2 (pl Op (snd rh) 1 1) (pl Op cot 1 1) n c
          +r dot2 Op H2 W2 (pl Op (snd rh) 4 0) (pl Op cot 4 0) n c +r dot2 Op H2 W2 (pl Op (snd rh) 4 1) (pl Op cot 4 1) n c)
      = dot2 Op (tH x) (tW x) h dx n c))).
Proof.
  intros Hcol HH HHe HW HWe HC N1 N2 N3 N4 Z1 Z3 Z4 C H2 W2 nl dYl dr.
  pose proof (fwd_j1_shapes x HH HHe HW HWe HC) as Sx.
  unfold scat_j1_bwd, fwd1, inv1.
  destruct (fwd_j1 Op s x L0 h0 L1 h1 false M_SYMM) as [[llx px]|]; [|contradiction]. cbn [is_ok bind fst snd] in *.
  destruct Sx as (_ & Lpx & Spx). fold C. fold nl. fold dYl. fold dr.
  assert (Hnl: nl = C) by (unfold nl, C; destruct colour; [symmetry; apply Hcol; reflexivity | reflexivity]).
  assert (SdYl: tN dYl = tN x /\ tC dYl = C /\ tH dYl = H2 /\ tW dYl = W2) by (unfold dYl, t_chmap; cbn [force tN tC tH tW]; lia).
  clearbody dYl.
  (* shapes of the cotangent planes *)
  assert (Scot: forall k, (k < 12)%nat -> shaped x H2 W2 (nth k (cot_planes Op colour C dr (phases Op X b colour C px)) dz)).
  { intros k Hk.
    assert (Ek: exists o ri, 0 <= o < 6 /\ 0 <= ri < 2 /\ k = Z.to_nat (2*o + ri)).
    { exists (Z.of_nat k / 2), (Z.of_nat k mod 2). repeat split; try lia. }
    destruct Ek as (o & ri & Ho & Hri & ->). rewrite <- (pl_nth _ o ri Ho Hri).
    destruct (cot_shape colour C dr (phases Op X b colour C px) o ri Ho Hri) as (c1 & c2 & c3 & c4).
    destruct (phases_shape colour C px o 0 Ho ltac:(lia)) as (p1 & p2 & p3 & p4).
    unfold shaped. rewrite c1, c2, c3, c4, p1, p2, p3, p4.
    rewrite (pl_nth px o 0) by lia. apply Spx. lia. }
  pose proof (cot_len_gen colour C dr (phases Op X b colour C px)) as Lcot.
  remember (cot_planes Op colour C dr (phases Op X b colour C px)) as cot eqn:Ecot. clear Ecot. clearbody dr.
  (* the lowpass cotangent *)
  assert (Sgll: shaped h (tH h) (tW h) (force Op (up2q Op X dYl))).
  { unfold shaped, up2q. cbn [force tN tC tH tW]. unfold C, H2, W2 in *. repeat split; lia. }
  assert (Egll: forall n c i j, tf (force Op (up2q Op X dYl)) n c i j = tf (up2q Op X dYl) n c i j) by (intros; apply force_eq).
  remember (force Op (up2q Op X dYl)) as gll eqn:Eg. clear Eg.
  assert (Sh: forall k, (k < 12)%nat -> shaped h (tH h / 2) (tW h / 2) (nth k cot dz)).
  { intros k Hk. destruct (Scot k Hk) as (A & B & Cc & D). unfold shaped, H2, W2 in *. rewrite N1, N2, N3, N4. repeat split; assumption. }
  pose proof (level1_adjoint Op Rth cancel2 s L0 L1 h0 h1 HL0 HL1 Hs0 Hs1 h gll
     (nth 0 cot dz) (nth 1 cot dz) (nth 2 cot dz) (nth 3 cot dz) (nth 4 cot dz) (nth 5 cot dz)
     (nth 6 cot dz) (nth 7 cot dz) (nth 8 cot dz) (nth 9 cot dz) (nth 10 cot dz) (nth 11 cot dz)
     ltac:(lia) ltac:(lia) ltac:(lia) ltac:(lia) ltac:(lia) Sgll
     (Sh 0%nat ltac:(lia)) (Sh 1%nat ltac:(lia)) (Sh 2%nat ltac:(lia)) (Sh 3%nat ltac:(lia)) (Sh 4%nat ltac:(lia)) (Sh 5%nat ltac:(lia))
     (Sh 6%nat ltac:(lia)) (Sh 7%nat ltac:(lia)) (Sh 8%nat ltac:(lia)) (Sh 9%nat ltac:(lia)) (Sh 10%nat ltac:(lia)) (Sh 11%nat ltac:(lia))) as Hadj.
  cbv zeta in Hadj. rewrite <- (list12 cot dz Lcot) in Hadj. clear Scot Sh Sgll Spx Lpx.
  revert Hadj. apply is_ok_imp. intros [llh phh]. cbn [fst snd]. apply is_ok_imp. intros dx ((D1 & D2 & D3 & D4) & Hadj).
  split. { unfold shaped. lia. }
  intros n c Hc. rewrite N3, N4 in Hadj. fold H2 W2 in Hadj. rewrite <- (Hadj n c ltac:(lia)).
  replace (dot2 Op (tH x) (tW x) llh gll n c) with (dot2 Op H2 W2 (avgpool2 Op X llh) dYl n c).
  2:{ rewrite (avgpool_dot2 llh dYl n c H2 W2) by (unfold H2, W2; lia). replace (2 * H2) with (tH x) by (unfold H2; lia). replace (2 * W2) with (tW x) by (unfold W2; lia).
      apply dot2_ext. intros i j Hi Hj. split; [reflexivity|]. rewrite Egll. reflexivity. }
  rewrite !pl_nth by lia.
  change (Z.to_nat (2*0 + 0)) with 0%nat. change (Z.to_nat (2*0 + 1)) with 1%nat. change (Z.to_nat (2*1 + 0)) with 2%nat. change (Z.to_nat (2*1 + 1)) with 3%nat.
  change (Z.to_nat (2*2 + 0)) with 4%nat. change (Z.to_nat (2*2 + 1)) with 5%nat. change (Z.to_nat (2*3 + 0)) with 6%nat. change (Z.to_nat (2*3 + 1)) with 7%nat.
  change (Z.to_nat (2*4 + 0)) with 8%nat. change (Z.to_nat (2*4 + 1)) with 9%nat. change (Z.to_nat (2*5 + 0)) with 10%nat. change (Z.to_nat (2*5 + 1)) with 11%nat.
  reflexivity.
Qed.
End S.
