(* C02 in two dimensions on the tensor-level model: SFB2D (AFB2D x) = x on the extent (one level) and
   DWTInverse (DWTForward x) = x on the extent for every J, four non-periodization modes, separate row/column banks. *)
From PW Require Import Base.Ops Base.Sum Base.Sig Base.Tensor Model.Dwt Spec.Line Proofs.ConvLine Proofs.DwtNF Proofs.LineTheory
  Proofs.SfbNF Proofs.DwtNFcol Proofs.C01Proofs Proofs.C01Proofs2D Proofs.C10Proofs2D Proofs.C02Proofs.
Ltac Zify.zify_post_hook ::= Z.to_euclidean_division_equations.

Section S.
Context {R:Type} (Op:Ops R) (Rth: RingOk Op).
Add Ring Rr : Rth.
Notation ten := (@ten R).
Notation sumZ := (sumZ Op).
Infix "+r" := (radd Op) (at level 50, left associativity).
Infix "*r" := (rmul Op) (at level 40, left associativity).

(* line level, any of the four extensions: synthesis of the PyWavelets analysis of f gives f back on [0,N) *)
Lemma line_pr_mode mode L N d0 d1 g0 g1 (f:Z->R) i :
  2 <= L -> 1 <= N -> (mode = M_REFLECT -> 2 <= N) -> PRcond Op L d0 d1 g0 g1 -> 0 <= i < N ->
  syn Op L ((N + L - 1)/2) g0 g1 (pywt_dwt Op mode L N d0 f) (pywt_dwt Op mode L N d1 f) i = f i.
Proof.
  intros HL HN Hr HPR Hi. rewrite (syn_synL Op Rth).
  set (n := (N + L - 1)/2). set (X := ext_of Op mode N f).
  change (synL Op L g0 g1 0 n (anaL Op L d0 X) (anaL Op L d1 X) i = f i).
  rewrite (line_pr_exact Op Rth L d0 d1 g0 g1 ltac:(lia) 0 n X i).
  - unfold X. apply (ext_of_in Op); assumption.
  - intros d Hd. apply (PRcond_at Op Rth L d0 d1 g0 g1 0 n i d ltac:(lia) HPR Hd); [|unfold n; lia].
    intros k Hk. unfold n in *. lia.
  - lia.
Qed.

Definition agrees2d (x low highs:ten) mode Lr dr0 dr1 Lc dc0 dc1 : Prop :=
  forall n c i j, 0 <= c < tC x -> 0 <= i < (tH x + Lc - 1)/2 -> 0 <= j < (tW x + Lr - 1)/2 ->
    tf low n c i j = pywt_dwt2 Op mode Lr dr0 Lc dc0 (tH x) (tW x) (fun p q => tf x n c p q) i j /\
    forall b, 1 <= b < 4 ->
      tf highs n (3*c + (b-1)) i j
      = pywt_dwt2 Op mode Lr (dsel dr0 dr1 (b/2)) Lc (dsel dc0 dc1 (b mod 2)) (tH x) (tW x) (fun p q => tf x n c p q) i j.

Definition recon2d (x y:ten) : Prop :=
  tN y = tN x /\ tC y = tC x /\ tH x <= tH y <= tH x + 1 /\ tW x <= tW y <= tW x + 1 /\
  forall n c i j, 0 <= c < tC x -> 0 <= i < tH x -> 0 <= j < tW x -> tf y n c i j = tf x n c i j.

Theorem pr_level_2d_ext (x low highs:ten) Lr dr0 dr1 gr0 gr1 Lc dc0 dc1 gc0 gc1 mode :
  nonper_mode mode -> 2 <= Lr -> 2 <= Lc -> 1 <= tW x -> 1 <= tH x -> 0 < tC x ->
  (mode = M_REFLECT -> 2 <= tW x /\ 2 <= tH x) ->
  PRcond Op Lr dr0 dr1 gr0 gr1 -> PRcond Op Lc dc0 dc1 gc0 gc1 ->
  tN low = tN x -> tC low = tC x -> tH low = (tH x + Lc - 1)/2 -> tW low = (tW x + Lr - 1)/2 ->
  tN highs = tN x -> tC highs = 3 * tC x -> tH highs = (tH x + Lc - 1)/2 -> tW highs = (tW x + Lr - 1)/2 ->
  agrees2d x low highs mode Lr dr0 dr1 Lc dc0 dc1 ->
  is_ok (SFB2D_fwd Op low highs Lr gr0 gr1 Lc gc0 gc1 mode) (recon2d x).
Proof.
  intros Hm HLr HLc HW HH HC Hr2 HPr HPc L1 L2 L3 L4 G1 G2 G3 G4 Hag.
  set (H' := (tH x + Lc - 1)/2) in *. set (W' := (tW x + Lr - 1)/2) in *.
  pose proof (SFB2D_pywt Op Rth low highs Lr gr0 gr1 Lc gc0 gc1 mode Hm ltac:(lia) ltac:(lia) ltac:(lia) ltac:(lia) HLr HLc
                ltac:(lia) ltac:(unfold W' in *; lia) ltac:(unfold H' in *; lia) ltac:(unfold H' in *; lia) ltac:(unfold W' in *; lia)) as Hs.
  destruct (SFB2D_fwd Op low highs Lr gr0 gr1 Lc gc0 gc1 mode) as [y|]; [|contradiction]. cbn [is_ok] in *.
  destruct Hs as (S1 & S2 & S3 & S4 & S5). rewrite L2, L3, L4 in *.
  unfold recon2d. repeat apply conj; try (unfold H', W' in *; lia).
  intros n c i j Hc Hi Hj. rewrite S5 by (unfold H', W' in *; lia).
  unfold pywt_idwt2.
  set (Rt := fun t q => pywt_dwt Op mode Lr (tW x) (dsel dr0 dr1 t) (fun q' => tf x n c i q') q).
  transitivity (syn Op Lr W' gr0 gr1 (Rt 0) (Rt 1) j).
  - apply (syn_ext Op). intros q Hq.
    assert (Hcol: forall t, 0 <= t < 2 ->
       syn Op Lc H' gc0 gc1
         (pywt_dwt Op mode Lc (tH x) dc0 (fun p => pywt_dwt Op mode Lr (tW x) (dsel dr0 dr1 t) (fun q' => tf x n c p q') q))
         (pywt_dwt Op mode Lc (tH x) dc1 (fun p => pywt_dwt Op mode Lr (tW x) (dsel dr0 dr1 t) (fun q' => tf x n c p q') q)) i = Rt t q).
    { intros t Ht. unfold H'.
      rewrite (line_pr_mode mode Lc (tH x) dc0 dc1 gc0 gc1 _ i HLc HH ltac:(intros E; apply Hr2; exact E) HPc Hi). reflexivity. }
    split.
    + rewrite <- (Hcol 0) by lia. apply (syn_ext Op). intros p Hp.
      destruct (Hag n c p q Hc Hp Hq) as (A0 & Ab). split.
      * rewrite A0. unfold pywt_dwt2, dsel. change (0 mod 2 =? 0) with true. reflexivity.
      * pose proof (Ab 1 ltac:(lia)) as A1. replace (3*c + (1-1)) with (3*c) in A1 by lia. rewrite A1.
        unfold pywt_dwt2, dsel. change (1/2) with 0. change (1 mod 2) with 1. change (0 mod 2 =? 0) with true. change (1 mod 2 =? 0) with false. reflexivity.
    + rewrite <- (Hcol 1) by lia. apply (syn_ext Op). intros p Hp.
      destruct (Hag n c p q Hc Hp Hq) as (A0 & Ab). split.
      * pose proof (Ab 2 ltac:(lia)) as A2. replace (3*c + (2-1)) with (3*c+1) in A2 by lia. rewrite A2.
        unfold pywt_dwt2, dsel. change (2/2) with 1. change (2 mod 2) with 0. change (0 mod 2 =? 0) with true. change (1 mod 2 =? 0) with false. reflexivity.
      * pose proof (Ab 3 ltac:(lia)) as A3. replace (3*c + (3-1)) with (3*c+2) in A3 by lia. rewrite A3.
        unfold pywt_dwt2, dsel. change (3/2) with 1. change (3 mod 2) with 1. change (1 mod 2 =? 0) with false. reflexivity.
  - unfold Rt, W', dsel. change (0 mod 2 =? 0) with true. change (1 mod 2 =? 0) with false. cbv iota.
    rewrite (line_pr_mode mode Lr (tW x) dr0 dr1 gr0 gr1 _ j HLr HW ltac:(intros E; apply Hr2; exact E) HPr Hj). reflexivity.
Qed.

Definition level_ok2 (mode Lr Lc H W:Z) : Prop :=
  nonper_mode mode /\ level_ok mode Lr W /\ level_ok mode Lc H /\ (mode = M_REFLECT -> 2 <= W /\ 2 <= H).

Theorem pr_level_2d (x:ten) Lr dr0 dr1 gr0 gr1 Lc dc0 dc1 gc0 gc1 mode :
  2 <= Lr -> 2 <= Lc -> 1 <= tW x -> 1 <= tH x -> 0 < tC x -> level_ok2 mode Lr Lc (tH x) (tW x) ->
  PRcond Op Lr dr0 dr1 gr0 gr1 -> PRcond Op Lc dc0 dc1 gc0 gc1 ->
  is_ok (AFB2D_fwd Op x Lr (rev_filt Lr dr0) (rev_filt Lr dr1) Lc (rev_filt Lc dc0) (rev_filt Lc dc1) mode) (fun r =>
    is_ok (SFB2D_fwd Op (fst r) (snd r) Lr gr0 gr1 Lc gc0 gc1 mode) (recon2d x)).
Proof.
  intros HLr HLc HW HH HC (Hm & Hkr & Hkc & Hr2) HPr HPc.
  pose proof (AFB2D_pywt Op Rth x Lr dr0 dr1 Lc dc0 dc1 mode HLr HLc HW HH HC Hkr Hkc Hr2) as Ha.
  destruct (AFB2D_fwd Op x Lr _ _ Lc _ _ mode) as [[low highs]|]; [|contradiction]. cbn [is_ok fst snd] in *.
  destruct Ha as (A1 & A2 & A3 & A4 & B1 & B2 & B3 & B4 & Hv).
  apply (pr_level_2d_ext x low highs Lr dr0 dr1 gr0 gr1 Lc dc0 dc1 gc0 gc1 mode); try assumption.
Qed.

(* ---------------- every J ---------------- *)
Lemma inv2_rev_app (x0:ten) l1 l2 Lr g0r g1r Lc g0c g1c mode :
  DWTInverse_rev Op x0 (l1 ++ l2) Lr g0r g1r Lc g0c g1c mode
  = bind (DWTInverse_rev Op x0 l1 Lr g0r g1r Lc g0c g1c mode) (fun z => DWTInverse_rev Op z l2 Lr g0r g1r Lc g0c g1c mode).
Proof.
  revert x0. induction l1 as [|h l1 IH]; intros x0; cbn [app DWTInverse_rev bind]; [reflexivity|].
  destruct (SFB2D_fwd Op _ _ Lr g0r g1r Lc g0c g1c mode) as [y|e]; cbn [bind]; [apply IH | reflexivity].
Qed.

Fixpoint levels_ok2 (J:nat) (mode Lr Lc H W:Z) : Prop :=
  match J with O => True
  | S J' => 1 <= W /\ 1 <= H /\ level_ok2 mode Lr Lc H W /\ levels_ok2 J' mode Lr Lc ((H + Lc - 1)/2) ((W + Lr - 1)/2) end.

Lemma slice_last_row (z:ten) : 1 <= tH z ->
  let z' := t_pyslice 2 0 (-1) z in
  tN z' = tN z /\ tC z' = tC z /\ tH z' = tH z - 1 /\ tW z' = tW z /\ forall n c i j, tf z' n c i j = tf z n c i j.
Proof.
  intros HH. cbv zeta. unfold t_pyslice, t_slice, t_gather, dlen, pyclip, range_len. change (2 =? 2) with true. cbv iota.
  change (0 <? 0) with false. cbv iota. replace (-1 <? 0) with true by lia.
  replace (Z.min (tH z) 0) with 0 by lia. replace (Z.max 0 (tH z + -1)) with (tH z - 1) by lia.
  destruct (tH z - 1 <=? 0) eqn:E; cbn [tN tC tH tW tf]; repeat apply conj; try lia; intros; f_equal; lia.
Qed.
Lemma slice_last_col (z:ten) : 1 <= tW z ->
  let z' := t_pyslice 3 0 (-1) z in
  tN z' = tN z /\ tC z' = tC z /\ tH z' = tH z /\ tW z' = tW z - 1 /\ forall n c i j, tf z' n c i j = tf z n c i j.
Proof.
  intros HH. cbv zeta. unfold t_pyslice, t_slice, t_gather, dlen, pyclip, range_len. change (3 =? 2) with false. cbv iota.
  change (0 <? 0) with false. cbv iota. replace (-1 <? 0) with true by lia.
  replace (Z.min (tW z) 0) with 0 by lia. replace (Z.max 0 (tW z + -1)) with (tW z - 1) by lia.
  destruct (tW z - 1 <=? 0) eqn:E; cbn [tN tC tH tW tf]; repeat apply conj; try lia; intros; f_equal; lia.
Qed.

Theorem pr_multilevel_2d (J:nat) : forall (x:ten) Lr dr0 dr1 gr0 gr1 Lc dc0 dc1 gc0 gc1 mode,
  2 <= Lr -> 2 <= Lc -> 0 < tC x -> 1 <= tW x -> 1 <= tH x -> levels_ok2 J mode Lr Lc (tH x) (tW x) ->
  PRcond Op Lr dr0 dr1 gr0 gr1 -> PRcond Op Lc dc0 dc1 gc0 gc1 ->
  is_ok (DWTForward Op J x Lr (rev_filt Lr dr0) (rev_filt Lr dr1) Lc (rev_filt Lc dc0) (rev_filt Lc dc1) mode) (fun r =>
    is_ok (DWTInverse Op (fst r) (map Some (snd r)) Lr gr0 gr1 Lc gc0 gc1 mode) (recon2d x)).
Proof.
  induction J as [|J IH]; intros x Lr dr0 dr1 gr0 gr1 Lc dc0 dc1 gc0 gc1 mode HLr HLc HC HW HH Hlv HPr HPc.
  - cbn [DWTForward is_ok fst snd map]. unfold DWTInverse. cbn [rev DWTInverse_rev is_ok]. unfold recon2d. repeat split; try lia.
  - destruct Hlv as (HW1 & HH1 & Hok & Hrest). pose proof Hok as (Hm & Hkr & Hkc & Hr2).
    cbn [DWTForward].
    pose proof (AFB2D_pywt Op Rth x Lr dr0 dr1 Lc dc0 dc1 mode HLr HLc HW HH HC Hkr Hkc Hr2) as Ha.
    destruct (AFB2D_fwd Op x Lr _ _ Lc _ _ mode) as [[low highs]|]; [|contradiction]. cbn [is_ok bind] in *.
    destruct Ha as (A1 & A2 & A3 & A4 & B1 & B2 & B3 & B4 & Hv).
    set (H' := (tH x + Lc - 1)/2) in *. set (W' := (tW x + Lr - 1)/2) in *.
    assert (HH': 1 <= H') by (unfold H'; lia). assert (HW': 1 <= W') by (unfold W'; lia).
    specialize (IH low Lr dr0 dr1 gr0 gr1 Lc dc0 dc1 gc0 gc1 mode HLr HLc ltac:(lia) ltac:(lia) ltac:(lia)
                  ltac:(rewrite A3, A4; exact Hrest) HPr HPc).
    destruct (DWTForward Op J low Lr _ _ Lc _ _ mode) as [[yl yh]|]; [|contradiction]. cbn [is_ok bind fst snd] in *.
    unfold DWTInverse in *. cbn [map rev]. rewrite inv2_rev_app.
    destruct (DWTInverse_rev Op yl (rev (map Some yh)) Lr gr0 gr1 Lc gc0 gc1 mode) as [z|]; [|contradiction]. cbn [is_ok bind] in *.
    destruct IH as (Z1 & Z2 & Z3 & Z4 & Z5). rewrite A1, A2, A3, A4 in *.
    cbn [DWTInverse_rev]. rewrite B3.
    set (z1 := if H' <? tH z then t_pyslice 2 0 (-1) z else z).
    assert (Hz1: tN z1 = tN x /\ tC z1 = tC x /\ tH z1 = H' /\ tW z1 = tW z /\ forall n c i j, tf z1 n c i j = tf z n c i j).
    { unfold z1. destruct (H' <? tH z) eqn:E.
      - pose proof (slice_last_row z ltac:(lia)) as Hs. cbv zeta in Hs. destruct Hs as (S1 & S2 & S3 & S4 & S5).
        repeat apply conj; try lia. exact S5.
      - repeat apply conj; try lia. intros; reflexivity. }
    destruct Hz1 as (P1 & P2 & P3 & P4 & P5). rewrite B4.
    set (z2 := if W' <? tW z1 then t_pyslice 3 0 (-1) z1 else z1).
    assert (Hz2: tN z2 = tN x /\ tC z2 = tC x /\ tH z2 = H' /\ tW z2 = W' /\ forall n c i j, tf z2 n c i j = tf z n c i j).
    { unfold z2. destruct (W' <? tW z1) eqn:E.
      - pose proof (slice_last_col z1 ltac:(lia)) as Hs. cbv zeta in Hs. destruct Hs as (S1 & S2 & S3 & S4 & S5).
        repeat apply conj; try lia. intros. rewrite S5. apply P5.
      - repeat apply conj; try lia. exact P5. }
    destruct Hz2 as (Q1 & Q2 & Q3 & Q4 & Q5).
    assert (Hfin: is_ok (SFB2D_fwd Op z2 highs Lr gr0 gr1 Lc gc0 gc1 mode) (recon2d x)).
    { apply (pr_level_2d_ext x z2 highs Lr dr0 dr1 gr0 gr1 Lc dc0 dc1 gc0 gc1 mode); try assumption; try lia.
      intros n c i j Hc Hi Hj. fold H' in Hi. fold W' in Hj. destruct (Hv n c i j Hc Hi Hj) as (V0 & Vb). split; [|exact Vb].
      rewrite Q5. rewrite Z5 by lia. exact V0. }
    destruct (SFB2D_fwd Op z2 highs Lr gr0 gr1 Lc gc0 gc1 mode) as [y|]; [|contradiction]. cbn [is_ok DWTInverse_rev] in *. exact Hfin.
Qed.
End S.
